(* Linear pipelines (chains of 1:1 stages with savers and the caller): the inductive invariant that ties every
   thread's program counter and counters to the mailboxes it reads and writes.  Definitions and the facts
   about the message stream, min_read and the reader's buffer. *)
From SV Require Import Base.Prelude Model.Mailbox Proof.MailboxFacts Model.MailboxFail Proof.MailboxFailFacts
  Proof.MailboxFailWake Proof.MailboxFailStruct.
Local Open Scope nat_scope.

(* ---------- the message stream of every mailbox of a 1:1 pipeline: chunks 0..N-1 then the end marker ---------- *)
Definition MS (N : nat) : list msg := map (fun k => Plain (Z.of_nat k)) (seq 0 N) ++ [Stop].
Definition zs (n : nat) : list Z := map Z.of_nat (seq 0 n).

Lemma MS_length N : length (MS N) = S N.
Proof. unfold MS. rewrite app_length, map_length, seq_length. cbn. lia. Qed.
Lemma MS_data N k : k < N -> nth_error (MS N) k = Some (Plain (Z.of_nat k)).
Proof.
  intros H. unfold MS. rewrite nth_error_app1 by (rewrite map_length, seq_length; auto).
  rewrite nth_error_map. rewrite (nth_error_nth' _ 0) by (rewrite seq_length; auto).
  rewrite seq_nth by auto. reflexivity.
Qed.
Lemma MS_stop N : nth_error (MS N) N = Some Stop.
Proof.
  unfold MS. rewrite nth_error_app2 by (rewrite map_length, seq_length; auto).
  rewrite map_length, seq_length, Nat.sub_diag. reflexivity.
Qed.
Lemma zs_S n : zs (S n) = zs n ++ [Z.of_nat n].
Proof. unfold zs. rewrite seq_S, map_app. reflexivity. Qed.

(* the messages numbered a .. a+len-1 *)
Definition msgs (N a len : nat) : list msg := firstn len (skipn a (MS N)).

Lemma skipn_nth_error {A} (l : list A) n x : nth_error l n = Some x -> skipn n l = x :: skipn (S n) l.
Proof. revert n; induction l as [|h t IH]; intros [|n] E; cbn in *; try congruence. apply IH. auto. Qed.

Lemma msgs_0 N a : msgs N a 0 = []. Proof. reflexivity. Qed.
Lemma msgs_S_data N a len : a < N -> msgs N a (S len) = Plain (Z.of_nat a) :: msgs N (S a) len.
Proof. intros H. unfold msgs. rewrite (skipn_nth_error _ _ _ (MS_data N a H)). reflexivity. Qed.
Lemma msgs_S_stop N len : msgs N N (S len) = [Stop].
Proof.
  unfold msgs. rewrite (skipn_nth_error _ _ _ (MS_stop N)). cbn [firstn]. f_equal.
  rewrite skipn_all2 by (rewrite MS_length; lia). destruct len; reflexivity.
Qed.
Lemma msgs_length N a len : a + len <= S N -> length (msgs N a len) = len.
Proof. intros H. unfold msgs. rewrite firstn_length, skipn_length, MS_length. lia. Qed.

Lemma stop_in_msgs N a len : a + len <= S N -> stop_in (msgs N a len) = (0 <? len) && (a + len =? S N).
Proof.
  revert a; induction len as [|l IH]; intros a H; [reflexivity|].
  destruct (Nat.lt_ge_cases a N) as [Ha|Ha].
  - rewrite msgs_S_data by auto. cbn [stop_in is_stop orb]. rewrite IH by lia.
    destruct l as [|l].
    + cbn. symmetry. apply Nat.eqb_neq. lia.
    + cbn [Nat.ltb Nat.leb andb]. f_equal. lia.
  - assert (a = N) by lia. subst a. rewrite msgs_S_stop. cbn [stop_in is_stop orb].
    assert (l = 0) by lia. subst l. cbn. symmetry. apply Nat.eqb_eq. lia.
Qed.

(* ---------- min_read ---------- *)
Lemma min_read_one h : min_read [h] = sb_nread h. Proof. reflexivity. Qed.
Lemma min_read_cons h h2 t : min_read (h :: h2 :: t) = Nat.min (sb_nread h) (min_read (h2 :: t)).
Proof. reflexivity. Qed.

Lemma min_read_le l i s : nth_error l i = Some s -> min_read l <= sb_nread s.
Proof.
  revert i; induction l as [|h t IH]; intros i H.
  - destruct i; discriminate.
  - destruct t as [|h2 t2].
    + destruct i as [|i]; cbn [nth_error] in H; [inversion H; subst; rewrite min_read_one; lia|].
      destruct i; discriminate.
    + rewrite min_read_cons. destruct i as [|i]; cbn [nth_error] in H.
      * inversion H; subst. lia.
      * specialize (IH _ H). lia.
Qed.

Lemma min_read_in l : l <> [] -> exists i s, nth_error l i = Some s /\ sb_nread s = min_read l.
Proof.
  induction l as [|h t IH]; [congruence|]. intros _.
  destruct t as [|h2 t2].
  - exists 0, h. split; reflexivity.
  - destruct IH as (i & r & Hi & Hr); [congruence|].
    rewrite min_read_cons.
    destruct (Nat.le_gt_cases (sb_nread h) (min_read (h2 :: t2))).
    + exists 0, h. split; [reflexivity|lia].
    + exists (S i), r. split; [exact Hi|lia].
Qed.

Lemma min_read_ge l b : l <> [] -> (forall i s, nth_error l i = Some s -> b <= sb_nread s) -> b <= min_read l.
Proof.
  intros Hne H. destruct (min_read_in l Hne) as (i & r & Hi & Hr). rewrite <- Hr. eauto.
Qed.

(* changing one subscriber without lowering its position does not lower the minimum *)
Lemma min_read_upd_mono l i s' :
  (forall s, nth_error l i = Some s -> sb_nread s <= sb_nread s') -> min_read l <= min_read (upd i s' l).
Proof.
  intros H. destruct l as [|h t]; [cbn; lia|].
  apply min_read_ge.
  - destruct i; cbn; congruence.
  - intros k s Hk. apply nth_error_upd in Hk. destruct Hk as [[-> [-> Hlt]] | [Hne Hk]].
    + destruct (nth_error (h :: t) k) as [s0|] eqn:E.
      * pose proof (min_read_le _ _ _ E). specialize (H _ eq_refl). lia.
      * apply nth_error_None in E. lia.
    + eapply min_read_le; eauto.
Qed.

Lemma min_read_ext l : forall l', map sb_nread l = map sb_nread l' -> min_read l = min_read l'.
Proof.
  induction l as [|h t IH]; intros [|h' t'] H; cbn [map] in H; try discriminate; auto.
  injection H as H1 H2. specialize (IH _ H2).
  destruct t as [|h2 t2], t' as [|h2' t2']; cbn [map] in H2; try discriminate.
  - rewrite !min_read_one. auto.
  - rewrite !min_read_cons. rewrite H1, IH. reflexivity.
Qed.

Lemma min_read_upd_same l i s' :
  (forall s, nth_error l i = Some s -> sb_nread s' = sb_nread s) -> min_read (upd i s' l) = min_read l.
Proof.
  intros H. apply min_read_ext. apply map_upd_same with (d := dflt_sub).
  intros Hi. destruct (nth_error l i) as [s|] eqn:E.
  - rewrite (nth_error_nth_dflt _ _ _ _ E). apply H. reflexivity.
  - apply nth_error_None in E. lia.
Qed.
