(* C18 proofs, part 4: completeness of the hit list; zero_out_of_bounds, integrate and their
   composition with the baseline subtraction. *)
From SV Require Import Model.Hits Model.Reduction Spec.HitsSpec Proof.HitsProof Proof.ReductionProof.

(* ---------- every maximal run is reported ---------- *)
Lemma nthZ_mid (X Y Z' : list Z) j :
  zlen X <= j < zlen X + zlen Y -> In (nthZ (X ++ Y ++ Z') j) Y.
Proof.
  intros H. unfold nthZ, zlen in *. replace (j <? 0) with false by lia.
  rewrite app_nth2 by lia. rewrite app_nth1 by lia. apply nth_In. lia.
Qed.

Lemma nthZ_at (P : list Z) x Q j : j = zlen P -> nthZ (P ++ x :: Q) j = x.
Proof. intros ->. apply nthZ_app_r. Qed.

Lemma record_hits_complete r k thr hs A R B :
  record_hits_spec r k thr hs ->
  run_at thr (firstnZ (r_length r) (r_data r)) A R B ->
  exists h, In h hs /\ h_left h = zlen A /\ h_right h = zlen A + zlen R.
Proof.
  intros (Hall & _ & Hcov) (Hw & Hne & Hsat & HA & HB).
  set (w := firstnZ (r_length r) (r_data r)) in *.
  destruct R as [|x0 R']; [congruence|].
  assert (Hx0 : nthZ w (zlen A) = x0) by (rewrite Hw; apply nthZ_at; reflexivity).
  assert (Hlw : zlen w = zlen A + zlen (x0 :: R') + zlen B) by (rewrite Hw, !zlen_app; lia).
  pose proof (zlen_nonneg A) as HA0. pose proof (zlen_nonneg B) as HB0. pose proof (zlen_nonneg R') as HR0.
  assert (HRl : zlen (x0 :: R') = 1 + zlen R') by apply zlen_cons.
  destruct (Hcov (zlen A)) as (h & Hin & Hrange).
  { lia. }
  { rewrite Hx0. inversion Hsat; auto. }
  exists h. split; [exact Hin|].
  rewrite Forall_forall in Hall. destruct (Hall h Hin) as (A' & R1 & y & R2 & B' & Hrun).
  cbn zeta in Hrun. set (R'' := R1 ++ y :: R2) in *.
  destruct Hrun as ((Hw' & Hne' & Hsat' & HA' & HB') & _ & _ & Hl & Hr & _).
  pose proof (zlen_nonneg A') as HA0'. pose proof (zlen_nonneg B') as HB0'.
  assert (Hlw' : zlen w = zlen A' + zlen R'' + zlen B') by (rewrite Hw', !zlen_app; lia).
  rewrite Hl, Hr in *.
  assert (Hsat_in : forall j, zlen A <= j < zlen A + zlen (x0 :: R') -> satP thr (nthZ w j)).
  { intros j Hj. rewrite Forall_forall in Hsat. apply Hsat. rewrite Hw. apply nthZ_mid. exact Hj. }
  assert (Hsat_in' : forall j, zlen A' <= j < zlen A' + zlen R'' -> satP thr (nthZ w j)).
  { intros j Hj. rewrite Forall_forall in Hsat'. apply Hsat'. rewrite Hw'. apply nthZ_mid. exact Hj. }
  assert (E1 : zlen A' = zlen A).
  { destruct (Z.eq_dec (zlen A') (zlen A)) as [|Hneq]; [auto|exfalso].
    destruct HA as [->|(A0 & y0 & -> & Hns)]; [change (zlen (@nil Z)) with 0 in *; lia|].
    rewrite zlen_app, zlen_cons, zlen_nil in *.
    apply Hns. replace y0 with (nthZ w (zlen A0)).
    - apply Hsat_in'. lia.
    - rewrite Hw, <- app_assoc. cbn [app]. apply nthZ_at. reflexivity. }
  split; [exact E1|]. rewrite E1 in *.
  destruct (Z.lt_trichotomy (zlen A + zlen R'') (zlen A + zlen (x0 :: R'))) as [Hlt|[Heq|Hgt]]; [exfalso| exact Heq |exfalso].
  - (* the hit ends early: the sample after it is at or above threshold, yet it closed the run *)
    destruct HB' as [->|(y' & B0 & -> & Hns)]; [change (zlen (@nil Z)) with 0 in *; lia|].
    apply Hns. replace y' with (nthZ w (zlen A + zlen R'')).
    + apply Hsat_in. lia.
    + rewrite Hw', app_assoc. apply nthZ_at. rewrite zlen_app. lia.
  - destruct HB as [->|(yb & B0 & -> & Hns)]; [change (zlen (@nil Z)) with 0 in *; lia|].
    apply Hns. replace yb with (nthZ w (zlen A + zlen (x0 :: R'))).
    + apply Hsat_in'. lia.
    + rewrite Hw, app_assoc. apply nthZ_at. rewrite zlen_app. lia.
Qed.

(* ---------- zero_out_of_bounds ---------- *)
Lemma zero_range_length : forall dst i lo hi, length (zero_range i lo hi dst) = length dst.
Proof. induction dst as [|d dst IH]; intros i lo hi; cbn [zero_range length]; auto. Qed.

Lemma zero_range_nth : forall dst i lo hi k, (k < length dst)%nat ->
  nth k (zero_range i lo hi dst) 0 =
  if (lo <=? i + Z.of_nat k) && (i + Z.of_nat k <? hi) then 0 else nth k dst 0.
Proof.
  induction dst as [|d dst IH]; intros i lo hi k Hk; cbn [length] in *; [lia|].
  cbn [zero_range]. destruct k as [|k].
  - cbn [nth]. replace (i + Z.of_nat 0) with i by lia. reflexivity.
  - cbn [nth]. rewrite IH by lia. replace (i + 1 + Z.of_nat k) with (i + Z.of_nat (S k)) by lia. reflexivity.
Qed.

Lemma zero_oob_nth spr r k :
  zlen (r_data r) = spr -> 0 <= r_length r -> (k < length (r_data r))%nat ->
  nth k (r_data (zero_oob_rec spr r)) 0 = if Z.of_nat k <? r_length r then nth k (r_data r) 0 else 0.
Proof.
  intros Hn HL Hk. unfold zero_oob_rec. destruct (r_length r <? spr) eqn:E.
  - destruct r as [? r_length0 ? ? ? ? ? ? ? ? ? r_data0]; cbn [Hits.r_data set_data Hits.r_length] in *. rewrite zero_range_nth by auto.
    unfold norm_idx. replace (r_length0 <? 0) with false by lia. unfold zlen in *.
    destruct (Z.of_nat k <? r_length0) eqn:E2.
    + replace (Z.min r_length0 (Z.of_nat (length r_data0)) <=? 0 + Z.of_nat k) with false by lia. reflexivity.
    + replace (Z.min r_length0 (Z.of_nat (length r_data0)) <=? 0 + Z.of_nat k) with true by lia.
      replace (0 + Z.of_nat k <? Z.of_nat (length r_data0)) with true by lia. reflexivity.
  - replace (Z.of_nat k <? r_length r) with true; [reflexivity|]. unfold zlen in *. lia.
Qed.

Lemma zero_oob_length spr r : length (r_data (zero_oob_rec spr r)) = length (r_data r).
Proof.
  unfold zero_oob_rec. destruct (r_length r <? spr); [|reflexivity].
  destruct r as [? r_length0 ? ? ? ? ? ? ? ? ? r_data0]; cbn [Hits.r_data set_data]. apply zero_range_length.
Qed.

Lemma nthZ_nat l s : 0 <= s -> nthZ l s = nth (Z.to_nat s) l 0.
Proof. intros H. unfold nthZ. replace (s <? 0) with false by lia. reflexivity. Qed.

Lemma zero_oob_rec_spec spr r :
  zlen (r_data r) = spr -> 0 <= r_length r ->
  let o := zero_oob_rec spr r in
  o = set_data r (r_data o) /\ zlen (r_data o) = spr /\
  forall s, 0 <= s < spr -> nthZ (r_data o) s = if s <? r_length r then nthZ (r_data r) s else 0.
Proof.
  intros Hn HL o. split; [|split].
  - unfold o, zero_oob_rec. destruct (r_length r <? spr); destruct r; reflexivity.
  - unfold o, zlen. rewrite zero_oob_length. exact Hn.
  - intros s Hs. rewrite !nthZ_nat by lia. unfold o. rewrite zero_oob_nth; auto.
    + rewrite Z2Nat.id by lia. reflexivity.
    + unfold zlen in Hn. lia.
Qed.

(* ---------- integrate ---------- *)
Lemma rhe16_spec num :
  let k := round_half_even_div num FR in
  2 * Z.abs (FR * k - num) <= FR /\ (2 * Z.abs (FR * k - num) = FR -> Z.even k = true).
Proof.
  unfold round_half_even_div, FR. cbn zeta.
  pose proof (Z.div_mod num 16 ltac:(lia)) as Hdm.
  pose proof (Z.mod_pos_bound num 16 ltac:(lia)) as Hm.
  set (q := num / 16) in *. set (m := num mod 16) in *.
  destruct (2 * m <? 16) eqn:E1; [split; [lia|intros; lia]|].
  destruct (2 * m >? 16) eqn:E2; [split; [lia|intros; lia]|].
  destruct (Z.even q) eqn:E3; [split; [lia|auto]|].
  split; [lia|]. intros _. replace (q + 1) with (Z.succ q) by lia.
  rewrite Z.even_succ. rewrite <- Z.negb_even. rewrite E3. reflexivity.
Qed.

Lemma integrate_rec_spec r :
  let o := integrate_rec r in
  o = set_area r (r_area o) /\
  exists k, r_area o = zsum (r_data r) * 2 ^ r_shift r + k /\
            2 * Z.abs (FR * k - (r_bl r mod FR) * r_length r) <= FR /\
            (2 * Z.abs (FR * k - (r_bl r mod FR) * r_length r) = FR -> Z.even k = true).
Proof.
  cbn zeta. split; [destruct r; reflexivity|].
  exists (round_half_even_div ((r_bl r mod FR) * r_length r) FR).
  split; [destruct r; reflexivity|]. apply rhe16_spec.
Qed.

(* ---------- baseline subtraction, zeroing and integration together ---------- *)
Lemma zsum_pointwise (f : Z -> Z) : forall (l d : list Z) (i L : Z),
  length l = length d ->
  (forall k, (k < length l)%nat -> nth k l 0 = if i + Z.of_nat k <? L then f (nth k d 0) else 0) ->
  zsum l = zsum (map f (firstn (Z.to_nat (L - i)) d)).
Proof.
  induction l as [|x l IH]; intros [|y d] i L Hl Hp; cbn [length] in Hl; try lia.
  - destruct (Z.to_nat (L - i)); reflexivity.
  - pose proof (Hp 0%nat ltac:(cbn [length]; lia)) as H0. cbn [nth] in H0. replace (i + Z.of_nat 0) with i in H0 by lia.
    assert (IH' : zsum l = zsum (map f (firstn (Z.to_nat (L - (i + 1))) d))).
    { apply IH; [lia|]. intros k Hk. pose proof (Hp (S k) ltac:(cbn [length]; lia)) as Hk'. cbn [nth] in Hk'.
      rewrite Hk'. replace (i + Z.of_nat (S k)) with (i + 1 + Z.of_nat k) by lia. reflexivity. }
    cbn [zsum]. rewrite IH', H0. destruct (i <? L) eqn:E.
    + replace (Z.to_nat (L - i)) with (S (Z.to_nat (L - (i + 1)))) by lia. cbn [firstn map zsum]. reflexivity.
    + replace (Z.to_nat (L - i)) with 0%nat by lia. replace (Z.to_nat (L - (i + 1))) with 0%nat by lia.
      cbn [firstn map zsum]. reflexivity.
Qed.

Lemma zsum_map_sub c : forall l, zsum (map (fun x => c - x) l) = zlen l * c - zsum l.
Proof.
  induction l as [|x l IH]; [reflexivity|]. cbn [map zsum]. rewrite IH, zlen_cons. lia.
Qed.

Lemma bl_apply_nth bl d k :
  0 <= r_length d <= zlen (r_data d) -> 0 <= bl -> (k < length (r_data d))%nat ->
  nth k (r_data (bl_apply true bl d)) 0 =
  if Z.of_nat k <? r_length d then bl / FR - nth k (r_data d) 0 else nth k (r_data d) 0.
Proof.
  intros HL Hbl Hk. unfold bl_apply. destruct d as [? r_length0 ? ? ? ? ? ? ? ? ? r_data0]; cbn [Hits.r_data set_bl Hits.r_length] in *.
  rewrite copy_range_nth; [| rewrite map_length; reflexivity | exact Hk].
  unfold norm_idx. replace (r_length0 <? 0) with false by lia.
  replace (Z.min r_length0 (zlen r_data0)) with r_length0 by lia.
  replace (0 <=? 0 + Z.of_nat k) with true by lia. cbn [andb]. replace (0 + Z.of_nat k) with (Z.of_nat k) by lia.
  destruct (Z.of_nat k <? r_length0); [|reflexivity].
  set (f := fun x : Z => - (x - Z.quot bl FR)).
  assert (E : nth k (map f r_data0) 0 = f (nth k r_data0 0)).
  { rewrite nth_indep with (d' := f 0) by (rewrite map_length; exact Hk). apply map_nth. }
  rewrite E. unfold f. rewrite Z.quot_div_nonneg by (unfold FR; lia). lia.
Qed.

Lemma bl_apply_length bl d : length (r_data (bl_apply true bl d)) = length (r_data d).
Proof.
  unfold bl_apply. destruct d as [? r_length0 ? ? ? ? ? ? ? ? ? r_data0]; cbn [Hits.r_data set_bl]. rewrite copy_range_length. reflexivity.
Qed.

Lemma baseline_integrate_consistent spr bl d :
  zlen (r_data d) = spr -> 0 <= r_length d <= spr -> 0 <= bl -> r_shift d = 0 ->
  let o := integrate_rec (zero_oob_rec spr (bl_apply true bl d)) in
  r_bl o = bl /\
  (forall s, 0 <= s < spr ->
     nthZ (r_data o) s = if s <? r_length d then bl / FR - nthZ (r_data d) s else 0) /\
  2 * Z.abs (FR * r_area o - (r_length d * bl - FR * zsum (firstnZ (r_length d) (r_data d)))) <= FR.
Proof.
  intros Hn HL Hbl Hsh. cbn zeta.
  set (o1 := bl_apply true bl d). set (o2 := zero_oob_rec spr o1).
  assert (Hlen1 : r_length o1 = r_length d) by (unfold o1, bl_apply; destruct d; reflexivity).
  assert (Hn1 : zlen (r_data o1) = spr) by (unfold zlen, o1; rewrite bl_apply_length; exact Hn).
  assert (Hbl1 : r_bl o1 = bl) by (unfold o1, bl_apply; destruct d; reflexivity).
  assert (Hsh1 : r_shift o1 = 0) by (unfold o1, bl_apply; destruct d; exact Hsh).
  assert (Hpt : forall k, (k < length (r_data o2))%nat ->
                 nth k (r_data o2) 0 = if 0 + Z.of_nat k <? r_length d then (fun x => bl / FR - x) (nth k (r_data d) 0) else 0).
  { intros k Hk. unfold o2 in *. rewrite zero_oob_length in Hk. rewrite zero_oob_nth; auto; [|lia].
    rewrite Hlen1. replace (0 + Z.of_nat k) with (Z.of_nat k) by lia.
    destruct (Z.of_nat k <? r_length d) eqn:E; [|reflexivity].
    unfold o1 in *. rewrite bl_apply_length in Hk. rewrite bl_apply_nth; auto; [|lia]. rewrite E. reflexivity. }
  assert (Hl2 : length (r_data o2) = length (r_data d)).
  { unfold o2. rewrite zero_oob_length. unfold o1. apply bl_apply_length. }
  assert (Hmeta2 : r_bl o2 = bl /\ r_shift o2 = 0 /\ r_length o2 = r_length d).
  { unfold o2, zero_oob_rec. destruct (r_length o1 <? spr); destruct o1; cbn in *; auto. }
  destruct Hmeta2 as (Hbl2 & Hsh2 & Hlen2).
  split; [destruct o2; cbn in *; exact Hbl2|]. split.
  - intros s Hs. replace (r_data (integrate_rec o2)) with (r_data o2) by (destruct o2; reflexivity).
    rewrite !nthZ_nat by lia. rewrite Hpt by (rewrite Hl2; unfold zlen in Hn; lia).
    replace (0 + Z.of_nat (Z.to_nat s)) with s by lia. reflexivity.
  - pose proof (zsum_pointwise (fun x => bl / FR - x) (r_data o2) (r_data d) 0 (r_length d) Hl2 Hpt) as Hsum.
    rewrite zsum_map_sub in Hsum. replace (r_length d - 0) with (r_length d) in Hsum by lia.
    fold (firstnZ (r_length d) (r_data d)) in Hsum.
    assert (Hfl : zlen (firstnZ (r_length d) (r_data d)) = r_length d).
    { unfold zlen, firstnZ. rewrite firstn_length. unfold zlen in Hn. lia. }
    rewrite Hfl in Hsum.
    destruct (integrate_rec_spec o2) as (_ & k & Hk & Hr & _). cbn zeta in *.
    rewrite Hk, Hsh2, Hbl2, Hlen2, Hsum in *. change (2 ^ 0) with 1.
    pose proof (Z.div_mod bl FR ltac:(unfold FR; lia)) as Hdm. unfold FR in *.
    nia.
Qed.
