(* diff, _find_break_i, from_break: the running-maximum loops equal the direct definitions.
   No precondition on the data is needed (sortedness is not used by these loops). *)
From SV Require Import Model.Rows Model.Intervals Spec.IntervalDefs.

Definition maxend (l : list row) : Z :=
  match l with [] => 0 | r :: rest => maxl (re r) (map re rest) end.

Lemma maxl_snoc d l y : maxl d (l ++ [y]) = Z.max (maxl d l) y.
Proof.
  unfold maxl. induction l as [|x l IH]; cbn [app fold_right]; [lia|]. rewrite IH. lia.
Qed.

Lemma maxend_snoc pre d : pre <> [] -> maxend (pre ++ [d]) = Z.max (maxend pre) (re d).
Proof.
  destruct pre as [|r pre]; [congruence|]. intros _. cbn [app maxend].
  rewrite map_app. cbn [map]. apply maxl_snoc.
Qed.

Lemma max_end_before_pre pre rest : max_end_before (pre ++ rest) (length pre) = maxend pre.
Proof. unfold max_end_before, maxend. rewrite firstn_app, Nat.sub_diag, firstn_all. cbn [firstn]. rewrite app_nil_r. reflexivity. Qed.

Lemma nth_pre pre (d : row) rest : nth (length pre) (pre ++ d :: rest) srow0 = d.
Proof. rewrite app_nth2 by lia. rewrite Nat.sub_diag. reflexivity. Qed.

(* ---------- diff ---------- *)
Fixpoint dg (M : Z) (rs : list row) : list Z :=
  match rs with [] => [] | d :: r => (rt d - M) :: dg (Z.max M (re d)) r end.

Lemma diff_go_dg mx pe rs : diff_go mx pe rs = dg (Z.max mx pe) rs.
Proof.
  revert mx pe; induction rs as [|d r IH]; intros mx pe; cbn [diff_go dg]; [reflexivity|].
  rewrite IH. reflexivity.
Qed.

Lemma dg_spec : forall rest pre,
  pre <> [] ->
  dg (maxend pre) rest =
  map (fun i => rt (nth (S i) (pre ++ rest) srow0) - max_end_before (pre ++ rest) (S i))
      (seq (length pre - 1) (length rest)).
Proof.
  induction rest as [|d r IH]; intros pre Hne; [reflexivity|].
  cbn [dg length seq map].
  assert (Hlen : S (length pre - 1) = length pre) by (destruct pre; [congruence|cbn; lia]).
  rewrite Hlen. f_equal.
  - rewrite nth_pre, max_end_before_pre. reflexivity.
  - rewrite <- maxend_snoc by auto.
    specialize (IH (pre ++ [d])). rewrite <- app_assoc in IH. cbn [app] in IH.
    rewrite IH by (destruct pre; discriminate).
    rewrite app_length. cbn [length]. replace (length pre + 1 - 1)%nat with (length pre) by lia. reflexivity.
Qed.

Theorem diff_eq_spec rs : diff rs = diff_spec rs.
Proof.
  destruct rs as [|d0 rest]; [reflexivity|].
  unfold diff, diff_spec. rewrite diff_go_dg, Z.max_id.
  change (re d0) with (maxend [d0]). rewrite (dg_spec rest [d0]) by discriminate.
  cbn [app length Nat.sub]. rewrite Nat.sub_0_r. reflexivity.
Qed.

(* element-wise reading *)
Lemma nth_map_lt {A B} (f : A -> B) l i d d' : (i < length l)%nat -> nth i (map f l) d = f (nth i l d').
Proof.
  revert i; induction l as [|x l IH]; intros i H; cbn [length] in H; [lia|].
  destruct i as [|i]; cbn [map nth]; [reflexivity|]. apply IH. lia.
Qed.

Corollary diff_nth rs i :
  (S i < length rs)%nat ->
  nth i (diff rs) 0 = rt (nth (S i) rs srow0) - max_end_before rs (S i).
Proof.
  intros H. rewrite diff_eq_spec. unfold diff_spec.
  rewrite (nth_map_lt _ _ i 0 0%nat) by (rewrite seq_length; lia).
  rewrite seq_nth by lia. reflexivity.
Qed.

Lemma diff_length rs : length (diff rs) = (length rs - 1)%nat.
Proof. rewrite diff_eq_spec. unfold diff_spec. rewrite map_length, seq_length. reflexivity. Qed.

Example diff_ex :
  diff [mkrow 1 2 0 0; mkrow 5 6 1 0; mkrow 5 9 2 0; mkrow 7 8 3 0] = [3; -1; -2] /\ diff [] = [] /\
  diff [mkrow 1 2 0 0] = [].
Proof. vm_compute. repeat split; reflexivity. Qed.

(* ---------- _find_break_i ---------- *)
Lemma fb_go_spec sb nb : forall rest pre,
  pre <> [] ->
  fb_go (Z.max nb (maxend pre)) sb (length pre) rest =
  find (is_break (pre ++ rest) sb nb) (seq (length pre) (length rest)).
Proof.
  induction rest as [|d r IH]; intros pre Hne; [reflexivity|].
  cbn [fb_go length seq find].
  unfold is_break at 1. rewrite nth_pre, max_end_before_pre.
  destruct (rt d >=? Z.max nb (maxend pre) + sb); [reflexivity|].
  specialize (IH (pre ++ [d])). rewrite <- app_assoc in IH. cbn [app] in IH.
  rewrite app_length in IH. cbn [length] in IH. replace (length pre + 1)%nat with (S (length pre)) in IH by lia.
  rewrite <- IH by (destruct pre; discriminate).
  rewrite maxend_snoc by auto. f_equal. lia.
Qed.

Theorem find_break_i_eq_spec rs sb nb :
  (2 <= length rs)%nat ->
  find_break_i rs sb nb =
  match find_break_spec rs sb nb with Some i => Ok i | None => Err 1 end.
Proof.
  destruct rs as [|d0 [|d1 rest]]; cbn [length]; try lia. intros _.
  unfold find_break_i, find_break_spec.
  pose proof (fb_go_spec sb nb (d1 :: rest) [d0]) as H.
  cbn [length maxend maxl map fold_right app] in H. rewrite H by discriminate.
  cbn [length Nat.sub]. try rewrite Nat.sub_0_r. reflexivity.
Qed.

Theorem find_break_i_short rs sb nb : (length rs < 2)%nat -> find_break_i rs sb nb = Err 3.
Proof. destruct rs as [|d0 [|d1 rest]]; cbn [length]; try lia; reflexivity. Qed.

(* semantic reading: the first index >= 1 whose start clears the running maximum end (lower
   bounded by not_before) by safe_break; NoBreakFound iff there is none *)
Theorem find_break_i_sem rs sb nb :
  (2 <= length rs)%nat ->
  match find_break_i rs sb nb with
  | Ok i => (1 <= i < length rs)%nat /\ is_break rs sb nb i = true /\
            forall j, (1 <= j < i)%nat -> is_break rs sb nb j = false
  | Err c => c = 1 /\ forall j, (1 <= j < length rs)%nat -> is_break rs sb nb j = false
  end.
Proof.
  intros Hlen. rewrite find_break_i_eq_spec by auto. unfold find_break_spec.
  remember (length rs - 1)%nat as n eqn:Hn.
  assert (Hgen : forall n s,
    match find (is_break rs sb nb) (seq s n) with
    | Some i => (s <= i < s + n)%nat /\ is_break rs sb nb i = true /\
                forall j, (s <= j < i)%nat -> is_break rs sb nb j = false
    | None => forall j, (s <= j < s + n)%nat -> is_break rs sb nb j = false
    end).
  { clear. induction n as [|n IH]; intros s; cbn [seq find].
    - intros j Hj. lia.
    - destruct (is_break rs sb nb s) eqn:E.
      + split; [lia|]. split; [auto|]. intros j Hj. lia.
      + specialize (IH (S s)). destruct (find (is_break rs sb nb) (seq (S s) n)) as [i|].
        * destruct IH as (H1 & H2 & H3). split; [lia|]. split; [auto|].
          intros j Hj. destruct (Nat.eq_dec j s) as [->|Hne]; [auto|apply H3; lia].
        * intros j Hj. destruct (Nat.eq_dec j s) as [->|Hne]; [auto|apply IH; lia]. }
  specialize (Hgen n 1%nat). destruct (find (is_break rs sb nb) (seq 1 n)) as [i|].
  - destruct Hgen as (H1 & H2 & H3). split; [lia|]. split; auto.
  - split; [reflexivity|]. intros j Hj. apply Hgen. lia.
Qed.

Theorem from_break_eq_spec rs sb nb left :
  (2 <= length rs)%nat ->
  from_break rs sb nb left false =
  match find_break_spec rs sb nb with
  | Some i => Ok ((if left then firstn i rs else skipn i rs), rt (nth i rs row0))
  | None => Err 1
  end.
Proof.
  intros Hlen. unfold from_break. rewrite find_break_i_eq_spec by auto.
  destruct rs as [|d0 [|d1 rest]]; cbn [length] in Hlen; try lia.
  destruct (find_break_spec (d0 :: d1 :: rest) sb nb); reflexivity.
Qed.

Theorem from_break_errors rs sb nb left :
  from_break rs sb nb left true = Err 2 /\ from_break [] sb nb left false = Err 2 /\
  (length rs = 1%nat -> from_break rs sb nb left false = Err 1).
Proof.
  repeat split. destruct rs as [|d0 [|d1 rest]]; cbn [length]; try lia; try discriminate. reflexivity.
Qed.

Example find_break_ex :
  let rs := [mkrow 1 4 0 0; mkrow 2 3 1 0; mkrow 5 6 2 0; mkrow 9 10 3 0] in
  find_break_i rs 1 0 = Ok 2%nat /\ find_break_i rs 2 0 = Ok 3%nat /\ find_break_i rs 4 0 = Err 1 /\
  find_break_i rs 0 7 = Ok 3%nat /\
  from_break rs 1 0 true false = Ok ([mkrow 1 4 0 0; mkrow 2 3 1 0], 5).
Proof. vm_compute. repeat split; reflexivity. Qed.
