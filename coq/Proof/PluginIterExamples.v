(* Property C08: concrete instances (hypotheses are satisfiable; the pass-limit failure of DESIGN
   section 7 T4 exists and is loud). *)
From SV Require Import Model.Rows Model.SplitArray Model.Chunk Model.PluginIter
     Proof.RowsFacts Proof.SplitArrayProof Proof.ChunkProof Proof.PluginIterProof Proof.PluginIterRound
     Proof.PluginIterLoop Proof.PluginIterSafety Proof.PluginIterStair Proof.PluginIterTotal.

(* two dependencies whose rows mutually straddle: A has [4i, 4i+3), B has [4i+2, 4i+5), i < n *)
Fixpoint stair_rows (n : nat) (off id0 : Z) : list row :=
  match n with
  | O => []
  | S k => stair_rows k off id0 ++ [mkrow (4 * Z.of_nat k + off) (4 * Z.of_nat k + off + 3) (id0 + Z.of_nat k) 0]
  end.

(* A is the pacemaker; its first chunk ends at the start of A's last row, inside B's previous row *)
Definition stair_deps (n : nat) : list (Z * list chunk) :=
  let e := 4 * Z.of_nat n + 6 in
  let base := 4 * (Z.of_nat n - 1) in
  let A := stair_rows n 0 0 in
  let B := stair_rows n 2 100 in
  [(0, [mkchunk 0 base (firstn (n - 1) A) 0 0 (Some 7) 4; mkchunk base e (skipn (n - 1) A) 0 0 (Some 7) 4]);
   (1, [mkchunk 0 e B 1 1 (Some 7) 4])].

Definition stair_specs (n : nat) : list dspec :=
  [mkdspec (srows (snd (nth 0 (stair_deps n) (0, [])))) (4 * Z.of_nat n + 6) 0 0;
   mkdspec (srows (snd (nth 1 (stair_deps n) (0, [])))) (4 * Z.of_nat n + 6) 1 1].

Lemma wfb_wf c : wfb c = true -> wf c.
Proof.
  intros H. unfold wfb in H. repeat (apply andb_true_iff in H as [H ?]).
  unfold wf. repeat split; try lia.
  - apply sortedb_sound; assumption.
  - apply Forall_forall. intros q Hq. rewrite forallb_forall in H0. specialize (H0 q Hq). lia.
Qed.

Definition view (r : list call * option Z) :=
  (map (fun c => (call_start c, call_end c, map (fun i => map rid (crows i)) (call_inputs c))) (fst r), snd r).

(* a staircase of 3 steps: the inputs are law-abiding and iter succeeds; the first call is trimmed all
   the way down to a zero-duration call at the run start *)
Example stair3_ok : Forall2 (dep_ok (Some 7) 0) (stair_deps 3) (stair_specs 3).
Proof. repeat constructor; cbn; try discriminate; try apply wfb_wf; reflexivity. Qed.

Example stair3_runs :
  view (plugin_iter 3 (stair_deps 3)) = ([(0, 0, [[]; []]); (0, 18, [[0; 1; 2]; [100; 101; 102]])], None).
Proof. vm_compute. reflexivity. Qed.

(* a staircase of 7 steps: law-abiding inputs, and iter raises the too-many-passes error (loud) *)
Example stair7_ok : Forall2 (dep_ok (Some 7) 0) (stair_deps 7) (stair_specs 7).
Proof. repeat constructor; cbn; try discriminate; try apply wfb_wf; reflexivity. Qed.

Example stair7_fails : plugin_iter 3 (stair_deps 7) = ([], Some E_TOO_MANY_PASSES).
Proof. vm_compute. reflexivity. Qed.

(* hence, by the theorem, its staircase at a pacemaker boundary is deeper than the pass limit *)
Example stair7_deep :
  exists c, In c (pacemaker_chunks (stair_deps 7)) /\
            ~ exists y', stair_ok (map (fun d => srows (snd d)) (stair_deps 7)) max_passes (cend c) y'.
Proof.
  apply (iter_too_many_passes_only_if_deep (Some 7) 3 0 (stair_deps 7) (stair_specs 7)).
  - discriminate.
  - exact stair7_ok.
  - rewrite stair7_fails. reflexivity.
Qed.

(* stair_ok is inhabited in a non-trivial way: in the run of PluginIterSafety.ex_run the pacemaker
   boundary 5 is straddled by B's row [4,6); the times agree at 4 after one restart *)
Example ex_stair :
  stair_ok (map (fun d => srows (snd d)) [ex_depA; ex_depB]) 2 5 4.
Proof.
  assert (SA : forall y, ~ straddled (srows (snd ex_depA)) y \/ (y = 1 \/ y = 6)).
  { intros y. destruct (Z.eq_dec y 1); [auto|]. destruct (Z.eq_dec y 6); [auto|]. left.
    intros [q [Hq [H1 H2]]]. cbn in Hq. destruct Hq as [<-|[<-|[]]]; cbn in *; lia. }
  assert (nA4 : ~ straddled (srows (snd ex_depA)) 4) by (destruct (SA 4) as [H|[H|H]]; [exact H|lia|lia]).
  assert (nA5 : ~ straddled (srows (snd ex_depA)) 5) by (destruct (SA 5) as [H|[H|H]]; [exact H|lia|lia]).
  assert (nB4 : ~ straddled (srows (snd ex_depB)) 4).
  { intros [q [Hq [H1 H2]]]. cbn in Hq. destruct Hq as [<-|[<-|[<-|[]]]]; cbn in *; lia. }
  assert (sB5 : straddled (srows (snd ex_depB)) 5).
  { exists (mkrow 4 6 101 0). split; [cbn; auto|]. unfold straddles; cbn; lia. }
  assert (admA5 : adm (srows (snd ex_depA)) 5 5) by (split; [lia|split; [exact nA5|intros; lia]]).
  assert (admB5 : adm (srows (snd ex_depB)) 5 4).
  { split; [lia|]. split; [exact nB4|]. intros z Hz. assert (z = 5) by lia. subst. exact sB5. }
  apply (stair_next _ 1 5 4 4).
  - intros R [<-|[<-|[]]]; [exists 5; split; [exact admA5|lia]|exists 4; split; [exact admB5|lia]].
  - exists (srows (snd ex_depB)). split; [right; left; reflexivity|exact admB5].
  - intros H. specialize (H _ (or_introl eq_refl)). pose proof (adm_unique _ _ _ _ H admA5). lia.
  - apply stair_done. intros R [<-|[<-|[]]].
    + split; [lia|]. split; [exact nA4|intros; lia].
    + split; [lia|]. split; [exact nB4|intros; lia].
Qed.
