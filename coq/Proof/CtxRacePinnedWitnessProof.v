(* Concrete two-worker interleavings that refute race freedom of the Context code (finding D7), on the
   configurations extracted from the real code (Model/CtxRaceWitness.v); each is replayed line by line on
   the real strax by the check. *)
From SV Require Import Base.Prelude Model.CtxRacePinned Model.CtxRacePinnedWitness Proof.CtxRacePinnedProof.

Definition statuses (s : sys) : list status := map th_status (s_ths s).
Definition all_done (s : sys) : bool := forallb th_done (s_ths s).
Definition gots (s : sys) : list (list (list name)) := map th_got (s_ths s).

(* The unrestricted statement: whenever the workers' calls succeed when executed one after the other,
   they succeed under every interleaving and every worker obtains the plugins it obtains sequentially. *)
Definition ctx_race_free_stmt : Prop :=
  forall (c : cfgm) (sh : shared) (progs : list (list task)) (n : nat),
    all_done (run_all c sh progs [] n) = true ->
    forall sched, all_done (run_all c sh progs sched n) = true /\
                  gots (run_all c sh progs sched n) = gots (run_all c sh progs [] n).

(* D7a, several same-kind targets: worker 1 has registered its temporary merge plugin and iterates the
   registry in Context.register; worker 0 runs its whole call, its cleanup deletes the temporary plugin;
   worker 1's next `next()` fails: RuntimeError dictionary changed size during iteration *)
Lemma wa1_sequential_ok : all_done (run_all wa1_cfg wa1_sh wa1_progs [] 400) = true.
Proof. vm_compute. reflexivity. Qed.
Lemma wa1_crash :
  statuses (run_all wa1_cfg wa1_sh wa1_progs wa1_sched 400) = [Done; Crashed K_ITER L_REG_ITER].
Proof. vm_compute. reflexivity. Qed.

(* D7a, KeyError flavour: worker 0's cleanup deletes the temporary plugin worker 1 registered and is about
   to look up in is_stored *)
Lemma wa2_sequential_ok : all_done (run_all wa2_cfg wa2_sh wa2_progs [] 400) = true.
Proof. vm_compute. reflexivity. Qed.
Lemma wa2_crash :
  statuses (run_all wa2_cfg wa2_sh wa2_progs wa2_sched 400) = [Done; Crashed K_KEY 25].
Proof. vm_compute. reflexivity. Qed.

(* D7b, ONE target, cold plugin cache: worker 1 iterates the shared plugin cache in
   __get_requested_plugins_from_cache while worker 0 adds its freshly built plugin to it *)
Lemma wb1_sequential_ok : all_done (run_all wb1_cfg wb1_sh wb1_progs [] 400) = true.
Proof. vm_compute. reflexivity. Qed.
Lemma wb1_crash :
  statuses (run_all wb1_cfg wb1_sh wb1_progs wb1_sched 400) = [Done; Crashed K_ITER L_RFC_ITER].
Proof. vm_compute. reflexivity. Qed.

(* D7b, lost cache: both workers see `_fixed_plugin_cache is None`; worker 1 creates and fills the cache,
   finds `src` cached; worker 0 then replaces the cache by an empty one; worker 1 reads the new, empty
   cache: KeyError 'src' *)
Lemma wb2_sequential_ok : all_done (run_all wb2_cfg wb2_sh wb2_progs [] 400) = true.
Proof. vm_compute. reflexivity. Qed.
Lemma wb2_crash :
  statuses (run_all wb2_cfg wb2_sh wb2_progs wb2_sched 400) = [Done; Crashed K_KEY L_RFC_ITER].
Proof. vm_compute. reflexivity. Qed.

Theorem ctx_race_refuted : ~ ctx_race_free_stmt.
Proof.
  intros H. destruct (H wa1_cfg wa1_sh wa1_progs 400%nat wa1_sequential_ok wa1_sched) as [Hd _].
  revert Hd. vm_compute. discriminate.
Qed.

(* ... and it is refuted for a single target too (cold cache) *)
Theorem ctx_race_refuted_single_target :
  exists sched, all_done (run_all wb1_cfg wb1_sh wb1_progs [] 400) = true /\
                all_done (run_all wb1_cfg wb1_sh wb1_progs sched 400) = false.
Proof. exists wb1_sched. split; vm_compute; reflexivity. Qed.

(* non-vacuity of ctx_race_free_partial: a warm cache and a single target satisfy its hypothesis.
   (configuration: wb1 with the cache already holding both plugins) *)
Definition wb_warm_sh : shared :=
  mkshared (sh_reg wb1_sh) (Some 0%nat) [mkdict [(1, 101); (2, 102)] 0%nat].
Example wb_warm_readonly :
  forallb (fun p => ro_check wb1_cfg wb_warm_sh (init_thread wb1_cfg wb_warm_sh p) 400) wb1_progs = true.
Proof. vm_compute. reflexivity. Qed.
(* ... while the cold configuration does not (its sequential execution writes the cache) *)
Example wb_cold_not_readonly :
  forallb (fun p => ro_check wb1_cfg wb1_sh (init_thread wb1_cfg wb1_sh p) 400) wb1_progs = false.
Proof. vm_compute. reflexivity. Qed.
