(* A termination measure for the C05 mailbox transition system without failures (no killer thread, no
   futures, implicit numbering): every step strictly decreases
        mu st = (R + 2) * (rho_s st + sum over subscribers of rho_r st r) + (number of woken flags set)
   where R is the number of subscribers.  Summed over the mailboxes of a network it bounds the length of
   every schedule of every network: a pipeline always comes to rest (C13_quiescence_reached). *)
From SV Require Import Base.Prelude Model.Mailbox Model.MailboxNet
  Proof.MailboxFacts Proof.MailboxProof Proof.MailboxInOrder Proof.MailboxNetLift Proof.MailboxStepFacts.
Local Open Scope nat_scope.

(* messages the sender still has to put into the mailbox (the end marker included) *)
Definition pending (st : state) : nat :=
  match s_pc st with
  | SGate | SGateWait => S (length (src st))
  | SSend _ _ false | SSendWait _ _ false => S (S (length (src st)))
  | SSend _ _ true | SSendWait _ _ true => 1
  | SKill _ | SDone | SDead => 0
  end.
Definition sphase (st : state) : nat :=
  match s_pc st with SGateWait => 1 | SSend _ _ _ => 2 | SSendWait _ _ _ => 3 | _ => 0 end.
Definition rho_s (st : state) : nat := 4 * pending st - sphase st.
Definition total (st : state) : nat := n_sent st + pending st.

Definition rphase (r : reader) : nat := match r_pc r with REnter _ => 2 | RWait _ => 1 | _ => 0 end.
Definition rho_r (T : nat) (r : reader) : nat := 3 * (T - r_nread r) + rphase r.
Definition b2n (b : bool) : nat := if b then 1 else 0.
Definition sum (l : list nat) : nat := fold_right Nat.add 0 l.
Definition omega (st : state) : nat := b2n (s_woken st) + sum (map (fun r => b2n (r_woken r)) (rds st)).
Definition rho (st : state) : nat := rho_s st + sum (map (rho_r (total st)) (rds st)).
Definition mu (st : state) : nat := (length (rds st) + 2) * rho st + omega st.

(* ---------- sums ---------- *)
Lemma sum_cons x l : sum (x :: l) = x + sum l. Proof. reflexivity. Qed.

Lemma sum_map_ext (f g : reader -> nat) l : (forall r, In r l -> f r = g r) -> sum (map f l) = sum (map g l).
Proof.
  induction l as [|h t IH]; intros H; cbn [map]; auto. rewrite !sum_cons, (H h) by (left; auto). rewrite IH; auto.
  intros r Hr. apply H. right; auto.
Qed.

Lemma sum_upd (f : reader -> nat) l i r r' :
  nth_error l i = Some r -> sum (map f (upd i r' l)) + f r = sum (map f l) + f r'.
Proof.
  revert i; induction l as [|h t IH]; intros [|i] H; cbn [nth_error upd map] in *; try discriminate.
  - inversion H; subst. rewrite !sum_cons. lia.
  - specialize (IH _ H). rewrite !sum_cons. lia.
Qed.

Lemma woken_all l : sum (map (fun r => b2n (r_woken r)) (map (fun r => rd_set_woken r true) l)) <= length l.
Proof. induction l as [|h t IH]; cbn [map length]; [cbn; lia|]. rewrite sum_cons. cbn [b2n r_woken rd_set_woken]. lia. Qed.

Lemma rho_woken T l w : sum (map (rho_r T) (map (fun r => rd_set_woken r w) l)) = sum (map (rho_r T) l).
Proof. rewrite map_map. apply sum_map_ext. intros r _. reflexivity. Qed.

(* ---------- taking messages makes progress ---------- *)
Lemma take_from_ge : forall fuel b n, n <= snd (fst (take_from fuel b n)).
Proof.
  induction fuel as [|f IH]; intros b n; cbn [take_from]; [cbn; lia|].
  destruct (get_msg b n); [|cbn; lia].
  specialize (IH b (S n)). destruct (take_from f b (S n)) as [[ms n'] last]. cbn in *. lia.
Qed.

Lemma take_from_progress b n :
  has_msg b n = true -> n < snd (fst (take_from (length b) b n)).
Proof.
  unfold has_msg. destruct (get_msg b n) eqn:E; [|discriminate]. intros _.
  destruct b as [|x t]; [discriminate|]. cbn [length take_from]. rewrite E.
  pose proof (take_from_ge (length t) (x :: t) (S n)) as H.
  destruct (take_from (length t) (x :: t) (S n)) as [[ms n'] last]. cbn in *. lia.
Qed.

(* ---------- effect of the notification helpers on the measure's ingredients ---------- *)
Lemma pending_view st st' : s_pc st' = s_pc st -> src st' = src st -> pending st' = pending st.
Proof. unfold pending. intros -> ->. reflexivity. Qed.

Lemma b2n_le b : b2n b <= 1. Proof. destruct b; cbn; lia. Qed.

(* what a step of a subscriber that does not take messages looks like *)
Section Measure.
Variables (n : nat) (cfg : config).

Lemma J_no_workers st : J n cfg st -> w_done st = [].
Proof. intros ((_ & _ & _ & H) & _). destruct (w_done st); [reflexivity|discriminate]. Qed.

Lemma J_num st num m c : J n cfg st -> s_pc st = SSend num m c -> num = None.
Proof. intros HJ E. destruct (J_sender _ _ _ HJ) as (_ & _ & H). rewrite E in H. tauto. Qed.

(* the sender's own part after produce *)
Lemma rho_s_produce st :
  (s_pc st = SGate \/ s_pc st = SGateWait) ->
  pending (produce st) = pending st /\ sphase (produce st) = 2 /\ n_sent (produce st) = n_sent st /\
  rds (produce st) = rds st /\ s_woken (produce st) = s_woken st.
Proof.
  intros Hpc. unfold produce, pending, sphase.
  destruct (src st) as [|[num m] rest] eqn:Es; cbn [s_pc set_spc set_src src n_sent rds s_woken length];
    destruct Hpc as [-> | ->]; repeat split; auto.
Qed.

Lemma mu_sender_step st :
  J n cfg st -> sender_enabled st = true -> mu (sender_step cfg st) < mu st.
Proof.
  intros HJ Hen. pose proof (J_not_killed _ _ _ HJ) as Hk. pose proof (J_not_fkilled _ _ _ HJ) as Hf.
  pose proof (J_min_le_sent _ _ _ HJ) as Hlo.
  unfold sender_step. unfold sender_enabled in Hen.
  destruct (s_pc st) eqn:Epc; try discriminate.
  - (* SGate *)
    unfold gate_enter. destruct (can_fetch st).
    + destruct (rho_s_produce st (or_introl Epc)) as (A & B & C & D & E).
      unfold mu, rho, rho_s, total, omega. rewrite A, B, C, D, E. unfold sphase. rewrite Epc.
      unfold pending. rewrite Epc. nia.
    + unfold mu, rho, rho_s, total, omega, pending, sphase. cbn [s_pc set_spc set_swoken src n_sent rds s_woken].
      rewrite Epc. pose proof (b2n_le (s_woken st)). cbn [b2n]. nia.
  - (* SGateWait *)
    unfold gate_resume. destruct (can_fetch st).
    + destruct (rho_s_produce st (or_intror Epc)) as (A & B & C & D & E).
      unfold mu, rho, rho_s, total, omega. rewrite A, B, C, D, E. unfold sphase. rewrite Epc.
      unfold pending. rewrite Epc. nia.
    + unfold mu, rho, rho_s, total, omega, pending, sphase. cbn [s_pc set_spc set_swoken src n_sent rds s_woken].
      rewrite Epc, Hen. cbn [b2n]. nia.
  - (* SSend *)
    assert (Hc : closed st = false) by (apply (J_not_closed _ _ _ HJ); congruence).
    rewrite (J_num _ _ _ _ HJ Epc). unfold send_enter. rewrite Hc, Hf, Hk.
    replace (n_sent st <? min_nread (rds st)) with false by (symmetry; apply Nat.ltb_ge; lia).
    destruct (can_write cfg st).
    + (* push *)
      unfold do_push, after_send.
      set (st1 := wake_readers (push_box st (insert (n_sent st) m (box st)))).
      assert (R1 : rds st1 = map (fun r => rd_set_woken r true) (rds st)) by reflexivity.
      assert (L1 : length (rds st1) = length (rds st)) by (rewrite R1; apply map_length).
      pose proof (woken_all (rds st)) as HW.
      destruct closing.
      * unfold mu, rho, rho_s, total, omega, pending, sphase.
        cbn [s_pc set_spc set_closed src n_sent rds s_woken]. rewrite R1, map_length, rho_woken. rewrite Epc.
        cbn [n_sent st1 wake_readers set_rds push_box s_woken].
        replace (S (n_sent st) + 0) with (n_sent st + 1) by lia. pose proof (b2n_le (s_woken st)). nia.
      * destruct (c_lazy cfg).
        -- unfold mu, rho, rho_s, total, omega, pending, sphase.
           cbn [s_pc set_spc src n_sent rds s_woken]. rewrite R1, map_length, rho_woken. rewrite Epc.
           cbn [n_sent st1 wake_readers set_rds push_box s_woken src].
           replace (S (n_sent st) + S (length (src st))) with (n_sent st + S (S (length (src st)))) by lia. nia.
        -- unfold produce. cbn [src st1 wake_readers set_rds push_box].
           destruct (src st) as [|[num' m'] rest] eqn:Es;
             unfold mu, rho, rho_s, total, omega, pending, sphase;
             cbn [s_pc set_spc set_src src n_sent rds s_woken st1 wake_readers set_rds push_box length];
             rewrite ?map_length, ?rho_woken, ?Epc, ?Es; cbn [length].
           ++ replace (S (n_sent st) + 1) with (n_sent st + 2) by lia. nia.
           ++ replace (S (n_sent st) + S (S (length rest))) with (n_sent st + S (S (S (length rest)))) by lia. nia.
    + unfold mu, rho, rho_s, total, omega, pending, sphase. cbn [s_pc set_spc set_swoken src n_sent rds s_woken].
      rewrite Epc. pose proof (b2n_le (s_woken st)). cbn [b2n]. destruct closing; nia.
  - (* SSendWait *)
    unfold send_resume. destruct (can_write cfg st).
    + rewrite Hk. unfold do_push, after_send.
      set (st1 := wake_readers (push_box st (insert num m (box st)))).
      assert (R1 : rds st1 = map (fun r => rd_set_woken r true) (rds st)) by reflexivity.
      pose proof (woken_all (rds st)) as HW.
      destruct closing.
      * unfold mu, rho, rho_s, total, omega, pending, sphase.
        cbn [s_pc set_spc set_closed src n_sent rds s_woken]. rewrite R1, map_length, rho_woken. rewrite Epc.
        cbn [n_sent st1 wake_readers set_rds push_box s_woken].
        replace (S (n_sent st) + 0) with (n_sent st + 1) by lia. pose proof (b2n_le (s_woken st)). nia.
      * destruct (c_lazy cfg).
        -- unfold mu, rho, rho_s, total, omega, pending, sphase.
           cbn [s_pc set_spc src n_sent rds s_woken]. rewrite R1, map_length, rho_woken. rewrite Epc.
           cbn [n_sent st1 wake_readers set_rds push_box s_woken src].
           replace (S (n_sent st) + S (length (src st))) with (n_sent st + S (S (length (src st)))) by lia. nia.
        -- unfold produce. cbn [src st1 wake_readers set_rds push_box].
           destruct (src st) as [|[num' m'] rest] eqn:Es;
             unfold mu, rho, rho_s, total, omega, pending, sphase;
             cbn [s_pc set_spc set_src src n_sent rds s_woken st1 wake_readers set_rds push_box length];
             rewrite ?map_length, ?rho_woken, ?Epc, ?Es; cbn [length].
           ++ replace (S (n_sent st) + 1) with (n_sent st + 2) by lia. nia.
           ++ replace (S (n_sent st) + S (S (length rest))) with (n_sent st + S (S (S (length rest)))) by lia. nia.
    + unfold mu, rho, rho_s, total, omega, pending, sphase. cbn [s_pc set_spc set_swoken src n_sent rds s_woken].
      rewrite Epc, Hen. cbn [b2n]. nia.
  - (* SKill: impossible *)
    destruct (J_sender _ _ _ HJ) as (_ & _ & H). rewrite Epc in H. congruence.
Qed.

(* ---------- the subscribers ---------- *)
Lemma grab_shape st i r k :
  killed st = false -> nth_error (rds st) i = Some r ->
  exists rf,
    rds (grab cfg st i r k) = upd i rf (rds st) /\
    r_nread rf = snd (fst (take_from (length (box st)) (box st) k)) /\
    r_woken rf = r_woken r /\ rphase rf <= 2.
Proof.
  intros Hk Hi. unfold grab. rewrite Hk.
  destruct (take_from (length (box st)) (box st) k) as [[ms n'] last]. cbn [fst snd].
  set (r2 := rd_set_nread (rd_set_waiting r None) n').
  set (st1 := set_rds st (upd i r2 (rds st))).
  set (st2 := set_box st1 (gc (min_nread (rds st1)) (box st1))).
  set (st3 := wake_writer (maybe_wake_gate cfg st2)).
  assert (E3 : rds st3 = upd i r2 (rds st)).
  { unfold st3. rewrite rds_wake_writer, rds_maybe_wake_gate. reflexivity. }
  exists (deliver (w_done st3) r2 ms n' last).
  destruct (deliver_fields (w_done st3) r2 ms n' last) as (A & _ & _ & D).
  repeat split.
  - cbn [rds set_rds]. rewrite E3, upd_upd. reflexivity.
  - rewrite A. reflexivity.
  - rewrite D. reflexivity.
  - unfold rphase. destruct (r_pc _); lia.
Qed.

Lemma omega_bound st st' i r rf :
  nth_error (rds st) i = Some r -> rds st' = upd i rf (rds st) -> b2n (r_woken rf) <= b2n (r_woken r) ->
  omega st' <= omega st + 1.
Proof.
  intros Hi Er Hw. unfold omega. rewrite Er.
  pose proof (sum_upd (fun x => b2n (r_woken x)) (rds st) i r rf Hi).
  pose proof (b2n_le (s_woken st')). lia.
Qed.

Lemma mu_reader_step st i r :
  J n cfg st -> nth_error (rds st) i = Some r -> reader_enabled st r = true ->
  mu (reader_step cfg st i r) < mu st.
Proof.
  intros HJ Hi Hen. pose proof (J_not_killed _ _ _ HJ) as Hk.
  assert (HJ' : J n cfg (reader_step cfg st i r)).
  { eapply (J_step n cfg st (TR i)); [exact HJ|]. unfold step, enabled. rewrite Hi, Hen. reflexivity. }
  destruct (reader_step_frame cfg st i r) as (En & Epc & Esrc & _).
  assert (Ep : pending (reader_step cfg st i r) = pending st) by (apply pending_view; auto).
  assert (Et : total (reader_step cfg st i r) = total st) by (unfold total; rewrite En, Ep; reflexivity).
  assert (Es : rho_s (reader_step cfg st i r) = rho_s st).
  { unfold rho_s, sphase. rewrite Ep, Epc. reflexivity. }
  (* the three kinds of reader steps *)
  assert (Hgrab : forall k, (r_pc r = REnter k \/ r_pc r = RWait k) -> next_ready st k = true ->
            reader_step cfg st i r = grab cfg st i r k -> mu (reader_step cfg st i r) < mu st).
  { intros k Hpc Hrdy Eg.
    destruct (grab_shape st i r k Hk Hi) as (rf & Er & Enr & Ew & Eph). rewrite <- Eg in Er.
    assert (Hk' : r_nread r = k).
    { destruct (J_MB _ _ _ HJ) as (_ & _ & HR & _). destruct (HR _ _ Hi) as [_ Hok]. unfold pc_ok in Hok.
      destruct Hpc as [E|E]; rewrite E in Hok; tauto. }
    assert (Hprog : k < r_nread rf).
    { rewrite Enr. apply take_from_progress. unfold next_ready in Hrdy. rewrite Hk, orb_false_r in Hrdy. exact Hrdy. }
    assert (Hle : r_nread rf <= n_sent st).
    { rewrite <- En. apply (J_nread_le _ _ _ HJ' i). rewrite Er. apply nth_error_upd_eq. apply nth_error_Some. congruence. }
    assert (Hph : 1 <= rphase r) by (unfold rphase; destruct Hpc as [E|E]; rewrite E; lia).
    pose proof (omega_bound st _ i r rf Hi Er ltac:(rewrite Ew; lia)) as Hom.
    pose proof (sum_upd (rho_r (total st)) (rds st) i r rf Hi) as Hsum.
    unfold mu, rho. rewrite Es, Et, Er, upd_length.
    assert (Hr : rho_r (total st) rf + 2 <= rho_r (total st) r).
    { unfold rho_r, total. rewrite Hk'. lia. }
    nia. }
  unfold reader_enabled in Hen.
  destruct (r_pc r) eqn:Er; try discriminate.
  - (* REnter *)
    destruct (next_ready st n0) eqn:Erdy.
    + apply (Hgrab n0); auto. unfold reader_step. rewrite Er. unfold read_enter. rewrite Erdy. reflexivity.
    + assert (Est : reader_step cfg st i r =
                    maybe_wake_gate cfg (set_rds st (upd i (rd_set_woken (rd_set_pc (rd_set_waiting r (Some n0)) (RWait n0)) false) (rds st)))).
      { unfold reader_step. rewrite Er. unfold read_enter. rewrite Erdy. reflexivity. }
      set (r' := rd_set_woken (rd_set_pc (rd_set_waiting r (Some n0)) (RWait n0)) false) in *.
      assert (Erds : rds (reader_step cfg st i r) = upd i r' (rds st)).
      { rewrite Est, rds_maybe_wake_gate. reflexivity. }
      pose proof (omega_bound st _ i r r' Hi Erds ltac:(cbn; lia)) as Hom.
      pose proof (sum_upd (rho_r (total st)) (rds st) i r r' Hi) as Hsum.
      unfold mu, rho. rewrite Es, Et, Erds, upd_length.
      assert (Hr : rho_r (total st) r' + 1 = rho_r (total st) r).
      { unfold rho_r, rphase. cbn [r_pc r_nread r' rd_set_woken rd_set_pc rd_set_waiting]. rewrite Er. lia. }
      nia.
  - (* RWait *)
    destruct (next_ready st n0) eqn:Erdy.
    + apply (Hgrab n0); auto. unfold reader_step. rewrite Er. unfold read_resume. rewrite Erdy. reflexivity.
    + assert (Est : reader_step cfg st i r = set_rds st (upd i (rd_set_woken r false) (rds st))).
      { unfold reader_step. rewrite Er. unfold read_resume. rewrite Erdy. reflexivity. }
      rewrite Est. unfold mu, rho, rho_s, total, omega, pending, sphase.
      cbn [s_pc set_rds src n_sent rds s_woken]. rewrite upd_length.
      pose proof (sum_upd (rho_r (n_sent st + pending st)) (rds st) i r (rd_set_woken r false) Hi) as H1.
      pose proof (sum_upd (fun x => b2n (r_woken x)) (rds st) i r (rd_set_woken r false) Hi) as H2.
      unfold pending in H1. cbn [b2n r_woken rd_set_woken] in H2. rewrite Hen in H2. cbn [b2n] in H2.
      assert (Hr : rho_r (n_sent st + match s_pc st with
                                         | SGate | SGateWait => S (length (src st))
                                         | SSend _ _ false | SSendWait _ _ false => S (S (length (src st)))
                                         | SSend _ _ true | SSendWait _ _ true => 1
                                         | _ => 0 end) (rd_set_woken r false)
                   = rho_r (n_sent st + match s_pc st with
                                         | SGate | SGateWait => S (length (src st))
                                         | SSend _ _ false | SSendWait _ _ false => S (S (length (src st)))
                                         | SSend _ _ true | SSendWait _ _ true => 1
                                         | _ => 0 end) r) by reflexivity.
      nia.
  - (* RAwait: there are no futures *)
    unfold fut_done in Hen. rewrite (J_no_workers _ HJ) in Hen. destruct k; discriminate.
Qed.

Theorem mu_step st t st' : J n cfg st -> step cfg st t = Some st' -> mu st' < mu st.
Proof.
  intros HJ Hs. pose proof Hs as Hs0. apply step_inv in Hs. destruct t.
  - destruct Hs as [Hen ->]. apply mu_sender_step; auto.
  - destruct Hs as (r & Hr & Hen & ->). apply mu_reader_step; auto.
  - destruct Hs as (up & Hup & _). destruct HJ as (_ & Hk & _). congruence.
  - destruct Hs as (d & Hd & _). rewrite (J_no_workers _ HJ) in Hd. destruct k; discriminate.
Qed.
End Measure.

(* ---------- networks: every schedule is finite ---------- *)
Definition net_mu (bs : boxes) : nat := fold_right Nat.add 0 (map (fun cs => mu (snd cs)) bs).

Lemma net_mu_upd bs d cfg st st' :
  nth_error bs d = Some (cfg, st) -> net_mu (upd d (cfg, st') bs) + mu st = net_mu bs + mu st'.
Proof.
  revert d; induction bs as [|h t IH]; intros [|d] H; cbn [nth_error upd] in *; try discriminate.
  - inversion H; subst. unfold net_mu. cbn. lia.
  - specialize (IH _ H). unfold net_mu in *. cbn [map fold_right]. lia.
Qed.

Lemma net_mu_step N n w n' :
  all_boxes (J N) (n_boxes n) -> nstep n w = Some n' -> net_mu (n_boxes n') < net_mu (n_boxes n).
Proof.
  intros Hall Hs. apply nstep_inv in Hs.
  destruct Hs as (th & th' & d & t & cfg & st & st' & _ & _ & Hd & Hst & -> & _).
  pose proof (mu_step N cfg st t st' (Hall _ _ _ Hd) Hst). pose proof (net_mu_upd _ _ _ _ st' Hd). lia.
Qed.

(* quiescence is reached: no schedule is longer than the measure of the initial state *)
Theorem net_terminates N n0 : all_boxes (J N) (n_boxes n0) ->
  forall sched n, nrun n0 sched = Some n -> length sched + net_mu (n_boxes n) <= net_mu (n_boxes n0).
Proof.
  intros H0 sched. revert n0 H0. induction sched as [|w s IH]; intros n0 H0 n Hrun; cbn [nrun] in Hrun.
  - inversion Hrun; subst. cbn. lia.
  - destruct (nstep n0 w) as [n1|] eqn:E; [|discriminate].
    assert (H1 : all_boxes (J N) (n_boxes n1)) by (eapply lift_step; eauto using J_step).
    specialize (IH n1 H1 n Hrun). pose proof (net_mu_step N _ _ _ H0 E). cbn [length]. lia.
Qed.

(* a state in which no thread can step is what the model calls quiescent *)
Lemma quiescent_spec n : quiescent n = true <-> forall w, nstep n w = None.
Proof.
  unfold quiescent, nenabled. rewrite forallb_forall. split.
  - intros H w. destruct (Nat.lt_ge_cases w (length (n_threads n))) as [Hlt|Hge].
    + specialize (H w ltac:(apply in_seq; lia)). destruct (nstep n w); [discriminate|reflexivity].
    + unfold nstep. replace (nth_error (n_threads n) w) with (@None thread); auto.
      symmetry. apply nth_error_None. exact Hge.
  - intros H w _. rewrite H. reflexivity.
Qed.
