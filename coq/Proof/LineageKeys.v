(* C02 — key_sensitivity: the key of a data type changes exactly when the lineage entry of one of
   the plugins in its lineage (its provider and the providers of everything it depends on) changes;
   an entry changes when a tracked option / the version / the class name changes, and does not
   change for options the plugin does not track. *)
From SV Require Import Base.Prelude Model.Canon Model.Lineage Proof.CanonProof Spec.LineageSpec
  Proof.LineageEquiv Proof.LineageCache Proof.LineageHash Proof.LineageStore.

(* the lineage entry a registry + configuration assigns to the plugin registered for k *)
Definition entry_of (reg : registry) (conf : config) (k : Z) : option lentry :=
  match lookup k reg with
  | Some c => match plugin_config conf c with
              | Ok pc => Some (cname c, cversion c, lin_configs c pc)
              | Err _ => None
              end
  | None => None
  end.

Lemma spec_deps_Forall2 sp ds l : spec_deps sp ds = Ok l -> Forall2 (fun d i => sp d = Ok i) ds l.
Proof.
  revert l. induction ds as [|d ds IH]; intros l H; cbn [spec_deps] in H.
  - inversion H. constructor.
  - destruct (sp d) as [i|] eqn:E; cbn [res_bind] in H; [|discriminate].
    destruct (spec_deps sp ds) as [r|]; cbn [res_bind] in H; [|discriminate]. inversion H; subst.
    constructor; [exact E|now apply IH].
Qed.

Lemma has_key_rev {A} k (l : list (Z * A)) : has_key k (rev l) = has_key k l.
Proof.
  destruct (has_key k l) eqn:E.
  - apply has_key_spec. apply has_key_spec in E. unfold keys in *. rewrite map_rev. now apply in_rev in E.
  - apply not_true_is_false. intros H. apply has_key_spec in H. unfold keys in H. rewrite map_rev in H. apply in_rev in H.
    apply has_key_spec in H. congruence.
Qed.

Lemma has_key_dupdate {A} k (l n : list (Z * A)) : has_key k (dupdate l n) = has_key k l || has_key k n.
Proof.
  rewrite <- (has_key_rev k n). unfold has_key. rewrite lookup_dupdate.
  destruct (lookup k (rev n)), (lookup k l); reflexivity.
Qed.

Lemma lookup_dupdate_cases {A} k (e : A) l n :
  NoDup (keys n) -> lookup k (dupdate l n) = Some e -> lookup k n = Some e \/ (lookup k n = None /\ lookup k l = Some e).
Proof.
  intros ND H. rewrite lookup_dupdate, lookup_rev_NoDup in H by assumption.
  destruct (lookup k n); [left; exact H|right; auto].
Qed.

Lemma lookup_fold_lineage k e (deps : list inst) base :
  Forall lin_nodup deps ->
  lookup k (fold_left (fun l d => dupdate l (ilin d)) deps base) = Some e ->
  (exists d, In d deps /\ lookup k (ilin d) = Some e) \/ lookup k base = Some e.
Proof.
  revert base. induction deps as [|d deps IH]; intros base HN H; cbn [fold_left] in H; [now right|].
  inversion HN as [|? ? Nd HN']; subst.
  destruct (IH _ HN' H) as [(d' & Hd' & Hl)|Hb].
  - left. exists d'. split; [now right|exact Hl].
  - destruct (lookup_dupdate_cases _ _ _ _ Nd Hb) as [Hl|[_ Hl]]; [left; exists d; split; [now left|exact Hl]|now right].
Qed.

Lemma has_key_fold_lineage k (deps : list inst) base :
  has_key k (fold_left (fun l d => dupdate l (ilin d)) deps base) = has_key k base || existsb (fun d => has_key k (ilin d)) deps.
Proof.
  revert base. induction deps as [|d deps IH]; intros base; cbn [fold_left existsb]; [now rewrite orb_false_r|].
  rewrite IH, has_key_dupdate. now rewrite orb_assoc.
Qed.

Lemma last_In {A} (l : list A) d : l <> [] -> In (last l d) l.
Proof.
  induction l as [|a l IH]; [congruence|]. intros _. destruct l as [|b l]; [now left|]. right. apply IH. discriminate.
Qed.

(* every binding of a lineage is the entry of the class registered for that key *)
Lemma lineage_entries reg conf : reg_ok reg -> forall n dt i,
  spec_plugin n reg conf dt = Ok i -> forall k e, lookup k (ilin i) = Some e -> entry_of reg conf k = Some e.
Proof.
  intros Hok. induction n as [|n IH]; intros dt i H k e Hl; cbn [spec_plugin] in H; [discriminate|].
  destruct (lookup dt reg) as [c|] eqn:Hc; [|discriminate].
  destruct (plugin_config conf c) as [pc|] eqn:Hp; cbn [res_bind] in H; [|discriminate].
  destruct (spec_deps (spec_plugin n reg conf) (cdepends c)) as [deps|] eqn:Hd; cbn [res_bind] in H; [|discriminate].
  inversion H; subst i. clear H. cbn [ilin] in Hl. unfold build_lineage in Hl.
  pose proof (spec_deps_Forall2 _ _ _ Hd) as HF.
  assert (HN : Forall lin_nodup deps).
  { clear - HF. induction HF as [|d i ds l Hs _ IHF]; constructor; [eapply spec_plugin_nodup; eauto|exact IHF]. }
  destruct (lookup_fold_lineage _ _ _ _ HN Hl) as [(d & Hin & Hld)|Hb].
  - assert (exists dj, spec_plugin n reg conf dj = Ok d) as (dj & Hs).
    { clear - HF Hin. induction HF as [|dj i ds l Hs _ IHF]; [destruct Hin|]. destruct Hin as [<-|Hin]; eauto. }
    eapply IH; eauto.
  - cbn [lookup] in Hb. destruct (k =? last_provide c) eqn:E; [|discriminate]. apply Z.eqb_eq in E. subst k.
    inversion Hb; subst e. unfold entry_of.
    destruct (Hok dt c Hc) as (Hin & Hall).
    assert (Hlast : lookup (last_provide c) reg = Some c).
    { apply Hall. unfold last_provide. apply last_In. intros E. rewrite E in Hin. destruct Hin. }
    now rewrite Hlast, Hp.
Qed.

(* the set of keys of a lineage depends on the dependency structure only *)
Definition struct_equiv (reg reg' : registry) : Prop :=
  forall dt, match lookup dt reg, lookup dt reg' with
             | Some c, Some c' => cprovides c = cprovides c' /\ cdepends c = cdepends c'
             | None, None => True
             | _, _ => False
             end.

Lemma struct_equiv_refl reg : struct_equiv reg reg.
Proof. intros dt. destruct (lookup dt reg); auto. Qed.

Lemma lineage_keys reg reg' conf conf' : struct_equiv reg reg' -> forall n dt i i',
  spec_plugin n reg conf dt = Ok i -> spec_plugin n reg' conf' dt = Ok i' ->
  forall k, has_key k (ilin i) = has_key k (ilin i').
Proof.
  intros Hse. induction n as [|n IH]; intros dt i i' H H' k; cbn [spec_plugin] in H, H'; [discriminate|].
  pose proof (Hse dt) as Hdt.
  destruct (lookup dt reg) as [c|]; [|discriminate]. destruct (lookup dt reg') as [c'|]; [|discriminate].
  destruct Hdt as (Epr & Edep).
  destruct (plugin_config conf c) as [pc|]; cbn [res_bind] in H; [|discriminate].
  destruct (plugin_config conf' c') as [pc'|]; cbn [res_bind] in H'; [|discriminate].
  destruct (spec_deps (spec_plugin n reg conf) (cdepends c)) as [deps|] eqn:Hd; cbn [res_bind] in H; [|discriminate].
  destruct (spec_deps (spec_plugin n reg' conf') (cdepends c')) as [deps'|] eqn:Hd'; cbn [res_bind] in H'; [|discriminate].
  inversion H; inversion H'; subst. cbn [ilin]. unfold build_lineage. rewrite !has_key_fold_lineage.
  f_equal.
  - unfold has_key. cbn [lookup]. unfold last_provide. rewrite Epr. destruct (k =? last (cprovides c') 0); reflexivity.
  - apply spec_deps_Forall2 in Hd, Hd'. rewrite <- Edep in Hd'. clear - Hd Hd' IH.
    revert deps' Hd'. induction Hd as [|d i ds l Hs _ IHF]; intros deps' Hd'; inversion Hd'; subst; [reflexivity|].
    cbn [existsb]. f_equal; [eapply IH; eauto|apply IHF; assumption].
Qed.

Section Keys.
Variable HT : Type.
Variable hash : list Z -> HT.
Hypothesis hash_inj : forall a b, hash a = hash b -> a = b.

(* the key of dt changes iff the entry of some plugin in its lineage changes *)
Theorem key_sensitivity reg reg' conf conf' n dt i i' :
  reg_ok reg -> reg_ok reg' -> struct_equiv reg reg' ->
  spec_plugin n reg conf dt = Ok i -> spec_plugin n reg' conf' dt = Ok i' ->
  (lineage_hash HT hash (ilin i) = lineage_hash HT hash (ilin i') <->
   forall k, has_key k (ilin i) = true ->
             option_map norm_entry (entry_of reg conf k) = option_map norm_entry (entry_of reg' conf' k)).
Proof.
  intros Hok Hok' Hse Hs Hs'. rewrite (lhash_equiv HT hash hash_inj).
  pose proof (lineage_keys reg reg' conf conf' Hse n dt i i' Hs Hs') as HK.
  split.
  - intros Hl k Hk. specialize (Hl k). specialize (HK k). rewrite Hk in HK. symmetry in HK. unfold has_key in Hk, HK.
    destruct (lookup k (ilin i)) as [e|] eqn:L; [|discriminate]. destruct (lookup k (ilin i')) as [e'|] eqn:L'; [|discriminate].
    rewrite (lineage_entries reg conf Hok n dt i Hs k e L), (lineage_entries reg' conf' Hok' n dt i' Hs' k e' L'). exact Hl.
  - intros H k. specialize (HK k). unfold has_key in HK.
    destruct (lookup k (ilin i)) as [e|] eqn:L, (lookup k (ilin i')) as [e'|] eqn:L'; try discriminate; [|reflexivity].
    assert (Hk : has_key k (ilin i) = true) by (unfold has_key; now rewrite L).
    specialize (H k Hk).
    rewrite (lineage_entries reg conf Hok n dt i Hs k e L), (lineage_entries reg' conf' Hok' n dt i' Hs' k e' L') in H. exact H.
Qed.

End Keys.
