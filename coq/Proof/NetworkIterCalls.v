(* C01 on top of C08 -- one more fact about the calls of Plugin.iter (model Model/PluginIter.v), derived from C08's
   loop invariants: under the hypotheses of C08_iter_total_below_pass_limit no call before the last one ends at
   the common end of the run (so the output stream of a plugin keeps no zero-duration chunk back at the end),
   and a run that ends normally made at least one call. *)
From SV Require Import Model.Rows Model.SplitArray Model.Chunk Model.PluginIter
     Proof.RowsFacts Proof.ChunkProof Proof.PluginIterProof Proof.PluginIterRound Proof.PluginIterLoop
     Proof.PluginIterSafety Proof.PluginIterStair Proof.PluginIterTotal Proof.PluginIterTotal2 Proof.PluginIterTotal3.

Lemma Forall_removelast_cons {A} (P : A -> Prop) x l : P x -> Forall P (removelast l) -> Forall P (removelast (x :: l)).
Proof. intros Hx Hl. destruct l as [|y l]; [constructor|]. cbn [removelast] in *. constructor; auto. Qed.

Lemma iter_loop_nonlast run b sw pm pmchunks : forall fuel ss specs dones E,
  slots_inv run E specs dones ss -> (pm < length ss)%nat ->
  (length (siter (nth pm ss dummy_slot)) < fuel)%nat ->
  Forall (trail_ok b) ss -> Forall (fun sp => db sp = b) specs -> NoDup (map dk specs) ->
  pm_inv pmchunks pm ss ->
  (forall c, In c pmchunks -> exists y', stair_ok (map dR specs) max_passes (cend c) y') ->
  Forall (fun c => call_end c < b) (removelast (fst (iter_loop fuel sw pm ss))).
Proof.
  induction fuel as [|f IH]; intros ss specs dones E HI Hpm Hfuel HT Hdb Hnd Hinv Hstair; [lia|].
  cbn [iter_loop].
  assert (HS : exists y', stair_ok (map dR specs) max_passes (cend (sbuf (nth pm ss dummy_slot))) y').
  { destruct Hinv as (s & Es & Hin & _). rewrite (nth_error_nth _ _ dummy_slot Es).
    apply in_map_iff in Hin as (c0 & <- & Hc0). apply Hstair, Hc0. }
  destruct (round_total run b sw pm E ss specs dones HI Hpm HT Hdb Hnd HS) as (c & ss2 & Erb & HT2 & Hfin).
  pose proof (round_body_spec run sw pm E ss specs dones HI Hpm) as HR. rewrite Erb in HR. rewrite Erb.
  destruct HR as (Hcs & Hok & HI2 & Hit & Hlen).
  assert (Hpm2 : (pm < length ss2)%nat) by lia.
  pose proof (round_pm_inv run pmchunks sw pm E ss specs dones c ss2 HI Hpm Hinv Erb) as Hinv2.
  pose proof (fetch_pm_spec run _ pm ss2 specs _ HI2 Hpm2) as HF.
  destruct (fetch_pm pm ss2) as [[ss3|]|e] eqn:Ef; [| |destruct HF].
  - destruct HF as (HI3 & Hlen3 & Hdec).
    assert (Hpm3 : (pm < length ss3)%nat) by lia.
    assert (Hfuel3 : (length (siter (nth pm ss3 dummy_slot)) < f)%nat) by (rewrite Hit in Hdec; lia).
    pose proof (fetch_pm_trail run b _ pm ss2 specs _ ss3 HI2 Hpm2 HT2 Ef) as HT3.
    pose proof (fetch_pm_pm_inv run pmchunks _ pm ss2 specs _ ss3 HI2 Hpm2 Hinv2 Ef) as Hinv3.
    cbn [fst]. apply Forall_removelast_cons.
    + (* this round was not the last: the pacemaker still has chunks, so its buffer ends before b, and the call
         ended where that buffer starts *)
      destruct (nth_error ss2 pm) as [s2|] eqn:Es2; [|apply nth_error_None in Es2; lia].
      destruct (slots_inv_nth _ _ _ _ _ HI2 pm s2 Es2) as (d & dn & _ & _ & Hs2 & Hst & _).
      destruct (si_wf _ _ _ _ _ _ Hs2) as (_ & Hse & _).
      rewrite Forall_forall in HT2. destruct (HT2 s2 (nth_error_In _ _ Es2)) as [Htr _].
      assert (Hne : siter s2 <> []).
      { unfold fetch_pm in Ef. rewrite (nth_error_nth _ _ dummy_slot Es2) in Ef.
        destruct (siter s2); [discriminate|discriminate]. }
      specialize (Htr Hne). lia.
    + apply (IH ss3 specs _ (call_end c) HI3 Hpm3 Hfuel3 HT3 Hdb Hnd Hinv3 Hstair).
  - cbn. constructor.
Qed.

(* the same set-up as C08's iter_total_below_pass_limit_thm *)
Theorem iter_nonlast_calls_lt run sw a b deps specs :
  deps <> [] -> Forall2 (dep_ok run a) deps specs ->
  Forall (fun sp => db sp = b) specs ->
  NoDup (map fst deps) ->
  Forall (fun d => Forall (fun c => cend c < b) (removelast (snd d))) deps ->
  (forall c, In c (pacemaker_chunks deps) ->
             exists y', stair_ok (map (fun d => srows (snd d)) deps) max_passes (cend c) y') ->
  Forall (fun c => call_end c < b) (removelast (fst (plugin_iter sw deps))) /\ fst (plugin_iter sw deps) <> [].
Proof.
  intros Hne HD Hdb Hnd Htrail Hstair.
  pose proof (iter_total_below_pass_limit_thm run sw a b deps specs Hne HD Hdb Hnd Htrail Hstair) as (Hnone & _ & _).
  unfold plugin_iter, pacemaker_chunks in *.
  destruct (init_slots_spec run a deps specs HD) as (ss & Ei & HI & Hm). rewrite Ei in *.
  pose proof (choose_pm_spec ss 0 None) as HC.
  destruct (choose_pm ss 0 None) as [[pm e]|].
  2:{ destruct HC as [_ Hnil]; [intros p e0 H0; discriminate|]. subst ss. destruct deps; [congruence|discriminate]. }
  assert (Hpm : (pm < length ss)%nat) by (apply HC; intros p e0 H0; discriminate).
  assert (HRs : map dR specs = map (fun d => srows (snd d)) deps).
  { clear - HD. induction HD as [|d sp deps specs (_ & _ & _ & HR & _) _ IH]; cbn; [reflexivity|]. congruence. }
  rewrite <- HRs in Hstair.
  assert (HT : Forall (trail_ok b) ss).
  { apply Forall_forall. intros s0 Hs0. apply trail_ok_init.
    assert (Hin : In (sbuf s0 :: siter s0) (map snd deps)).
    { rewrite <- Hm. apply (in_map (fun s => sbuf s :: siter s)). exact Hs0. }
    apply in_map_iff in Hin as (d & Hd1 & Hd2). rewrite <- Hd1. rewrite Forall_forall in Htrail. apply (Htrail d Hd2). }
  assert (Hnd' : NoDup (map dk specs)) by (rewrite (dep_ok_kinds _ _ _ _ HD); exact Hnd).
  destruct (nth_error ss pm) as [s|] eqn:Es; [|apply nth_error_None in Es; lia].
  assert (Hsn : snd (nth pm deps (0, [])) = sbuf s :: siter s).
  { assert (Hn : nth_error (map snd deps) pm = Some (sbuf s :: siter s)).
    { rewrite <- Hm, nth_error_map, Es. reflexivity. }
    rewrite nth_error_map in Hn. destruct (nth_error deps pm) as [d|] eqn:Ed; [|discriminate].
    cbn in Hn. inversion Hn. rewrite (nth_error_nth _ _ (0, []) Ed). reflexivity. }
  assert (Hinv : pm_inv (snd (nth pm deps (0, []))) pm ss).
  { exists s. split; [exact Es|]. rewrite Hsn. split; [left; reflexivity|]. intros x Hx. right; exact Hx. }
  split.
  - apply (iter_loop_nonlast run b sw pm _ (S (length (siter (nth pm ss dummy_slot)))) ss specs _ a HI Hpm
             (Nat.lt_succ_diag_r _) HT Hdb Hnd' Hinv Hstair).
  - (* a normal end means at least one round was made *)
    cbn [iter_loop] in *. destruct (round_body sw pm ss) as [[c ss2]|e0]; [|cbn in Hnone; discriminate].
    destruct (fetch_pm pm ss2) as [[ss3|]|e1]; cbn; discriminate.
Qed.
