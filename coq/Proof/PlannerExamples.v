(* C11 — concrete witnesses: the hypotheses of the theorems are satisfiable, and the two statements the
   faithful model refutes (D5: threaded wiring on the pinned tree; TARGET policy against the user's
   targets after get_iter's merge).  Everything here is decided by vm_compute. *)
From SV Require Import Spec.PlannerSpec Proof.PlannerProof Proof.PlannerSaversProof Proof.PlannerDfsProof
  Proof.PlannerTopProof Proof.PlannerWiringProof.

Local Open Scope nat_scope.

Lemma NoDup_nodupb l : NoDup l -> nodupb l = true.
Proof.
  induction 1 as [|a l Hn Hnd IH]; cbn; [reflexivity|].
  apply andb_true_iff. split; [|exact IH]. apply negb_true_iff. apply mem_false. exact Hn.
Qed.

(* ---------------------------------------------------------------------------------------------- *)
(* D5: a two-output source plugin {0, 1}; a consumer {2} of both; 0 is stored, 1 is not            *)
(* (harness: WITNESS_D5 in harness/props/c11.py)                                                   *)
(* ---------------------------------------------------------------------------------------------- *)

Definition d5_graph : graph :=
  [ mkplugin [(0, SAVEWHEN_ALWAYS); (1, SAVEWHEN_ALWAYS)] [] false;
    mkplugin [(2, SAVEWHEN_ALWAYS)] [0; 1] false ].
Definition d5_ctx : context := mkctx [mkfe false [] [] [0]] [] false false false.
Definition d5_req : request := mkreq [2] [] false false false.
Definition d5_comp : components :=
  mkcomp [2; 1] [0] [(1, [0]); (2, [0])] [2].

Example d5_wf : wf_graph d5_graph.
Proof. vm_compute. reflexivity. Qed.

Example d5_plan : get_components d5_graph d5_ctx d5_req = Ok d5_comp.
Proof. vm_compute. reflexivity. Qed.

(* the plan is non-trivial: it mixes a loader, a recomputed sibling output and two savers *)
Example d5_pinned_two_senders : senders (wiring_pinned d5_graph d5_comp) 0 = [OLoader 0; OPlugin 0].
Proof. vm_compute. reflexivity. Qed.

Example d5_fixed_one_sender : senders (wiring_fixed d5_graph d5_comp) 0 = [OLoader 0].
Proof. vm_compute. reflexivity. Qed.

Example d5_single : wiring_single d5_graph d5_comp = Ok (wiring_fixed d5_graph d5_comp).
Proof. vm_compute. reflexivity. Qed.

Definition full_one_origin_threaded_pinned : Prop :=
  forall g cx rq c, wf_graph g -> get_components g cx rq = Ok c -> one_origin g c (wiring_pinned g c).

Theorem one_origin_threaded_pinned_refuted : ~ full_one_origin_threaded_pinned.
Proof.
  intros H. destruct (H d5_graph d5_ctx d5_req d5_comp d5_wf d5_plan) as [Hnd _].
  apply NoDup_nodupb in Hnd. vm_compute in Hnd. discriminate.
Qed.

(* the partial theorem's hypothesis is satisfiable: nothing stored, everything recomputed *)
Definition d5_ctx_empty : context := mkctx [mkfe false [] [] []] [] false false false.
Example d5_empty_plan :
  get_components d5_graph d5_ctx_empty d5_req = Ok (mkcomp [2; 0; 1] [] [(0, [0]); (1, [0]); (2, [0])] [2]).
Proof. vm_compute. reflexivity. Qed.

Example d5_empty_no_sibling :
  no_loader_fed_sibling d5_graph (mkcomp [2; 0; 1] [] [(0, [0]); (1, [0]); (2, [0])] [2]).
Proof. intros d j p k _ _ _ []. Qed.

(* ---------------------------------------------------------------------------------------------- *)
(* explicit errors                                                                                *)
(* ---------------------------------------------------------------------------------------------- *)

(* time range while the ALWAYS-saved sibling 1 is missing *)
Example d5_time_range_error :
  get_components d5_graph d5_ctx (mkreq [2] [] true false false) = Err E_DNA.
Proof. vm_compute. reflexivity. Qed.

(* creation of 1 forbidden by the context *)
Example d5_forbidden_error :
  get_components d5_graph (mkctx [mkfe false [] [] [0]] [1] false false false) d5_req = Err E_DNA.
Proof. vm_compute. reflexivity. Qed.

(* chain 0 -> 1 (NEVER) -> 2; asking to save the NEVER type is a ValueError *)
Definition chain_graph : graph :=
  [ mkplugin [(0, SAVEWHEN_ALWAYS)] [] false;
    mkplugin [(1, SAVEWHEN_NEVER)] [0] false;
    mkplugin [(2, SAVEWHEN_TARGET)] [1] false ].
Example chain_wf : wf_graph chain_graph.
Proof. vm_compute. reflexivity. Qed.
Example chain_never_error :
  get_components chain_graph d5_ctx (mkreq [2] [1] false false false) = Err E_VALUE.
Proof. vm_compute. reflexivity. Qed.
(* ... but not when 1 is not computed at all because 2 is stored *)
Example chain_never_not_reached :
  get_components chain_graph (mkctx [mkfe false [] [] [2]] [] false false false) (mkreq [2] [1] false false false)
  = Ok (mkcomp [] [2] [] [2]).
Proof. vm_compute. reflexivity. Qed.
(* policies: 1 NEVER is not saved, 2 TARGET is, into the writable frontend only (frontend 0 is read-only) *)
Example chain_policies :
  get_components chain_graph (mkctx [mkfe true [] [] [0]; mkfe false [] [1] []] [] false false false)
                 (mkreq [2] [] false false false)
  = Ok (mkcomp [2; 1] [0] [(2, [1])] [2]).
Proof. vm_compute. reflexivity. Qed.
(* a partial request saves nothing *)
Example chain_partial_saves_nothing :
  get_components chain_graph d5_ctx (mkreq [2] [] false true false) = Ok (mkcomp [2; 1] [0] [] [2]).
Proof. vm_compute. reflexivity. Qed.

(* ---------------------------------------------------------------------------------------------- *)
(* get_iter's merge of several same-kind targets and the TARGET policy                            *)
(* (harness: WITNESS_MT)                                                                          *)
(* ---------------------------------------------------------------------------------------------- *)

Definition mt_graph : graph :=
  [ mkplugin [(0, SAVEWHEN_ALWAYS)] [] false;
    mkplugin [(1, SAVEWHEN_TARGET)] [0] false;
    mkplugin [(2, SAVEWHEN_TARGET)] [0] false ].
Definition mt_kinds : list nat := [0; 1; 1].
Definition mt_ctx : context := mkctx [mkfe false [] [] []] [] false false false.
Definition mt_req : request := mkreq [1; 2] [] false false false.

Example mt_wf : wf_graph mt_graph.
Proof. vm_compute. reflexivity. Qed.

(* through get_iter: only the ALWAYS source gets a saver *)
Example mt_plan :
  get_iter_plan mt_graph mt_kinds mt_ctx mt_req = Ok (mkcomp [3; 1; 0; 2] [] [(0, [0])] [3]).
Proof. vm_compute. reflexivity. Qed.

(* a single target: the TARGET policy saves it *)
Example mt_single_target :
  get_iter_plan mt_graph mt_kinds mt_ctx (mkreq [1] [] false false false) = Ok (mkcomp [1; 0] [] [(0, [0]); (1, [0])] [1]).
Proof. vm_compute. reflexivity. Qed.

(* "saved when it is a target", read against the targets the user listed *)
Definition full_saves_by_policy_user_targets : Prop :=
  forall g kinds cx rq c d j p,
    wf_graph g -> get_iter_plan g kinds cx rq = Ok c ->
    In d (r_targets rq) -> plugin_of g d = Some (j, p) -> sw_of p d = SAVEWHEN_TARGET ->
    In d (k_plugins c) ->                                   (* newly computed *)
    partial_request cx rq = false ->
    saver_frontends (c_fes cx) d <> [] ->                   (* some frontend accepts it *)
    In (d, saver_frontends (c_fes cx) d) (k_savers c).

Theorem saves_by_policy_user_targets_refuted : ~ full_saves_by_policy_user_targets.
Proof.
  intros H.
  assert (Hin : In (1, saver_frontends (c_fes mt_ctx) 1) [(0, [0])]).
  { apply (H mt_graph mt_kinds mt_ctx mt_req (mkcomp [3; 1; 0; 2] [] [(0, [0])] [3]) 1 1
             (mkplugin [(1, SAVEWHEN_TARGET)] [0] false) mt_wf mt_plan).
    - cbn. auto.
    - vm_compute. reflexivity.
    - vm_compute. reflexivity.
    - cbn. auto.
    - vm_compute. reflexivity.
    - vm_compute. discriminate. }
  vm_compute in Hin. destruct Hin as [Hin|[]]. discriminate.
Qed.
