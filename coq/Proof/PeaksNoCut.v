(* find_peaks: when max_duration is large enough that the duration test never fires for any pair
   of hits, every boundary of the clustering is a gap boundary, hence the peaks are disjoint. *)
From SV Require Import Model.Peaks Spec.PeaksSpec Proof.PeaksProof Proof.PeaksTheorems.

Section NoCut.
Variable P : fp_params.
Variable gains : list Z.
Variable nch : nat.

(* peak_too_long is false for every (first hit of a peak, next hit) pair that can occur *)
Definition no_duration_cut (hs : list hit) : Prop :=
  forall h0 nh, In h0 hs -> In nh hs -> fp_toolong P (ht h0 - fp_lext P) nh = false.

Lemma Clustering_hd nh rest gs : Clustering P (nh :: rest) gs ->
  exists tl gs', gs = (nh :: tl) :: gs'.
Proof.
  intros H. apply (Clustering_inv P) in H.
  destruct H as [[He _]|[[_ ->]|(g & nh' & rest' & gs0 & He & -> & Hc & _)]].
  - discriminate.
  - exists rest, []. reflexivity.
  - destruct g as [|a g]; [destruct Hc|]. cbn [app] in He. injection He as <- _.
    exists g, gs0. reflexivity.
Qed.

Lemma clustering_allfar hs_all : no_duration_cut hs_all ->
  forall hs gs, Clustering P hs gs -> (forall h, In h hs -> In h hs_all) -> AllFar P gs.
Proof.
  intros Hno. induction 1 as [|g Hc|g nh rest gs Hc Hb Hcl IH]; intros Hin.
  - constructor.
  - constructor.
  - destruct (Clustering_hd nh rest gs Hcl) as (tl & gs' & ->).
    constructor.
    + unfold far_boundary. cbn [hd]. unfold PeaksSpec.boundary, fp_closes in Hb.
      assert (Ht : fp_toolong P (gstart P g) nh = false).
      { destruct g as [|h0 g']; [destruct Hc|]. unfold PeaksSpec.gstart. cbn [gfirst].
        apply Hno; apply Hin; [left; reflexivity|apply in_or_app; right; left; reflexivity]. }
      rewrite Ht, orb_false_r in Hb. exact Hb.
    + apply IH. intros h Hh. apply Hin, in_or_app. right. exact Hh.
Qed.

Theorem find_peaks_disjoint_large_max_duration hs ps d :
  find_peaks P gains nch hs = Ok ps -> Forall (fun x => 0 <= hch x) hs -> fp_asserts P gains hs = true ->
  no_duration_cut hs -> uniform d hs -> 0 < d -> 0 <= fp_lext P -> 0 <= fp_rext P ->
  peaks_disjoint_ordered ps.
Proof.
  intros Hrun Hch Ha Hno Hu Hd Hl Hr.
  destruct (find_peaks_spec P gains nch hs ps Hch Ha Hrun) as (gs & Hcl & _).
  eapply (find_peaks_disjoint P gains nch hs ps gs d); eauto.
  eapply clustering_allfar; eauto.
Qed.
End NoCut.
