(* _merge_peaks: a merged peak adds the areas, hit counts and per-channel areas of its
   constituents, starts at the first start, reports the last end as its endtime, never extends
   beyond it, and its dt is a multiple of the gcd of the constituents' dt. *)
From SV Require Import Model.Merging.

Lemma gcdl_pos l : forall d, 0 < d -> 0 < gcdl d l.
Proof.
  induction l as [|x l IH]; intros d Hd; cbn [gcdl]; [exact Hd|].
  apply IH. pose proof (Z.gcd_nonneg d x).
  destruct (Z.eq_dec (Z.gcd d x) 0) as [E|E]; [|lia].
  apply Z.gcd_eq_0_l in E. lia.
Qed.

Lemma gcdl_divides l : forall d, (gcdl d l | d) /\ forall x, In x l -> (gcdl d l | x).
Proof.
  induction l as [|y l IH]; intros d; cbn [gcdl].
  - split; [apply Z.divide_refl|intros x []].
  - destruct (IH (Z.gcd d y)) as [H1 H2]. split.
    + eapply Z.divide_trans; [exact H1|apply Z.gcd_divide_l].
    + intros x [<-|Hx]; [|apply H2, Hx].
      eapply Z.divide_trans; [exact H1|apply Z.gcd_divide_r].
Qed.

Lemma store_downsampled_span len dt ns buf : 0 <= len -> 0 < dt -> 0 < ns ->
  let r := store_downsampled len dt ns buf in
  let len' := fst (fst r) in let dt' := snd (fst r) in
  0 <= len' /\ dt <= dt' /\ len' * dt' <= len * dt /\ len * dt - len' * dt' < dt' /\ (dt | dt') /\ len' <= Z.max ns len
  /\ (ds_factor len ns <= 1 -> len' = len /\ dt' = dt).
Proof.
  intros Hl Hd Hn. unfold store_downsampled, ds_factor. cbn zeta.
  destruct ((len + ns - 1) / ns >? 1) eqn:E; cbn [fst snd].
  - set (f := (len + ns - 1) / ns) in *.
    assert (Hf : 1 < f) by lia.
    assert (Hq : len / f * f <= len < len / f * f + f).
    { pose proof (Z.div_mod len f ltac:(lia)). pose proof (Z.mod_pos_bound len f ltac:(lia)). lia. }
    split; [apply Z.div_pos; lia|]. split; [nia|]. split; [nia|]. split; [nia|]. split; [exists f; lia|].
    split; [|lia].
    assert (len / f <= len) by (apply Z.div_le_upper_bound; nia). lia.
  - repeat split; try lia. apply Z.divide_refl.
Qed.

Lemma zaddl_nth : forall a b c, length a = length b -> nth c (zaddl a b) 0 = nth c a 0 + nth c b 0.
Proof.
  induction a as [|x a IH]; intros [|y b] c H; try discriminate; cbn [zaddl].
  - destruct c; reflexivity.
  - destruct c as [|c]; cbn [nth]; [reflexivity|]. apply IH. cbn in H. lia.
Qed.

Lemma zaddl_length : forall a b, length a = length b -> length (zaddl a b) = length a.
Proof.
  induction a as [|x a IH]; intros [|y b] H; try discriminate; cbn [zaddl length]; [reflexivity|].
  f_equal. apply IH. cbn in H. lia.
Qed.

Lemma fold_zaddl_nth k c : forall ls init, length init = k -> Forall (fun l => length l = k) ls ->
  nth c (fold_left zaddl ls init) 0 = nth c init 0 + zsum (map (fun l => nth c l 0) ls).
Proof.
  induction ls as [|l ls IH]; intros init Hi Hall; cbn [fold_left map zsum]; [lia|].
  inversion Hall as [|? ? Hl Hall']; subst.
  rewrite IH; [|rewrite zaddl_length; lia|exact Hall'].
  rewrite zaddl_nth by lia. lia.
Qed.

Lemma fold_zaddl_nth0 nch c (old : list mpeak) :
  Forall (fun q => length (mapc q) = nch) old ->
  nth c (fold_left zaddl (map mapc old) (repeat 0 nch)) 0 = zsum (map (fun q => nth c (mapc q) 0) old).
Proof.
  intros Hall. rewrite (fold_zaddl_nth nch c).
  - rewrite map_map. assert (Hr : nth c (repeat 0 nch) 0 = 0).
    { clear. revert c; induction nch as [|k IH]; intros [|c]; cbn; auto. }
    rewrite Hr. lia.
  - apply repeat_length.
  - rewrite Forall_map. exact Hall.
Qed.

Theorem merge_group_spec ns nch old p E :
  merge_group ns nch old = Ok (p, E) ->
  exists first, hd_error old = Some first /\
  E = mend (last old first) /\ mt p = mt first /\
  marea p = zsum (map marea old) /\ mnhits p = zsum (map mnhits old) /\
  mapc p = fold_left zaddl (map mapc old) (repeat 0 nch) /\
  (Forall (fun q => length (mapc q) = nch) old ->
   forall c, nth c (mapc p) 0 = zsum (map (fun q => nth c (mapc q) 0) old)) /\
  (0 < ns -> Forall (fun q => 0 < mdt q) old -> mt first <= mend (last old first) ->
   let cdt := gcdl (mdt first) (map mdt old) in
   0 < cdt /\ (forall q, In q old -> (cdt | mdt q)) /\ (cdt | mdt p) /\
   0 <= mlen p /\ mt p + mlen p * mdt p <= E /\ E < mt p + mlen p * mdt p + 2 * mdt p).
Proof.
  destruct old as [|first rest]; [discriminate|]. unfold merge_group.
  set (old := first :: rest). set (lastp := last old first).
  set (cdt := gcdl (mdt first) (map mdt old)). set (t0 := mt first).
  set (len0 := (mend lastp - t0) / cdt).
  set (buf := map (fun j => buf_at old cdt t0 j 0%Q) (zseqn 0 (Z.to_nat len0))).
  pose proof (store_downsampled_span len0 cdt ns buf) as Hsp.
  destruct (store_downsampled len0 cdt ns buf) as [[len dt] data] eqn:Esd.
  intros H. injection H as <- <-. exists first. cbn [mt mlen mdt marea mnhits mapc hd_error].
  repeat (split; [reflexivity|]). split.
  - intros Hall c. exact (fold_zaddl_nth0 nch c old Hall).
  - intros Hns Hdt Hle. cbn zeta.
    assert (Hd0 : 0 < mdt first) by (inversion Hdt; auto).
    assert (Hc : 0 < cdt) by (apply gcdl_pos; auto).
    assert (Hl0 : 0 <= len0) by (apply Z.div_pos; unfold t0, lastp; lia).
    cbn [fst snd] in Hsp. destruct (Hsp Hl0 Hc Hns) as (G1 & Hdd & G2 & G3 & G4 & _).
    split; [exact Hc|]. split.
    { intros q Hq. apply (gcdl_divides (map mdt old) (mdt first)). apply in_map. exact Hq. }
    split; [exact G4|]. split; [exact G1|].
    assert (Hq : len0 * cdt <= mend lastp - t0 < len0 * cdt + cdt).
    { unfold len0. pose proof (Z.div_mod (mend lastp - t0) cdt ltac:(lia)).
      pose proof (Z.mod_pos_bound (mend lastp - t0) cdt ltac:(lia)). lia. }
    unfold t0 in *. lia.
Qed.

(* the whole _merge_peaks: one merged peak per (start, end) range, each built by merge_group *)
Theorem merge_peaks_groups ns nch ps : forall se gs,
  merge_peaks ns nch ps se = Ok gs ->
  2 <= zlen ps /\ disjointb ps = true /\
  Forall2 (fun r g => merge_group ns nch (firstn (Z.to_nat (snd r - fst r)) (skipn (Z.to_nat (fst r)) ps)) = Ok g)
          se gs.
Proof.
  intros se gs. unfold merge_peaks.
  destruct (zlen ps <? 2) eqn:E1; [discriminate|]. destruct (disjointb ps) eqn:E2; [|discriminate].
  cbn [negb orb]. intros H. split; [lia|]. split; [reflexivity|].
  revert gs H. induction se as [|[s e] se IH]; intros gs H; cbn [merge_groups] in H.
  - injection H as <-. constructor.
  - destruct (merge_group ns nch (firstn (Z.to_nat (e - s)) (skipn (Z.to_nat s) ps))) as [g|] eqn:Eg;
      cbn in H; [|discriminate].
    destruct (merge_groups ns nch ps se) as [gs'|] eqn:Egs; cbn in H; [|discriminate].
    injection H as <-. constructor; [exact Eg|]. apply IH. reflexivity.
Qed.

(* non-vacuity: the probe of DESIGN 7 / T5 on the merging path *)
Definition ex_mp : list mpeak :=
  [mkmp 0 2 1 3 [3; 0] 1 [1#1; 2#1; 0; 0]%Q; mkmp 4 3 2 18 [18; 0] 2 [4#1; 6#1; 8#1; 0]%Q;
   mkmp 10 2 1 10 [10; 0] 3 [5#1; 5#1; 0; 0]%Q].
Example ex_merge : exists d, merge_peaks 4 2 ex_mp [(0, 3)] = Ok [(mkmp 0 4 3 31 [31; 0] 6 d, 12)]
  /\ map Qred d = [3#1; 4#1; 10#1; 14#1]%Q.
Proof. eexists. split; vm_compute; reflexivity. Qed.
