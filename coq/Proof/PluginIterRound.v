(* Invariants of the Plugin.iter model (property C08), part 2: all dependencies together, one round,
   the whole loop. *)
From SV Require Import Model.Rows Model.SplitArray Model.Chunk Model.PluginIter
     Proof.RowsFacts Proof.SplitArrayProof Proof.ChunkProof Proof.PluginIterProof.

(* what is fixed about one dependency during a run: all its rows, where its source ends, its data
   type and its data kind *)
Record dspec := mkdspec { dR : list row; db : Z; ddt : Z; dk : Z }.

Section Run.
Variable run : option Z.

(* every dependency satisfies its invariant and every buffer starts at E (the end of the last call) *)
Inductive slots_inv (E : Z) : list dspec -> list (list row) -> list slot -> Prop :=
| sli_nil : slots_inv E [] [] []
| sli_cons d ds dn dns s ss :
    slot_inv (dR d) (db d) (ddt d) run dn s -> cstart (sbuf s) = E -> skind s = dk d ->
    slots_inv E ds dns ss -> slots_inv E (d :: ds) (dn :: dns) (s :: ss).

Inductive pends_inv (E y : Z) : list dspec -> list (list row) -> list chunk -> list slot -> Prop :=
| pdi_nil : pends_inv E y [] [] [] []
| pdi_cons d ds dn dns i ins s ss :
    pend_inv (dR d) (db d) (ddt d) run dn y i s -> cstart i = E -> skind s = dk d ->
    pends_inv E y ds dns ins ss -> pends_inv E y (d :: ds) (dn :: dns) (i :: ins) (s :: ss).

Lemma slots_inv_nil_inv E specs dones : slots_inv E specs dones [] -> specs = [] /\ dones = [].
Proof. intros H; inversion H; auto. Qed.

Lemma slots_inv_cons_inv E specs dones s ss :
  slots_inv E specs dones (s :: ss) ->
  exists d ds dn dns, specs = d :: ds /\ dones = dn :: dns /\
    slot_inv (dR d) (db d) (ddt d) run dn s /\ cstart (sbuf s) = E /\ skind s = dk d /\ slots_inv E ds dns ss.
Proof.
  intros H. remember (s :: ss) as l eqn:El. destruct H as [|d ds dn dns s' ss' H1 H2 H3 H4]; [discriminate|].
  inversion El; subst s' ss'. exists d, ds, dn, dns.
  split; [reflexivity|]. split; [reflexivity|]. split; [exact H1|]. split; [exact H2|]. split; [exact H3|exact H4].
Qed.

Lemma pends_inv_nil_inv E y specs dones ss : pends_inv E y specs dones [] ss -> specs = [] /\ dones = [] /\ ss = [].
Proof. intros H; inversion H; auto. Qed.

Lemma pends_inv_cons_inv E y specs dones i ins ss0 :
  pends_inv E y specs dones (i :: ins) ss0 ->
  exists d ds dn dns s ss, specs = d :: ds /\ dones = dn :: dns /\ ss0 = s :: ss /\
    pend_inv (dR d) (db d) (ddt d) run dn y i s /\ cstart i = E /\ skind s = dk d /\ pends_inv E y ds dns ins ss.
Proof.
  intros H. remember (i :: ins) as l eqn:El. destruct H as [|d ds dn dns i' ins' s ss H1 H2 H3 H4]; [discriminate|].
  inversion El; subst i' ins'. exists d, ds, dn, dns, s, ss.
  split; [reflexivity|]. split; [reflexivity|]. split; [reflexivity|]. split; [exact H1|]. split; [exact H2|]. split; [exact H3|exact H4].
Qed.

Lemma slots_inv_length E specs dones ss :
  slots_inv E specs dones ss -> length specs = length ss /\ length dones = length ss.
Proof. induction 1; cbn; [auto|]. destruct IHslots_inv. split; congruence. Qed.

Lemma pends_inv_length E y specs dones inps ss :
  pends_inv E y specs dones inps ss ->
  length specs = length ss /\ length dones = length ss /\ length inps = length ss.
Proof. induction 1; cbn; [auto|]. destruct IHpends_inv as (? & ? & ?). repeat split; congruence. Qed.

Lemma slots_inv_kinds E specs dones ss : slots_inv E specs dones ss -> map skind ss = map dk specs.
Proof. induction 1; cbn; [auto|]. congruence. Qed.

Lemma pends_inv_kinds E y specs dones inps ss : pends_inv E y specs dones inps ss -> map skind ss = map dk specs.
Proof. induction 1; cbn; [auto|]. congruence. Qed.

(* ---------- the first `for d in depends_on` loop ---------- *)

Lemma gather_spec E tce pm : forall ss specs dones i,
  slots_inv E specs dones ss -> E <= tce ->
  (forall j s, nth_error ss j = Some s -> (i + j)%nat = pm -> cend (sbuf s) = tce) ->
  match gather ss i pm tce with
  | Ok (inps, ss') =>
      pends_inv E tce specs dones inps ss' /\
      (forall j s s', nth_error ss j = Some s -> nth_error ss' j = Some s' -> (i + j)%nat = pm -> siter s' = siter s)
  | Err e => e = E_PREMATURE /\ exists d, In d specs /\ db d < tce
  end.
Proof.
  induction ss as [|s ss IH]; intros specs dones i HI HE Hpm; cbn [gather].
  - apply slots_inv_nil_inv in HI as [-> ->].
    split; [constructor|]. intros j s s' Hj. destruct j; discriminate.
  - apply slots_inv_cons_inv in HI as (d & ds & dn & dns & -> & -> & Hs & Hst & Hk & Hrest).
    pose proof (gather_one_spec _ _ _ _ _ _ (Nat.eqb i pm) tce Hs) as HG.
    assert (Hc1 : cstart (sbuf s) <= tce) by lia.
    assert (Hc2 : Nat.eqb i pm = true -> cend (sbuf s) = tce).
    { intros Heq. apply Nat.eqb_eq in Heq. apply (Hpm 0%nat s); [reflexivity|lia]. }
    specialize (HG Hc1 Hc2).
    destruct (gather_one (Nat.eqb i pm) s tce) as [[inp s']|e]; cbn [res_bind fst snd].
    + destruct HG as (HP & G1 & G2 & G3 & G4 & G5).
      assert (Hpm' : forall j s0, nth_error ss j = Some s0 -> (S i + j)%nat = pm -> cend (sbuf s0) = tce).
      { intros j s0 Hj Hij. apply (Hpm (S j) s0); [exact Hj|lia]. }
      specialize (IH ds dns (S i) Hrest HE Hpm').
      destruct (gather ss (S i) pm tce) as [[inps ss']|e]; cbn [res_bind fst snd].
      * destruct IH as [IH1 IH2]. split.
        -- constructor; auto; congruence.
        -- intros j s0 s0' Hj Hj' Hij. destruct j as [|j]; cbn in Hj, Hj'.
           ++ inversion Hj; inversion Hj'; subst. apply G5. apply Nat.eqb_eq. lia.
           ++ apply (IH2 j s0 s0' Hj Hj'). lia.
      * destruct IH as [-> [d0 [Hd0 Hlt]]]. split; [reflexivity|]. exists d0. split; [right; exact Hd0|exact Hlt].
    + destruct HG as (-> & _ & Hlt). split; [reflexivity|]. exists d. split; [left; reflexivity|exact Hlt].
Qed.

(* ---------- the re-trim loop ---------- *)

Lemma zminl_le d l : zminl d l <= d.
Proof. revert d; induction l as [|x l IH]; intros d; cbn [zminl]; [lia|]. specialize (IH (Z.min d x)). lia. Qed.

Lemma zminl_le_in d l x : In x l -> zminl d l <= x.
Proof.
  revert d; induction l as [|y l IH]; intros d Hin; cbn [zminl]; [destruct Hin|].
  destruct Hin as [->|Hin]; [pose proof (zminl_le (Z.min d x) l); lia|apply IH, Hin].
Qed.

Lemma zminl_ge d l lo : lo <= d -> Forall (fun x => lo <= x) l -> lo <= zminl d l.
Proof.
  revert d; induction l as [|x l IH]; intros d Hd HF; cbn [zminl]; [exact Hd|].
  inversion HF; subst. apply IH; [lia|auto].
Qed.

Lemma zminl_attained d l : zminl d l = d \/ In (zminl d l) l.
Proof.
  revert d; induction l as [|x l IH]; intros d; cbn [zminl]; [left; reflexivity|].
  destruct (IH (Z.min d x)) as [H|H]; [|right; right; exact H].
  destruct (Z_le_dec d x); [left; rewrite H; lia|right; left; rewrite H; lia].
Qed.

Lemma all_equal_spec l : all_equal l = true -> forall x y, In x l -> In y l -> x = y.
Proof.
  destruct l as [|a r]; cbn [all_equal]; [intros _ x y []|].
  intros H x y Hx Hy. rewrite forallb_forall in H.
  assert (Ha : forall z, In z (a :: r) -> z = a).
  { intros z [->|Hz]; [reflexivity|]. specialize (H z Hz). apply Z.eqb_eq in H. congruence. }
  rewrite (Ha x Hx), (Ha y Hy). reflexivity.
Qed.

Lemma all_equal_complete l : (forall x y, In x l -> In y l -> x = y) -> all_equal l = true.
Proof.
  destruct l as [|a r]; cbn [all_equal]; [reflexivity|]. intros H. apply forallb_forall. intros z Hz.
  apply Z.eqb_eq. apply H; [left; reflexivity|right; exact Hz].
Qed.

Lemma retrim_split_spec E t : forall inps ss specs dones y,
  pends_inv E y specs dones inps ss -> E <= t -> Forall (fun i => t <= cend i) inps ->
  exists inps' ss', retrim_split inps ss t = Ok (inps', ss') /\ pends_inv E t specs dones inps' ss' /\
                    map siter ss' = map siter ss.
Proof.
  induction inps as [|inp inps IH]; intros ss specs dones y HP HE HF.
  - apply pends_inv_nil_inv in HP as (-> & -> & ->). cbn [retrim_split].
    exists [], []. split; [reflexivity|]. split; [constructor|reflexivity].
  - apply pends_inv_cons_inv in HP as (d & ds & dn & dns & s & ss0 & -> & -> & -> & Hp & Hst & Hk & Hrest).
    cbn [retrim_split].
    apply Forall_cons_iff in HF as [Hf1 HF].
    destruct (retrim_one _ _ _ _ _ _ _ _ t Hp) as (a & back & buf' & E1 & E2 & HP' & A1 & A2); [lia|exact Hf1|].
    rewrite E1. cbn [res_bind fst snd]. rewrite E2. cbn [res_bind].
    destruct (IH ss0 ds dns y Hrest HE HF) as (inps' & ss' & E3 & HP3 & Hit).
    rewrite E3. cbn [res_bind fst snd].
    eexists; eexists. split; [reflexivity|]. split.
    + constructor; auto; congruence.
    + cbn [map siter]. rewrite Hit. reflexivity.
Qed.

Lemma pends_inv_ends_ge E y specs dones inps ss :
  pends_inv E y specs dones inps ss -> Forall (fun i => E <= cend i) inps.
Proof.
  induction 1; constructor; auto.
  destruct (pi_wf _ _ _ _ _ _ _ _ H) as (_ & Hse & _). lia.
Qed.

Lemma retrim_spec E : forall p tce inps ss specs dones y,
  pends_inv E y specs dones inps ss -> E <= tce ->
  match retrim p tce inps ss with
  | Ok (inps', ss') =>
      exists y', pends_inv E y' specs dones inps' ss' /\
                 (forall a b, In a inps' -> In b inps' -> cend a = cend b) /\
                 map siter ss' = map siter ss
  | Err e => e = E_TOO_MANY_PASSES
  end.
Proof.
  induction p as [|p IH]; intros tce inps ss specs dones y HP HE; cbn [retrim]; [reflexivity|].
  destruct (all_equal (map cend inps)) eqn:Eq.
  - exists y. split; [exact HP|]. split; [|reflexivity].
    intros a b Ha Hb. apply (all_equal_spec _ Eq); apply in_map; assumption.
  - set (t := zminl tce (map cend inps)).
    assert (Ht1 : E <= t).
    { apply zminl_ge; [exact HE|]. apply Forall_map. eapply pends_inv_ends_ge, HP. }
    assert (Ht2 : Forall (fun i => t <= cend i) inps).
    { apply Forall_forall. intros i Hi. apply zminl_le_in. apply in_map. exact Hi. }
    destruct (retrim_split_spec E t inps ss specs dones y HP Ht1 Ht2) as (inps' & ss' & E1 & HP' & Hit).
    rewrite E1. cbn [res_bind fst snd].
    specialize (IH t inps' ss' specs dones t HP' Ht1).
    destruct (retrim p t inps' ss') as [[i2 s2]|e]; [|exact IH].
    destruct IH as (y' & I1 & I2 & I3). exists y'. split; [exact I1|]. split; [exact I2|congruence].
Qed.

(* ---------- from aligned pending inputs to the state after the call ---------- *)

Fixpoint zip_app (dones : list (list row)) (inps : list chunk) : list (list row) :=
  match dones, inps with
  | d :: dr, i :: ir => (d ++ crows i) :: zip_app dr ir
  | _, _ => []
  end.

Lemma pends_to_slots E y E' specs dones inps ss :
  pends_inv E y specs dones inps ss -> (forall i, In i inps -> cend i = E') ->
  slots_inv E' specs (zip_app dones inps) ss /\
  Forall (fun i => wf i /\ cstart i = E /\ cend i = E') inps.
Proof.
  induction 1; intros Hall; cbn [zip_app].
  - split; constructor.
  - destruct IHpends_inv as [I1 I2]; [intros; apply Hall; right; assumption|].
    assert (He : cend i = E') by (apply Hall; left; reflexivity).
    split.
    + constructor; auto.
      * apply (pi_slot _ _ _ _ _ _ _ _ H).
      * rewrite <- (pi_adj _ _ _ _ _ _ _ _ H). exact He.
    + constructor; [|exact I2]. split; [apply (pi_wf _ _ _ _ _ _ _ _ H)|auto].
Qed.

(* ---------- Chunk.merge / do_compute checks ---------- *)

Lemma group_of_in k : forall ss inps c, In c (group_of k ss inps) -> In c inps.
Proof.
  induction ss as [|s ss IH]; intros inps c H; cbn [group_of] in H; [destruct H|].
  destruct inps as [|i inps]; [destruct H|].
  destruct (skind s =? k); [destruct H as [->|H]; [left; reflexivity|right; apply IH, H]|right; apply IH, H].
Qed.

Lemma group_of_nth k : forall ss inps j s c,
  nth_error ss j = Some s -> nth_error inps j = Some c -> skind s = k -> In c (group_of k ss inps).
Proof.
  induction ss as [|s0 ss IH]; intros inps j s c Hs Hc Hk; [destruct j; discriminate|].
  destruct inps as [|i inps]; [destruct j; discriminate|]. cbn [group_of].
  destruct j as [|j]; cbn in Hs, Hc.
  - inversion Hs; inversion Hc; subst. rewrite Z.eqb_refl. left; reflexivity.
  - destruct (skind s0 =? k); [right|]; eapply IH; eauto.
Qed.

Lemma distinct_kinds_complete k : forall ks seen,
  In k ks -> In k seen \/ In k (distinct_kinds ks seen).
Proof.
  induction ks as [|k0 ks IH]; intros seen Hin; [destruct Hin|]. cbn [distinct_kinds].
  destruct (existsb (Z.eqb k0) seen) eqn:Ex.
  - destruct Hin as [->|Hin]; [|apply IH, Hin].
    left. apply existsb_exists in Ex as [x [Hx Heq]]. apply Z.eqb_eq in Heq. subst. exact Hx.
  - destruct Hin as [->|Hin]; [right; left; reflexivity|].
    destruct (IH (k0 :: seen) Hin) as [[->|H]|H]; [right; left; reflexivity|left; exact H|right; right; exact H].
Qed.

Lemma merge_all_in ss inps : forall ks ms k,
  merge_all ks ss inps = Ok ms -> In k ks -> exists m, merge_check (group_of k ss inps) = Ok m /\ In m ms.
Proof.
  induction ks as [|k0 ks IH]; intros ms k H Hin; [destruct Hin|]. cbn [merge_all] in H.
  destruct (merge_check (group_of k0 ss inps)) as [m|e] eqn:E1; cbn [res_bind] in H; [|discriminate].
  destruct (merge_all ks ss inps) as [ms'|e] eqn:E2; cbn [res_bind] in H; [|discriminate].
  inversion H; subst. destruct Hin as [->|Hin].
  - exists m. split; [exact E1|left; reflexivity].
  - destruct (IH ms' k eq_refl Hin) as [m' [Hm1 Hm2]]. exists m'. split; [exact Hm1|right; exact Hm2].
Qed.

Lemma merge_all_ms ss inps : forall ks ms m,
  merge_all ks ss inps = Ok ms -> In m ms -> exists k, In k ks /\ merge_check (group_of k ss inps) = Ok m.
Proof.
  induction ks as [|k0 ks IH]; intros ms m H Hin; cbn [merge_all] in H; [inversion H; subst; destruct Hin|].
  destruct (merge_check (group_of k0 ss inps)) as [m0|e] eqn:E1; cbn [res_bind] in H; [|discriminate].
  destruct (merge_all ks ss inps) as [ms'|e] eqn:E2; cbn [res_bind] in H; [|discriminate].
  inversion H; subst. destruct Hin as [->|Hin].
  - exists k0. split; [left; reflexivity|exact E1].
  - destruct (IH ms' m eq_refl Hin) as [k [Hk1 Hk2]]. exists k. split; [right; exact Hk1|exact Hk2].
Qed.

Lemma merge_check_head cs m : merge_check cs = Ok m -> exists c, In c cs /\ m = (cstart c, cend c, crun c).
Proof.
  destruct cs as [|c0 rest]; cbn [merge_check]; [discriminate|].
  destruct rest as [|c1 rest].
  - intros H; inversion H. exists c0. split; [left; reflexivity|reflexivity].
  - destruct (negb _); [discriminate|]. destruct (negb _); [discriminate|].
    destruct (negb _); [discriminate|]. destruct (negb _); [discriminate|].
    intros H; inversion H. exists c0. split; [left; reflexivity|reflexivity].
Qed.

Lemma merge_check_len cs m c c' :
  merge_check cs = Ok m -> In c cs -> In c' cs -> length (crows c) = length (crows c').
Proof.
  destruct cs as [|c0 rest]; cbn [merge_check]; [discriminate|].
  destruct rest as [|c1 rest].
  - intros _ [->|[]] [->|[]]. reflexivity.
  - destruct (negb _); [discriminate|]. destruct (negb _); [discriminate|].
    destruct (negb (forallb _ _)) eqn:El; [discriminate|]. intros _ Hc Hc'.
    apply negb_false_iff in El. rewrite forallb_forall in El.
    assert (Hall : forall x, In x (c0 :: c1 :: rest) -> length (crows x) = length (crows c0)).
    { intros x [->|Hx]; [reflexivity|]. specialize (El x Hx). apply Nat.eqb_eq in El. exact El. }
    rewrite (Hall c Hc), (Hall c' Hc'). reflexivity.
Qed.

Lemma compute_check_ok sw ms s e :
  compute_check sw ms = Ok (s, e) -> exists r rest, ms = (s, e, r) :: rest.
Proof.
  destruct ms as [|[[s0 e0] r0] rest]; cbn [compute_check]; [discriminate|].
  destruct (forallb _ rest); [destruct (forallb _ rest); [|discriminate]|destruct (sw <=? SAVEWHEN_EXPLICIT); discriminate].
  intros H; inversion H; subst. eauto.
Qed.

(* the errors a round can end in *)
Definition round_err (e : Z) : Prop :=
  In e [E_PREMATURE; E_TOO_MANY_PASSES; E_MERGE_KIND; E_MERGE_RUN; E_MERGE_LEN; E_MERGE_RANGE; E_NO_DEPS;
        E_RANGES; E_SUPERRUN].

Lemma merge_check_err cs e : merge_check cs = Err e -> round_err e.
Proof.
  unfold round_err. destruct cs as [|c0 rest]; cbn [merge_check]; [intros H; inversion H; cbn; tauto|].
  destruct rest as [|c1 rest]; [discriminate|].
  destruct (negb _); [intros H; inversion H; cbn; tauto|].
  destruct (negb _); [intros H; inversion H; cbn; tauto|].
  destruct (negb _); [intros H; inversion H; cbn; tauto|].
  destruct (negb _); [intros H; inversion H; cbn; tauto|discriminate].
Qed.

Lemma merge_all_err ss inps : forall ks e, merge_all ks ss inps = Err e -> round_err e.
Proof.
  induction ks as [|k ks IH]; intros e H; cbn [merge_all] in H; [discriminate|].
  destruct (merge_check (group_of k ss inps)) as [m|e1] eqn:E1; cbn [res_bind] in H.
  - destruct (merge_all ks ss inps) as [ms|e2] eqn:E2; cbn [res_bind] in H; [discriminate|].
    inversion H; subst. apply IH. reflexivity.
  - inversion H; subst. eapply merge_check_err, E1.
Qed.

Lemma compute_check_err sw ms e : compute_check sw ms = Err e -> round_err e.
Proof.
  unfold round_err. destruct ms as [|[[s0 e0] r0] rest]; cbn [compute_check]; [intros H; inversion H; cbn; tauto|].
  destruct (forallb _ rest).
  - destruct (forallb _ rest); [discriminate|intros H; inversion H; cbn; tauto].
  - destruct (sw <=? SAVEWHEN_EXPLICIT); intros H; inversion H; cbn; tauto.
Qed.

(* ---------- what a call looks like ---------- *)

Definition call_ok (kinds : list Z) (c : call) : Prop :=
  call_start c <= call_end c /\
  length (call_inputs c) = length kinds /\
  Forall (fun i => wf i /\ cstart i = call_start c /\ cend i = call_end c) (call_inputs c) /\
  (forall i j k ci cj, nth_error kinds i = Some k -> nth_error kinds j = Some k ->
                       nth_error (call_inputs c) i = Some ci -> nth_error (call_inputs c) j = Some cj ->
                       length (crows ci) = length (crows cj)).

Lemma nth_error_nth_dummy {A} (l : list A) n d x : nth_error l n = Some x -> nth n l d = x.
Proof. apply nth_error_nth. Qed.

(* one round *)
Lemma round_body_spec sw pm E ss specs dones :
  slots_inv E specs dones ss -> (pm < length ss)%nat ->
  match round_body sw pm ss with
  | Ok (c, ss') =>
      call_start c = E /\ call_ok (map dk specs) c /\
      slots_inv (call_end c) specs (zip_app dones (call_inputs c)) ss' /\
      siter (nth pm ss' dummy_slot) = siter (nth pm ss dummy_slot) /\ length ss' = length ss
  | Err e => round_err e
  end.
Proof.
  intros HI Hpm. unfold round_body.
  set (tce := cend (sbuf (nth pm ss dummy_slot))).
  destruct (nth_error ss pm) as [spm|] eqn:Epm; [|apply nth_error_None in Epm; lia].
  assert (Hnth : nth pm ss dummy_slot = spm) by (apply nth_error_nth; exact Epm).
  assert (HE : E <= tce).
  { unfold tce. rewrite Hnth. clear - HI Epm.
    revert pm Epm. induction HI; intros pm Epm; [destruct pm; discriminate|].
    destruct pm as [|pm]; cbn in Epm; [|eapply IHHI; eauto].
    inversion Epm; subst. destruct (si_wf _ _ _ _ _ _ H) as (_ & Hse & _). lia. }
  pose proof (gather_spec E tce pm ss specs dones 0%nat HI HE) as HG.
  assert (Hpmc : forall j s, nth_error ss j = Some s -> (0 + j)%nat = pm -> cend (sbuf s) = tce).
  { intros j s Hj Hij. cbn in Hij. subst j. unfold tce. rewrite Hnth. congruence. }
  specialize (HG Hpmc).
  destruct (gather ss 0 pm tce) as [[inps ss1]|e]; cbn [res_bind fst snd]; [|destruct HG as [-> _]; cbn; tauto].
  destruct HG as [HP Hit1].
  pose proof (retrim_spec E max_passes tce inps ss1 specs dones tce HP HE) as HR.
  destruct (retrim max_passes tce inps ss1) as [[inps2 ss2]|e]; cbn [res_bind fst snd]; [|rewrite HR; cbn; tauto].
  destruct HR as (y' & HP2 & Heq & Hit2).
  destruct (merge_all (distinct_kinds (map skind ss) []) ss inps2) as [ms|e] eqn:Em; cbn [res_bind]; [|eapply merge_all_err, Em].
  destruct (compute_check sw ms) as [[s e]|er] eqn:Ec; cbn [res_bind fst snd]; [|eapply compute_check_err, Ec].
  cbn [call_start call_end call_inputs].
  (* the range of the call *)
  destruct (compute_check_ok _ _ _ _ Ec) as (r0 & rest & ->).
  destruct (merge_all_ms _ _ _ _ _ Em (or_introl eq_refl)) as (k0 & Hk0 & Hm0).
  destruct (merge_check_head _ _ Hm0) as (c0 & Hc0 & Hce).
  apply group_of_in in Hc0.
  pose proof (pends_inv_length _ _ _ _ _ _ HP2) as (L1 & L2 & L3).
  pose proof (pends_inv_length _ _ _ _ _ _ HP) as (L4 & L5 & L6).
  pose proof (slots_inv_length _ _ _ _ HI) as (L7 & L8).
  assert (Hss12 : length ss2 = length ss1).
  { rewrite <- (map_length siter ss2), Hit2, map_length. reflexivity. }
  destruct (pends_to_slots E y' (cend c0) specs dones inps2 ss2 HP2) as [HS HF].
  { intros i Hi. apply Heq; assumption. }
  inversion Hce; subst s e.
  assert (Hc0s : cstart c0 = E).
  { rewrite Forall_forall in HF. apply (HF c0 Hc0). }
  split; [exact Hc0s|]. split; [|split; [exact HS|split]].
  - (* call_ok *)
    unfold call_ok. cbn [call_start call_end call_inputs].
    split.
    { rewrite Forall_forall in HF. destruct (HF c0 Hc0) as ((_ & Hse & _) & _). exact Hse. }
    split; [rewrite map_length; lia|].
    split.
    { eapply Forall_impl; [|exact HF]. cbn. intros i (Hw & Hs & He). split; [exact Hw|split; congruence]. }
    intros i j k ci cj Hki Hkj Hci Hcj.
    rewrite <- (slots_inv_kinds _ _ _ _ HI) in Hki, Hkj.
    rewrite nth_error_map in Hki, Hkj.
    destruct (nth_error ss i) as [si|] eqn:Esi; [|discriminate].
    destruct (nth_error ss j) as [sj|] eqn:Esj; [|discriminate].
    cbn in Hki, Hkj. inversion Hki; inversion Hkj; subst.
    assert (Hin : In (skind si) (map skind ss)).
    { apply in_map. eapply nth_error_In; eauto. }
    destruct (distinct_kinds_complete _ _ [] Hin) as [[]|Hd].
    destruct (merge_all_in _ _ _ _ _ Em Hd) as (m & Hm & _).
    eapply merge_check_len; [exact Hm| |].
    + apply (group_of_nth _ ss inps2 i si ci Esi Hci eq_refl).
    + apply (group_of_nth _ ss inps2 j sj cj Esj Hcj). congruence.
  - (* the pacemaker's iterator is untouched *)
    destruct (nth_error ss1 pm) as [s1|] eqn:E1; [|apply nth_error_None in E1; lia].
    destruct (nth_error ss2 pm) as [s2|] eqn:E2; [|apply nth_error_None in E2; lia].
    rewrite (nth_error_nth _ _ dummy_slot E2), Hnth.
    assert (H12 : siter s2 = siter s1).
    { assert (Hm : nth_error (map siter ss2) pm = nth_error (map siter ss1) pm) by (rewrite Hit2; reflexivity).
      rewrite !nth_error_map, E1, E2 in Hm. cbn in Hm. congruence. }
    rewrite H12. apply (Hit1 pm spm s1 Epm E1). reflexivity.
  - lia.
Qed.
End Run.
