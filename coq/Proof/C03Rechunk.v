(* The premise `rechunk_spec` of the C03 theorems, discharged by C07's
   rechunk_stream_correct_strong (Proof/RechunkerStrong.v). *)
From SV Require Import Model.Chunk Model.Rechunker Model.SaverLoader Spec.SaverLoaderSpec.
From SV Require Proof.RechunkerProof Proof.RechunkerStrong.

Module RP := SV.Proof.RechunkerProof.
Module RS := SV.Proof.RechunkerStrong.

Lemma last_end_last : forall rest c0 d, last_end (cend c0) rest = cend (last (c0 :: rest) d).
Proof.
  induction rest as [|c rest IH]; intros c0 d; [reflexivity|].
  cbn [last_end]. rewrite (IH c d). reflexivity.
Qed.

Lemma contiguous_chain : forall rest c0,
  contiguous (c0 :: rest) -> RP.chain (cend c0) rest (last_end (cend c0) rest).
Proof.
  induction rest as [|c rest IH]; intros c0 H; [reflexivity|].
  cbn [contiguous] in H. destruct H as [H1 H2]. cbn [RP.chain last_end]. split; [congruence|].
  apply IH. exact H2.
Qed.

Lemma chain_contiguous : forall out s e, RP.chain s out e -> contiguous out.
Proof.
  induction out as [|c out IH]; intros s e H; [exact I|].
  cbn [RP.chain] in H. destruct H as [H1 H2]. cbn [contiguous]. split; [|eapply IH; eauto].
  destruct out as [|d out]; [exact I|]. cbn [RP.chain] in H2. destruct H2 as [H2 _]. congruence.
Qed.

Lemma chain_first : forall out s e, out <> [] -> RP.chain s out e -> first_start out = Some s.
Proof. intros [|c out] s e Hne H; [congruence|]. cbn in *. destruct H as [H _]. congruence. Qed.

Lemma chain_final : forall out s e c0, RP.chain s out e -> out <> [] -> cend (last out c0) = e.
Proof.
  induction out as [|c out IH]; intros s e c0 H Hne; [congruence|].
  cbn [RP.chain] in H. destruct H as [H1 H2].
  destruct out as [|d out]; [cbn in *; congruence|].
  change (last (c :: d :: out) c0) with (last (d :: out) c0). eapply IH; [exact H2|discriminate].
Qed.

Lemma stream_ok_valid run dt cs :
  stream_ok run dt cs -> Forall (fun c => 0 < ctarget c) cs -> RP.valid_stream cs.
Proof.
  intros (Hne & Hwf & Hc & Hm) Ht. destruct cs as [|c0 rest]; [congruence|].
  unfold RP.valid_stream. split; [exact Hwf|]. split; [exact Ht|]. split.
  - inversion Hm as [|? ? [A1 A2] Hm']; subst. eapply Forall_impl; [|exact Hm']. cbn. intros a [B1 B2]. split; congruence.
  - apply contiguous_chain. exact Hc.
Qed.

Theorem rechunk_spec_holds : rechunk_spec.
Proof.
  intros run dt cs Hok Ht. pose proof Hok as (Hne & Hwf & Hc & Hm).
  destruct (RS.rechunk_stream_correct_strong cs (stream_ok_valid run dt cs Hok Ht))
    as (body & lst & Er & Owf & Orows & Och & Ometa & Ocut).
  destruct cs as [|c0 rest]; [congruence|].
  cbn [RP.stream_start RP.stream_end hd] in *.
  exists (body ++ [lst]). split; [exact Er|].
  assert (One : body ++ [lst] <> []) by (destruct body; discriminate).
  split; [exact One|]. split; [exact Owf|]. split; [eapply chain_contiguous; eauto|].
  inversion Hm as [|? ? [A1 A2] Hm']; subst.
  split; [eapply Forall_impl; [|exact Ometa]; cbn; intros a [B1 B2]; congruence|].
  split; [exact Orows|].
  split; [rewrite (chain_first _ _ _ One Och); reflexivity|].
  assert (Hend : final_end (body ++ [lst]) = final_end (c0 :: rest)).
  { unfold final_end. destruct (body ++ [lst]) as [|o outs] eqn:Eo; [congruence|]. f_equal.
    rewrite (chain_final (o :: outs) _ _ o Och) by discriminate. apply last_end_last. }
  split; [exact Hend|].
  intros x Hx. unfold cut_points in Hx.
  destruct (body ++ [lst]) as [|o outs] eqn:Eo; [congruence|].
  destruct Hx as [Hx|Hx].
  - left. left. cbn in Och. destruct Och. congruence.
  - rewrite <- Eo in Hx. rewrite map_app in Hx. apply in_app_or in Hx as [Hx|Hx].
    + right. apply in_map_iff in Hx as (o' & <- & Ho'). rewrite Forall_forall in Ocut.
      destruct (Ocut o' Ho') as [_ Hg]. exact Hg.
    + left. cbn in Hx. destruct Hx as [Hx|[]]. subst x.
      unfold cut_points. right.
      assert (E : cend lst = cend (last (c0 :: rest) c0)).
      { rewrite <- (last_end_last rest c0 c0).
        rewrite <- (chain_final (o :: outs) _ _ c0 Och One). rewrite <- Eo, last_last. reflexivity. }
      rewrite E. apply in_map.
      clear. generalize c0 at 1 3. induction rest as [|c rest IH]; intros d; [left; reflexivity|].
      change (last (d :: c :: rest) c0) with (last (c :: rest) c0). right. apply IH.
Qed.
