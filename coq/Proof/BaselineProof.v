(* C18 proofs, part 5: which baseline the baseline loop stores in each record. *)
From SV Require Import Model.Hits Model.Reduction Spec.HitsSpec Proof.HitsProof.

(* the latest record of channel ch with record_i = 0 in a list (None if there is none) *)
Fixpoint latest_first (rs : list rec) (ch : Z) (acc : option rec) : option rec :=
  match rs with
  | [] => acc
  | r :: rest => latest_first rest ch (if (r_ch r =? ch) && (r_reci r =? 0) then Some r else acc)
  end.

(* mean of the first baseline_samples samples, unit 1/16 *)
Definition mean16 (bs : Z) (f : rec) : Z :=
  let w := firstnZ (norm_idx bs (zlen (r_data f))) (r_data f) in (FR * zsum w) / zlen w.

(* what baseline() should produce: every record baselined with the mean of the latest 0th fragment
   of its channel at or before it *)
Fixpoint baseline_spec_fn (bs : Z) (flip : bool) (pre rs : list rec) : list rec :=
  match rs with
  | [] => []
  | r :: rest =>
      match latest_first (pre ++ [r]) (r_ch r) None with
      | Some f => bl_apply flip (mean16 bs f) r
      | None => r
      end :: baseline_spec_fn bs flip (pre ++ [r]) rest
  end.

Definition has_first (pre : list rec) (r : rec) : Prop := latest_first (pre ++ [r]) (r_ch r) None <> None.

Fixpoint all_have_first (pre rs : list rec) : Prop :=
  match rs with
  | [] => True
  | r :: rest => has_first pre r /\ all_have_first (pre ++ [r]) rest
  end.

Definition window_ok (bs : Z) (r : rec) : Prop :=
  0 <= r_ch r /\ (r_reci r = 0 -> zlen (firstnZ (norm_idx bs (zlen (r_data r))) (r_data r)) <> 0).

Lemma latest_first_snoc : forall pre r ch acc,
  latest_first (pre ++ [r]) ch acc =
  if (r_ch r =? ch) && (r_reci r =? 0) then Some r else latest_first pre ch acc.
Proof.
  induction pre as [|p pre IH]; intros r ch acc; cbn [app latest_first]; [reflexivity|]. apply IH.
Qed.

Section Loop.
Variables (bs fb : Z) (flip : bool).

Definition BInv (pre : list rec) (last seen : list (Z * Z)) : Prop :=
  forall ch, match latest_first pre ch None with
             | None => alookup 0 ch seen = 0
             | Some f => alookup 0 ch seen <> 0 /\ alookup 0 ch last = mean16 bs f
             end.

Lemma bl_loop_spec : forall rs pre last seen,
  Forall (window_ok bs) rs -> all_have_first pre rs -> BInv pre last seen ->
  bl_loop bs flip false fb rs last seen = Ok (baseline_spec_fn bs flip pre rs).
Proof.
  induction rs as [|d rest IH]; intros pre last seen Hw Hf HI; [reflexivity|].
  inversion Hw as [|? ? (Hch & Hwin) Hw']; subst.
  destruct Hf as (Hd & Hf').
  cbn [bl_loop baseline_spec_fn]. replace (r_ch d <? 0) with false by lia.
  unfold has_first in Hd. rewrite latest_first_snoc in *. rewrite Z.eqb_refl in *. cbn [andb] in *.
  destruct (r_reci d =? 0) eqn:Er.
  - (* first fragment: compute the baseline *)
    assert (Hz : zlen (firstnZ (norm_idx bs (zlen (r_data d))) (r_data d)) =? 0 = false).
    { apply Z.eqb_neq. apply Hwin. lia. }
    rewrite Hz. fold (mean16 bs d).
    rewrite (IH (pre ++ [d]) ((r_ch d, mean16 bs d) :: last) ((r_ch d, 1) :: seen)); auto.
    intros ch. rewrite latest_first_snoc. cbn [alookup]. rewrite Er.
    destruct (r_ch d =? ch) eqn:Ec; cbn [andb].
    + split; [lia|reflexivity].
    + apply HI.
  - (* continuing fragment: the last baseline seen in the channel *)
    pose proof (HI (r_ch d)) as Hc.
    destruct (latest_first pre (r_ch d) None) as [f|] eqn:Elf; [|congruence].
    destruct Hc as (Hs & Hl).
    replace (alookup 0 (r_ch d) seen =? 0) with false by lia.
    rewrite Hl.
    rewrite (IH (pre ++ [d]) last seen); auto.
    intros ch. rewrite latest_first_snoc. rewrite Er, andb_false_r. apply HI.
Qed.

End Loop.

(* baseline(): without sloppy chunking, when every record has its 0th fragment at or before it in
   its channel and baseline windows are non-empty, no error is raised and every record is
   baselined (data[:length] = +-(data - int(bl)), baseline = bl) with the mean of the first
   baseline_samples samples of the latest 0th fragment of its channel. *)
Theorem baseline_spec rs bs flip fb :
  Forall (window_ok bs) rs -> all_have_first [] rs ->
  baseline rs bs flip false fb = Ok (baseline_spec_fn bs flip [] rs).
Proof.
  intros Hw Hf. unfold baseline. apply bl_loop_spec; auto.
  intros ch. reflexivity.
Qed.
