(* Multi-output alignment: whatever the user computations are, every item yielded by
   OverlapWindowPlugin.iter carries chunks that share one (start, end) — including the final flush.
   Purely structural: follows from how Chunk.split builds its two parts and from the explicit
   start-consistency check after cache_beyond. *)
From SV Require Import Model.Rows Model.SplitArray Model.Chunk Model.Overlap Proof.OverlapBasic.

Definition aligned (cs : list chunk) : Prop :=
  exists s e, s <= e /\ Forall (fun c => cstart c = s /\ cend c = e) cs.

Lemma mk_chunk_fields s e rows dt k run tgt c :
  mk_chunk s e rows dt k run tgt = Ok c -> c = mkchunk s e rows dt k run tgt /\ 0 <= s /\ s <= e.
Proof.
  unfold mk_chunk. destruct (s <? 0) eqn:E1; [discriminate|]. destruct (s >? e) eqn:E2; [discriminate|].
  destruct rows as [|r0 rest].
  - intros H; inversion H; subst. repeat split; clear - E1 E2; lia.
  - destruct (rt r0 <? s); [discriminate|]. destruct (max_end _ >? e); [discriminate|].
    intros H; inversion H; subst. repeat split; clear - E1 E2; lia.
Qed.

Lemma split_array_time rs t early l r t' :
  split_array rs t early = Some (l, r, t') -> t' <= t /\ (early = false -> t' = t).
Proof.
  unfold split_array. destruct rs as [|d0 rs0]; [intros H; inversion H; subst; split; [lia|auto]|].
  destruct (rt d0 >=? t); [intros H; inversion H; subst; split; [lia|auto]|].
  destruct (sa_scan (d0 :: rs0) 0 t (-1) 0) as [[ex les] spl].
  destruct ex as [k| |].
  - destruct (negb (Nat.eqb spl k) || (les >? t)).
    + destruct early; [|discriminate]. intros H; inversion H; subst. split; [lia|discriminate].
    + intros H; inversion H; subst. split; [lia|auto].
  - cbn [negb orb]. destruct early; [|discriminate]. intros H; inversion H; subst. split; [lia|discriminate].
  - intros H; inversion H; subst. split; [lia|auto].
Qed.

Definition clampz (s e t0 : Z) : Z := Z.max (Z.min t0 e) s.

Lemma chunk_split_bounds c t0 early c1 c2 :
  cstart c <= cend c -> chunk_split c t0 early = Ok (c1, c2) ->
  cstart c1 = cstart c /\ cend c1 = cstart c2 /\ cend c2 = cend c /\
  cstart c <= cstart c2 /\ cstart c2 <= cend c /\
  (early = false -> cstart c2 = clampz (cstart c) (cend c) t0).
Proof.
  intros Hse. unfold chunk_split. fold (clampz (cstart c) (cend c) t0).
  set (t := clampz (cstart c) (cend c) t0).
  assert (Ht : cstart c <= t <= cend c) by (unfold t, clampz; lia).
  set (r := if t =? cend c then Some (crows c, [], t)
            else if t =? cstart c then Some ([], crows c, t) else split_array (crows c) t early).
  assert (Hr : forall d1 d2 t', r = Some (d1, d2, t') -> t' <= t /\ (early = false -> t' = t)).
  { unfold r. intros d1 d2 t'. destruct (t =? cend c); [intros H; inversion H; subst; split; [lia|auto]|].
    destruct (t =? cstart c); [intros H; inversion H; subst; split; [lia|auto]|]. apply split_array_time. }
  destruct r as [[[d1 d2] t']|]; [|discriminate].
  destruct (Hr d1 d2 t' eq_refl) as [Hle Heq].
  intros H. apply res_bind_ok in H as (x1 & Hm1 & H). apply res_bind_ok in H as (x2 & Hm2 & H).
  inversion H; subst x1 x2.
  apply mk_chunk_fields in Hm1 as (-> & _ & _). apply mk_chunk_fields in Hm2 as (-> & _ & _).
  cbn [cstart cend]. repeat split; try lia.
Qed.

Fixpoint map_res_spec {A B} (g : A -> res B) (l : list A) (l' : list B) : Prop :=
  match l, l' with
  | [], [] => True
  | x :: r, y :: r' => g x = Ok y /\ map_res_spec g r r'
  | _, _ => False
  end.

Lemma map_res_ok {A B} (g : A -> res B) : forall l l', map_res g l = Ok l' -> map_res_spec g l l'.
Proof.
  induction l as [|x l IH]; intros l' H; cbn [map_res] in H.
  - inversion H; subst. exact I.
  - apply res_bind_ok in H as (y & Hy & H). apply res_bind_ok in H as (ys & Hys & H).
    inversion H; subst. cbn. split; auto.
Qed.

Lemma one_unique_all {A} (g : A -> Z) l : one_unique (map g l) = true -> exists x, Forall (fun y => g y = x) l.
Proof.
  destruct l as [|a l]; cbn; [discriminate|]. intros H. exists (g a). constructor; [reflexivity|].
  rewrite forallb_forall in H. apply Forall_forall. intros y Hy. apply Z.eqb_eq. apply H. apply in_map. exact Hy.
Qed.

Lemma base_compute_aligned P inp res0 :
  base_compute P inp = Ok res0 ->
  Forall (fun c => cstart c = cstart inp /\ cend c = cend inp /\ cstart c <= cend c) res0.
Proof.
  unfold base_compute. intros H. apply map_res_ok in H. revert res0 H.
  induction (ow_outs P) as [|o os IH]; intros [|c res0] H; cbn in H; try contradiction; [constructor|].
  destruct H as [Hm H]. constructor; [|auto].
  apply mk_chunk_fields in Hm as (-> & _ & Hse). cbn. auto.
Qed.

Lemma strict_split_aligned s e sent : forall res0 res1,
  Forall (fun c => cstart c = s /\ cend c = e /\ cstart c <= cend c) res0 ->
  map_res (fun r => do '(_, r2) <- chunk_split r sent false; Ok r2) res0 = Ok res1 ->
  Forall (fun c => cstart c = clampz s e sent /\ cend c = e /\ cstart c <= cend c) res1.
Proof.
  intros res0 res1 HF H. apply map_res_ok in H. revert res1 H.
  induction HF as [|c res0 (Hs & He & Hse) HF IH]; intros [|c' res1] H; cbn in H; try contradiction; [constructor|].
  destruct H as [Hc H]. constructor; [|auto].
  apply res_bind_ok in Hc as ([c1 c2] & Hsp & Hc). inversion Hc; subst c'.
  destruct (chunk_split_bounds c sent false c1 c2 Hse Hsp) as (_ & _ & B3 & B4 & B5 & B6).
  split; [rewrite (B6 eq_refl), Hs, He; reflexivity|]. split; [rewrite B3; exact He|]. lia.
Qed.

Lemma early_split_pairs s e p : forall res1 pairs,
  Forall (fun c => cstart c = s /\ cend c = e /\ cstart c <= cend c) res1 ->
  map_res (fun r => chunk_split r p true) res1 = Ok pairs ->
  Forall (fun pr => cstart (fst pr) = s /\ cend (fst pr) = cstart (snd pr) /\ cend (snd pr) = e /\
                    s <= cstart (snd pr) /\ cstart (snd pr) <= e) pairs.
Proof.
  intros res1 pairs HF H. apply map_res_ok in H. revert pairs H.
  induction HF as [|c res1 (Hs & He & Hse) HF IH]; intros [|[c1 c2] pairs] H; cbn in H; try contradiction; [constructor|].
  destruct H as [Hsp H]. constructor; [|auto].
  destruct (chunk_split_bounds c p true c1 c2 Hse Hsp) as (B1 & B2 & B3 & B4 & B5 & _).
  cbn [fst snd]. rewrite <- Hs, <- He. repeat split; auto.
Qed.

Lemma compute_core_aligned P inp sent outs st :
  ow_compute_core P inp sent = Ok (outs, st) ->
  aligned outs /\ exists crs, ow_cres st = Some crs /\ aligned crs.
Proof.
  unfold ow_compute_core. intros H.
  apply res_bind_ok in H as ([wl wr] & _ & H).
  apply res_bind_ok in H as (res0 & H0 & H).
  apply res_bind_ok in H as (res1 & H1 & H).
  apply res_bind_ok in H as ([[o crs] s'] & H2 & H).
  apply res_bind_ok in H as ([cins p] & _ & H).
  inversion H; subst outs st. cbn [ow_cres].
  pose proof (base_compute_aligned _ _ _ H0) as A0.
  pose proof (strict_split_aligned _ _ sent _ _ A0 H1) as A1.
  set (S := clampz (cstart inp) (cend inp) sent) in *.
  destruct (multi_output P).
  - apply res_bind_ok in H2 as ([cs' prev] & _ & H2).
    apply res_bind_ok in H2 as (pairs & Hp & H2).
    destruct (one_unique (map (fun pr => cstart (snd pr)) pairs)) eqn:Eu; [|discriminate].
    cbn [negb] in H2. inversion H2; subst o crs s'.
    pose proof (early_split_pairs _ _ prev _ _ A1 Hp) as AP.
    destruct (one_unique_all _ _ Eu) as [x Hx].
    destruct pairs as [|pr0 pairs'].
    + split; [exists 0, 0; split; [lia|constructor]|]. eexists; split; [reflexivity|]. exists 0, 0. split; [lia|constructor].
    + assert (Hx0 : S <= x <= cend inp).
      { inversion AP as [|? ? (_ & _ & _ & B4 & B5) _]; subst. inversion Hx; subst. lia. }
      split.
      * exists S, x. split; [lia|]. apply Forall_map. rewrite Forall_forall in *. intros pr Hpr.
        destruct (AP pr Hpr) as (B1 & B2 & _). specialize (Hx pr Hpr). cbn beta in Hx. split; [auto|lia].
      * eexists; split; [reflexivity|]. exists x, (cend inp). split; [lia|].
        apply Forall_map. rewrite Forall_forall in *. intros pr Hpr.
        destruct (AP pr Hpr) as (_ & _ & B3 & _). specialize (Hx pr Hpr). cbn beta in Hx. auto.
  - destruct res1 as [|r [|r' res1']]; try discriminate.
    apply res_bind_ok in H2 as ([out cr] & Hsp & H2). inversion H2; subst o crs s'.
    inversion A1 as [|? ? (Hs & He & Hse) _]; subst.
    destruct (chunk_split_bounds r _ true out cr Hse Hsp) as (B1 & B2 & B3 & B4 & B5 & _).
    split.
    + exists (cstart out), (cend out). split; [lia|]. constructor; [auto|constructor].
    + eexists; split; [reflexivity|]. exists (cstart cr), (cend cr). split; [lia|]. constructor; [auto|constructor].
Qed.

Definition item_aligned (it : option (list chunk)) : Prop :=
  match it with Some chs => aligned chs | None => True end.

Lemma ow_rounds_aligned P : forall rest st buf items,
  ow_rounds P st buf rest = Ok items -> Forall item_aligned items.
Proof.
  induction rest as [|c rest IH]; intros st buf items H; cbn [ow_rounds] in H.
  - apply res_bind_ok in H as ([inp buf'] & _ & H).
    apply res_bind_ok in H as ([out st'] & Hd & H).
    destruct (_ && _); [discriminate|]. inversion H; subst.
    unfold ow_do_compute in Hd. apply res_bind_ok in Hd as (inp' & _ & Hd).
    destruct (compute_core_aligned _ _ _ _ _ Hd) as (Ao & crs & -> & Ac).
    repeat constructor; auto.
  - apply res_bind_ok in H as ([inp buf'] & _ & H).
    apply res_bind_ok in H as ([out st'] & Hd & H).
    apply res_bind_ok in H as (buf2 & _ & H).
    apply res_bind_ok in H as (outs & Hr & H).
    inversion H; subst.
    unfold ow_do_compute in Hd. apply res_bind_ok in Hd as (inp' & _ & Hd).
    destruct (compute_core_aligned _ _ _ _ _ Hd) as (Ao & _).
    constructor; [exact Ao|]. eapply IH; eauto.
Qed.

(* every yielded item, for any number of outputs and ANY user computations: all chunks of the item
   share one start and one end *)
Theorem overlap_items_aligned P cs items :
  ow_iter P cs = Ok items -> Forall item_aligned items.
Proof.
  destruct cs as [|c rest]; cbn; [discriminate|]. apply ow_rounds_aligned.
Qed.
