(* The C17 theorems about diff, _find_break_i and _fc_in restated over the programs regenerated
   from the Python source (no mention of the hand-written model in the statements). *)
From Coq Require Import String.
From SV Require Import Lang.MiniPy Gen.Diff Gen.FindBreakI Gen.FcIn.
From SV Require Import Model.Intervals Spec.IntervalDefs Proof.IntervalsBreaks Proof.IntervalsContain.
From SV Require Import Proof.RefineDiff Proof.RefineFindBreakI Proof.RefineFcIn.

Theorem diff_prog_spec fuel rs :
  run fuel diff_prog [VRows rs] = OReturn (VInts (diff_spec rs)).
Proof. rewrite diff_refines_intervals, diff_eq_spec. reflexivity. Qed.

Theorem find_break_i_prog_spec fuel rs sb nb :
  (2 <= length rs)%nat ->
  run fuel find_break_i_prog [VRows rs; VInt sb; VInt nb] =
  match find_break_spec rs sb nb with
  | Some i => OReturn (VInt (Z.of_nat i))
  | None => ORaise "NoBreakFound"
  end.
Proof.
  intros H. rewrite find_break_i_refines, find_break_i_eq_spec by exact H.
  destruct (find_break_spec rs sb nb); reflexivity.
Qed.

(* first index >= 1 whose start is at least safe_break after everything seen before; NoBreakFound
   iff there is none; the assertion never fires on arrays of at least two elements *)
Theorem find_break_i_prog_sem fuel rs sb nb :
  (2 <= length rs)%nat ->
  match run fuel find_break_i_prog [VRows rs; VInt sb; VInt nb] with
  | OReturn (VInt z) =>
      exists i, z = Z.of_nat i /\ (1 <= i < length rs)%nat /\ is_break rs sb nb i = true /\
                forall j, (1 <= j < i)%nat -> is_break rs sb nb j = false
  | ORaise exn =>
      exn = "NoBreakFound"%string /\ forall j, (1 <= j < length rs)%nat -> is_break rs sb nb j = false
  | _ => False
  end.
Proof.
  intros H. rewrite find_break_i_refines. pose proof (find_break_i_sem rs sb nb H) as S.
  destruct (find_break_i rs sb nb) as [i|c]; cbn [embed_fb].
  - exists i. tauto.
  - destruct S as [-> S]. cbn [Z.eqb Pos.eqb]. split; [reflexivity|exact S].
Qed.

(* under the documented preconditions (the boolean checks of the wrapper) the result array is the
   quadratic definition: index of the first container with c.time <= t.time < c.endtime and
   t.endtime <= c.endtime, else -1 *)
Theorem fc_in_prog_exact fuel things cs :
  fc_pre things cs -> (length cs < fuel)%nat ->
  exists e,
    run fuel fc_in_prog [VInts (map rt things); VInts (map rt cs); VInts (map re things); VInts (map re cs);
                         VInts (repeat (-1) (length things))] = ONormal e /\
    lookup e fc_result_name = Some (VInts (map (fc_spec_strict cs) things)).
Proof.
  intros Hpre Hf.
  pose proof (fully_contained_in_exact things cs Hpre) as E. unfold fully_contained_in in E.
  destruct (fc_sanity things cs) as [w|c]; cbn [res_bind] in E; [|discriminate].
  injection E as _ E. rewrite <- E. apply fc_in_result. exact Hf.
Qed.

(* the preconditions are satisfiable *)
Example fc_in_prog_exact_nonvacuous :
  fc_pre [mkrow 0 2 0 0; mkrow 4 6 1 0; mkrow 5 7 2 0] [mkrow 0 4 0 0; mkrow 5 8 1 0].
Proof. vm_compute. repeat split; reflexivity. Qed.
