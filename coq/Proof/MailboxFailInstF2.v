(* part of the all-schedule theorems for concrete networks, see Proof/MailboxFailInstances.v *)
From SV Require Import Base.Prelude Model.Mailbox Model.MailboxFail Model.C06Run Model.C06Nets
  Spec.MailboxFailSpec Proof.MailboxFailReach Proof.MailboxFailInstances.
Local Open Scope nat_scope.

(* ---------- fan-out F: the configuration of defect F2 (2 chunks, max_messages 2, the saver of y fails at chunk 0):
   with the repairs every schedule delivers the injected exception ---------- *)
Definition fanF : fan_spec := mkFan 2 2 false false 0 1 false.
Theorem fanF_saver_failure_reaches_caller :
  failure_reaches_caller (fan_net fanF true (Some (3, 0, boom)) None) (fan_init fanF true (Some (3, 0, boom)) None)
                         (fan_main fanF) 2 boom.
Proof. apply check_netM_sound with (fuel := FUEL). vm_cast_no_check (eq_refl true). Qed.

