(* C18 proofs, part 6: cut_baseline zeroes exactly the first n_before samples of a pulse and the
   samples from pulse_length - n_after on. *)
From SV Require Import Model.Hits Model.Reduction Spec.HitsSpec Proof.HitsProof Proof.HelpersProof.

Lemma cut_baseline_rec_spec spr nb na d :
  zlen (r_data d) = spr -> 0 <= nb ->
  let o := cut_baseline_rec spr nb na d in
  o = set_level (set_data d (r_data o)) BASELINE_CUT /\ zlen (r_data o) = spr /\
  forall s, 0 <= s < spr ->
    nthZ (r_data o) s =
    if ((r_reci d =? 0) && (s <? nb)) || (r_plen d - na <=? r_reci d * spr + s) then 0 else nthZ (r_data d) s.
Proof.
  intros Hn Hnb. cbn zeta. unfold cut_baseline_rec.
  set (n := zlen (r_data d)) in *.
  set (data1 := if r_reci d =? 0 then zero_range 0 (norm_idx 0 n) (norm_idx nb n) (r_data d) else r_data d).
  set (cf := Z.max 0 (r_plen d - na - r_reci d * spr)).
  set (data2 := if cf <? spr then zero_range 0 (norm_idx cf n) n data1 else data1).
  assert (Hl1 : length data1 = length (r_data d)).
  { unfold data1. destruct (r_reci d =? 0); [apply zero_range_length|reflexivity]. }
  assert (Hl2 : length data2 = length (r_data d)).
  { unfold data2. destruct (cf <? spr); [rewrite zero_range_length|]; exact Hl1. }
  split; [destruct d; reflexivity|].
  split; [destruct d; cbn; unfold zlen in *; fold data1; fold data2; rewrite Hl2; exact Hn|].
  intros s Hs.
  replace (r_data (set_level (set_data d data2) BASELINE_CUT)) with data2 by (destruct d; reflexivity).
  rewrite !nthZ_nat by lia.
  assert (Hk : (Z.to_nat s < length (r_data d))%nat) by (unfold n, zlen in Hn; lia).
  assert (H1 : nth (Z.to_nat s) data1 0 = if (r_reci d =? 0) && (s <? nb) then 0 else nth (Z.to_nat s) (r_data d) 0).
  { unfold data1. destruct (r_reci d =? 0); [|reflexivity]. rewrite zero_range_nth by exact Hk.
    rewrite Z2Nat.id by lia. unfold norm_idx. replace (0 <? 0) with false by lia. replace (nb <? 0) with false by lia.
    cbn [andb]. replace (Z.min 0 n <=? 0 + s) with true by lia. cbn [andb].
    replace (0 + s <? Z.min nb n) with (s <? nb) by lia. reflexivity. }
  unfold data2. destruct (cf <? spr) eqn:Ecf.
  - rewrite zero_range_nth by (rewrite Hl1; exact Hk). rewrite Z2Nat.id by lia. rewrite H1.
    unfold norm_idx. replace (cf <? 0) with false by (unfold cf; lia).
    replace (0 + s <? n) with true by lia. rewrite andb_true_r.
    replace (Z.min cf n <=? 0 + s) with (r_plen d - na <=? r_reci d * spr + s) by (unfold cf; lia).
    destruct (r_plen d - na <=? r_reci d * spr + s); [rewrite orb_true_r; reflexivity|rewrite orb_false_r; reflexivity].
  - rewrite H1. replace (r_plen d - na <=? r_reci d * spr + s) with false by (unfold cf in Ecf; lia).
    rewrite orb_false_r. reflexivity.
Qed.
