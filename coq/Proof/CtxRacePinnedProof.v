(* Proofs about Model/CtxRace.v.
   1. ctx_race_free_partial: if every worker's own (sequential) execution from the initial shared state
      executes no writing statement and terminates without crash (a decidable check, `ro_check`), then
      EVERY interleaving ends in the same system state as the sequential execution: nobody crashes, the
      shared maps are untouched and every worker obtains exactly what it obtains alone.
   2. concrete refutations of the unrestricted statement are in CtxRaceWitness.v. *)
From SV Require Import Base.Prelude Model.CtxRacePinned.

Section RO.
Variable c : cfgm.
Variable sh0 : shared.

Definition step1 (th : thread) : thread := snd (step_thread c sh0 th).

Fixpoint solo (th : thread) (n : nat) : thread :=
  match n with O => th | S m => solo (step1 th) m end.

Definition top_is_write (th : thread) : bool :=
  match th_status th, th_stack th with
  | Running, h :: _ => is_write h
  | _, _ => false
  end.

(* n steps of the thread alone: never about to write, never crashed, finished at the end *)
Fixpoint ro_check (th : thread) (n : nat) : bool :=
  if th_done th then true
  else match n with
       | O => false
       | S m => negb (th_crashed th) && negb (top_is_write th) && ro_check (step1 th) m
       end.

Ltac destruct_inner :=
  match goal with
  | |- context [match ?x with _ => _ end] =>
      lazymatch x with
      | context [match _ with _ => _ end] => fail
      | _ => destruct x
      end
  end.

Lemma exec_hit_nowrite h : is_write h = false ->
  match exec_hit c sh0 h with HOk sh' _ _ => sh' = sh0 | HCrash _ => True end.
Proof.
  destruct h; cbn [is_write]; intros Hw; try discriminate; cbv beta iota zeta delta [exec_hit];
    repeat destruct_inner; try exact I; try reflexivity.
Qed.

Lemma step_nowrite th : top_is_write th = false -> fst (step_thread c sh0 th) = sh0.
Proof.
  unfold top_is_write, step_thread. destruct (th_status th); try reflexivity.
  destruct (th_stack th) as [|h rest]; [reflexivity|]. intros Hw.
  pose proof (exec_hit_nowrite h Hw) as H. destruct (exec_hit c sh0 h); cbn [fst]; [exact H|reflexivity].
Qed.

Lemma step_done th : th_done th = true -> step_thread c sh0 th = (sh0, th).
Proof. unfold th_done, step_thread. destruct (th_status th); try discriminate. reflexivity. Qed.

Lemma step1_done th : th_done th = true -> step1 th = th.
Proof. intros H. unfold step1. rewrite step_done; auto. Qed.

Lemma solo_done th n : th_done th = true -> solo th n = th.
Proof. induction n as [|n IH]; intros H; cbn [solo]; [reflexivity|]. rewrite step1_done; auto. Qed.

Lemma solo_S th n : solo th (S n) = step1 (solo th n).
Proof. revert th; induction n as [|n IH]; intros th; [reflexivity|]. cbn [solo] in *. rewrite IH. reflexivity. Qed.

Lemma ro_mono th n : ro_check th n = true -> ro_check th (S n) = true.
Proof.
  revert th; induction n as [|n IH]; intros th; cbn [ro_check].
  - destruct (th_done th); [reflexivity|discriminate].
  - destruct (th_done th); [reflexivity|]. intros H.
    apply andb_true_iff in H as [H1 H2]. rewrite H1. cbn [andb]. apply IH, H2.
Qed.

Lemma ro_step th n : ro_check th n = true -> ro_check (step1 th) n = true.
Proof.
  destruct n as [|n]; cbn [ro_check].
  - destruct (th_done th) eqn:E; [|discriminate]. intros _. rewrite step1_done, E by exact E. reflexivity.
  - destruct (th_done th) eqn:E.
    + intros _. rewrite step1_done by exact E. cbn [ro_check]. rewrite E. reflexivity.
    + intros H. apply andb_true_iff in H as [_ H]. apply ro_mono, H.
Qed.

Lemma ro_sh th n : ro_check th n = true -> fst (step_thread c sh0 th) = sh0.
Proof.
  destruct n as [|n]; cbn [ro_check]; destruct (th_done th) eqn:E; try discriminate;
    try (intros _; rewrite step_done by exact E; reflexivity).
  intros H. apply andb_true_iff in H as [H _]. apply andb_true_iff in H as [_ H].
  apply step_nowrite. destruct (top_is_write th); [discriminate|reflexivity].
Qed.

Lemma ro_not_crashed th n : ro_check th n = true -> th_crashed th = false.
Proof.
  destruct n as [|n]; cbn [ro_check]; destruct (th_done th) eqn:E; try discriminate.
  - intros _. unfold th_done, th_crashed in *. destruct (th_status th); try discriminate; reflexivity.
  - intros _. unfold th_done, th_crashed in *. destruct (th_status th); try discriminate; reflexivity.
  - intros H. apply andb_true_iff in H as [H _]. apply andb_true_iff in H as [H _].
    destruct (th_crashed th); [discriminate|reflexivity].
Qed.

Lemma ro_solo_done th n : ro_check th n = true -> th_done (solo th n) = true.
Proof.
  revert th; induction n as [|n IH]; intros th; cbn [ro_check solo].
  - destruct (th_done th); [reflexivity|discriminate].
  - destruct (th_done th) eqn:E.
    + intros _. rewrite step1_done by exact E. rewrite solo_done; auto.
    + intros H. apply andb_true_iff in H as [_ H]. apply IH, H.
Qed.

(* "same destiny": thread th is on the solo trajectory that ends in fin *)
Definition J (n : nat) (th fin : thread) : Prop := ro_check th n = true /\ solo th n = fin.

Lemma J_step n th fin : J n th fin -> J n (step1 th) fin.
Proof.
  intros [Hr Hs]. split; [apply ro_step, Hr|].
  rewrite <- Hs. change (solo (step1 th) n) with (solo th (S n)). rewrite solo_S.
  apply step1_done, ro_solo_done, Hr.
Qed.

(* ---- the system ---- *)
Lemma set_nth_Forall2 {A B} (R : A -> B -> Prop) : forall (l : list A) (l' : list B) i x y,
  Forall2 R l l' -> nth_error l' i = Some y -> R x y -> Forall2 R (set_nth i x l) l'.
Proof.
  induction l as [|a l IH]; intros l' i x y HF Hn HR; inversion HF; subst; cbn [set_nth].
  - destruct i; discriminate.
  - destruct i as [|i]; cbn [nth_error] in Hn.
    + injection Hn as <-. constructor; auto.
    + constructor; auto. eapply IH; eauto.
Qed.

Lemma Forall2_nth_error {A B} (R : A -> B -> Prop) : forall (l : list A) (l' : list B) i x,
  Forall2 R l l' -> nth_error l i = Some x -> exists y, nth_error l' i = Some y /\ R x y.
Proof.
  induction l as [|a l IH]; intros l' i x HF Hn; inversion HF; subst; destruct i; cbn [nth_error] in *;
    try discriminate.
  - injection Hn as <-. eauto.
  - eapply IH; eauto.
Qed.

Definition SInv (n : nat) (fins : list thread) (s : sys) : Prop :=
  s_sh s = sh0 /\ Forall2 (J n) (s_ths s) fins.

Lemma sys_step_inv n fins s tid : SInv n fins s -> SInv n fins (sys_step c s tid).
Proof.
  intros [Hsh HF]. unfold sys_step. destruct (nth_error (s_ths s) tid) as [th|] eqn:E; [|split; auto].
  destruct (Forall2_nth_error _ _ _ _ _ HF E) as (fin & Hfin & HJ).
  rewrite Hsh. pose proof (ro_sh th n (proj1 HJ)) as Hs.
  destruct (step_thread c sh0 th) as [sh' th'] eqn:Est. cbn [fst] in Hs. subst sh'.
  split; [reflexivity|]. cbn [s_ths]. eapply set_nth_Forall2; eauto.
  replace th' with (step1 th) by (unfold step1; rewrite Est; reflexivity). apply J_step, HJ.
Qed.

Lemma run_sched_inv n fins sched : forall s, SInv n fins s -> SInv n fins (run_sched c s sched).
Proof. induction sched as [|t r IH]; intros s H; cbn [run_sched]; auto. apply IH, sys_step_inv, H. Qed.

Lemma run_alone_inv n fins k tid : forall s, SInv n fins s -> SInv n fins (run_alone c k s tid).
Proof. induction k as [|k IH]; intros s H; cbn [run_alone]; auto. apply IH, sys_step_inv, H. Qed.

(* running thread tid alone for n steps brings it to its destiny *)
Lemma run_alone_thread n fins : forall k s tid th fin,
  SInv n fins s -> nth_error (s_ths s) tid = Some th -> nth_error fins tid = Some fin ->
  nth_error (s_ths (run_alone c k s tid)) tid = Some (solo th k).
Proof.
  induction k as [|k IH]; intros s tid th fin HI Hn Hf; cbn [run_alone solo]; [exact Hn|].
  assert (HI' := sys_step_inv n fins s tid HI).
  eapply IH; eauto.
  destruct HI as [Hsh HF]. unfold sys_step. rewrite Hn, Hsh.
  destruct (step_thread c sh0 th) as [sh' th'] eqn:Est. cbn [s_ths].
  replace (step1 th) with th' by (unfold step1; rewrite Est; reflexivity).
  clear - Hn. revert tid Hn. generalize (s_ths s). induction l as [|a l IHl]; intros [|tid] Hn;
    cbn [nth_error set_nth] in *; try discriminate; auto.
Qed.

Lemma set_nth_other {A} : forall (l : list A) i j x, i <> j -> nth_error (set_nth i x l) j = nth_error l j.
Proof.
  induction l as [|a l IH]; intros [|i] [|j] x Hij; cbn [set_nth nth_error]; auto; try congruence.
Qed.

Lemma sys_step_other s tid j : tid <> j -> nth_error (s_ths (sys_step c s tid)) j = nth_error (s_ths s) j.
Proof.
  intros H. unfold sys_step. destruct (nth_error (s_ths s) tid); [|reflexivity].
  destruct (step_thread c (s_sh s) t). cbn [s_ths]. apply set_nth_other, H.
Qed.

Lemma run_alone_other k : forall s tid j, tid <> j ->
  nth_error (s_ths (run_alone c k s tid)) j = nth_error (s_ths s) j.
Proof.
  induction k as [|k IH]; intros s tid j H; cbn [run_alone]; [reflexivity|].
  rewrite IH by exact H. apply sys_step_other, H.
Qed.

Lemma sys_step_length s tid : length (s_ths (sys_step c s tid)) = length (s_ths s).
Proof.
  unfold sys_step. destruct (nth_error (s_ths s) tid); [|reflexivity].
  destruct (step_thread c (s_sh s) t). cbn [s_ths].
  generalize (s_ths s) tid. induction l as [|a l IH]; intros [|i]; cbn [set_nth length]; auto.
Qed.

(* after draining thread ids t0, t0+1, ..., every drained thread has reached its destiny *)
Definition finished_upto (fins : list thread) (s : sys) (m : nat) : Prop :=
  forall j fin, (j < m)%nat -> nth_error fins j = Some fin -> nth_error (s_ths s) j = Some fin.

Lemma drain_inv n fins : forall tids s, SInv n fins s -> SInv n fins (drain c n s tids).
Proof. induction tids as [|t r IH]; intros s H; cbn [drain]; auto. apply IH, run_alone_inv, H. Qed.

Lemma drain_finishes n fins : forall k m s,
  SInv n fins s -> finished_upto fins s m ->
  finished_upto fins (drain c n s (seq m k)) (m + k).
Proof.
  induction k as [|k IH]; intros m s HI HF; cbn [seq drain].
  - rewrite Nat.add_0_r. exact HF.
  - replace (m + S k)%nat with (S m + k)%nat by lia. apply IH; [apply run_alone_inv, HI|].
    intros j fin Hj Hfin. destruct (Nat.eq_dec j m) as [->|Hne].
    + destruct HI as [Hsh HF2].
      assert (exists th, nth_error (s_ths s) m = Some th /\ J n th fin) as (th & Hth & HJ).
      { clear - HF2 Hfin. revert m Hfin. induction HF2 as [|a b l l' Hab _ IH2]; intros [|m] Hfin;
          cbn [nth_error] in *; try discriminate; eauto. injection Hfin as <-. eauto. }
      rewrite (run_alone_thread n fins n s m th fin (conj Hsh HF2) Hth Hfin). f_equal. apply HJ.
    + rewrite run_alone_other by auto. apply HF; [lia|exact Hfin].
Qed.
End RO.

Lemma nth_error_ext {A} : forall (l l' : list A), (forall j, nth_error l j = nth_error l' j) -> l = l'.
Proof.
  induction l as [|a l IH]; intros [|b l'] H; auto.
  - specialize (H O). discriminate.
  - specialize (H O). discriminate.
  - pose proof (H O) as H0. cbn in H0. injection H0 as ->. f_equal. apply IH. intros j. apply (H (S j)).
Qed.

Lemma Forall2_len {A B} (R : A -> B -> Prop) l l' : Forall2 R l l' -> length l = length l'.
Proof. induction 1; cbn [length]; auto. Qed.

Theorem ctx_race_free_partial :
  forall (c : cfgm) (sh : shared) (progs : list (list task)) (n : nat),
  forallb (fun p => ro_check c sh (init_thread c sh p) n) progs = true ->
  forall sched : list nat,
    let fin := run_all c sh progs sched n in
    (* the shared maps are untouched, *)
    s_sh fin = sh /\
    (* every worker ends exactly where its own sequential execution ends (same labels executed, same
       plugins obtained), whatever the interleaving, *)
    s_ths fin = map (fun p => solo c sh (init_thread c sh p) n) progs /\
    (* and that end is normal termination: nobody crashed *)
    forallb th_done (s_ths fin) = true.
Proof.
  intros c sh progs n Hro sched fin.
  set (ths0 := map (init_thread c sh) progs).
  set (fins := map (fun th => solo c sh th n) ths0).
  assert (H0 : SInv c sh n fins (init_sys c sh progs)).
  { split; [reflexivity|]. cbn [s_ths init_sys]. fold ths0. subst fins.
    assert (Hall : Forall (fun th => ro_check c sh th n = true) ths0).
    { subst ths0. rewrite forallb_forall in Hro. apply Forall_forall. intros th Hin.
      apply in_map_iff in Hin as (p & <- & Hp). apply Hro, Hp. }
    clear - Hall. induction ths0 as [|th l IH]; cbn [map]; constructor.
    - inversion Hall; subst. split; auto.
    - apply IH. inversion Hall; auto. }
  assert (H1 := run_sched_inv c sh n fins sched _ H0).
  assert (H2 := drain_inv c sh n fins (seq 0 (length progs)) _ H1).
  assert (H3 := drain_finishes c sh n fins (length progs) 0 _ H1 (fun j fin Hj _ => match Nat.nlt_0_r j Hj with end)).
  fold (run_all c sh progs sched n) in H2, H3. fold fin in H2, H3.
  destruct H2 as [Hsh HF].
  assert (Hths : s_ths fin = fins).
  { assert (Hlen : length (s_ths fin) = length fins) by (eapply Forall2_len; eauto).
    assert (Hlf : length fins = length progs) by (subst fins ths0; rewrite !map_length; reflexivity).
    apply nth_error_ext.
    intros j. destruct (nth_error fins j) as [f|] eqn:E.
    - apply H3; [|exact E]. cbn. assert (nth_error fins j <> None) by congruence.
      apply nth_error_Some in H. lia.
    - apply nth_error_None in E. apply nth_error_None. lia. }
  split; [exact Hsh|]. split.
  - rewrite Hths. subst fins ths0. rewrite map_map. reflexivity.
  - rewrite Hths. subst fins. apply forallb_forall. intros th Hin.
    apply in_map_iff in Hin as (th0 & <- & Hin0). apply ro_solo_done.
    subst ths0. apply in_map_iff in Hin0 as (p & <- & Hp). rewrite forallb_forall in Hro. apply Hro, Hp.
Qed.
