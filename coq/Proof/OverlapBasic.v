(* Structural facts about the overlap-window model that need no hypothesis on the user computation:
   the final flush never yields None (DESIGN section 7, T6) and a run without input chunks fails
   loudly before it. *)
From SV Require Import Model.Rows Model.Chunk Model.Overlap.

Lemma res_bind_ok {A B} (r : res A) (k : A -> res B) b :
  res_bind r k = Ok b -> exists a, r = Ok a /\ k a = Ok b.
Proof. destruct r as [a|e]; cbn; [eauto|discriminate]. Qed.

Lemma ow_compute_core_cres P inp s outs st :
  ow_compute_core P inp s = Ok (outs, st) -> exists crs, ow_cres st = Some crs.
Proof.
  unfold ow_compute_core. intros H.
  apply res_bind_ok in H as ([wl wr] & _ & H).
  apply res_bind_ok in H as (res0 & _ & H).
  apply res_bind_ok in H as (res1 & _ & H).
  apply res_bind_ok in H as ([[o crs] s'] & _ & H).
  apply res_bind_ok in H as ([cins p] & _ & H).
  inversion H; subst. cbn. eauto.
Qed.

Lemma ow_do_compute_cres P st c outs st' :
  ow_do_compute P st c = Ok (outs, st') -> exists crs, ow_cres st' = Some crs.
Proof.
  unfold ow_do_compute. intros H. apply res_bind_ok in H as (inp & _ & H).
  eapply ow_compute_core_cres; eauto.
Qed.

Lemma ow_rounds_no_none P : forall rest st buf items,
  ow_rounds P st buf rest = Ok items -> Forall (fun it => it <> None) items.
Proof.
  induction rest as [|c rest IH]; intros st buf items H; cbn [ow_rounds] in H.
  - apply res_bind_ok in H as ([inp buf'] & _ & H).
    apply res_bind_ok in H as ([out st'] & Hd & H).
    destruct (_ && _); [discriminate|]. inversion H; subst.
    destruct (ow_do_compute_cres _ _ _ _ _ Hd) as [crs ->].
    repeat constructor; discriminate.
  - apply res_bind_ok in H as ([inp buf'] & _ & H).
    apply res_bind_ok in H as ([out st'] & Hd & H).
    apply res_bind_ok in H as (buf2 & _ & H).
    apply res_bind_ok in H as (outs & Hr & H).
    inversion H; subst. constructor; [discriminate|]. eapply IH; eauto.
Qed.

(* T6: whenever iter completes, every yielded item (including the final `yield self.cached_results`)
   is a chunk / dict of chunks, never None ... *)
Theorem ow_iter_never_yields_none P cs items :
  ow_iter P cs = Ok items -> cs <> [] /\ Forall (fun it => it <> None) items.
Proof.
  destruct cs as [|c rest]; cbn; [discriminate|]. intros H. split; [discriminate|].
  eapply ow_rounds_no_none; eauto.
Qed.

(* ... and a run with zero input chunks raises before the flush is reached. *)
Theorem ow_iter_empty_stream_fails P : ow_iter P [] = Err E_EMPTY_BUFFER.
Proof. reflexivity. Qed.
