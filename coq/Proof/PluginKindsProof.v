(* C12 — lemmas about the model of the plugin output path (Model/PluginKinds.v). *)
From SV Require Import Model.Rows Model.Chunk Model.PluginKinds Proof.RowsFacts.

Definition is_err {A} (r : res A) : Prop := match r with Err _ => True | Ok _ => False end.
Definition is_errb {A} (r : res A) : bool := match r with Err _ => true | Ok _ => false end.

Lemma is_errb_iff {A} (r : res A) : is_errb r = true <-> is_err r.
Proof. destruct r; cbn; split; auto; discriminate. Qed.

(* ------------------------------------------------------------------------------------------ *)
(* dtypes                                                                                      *)
(* ------------------------------------------------------------------------------------------ *)
Lemma adt_eqb_eq a b : adt_eqb a b = true <-> a = b.
Proof.
  revert b; induction a as [|[f t] a IH]; intros [|[g u] b]; cbn [adt_eqb]; try (split; [discriminate|discriminate]).
  - split; auto.
  - rewrite !andb_true_iff, !Z.eqb_eq, IH. split.
    + intros [[-> ->] ->]; reflexivity.
    + intros H; inversion H; subst; auto.
Qed.

Lemma adt_eqb_refl a : adt_eqb a a = true.
Proof. apply adt_eqb_eq; reflexivity. Qed.

Lemma adt_eqb_neq a b : adt_eqb a b = false <-> a <> b.
Proof.
  split.
  - intros H E. apply adt_eqb_eq in E. congruence.
  - intros H. destruct (adt_eqb a b) eqn:E; [apply adt_eqb_eq in E; contradiction|reflexivity].
Qed.

(* ------------------------------------------------------------------------------------------ *)
(* Chunk.__init__ : range checks                                                               *)
(* ------------------------------------------------------------------------------------------ *)
Lemma zmaxl_le_iff d l x : zmaxl d l <= x <-> d <= x /\ Forall (fun y => y <= x) l.
Proof.
  revert d; induction l as [|y l IH]; intros d; cbn [zmaxl].
  - split; [intros; split; auto|tauto].
  - rewrite IH. split.
    + intros [H1 H2]. split; [lia|constructor; [lia|auto]].
    + intros [H1 H2]. inversion H2; subst. split; [lia|auto].
Qed.

Lemma max_end_le_iff rs x : rs <> [] -> (max_end rs <= x <-> Forall (fun r => re r <= x) rs).
Proof.
  destruct rs as [|r rs]; [congruence|intros _]. cbn [max_end]. rewrite zmaxl_le_iff, Forall_map.
  split; [intros [H1 H2]; constructor; auto | intros H; inversion H; auto].
Qed.

Lemma lastn_all {A} n (l : list A) : (length l <= n)%nat -> lastn n l = l.
Proof. intros H. unfold lastn. replace (length l - n)%nat with 0%nat by lia. reflexivity. Qed.

Lemma lastn_suffix {A} n (l : list A) : exists pre, l = pre ++ lastn n l.
Proof. exists (firstn (length l - n) l). unfold lastn. symmetry; apply firstn_skipn. Qed.

Lemma lastn_nonempty {A} n (l : list A) : l <> [] -> (0 < n)%nat -> lastn n l <> [].
Proof.
  intros Hl Hn E. unfold lastn in E.
  assert (H : length (skipn (length l - n) l) = 0%nat) by (rewrite E; reflexivity).
  rewrite skipn_length in H. destruct l; [congruence|cbn [length] in H; lia].
Qed.

Lemma end_window_pos : (0 < end_window)%nat.
Proof. unfold end_window. vm_compute. lia. Qed.

(* what the constructor's range checks decide, for chunks of any length *)
Lemma mk_chunk_err_iff s e rows dt kind run tgt :
  is_err (mk_chunk s e rows dt kind run tgt) <->
  s < 0 \/ s > e \/
  (exists r0 rest, rows = r0 :: rest /\ rt r0 < s) \/
  Exists (fun r => re r > e) (lastn end_window rows).
Proof.
  unfold mk_chunk.
  destruct (s <? 0) eqn:E1; [cbn; split; [intros _; left; lia|auto]|].
  destruct (s >? e) eqn:E2; [cbn; split; [intros _; right; left; lia|auto]|].
  destruct rows as [|r0 rest].
  - cbn. split; [tauto|]. intros [H|[H|[(r & l & H & _)|H]]]; try lia; [discriminate|].
    unfold lastn in H. change (length (@nil row) - end_window)%nat with 0%nat in H. cbn [skipn] in H. inversion H.
  - destruct (rt r0 <? s) eqn:E3.
    + cbn. split; [intros _; right; right; left; exists r0, rest; split; [reflexivity|lia]|auto].
    + pose proof (lastn_nonempty end_window (r0 :: rest) ltac:(discriminate) end_window_pos) as Hne.
      destruct (max_end (lastn end_window (r0 :: rest)) >? e) eqn:E4; cbn.
      * split; [intros _|auto]. right; right; right.
        apply Exists_exists.
        destruct (Exists_dec (fun r => re r > e) (lastn end_window (r0 :: rest))
                    (fun r => Z_gt_dec (re r) e)) as [Hx|Hx]; [apply Exists_exists in Hx; exact Hx|].
        exfalso. assert (Forall (fun r => re r <= e) (lastn end_window (r0 :: rest))).
        { apply Forall_forall. intros r Hr. destruct (Z_gt_dec (re r) e); [|lia].
          exfalso. apply Hx. apply Exists_exists. exists r; auto. }
        apply max_end_le_iff in H; [lia|exact Hne].
      * split; [tauto|]. intros [H|[H|[(r & l & H & Hr)|H]]]; try lia.
        -- inversion H; subst. lia.
        -- assert (Hle : max_end (lastn end_window (r0 :: rest)) <= e) by lia.
           apply max_end_le_iff in Hle; [|exact Hne].
           apply Exists_exists in H as (r & Hr1 & Hr2). rewrite Forall_forall in Hle. specialize (Hle r Hr1). lia.
Qed.

(* C12 ctor_rejects_outside: for chunks of at most W time-sorted rows the constructor's range
   checks fail exactly when the range is invalid or some row sticks out of it *)
Theorem ctor_rejects_outside s e rows dt kind run tgt :
  sorted rows -> (length rows <= end_window)%nat ->
  (is_err (mk_chunk s e rows dt kind run tgt) <->
   s < 0 \/ s > e \/ Exists (fun r => rt r < s \/ re r > e) rows).
Proof.
  intros Hs Hl. rewrite mk_chunk_err_iff, (lastn_all _ _ Hl). split.
  - intros [H|[H|[H|H]]]; [left; exact H|right; left; exact H| |]; right; right.
    + destruct H as (r0 & rest & -> & Hr). apply Exists_cons_hd. left; exact Hr.
    + eapply Exists_impl; [|exact H]. cbn; intros; auto.
  - intros [H|[H|H]]; auto. right; right.
    apply Exists_exists in H as (r & Hin & [Hr|Hr]).
    + left. destruct rows as [|r0 rest]; [destruct Hin|]. exists r0, rest; split; [reflexivity|].
      destruct Hin as [->|Hin]; [auto|]. destruct Hs as [Hs _]. rewrite Forall_forall in Hs. specialize (Hs r Hin). lia.
    + right. apply Exists_exists. exists r; auto.
Qed.

(* boolean form, convenient for the correspondence and for Examples *)
Definition outside_b (s e : Z) (rows : list row) : bool :=
  (s <? 0) || (s >? e) || existsb (fun r => (rt r <? s) || (re r >? e)) rows.

Lemma outside_b_iff s e rows :
  outside_b s e rows = true <-> s < 0 \/ s > e \/ Exists (fun r => rt r < s \/ re r > e) rows.
Proof.
  unfold outside_b. rewrite !orb_true_iff, existsb_exists, Exists_exists, Z.ltb_lt, Z.gtb_lt.
  split.
  - intros [[H|H]|(r & H1 & H2)]; [left; lia|right; left; lia|right; right].
    exists r; split; auto. apply orb_true_iff in H2. rewrite Z.ltb_lt, Z.gtb_lt in H2. lia.
  - intros [H|[H|(r & H1 & H2)]]; [left; left; lia|left; right; lia|right].
    exists r; split; auto. apply orb_true_iff. rewrite Z.ltb_lt, Z.gtb_lt. lia.
Qed.

(* the hypotheses are satisfiable, with both verdicts *)
Definition ex_rows_late : list row := [mkrow 3 5 0 0; mkrow 4 11 1 0].
Definition ex_rows_in : list row := [mkrow 3 5 0 0; mkrow 4 10 1 0].

Example ctor_example_reject :
  sorted ex_rows_late /\ (length ex_rows_late <= end_window)%nat /\
  is_err (mk_chunk 2 10 ex_rows_late 1 1 (Some 0) 1).
Proof.
  split; [apply sortedb_sound; reflexivity|].
  split; [apply Nat.leb_le; vm_compute; reflexivity|vm_compute; exact I].
Qed.

Example ctor_example_accept :
  sorted ex_rows_in /\ (length ex_rows_in <= end_window)%nat /\
  ~ is_err (mk_chunk 2 10 ex_rows_in 1 1 (Some 0) 1).
Proof.
  split; [apply sortedb_sound; reflexivity|].
  split; [apply Nat.leb_le; vm_compute; reflexivity|vm_compute; tauto].
Qed.

(* Beyond W rows the statement is false: a late row hidden before the inspected window is
   accepted.  This is the documented limit of the constructor's sanity check. *)
Definition hidden_late_rows : list row := mkrow 0 11 0 0 :: repeat (mkrow 0 1 1 0) end_window.

Lemma ctor_beyond_window_refuted :
  exists rows, sorted rows /\ length rows = S end_window /\
               Exists (fun r => re r > 10) rows /\
               ~ is_err (mk_chunk 0 10 rows 1 1 (Some 0) 1).
Proof.
  exists hidden_late_rows. split; [|split; [|split]].
  - apply sortedb_sound. vm_compute. reflexivity.
  - unfold hidden_late_rows. cbn [length]. rewrite repeat_length. reflexivity.
  - constructor. cbn. lia.
  - vm_compute. tauto.
Qed.

(* the property's own bound (500 rows) is within the window the code inspects *)
Lemma window_covers_property_bound : 500 <= CHUNK_END_WINDOW.
Proof. vm_compute. discriminate. Qed.

(* ------------------------------------------------------------------------------------------ *)
(* Chunk.__init__ : dtype comparison                                                           *)
(* ------------------------------------------------------------------------------------------ *)
Lemma mk_xchunk_err_iff declared dt s e rows label kind run tgt :
  is_err (mk_xchunk declared dt s e rows label kind run tgt) <->
  declared <> dt \/ is_err (mk_chunk s e rows label kind run tgt).
Proof.
  unfold mk_xchunk. destruct (adt_eqb declared dt) eqn:E; cbn [negb].
  - apply adt_eqb_eq in E. destruct (mk_chunk s e rows label kind run tgt); cbn; tauto.
  - apply adt_eqb_neq in E. cbn. tauto.
Qed.

Lemma mk_xchunk_wrong_dtype declared dt s e rows label kind run tgt :
  declared <> dt -> mk_xchunk declared dt s e rows label kind run tgt = Err E_CTOR_DTYPE.
Proof. intros H. unfold mk_xchunk. apply adt_eqb_neq in H. rewrite H. reflexivity. Qed.

Lemma mk_xchunk_ok declared dt s e rows label kind run tgt x :
  mk_xchunk declared dt s e rows label kind run tgt = Ok x ->
  declared = dt /\ xdt x = declared /\ mk_chunk s e rows label kind run tgt = Ok (xc x).
Proof.
  unfold mk_xchunk. destruct (adt_eqb declared dt) eqn:E; cbn [negb]; [|discriminate].
  apply adt_eqb_eq in E. destruct (mk_chunk s e rows label kind run tgt); cbn; [|discriminate].
  intros H; inversion H; subst; cbn; auto.
Qed.

Lemma mk_chunk_ok_fields s e rows label kind run tgt c :
  mk_chunk s e rows label kind run tgt = Ok c ->
  c = mkchunk s e rows label kind run tgt.
Proof.
  unfold mk_chunk. destruct (s <? 0); [discriminate|]. destruct (s >? e); [discriminate|].
  destruct rows as [|r0 rest]; [intros H; inversion H; reflexivity|].
  destruct (rt r0 <? s); [discriminate|].
  destruct (max_end (lastn end_window (r0 :: rest)) >? e); [discriminate|].
  intros H; inversion H; reflexivity.
Qed.

(* the full constructor on chunks within the window: rejected iff wrong dtype, bad range, or a
   row outside *)
Theorem ctor_full_spec declared dt s e rows label kind run tgt :
  sorted rows -> (length rows <= end_window)%nat ->
  (is_err (mk_xchunk declared dt s e rows label kind run tgt) <->
   declared <> dt \/ s < 0 \/ s > e \/ Exists (fun r => rt r < s \/ re r > e) rows).
Proof. intros Hs Hl. rewrite mk_xchunk_err_iff, (ctor_rejects_outside s e rows label kind run tgt Hs Hl). tauto. Qed.

(* what the repair of D2 changed: the old constructor accepted any data dtype *)
Lemma d2_accepted_any_dtype declared dt s e rows label kind run tgt :
  is_err (mk_xchunk_d2 declared dt s e rows label kind run tgt) <-> is_err (mk_chunk s e rows label kind run tgt).
Proof. unfold mk_xchunk_d2. destruct (mk_chunk s e rows label kind run tgt); cbn; tauto. Qed.

(* ------------------------------------------------------------------------------------------ *)
(* continuity_check                                                                            *)
(* ------------------------------------------------------------------------------------------ *)
Fixpoint contiguous_from (e : Z) (cs : list chunk) : Prop :=
  match cs with [] => True | c :: rest => cstart c = e /\ contiguous_from (cend c) rest end.
Definition contiguous (cs : list chunk) : Prop :=
  match cs with [] => True | c :: rest => contiguous_from (cend c) rest end.

Lemma continuity_from_spec r : forall cs e i,
  Forall (fun c => crun c = Some r) cs ->
  (continuity_from (Some e) (Some r) i cs = None <-> contiguous_from e cs).
Proof.
  induction cs as [|c cs IH]; intros e i HF; cbn [continuity_from contiguous_from]; [tauto|].
  inversion HF as [|? ? Hc HF']; subst. rewrite Hc. cbn [opt_eqb]. rewrite Z.eqb_refl.
  destruct (cstart c =? e) eqn:E; cbn [negb].
  - apply Z.eqb_eq in E. rewrite (IH (cend c) (S i) HF'). tauto.
  - apply Z.eqb_neq in E. split; [discriminate|tauto].
Qed.

(* C12 continuity_rejects_gap_overlap: for an ordinary run the check passes iff every chunk
   starts where the previous one ended *)
Theorem continuity_rejects_gap_overlap r cs :
  Forall (fun c => crun c = Some r) cs ->
  (continuity_check cs = None <-> contiguous cs).
Proof.
  intros HF. unfold continuity_check, contiguous. destruct cs as [|c cs]; [cbn; tauto|].
  inversion HF as [|? ? Hc HF']; subst. cbn [continuity_from]. rewrite Hc. cbn [opt_eqb].
  apply continuity_from_spec; auto.
Qed.

(* a gap and an overlap are both not contiguous *)
Example continuity_example :
  let c s e := mkchunk s e [] 1 1 (Some 0) 1 in
  continuity_check [c 0 10; c 10 20; c 20 30] = None /\
  continuity_check [c 0 10; c 11 20; c 20 30] = Some 1%nat /\
  continuity_check [c 0 10; c 10 20; c 19 30] = Some 2%nat.
Proof. vm_compute. repeat split. Qed.
