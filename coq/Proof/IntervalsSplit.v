(* split_by_containment: _split at the change points of which_container, followed by the
   insertion of empty groups for the unused container ids, yields for every container exactly
   the things assigned to it. *)
From SV Require Import Model.Rows Model.Intervals Spec.IntervalDefs Proof.RowsFacts
  Proof.IntervalsChecks Proof.IntervalsContain.

Definition pairs := list (row * Z).
Definition group (l : pairs) (j : Z) : list row := map fst (filter (fun p => snd p =? j) l).

(* maximal runs of equal values *)
Fixpoint runs (l : pairs) : list (Z * list row) :=
  match l with
  | [] => []
  | (a, v) :: r =>
      match runs r with
      | (v', g) :: rs => if v =? v' then (v, a :: g) :: rs else (v, [a]) :: (v', g) :: rs
      | [] => [(v, [a])]
      end
  end.

Fixpoint vs_mono (l : pairs) : Prop :=
  match l with [] => True | p :: r => Forall (fun q => snd p <= snd q) r /\ vs_mono r end.

Fixpoint strict_inc (l : list Z) : Prop :=
  match l with [] => True | x :: r => Forall (fun y => x < y) r /\ strict_inc r end.

Lemma runs_nil l : runs l = [] -> l = [].
Proof.
  destruct l as [|[a v] r]; [reflexivity|]. cbn [runs].
  destruct (runs r) as [|[v' g] rs]; [discriminate|]. destruct (v =? v'); discriminate.
Qed.

Lemma runs_head a v r : exists g rs, runs ((a, v) :: r) = (v, g) :: rs.
Proof.
  cbn [runs]. destruct (runs r) as [|[v' g] rs]; [eauto|]. destruct (v =? v'); eauto.
Qed.

(* ---------- A1: _split at the change points = the runs ---------- *)
Lemma split_go_runs : forall (r : pairs) (A C : list row) v,
  C <> [] ->
  split_go (A ++ C ++ map fst r) (length A) (change_points v (length A + length C) (map snd r)) =
  match runs r with
  | (v', g) :: rs => if v =? v' then (C ++ g) :: map snd rs else C :: g :: map snd rs
  | [] => [C]
  end.
Proof.
  induction r as [|[a' v'] r IH]; intros A C v HC.
  - cbn [map change_points split_go runs]. rewrite app_nil_r.
    replace (length A <? length (A ++ C))%nat with true.
    + rewrite skipn_app, Nat.sub_diag, skipn_all. reflexivity.
    + symmetry. apply Nat.ltb_lt. rewrite app_length. destruct C; [congruence|cbn; lia].
  - cbn [map change_points fst snd].
    destruct (v' - v =? 0) eqn:E.
    + assert (v' = v) by lia. subst v'.
      specialize (IH A (C ++ [a']) v). rewrite app_length in IH. cbn [length] in IH.
      replace (length A + (length C + 1))%nat with (S (length A + length C)) in IH by lia.
      rewrite <- !app_assoc in IH. cbn [app] in IH. rewrite IH by (destruct C; discriminate).
      cbn [runs]. destruct (runs r) as [|[v'' g] rs].
      * rewrite Z.eqb_refl. reflexivity.
      * destruct (v =? v'') eqn:E2; rewrite Z.eqb_refl; rewrite <- ?app_assoc; reflexivity.
    + cbn [split_go].
      replace (length A + length C - length A)%nat with (length C) by lia.
      rewrite skipn_app, Nat.sub_diag, skipn_all. cbn [skipn app]. rewrite firstn_app, Nat.sub_diag, firstn_all.
      cbn [firstn]. rewrite app_nil_r.
      specialize (IH (A ++ C) [a'] v'). rewrite app_length in IH. cbn [length] in IH.
      replace (length A + length C + 1)%nat with (S (length A + length C)) in IH by lia.
      rewrite <- !app_assoc in IH. cbn [app] in IH. rewrite IH by discriminate.
      cbn [runs]. assert (Hne : (v =? v') = false) by lia.
      destruct (runs r) as [|[v'' g] rs].
      * rewrite Hne. reflexivity.
      * destruct (v' =? v'') eqn:E2; rewrite Hne; reflexivity.
Qed.

Lemma split_at_go {A} (things : list A) sis :
  things <> [] -> split_at things sis = split_go things 0 sis.
Proof.
  intros H. unfold split_at. destruct sis as [|si sis]; [|reflexivity].
  cbn [split_go]. destruct things as [|x t]; [congruence|]. reflexivity.
Qed.

Lemma split_at_runs (l : pairs) :
  l <> [] -> split_at (map fst l) (split_indices (map snd l)) = map snd (runs l).
Proof.
  destruct l as [|[a v] r]; [congruence|]. intros _.
  rewrite split_at_go by discriminate.
  cbn [map fst snd split_indices].
  pose proof (split_go_runs r [] [a] v) as H. cbn [app length Nat.add] in H.
  rewrite H by discriminate. cbn [runs].
  destruct (runs r) as [|[v' g] rs]; [reflexivity|]. destruct (v =? v'); reflexivity.
Qed.

(* ---------- A2: structure of the runs of a monotone list ---------- *)
Lemma group_cons a v r j : group ((a, v) :: r) j = if v =? j then a :: group r j else group r j.
Proof. unfold group. cbn [filter snd]. destruct (v =? j); reflexivity. Qed.

Definition runs_ok (l : pairs) : Prop :=
  strict_inc (map fst (runs l)) /\
  Forall (fun vg => snd vg = group l (fst vg)) (runs l) /\
  (forall j, ~ In j (map fst (runs l)) -> group l j = []) /\
  (forall j, In j (map fst (runs l)) -> In j (map snd l)).

Lemma strict_inc_head_lt x l y : strict_inc (x :: l) -> In y l -> x < y.
Proof. intros [H _] Hy. rewrite Forall_forall in H. auto. Qed.

Lemma runs_ok_mono : forall l, vs_mono l -> runs_ok l.
Proof.
  induction l as [|[a v] r IH]; intros Hm.
  - repeat split; cbn; auto; try (intros j []); try tauto.
  - destruct Hm as [Hm1 Hm2]. destruct (IH Hm2) as (I1 & I2 & I3 & I4). cbn [snd] in Hm1.
    unfold runs_ok. cbn [runs].
    destruct (runs r) as [|[v' g] rs] eqn:Er.
    + apply runs_nil in Er. subst r. cbn [map fst snd].
      split; [cbn; auto|]. split; [|split].
      * constructor; [|constructor]. cbn. unfold group. cbn. rewrite Z.eqb_refl. reflexivity.
      * intros j Hj. unfold group. cbn. destruct (v =? j) eqn:E; [|reflexivity]. exfalso. apply Hj. left. lia.
      * intros j [<-|[]]. left; reflexivity.
    + assert (Hv' : v <= v').
      { assert (Hin : In v' (map snd r)) by (apply I4; left; reflexivity).
        apply in_map_iff in Hin as (q & <- & Hq). rewrite Forall_forall in Hm1. apply Hm1, Hq. }
      cbn [map fst] in I1. destruct I1 as [I1a I1b].
      inversion I2 as [|? ? Hg I2']; subst. cbn [fst snd] in Hg.
      destruct (v =? v') eqn:E.
      * assert (v = v') by lia. subst v'. cbn [map fst]. repeat split; auto.
        -- constructor.
           ++ cbn [fst snd]. rewrite group_cons, Z.eqb_refl, <- Hg. reflexivity.
           ++ rewrite Forall_forall in I2' |- *. intros [u h] Hu. cbn [fst snd].
              specialize (I2' _ Hu). cbn [fst snd] in I2'. rewrite group_cons.
              assert (v < u) by (rewrite Forall_forall in I1a; apply I1a; change u with (fst (u, h)); apply in_map, Hu).
              replace (v =? u) with false by lia. exact I2'.
        -- intros j Hj. rewrite group_cons. destruct (v =? j) eqn:Ej.
           ++ exfalso. apply Hj. left. lia.
           ++ apply I3. exact Hj.
        -- intros j Hj. cbn [map snd]. right. apply I4. exact Hj.
      * assert (v < v') by lia. cbn [map fst]. repeat split.
        -- constructor; [lia|]. eapply Forall_impl; [|exact I1a]. cbn; intros; lia.
        -- exact I1a.
        -- exact I1b.
        -- constructor; [|constructor].
           ++ cbn [fst snd]. rewrite group_cons, Z.eqb_refl. f_equal. symmetry. apply I3.
              cbn [map fst]. intros [Hj|Hj]; [lia|].
              rewrite Forall_forall in I1a. specialize (I1a _ Hj). lia.
           ++ cbn [fst snd]. rewrite group_cons. replace (v =? v') with false by lia. exact Hg.
           ++ rewrite Forall_forall in I2' |- *. intros [u h] Hu. cbn [fst snd].
              specialize (I2' _ Hu). cbn [fst snd] in I2'. rewrite group_cons.
              assert (v' < u) by (rewrite Forall_forall in I1a; apply I1a; change u with (fst (u, h)); apply in_map, Hu).
              replace (v =? u) with false by lia. exact I2'.
        -- intros j Hj. rewrite group_cons. destruct (v =? j) eqn:Ej.
           ++ exfalso. apply Hj. left. lia.
           ++ apply I3. intros Hin. apply Hj. right. exact Hin.
        -- intros j [<-|Hj]; [left; reflexivity|]. cbn [map snd]. right. apply I4. exact Hj.
Qed.

(* np.unique of a monotone list = the run values *)
Lemma np_unique_runs : forall l, vs_mono l -> np_unique (map snd l) = map fst (runs l).
Proof.
  induction l as [|[a v] r IH]; intros Hm; [reflexivity|].
  destruct Hm as [Hm1 Hm2]. cbn [map snd np_unique fold_right]. fold (np_unique (map snd r)).
  rewrite IH by auto. cbn [runs].
  destruct (runs_ok_mono r Hm2) as (_ & _ & _ & I4).
  destruct (runs r) as [|[v' g] rs]; [reflexivity|].
  assert (Hv' : v <= v').
  { assert (Hin : In v' (map snd r)) by (apply I4; left; reflexivity).
    apply in_map_iff in Hin as (q & <- & Hq). rewrite Forall_forall in Hm1. apply Hm1, Hq. }
  cbn [map fst uniq_insert]. destruct (v =? v') eqn:E.
  - replace (v <? v') with false by lia. assert (v = v') by lia. subst v'. reflexivity.
  - replace (v <? v') with true by lia. reflexivity.
Qed.

(* ---------- B: inserting the empty groups ---------- *)
Lemma zrange_nil a b : b <= a -> zrange a b = [].
Proof. intros H. unfold zrange. replace (Z.to_nat (b - a)) with 0%nat by lia. reflexivity. Qed.

Lemma zrange_cons a b : a < b -> zrange a b = a :: zrange (a + 1) b.
Proof.
  intros H. unfold zrange. replace (Z.to_nat (b - a)) with (S (Z.to_nat (b - (a + 1)))) by lia.
  cbn [seq map]. f_equal; [lia|]. rewrite <- seq_shift, map_map. apply map_ext. intros; lia.
Qed.

Lemma zrange_split a m b : a <= m -> m < b -> zrange a b = zrange a m ++ m :: zrange (m + 1) b.
Proof.
  intros H1 H2. remember (Z.to_nat (m - a)) as n eqn:Hn. revert a H1 Hn.
  induction n as [|n IH]; intros a H1 Hn.
  - assert (a = m) by lia. subst a. rewrite (zrange_nil m m) by lia. cbn [app]. apply zrange_cons. lia.
  - rewrite (zrange_cons a b) by lia. rewrite (zrange_cons a m) by lia. cbn [app]. f_equal. apply IH; lia.
Qed.

Definition empties (l : list Z) : list (list row) := map (fun _ => []) l.

Lemma insert_empties : forall n a b (done tail : list (list row)),
  n = Z.to_nat (b - a) -> 0 <= a -> length done = Z.to_nat a ->
  fold_left (fun acc ci => insert_at (Z.to_nat ci) [] acc) (zrange a b) (done ++ tail) =
  done ++ empties (zrange a b) ++ tail.
Proof.
  induction n as [|n IH]; intros a b done tail Hn Ha Hlen.
  - rewrite zrange_nil by lia. reflexivity.
  - rewrite zrange_cons by lia. cbn [fold_left empties map app].
    unfold insert_at at 2. rewrite <- Hlen, firstn_app, Nat.sub_diag, firstn_all, skipn_app, Nat.sub_diag, skipn_all.
    cbn [firstn skipn app]. rewrite app_nil_r.
    replace (done ++ [] :: tail) with ((done ++ [[]]) ++ tail) by (rewrite <- app_assoc; reflexivity).
    rewrite (IH (a + 1) b (done ++ [[]]) tail); [|lia|lia|rewrite app_length; cbn [length]; lia].
    rewrite <- app_assoc. reflexivity.
Qed.

Fixpoint build (n prev : Z) (full : list Z) (gs : list (list row)) : list (list row) :=
  match full, gs with
  | fid :: rest, g :: gs' => empties (zrange prev fid) ++ g :: build n (fid + 1) rest gs'
  | _, _ => empties (if prev <? n then zrange prev n else [])
  end.

Lemma fold_insert_build n : forall full prev gs done,
  0 <= prev -> length done = Z.to_nat prev -> length gs = length full ->
  strict_inc full -> Forall (fun x => prev <= x) full ->
  fold_left (fun acc ci => insert_at (Z.to_nat ci) [] acc) (empty_ids_go n prev full) (done ++ gs) =
  done ++ build n prev full gs.
Proof.
  induction full as [|fid rest IH]; intros prev gs done Hp Hlen Hgs Hinc Hge.
  - destruct gs; [|discriminate]. cbn [empty_ids_go build]. destruct (prev <? n) eqn:E.
    + rewrite (insert_empties (Z.to_nat (n - prev)) prev n done []) by auto. rewrite app_nil_r. reflexivity.
    + reflexivity.
  - destruct gs as [|g gs']; [discriminate|]. cbn [empty_ids_go build].
    inversion Hge as [|? ? Hfid Hge']; subst. destruct Hinc as [Hi1 Hi2].
    rewrite fold_left_app.
    rewrite (insert_empties (Z.to_nat (fid - prev)) prev fid done (g :: gs')) by auto.
    replace (done ++ empties (zrange prev fid) ++ g :: gs')
      with ((done ++ empties (zrange prev fid) ++ [g]) ++ gs') by (rewrite <- !app_assoc; reflexivity).
    rewrite IH.
    + rewrite <- !app_assoc. reflexivity.
    + lia.
    + rewrite !app_length. unfold empties. rewrite map_length. unfold zrange. rewrite map_length, seq_length.
      cbn [length]. lia.
    + cbn [length] in Hgs. lia.
    + exact Hi2.
    + eapply Forall_impl; [|exact Hi1]. cbn; intros; lia.
Qed.

Lemma build_groups n (G : Z -> list row) : forall full prev,
  strict_inc full -> Forall (fun x => prev <= x < n) full ->
  (forall j, prev <= j < n -> ~ In j full -> G j = []) ->
  build n prev full (map G full) = map G (zrange prev n).
Proof.
  induction full as [|fid rest IH]; intros prev Hinc Hr Hempty.
  - cbn [map build]. destruct (prev <? n) eqn:E; [|rewrite zrange_nil by lia; reflexivity].
    unfold empties. apply map_ext_in. intros j Hj. symmetry. apply Hempty; [|intros []].
    unfold zrange in Hj. apply in_map_iff in Hj as (k & <- & Hk). apply in_seq in Hk. lia.
  - cbn [map build]. inversion Hr as [|? ? Hfid Hr']; subst. destruct Hinc as [Hi1 Hi2].
    rewrite (zrange_split prev fid n) by lia. rewrite map_app. cbn [map]. f_equal; [|f_equal].
    + unfold empties. apply map_ext_in. intros j Hj. symmetry.
      assert (prev <= j < fid).
      { unfold zrange in Hj. apply in_map_iff in Hj as (k & <- & Hk). apply in_seq in Hk. lia. }
      apply Hempty; [lia|]. intros [Hin|Hin]; [lia|]. rewrite Forall_forall in Hi1. specialize (Hi1 _ Hin). lia.
    + apply IH; auto.
      * rewrite Forall_forall in Hr', Hi1 |- *. intros x Hx. specialize (Hr' _ Hx). specialize (Hi1 _ Hx). lia.
      * intros j Hj Hnin. apply Hempty; [lia|]. intros [Hin|Hin]; [lia|auto].
Qed.

(* ---------- C: the kept (thing, container id) pairs ---------- *)
Definition kept (f : row -> Z) (things : list row) : pairs :=
  filter (fun p => negb (snd p =? -1)) (combine things (map f things)).

Lemma kept_cons f a t :
  kept f (a :: t) = if f a =? -1 then kept f t else (a, f a) :: kept f t.
Proof. unfold kept. cbn [map combine filter snd]. destruct (f a =? -1); reflexivity. Qed.

Lemma group_kept f things j : j <> -1 -> group (kept f things) j = filter (fun a => f a =? j) things.
Proof.
  intros Hj. induction things as [|a t IH]; [reflexivity|].
  rewrite kept_cons. cbn [filter]. destruct (f a =? -1) eqn:E.
  - replace (f a =? j) with false by lia. exact IH.
  - rewrite group_cons. destruct (f a =? j); rewrite IH; reflexivity.
Qed.

Lemma in_kept f t q : In q (kept f t) -> exists a, In a t /\ q = (a, f a) /\ f a <> -1.
Proof.
  induction t as [|a t IH]; [intros []|]. rewrite kept_cons. destruct (f a =? -1) eqn:E.
  - intros H. destruct (IH H) as (a' & H1 & H2 & H3). exists a'. split; [right; auto|auto].
  - intros [<-|H].
    + exists a. split; [left; auto|]. split; [reflexivity|lia].
    + destruct (IH H) as (a' & H1 & H2 & H3). exists a'. split; [right; auto|auto].
Qed.

Lemma first_idx_neq_exists {A} (p : A -> bool) l i :
  first_idx p l i <> -1 -> exists x, In x l /\ p x = true.
Proof.
  revert i; induction l as [|x l IH]; intros i H; cbn [first_idx] in H; [congruence|].
  destruct (p x) eqn:E; [exists x; split; [left; auto|auto]|].
  destruct (IH _ H) as (y & Hy & Hpy). exists y. split; [right; auto|auto].
Qed.

Lemma strict_assign_mono a a' : rt a <= rt a' -> forall cs i,
  sep cs ->
  first_idx (fun c => contains_strict c a) cs i <> -1 ->
  first_idx (fun c => contains_strict c a') cs i <> -1 ->
  first_idx (fun c => contains_strict c a) cs i <= first_idx (fun c => contains_strict c a') cs i.
Proof.
  intros Hle. induction cs as [|c r IH]; intros i Hs H1 H2; cbn [first_idx] in *; [congruence|].
  destruct Hs as [S1 S2].
  destruct (contains_strict c a) eqn:Ea.
  - destruct (contains_strict c a') eqn:Ea'; [lia|].
    destruct (first_idx_range (fun c0 => contains_strict c0 a') r (S i)) as [Hr|Hr]; [congruence|lia].
  - destruct (contains_strict c a') eqn:Ea'.
    + exfalso. destruct (first_idx_neq_exists _ _ _ H1) as (c'' & Hin & Hc'').
      rewrite Forall_forall in S1. specialize (S1 _ Hin).
      unfold contains_strict, contains_lit in Ea', Hc''. lia.
    + apply IH; auto.
Qed.

Lemma kept_mono cs things :
  sorted things -> sep cs -> vs_mono (kept (fc_spec_strict cs) things).
Proof.
  intros Hs Hsep. induction things as [|a t IH]; [exact I|].
  destruct Hs as [Hs1 Hs2]. rewrite kept_cons. destruct (fc_spec_strict cs a =? -1) eqn:E; [auto|].
  cbn [vs_mono]. split; [|auto]. apply Forall_forall. intros q Hq.
  destruct (in_kept _ _ _ Hq) as (a' & Hin & -> & Hne). cbn [snd].
  rewrite Forall_forall in Hs1. specialize (Hs1 _ Hin).
  unfold fc_spec_strict in *. apply strict_assign_mono; auto. lia.
Qed.

Lemma kept_values_range cs things j :
  In j (map snd (kept (fc_spec_strict cs) things)) -> 0 <= j < Z.of_nat (length cs).
Proof.
  intros H. apply in_map_iff in H as (q & <- & Hq).
  destruct (in_kept _ _ _ Hq) as (a & _ & -> & Hne). cbn [snd].
  unfold fc_spec_strict in *.
  destruct (first_idx_range (fun c => contains_strict c a) cs 0) as [Hr|Hr]; [congruence|]. cbn [Nat.add] in Hr. lia.
Qed.

Lemma kept_fst_nil f things : map fst (kept f things) = [] -> kept f things = [].
Proof. destruct (kept f things); [reflexivity|discriminate]. Qed.

(* ---------- the theorem ---------- *)
Theorem split_by_containment_core_groups things cs :
  sorted things -> sep cs ->
  split_by_containment_core things cs = groups_spec fc_spec_strict things cs.
Proof.
  intros Hs Hsep. unfold split_by_containment_core. rewrite fc_in_strict by auto.
  cbn zeta. set (f := fc_spec_strict cs). change (filter (fun p : row * Z => negb (snd p =? -1)) (combine things (map f things))) with (kept f things). set (K := kept f things).
  assert (Hspec : groups_spec fc_spec_strict things cs = map (group K) (zrange 0 (Z.of_nat (length cs)))).
  { unfold groups_spec, zrange. rewrite Z.sub_0_r, Nat2Z.id, map_map. apply map_ext. intros j.
    unfold K. rewrite group_kept by lia. reflexivity. }
  rewrite Hspec.
  destruct (map fst K) as [|x xs] eqn:Efst.
  - (* nothing is contained anywhere *)
    apply kept_fst_nil in Efst. change (K = []) in Efst. rewrite Efst. unfold zrange. rewrite Z.sub_0_r, Nat2Z.id, map_map.
    rewrite <- (map_ext_in (fun _ => []) (fun x => group [] (0 + Z.of_nat x)) (seq 0 (length cs)))
      by (intros; reflexivity).
    clear. generalize 0%nat. induction cs as [|c cs IH]; intros s; [reflexivity|].
    cbn [map length seq]. f_equal. apply IH.
  - rewrite <- Efst.
    assert (HK : K <> []) by (intros H; rewrite H in Efst; discriminate).
    assert (Hm : vs_mono K) by (apply kept_mono; auto).
    destruct (runs_ok_mono K Hm) as (R1 & R2 & R3 & R4).
    rewrite split_at_runs by exact HK. rewrite np_unique_runs by exact Hm.
    unfold get_empty_container_ids.
    pose proof (fold_insert_build (Z.of_nat (length cs)) (map fst (runs K)) 0 (map snd (runs K)) []) as HB.
    cbn [app] in HB. rewrite HB.
    + replace (map snd (runs K)) with (map (group K) (map fst (runs K))).
      * apply build_groups; [exact R1| |].
        -- apply Forall_forall. intros j Hj. apply (kept_values_range cs things). apply R4, Hj.
        -- intros j _ Hj. apply R3, Hj.
      * rewrite map_map. apply map_ext_in. intros vg Hvg. rewrite Forall_forall in R2. symmetry. apply R2, Hvg.
    + lia.
    + reflexivity.
    + rewrite !map_length. reflexivity.
    + exact R1.
    + apply Forall_forall. intros j Hj. apply R4 in Hj. apply (kept_values_range cs things) in Hj. lia.
Qed.

Theorem split_by_containment_groups things cs :
  fc_pre things cs ->
  split_by_containment things cs = Ok (false, groups_spec fc_spec_strict things cs).
Proof.
  intros (H1 & H2 & H3 & H4 & H5). unfold split_by_containment, fc_sanity.
  rewrite H1, H2, H3, H4, H5. cbn [negb res_bind].
  destruct cs as [|c cs]; [reflexivity|].
  rewrite split_by_containment_core_groups; [reflexivity| |].
  - apply check_time_sorted_iff; auto.
  - apply check_not_overlapping_sep; auto. apply check_nonneg_iff; auto.
Qed.

(* with the literal formula, under the T1 hypothesis *)
Theorem split_by_containment_groups_literal things cs :
  fc_pre things cs -> no_zero_on_end things cs ->
  split_by_containment things cs = Ok (false, groups_spec fc_spec_lit things cs).
Proof.
  intros Hp Hz. rewrite split_by_containment_groups by auto. do 2 f_equal.
  unfold groups_spec. apply map_ext. intros j. apply filter_ext_in. intros a Ha.
  replace (fc_spec_strict cs a) with (fc_spec_lit cs a); [reflexivity|].
  assert (Hn : nonnegP things) by (apply check_nonneg_iff; apply Hp).
  unfold nonnegP in Hn. rewrite Forall_forall in Hn. specialize (Hn a Ha).
  unfold no_zero_on_end in Hz. rewrite Forall_forall in Hz. specialize (Hz a Ha). rewrite Forall_forall in Hz.
  unfold fc_spec_strict, fc_spec_lit. apply first_idx_ext_in. intros c Hc. specialize (Hz c Hc).
  unfold contains_strict, contains_lit.
  destruct ((rt c <=? rt a) && (re a <=? re c)) eqn:E; [|reflexivity]. cbn [andb]. lia.
Qed.

Example split_by_containment_ex :
  let things := [mkrow 1 2 0 0; mkrow 3 4 1 0; mkrow 3 5 2 0; mkrow 8 9 3 0] in
  let cs := [mkrow 0 2 0 0; mkrow 2 3 1 0; mkrow 3 5 2 0; mkrow 7 10 3 0; mkrow 11 12 4 0] in
  fc_pre things cs /\
  split_by_containment things cs =
  Ok (false, [[mkrow 1 2 0 0]; []; [mkrow 3 4 1 0; mkrow 3 5 2 0]; [mkrow 8 9 3 0]; []]).
Proof. vm_compute. repeat split; reflexivity. Qed.
