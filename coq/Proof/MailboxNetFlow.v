(* Flow control in networks of mailboxes (C13): the coupling invariant between a thread's position and
   the mailboxes it owns, for every network in which every mailbox role (sender, subscriber i) belongs to
   exactly one thread, and the resulting edge inequality

        n_sent(u) <= n_sent(d) + 2 * max_messages(u)        for a worker pulling from u and sending to d
        n_sent(u) <= p + 2 * max_messages(u)                for the consumer of u that takes p chunks

   in every reachable state of every schedule. *)
From SV Require Import Base.Prelude Model.Mailbox Model.MailboxNet
  Proof.MailboxFacts Proof.MailboxProof Proof.MailboxInOrder Proof.MailboxNetLift Proof.MailboxStepFacts.
Local Open Scope nat_scope.

Definition nsent_of (bs : boxes) (d : nat) : nat :=
  match nth_error bs d with Some (_, st) => n_sent st | None => 0 end.
Definition cap_of (bs : boxes) (d : nat) : nat :=
  match nth_error bs d with
  | Some (cfg, _) => match c_cap cfg with Some c => c | None => 0 end
  | None => 0
  end.

(* ---------- who may touch what ---------- *)
Definition op_role (o : op) : nat * tid :=
  match o with OGate d | OSend d => (d, TS) | OPull u i => (u, TR i) end.
Definition roles (th : thread) : list (nat * tid) :=
  match th with Sink u i _ => [(u, TR i)] | Worker prog _ _ => map op_role prog end.

Definition owner_ok (rl : list (list (nat * tid))) : Prop :=
  forall w1 w2 r1 r2 x, w1 <> w2 -> nth_error rl w1 = Some r1 -> nth_error rl w2 = Some r2 ->
    In x r1 -> In x r2 -> False.

Definition is_send (d : nat) (o : op) : bool := match o with OSend d' => d' =? d | _ => false end.
Definition sent_before (prog : list op) (pc d : nat) : bool := existsb (is_send d) (firstn pc prog).

Definition C1 (bs : boxes) (prog : list op) (pc it : nat) : Prop :=
  forall d, In d (sends_of prog) -> nsent_of bs d = it + (if sent_before prog pc d then 1 else 0).
Definition C2 (bs : boxes) (prog : list op) (it : nat) : Prop :=
  forall u i, In (OPull u i) prog -> nread_of bs u i <= it + cap_of bs u.

Definition TI (bs : boxes) (th : thread) : Prop :=
  match th with
  | Worker prog pc it => NoDup (sends_of prog) /\ pc < length prog /\ C1 bs prog pc it /\ C2 bs prog it
  | Sink u i (Some p) => nread_of bs u i <= p + cap_of bs u
  | Sink _ _ None => True
  end.

Definition readers_exist (bs : boxes) (th : thread) : Prop :=
  forall u i, In (u, TR i) (roles th) -> reader_of bs u i <> None.

Definition box_good (N : nat) (cfg : config) (st : state) : Prop :=
  J N cfg st /\ cap_ok cfg st /\ c_cap cfg <> None.

Record GI (N : nat) (n : net) : Prop := mkGI {
  gi_boxes : all_boxes (box_good N) (n_boxes n);
  gi_threads : forall w th, nth_error (n_threads n) w = Some th ->
                 TI (n_boxes n) th /\ readers_exist (n_boxes n) th;
  gi_owner : owner_ok (map roles (n_threads n));
}.

Lemma box_good_step N : step_closed (box_good N).
Proof.
  intros cfg st t st' (HJ & Hc & Hn) Hs. split; [eapply J_step; eauto|]. split; [eapply cap_ok_step; eauto|auto].
Qed.

(* ---------- looking into updated boxes ---------- *)
Lemma nsent_upd bs d cfg st' e :
  d < length bs -> nsent_of (upd d (cfg, st') bs) e = if e =? d then n_sent st' else nsent_of bs e.
Proof.
  intros Hd. unfold nsent_of. destruct (e =? d) eqn:E.
  - apply Nat.eqb_eq in E. subst. rewrite nth_error_upd_eq by auto. reflexivity.
  - apply Nat.eqb_neq in E. rewrite nth_error_upd_neq by auto. reflexivity.
Qed.

Lemma cap_upd bs d cfg st st' e :
  nth_error bs d = Some (cfg, st) -> cap_of (upd d (cfg, st') bs) e = cap_of bs e.
Proof.
  intros Hd. unfold cap_of. destruct (Nat.eq_dec e d) as [->|Hne].
  - rewrite nth_error_upd_eq by (apply nth_error_Some; congruence). rewrite Hd. reflexivity.
  - rewrite nth_error_upd_neq by auto. reflexivity.
Qed.

Lemma reader_upd bs d cfg st' u i :
  d < length bs ->
  reader_of (upd d (cfg, st') bs) u i = if u =? d then nth_error (rds st') i else reader_of bs u i.
Proof.
  intros Hd. unfold reader_of. destruct (u =? d) eqn:E.
  - apply Nat.eqb_eq in E. subst. rewrite nth_error_upd_eq by auto. reflexivity.
  - apply Nat.eqb_neq in E. rewrite nth_error_upd_neq by auto. reflexivity.
Qed.

Lemma nth_lt {A} (l : list A) d x : nth_error l d = Some x -> d < length l.
Proof. intros H. apply nth_error_Some. congruence. Qed.

(* ---------- kinds of moves ---------- *)
Lemma next_move_role th x : next_move th = Some x -> In x (roles th).
Proof.
  destruct th as [prog pc it|u i b]; cbn [next_move roles].
  - destruct (nth_error prog pc) as [o|] eqn:E; try discriminate.
    intros H. apply nth_error_In in E. apply (in_map op_role) in E.
    destruct o; inversion H; subst; exact E.
  - intros H; inversion H; subst. left; reflexivity.
Qed.

Lemma next_move_kind th d t : next_move th = Some (d, t) -> t = TS \/ exists i, t = TR i.
Proof.
  destruct th as [prog pc it|u i b]; cbn [next_move].
  - destruct (nth_error prog pc) as [[d0|u0 i0|d0]|]; try discriminate; intros H; inversion H; eauto.
  - intros H; inversion H; eauto.
Qed.

Lemma settle_roles bs prog pc it : roles (settle bs prog pc it) = map op_role prog.
Proof. unfold settle. destruct (skip_pulls _ _ _ _ _). reflexivity. Qed.

Lemma thread_step_roles bs th bs' th' : thread_step bs th = Some (bs', th') -> roles th' = roles th.
Proof.
  destruct th as [prog pc it|u i b]; cbn [thread_step].
  - destruct (nth_error prog pc) as [[d|u i|d]|]; try discriminate.
    + destruct (at_gate _); try discriminate. destruct (box_step bs d TS); try discriminate.
      destruct (sender_waits _); [intros H; inversion H; reflexivity|].
      destruct (advance prog pc it). intros H; inversion H. apply settle_roles.
    + destruct (it <? _); try discriminate. destruct (box_step bs u (TR i)); try discriminate.
      intros H; inversion H. apply settle_roles.
    + destruct (at_send _); try discriminate. destruct (box_step bs d TS); try discriminate.
      destruct (sender_waits _); [intros H; inversion H; reflexivity|].
      destruct (advance prog pc it). intros H; inversion H. apply settle_roles.
  - destruct (budget_left _ _ _ _); try discriminate. destruct (box_step bs u (TR i)); try discriminate.
    intros H; inversion H; reflexivity.
Qed.

(* ---------- positions of sends ---------- *)
Lemma sends_of_app a b : sends_of (a ++ b) = sends_of a ++ sends_of b.
Proof. unfold sends_of. apply flat_map_app. Qed.

Lemma in_sends prog d : In d (sends_of prog) <-> In (OSend d) prog.
Proof.
  unfold sends_of. rewrite in_flat_map. split.
  - intros (o & Ho & Hd). destruct o; cbn in Hd; try contradiction. destruct Hd as [->|[]]. exact Ho.
  - intros H. exists (OSend d). split; auto. left; reflexivity.
Qed.

Lemma in_sends_role prog d : In d (sends_of prog) -> In (d, TS) (map op_role prog).
Proof. intros H. apply in_sends in H. apply (in_map op_role) in H. exact H. Qed.

Lemma in_pull_role prog u i : In (OPull u i) prog -> In (u, TR i) (map op_role prog).
Proof. intros H. apply (in_map op_role) in H. exact H. Qed.

Lemma sent_before_0 prog d : sent_before prog 0 d = false.
Proof. reflexivity. Qed.

Lemma firstn_S_nth' {T} (l : list T) a x : nth_error l a = Some x -> firstn (S a) l = firstn a l ++ [x].
Proof.
  revert a; induction l as [|h t IH]; intros [|a] H; cbn [nth_error firstn] in *; try discriminate.
  - inversion H; reflexivity.
  - rewrite (IH _ H). reflexivity.
Qed.

Lemma sent_before_S prog pc d o :
  nth_error prog pc = Some o -> sent_before prog (S pc) d = sent_before prog pc d || is_send d o.
Proof.
  intros H. unfold sent_before. rewrite (firstn_S_nth' _ _ _ H), existsb_app. cbn. now rewrite orb_false_r.
Qed.

Lemma nth_error_firstn_lt {T} (l : list T) : forall k pc, k < pc -> nth_error (firstn pc l) k = nth_error l k.
Proof.
  induction l as [|h t IH]; intros k pc H.
  - rewrite firstn_nil. reflexivity.
  - destruct pc as [|pc]; [lia|]. destruct k as [|k]; cbn [firstn nth_error]; auto. apply IH. lia.
Qed.

Lemma sent_before_of_pos prog pc d k :
  nth_error prog k = Some (OSend d) -> k < pc -> sent_before prog pc d = true.
Proof.
  intros Hk Hlt. unfold sent_before. apply existsb_exists. exists (OSend d). split.
  - assert (Hf : nth_error (firstn pc prog) k = Some (OSend d)).
    { rewrite nth_error_firstn_lt by auto. exact Hk. }
    eapply nth_error_In; eauto.
  - cbn. apply Nat.eqb_refl.
Qed.

Lemma firstn_skipn_nth {T} (l : list T) a x : nth_error l a = Some x -> l = firstn a l ++ x :: skipn (S a) l.
Proof.
  revert a; induction l as [|h t IH]; intros [|a] H; cbn [nth_error firstn skipn app] in *; try discriminate.
  - inversion H; reflexivity.
  - f_equal. apply IH. exact H.
Qed.

Lemma sent_before_nodup prog pc d :
  NoDup (sends_of prog) -> nth_error prog pc = Some (OSend d) -> sent_before prog pc d = false.
Proof.
  intros Hnd Hpc. destruct (sent_before prog pc d) eqn:E; auto. exfalso.
  unfold sent_before in E. apply existsb_exists in E. destruct E as (o & Ho & Hs).
  destruct o; cbn in Hs; try discriminate. apply Nat.eqb_eq in Hs. subst d0.
  rewrite (firstn_skipn_nth _ _ _ Hpc) in Hnd. rewrite sends_of_app in Hnd. cbn [sends_of flat_map app] in Hnd.
  apply NoDup_remove_2 in Hnd. apply Hnd. apply in_or_app. left. apply in_sends. exact Ho.
Qed.

Lemma send_pos prog d : In d (sends_of prog) -> exists k, nth_error prog k = Some (OSend d).
Proof. intros H. apply in_sends in H. apply In_nth_error in H. exact H. Qed.

(* ---------- advancing the program counter ---------- *)
Lemma advance_spec prog pc it pc' it' :
  pc < length prog -> advance prog pc it = (pc', it') ->
  (pc' = S pc /\ it' = it /\ S pc < length prog) \/ (pc' = 0 /\ it' = S it /\ length prog = S pc).
Proof.
  intros Hlt. unfold advance. destruct (S pc <? length prog) eqn:E; intros H; inversion H; subst.
  - left. apply Nat.ltb_lt in E. auto.
  - right. apply Nat.ltb_ge in E. repeat split; lia.
Qed.

Lemma C1_advance_nonsend bs prog pc it o pc' it' :
  pc < length prog -> nth_error prog pc = Some o -> (forall d, is_send d o = false) ->
  C1 bs prog pc it -> advance prog pc it = (pc', it') ->
  C1 bs prog pc' it' /\ pc' < length prog /\ it <= it'.
Proof.
  intros Hlt Ho Hns HC Ha. destruct (advance_spec _ _ _ _ _ Hlt Ha) as [(-> & -> & Hl)|(-> & -> & Hl)].
  - split; [|split; auto]. intros d Hd. rewrite (sent_before_S _ _ _ _ Ho), Hns, orb_false_r. apply HC; auto.
  - split; [|split; lia]. intros d Hd. rewrite sent_before_0.
    destruct (send_pos _ _ Hd) as (k & Hk).
    assert (k < length prog) by (eapply nth_lt; eauto).
    assert (k <> pc). { intros ->. rewrite Ho in Hk. inversion Hk; subst. specialize (Hns d). cbn in Hns.
                        rewrite Nat.eqb_refl in Hns. discriminate. }
    rewrite (HC d Hd), (sent_before_of_pos _ _ _ k) by (auto; lia). lia.
Qed.

Lemma C1_advance_send bs bs' prog pc it d0 pc' it' :
  pc < length prog -> nth_error prog pc = Some (OSend d0) -> NoDup (sends_of prog) ->
  C1 bs prog pc it ->
  nsent_of bs' d0 = S (nsent_of bs d0) -> (forall d, d <> d0 -> nsent_of bs' d = nsent_of bs d) ->
  advance prog pc it = (pc', it') ->
  C1 bs' prog pc' it' /\ pc' < length prog /\ it <= it'.
Proof.
  intros Hlt Ho Hnd HC H0 Hoth Ha.
  assert (Hin0 : In d0 (sends_of prog)) by (apply in_sends; eapply nth_error_In; eauto).
  destruct (advance_spec _ _ _ _ _ Hlt Ha) as [(-> & -> & Hl)|(-> & -> & Hl)].
  - split; [|split; auto]. intros d Hd. rewrite (sent_before_S _ _ _ _ Ho). cbn [is_send].
    destruct (Nat.eq_dec d d0) as [->|Hne].
    + rewrite Nat.eqb_refl, orb_true_r, H0, (HC d0 Hd), (sent_before_nodup _ _ _ Hnd Ho). lia.
    + replace (d0 =? d) with false by (symmetry; apply Nat.eqb_neq; auto).
      rewrite orb_false_r, Hoth by auto. apply HC; auto.
  - split; [|split; lia]. intros d Hd. rewrite sent_before_0.
    destruct (Nat.eq_dec d d0) as [->|Hne].
    + rewrite H0, (HC d0 Hd), (sent_before_nodup _ _ _ Hnd Ho). lia.
    + rewrite Hoth by auto. destruct (send_pos _ _ Hd) as (k & Hk).
      assert (k < length prog) by (eapply nth_lt; eauto).
      assert (k <> pc). { intros ->. rewrite Ho in Hk. inversion Hk; subst. congruence. }
      rewrite (HC d Hd), (sent_before_of_pos _ _ _ k) by (auto; lia). lia.
Qed.

Lemma C1_skip bs prog : forall fuel pc it pc' it',
  pc < length prog -> C1 bs prog pc it -> skip_pulls fuel bs prog pc it = (pc', it') ->
  C1 bs prog pc' it' /\ pc' < length prog /\ it <= it'.
Proof.
  induction fuel as [|f IH]; intros pc it pc' it' Hlt HC Hs; cbn [skip_pulls] in Hs.
  - inversion Hs; subst. auto.
  - destruct (nth_error prog pc) as [[d|u i|d]|] eqn:Eo; try (inversion Hs; subst; auto; fail).
    destruct (it <? nread_of bs u i); [|inversion Hs; subst; auto].
    destruct (advance prog pc it) as [pc1 it1] eqn:Ea.
    destruct (C1_advance_nonsend bs prog pc it _ pc1 it1 Hlt Eo (fun _ => eq_refl) HC Ea) as (HC1 & Hl1 & Hi1).
    destruct (IH _ _ _ _ Hl1 HC1 Hs) as (HC2 & Hl2 & Hi2). repeat split; auto. lia.
Qed.

Lemma C2_mono bs prog it it' : C2 bs prog it -> it <= it' -> C2 bs prog it'.
Proof. intros H Hle u i Hin. specialize (H u i Hin). lia. Qed.

Lemma C1_ext bs bs' prog pc it :
  (forall d, nsent_of bs' d = nsent_of bs d) -> C1 bs prog pc it -> C1 bs' prog pc it.
Proof. intros E H d Hd. rewrite E. apply H; auto. Qed.

Lemma C2_ext bs bs' prog it :
  (forall u i, nread_of bs' u i = nread_of bs u i) -> (forall u, cap_of bs' u = cap_of bs u) ->
  C2 bs prog it -> C2 bs' prog it.
Proof. intros E Ec H u i Hin. rewrite E, Ec. apply H; auto. Qed.

Lemma TI_settle bs prog pc it :
  NoDup (sends_of prog) -> pc < length prog -> C1 bs prog pc it -> C2 bs prog it ->
  TI bs (settle bs prog pc it).
Proof.
  intros Hnd Hlt H1 H2. unfold settle. destruct (skip_pulls _ _ _ _ _) as [pc' it'] eqn:E.
  destruct (C1_skip _ _ _ _ _ _ _ Hlt H1 E) as (A & B & C).
  cbn [TI]. repeat split; auto. eapply C2_mono; eauto.
Qed.

(* ---------- a step of mailbox d seen from the observers nsent_of / nread_of ---------- *)
Section OneStep.
Variables (N : nat) (bs : boxes) (d : nat) (cfg : config) (st st' : state) (t : tid).
Hypothesis Hd : nth_error bs d = Some (cfg, st).
Hypothesis Hgood : box_good N cfg st.
Hypothesis Hstep : step cfg st t = Some st'.
Let bs' := upd d (cfg, st') bs.

Lemma dlt : d < length bs. Proof. eapply nth_lt; eauto. Qed.

Lemma os_cap u : cap_of bs' u = cap_of bs u.
Proof. unfold bs'. eapply cap_upd; eauto. Qed.

Lemma os_nsent_other e : e <> d -> nsent_of bs' e = nsent_of bs e.
Proof.
  intros Hne. unfold bs'. rewrite nsent_upd by apply dlt.
  replace (e =? d) with false by (symmetry; apply Nat.eqb_neq; auto). reflexivity.
Qed.

Lemma os_nsent_d : nsent_of bs' d = n_sent st'.
Proof. unfold bs'. rewrite nsent_upd by apply dlt. now rewrite Nat.eqb_refl. Qed.

Lemma os_nsent_d_old : nsent_of bs d = n_sent st.
Proof. unfold nsent_of. now rewrite Hd. Qed.

Lemma os_nread_other u i : u <> d -> nread_of bs' u i = nread_of bs u i.
Proof.
  intros Hne. unfold nread_of, bs'. rewrite reader_upd by apply dlt.
  replace (u =? d) with false by (symmetry; apply Nat.eqb_neq; auto). reflexivity.
Qed.

Lemma os_nread_d i : nread_of bs' d i = match nth_error (rds st') i with Some r => r_nread r | None => 0 end.
Proof. unfold nread_of, bs'. rewrite reader_upd by apply dlt. now rewrite Nat.eqb_refl. Qed.

Lemma os_nread_d_old i : nread_of bs d i = match nth_error (rds st) i with Some r => r_nread r | None => 0 end.
Proof. unfold nread_of, reader_of. now rewrite Hd. Qed.

Lemma os_reader_exists u i : reader_of bs u i <> None -> reader_of bs' u i <> None.
Proof.
  unfold bs'. rewrite reader_upd by apply dlt. destruct (u =? d) eqn:E; auto.
  apply Nat.eqb_eq in E. subst u. unfold reader_of. rewrite Hd.
  intros H. apply nth_error_Some. rewrite (step_rds_length _ _ _ _ Hstep). apply nth_error_Some. exact H.
Qed.

(* a sender step: nobody's read count moves *)
Lemma os_TS_nread u i : t = TS -> nread_of bs' u i = nread_of bs u i.
Proof.
  intros ->. destruct (Nat.eq_dec u d) as [->|Hne]; [|apply os_nread_other; auto].
  rewrite os_nread_d, os_nread_d_old.
  pose proof (map_nth_eq r_nread _ _ i (step_TS_nreads _ _ _ Hstep)) as E.
  destruct (nth_error (rds st') i), (nth_error (rds st) i); cbn in E; congruence.
Qed.

(* a reader step: nothing is sent, and the other subscribers' read counts do not move *)
Lemma os_TR_nsent i0 e : t = TR i0 -> nsent_of bs' e = nsent_of bs e.
Proof.
  intros ->. destruct (Nat.eq_dec e d) as [->|Hne]; [|apply os_nsent_other; auto].
  rewrite os_nsent_d, os_nsent_d_old. destruct (step_TR_frame _ _ _ _ Hstep) as (E & _). exact E.
Qed.

Lemma os_TR_nread_other i0 u i : t = TR i0 -> (u, i) <> (d, i0) -> nread_of bs' u i = nread_of bs u i.
Proof.
  intros -> Hne. destruct (Nat.eq_dec u d) as [->|Hu]; [|apply os_nread_other; auto].
  assert (Hi : i <> i0) by congruence.
  rewrite os_nread_d, os_nread_d_old. destruct (step_TR_frame _ _ _ _ Hstep) as (_ & _ & _ & E).
  rewrite (E i Hi). reflexivity.
Qed.

(* a reader step: the subscriber cannot get further than what has been sent, which is at most
   max_messages beyond the slowest subscriber *)
Lemma os_TR_nread_bound i0 r :
  t = TR i0 -> nth_error (rds st) i0 = Some r -> nread_of bs' d i0 <= r_nread r + cap_of bs d.
Proof.
  intros -> Hr. destruct Hgood as (HJ & Hcap & Hfin).
  assert (HJ' : J N cfg st') by (eapply J_step; eauto).
  destruct (step_TR_frame _ _ _ _ Hstep) as (En & _).
  rewrite os_nread_d.
  assert (Hsent : n_sent st <= r_nread r + cap_of bs d).
  { pose proof (J_box_len _ _ _ HJ) as Hl. pose proof (J_min_le_sent _ _ _ HJ) as Hm.
    pose proof (min_nread_le _ _ _ Hr) as Hmr.
    unfold cap_of. rewrite Hd. unfold cap_ok in Hcap. destruct (c_cap cfg) as [c|]; [|congruence]. lia. }
  destruct (nth_error (rds st') i0) as [r'|] eqn:E; [|lia].
  pose proof (J_nread_le _ _ _ HJ' _ _ E). lia.
Qed.
End OneStep.

(* ---------- threads that do not move ---------- *)
Lemma TI_other N bs d cfg st st' t th :
  nth_error bs d = Some (cfg, st) -> box_good N cfg st -> step cfg st t = Some st' ->
  (t = TS \/ exists i, t = TR i) -> ~ In (d, t) (roles th) ->
  TI bs th -> TI (upd d (cfg, st') bs) th.
Proof.
  intros Hd Hg Hs Hk Hnot HT.
  assert (Hns : forall e, In (e, TS) (roles th) -> nsent_of (upd d (cfg, st') bs) e = nsent_of bs e).
  { intros e He. destruct Hk as [->|(i0 & ->)].
    - apply (os_nsent_other bs d cfg st st' Hd). intros ->. auto.
    - eapply os_TR_nsent; eauto. }
  assert (Hnr : forall u i, In (u, TR i) (roles th) -> nread_of (upd d (cfg, st') bs) u i = nread_of bs u i).
  { intros u i He. destruct Hk as [->|(i0 & ->)].
    - eapply os_TS_nread; eauto.
    - eapply os_TR_nread_other; eauto. intros E. inversion E; subst. auto. }
  assert (Hc : forall u, cap_of (upd d (cfg, st') bs) u = cap_of bs u) by (intros; eapply os_cap; eauto).
  destruct th as [prog pc it|u i [p|]]; cbn [TI roles] in *; auto.
  - destruct HT as (A & B & H1 & H2). repeat split; auto.
    + intros e He. rewrite Hns by (apply in_sends_role; auto). apply H1; auto.
    + intros u i Hin. rewrite Hnr, Hc by (apply in_pull_role; auto). apply H2; auto.
  - rewrite Hnr, Hc by (left; reflexivity). exact HT.
Qed.

Lemma readers_exist_step bs d cfg st st' t th :
  nth_error bs d = Some (cfg, st) -> step cfg st t = Some st' ->
  readers_exist bs th -> readers_exist (upd d (cfg, st') bs) th.
Proof. intros Hd Hs H u i Hin. eapply os_reader_exists; eauto. Qed.

(* ---------- the thread that moves ---------- *)
Lemma spc_of_eq bs d cfg st : nth_error bs d = Some (cfg, st) -> spc_of bs d = s_pc st.
Proof. intros H. unfold spc_of. now rewrite H. Qed.

Lemma box_step_eq bs d t cfg st bs' :
  nth_error bs d = Some (cfg, st) -> box_step bs d t = Some bs' ->
  exists st', step cfg st t = Some st' /\ bs' = upd d (cfg, st') bs.
Proof.
  intros Hd H. apply box_step_inv in H. destruct H as (cfg0 & st0 & st' & Hd' & Hs & ->).
  rewrite Hd in Hd'. inversion Hd'; subst. eauto.
Qed.

Lemma pair_eq_dec (a b c d : nat) : {a = c /\ b = d} + {(a, b) <> (c, d)}.
Proof.
  destruct (Nat.eq_dec a c) as [->|H]; [destruct (Nat.eq_dec b d) as [->|H]|].
  - left; auto.
  - right; congruence.
  - right; congruence.
Qed.

Lemma TI_self N bs th bs' th' :
  all_boxes (box_good N) bs -> TI bs th -> readers_exist bs th ->
  thread_step bs th = Some (bs', th') -> TI bs' th'.
Proof.
  intros Hall HT HRE Hts.
  destruct th as [prog pc it|u i b]; cbn [thread_step] in Hts.
  - destruct HT as (Hnd & Hlt & H1 & H2).
    destruct (nth_error prog pc) as [[d|u i|d]|] eqn:Eo; try discriminate.
    + (* the fetch gate *)
      destruct (at_gate (spc_of bs d)) eqn:Eg; try discriminate.
      destruct (box_step bs d TS) as [bs1|] eqn:Eb; try discriminate.
      destruct (box_step_inv _ _ _ _ Eb) as (cfg & st & st' & Hd & Hs & ->).
      pose proof (Hall _ _ _ Hd) as Hg. rewrite (spc_of_eq _ _ _ _ Hd) in Eg.
      assert (En : forall e, nsent_of (upd d (cfg, st') bs) e = nsent_of bs e).
      { intros e. destruct (Nat.eq_dec e d) as [->|Hne]; [|eapply os_nsent_other; eauto].
        rewrite (os_nsent_d bs d cfg st st' Hd), (os_nsent_d_old bs d cfg st Hd).
        destruct Hg as (HJ & _). eapply step_TS_gate; eauto. }
      assert (Er : forall u i, nread_of (upd d (cfg, st') bs) u i = nread_of bs u i)
        by (intros; eapply os_TS_nread; eauto).
      assert (Ec : forall u, cap_of (upd d (cfg, st') bs) u = cap_of bs u) by (intros; eapply os_cap; eauto).
      pose proof (C1_ext _ _ _ _ _ En H1) as H1'. pose proof (C2_ext _ _ _ _ Er Ec H2) as H2'.
      destruct (sender_waits _).
      * inversion Hts; subst. cbn [TI]. auto.
      * destruct (advance prog pc it) as [pc1 it1] eqn:Ea. inversion Hts; subst.
        destruct (C1_advance_nonsend _ _ _ _ _ _ _ Hlt Eo (fun _ => eq_refl) H1' Ea) as (A & B & C).
        apply TI_settle; auto. eapply C2_mono; eauto.
    + (* a pull that needs the lock region of _read *)
      destruct (it <? nread_of bs u i) eqn:Eg; try discriminate. apply Nat.ltb_ge in Eg.
      destruct (box_step bs u (TR i)) as [bs1|] eqn:Eb; try discriminate.
      destruct (box_step_inv _ _ _ _ Eb) as (cfg & st & st' & Hd & Hs & ->).
      pose proof (Hall _ _ _ Hd) as Hg. inversion Hts; subst.
      assert (En : forall e, nsent_of (upd u (cfg, st') bs) e = nsent_of bs e)
        by (intros; eapply os_TR_nsent; eauto).
      assert (Ec : forall e, cap_of (upd u (cfg, st') bs) e = cap_of bs e) by (intros; eapply os_cap; eauto).
      apply TI_settle; auto.
      * eapply C1_ext; eauto.
      * intros u0 i0 Hin. rewrite Ec.
        destruct (pair_eq_dec u0 i0 u i) as [[-> ->]|Hne].
        -- assert (Hex : reader_of bs u i <> None).
           { apply HRE. cbn [roles]. apply in_pull_role. exact Hin. }
           unfold reader_of in Hex. rewrite Hd in Hex.
           destruct (nth_error (rds st) i) as [r|] eqn:Er; [|congruence].
           pose proof (os_TR_nread_bound N bs u cfg st st' (TR i) Hd Hg Hs i r eq_refl Er) as Hb.
           rewrite (os_nread_d_old bs u cfg st Hd), Er in Eg. lia.
        -- rewrite (os_TR_nread_other bs u cfg st st' (TR i) Hd Hs i u0 i0 eq_refl) by auto. apply H2; auto.
    + (* send / close *)
      destruct (at_send (spc_of bs d)) eqn:Eg; try discriminate.
      destruct (box_step bs d TS) as [bs1|] eqn:Eb; try discriminate.
      destruct (box_step_inv _ _ _ _ Eb) as (cfg & st & st' & Hd & Hs & ->).
      pose proof (Hall _ _ _ Hd) as Hg. rewrite (spc_of_eq _ _ _ _ Hd) in Eg.
      assert (Hd' : nth_error (upd d (cfg, st') bs) d = Some (cfg, st'))
        by (apply nth_error_upd_eq; eapply nth_lt; eauto).
      rewrite (spc_of_eq _ _ _ _ Hd') in Hts.
      assert (Esent : n_sent st' = if sender_waits (s_pc st') then n_sent st else S (n_sent st)).
      { destruct Hg as (HJ & _). eapply step_TS_send; eauto. }
      assert (Er : forall u i, nread_of (upd d (cfg, st') bs) u i = nread_of bs u i)
        by (intros; eapply os_TS_nread; eauto).
      assert (Ec : forall u, cap_of (upd d (cfg, st') bs) u = cap_of bs u) by (intros; eapply os_cap; eauto).
      pose proof (C2_ext _ _ _ _ Er Ec H2) as H2'.
      destruct (sender_waits (s_pc st')).
      * inversion Hts; subst. cbn [TI]. repeat split; auto.
        eapply C1_ext; [|exact H1]. intros e. destruct (Nat.eq_dec e d) as [->|Hne]; [|eapply os_nsent_other; eauto].
        rewrite (os_nsent_d bs d cfg st st' Hd), (os_nsent_d_old bs d cfg st Hd). exact Esent.
      * destruct (advance prog pc it) as [pc1 it1] eqn:Ea. inversion Hts; subst.
        assert (E0 : nsent_of (upd d (cfg, st') bs) d = S (nsent_of bs d)).
        { rewrite (os_nsent_d bs d cfg st st' Hd), (os_nsent_d_old bs d cfg st Hd). exact Esent. }
        assert (Eoth : forall e, e <> d -> nsent_of (upd d (cfg, st') bs) e = nsent_of bs e)
          by (intros; eapply os_nsent_other; eauto).
        destruct (C1_advance_send _ _ _ _ _ _ _ _ Hlt Eo Hnd H1 E0 Eoth Ea) as (A & B & C).
        apply TI_settle; auto. eapply C2_mono; eauto.
  - (* sinks *)
    destruct (budget_left bs u i b) eqn:Eg; try discriminate.
    destruct (box_step bs u (TR i)) as [bs1|] eqn:Eb; try discriminate.
    destruct (box_step_inv _ _ _ _ Eb) as (cfg & st & st' & Hd & Hs & ->).
    pose proof (Hall _ _ _ Hd) as Hg. inversion Hts; subst.
    destruct b as [p|]; cbn [TI]; auto.
    cbn [budget_left] in Eg. apply Nat.ltb_lt in Eg.
    rewrite (os_cap bs u cfg st st' Hd).
    assert (Hex : reader_of bs u i <> None) by (apply HRE; left; reflexivity).
    unfold reader_of in Hex. rewrite Hd in Hex.
    destruct (nth_error (rds st) i) as [r|] eqn:Er; [|congruence].
    pose proof (os_TR_nread_bound N bs u cfg st st' (TR i) Hd Hg Hs i r eq_refl Er) as Hb.
    rewrite (os_nread_d_old bs u cfg st Hd), Er in Eg. lia.
Qed.
