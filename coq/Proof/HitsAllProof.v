(* C18 proofs, part 1b: the hit finder over all records and with broadcast scalar thresholds. *)
From SV Require Import Model.Hits Model.Reduction Spec.HitsSpec Proof.HitsProof.


Lemma zlen_firstnZ {A} n (l : list A) : 0 <= n <= zlen l -> zlen (firstnZ n l) = n.
Proof. unfold zlen, firstnZ. intros H. rewrite firstn_length. lia. Qed.

Lemma record_hits r k thr mt :
  0 < thr -> 0 <= r_length r <= zlen (r_data r) ->
  exists st hs, fh_loop r k thr (r_length r) (firstnZ (r_length r) (r_data r)) 0 (mkfs false (-1) 0 0 mt) = Ok (st, hs)
                /\ record_hits_spec r k thr hs.
Proof.
  intros Hthr Hlen.
  destruct (fh_loop_spec r k thr (r_length r) Hthr (firstnZ (r_length r) (r_data r)) [] (mkfs false (-1) 0 0 mt))
    as (st & hs & Hrun & HP).
  - cbn [app]. symmetry. apply zlen_firstnZ; auto.
  - left. unfold InvOut, left_ok. cbn. auto.
  - reflexivity.
  - exists st, hs. split; [exact Hrun|].
    destruct HP as (P1 & P2 & P3 & P4). cbn [app] in *. unfold lo_of in P4. cbn in P4.
    unfold record_hits_spec. auto.
Qed.

Lemma fh_records_spec amp hon : forall rs k mt,
  Forall (rec_ok amp hon) rs ->
  exists hs, fh_records amp hon rs k mt = Ok hs /\ all_hits_spec amp hon rs k hs.
Proof.
  induction rs as [|r rs IH]; intros k mt HF.
  - exists []. split; reflexivity.
  - inversion HF as [|? ? (Hc & Hc2 & Hl & Ht) HF']; subst.
    cbn [fh_records].
    replace (r_ch r <? 0) with false by lia.
    replace (r_ch r >=? zlen amp) with false by lia.
    replace (r_ch r >=? zlen hon) with false by lia.
    replace (r_length r >? zlen (r_data r)) with false by lia.
    destruct (record_hits r k (threshold amp hon r) mt Ht Hl) as (st & h1 & Hrun & Hspec).
    rewrite Hrun.
    destruct (IH (k + 1) (f_mt st) HF') as (h2 & Hrun2 & Hspec2).
    rewrite Hrun2. exists (h1 ++ h2). split; [reflexivity|].
    cbn [all_hits_spec]. exists h1, h2. auto.
Qed.

Theorem find_hits_core_exactly_maximal_runs amp hon rs :
  Forall (rec_ok amp hon) rs ->
  exists hs, find_hits_core amp hon rs = Ok hs /\ all_hits_spec amp hon rs 0 hs.
Proof. intros H. apply fh_records_spec; auto. Qed.

(* scalar thresholds: find_hits broadcasts them over max(channel)+1 channels *)
Lemma ch_le_max rs r : In r rs -> r_ch r <= max_channel rs.
Proof.
  destruct rs as [|r0 rest]; [intros []|]. cbn [max_channel]. intros [->|Hin].
  - apply zmaxl_ge.
  - apply zmaxl_in. apply in_map. exact Hin.
Qed.

Lemma nth_repeat_lt' (v d : Z) : forall n c, (c < n)%nat -> nth c (repeat v n) d = v.
Proof.
  induction n as [|n IH]; intros c H; [lia|]. destruct c as [|c]; cbn [repeat nth]; [reflexivity|].
  apply IH. lia.
Qed.

Lemma nth_bcast v n c : 0 <= c < n -> nth (Z.to_nat c) (bcast v n) 0 = v.
Proof. intros H. unfold bcast. apply nth_repeat_lt'. lia. Qed.

Lemma zlen_bcast v n : 0 <= n -> zlen (bcast v n) = n.
Proof. intros H. unfold zlen, bcast. rewrite repeat_length. lia. Qed.

Lemma find_hits_scalar_unfold rs a h : rs <> [] ->
  find_hits rs (Scalar a) (Scalar h) =
  find_hits_core (bcast a (max_channel rs + 1)) (bcast h (max_channel rs + 1)) rs.
Proof. destruct rs; [congruence|reflexivity]. Qed.

Theorem find_hits_scalar_exactly_maximal_runs rs a h :
  0 < a ->
  Forall (fun r => 0 <= r_ch r /\ 0 <= r_length r <= zlen (r_data r)) rs ->
  let n := max_channel rs + 1 in
  exists hs, find_hits rs (Scalar a) (Scalar h) = Ok hs /\
             all_hits_spec (bcast a n) (bcast h n) rs 0 hs /\
             Forall (fun r => threshold (bcast a n) (bcast h n) r = Z.max (FR * a) (r_rms r * h)) rs.
Proof.
  intros Ha HF n.
  assert (Hthr : Forall (fun r => threshold (bcast a n) (bcast h n) r = Z.max (FR * a) (r_rms r * h)) rs).
  { apply Forall_forall. intros r Hin. rewrite Forall_forall in HF. destruct (HF r Hin) as (Hc & _).
    pose proof (ch_le_max rs r Hin). unfold threshold. rewrite !nth_bcast by (unfold n; lia). reflexivity. }
  assert (Hcase : rs = [] \/ exists r0, In r0 rs).
  { destruct rs as [|r0 ?]; [left; auto|right; exists r0; left; auto]. }
  destruct Hcase as [Hnil|(r0 & Hin0)].
  - exists []. subst rs. cbn. auto.
  - assert (Hne : rs <> []) by (intros E; rewrite E in Hin0; destruct Hin0).
    assert (Hn : 0 <= n).
    { unfold n. rewrite Forall_forall in HF. pose proof (ch_le_max rs r0 Hin0). destruct (HF r0 Hin0). lia. }
    destruct (find_hits_core_exactly_maximal_runs (bcast a n) (bcast h n) rs) as (hs & Hrun & Hspec).
    { apply Forall_forall. intros r Hin. rewrite Forall_forall in HF, Hthr.
      destruct (HF r Hin) as (Hc & Hl). pose proof (ch_le_max rs r Hin).
      unfold rec_ok. rewrite !zlen_bcast by auto. rewrite (Hthr r Hin).
      unfold FR. unfold n in *. repeat split; lia. }
    exists hs. split; [|split; auto].
    rewrite find_hits_scalar_unfold by auto. exact Hrun.
Qed.

Lemma find_hits_wrapper rs amp hon :
  rs <> [] ->
  let n := n_channels_of rs amp hon in
  find_hits rs amp hon = find_hits_core (targ_array amp n) (targ_array hon n) rs.
Proof. destruct rs; [congruence|]. intros _. destruct amp, hon; reflexivity. Qed.
