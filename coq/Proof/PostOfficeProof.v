(* Proofs about the single-thread PostOffice model (property C06, sequential machine).
   Route: a per-topic state invariant [tinv], a synchronisation predicate [sync] for live stages,
   a specification of one [pull] by induction on fuel (following the topological order), then the
   [drain] loop. *)
From SV Require Import Model.PostOffice Spec.PostOfficeSpec.

Local Open Scope Z_scope.

(* ------------------------------------------------------------------------------------------ *)
(** * get / upd / set_nth *)

Lemma set_nth_length {A} (l : list A) i x : length (set_nth l i x) = length l.
Proof. revert i; induction l as [|y l IH]; intros [|i]; cbn [set_nth length]; auto. Qed.

Lemma nth_set_nth_eq {A} (l : list A) i x d : (i < length l)%nat -> nth i (set_nth l i x) d = x.
Proof.
  revert i; induction l as [|y l IH]; intros [|i] H; cbn [set_nth length nth] in *; try lia; auto.
  apply IH; lia.
Qed.

Lemma nth_set_nth_neq {A} (l : list A) i j x d : i <> j -> nth j (set_nth l i x) d = nth j l d.
Proof.
  revert i j; induction l as [|y l IH]; intros [|i] [|j] H; cbn [set_nth nth]; auto; try congruence.
Qed.

Lemma upd_length st t f : length (upd st t f) = length st.
Proof. apply set_nth_length. Qed.

Lemma get_upd_eq st t f : (t < length st)%nat -> get (upd st t f) t = f (get st t).
Proof. intros H. unfold get at 1, upd. apply nth_set_nth_eq, H. Qed.

Lemma get_upd_neq st t t' f : t <> t' -> get (upd st t f) t' = get st t'.
Proof. intros H. unfold get, upd. apply nth_set_nth_neq, H. Qed.

(* ------------------------------------------------------------------------------------------ *)
(** * reader tables *)

Lemma lookup_set_eq rs r n : lookup_reader (set_reader rs r n) r = n.
Proof.
  induction rs as [|[r' n'] rs IH]; cbn [set_reader lookup_reader].
  - now rewrite Nat.eqb_refl.
  - destruct (Nat.eqb r r') eqn:E; cbn [lookup_reader]; [now rewrite Nat.eqb_refl | now rewrite E].
Qed.

Lemma lookup_set_neq rs r r' n : r <> r' -> lookup_reader (set_reader rs r n) r' = lookup_reader rs r'.
Proof.
  intros H. induction rs as [|[r0 n0] rs IH]; cbn [set_reader lookup_reader].
  - destruct (Nat.eqb r' r) eqn:E; [apply Nat.eqb_eq in E; congruence | reflexivity].
  - destruct (Nat.eqb r r0) eqn:E; cbn [lookup_reader].
    + apply Nat.eqb_eq in E; subst r0.
      destruct (Nat.eqb r' r) eqn:E'; [apply Nat.eqb_eq in E'; congruence | reflexivity].
    + now rewrite IH.
Qed.

Lemma keys_set rs r n : In r (map fst rs) -> map fst (set_reader rs r n) = map fst rs.
Proof.
  induction rs as [|[r' n'] rs IH]; cbn [set_reader map fst In]; [tauto|].
  intros H. destruct (Nat.eqb r r') eqn:E; cbn [map fst].
  - apply Nat.eqb_eq in E; now subst.
  - f_equal. apply IH. destruct H as [H|H]; [subst; now rewrite Nat.eqb_refl in E | exact H].
Qed.

Lemma set_reader_entries rs r n e : In e (set_reader rs r n) -> e = (r, n) \/ In e rs.
Proof.
  induction rs as [|[r' n'] rs IH]; cbn [set_reader In].
  - intros [H|[]]; auto.
  - destruct (Nat.eqb r r'); cbn [In]; intros [H|H]; auto. destruct (IH H); auto.
Qed.

Lemma set_reader_has rs r n : In (r, n) (set_reader rs r n).
Proof.
  induction rs as [|[r' n'] rs IH]; cbn [set_reader In]; auto.
  destruct (Nat.eqb r r'); cbn [In]; auto.
Qed.

Lemma lookup_in rs r : In r (map fst rs) -> In (r, lookup_reader rs r) rs.
Proof.
  induction rs as [|[r' n'] rs IH]; cbn [map fst In lookup_reader]; [tauto|].
  intros H. destruct (Nat.eqb r r') eqn:E.
  - apply Nat.eqb_eq in E; subst; auto.
  - right; apply IH. destruct H as [H|H]; [subst; now rewrite Nat.eqb_refl in E | exact H].
Qed.

Definition minc (rs : list (nat * Z)) : Z :=
  match rs with [] => -1 | (_, n0) :: rest => min_read rest n0 end.

Lemma min_read_le rest d : min_read rest d <= d /\ Forall (fun e => min_read rest d <= snd e) rest.
Proof.
  revert d; induction rest as [|[r n] rest IH]; intros d; cbn [min_read].
  - split; [lia | constructor].
  - destruct (IH (Z.min d n)) as [H1 H2]. split; [lia|]. constructor; [cbn [snd]; lia | exact H2].
Qed.

Lemma min_read_in rest d : min_read rest d = d \/ In (min_read rest d) (map snd rest).
Proof.
  revert d; induction rest as [|[r n] rest IH]; intros d; cbn [min_read map snd In]; auto.
  destruct (IH (Z.min d n)) as [H|H]; [|auto].
  rewrite H. destruct (Z.min_spec d n) as [[_ ->]|[_ ->]]; auto.
Qed.

Lemma minc_lower rs : Forall (fun e => minc rs <= snd e) rs.
Proof.
  destruct rs as [|[r n] rest]; cbn [minc]; [constructor|].
  destruct (min_read_le rest n) as [H1 H2]. constructor; [exact H1 | exact H2].
Qed.

Lemma minc_in rs : rs <> [] -> In (minc rs) (map snd rs).
Proof.
  destruct rs as [|[r n] rest]; [congruence|]. intros _. cbn [minc map snd In].
  destruct (min_read_in rest n); auto.
Qed.

Lemma minc_le_lookup rs r : In r (map fst rs) -> minc rs <= lookup_reader rs r.
Proof.
  intros H. apply lookup_in in H. pose proof (minc_lower rs) as F.
  rewrite Forall_forall in F. apply (F _ H).
Qed.

(* advancing one reader never lowers the minimum *)
Lemma minc_set_mono rs r n : In r (map fst rs) -> lookup_reader rs r <= n -> minc rs <= minc (set_reader rs r n).
Proof.
  intros Hk Hn.
  assert (Hne : set_reader rs r n <> []) by (intros E; pose proof (set_reader_has rs r n) as X; rewrite E in X; destruct X).
  pose proof (minc_in _ Hne) as Hin. apply in_map_iff in Hin as [e [He Hin]].
  apply set_reader_entries in Hin as [->|Hin].
  - cbn [snd] in He. rewrite <- He. pose proof (minc_le_lookup rs r Hk). lia.
  - pose proof (minc_lower rs) as F. rewrite Forall_forall in F. specialize (F _ Hin). lia.
Qed.

(* ------------------------------------------------------------------------------------------ *)
(** * saved mail as a filtered numbering of the produced prefix *)

Definition allmsgs (w : list Z) (p : nat) : list (Z * Z) :=
  map (fun i => (Z.of_nat i, nth i w 0)) (seq 0 p).

Lemma allmsgs_S w p : allmsgs w (S p) = allmsgs w p ++ [(Z.of_nat p, nth p w 0)].
Proof. unfold allmsgs. rewrite seq_S, map_app. reflexivity. Qed.

Definition savedspec (w : list Z) (p : nat) (lo : Z) : list (Z * Z) :=
  filter (fun km => fst km >? lo) (allmsgs w p).

Lemma savedspec_S w p lo : lo < Z.of_nat p ->
  savedspec w (S p) lo = savedspec w p lo ++ [(Z.of_nat p, nth p w 0)].
Proof.
  intros H. unfold savedspec. rewrite allmsgs_S, filter_app. cbn [filter fst].
  destruct (Z.of_nat p >? lo) eqn:E; [reflexivity | lia].
Qed.

Lemma filter_filter_impl {A} (f h : A -> bool) l :
  (forall x, f x = true -> h x = true) -> filter f (filter h l) = filter f l.
Proof.
  intros H. induction l as [|x l IH]; cbn [filter]; auto.
  destruct (h x) eqn:Eh; cbn [filter]; destruct (f x) eqn:Ef; auto; try congruence.
  apply H in Ef; congruence.
Qed.

Lemma savedspec_filter w p lo lo' : lo <= lo' ->
  filter (fun km => fst km >? lo') (savedspec w p lo) = savedspec w p lo'.
Proof. intros H. unfold savedspec. apply filter_filter_impl. intros x Hx. lia. Qed.

Lemma find_saved_app l1 l2 n :
  find_saved (l1 ++ l2) n = match find_saved l1 n with Some m => Some m | None => find_saved l2 n end.
Proof.
  induction l1 as [|[k m] l1 IH]; cbn [app find_saved]; auto. destruct (k =? n); auto.
Qed.

Lemma find_saved_spec w lo n p : lo < n -> 0 <= n ->
  find_saved (savedspec w p lo) n = if n <? Z.of_nat p then Some (nth (Z.to_nat n) w 0) else None.
Proof.
  intros H H0. induction p as [|p IH].
  - cbn. destruct (n <? 0) eqn:E; [lia | reflexivity].
  - destruct (Z_lt_le_dec lo (Z.of_nat p)) as [Hl|Hl].
    + rewrite savedspec_S by exact Hl. rewrite find_saved_app, IH. cbn [find_saved].
      destruct (n <? Z.of_nat p) eqn:E1; destruct (n <? Z.of_nat (S p)) eqn:E2; try lia; auto.
      * destruct (Z.of_nat p =? n) eqn:E3; [|lia]. f_equal. f_equal.
        assert (n = Z.of_nat p) by lia. subst n. now rewrite Nat2Z.id.
      * destruct (Z.of_nat p =? n) eqn:E3; [lia | reflexivity].
    + unfold savedspec in *. rewrite allmsgs_S, filter_app. cbn [filter fst].
      destruct (Z.of_nat p >? lo) eqn:E; [lia|]. rewrite app_nil_r, IH.
      destruct (n <? Z.of_nat p) eqn:E1; destruct (n <? Z.of_nat (S p)) eqn:E2; try lia; auto.
Qed.

(* ------------------------------------------------------------------------------------------ *)
(** * zipn / whole *)

Lemma zipn_length_le cols fuel c : In c cols -> (length (zipn cols fuel) <= length c)%nat.
Proof.
  revert cols c; induction fuel as [|f IH]; intros cols c Hin; cbn [zipn length]; [lia|].
  destruct (existsb _ cols) eqn:E; cbn [length]; [lia|].
  assert (Hc : c <> []).
  { intros ->. assert (X : existsb (fun c : list Z => match c with [] => true | _ => false end) cols = true)
      by (apply existsb_exists; exists []; auto). congruence. }
  destruct c as [|x c]; [congruence|]. cbn [length].
  specialize (IH (map (@tl Z) cols) c).
  apply le_n_S, IH. apply in_map_iff. exists (x :: c); auto.
Qed.

Lemma zipn_nth cols : forall p fuel d,
  (forall c, In c cols -> (p < length c)%nat) -> (p < fuel)%nat ->
  (p < length (zipn cols fuel))%nat /\ nth p (zipn cols fuel) d = map (fun c => nth p c 0) cols.
Proof.
  intros p; revert cols; induction p as [|p IH]; intros cols fuel d Hall Hf;
    (destruct fuel as [|f]; [lia|]); cbn [zipn].
  - assert (E : existsb (fun c : list Z => match c with [] => true | _ => false end) cols = false).
    { destruct (existsb _ cols) eqn:E; auto. apply existsb_exists in E as [c [Hin Hc]].
      specialize (Hall c Hin). destruct c; cbn in *; [lia | congruence]. }
    rewrite E. cbn [length nth]. split; [lia|]. apply map_ext. intros [|x c]; reflexivity.
  - assert (E : existsb (fun c : list Z => match c with [] => true | _ => false end) cols = false).
    { destruct (existsb _ cols) eqn:E; auto. apply existsb_exists in E as [c [Hin Hc]].
      specialize (Hall c Hin). destruct c; cbn in *; [lia | congruence]. }
    rewrite E. cbn [length nth].
    destruct (IH (map (@tl Z) cols) f d) as [H1 H2].
    { intros c' Hin. apply in_map_iff in Hin as [c [<- Hin]]. specialize (Hall c Hin).
      destruct c; cbn [tl length] in *; lia. }
    { lia. }
    split; [lia|]. rewrite H2, map_map. apply map_ext. intros [|x c]; cbn [tl nth]; auto.
    destruct p; reflexivity.
Qed.

Lemma fold_max_ge (l : list nat) x : In x l -> (x <= fold_right Nat.max 0%nat l)%nat.
Proof.
  induction l as [|y l IH]; cbn [In fold_right]; [tauto|]. intros [->|H]; [lia|]. specialize (IH H). lia.
Qed.

(* ------------------------------------------------------------------------------------------ *)
(** * one unfolding of [pull] with the inner [gather] loop made a top-level function *)

Fixpoint gather (pl : state -> nat -> state * outcome) (ds : list nat) (st : state) (acc : list Z)
  : state * outcome * list Z :=
  match ds with
  | [] => (st, Got 0, acc)
  | d :: rest =>
      match pl st d with
      | (st', Got m) => gather pl rest st' (acc ++ [m])
      | (st', o) => (st', o, acc)
      end
  end.

Section Graph.
  Variable g : list node.
  Variable comb : nat -> list Z -> Z.
  Variable fault : option (nat * nat).

  (* next(self._producers[topic]) *)
  Definition producer_next (pl : state -> nat -> state * outcome) (st : state) (topic : nat) : state * outcome :=
    let ts := get st topic in
    match nth_error g topic with
    | None => (st, Raise)
    | Some (Src msgs) =>
        if faulty fault topic (ppos ts) then (upd st topic (fun ts => set_prod ts (ppos ts) true), Raise)
        else match nth_error msgs (ppos ts) with
             | Some m => (upd st topic (fun ts => set_prod ts (S (ppos ts)) false), Got m)
             | None => (upd st topic (fun ts => set_prod ts (ppos ts) true), Stop)
             end
    | Some (Stage deps) =>
        match gather pl deps st [] with
        | (st', Got _, inputs) =>
            let ts' := get st' topic in
            if faulty fault topic (ppos ts') then (upd st' topic (fun ts => set_prod ts (ppos ts) true), Raise)
            else (upd st' topic (fun ts => set_prod ts (S (ppos ts)) false), Got (comb topic inputs))
        | (st', Stop, _) => (upd st' topic (fun ts => set_prod ts (ppos ts) true), Stop)
        | (st', o, _) => (upd st' topic (fun ts => set_prod ts (ppos ts) true), o)
        end
    end.

  Definition pull_body (pl : state -> nat -> state * outcome) (st : state) (topic reader : nat) : state * outcome :=
    let ts := get st topic in
    let n := lookup_reader (readers ts) reader + 1 in
    if exhausted ts && (n >? last_prod ts) then (upd st topic (fun ts => mark_done ts reader), Stop)
    else
      match find_saved (saved ts) n with
      | Some m => (upd st topic (fun ts => ack_reader ts reader n), Got m)
      | None =>
          let '(st1, r) := if pdead ts then (st, Stop) else producer_next pl st topic in
          match r with
          | Got m =>
              let st2 := upd st1 topic (fun ts => ack_produced ts m) in
              (upd st2 topic (fun ts => ack_reader ts reader n), Got m)
          | Stop =>
              let st2 := upd st1 topic ack_exhausted in
              (upd st2 topic (fun ts => mark_done ts reader), Stop)
          | o => (st1, o)
          end
      end.

  Lemma pull_S f st topic reader :
    pull g comb fault (S f) st topic reader
    = pull_body (fun st d => pull g comb fault f st d topic) st topic reader.
  Proof.
    unfold pull_body, producer_next. cbn [pull].
    destruct (exhausted (get st topic) && _); [reflexivity|].
    destruct (find_saved _ _); [reflexivity|].
    destruct (pdead (get st topic)); [reflexivity|].
    destruct (nth_error g topic) as [[msgs|deps]|]; try reflexivity.
    match goal with
    | |- (let '(st1, r) := match ?G deps st [] with _ => _ end in _) = _ =>
        assert (HG : forall ds s acc, G ds s acc = gather (fun st d => pull g comb fault f st d topic) ds s acc)
    end.
    { induction ds as [|d ds IH]; intros s acc; cbn [gather]; [reflexivity|].
      destruct (pull g comb fault f s d topic) as [s' [m| | |]]; auto. }
    rewrite HG. reflexivity.
  Qed.

  (* ---------------------------------------------------------------------------------------- *)
  (** ** the whole-run sequences *)
  Hypothesis Hwf : wf_graph g.
  Hypothesis Hnd : nodup_deps g.

  Notation W := (whole_of g comb).

  Lemma whole_fuel : forall f1 f2 t, (t < f1)%nat -> (t < f2)%nat -> whole g comb f1 t = whole g comb f2 t.
  Proof.
    induction f1 as [|f1 IH]; intros f2 t H1 H2; [lia|]. destruct f2 as [|f2]; [lia|].
    cbn [whole]. destruct (nth_error g t) as [[msgs|deps]|] eqn:E; auto.
    destruct (Hwf _ _ E) as [_ Hlt].
    assert (X : map (whole g comb f1) deps = map (whole g comb f2) deps).
    { apply map_ext_in. intros d Hd. rewrite Forall_forall in Hlt. specialize (Hlt d Hd). apply IH; lia. }
    destruct deps as [|d0 deps']; auto. rewrite X. reflexivity.
  Qed.

  Lemma W_src t msgs : nth_error g t = Some (Src msgs) -> W t = msgs.
  Proof. intros E. unfold whole_of. cbn [whole]. now rewrite E. Qed.

  Lemma W_stage t deps : nth_error g t = Some (Stage deps) ->
    W t = map (comb t) (zipn (map W deps) (fold_right Nat.max 0%nat (map (@length Z) (map W deps)))).
  Proof.
    intros E. unfold whole_of at 1. cbn [whole]. rewrite E.
    destruct (Hwf _ _ E) as [Hne Hlt].
    assert (Ht : (t < length g)%nat) by (apply nth_error_Some; congruence).
    assert (X : map (whole g comb (length g)) deps = map W deps).
    { apply map_ext_in. intros d Hd. rewrite Forall_forall in Hlt. specialize (Hlt d Hd).
      unfold whole_of. apply whole_fuel; lia. }
    destruct deps as [|d0 deps']; [congruence|]. rewrite X. reflexivity.
  Qed.

  Lemma W_stage_len t deps d : nth_error g t = Some (Stage deps) -> In d deps ->
    (length (W t) <= length (W d))%nat.
  Proof.
    intros E Hd. rewrite (W_stage _ _ E), map_length. apply zipn_length_le. now apply in_map.
  Qed.

  Lemma W_stage_nth t deps p : nth_error g t = Some (Stage deps) ->
    (forall d, In d deps -> (p < length (W d))%nat) ->
    (p < length (W t))%nat /\ nth p (W t) 0 = comb t (map (fun d => nth p (W d) 0) deps).
  Proof.
    intros E Hall. rewrite (W_stage _ _ E), map_length.
    destruct (Hwf _ _ E) as [Hne _].
    destruct (zipn_nth (map W deps) p (fold_right Nat.max 0%nat (map (@length Z) (map W deps))) []) as [H1 H2].
    - intros c Hc. apply in_map_iff in Hc as [d [<- Hd]]. auto.
    - destruct deps as [|d0 deps']; [congruence|].
      assert (X : (length (W d0) <= fold_right Nat.max 0%nat (map (@length Z) (map W (d0 :: deps'))))%nat)
        by (apply fold_max_ge; cbn [map In]; auto).
      specialize (Hall d0 (or_introl eq_refl)). lia.
    - split; [exact H1|].
      rewrite (nth_indep _ 0 (comb t [])) by (now rewrite map_length).
      rewrite map_nth, H2, map_map. reflexivity.
  Qed.

  (* ---------------------------------------------------------------------------------------- *)
  (** ** the state invariant *)
  Variable target : nat.
  Variable spy0 : nat -> bool.       (* where the saver spies are *)

  (* the registered reader names of topic t: its consumer stages, and t itself for FINAL on the target *)
  Definition rkeys (t : nat) : list nat := map fst (readers (init_topic g t target false)).
  Definition cursor (st : state) (t r : nat) : Z := lookup_reader (readers (get st t)) r.

  (* holds in every reachable state, also after a failure *)
  Record winv (t : nat) (ts : tstate) : Prop := {
    wi_lp : last_prod ts = Z.of_nat (ppos ts) - 1;
    wi_pos : (ppos ts <= length (W t))%nat;
    wi_spy : has_spy ts = spy0 t;
    wi_log : spy_log ts = if has_spy ts then firstn (ppos ts) (W t) else [];
    wi_closed : spy_closed ts = if has_spy ts && exhausted ts then 1%nat else 0%nat }.

  (* holds as long as nothing has raised *)
  Record tinv (t : nat) (ts : tstate) : Prop := {
    ti_w : winv t ts;
    ti_keys : map fst (readers ts) = rkeys t;
    ti_cur : Forall (fun e => -1 <= snd e <= last_prod ts) (readers ts);
    ti_saved : saved ts = savedspec (W t) (ppos ts) (minc (readers ts));
    ti_dead : pdead ts = exhausted ts;
    ti_exh : exhausted ts = true -> ppos ts = length (W t);
    (* no failure was injected at any position the producer got past *)
    ti_nofault : forall q, (q < ppos ts)%nat -> faulty fault t q = false;
    ti_srcend : exhausted ts = true -> forall msgs, nth_error g t = Some (Src msgs) -> faulty fault t (ppos ts) = false }.

  Definition Inv (st : state) : Prop :=
    length st = length g /\ forall t, (t < length g)%nat -> tinv t (get st t).
  Definition alive (st : state) : Prop := forall t, (t < length g)%nat -> exhausted (get st t) = false.
  (* a live stage has read exactly as many messages from each dependency as it has produced *)
  Definition sync (st : state) (s : nat) : Prop :=
    forall deps d, nth_error g s = Some (Stage deps) -> In d deps -> cursor st d s = last_prod (get st s).
  Definition RaisePost (st : state) : Prop :=
    length st = length g /\
    (forall t, (t < length g)%nat -> winv t (get st t) /\ exhausted (get st t) = false) /\
    fired fault st.

  Lemma firstn_S_nth (w : list Z) p : (p < length w)%nat -> firstn (S p) w = firstn p w ++ [nth p w 0].
  Proof.
    revert p; induction w as [|x w IH]; intros p H; cbn [length] in H; [lia|].
    destruct p as [|p]; [reflexivity|]. cbn [firstn nth app]. f_equal. apply IH. lia.
  Qed.

  Lemma everyone_minc rs r n :
    match set_reader rs r n with [] => n | (_, n0) :: rest => min_read rest n0 end = minc (set_reader rs r n).
  Proof.
    pose proof (set_reader_has rs r n) as X. destruct (set_reader rs r n) as [|[r0 n0] rest]; [destruct X | reflexivity].
  Qed.

  Lemma tinv_cursor t ts r : tinv t ts -> In r (rkeys t) ->
    -1 <= lookup_reader (readers ts) r <= last_prod ts /\ minc (readers ts) <= lookup_reader (readers ts) r.
  Proof.
    intros Hi Hr. rewrite <- (ti_keys _ _ Hi) in Hr. split; [|now apply minc_le_lookup].
    pose proof (ti_cur _ _ Hi) as F. rewrite Forall_forall in F. apply (F _ (lookup_in _ _ Hr)).
  Qed.

  (* a reader takes a message: _ack_reader_recieved *)
  Lemma tinv_ack_reader t ts r : tinv t ts -> In r (rkeys t) ->
    lookup_reader (readers ts) r + 1 <= last_prod ts ->
    tinv t (ack_reader ts r (lookup_reader (readers ts) r + 1)).
  Proof.
    intros Hi Hr Hn. destruct (tinv_cursor _ _ _ Hi Hr) as [Hc Hm].
    pose proof Hr as Hr'. rewrite <- (ti_keys _ _ Hi) in Hr'.
    destruct Hi as [[H1 H2 H3 H4 H5] H6 H7 H8 H9 H10 H11 H12].
    constructor; [constructor|..]; cbn [ack_reader last_prod ppos has_spy spy_log spy_closed exhausted readers saved pdead]; auto.
    - rewrite keys_set; auto.
    - apply Forall_forall. intros e He. apply set_reader_entries in He as [->|He].
      + cbn [snd]. lia.
      + rewrite Forall_forall in H7. auto.
    - rewrite everyone_minc, H8. apply savedspec_filter. apply minc_set_mono; auto. lia.
  Qed.

  (* the producer emits its next message: set_prod; _ack_msg_produced *)
  Lemma tinv_produce t ts r : tinv t ts -> In r (rkeys t) -> exhausted ts = false ->
    (ppos ts < length (W t))%nat -> faulty fault t (ppos ts) = false ->
    tinv t (ack_produced (set_prod ts (S (ppos ts)) false) (nth (ppos ts) (W t) 0)).
  Proof.
    intros Hi Hr He Hp Hnf. destruct (tinv_cursor _ _ _ Hi Hr) as [Hc Hm].
    pose proof Hr as Hr'. rewrite <- (ti_keys _ _ Hi) in Hr'.
    destruct Hi as [[H1 H2 H3 H4 H5] H6 H7 H8 H9 H10 H11 H12].
    constructor; [constructor|..];
      cbn [ack_produced set_prod last_prod ppos has_spy spy_log spy_closed exhausted readers saved pdead]; auto.
    - lia.
    - rewrite H4. destruct (has_spy ts); [|reflexivity]. now rewrite firstn_S_nth.
    - eapply Forall_impl; [|exact H7]. cbn beta. intros e He'. lia.
    - destruct (readers ts) as [|e rs] eqn:Ers; [destruct Hr'|]. rewrite <- Ers in *.
      rewrite H8, savedspec_S by lia. repeat f_equal. lia.
    - congruence.
    - intros q Hq. destruct (Nat.eq_dec q (ppos ts)) as [->|Hne]; [exact Hnf | apply H11; lia].
    - congruence.
  Qed.

  (* the producer ends: set_prod dead; _ack_topic_exhausted; the reader is done *)
  Lemma tinv_stop t ts r : tinv t ts -> exhausted ts = false -> ppos ts = length (W t) ->
    (forall msgs, nth_error g t = Some (Src msgs) -> faulty fault t (ppos ts) = false) ->
    tinv t (mark_done (ack_exhausted (set_prod ts (ppos ts) true)) r).
  Proof.
    intros Hi He Hp Hse. destruct Hi as [[H1 H2 H3 H4 H5] H6 H7 H8 H9 H10 H11 H12].
    constructor; [constructor|..];
      cbn [mark_done ack_exhausted set_prod last_prod ppos has_spy spy_log spy_closed exhausted readers saved pdead]; auto.
    rewrite H5, He. destruct (has_spy ts); reflexivity.
  Qed.

  Lemma winv_dead t ts : winv t ts -> winv t (set_prod ts (ppos ts) true).
  Proof. intros [H1 H2 H3 H4 H5]. constructor; cbn [set_prod last_prod ppos has_spy spy_log spy_closed exhausted]; auto. Qed.

  Lemma Inv_upd st t f : Inv st -> (t < length g)%nat -> tinv t (f (get st t)) -> Inv (upd st t f).
  Proof.
    intros [Hl Hi] Ht Hf. split; [now rewrite upd_length|]. intros t' Ht'.
    destruct (Nat.eq_dec t t') as [<-|Hne]; [rewrite get_upd_eq by lia; exact Hf | rewrite get_upd_neq by exact Hne; auto].
  Qed.

  Lemma cursor_upd_neq st t t' f r : t <> t' -> cursor (upd st t f) t' r = cursor st t' r.
  Proof. intros H. unfold cursor. now rewrite get_upd_neq. Qed.

  Lemma dep_lt s deps d : nth_error g s = Some (Stage deps) -> In d deps -> (d < s)%nat.
  Proof. intros E Hd. destruct (Hwf _ _ E) as [_ F]. rewrite Forall_forall in F. auto. Qed.

  Lemma sync_upd_above st s t f : (s < t)%nat -> sync st s -> sync (upd st t f) s.
  Proof.
    intros Hlt Hs deps d E Hd. pose proof (dep_lt _ _ _ E Hd).
    rewrite cursor_upd_neq by lia. rewrite get_upd_neq by lia. eapply Hs; eauto.
  Qed.

  Lemma sync_upd_self st t f : (t < length st)%nat -> last_prod (f (get st t)) = last_prod (get st t) ->
    sync st t -> sync (upd st t f) t.
  Proof.
    intros Hl Hlp Hs deps d E Hd. pose proof (dep_lt _ _ _ E Hd).
    rewrite cursor_upd_neq by lia. rewrite get_upd_eq by lia. rewrite Hlp. eapply Hs; eauto.
  Qed.

  Lemma sync_frame st st' s : get st' s = get st s -> (forall d, (d < s)%nat -> cursor st' d s = cursor st d s) ->
    sync st s -> sync st' s.
  Proof. intros Hg Hc Hs deps d E Hd. rewrite Hc, Hg by (eapply dep_lt; eauto). eapply Hs; eauto. Qed.

  (* ---------------------------------------------------------------------------------------- *)
  (** ** registered readers *)

  Lemma in_combine_seq {A} (l : list A) : forall start i x,
    In (i, x) (combine (seq start (length l)) l) <-> (start <= i)%nat /\ nth_error l (i - start) = Some x.
  Proof.
    induction l as [|y l IH]; intros start i x; cbn [length seq combine In].
    - split; [tauto|]. intros [_ H]. destruct (i - start)%nat; discriminate.
    - rewrite IH. split.
      + intros [H|[H1 H2]].
        * inversion H; subst. split; [lia|]. rewrite Nat.sub_diag. reflexivity.
        * split; [lia|]. replace (i - start)%nat with (S (i - S start)) by lia. exact H2.
      + intros [H1 H2]. destruct (Nat.eq_dec start i) as [<-|Hne].
        * left. rewrite Nat.sub_diag in H2. cbn in H2. congruence.
        * right. split; [lia|]. replace (i - start)%nat with (S (i - S start)) in H2 by lia. exact H2.
  Qed.

  Lemma rkeys_dep T deps d : nth_error g T = Some (Stage deps) -> In d deps -> In T (rkeys d).
  Proof.
    intros E Hd. unfold rkeys, init_topic. cbn [readers]. rewrite map_app. apply in_or_app. left.
    apply in_map_iff. exists (T, -1). split; [reflexivity|]. apply in_flat_map.
    exists (T, Stage deps). split.
    - apply in_combine_seq. split; [lia|]. now rewrite Nat.sub_0_r.
    - assert (X : existsb (Nat.eqb d) deps = true) by (apply existsb_exists; exists d; split; [exact Hd | apply Nat.eqb_refl]).
      rewrite X. left; reflexivity.
  Qed.

  Lemma rkeys_target : In target (rkeys target).
  Proof.
    unfold rkeys, init_topic. cbn [readers]. rewrite map_app. apply in_or_app. right.
    rewrite Nat.eqb_refl. left; reflexivity.
  Qed.

  Lemma flat_map_nil {A B} (f : A -> list B) l : (forall x, In x l -> f x = []) -> flat_map f l = [].
  Proof. induction l as [|x l IH]; cbn [flat_map]; intros H; auto.
    rewrite (H x (or_introl eq_refl)), IH; auto. intros y Hy. apply H. right; exact Hy.
  Qed.

  Lemma rkeys_only : no_consumers g target -> rkeys target = [target].
  Proof.
    intros Hn. unfold rkeys, init_topic. cbn [readers]. rewrite Nat.eqb_refl, flat_map_nil; [reflexivity|].
    intros [i [msgs|deps]] Hin; [reflexivity|]. apply in_combine_seq in Hin as [_ Hin]. rewrite Nat.sub_0_r in Hin.
    destruct (existsb (Nat.eqb target) deps) eqn:X; [|reflexivity].
    apply existsb_exists in X as [d [Hd Hx]]. apply Nat.eqb_eq in Hx; subst d. destruct (Hn _ _ Hin Hd).
  Qed.

  Lemma init_readers_m1 t spy : Forall (fun e : nat * Z => snd e = -1) (readers (init_topic g t target spy)).
  Proof.
    unfold init_topic. cbn [readers]. apply Forall_app. split.
    - apply Forall_forall. intros e He. apply in_flat_map in He as [[i nd] [_ He]].
      destruct nd as [|deps]; [destruct He|]. destruct (existsb _ deps); [|destruct He].
      destruct He as [<-|[]]; reflexivity.
    - destruct (Nat.eqb t target); repeat constructor.
  Qed.

  Lemma lookup_all_m1 rs r : Forall (fun e : nat * Z => snd e = -1) rs -> lookup_reader rs r = -1.
  Proof.
    induction 1 as [|[r' n] rs Hn _ IH]; cbn [lookup_reader]; auto. destruct (Nat.eqb r r'); auto.
  Qed.

  (* ---------------------------------------------------------------------------------------- *)
  (** ** specification of one [pull] *)

  Definition pull_pre (st : state) (topic reader : nat) : Prop :=
    (topic < length g)%nat /\ In reader (rkeys topic) /\ Inv st /\ alive st /\
    (forall s, (s <= topic)%nat -> sync st s).

  (* what a pull on [topic] for [reader] leaves alone: later topics, and the cursors of later readers *)
  Definition frame (topic reader : nat) (st st' : state) : Prop :=
    (forall t', (topic < t')%nat -> get st' t' = get st t') /\
    (forall t' s, (topic < s)%nat -> (t' <> topic \/ s <> reader) -> cursor st' t' s = cursor st t' s).

  (* an exhausted stage was stopped by an exhausted dependency *)
  Definition exh_closed (st : state) : Prop :=
    forall T deps, nth_error g T = Some (Stage deps) -> exhausted (get st T) = true ->
      exists d, In d deps /\ exhausted (get st d) = true.

  Lemma alive_exh_closed st : alive st -> exh_closed st.
  Proof.
    intros Ha T deps E He. assert (HT : (T < length g)%nat) by (apply nth_error_Some; congruence).
    rewrite (Ha T HT) in He. discriminate.
  Qed.

  Definition pull_post (st : state) (topic reader : nat) (res : state * outcome) : Prop :=
    let c := cursor st topic reader in
    match res with
    | (st', Got m) =>
        Inv st' /\ alive st' /\ (forall s, (s <= topic)%nat -> sync st' s) /\ frame topic reader st st' /\
        cursor st' topic reader = c + 1 /\ (Z.to_nat (c + 1) < length (W topic))%nat /\
        m = nth (Z.to_nat (c + 1)) (W topic) 0
    | (st', Stop) =>
        Inv st' /\ (forall t', (topic < t')%nat -> get st' t' = get st t') /\
        cursor st' topic reader = c /\ Z.to_nat (c + 1) = length (W topic) /\ exhausted (get st' topic) = true /\
        exh_closed st'
    | (st', Raise) => RaisePost st'
    | (st', OutOfFuel) => False
    end.

  Definition pull_ok (f : nat) : Prop :=
    forall st topic reader, (topic < f)%nat -> pull_pre st topic reader ->
      pull_post st topic reader (pull g comb fault f st topic reader).

  Definition gather_post (T : nat) (ds : list nat) (st : state) (acc : list Z) (res : state * outcome * list Z) : Prop :=
    let p := ppos (get st T) in
    match res with
    | (st', Got _, inputs) =>
        Inv st' /\ alive st' /\ (forall s, (s < T)%nat -> sync st' s) /\
        (forall t', (T <= t')%nat -> get st' t' = get st t') /\
        (forall t' s, (T < s)%nat -> cursor st' t' s = cursor st t' s) /\
        (forall t', ~ In t' ds -> cursor st' t' T = cursor st t' T) /\
        (forall d, In d ds -> cursor st' d T = last_prod (get st T) + 1 /\ (p < length (W d))%nat) /\
        inputs = acc ++ map (fun d => nth p (W d) 0) ds
    | (st', Stop, _) =>
        Inv st' /\ (forall t', (T <= t')%nat -> get st' t' = get st t') /\
        exh_closed st' /\ exists d, In d ds /\ p = length (W d) /\ exhausted (get st' d) = true
    | (st', Raise, _) => RaisePost st'
    | (_, OutOfFuel, _) => False
    end.

  Lemma gather_spec f T deps : pull_ok f -> (T <= f)%nat -> nth_error g T = Some (Stage deps) ->
    forall ds st acc, incl ds deps -> NoDup ds ->
      Inv st -> alive st -> (forall s, (s < T)%nat -> sync st s) ->
      (forall d, In d ds -> cursor st d T = last_prod (get st T)) ->
      gather_post T ds st acc (gather (fun st d => pull g comb fault f st d T) ds st acc).
  Proof.
    intros IH HT E. assert (HTl : (T < length g)%nat) by (apply nth_error_Some; congruence).
    induction ds as [|d rest IHds]; intros st acc Hincl Hnd' HI Ha Hs Hc; cbn [gather]; unfold gather_post.
    - split; [exact HI|]. split; [exact Ha|]. split; [exact Hs|].
      do 3 (split; [intros; reflexivity|]). split; [intros d []|]. cbn [map]. now rewrite app_nil_r.
    - assert (Hd : In d deps) by (apply Hincl; left; reflexivity).
      pose proof (dep_lt _ _ _ E Hd) as Hlt.
      assert (Hpre : pull_pre st d T).
      { split; [lia|]. split; [eapply rkeys_dep; eauto|]. split; [exact HI|]. split; [exact Ha|].
        intros s Hs'. apply Hs. lia. }
      pose proof (IH st d T ltac:(lia) Hpre) as Hpost.
      assert (Hp : Z.to_nat (cursor st d T + 1) = ppos (get st T)).
      { rewrite (Hc d (or_introl eq_refl)). rewrite (wi_lp _ _ (ti_w _ _ (proj2 HI T HTl))). lia. }
      destruct (pull g comb fault f st d T) as [st1 [m| | |]]; unfold pull_post in Hpost.
      + destruct Hpost as (HI1 & Ha1 & Hs1 & [F1 F2] & Hc1 & Hidx & Hm). rewrite Hp in *.
        apply NoDup_cons_iff in Hnd' as [Hnotin Hnd''].
        assert (HgT : get st1 T = get st T) by (apply F1; lia).
        specialize (IHds st1 (acc ++ [m])).
        assert (X : gather_post T rest st1 (acc ++ [m]) (gather (fun st d => pull g comb fault f st d T) rest st1 (acc ++ [m]))).
        { apply IHds; auto.
          - intros x Hx. apply Hincl. right; exact Hx.
          - intros s Hs'. destruct (le_lt_dec s d) as [Hle|Hgt]; [auto|].
            apply (sync_frame st); [apply F1; lia | intros d' _; apply F2; [lia | right; lia] | apply Hs; lia].
          - intros d' Hd'. rewrite HgT, F2; [apply Hc; right; exact Hd' | lia | left; intros ->; contradiction]. }
        clear IHds. unfold gather_post in X. rewrite HgT in X.
        destruct (gather _ rest st1 (acc ++ [m])) as [[st' o] inputs]. destruct o as [m'| | |]; auto.
        * destruct X as (HI' & Ha' & Hs' & G1 & G2 & G3 & G4 & Hin).
          split; [exact HI'|]. split; [exact Ha'|]. split; [exact Hs'|].
          split; [|split; [|split; [|split]]].
          -- intros t' Ht'. rewrite G1 by lia. apply F1; lia.
          -- intros t' s Hs''. rewrite G2 by lia. apply F2; [lia | right; lia].
          -- intros t' Hn. rewrite G3 by (intros X; apply Hn; right; exact X).
             apply F2; [lia | left; intros ->; apply Hn; left; reflexivity].
          -- intros d0 [<-|H]; [|apply G4, H]. split; [|exact Hidx].
             rewrite G3 by exact Hnotin. rewrite Hc1.
             rewrite (Hc d (or_introl eq_refl)). reflexivity.
          -- rewrite Hin, <- app_assoc. cbn [map app]. now rewrite Hm.
        * destruct X as (HI' & G1 & Hcl & d' & Hd' & Hlen). split; [exact HI'|]. split; [|split; [exact Hcl|]].
          -- intros t' Ht'. rewrite G1 by lia. apply F1; lia.
          -- exists d'. split; [right; exact Hd' | exact Hlen].
      + destruct Hpost as (HI1 & F1 & Hc1 & Hlen & Hex1 & Hcl). split; [exact HI1|]. split; [|split; [exact Hcl|]].
        * intros t' Ht'. apply F1; lia.
        * exists d. split; [left; reflexivity | split; [lia | exact Hex1]].
      + exact Hpost.
      + exact Hpost.
  Qed.

  Lemma get_upd3 st t f1 f2 f3 : (t < length st)%nat ->
    let st'' := upd (upd (upd st t f1) t f2) t f3 in
    get st'' t = f3 (f2 (f1 (get st t))) /\ (forall t', t <> t' -> get st'' t' = get st t') /\ length st'' = length st.
  Proof.
    intros H. cbn zeta. split; [|split].
    - rewrite !get_upd_eq; rewrite ?upd_length; auto.
    - intros t' Hne. now rewrite !get_upd_neq.
    - now rewrite !upd_length.
  Qed.

  Lemma raise_dead st T : length st = length g -> (T < length g)%nat ->
    (forall t, (t < length g)%nat -> winv t (get st t) /\ exhausted (get st t) = false) ->
    (fired fault st \/ faulty fault T (ppos (get st T)) = true) ->
    RaisePost (upd st T (fun ts => set_prod ts (ppos ts) true)).
  Proof.
    intros Hl HT Hall Hf. split; [now rewrite upd_length|]. split.
    - intros t Ht. destruct (Nat.eq_dec T t) as [<-|Hne].
      + rewrite get_upd_eq by lia. destruct (Hall T HT) as [Hw He]. split; [now apply winv_dead | exact He].
      + rewrite get_upd_neq by exact Hne. auto.
    - destruct Hf as [(ft & fp & Ef & H1 & H2 & H3)|Hf].
      + exists ft, fp. split; [exact Ef|]. destruct (Nat.eq_dec T ft) as [<-|Hne].
        * rewrite get_upd_eq by lia. cbn [set_prod ppos pdead exhausted]. auto.
        * rewrite get_upd_neq by exact Hne. auto.
      + unfold faulty in Hf. unfold fired. destruct fault as [[ft fp]|]; [|discriminate].
        apply andb_true_iff in Hf as [Hf1 Hf2]. apply Nat.eqb_eq in Hf1, Hf2. subst.
        exists T, (ppos (get st T)). split; [reflexivity|]. rewrite get_upd_eq by lia.
        cbn [set_prod ppos pdead exhausted]. destruct (Hall T HT) as [_ He]. auto.
  Qed.

  Lemma Inv_weak st : Inv st -> alive st ->
    forall t, (t < length g)%nat -> winv t (get st t) /\ exhausted (get st t) = false.
  Proof. intros [_ HI] Ha t Ht. split; [apply ti_w, HI, Ht | apply Ha, Ht]. Qed.

  (* next(producer) leaves the topic with its position advanced but the message not yet acknowledged,
     so the result is described relative to the state st' after the dependencies were read *)
  Definition pn_post (st : state) (T : nat) (res : state * outcome) : Prop :=
    let p := ppos (get st T) in
    match res with
    | (st1, Got m) => exists st', st1 = upd st' T (fun ts => set_prod ts (S (ppos ts)) false) /\
          Inv st' /\ alive st' /\ get st' T = get st T /\ (forall s, (s < T)%nat -> sync st' s) /\
          (forall deps d, nth_error g T = Some (Stage deps) -> In d deps -> cursor st' d T = last_prod (get st T) + 1) /\
          (forall t', (T < t')%nat -> get st' t' = get st t') /\
          (forall t' s, (T < s)%nat -> cursor st' t' s = cursor st t' s) /\
          (p < length (W T))%nat /\ m = nth p (W T) 0 /\ faulty fault T p = false
    | (st1, Stop) => exists st', st1 = upd st' T (fun ts => set_prod ts (ppos ts) true) /\
          Inv st' /\ get st' T = get st T /\ (forall t', (T < t')%nat -> get st' t' = get st t') /\ p = length (W T) /\
          (forall msgs, nth_error g T = Some (Src msgs) -> faulty fault T p = false) /\
          exh_closed st' /\
          (forall deps, nth_error g T = Some (Stage deps) -> exists d, In d deps /\ exhausted (get st' d) = true)
    | (st1, Raise) => RaisePost st1
    | (_, OutOfFuel) => False
    end.

  Lemma producer_next_spec f st T : pull_ok f -> (T <= f)%nat -> (T < length g)%nat ->
    Inv st -> alive st -> (forall s, (s <= T)%nat -> sync st s) ->
    pn_post st T (producer_next (fun st d => pull g comb fault f st d T) st T).
  Proof.
    intros IH HT HTl HI Ha Hs. unfold producer_next, pn_post.
    pose proof (proj2 HI T HTl) as Hti. pose proof (wi_pos _ _ (ti_w _ _ Hti)) as Hpos.
    destruct (nth_error g T) as [[msgs|deps]|] eqn:E.
    - (* a source *)
      pose proof (W_src _ _ E) as HW.
      destruct (faulty fault T (ppos (get st T))) eqn:Ef.
      + apply raise_dead; auto; [apply HI | now apply Inv_weak].
      + destruct (nth_error msgs (ppos (get st T))) as [m|] eqn:En.
        * exists st. split; [reflexivity|]. split; [exact HI|]. split; [exact Ha|]. split; [reflexivity|].
          split; [intros s Hs'; apply Hs; lia|]. split; [intros deps d; congruence|].
          split; [reflexivity|]. split; [reflexivity|]. rewrite HW. split; [|split; [|first [exact Ef | reflexivity]]].
          -- apply nth_error_Some. congruence.
          -- symmetry. now apply nth_error_nth.
        * exists st. split; [reflexivity|]. split; [exact HI|]. split; [reflexivity|]. split; [reflexivity|].
          split; [apply nth_error_None in En; rewrite HW in *; lia|].
          split; [intros _ _; first [exact Ef | reflexivity]|]. split; [now apply alive_exh_closed|]. intros deps; congruence.
    - (* a stage *)
      pose proof (gather_spec f T deps IH HT E deps st [] (incl_refl _) (Hnd _ _ E) HI Ha
                    (fun s Hs' => Hs s (Nat.lt_le_incl _ _ Hs')) (fun d Hd => Hs T (le_n _) deps d E Hd)) as HG.
      unfold gather_post in HG.
      destruct (gather _ deps st []) as [[st' o] inputs]. destruct o as [m'| | |].
      + destruct HG as (HI' & Ha' & Hs' & G1 & G2 & G3 & G4 & Hin).
        assert (HgT : get st' T = get st T) by (apply G1; lia).
        cbn zeta. rewrite HgT.
        destruct (faulty fault T (ppos (get st T))) eqn:Ef.
        * apply raise_dead; auto; [apply HI' | now apply Inv_weak | right; now rewrite HgT].
        * exists st'. split; [reflexivity|]. split; [exact HI'|]. split; [exact Ha'|]. split; [exact HgT|].
          split; [exact Hs'|]. split.
          { intros deps' d E' Hd. assert (deps' = deps) by congruence. subst deps'. apply G4, Hd. }
          split; [intros t' Ht'; apply G1; lia|]. split; [exact G2|].
          destruct (W_stage_nth T deps (ppos (get st T)) E (fun d Hd => proj2 (G4 d Hd))) as [H1 H2].
          split; [exact H1|]. split; [|first [exact Ef | reflexivity]]. rewrite H2, Hin. reflexivity.
      + destruct HG as (HI' & G1 & Hcl & d & Hd & Hlen & Hexd).
        exists st'. split; [reflexivity|]. split; [exact HI'|]. split; [apply G1; lia|].
        split; [intros t' Ht'; apply G1; lia|].
        split; [pose proof (W_stage_len T deps d E Hd); lia|].
        split; [intros msgs; congruence|]. split; [exact Hcl|].
        intros deps' E'. assert (deps' = deps) by congruence. subst deps'. exists d. auto.
      + destruct HG as (Hl & Hall & Hfi). apply raise_dead; auto.
      + exact HG.
    - apply nth_error_None in E. lia.
  Qed.

  Lemma pull_spec : forall f, pull_ok f.
  Proof.
    induction f as [|f IH]; intros st T reader Hf (Ht & Hr & HI & Ha & Hs); [lia|].
    rewrite pull_S. unfold pull_body, pull_post.
    pose proof (proj2 HI T Ht) as Hti. pose proof (Ha T Ht) as Hex.
    destruct (tinv_cursor _ _ _ Hti Hr) as [Hc Hm].
    pose proof (wi_lp _ _ (ti_w _ _ Hti)) as Hlp.
    pose proof (wi_pos _ _ (ti_w _ _ Hti)) as Hpos.
    assert (Hlen : length st = length g) by apply HI.
    fold (cursor st T reader) in *. set (c := cursor st T reader) in *.
    rewrite Hex. cbn [andb].
    rewrite (ti_saved _ _ Hti), find_saved_spec by lia.
    destruct (c + 1 <? Z.of_nat (ppos (get st T))) eqn:En.
    - (* the message is in the saved mail *)
      set (st' := upd st T (fun ts => ack_reader ts reader (c + 1))).
      assert (EqT : get st' T = ack_reader (get st T) reader (c + 1)) by (unfold st'; rewrite get_upd_eq by lia; reflexivity).
      assert (EqO : forall t', T <> t' -> get st' t' = get st t') by (intros t' Hne; unfold st'; now rewrite get_upd_neq).
      split; [|split; [|split; [|split; [|split; [|split]]]]].
      + apply Inv_upd; auto. apply tinv_ack_reader; auto. fold (cursor st T reader). fold c. lia.
      + intros t Ht'. destruct (Nat.eq_dec T t) as [<-|Hne]; [rewrite EqT; exact Hex | rewrite EqO by exact Hne; auto].
      + intros s Hs'. destruct (Nat.eq_dec s T) as [->|Hne].
        * apply sync_upd_self; [lia | reflexivity | apply Hs; lia].
        * apply sync_upd_above; [lia | apply Hs; lia].
      + split; [intros t' Ht'; apply EqO; lia|].
        intros t' s Hs' Hor. destruct (Nat.eq_dec T t') as [<-|Hne].
        * unfold cursor. rewrite EqT. cbn [ack_reader readers]. apply lookup_set_neq. destruct Hor; congruence.
        * unfold cursor. now rewrite EqO.
      + unfold cursor at 1. rewrite EqT. cbn [ack_reader readers]. apply lookup_set_eq.
      + lia.
      + reflexivity.
    - (* a new message has to be produced *)
      assert (Hcl : c = last_prod (get st T)) by lia.
      rewrite (ti_dead _ _ Hti), Hex.
      pose proof (producer_next_spec f st T IH ltac:(lia) Ht HI Ha Hs) as Hpn. unfold pn_post in Hpn.
      destruct (producer_next _ st T) as [st1 [m| | |]].
      + destruct Hpn as (st' & -> & HI' & Ha' & HgT & Hs' & HsT & G1 & G2 & Hp & Hmm & Hnf).
        assert (Hlen' : (T < length st')%nat) by (rewrite (proj1 HI'); exact Ht).
        destruct (get_upd3 st' T (fun ts => set_prod ts (S (ppos ts)) false) (fun ts => ack_produced ts m)
                    (fun ts => ack_reader ts reader (c + 1)) Hlen') as (EqT & EqO & EqL).
        cbn zeta in EqT, EqO, EqL. cbn beta in EqT. rewrite HgT in EqT.
        set (st'' := upd (upd (upd st' T _) T _) T _) in *.
        set (ts2 := ack_produced (set_prod (get st T) (S (ppos (get st T))) false) m) in *.
        assert (Hts2 : tinv T ts2) by (unfold ts2; rewrite Hmm; eapply tinv_produce; eauto).
        split; [|split; [|split; [|split; [|split; [|split]]]]].
        * split; [rewrite EqL; apply HI'|]. intros t Ht'. destruct (Nat.eq_dec T t) as [<-|Hne].
          -- rewrite EqT. apply (tinv_ack_reader T ts2 reader Hts2 Hr).
             change (readers ts2) with (readers (get st T)). fold (cursor st T reader). fold c.
             unfold ts2. cbn [ack_produced set_prod last_prod]. lia.
          -- rewrite EqO by exact Hne. apply HI', Ht'.
        * intros t Ht'. destruct (Nat.eq_dec T t) as [<-|Hne]; [rewrite EqT; exact Hex | rewrite EqO by exact Hne; auto].
        * intros s Hs''. destruct (Nat.eq_dec s T) as [->|Hne].
          -- intros deps d E Hd. pose proof (dep_lt _ _ _ E Hd).
             unfold cursor. rewrite EqO by lia. rewrite EqT. fold (cursor st' d T).
             rewrite (HsT deps d E Hd). reflexivity.
          -- apply (sync_frame st'); [apply EqO; lia | | apply Hs'; lia].
             intros d Hd. unfold cursor. rewrite EqO by lia. reflexivity.
        * split; [intros t' Ht'; rewrite EqO by lia; apply G1; lia|].
          intros t' s Hs'' Hor. destruct (Nat.eq_dec T t') as [<-|Hne].
          -- unfold cursor. rewrite EqT. cbn [ack_reader readers ts2 ack_produced set_prod].
             apply lookup_set_neq. destruct Hor; congruence.
          -- unfold cursor at 1. rewrite EqO by exact Hne. fold (cursor st' t' s). apply G2, Hs''.
        * unfold cursor at 1. rewrite EqT. cbn [ack_reader readers]. apply lookup_set_eq.
        * lia.
        * rewrite Hmm. f_equal. lia.
      + destruct Hpn as (st' & -> & HI' & HgT & G1 & Hp & Hse & Hclo & Hdx).
        assert (Hlen' : (T < length st')%nat) by (rewrite (proj1 HI'); exact Ht).
        destruct (get_upd3 st' T (fun ts => set_prod ts (ppos ts) true) ack_exhausted
                    (fun ts => mark_done ts reader) Hlen') as (EqT & EqO & EqL).
        cbn zeta in EqT, EqO, EqL. cbn beta in EqT. rewrite HgT in EqT.
        set (st'' := upd (upd (upd st' T _) T _) T _) in *.
        assert (HexT : exhausted (get st'' T) = true) by (rewrite EqT; reflexivity).
        assert (Hmono : forall t, exhausted (get st' t) = true -> exhausted (get st'' t) = true).
        { intros t He. destruct (Nat.eq_dec T t) as [<-|Hne]; [exact HexT | now rewrite EqO]. }
        split; [|split; [|split; [|split; [|split]]]].
        * split; [rewrite EqL; apply HI'|]. intros t Ht'. destruct (Nat.eq_dec T t) as [<-|Hne].
          -- rewrite EqT. apply tinv_stop; auto.
          -- rewrite EqO by exact Hne. apply HI', Ht'.
        * intros t' Ht'. rewrite EqO by lia. apply G1, Ht'.
        * unfold cursor at 1. rewrite EqT. reflexivity.
        * lia.
        * exact HexT.
        * intros T' deps E He. destruct (Nat.eq_dec T T') as [<-|Hne].
          -- destruct (Hdx deps E) as (d & Hd & Hed). exists d. split; [exact Hd | now apply Hmono].
          -- rewrite EqO in He by exact Hne. destruct (Hclo T' deps E He) as (d & Hd & Hed).
             exists d. split; [exact Hd | now apply Hmono].
      + exact Hpn.
      + exact Hpn.
  Qed.

  (* ---------------------------------------------------------------------------------------- *)
  (** ** the initial state *)

  Lemma get_init spies t : length spies = length g -> (t < length g)%nat ->
    get (init g target spies) t = init_topic g t target (nth t spies false).
  Proof.
    intros Hl Ht. unfold get, init.
    match goal with |- nth t (map ?f ?l) ?d = _ =>
      rewrite (nth_indep (map f l) d (f (0%nat, false)))
        by (rewrite map_length, combine_length, seq_length; lia);
      rewrite (map_nth f l (0%nat, false) t) end.
    rewrite combine_nth by (rewrite seq_length; lia).
    rewrite seq_nth by lia. reflexivity.
  Qed.

  Lemma init_length spies : length spies = length g -> length (init g target spies) = length g.
  Proof. intros Hl. unfold init. rewrite map_length, combine_length, seq_length. lia. Qed.

  Lemma init_ok spies : length spies = length g -> (forall t, spy0 t = nth t spies false) ->
    Inv (init g target spies) /\ alive (init g target spies) /\
    (forall s, sync (init g target spies) s).
  Proof.
    intros Hl Hspy. split; [split; [now apply init_length|]|split].
    - intros t Ht. rewrite get_init by auto.
      constructor; [constructor|..]; cbn [init_topic last_prod ppos has_spy spy_log spy_closed exhausted readers saved pdead];
        auto; try reflexivity; try lia.
      all: try (destruct (nth t spies false); reflexivity).
      all: try discriminate.
      all: try (eapply Forall_impl; [|apply (init_readers_m1 t false)]; cbn beta; intros e He; lia).
    - intros t Ht. rewrite get_init by auto. reflexivity.
    - intros s deps d E Hd. pose proof (dep_lt _ _ _ E Hd).
      assert ((s < length g)%nat) by (apply nth_error_Some; congruence).
      unfold cursor. rewrite !get_init by (auto; lia).
      rewrite lookup_all_m1 by apply init_readers_m1. reflexivity.
  Qed.

  (* ---------------------------------------------------------------------------------------- *)
  (** ** the drain loop: SingleThreadProcessor.iter *)

  Definition kill_ts (ts : tstate) : tstate :=
    if has_spy ts then mkts (saved ts) (last_prod ts) (readers ts) (done_readers ts)
                            (exhausted ts) true (spy_log ts) (S (spy_closed ts)) (ppos ts) (pdead ts) else ts.

  Lemma get_map_kill st t : get (map kill_ts st) t = kill_ts (get st t).
  Proof.
    unfold get.
    change (mkts [] (-1) [] [] false false [] 0 0 false) with (kill_ts (mkts [] (-1) [] [] false false [] 0 0 false)) at 1.
    apply map_nth.
  Qed.

  (* the state the caller is left with when the exception arrives *)
  Definition err_post (st : state) : Prop :=
    length st = length g /\ fired fault st /\
    forall t, (t < length g)%nat ->
      let ts := get st t in
      has_spy ts = spy0 t /\ exhausted ts = false /\ last_prod ts = Z.of_nat (ppos ts) - 1 /\
      (ppos ts <= length (W t))%nat /\
      spy_log ts = (if spy0 t then firstn (ppos ts) (W t) else []) /\
      spy_closed ts = (if spy0 t then 1%nat else 0%nat).

  Lemma err_post_kill st : RaisePost st -> err_post (map kill_ts st).
  Proof.
    intros (Hl & Hall & ft & fp & Ef & H1 & H2 & H3). split; [now rewrite map_length|]. split.
    - exists ft, fp. split; [exact Ef|]. rewrite get_map_kill. unfold kill_ts.
      destruct (has_spy (get st ft)); cbn [ppos pdead exhausted]; auto.
    - intros t Ht. cbn zeta. rewrite get_map_kill. destruct (Hall t Ht) as [[W1 W2 W3 W4 W5] He].
      unfold kill_ts. rewrite <- W3.
      destruct (has_spy (get st t)) eqn:Es; cbn [has_spy exhausted last_prod ppos spy_log spy_closed]; rewrite ?Es.
      + rewrite W5, He. cbn [andb]. auto 10.
      + rewrite W5. cbn [andb]. auto 10.
  Qed.

  Lemma drain_unfold steps fuel st acc :
    drain g comb fault (S steps) fuel st target acc =
    match pull g comb fault fuel st target target with
    | (st', Got m) => drain g comb fault steps fuel st' target (acc ++ [m])
    | (st', Stop) => (st', Ok acc)
    | (st', Raise) => (map kill_ts st', Err 1)
    | (st', OutOfFuel) => (st', Err 99)
    end.
  Proof. reflexivity. Qed.

  Definition drain_post (res : state * res (list Z)) : Prop :=
    match res with
    | (st', Ok out) => out = W target /\ Inv st' /\ exhausted (get st' target) = true /\
                       cursor st' target target = last_prod (get st' target) /\ exh_closed st'
    | (st', Err e) => e = 1 /\ err_post st'
    end.

  Lemma drain_spec fuel : (target < fuel)%nat -> (target < length g)%nat ->
    forall steps st acc, Inv st -> alive st -> (forall s, (s <= target)%nat -> sync st s) ->
      acc = firstn (Z.to_nat (cursor st target target + 1)) (W target) ->
      (length (W target) - Z.to_nat (cursor st target target + 1) < steps)%nat ->
      drain_post (drain g comb fault steps fuel st target acc).
  Proof.
    intros Hf Ht. induction steps as [|k IH]; intros st acc HI Ha Hs Hacc Hsteps; [lia|].
    rewrite drain_unfold.
    assert (Hpre : pull_pre st target target).
    { split; [exact Ht|]. split; [apply rkeys_target|]. auto. }
    pose proof (pull_spec fuel st target target Hf Hpre) as Hpost. unfold pull_post in Hpost.
    destruct (tinv_cursor _ _ _ (proj2 HI target Ht) rkeys_target) as [Hc _].
    fold (cursor st target target) in Hc. set (c := cursor st target target) in *.
    destruct (pull g comb fault fuel st target target) as [st' [m| | |]].
    - destruct Hpost as (HI' & Ha' & Hs' & _ & Hc' & Hidx & Hm).
      apply IH; auto.
      + rewrite Hc'. replace (Z.to_nat (c + 1 + 1)) with (S (Z.to_nat (c + 1))) by lia.
        rewrite firstn_S_nth by exact Hidx. now rewrite Hacc, Hm.
      + rewrite Hc'. lia.
    - destruct Hpost as (HI' & _ & Hc' & Hlen & Hex & Hcl). unfold drain_post.
      split; [rewrite Hacc, Hlen; apply firstn_all|]. split; [exact HI'|]. split; [exact Hex|].
      split; [|exact Hcl].
      pose proof (proj2 HI' target Ht) as Hti.
      rewrite Hc', (wi_lp _ _ (ti_w _ _ Hti)), (ti_exh _ _ Hti Hex). lia.
    - unfold drain_post. split; [reflexivity|]. now apply err_post_kill.
    - destruct Hpost.
  Qed.

  Lemma savedspec_empty w p lo : Z.of_nat p - 1 <= lo -> savedspec w p lo = [].
  Proof.
    induction p as [|p IH]; intros H; [reflexivity|].
    unfold savedspec in *. rewrite allmsgs_S, filter_app, IH by lia. cbn [filter fst app].
    destruct (Z.of_nat p >? lo) eqn:E; [lia | reflexivity].
  Qed.

  (* PostOffice._read's closing debug check `assert not self._saved_mail[topic]` (evaluated when all
     readers of the topic are done, i.e. have read everything) cannot fail *)
  Lemma saved_empty_caught_up t ts : tinv t ts -> readers ts <> [] ->
    Forall (fun e => snd e = last_prod ts) (readers ts) -> saved ts = [].
  Proof.
    intros Hi Hne Hall. rewrite (ti_saved _ _ Hi). apply savedspec_empty.
    pose proof (minc_in _ Hne) as Hin. apply in_map_iff in Hin as [e [He Hin]].
    rewrite Forall_forall in Hall. rewrite <- He, (Hall e Hin), (wi_lp _ _ (ti_w _ _ Hi)). lia.
  Qed.

  (* with FINAL as its only reader the target topic keeps no mail once FINAL has caught up *)
  Lemma saved_target_empty st : no_consumers g target -> Inv st -> (target < length g)%nat ->
    cursor st target target = last_prod (get st target) -> saved (get st target) = [].
  Proof.
    intros Hn HI Ht Hc. pose proof (proj2 HI target Ht) as Hti.
    rewrite (ti_saved _ _ Hti). apply savedspec_empty.
    pose proof (ti_keys _ _ Hti) as Hk. rewrite (rkeys_only Hn) in Hk.
    unfold cursor in Hc. destruct (readers (get st target)) as [|[r n] [|e rs]]; try discriminate.
    cbn [map fst] in Hk. injection Hk as ->. cbn [lookup_reader] in Hc. rewrite Nat.eqb_refl in Hc.
    cbn [minc min_read]. rewrite Hc, (wi_lp _ _ (ti_w _ _ Hti)). lia.
  Qed.

End Graph.

(* ------------------------------------------------------------------------------------------ *)
(** * The theorems about a whole run *)

Section Final.
  Variables (g : list node) (comb : nat -> list Z -> Z) (target : nat) (spies : list bool) (steps fuel : nat).
  Hypothesis Hyp : po_hyps g comb target spies steps fuel.
  Let spy0 := fun t => nth t spies false.

  Lemma run_post fault :
    drain_post g comb fault target spy0 (po_run g comb fault target spies steps fuel).
  Proof.
    destruct Hyp as (Hwf & Hnd & Ht & Hsp & Hfu & Hst).
    destruct (init_ok g comb fault Hwf target spy0 spies Hsp (fun t => eq_refl)) as (HI & Ha & Hs).
    assert (Hc0 : cursor (init g target spies) target target = -1).
    { unfold cursor. rewrite (get_init g comb target spy0) by auto. apply lookup_all_m1, init_readers_m1. }
    unfold po_run. apply drain_spec; auto.
    - rewrite Hc0. reflexivity.
    - rewrite Hc0. change (Z.to_nat (-1 + 1)) with 0%nat. lia.
  Qed.

  Lemma tinv_spy_ok fault st t : tinv g comb fault target spy0 t (get st t) -> spy_ok g comb spies st t.
  Proof.
    intros [[H1 H2 H3 H4 H5] H6 H7 H8 H9 H10 H11 H12]. unfold spy_ok. cbn zeta.
    fold (spy0 t). rewrite <- H3. auto 10.
  Qed.

  (** 1. Without a failure the caller receives exactly the whole-run sequence, the target topic ends
      exhausted, every spy has seen exactly what its topic produced (all of it if the topic is exhausted)
      and was closed exactly once iff its topic is exhausted; with FINAL as only reader no mail is left. *)
  Theorem po_no_fault_complete :
    let res := po_run g comb None target spies steps fuel in
    snd res = Ok (whole_of g comb target) /\
    exhausted (get (fst res) target) = true /\
    (forall t, (t < length g)%nat -> spy_ok g comb spies (fst res) t) /\
    (no_consumers g target -> saved (get (fst res) target) = []).
  Proof.
    cbn zeta. pose proof (run_post None) as HP. destruct Hyp as (Hwf & Hnd & Ht & Hsp & Hfu & Hst).
    destruct (po_run g comb None target spies steps fuel) as [stf [out|e]]; cbn [fst snd]; unfold drain_post in HP.
    - destruct HP as (-> & HI & Hex & Hc & _). split; [reflexivity|]. split; [exact Hex|]. split.
      + intros t Ht'. eapply tinv_spy_ok. apply HI, Ht'.
      + intros Hn. eapply saved_target_empty; eauto.
    - destruct HP as (_ & _ & (ft & fp & Ef & _) & _). discriminate.
  Qed.

  (* the readable consequence for savers of exhausted topics *)
  Corollary po_no_fault_savers_complete :
    let res := po_run g comb None target spies steps fuel in
    forall t, (t < length g)%nat -> nth t spies false = true -> exhausted (get (fst res) t) = true ->
      spy_log (get (fst res) t) = whole_of g comb t /\ spy_closed (get (fst res) t) = 1%nat.
  Proof.
    cbn zeta. intros t Ht Hs He. destruct po_no_fault_complete as (_ & _ & Hall & _).
    destruct (Hall t Ht) as (_ & _ & _ & Hlog & Hex & Hcl). cbn zeta in *.
    rewrite Hs in *. rewrite He in Hcl. split; [|exact Hcl].
    rewrite Hlog, (Hex He). apply firstn_all.
  Qed.

  (* PostOffice's own debug assertion at the end of a reader (`assert not self._saved_mail[topic]` once
     every reader of the topic has read everything) holds in the final state of every completed run,
     so it cannot turn a good run into an AssertionError *)
  Theorem po_debug_assert_holds fault :
    let res := po_run g comb fault target spies steps fuel in
    snd res = Ok (whole_of g comb target) ->
    forall t, (t < length g)%nat -> readers (get (fst res) t) <> [] ->
      Forall (fun e => snd e = last_prod (get (fst res) t)) (readers (get (fst res) t)) ->
      saved (get (fst res) t) = [].
  Proof.
    cbn zeta. intros HO t Ht Hne Hall. pose proof (run_post fault) as HP.
    destruct (po_run g comb fault target spies steps fuel) as [stf [out|e]]; cbn [fst snd] in *; [|discriminate].
    destruct HP as (_ & [_ HI] & _). eapply saved_empty_caught_up; eauto.
  Qed.

  (** 2. Whatever fails: the caller gets the exception or the complete result, never anything else. *)
  Theorem po_never_silently_truncated fault :
    let res := po_run g comb fault target spies steps fuel in
    snd res = Err 1 \/ snd res = Ok (whole_of g comb target).
  Proof.
    cbn zeta. pose proof (run_post fault) as HP.
    destruct (po_run g comb fault target spies steps fuel) as [stf [out|e]]; cbn [fst snd]; unfold drain_post in HP.
    - right. destruct HP as (-> & _). reflexivity.
    - left. destruct HP as (-> & _). reflexivity.
  Qed.

  (** 3. The exception arrives exactly when the injected failure fired. *)
  Theorem po_exception_iff_fired fault :
    let res := po_run g comb fault target spies steps fuel in
    snd res = Err 1 <-> fired fault (fst res).
  Proof.
    cbn zeta. pose proof (run_post fault) as HP. destruct Hyp as (Hwf & Hnd & Ht & Hsp & Hfu & Hst).
    destruct (po_run g comb fault target spies steps fuel) as [stf [out|e]]; cbn [fst snd]; unfold drain_post in HP.
    - split; [discriminate|]. intros (ft & fp & Ef & Hp & Hd & He). exfalso.
      destruct HP as (_ & [Hl HI] & _).
      destruct (le_lt_dec (length g) ft) as [Hge|Hlt].
      + unfold get in Hd. rewrite nth_overflow in Hd by lia. discriminate.
      + pose proof (ti_dead _ _ _ _ _ _ _ (HI ft Hlt)). congruence.
    - destruct HP as (-> & _ & Hf & _). split; auto.
  Qed.

  Theorem po_exception_only_if_fault fault :
    snd (po_run g comb fault target spies steps fuel) = Err 1 ->
    exists ft fp, fault = Some (ft, fp) /\ (ft < length g)%nat /\ (fp <= length (whole_of g comb ft))%nat /\
                  ppos (get (fst (po_run g comb fault target spies steps fuel)) ft) = fp.
  Proof.
    intros HE. pose proof (run_post fault) as HP.
    destruct (po_run g comb fault target spies steps fuel) as [stf [out|e]]; cbn [fst snd] in *; [discriminate|].
    destruct HP as (_ & Hl & (ft & fp & Ef & Hp & Hd & He) & Hall).
    exists ft, fp. split; [exact Ef|].
    destruct (le_lt_dec (length g) ft) as [Hge|Hlt].
    - unfold get in Hd. rewrite nth_overflow in Hd by lia. discriminate.
    - split; [exact Hlt|]. destruct (Hall ft Hlt) as (_ & _ & _ & Hpos & _). cbn zeta in Hpos. split; [lia | exact Hp].
  Qed.

  Corollary po_no_exception_without_fault :
    snd (po_run g comb None target spies steps fuel) <> Err 1.
  Proof. intros HE. destruct (po_exception_only_if_fault None HE) as (ft & fp & Ef & _). discriminate. Qed.

  (** 4. kill_spies: when the exception arrives every saver spy has been closed - exactly once - having
      received exactly the messages its topic produced before the failure; no topic was declared exhausted. *)
  Theorem po_spies_closed_on_error fault :
    let res := po_run g comb fault target spies steps fuel in
    snd res = Err 1 ->
    forall t, (t < length g)%nat ->
      exhausted (get (fst res) t) = false /\
      (nth t spies false = true ->
         has_spy (get (fst res) t) = true /\ spy_closed (get (fst res) t) = 1%nat /\
         spy_log (get (fst res) t) = firstn (ppos (get (fst res) t)) (whole_of g comb t)).
  Proof.
    cbn zeta. intros HE t Ht. pose proof (run_post fault) as HP.
    destruct (po_run g comb fault target spies steps fuel) as [stf [out|e]]; cbn [fst snd] in *; [discriminate|].
    destruct HP as (_ & _ & _ & Hall). destruct (Hall t Ht) as (H1 & H2 & _ & _ & H5 & H6). cbn zeta in *.
    split; [exact H2|]. intros Hs. unfold spy0 in *. rewrite Hs in *. auto.
  Qed.

  (** 5. Which failures fire.  A position beyond the end of the faulty topic never does. *)
  Theorem po_fault_beyond_end_never_fires ft fp :
    (length (whole_of g comb ft) < fp)%nat ->
    snd (po_run g comb (Some (ft, fp)) target spies steps fuel) = Ok (whole_of g comb target).
  Proof.
    intros Hfp. destruct (po_never_silently_truncated (Some (ft, fp))) as [HE|HO]; [|exact HO].
    destruct (po_exception_only_if_fault _ HE) as (ft' & fp' & Ef & _ & Hle & _).
    injection Ef as <- <-. lia.
  Qed.

  (* when the run completes, every topic that was declared exhausted got through all its positions *)
  Lemma ok_exhausted_clean fault :
    let res := po_run g comb fault target spies steps fuel in
    snd res = Ok (whole_of g comb target) ->
    exhausted (get (fst res) target) = true /\ exh_closed g (fst res) /\
    forall t, (t < length g)%nat -> exhausted (get (fst res) t) = true ->
      forall q, fault_in_range g comb t q -> faulty fault t q = false.
  Proof.
    cbn zeta. intros HO. pose proof (run_post fault) as HP.
    destruct (po_run g comb fault target spies steps fuel) as [stf [out|e]]; cbn [fst snd] in *; [|discriminate].
    destruct HP as (_ & [Hl HI] & Hex & _ & Hcl). split; [exact Hex|]. split; [exact Hcl|].
    intros t Ht He q [Hq|(msgs & E & ->)].
    - apply (ti_nofault _ _ _ _ _ _ _ (HI t Ht)). rewrite (ti_exh _ _ _ _ _ _ _ (HI t Ht) He). exact Hq.
    - pose proof (ti_srcend _ _ _ _ _ _ _ (HI t Ht) He msgs E) as X.
      rewrite (ti_exh _ _ _ _ _ _ _ (HI t Ht) He) in X.
      destruct Hyp as (Hwf & _). now rewrite (W_src g comb t msgs E) in X.
  Qed.

  (* a failure injected into the target's own producer at an existing position always reaches the caller *)
  Theorem po_fault_on_target_fires fp :
    fault_in_range g comb target fp ->
    snd (po_run g comb (Some (target, fp)) target spies steps fuel) = Err 1.
  Proof.
    intros Hr. destruct (po_never_silently_truncated (Some (target, fp))) as [HE|HO]; [exact HE|]. exfalso.
    destruct (ok_exhausted_clean _ HO) as (Hex & _ & Hall).
    destruct Hyp as (_ & _ & Ht & _).
    specialize (Hall target Ht Hex fp Hr). unfold faulty in Hall. now rewrite !Nat.eqb_refl in Hall.
  Qed.

  (* in a chain (every stage has one dependency) the same holds for every topic upstream of the target *)
  Theorem po_chain_fault_fires ft fp :
    chain_graph g -> upstream g target ft -> fault_in_range g comb ft fp ->
    snd (po_run g comb (Some (ft, fp)) target spies steps fuel) = Err 1.
  Proof.
    intros Hch Hup Hr. destruct (po_never_silently_truncated (Some (ft, fp))) as [HE|HO]; [exact HE|]. exfalso.
    destruct (ok_exhausted_clean _ HO) as (Hex & Hcl & Hall).
    destruct Hyp as (Hwf & _ & Ht & _).
    set (stf := fst (po_run g comb (Some (ft, fp)) target spies steps fuel)) in *.
    assert (Hgen : forall t u, upstream g t u -> (t < length g)%nat -> exhausted (get stf t) = true ->
                               (u < length g)%nat /\ exhausted (get stf u) = true).
    { intros t u Hup'. induction Hup' as [t|t deps d u E Hd Hup' IH]; [auto|]. intros Hlt Hext.
      destruct (Hcl t deps E Hext) as (d' & Hd' & Hed').
      destruct (Hch t deps E) as (d0 & ->). destruct Hd as [<-|[]]. destruct Hd' as [<-|[]].
      apply IH; auto. destruct (Hwf _ _ E) as [_ F]. rewrite Forall_forall in F.
      specialize (F d0 (or_introl eq_refl)). lia. }
    destruct (Hgen target ft Hup Ht Hex) as [Hlt Hexft].
    specialize (Hall ft Hlt Hexft fp Hr). unfold faulty in Hall. now rewrite !Nat.eqb_refl in Hall.
  Qed.

End Final.

(* fuel > length g is the bound suggested in the design; it implies the bound used above *)
Lemma po_hyps_big_fuel g comb target spies steps fuel :
  wf_graph g -> nodup_deps g -> (target < length g)%nat -> length spies = length g ->
  (length g < fuel)%nat -> (length (whole_of g comb target) < steps)%nat ->
  po_hyps g comb target spies steps fuel.
Proof. unfold po_hyps. intuition lia. Qed.

(* ------------------------------------------------------------------------------------------ *)
(** * Exactly which failures fire, in an arbitrary DAG

    The failure at (ft, fp) reaches the caller iff the failure-free run gets producer ft to position fp
    (emits message fp, or - for a source - is asked for one more message at its end).
    Proof: the faulty and the failure-free run are the same run until that moment (a simulation of
    [pull] with and without the failure, no invariant needed), [requested] only grows along a run. *)

Lemma set_nth_oob {A} (l : list A) i x : (length l <= i)%nat -> set_nth l i x = l.
Proof.
  revert i; induction l as [|y l IH]; intros [|i] H; cbn [set_nth length] in *; auto; try lia.
  f_equal. apply IH. lia.
Qed.

Lemma get_upd_oob st t f x : (length st <= t)%nat -> get (upd st t f) x = get st x.
Proof. intros H. unfold upd. now rewrite set_nth_oob. Qed.

Section Sim.
  Variables (g : list node) (comb : nat -> list Z -> Z) (ft fp : nat).
  Notation F := (Some (ft, fp)).
  Notation req st := (requested g st ft fp).

  (* along a run positions only grow, and a dead producer stays dead where it is *)
  Definition mono (a b : state) : Prop :=
    length b = length a /\
    forall x, (ppos (get a x) <= ppos (get b x))%nat /\
              (pdead (get a x) = true -> ppos (get b x) = ppos (get a x) -> pdead (get b x) = true).

  Lemma mono_refl a : mono a a.
  Proof. split; [reflexivity|]. intros x. split; [lia | auto]. Qed.

  Lemma mono_trans a b c : mono a b -> mono b c -> mono a c.
  Proof.
    intros [L1 M1] [L2 M2]. split; [congruence|]. intros x.
    destruct (M1 x) as [P1 D1]. destruct (M2 x) as [P2 D2]. split; [lia|].
    intros Hd He. apply D2; [apply D1; [exact Hd | lia] | lia].
  Qed.

  Lemma req_mono a b : mono a b -> req a -> req b.
  Proof.
    intros [_ M] [H|(H1 & H2 & H3)]; destruct (M ft) as [P D]; unfold requested.
    - left. lia.
    - destruct (Nat.eq_dec (ppos (get b ft)) (ppos (get a ft))) as [He|Hne].
      + right. split; [lia|]. split; [apply D; auto | exact H3].
      + left. lia.
  Qed.

  Lemma mono_upd st t f :
    (ppos (get st t) <= ppos (f (get st t)))%nat ->
    (pdead (get st t) = true -> ppos (f (get st t)) = ppos (get st t) -> pdead (f (get st t)) = true) ->
    mono st (upd st t f).
  Proof.
    intros HP HD. split; [apply upd_length|]. intros x.
    destruct (le_lt_dec (length st) t) as [Ho|Hi]; [rewrite get_upd_oob by exact Ho; split; [lia | auto]|].
    destruct (Nat.eq_dec t x) as [<-|Hne]; [rewrite get_upd_eq by exact Hi; auto|].
    rewrite get_upd_neq by exact Hne. split; [lia | auto].
  Qed.

  (* the acknowledgement steps leave positions and liveness alone *)
  Definition keeps (f : tstate -> tstate) : Prop := forall ts, ppos (f ts) = ppos ts /\ pdead (f ts) = pdead ts.

  Lemma get_upd_keeps st t f x : keeps f ->
    ppos (get (upd st t f) x) = ppos (get st x) /\ pdead (get (upd st t f) x) = pdead (get st x).
  Proof.
    intros K. destruct (le_lt_dec (length st) t) as [Ho|Hi]; [rewrite get_upd_oob by exact Ho; auto|].
    destruct (Nat.eq_dec t x) as [<-|Hne]; [rewrite get_upd_eq by exact Hi; apply K|].
    rewrite get_upd_neq by exact Hne. auto.
  Qed.

  Lemma mono_keeps st t f : keeps f -> mono st (upd st t f).
  Proof. intros K. destruct (K (get st t)) as [K1 K2]. apply mono_upd; [lia | congruence]. Qed.

  Lemma req_keeps st t f : keeps f -> (req (upd st t f) <-> req st).
  Proof. intros K. unfold requested. destruct (get_upd_keeps st t f ft K) as [-> ->]. reflexivity. Qed.

  Lemma keeps_ack_reader r n : keeps (fun ts => ack_reader ts r n).      Proof. split; reflexivity. Qed.
  Lemma keeps_ack_produced m : keeps (fun ts => ack_produced ts m).      Proof. split; reflexivity. Qed.
  Lemma keeps_ack_exhausted : keeps ack_exhausted.                        Proof. split; reflexivity. Qed.
  Lemma keeps_mark_done r : keeps (fun ts => mark_done ts r).             Proof. split; reflexivity. Qed.
  Lemma keeps_kill : keeps kill_ts.
  Proof. intros ts. unfold kill_ts. destruct (has_spy ts); split; reflexivity. Qed.

  (* r1: failure-free, r2: with the failure, from the same state *)
  Definition simrel (st : state) (r1 r2 : state * outcome) : Prop :=
    mono st (fst r1) /\ (~ req (fst r1) -> r2 = r1) /\ (snd r2 <> Raise -> r2 = r1).
  Definition pl_ok (pl1 pl2 : state -> nat -> state * outcome) : Prop :=
    forall st d, length st = length g -> simrel st (pl1 st d) (pl2 st d).

  Lemma gather_sim pl1 pl2 : pl_ok pl1 pl2 -> forall ds st acc, length st = length g ->
    mono st (fst (fst (gather pl1 ds st acc))) /\
    (~ req (fst (fst (gather pl1 ds st acc))) -> gather pl2 ds st acc = gather pl1 ds st acc) /\
    (snd (fst (gather pl2 ds st acc)) <> Raise -> gather pl2 ds st acc = gather pl1 ds st acc).
  Proof.
    intros Hpl. induction ds as [|d rest IH]; intros st acc Hl; cbn [gather].
    - cbn [fst snd]. split; [apply mono_refl|]. split; intros; reflexivity.
    - destruct (Hpl st d Hl) as (M & S2 & S3).
      destruct (pl1 st d) as [s1 o1]. destruct (pl2 st d) as [s2 o2]. cbn [fst snd] in *.
      assert (Hl1 : length s1 = length g) by (destruct M; congruence).
      destruct o1 as [m1| | |].
      + destruct (IH s1 (acc ++ [m1]) Hl1) as (M' & S2' & S3').
        split; [eapply mono_trans; eauto|]. split.
        * intros Hn. assert (Hn1 : ~ req s1) by (intros X; apply Hn; eapply req_mono; eauto).
          specialize (S2 Hn1). injection S2 as -> ->. apply S2', Hn.
        * intros Hr. assert (Ho2 : o2 <> Raise) by (intros ->; apply Hr; reflexivity).
          specialize (S3 Ho2). injection S3 as -> ->. apply S3', Hr.
      + split; [exact M|]. split.
        * intros Hn. specialize (S2 Hn). injection S2 as -> ->. reflexivity.
        * intros Hr. assert (Ho2 : o2 <> Raise) by (intros ->; apply Hr; reflexivity).
          specialize (S3 Ho2). injection S3 as -> ->. reflexivity.
      + split; [exact M|]. split.
        * intros Hn. specialize (S2 Hn). injection S2 as -> ->. reflexivity.
        * intros Hr. assert (Ho2 : o2 <> Raise) by (intros ->; apply Hr; reflexivity).
          specialize (S3 Ho2). injection S3 as -> ->. reflexivity.
      + split; [exact M|]. split.
        * intros Hn. specialize (S2 Hn). injection S2 as -> ->. reflexivity.
        * intros Hr. assert (Ho2 : o2 <> Raise) by (intros ->; apply Hr; reflexivity).
          specialize (S3 Ho2). injection S3 as -> ->. reflexivity.
  Qed.

  Lemma faulty_F t p : faulty F t p = true -> ft = t /\ fp = p.
  Proof. unfold faulty. intros H. apply andb_true_iff in H as [H1 H2]. apply Nat.eqb_eq in H1, H2. auto. Qed.

  Lemma producer_next_sim pl1 pl2 st topic : pl_ok pl1 pl2 -> length st = length g ->
    simrel st (producer_next g comb None pl1 st topic) (producer_next g comb F pl2 st topic).
  Proof.
    intros Hpl Hl. unfold producer_next, simrel.
    destruct (nth_error g topic) as [[msgs|deps]|] eqn:E.
    - (* source *)
      assert (Hlt : (topic < length st)%nat) by (rewrite Hl; apply nth_error_Some; congruence).
      change (faulty None topic (ppos (get st topic))) with false. cbn iota.
      destruct (faulty F topic (ppos (get st topic))) eqn:Ef.
      + apply faulty_F in Ef as [<- Efp].
        destruct (nth_error msgs (ppos (get st ft))) as [m|] eqn:En; cbn [fst snd].
        * split; [apply mono_upd; cbn [set_prod ppos pdead]; lia|]. split.
          -- intros Hn. exfalso. apply Hn. left. rewrite get_upd_eq by exact Hlt. cbn [set_prod ppos]. lia.
          -- intros Hr. exfalso. apply Hr. reflexivity.
        * split; [apply mono_upd; cbn [set_prod ppos pdead]; auto|]. split.
          -- intros Hn. exfalso. apply Hn. right. rewrite get_upd_eq by exact Hlt. cbn [set_prod ppos pdead].
             split; [exact Efp|]. split; [reflexivity|]. eauto.
          -- intros Hr. exfalso. apply Hr. reflexivity.
      + destruct (nth_error msgs (ppos (get st topic))) as [m|]; cbn [fst snd];
          (split; [apply mono_upd; cbn [set_prod ppos pdead]; auto; lia|]; split; intros; reflexivity).
    - (* stage *)
      assert (Hlt : (topic < length g)%nat) by (apply nth_error_Some; congruence).
      destruct (gather_sim pl1 pl2 Hpl deps st [] Hl) as (M & S2 & S3).
      destruct (gather pl1 deps st []) as [[s1 o1] in1]. destruct (gather pl2 deps st []) as [[s2 o2] in2].
      cbn [fst snd] in *.
      assert (Hl1 : length s1 = length g) by (destruct M; congruence).
      assert (Hlt1 : (topic < length s1)%nat) by lia.
      destruct o1 as [m1| | |].
      + change (faulty None topic (ppos (get s1 topic))) with false. cbn iota. cbn [fst snd].
        assert (M1 : mono s1 (upd s1 topic (fun ts => set_prod ts (S (ppos ts)) false)))
          by (apply mono_upd; cbn [set_prod ppos pdead]; lia).
        split; [eapply mono_trans; eauto|].
        assert (Hcheck : ~ req (upd s1 topic (fun ts => set_prod ts (S (ppos ts)) false)) \/
                         snd (if faulty F topic (ppos (get s1 topic))
                              then (upd s1 topic (fun ts => set_prod ts (ppos ts) true), Raise)
                              else (upd s1 topic (fun ts => set_prod ts (S (ppos ts)) false), Got (comb topic in1))) <> Raise ->
                         faulty F topic (ppos (get s1 topic)) = false).
        { intros [Hn|Hr]; destruct (faulty F topic (ppos (get s1 topic))) eqn:Ef; auto; exfalso.
          - apply faulty_F in Ef as [<- Efp]. apply Hn. left. rewrite get_upd_eq by exact Hlt1.
            cbn [set_prod ppos]. lia.
          - apply Hr. reflexivity. }
        split.
        * intros Hn. assert (Hn1 : ~ req s1) by (intros X; apply Hn; eapply req_mono; eauto).
          specialize (S2 Hn1). injection S2 as -> -> ->. cbn zeta. rewrite Hcheck by (left; exact Hn). reflexivity.
        * intros Hr. assert (Ho2 : o2 <> Raise) by (intros ->; apply Hr; reflexivity).
          specialize (S3 Ho2). injection S3 as -> -> ->. cbn zeta in *. rewrite Hcheck by (right; exact Hr). reflexivity.
      + cbn [fst snd].
        assert (M1 : mono s1 (upd s1 topic (fun ts => set_prod ts (ppos ts) true)))
          by (apply mono_upd; cbn [set_prod ppos pdead]; auto).
        split; [eapply mono_trans; eauto|]. split.
        * intros Hn. assert (Hn1 : ~ req s1) by (intros X; apply Hn; eapply req_mono; eauto).
          specialize (S2 Hn1). injection S2 as -> -> ->. reflexivity.
        * intros Hr. assert (Ho2 : o2 <> Raise) by (intros ->; apply Hr; reflexivity).
          specialize (S3 Ho2). injection S3 as -> -> ->. reflexivity.
      + cbn [fst snd].
        assert (M1 : mono s1 (upd s1 topic (fun ts => set_prod ts (ppos ts) true)))
          by (apply mono_upd; cbn [set_prod ppos pdead]; auto).
        split; [eapply mono_trans; eauto|]. split.
        * intros Hn. assert (Hn1 : ~ req s1) by (intros X; apply Hn; eapply req_mono; eauto).
          specialize (S2 Hn1). injection S2 as -> -> ->. reflexivity.
        * intros Hr. assert (Ho2 : o2 <> Raise) by (intros ->; apply Hr; reflexivity).
          specialize (S3 Ho2). injection S3 as -> -> ->. reflexivity.
      + cbn [fst snd].
        assert (M1 : mono s1 (upd s1 topic (fun ts => set_prod ts (ppos ts) true)))
          by (apply mono_upd; cbn [set_prod ppos pdead]; auto).
        split; [eapply mono_trans; eauto|]. split.
        * intros Hn. assert (Hn1 : ~ req s1) by (intros X; apply Hn; eapply req_mono; eauto).
          specialize (S2 Hn1). injection S2 as -> -> ->. reflexivity.
        * intros Hr. assert (Ho2 : o2 <> Raise) by (intros ->; apply Hr; reflexivity).
          specialize (S3 Ho2). injection S3 as -> -> ->. reflexivity.
    - cbn [fst snd]. split; [apply mono_refl|]. split; intros; reflexivity.
  Qed.

  (* the tail of PostOffice._read / _fetch_new after next(producer) *)
  Definition finish (topic reader : nat) (n : Z) (x : state * outcome) : state * outcome :=
    let '(st1, r) := x in
    match r with
    | Got m => (upd (upd st1 topic (fun ts => ack_produced ts m)) topic (fun ts => ack_reader ts reader n), Got m)
    | Stop => (upd (upd st1 topic ack_exhausted) topic (fun ts => mark_done ts reader), Stop)
    | o => (st1, o)
    end.

  Lemma finish_mono topic reader n x : mono (fst x) (fst (finish topic reader n x)).
  Proof.
    destruct x as [s [m| | |]]; cbn [finish fst]; try apply mono_refl;
      (eapply mono_trans; [apply mono_keeps|apply mono_keeps]);
      auto using keeps_ack_reader, keeps_ack_produced, keeps_ack_exhausted, keeps_mark_done.
  Qed.

  Lemma finish_req topic reader n x : req (fst (finish topic reader n x)) <-> req (fst x).
  Proof.
    destruct x as [s [m| | |]]; cbn [finish fst]; try reflexivity.
    - rewrite req_keeps by apply keeps_ack_reader. apply req_keeps, keeps_ack_produced.
    - rewrite req_keeps by apply keeps_mark_done. apply req_keeps, keeps_ack_exhausted.
  Qed.

  Lemma finish_raise topic reader n x : snd (finish topic reader n x) = Raise <-> snd x = Raise.
  Proof. destruct x as [s [m| | |]]; cbn [finish snd]; split; congruence. Qed.

  Lemma finish_sim st topic reader n x1 x2 : simrel st x1 x2 ->
    simrel st (finish topic reader n x1) (finish topic reader n x2).
  Proof.
    intros (M & S2 & S3). split; [eapply mono_trans; [exact M | apply finish_mono]|]. split.
    - intros Hn. rewrite S2; [reflexivity|]. intros X. apply Hn. now apply finish_req.
    - intros Hr. rewrite S3; [reflexivity|]. intros X. apply Hr. now apply finish_raise.
  Qed.

  Lemma pull_body_sim pl1 pl2 st topic reader : pl_ok pl1 pl2 -> length st = length g ->
    simrel st (pull_body g comb None pl1 st topic reader) (pull_body g comb F pl2 st topic reader).
  Proof.
    intros Hpl Hl. unfold pull_body.
    destruct (exhausted (get st topic) && _).
    { split; [apply mono_keeps, keeps_mark_done|]. split; intros; reflexivity. }
    destruct (find_saved _ _).
    { split; [apply mono_keeps, keeps_ack_reader|]. split; intros; reflexivity. }
    destruct (pdead (get st topic)).
    - split; [|split; intros; reflexivity]. cbn [fst].
      eapply mono_trans; apply mono_keeps; auto using keeps_ack_exhausted, keeps_mark_done.
    - exact (finish_sim st topic reader _ _ _ (producer_next_sim pl1 pl2 st topic Hpl Hl)).
  Qed.

  Lemma pull_sim : forall fuel st topic reader, length st = length g ->
    simrel st (pull g comb None fuel st topic reader) (pull g comb F fuel st topic reader).
  Proof.
    induction fuel as [|f IH]; intros st topic reader Hl.
    - cbn [pull]. split; [apply mono_refl|]. split; intros; reflexivity.
    - rewrite !pull_S. apply pull_body_sim; auto. intros s d Hs. apply IH, Hs.
  Qed.

  Lemma mono_kill st : mono st (map kill_ts st).
  Proof.
    split; [apply map_length|]. intros x. rewrite get_map_kill.
    destruct (keeps_kill (get st x)) as [-> ->]. split; [lia | auto].
  Qed.

  Lemma drain_sim target fuel : forall steps st acc, length st = length g ->
    mono st (fst (drain g comb None steps fuel st target acc)) /\
    (~ req (fst (drain g comb None steps fuel st target acc)) ->
       drain g comb F steps fuel st target acc = drain g comb None steps fuel st target acc) /\
    (snd (drain g comb F steps fuel st target acc) <> Err 1 ->
       drain g comb F steps fuel st target acc = drain g comb None steps fuel st target acc).
  Proof.
    induction steps as [|k IH]; intros st acc Hl.
    - cbn [drain fst snd]. split; [apply mono_refl|]. split; intros; reflexivity.
    - rewrite !drain_unfold. destruct (pull_sim fuel st target target Hl) as (M & S2 & S3).
      destruct (pull g comb None fuel st target target) as [s1 o1].
      destruct (pull g comb F fuel st target target) as [s2 o2]. cbn [fst snd] in *.
      assert (Hl1 : length s1 = length g) by (destruct M; congruence).
      assert (Ho2 : snd (match o2 with
                         | Got m => drain g comb F k fuel s2 target (acc ++ [m])
                         | Stop => (s2, Ok acc)
                         | Raise => (map kill_ts s2, Err 1)
                         | OutOfFuel => (s2, Err 99)
                         end) <> Err 1 -> o2 <> Raise) by (intros Hr ->; apply Hr; reflexivity).
      destruct o1 as [m1| | |].
      + destruct (IH s1 (acc ++ [m1]) Hl1) as (M' & S2' & S3').
        split; [eapply mono_trans; eauto|]. split.
        * intros Hn. assert (Hn1 : ~ req s1) by (intros X; apply Hn; eapply req_mono; eauto).
          specialize (S2 Hn1). injection S2 as -> ->. apply S2', Hn.
        * intros Hr. specialize (S3 (Ho2 Hr)). injection S3 as -> ->. apply S3', Hr.
      + cbn [fst snd]. split; [exact M|]. split.
        * intros Hn. specialize (S2 Hn). injection S2 as -> ->. reflexivity.
        * intros Hr. specialize (S3 (Ho2 Hr)). injection S3 as -> ->. reflexivity.
      + cbn [fst snd]. split; [eapply mono_trans; [exact M | apply mono_kill]|]. split.
        * intros Hn. assert (Hn1 : ~ req s1) by (intros X; apply Hn; eapply req_mono; [apply mono_kill | exact X]).
          specialize (S2 Hn1). injection S2 as -> ->. reflexivity.
        * intros Hr. specialize (S3 (Ho2 Hr)). injection S3 as -> ->. reflexivity.
      + cbn [fst snd]. split; [exact M|]. split.
        * intros Hn. specialize (S2 Hn). injection S2 as -> ->. reflexivity.
        * intros Hr. specialize (S3 (Ho2 Hr)). injection S3 as -> ->. reflexivity.
  Qed.

  Lemma requested_dec st : req st \/ ~ req st.
  Proof.
    unfold requested. destruct (lt_dec fp (ppos (get st ft))) as [H|H]; [left; left; exact H|].
    destruct (Nat.eq_dec fp (ppos (get st ft))) as [He|Hne]; [|right; intros [X|(X & _)]; lia].
    destruct (pdead (get st ft)) eqn:Ed; [|right; intros [X|(_ & X & _)]; [lia | discriminate]].
    destruct (nth_error g ft) as [[msgs|deps]|] eqn:E.
    - left. right. eauto.
    - right. intros [X|(_ & _ & msgs & X)]; [lia | discriminate].
    - right. intros [X|(_ & _ & msgs & X)]; [lia | discriminate].
  Qed.

  (** 6. The failure at (ft, fp) reaches the caller iff the failure-free run gets producer ft to
      position fp. *)
  Theorem po_fault_fires_iff target spies steps fuel :
    po_hyps g comb target spies steps fuel ->
    (snd (po_run g comb F target spies steps fuel) = Err 1 <->
     requested g (fst (po_run g comb None target spies steps fuel)) ft fp).
  Proof.
    intros Hyp. pose proof Hyp as (Hwf & Hnd & Ht & Hsp & Hfu & Hst).
    assert (Hl : length (init g target spies) = length g)
      by (unfold init; rewrite map_length, combine_length, seq_length; lia).
    destruct (drain_sim target fuel steps (init g target spies) [] Hl) as (_ & S2 & S3).
    fold (po_run g comb None target spies steps fuel) in S2, S3.
    fold (po_run g comb F target spies steps fuel) in S2, S3.
    split.
    - intros HE. destruct (requested_dec (fst (po_run g comb None target spies steps fuel))) as [Hr|Hn]; [exact Hr|].
      exfalso. rewrite (S2 Hn) in HE.
      rewrite (proj1 (po_no_fault_complete _ _ _ _ _ _ Hyp)) in HE. discriminate.
    - intros Hr. destruct (po_never_silently_truncated _ _ _ _ _ _ Hyp F) as [HE|HO]; [exact HE|]. exfalso.
      assert (Hne : snd (po_run g comb F target spies steps fuel) <> Err 1) by (rewrite HO; discriminate).
      rewrite <- (S3 Hne) in Hr.
      pose proof (run_post _ _ _ _ _ _ Hyp F) as HP.
      destruct (po_run g comb F target spies steps fuel) as [stf [out|e]]; cbn [fst snd] in *; [|discriminate].
      destruct HP as (_ & [Hlen HI] & _).
      destruct Hr as [Hlt|(He & Hd & msgs & E)].
      + destruct (le_lt_dec (length g) ft) as [Hge|Hin].
        * unfold get in Hlt. rewrite nth_overflow in Hlt by lia. cbn [ppos] in Hlt. lia.
        * pose proof (ti_nofault _ _ _ _ _ _ _ (HI ft Hin) fp Hlt) as X.
          unfold faulty in X. now rewrite !Nat.eqb_refl in X.
      + assert (Hin : (ft < length g)%nat) by (apply nth_error_Some; congruence).
        pose proof (ti_dead _ _ _ _ _ _ _ (HI ft Hin)) as Hde. rewrite Hd in Hde.
        pose proof (ti_srcend _ _ _ _ _ _ _ (HI ft Hin) (eq_sym Hde) msgs E) as X.
        unfold faulty in X. rewrite <- He in X. now rewrite !Nat.eqb_refl in X.
  Qed.

End Sim.

(* ------------------------------------------------------------------------------------------ *)
(** * Examples: the hypotheses are satisfiable, on graphs with a shared dependency *)

Ltac graph_cases E :=
  repeat match type of E with
         | nth_error _ ?t = _ => is_var t; destruct t; cbn [nth_error] in E
         end; try discriminate E; try (injection E as <-).

(* a diamond: 1 and 2 both read 0 (so topic 0 has to save mail), 3 zips 1 and 2 *)
Definition diamond : list node := [Src [1; 2; 3]; Stage [0%nat]; Stage [0%nat]; Stage [1%nat; 2%nat]].
(* unequal lengths: 2 zips the long 0 with the short 1, 3 also reads 0, 4 zips 2 and 3 *)
Definition lopsided : list node :=
  [Src [1; 2; 3; 4]; Src [10; 20]; Stage [0%nat; 1%nat]; Stage [0%nat]; Stage [3%nat; 2%nat]].

Lemma diamond_wf : wf_graph diamond /\ nodup_deps diamond.
Proof.
  split; intros t deps E; unfold diamond in E; graph_cases E;
    repeat constructor; cbn [In]; try discriminate; intuition discriminate.
Qed.

Lemma lopsided_wf : wf_graph lopsided /\ nodup_deps lopsided.
Proof.
  split; intros t deps E; unfold lopsided in E; graph_cases E;
    repeat constructor; cbn [In]; try discriminate; intuition discriminate.
Qed.

Example diamond_hyps : po_hyps diamond comb_std 3 [true; false; true; true] 10 5.
Proof.
  destruct diamond_wf as [H1 H2]. apply po_hyps_big_fuel; auto; vm_compute; repeat constructor.
Qed.

Example lopsided_hyps : po_hyps lopsided comb_std 4 [true; true; true; false; true] 10 6.
Proof.
  destruct lopsided_wf as [H1 H2]. apply po_hyps_big_fuel; auto; vm_compute; repeat constructor.
Qed.

(* the failure-free diamond: three messages arrive; every spy saw its whole topic and was closed once *)
Example diamond_run :
  snd (po_run diamond comb_std None 3 [true; false; true; true] 10 5)
  = Ok [comb_std 3 [comb_std 1 [1]; comb_std 2 [1]]; comb_std 3 [comb_std 1 [2]; comb_std 2 [2]];
        comb_std 3 [comb_std 1 [3]; comb_std 2 [3]]] /\
  map (fun ts => (spy_log ts, spy_closed ts, saved ts)) (fst (po_run diamond comb_std None 3 [true; false; true; true] 10 5))
  = [([1; 2; 3], 1%nat, []); ([], 0%nat, []);
     ([comb_std 2 [1]; comb_std 2 [2]; comb_std 2 [3]], 0%nat, []);
     (whole_of diamond comb_std 3, 1%nat, [])].
Proof. vm_compute. split; reflexivity. Qed.

(* the theorem instantiated (non-vacuity of po_no_fault_complete) *)
Example diamond_complete :
  snd (po_run diamond comb_std None 3 [true; false; true; true] 10 5) = Ok (whole_of diamond comb_std 3).
Proof. exact (proj1 (po_no_fault_complete _ _ _ _ _ _ diamond_hyps)). Qed.

(* a faulty run: stage 2 fails when it is about to emit its second message *)
Example diamond_faulty_run :
  snd (po_run diamond comb_std (Some (2%nat, 1%nat)) 3 [true; false; true; true] 10 5) = Err 1 /\
  map (fun ts => (spy_log ts, spy_closed ts, exhausted ts)) (fst (po_run diamond comb_std (Some (2%nat, 1%nat)) 3 [true; false; true; true] 10 5))
  = [([1; 2], 1%nat, false); ([], 0%nat, false); ([comb_std 2 [1]], 1%nat, false);
     ([comb_std 3 [comb_std 1 [1]; comb_std 2 [1]]], 1%nat, false)].
Proof. vm_compute. split; reflexivity. Qed.

Example diamond_fired :
  fired (Some (2%nat, 1%nat)) (fst (po_run diamond comb_std (Some (2%nat, 1%nat)) 3 [true; false; true; true] 10 5)).
Proof. apply (po_exception_iff_fired _ _ _ _ _ _ diamond_hyps). vm_compute. reflexivity. Qed.

(* the source failing "at its end" is a failure too; a position that is never reached is not *)
Example diamond_fault_at_source_end :
  snd (po_run diamond comb_std (Some (0%nat, 3%nat)) 3 [true; false; true; true] 10 5) = Err 1.
Proof. vm_compute. reflexivity. Qed.

Example diamond_fault_never_reached :
  snd (po_run diamond comb_std (Some (1%nat, 5%nat)) 3 [true; false; true; true] 10 5)
  = Ok (whole_of diamond comb_std 3).
Proof. apply (po_fault_beyond_end_never_fires _ _ _ _ _ _ diamond_hyps). vm_compute. repeat constructor. Qed.

(* lopsided: topic 0 has four messages but only two are ever needed; a failure at its position 3 is
   never reached, one at position 2 is (stage 3 asks for it before stage 2 hits the end of topic 1) *)
Example lopsided_runs :
  snd (po_run lopsided comb_std None 4 [true; true; true; false; true] 10 6) = Ok (whole_of lopsided comb_std 4) /\
  length (whole_of lopsided comb_std 4) = 2%nat /\
  snd (po_run lopsided comb_std (Some (0%nat, 3%nat)) 4 [true; true; true; false; true] 10 6) = Ok (whole_of lopsided comb_std 4) /\
  snd (po_run lopsided comb_std (Some (0%nat, 2%nat)) 4 [true; true; true; false; true] 10 6) = Err 1.
Proof. vm_compute. repeat split; reflexivity. Qed.

(* [nodup_deps] is needed: with a repeated dependency the two reads of one round share one reader
   cursor in the model (in the real PostOffice the second generator trips the
   `_last_msg_read == msg_number - 1` assertion), and the result is not the zip of the columns *)
Example nodup_deps_needed :
  wf_graph [Src [1; 2]; Stage [0%nat; 0%nat]] /\
  snd (po_run [Src [1; 2]; Stage [0%nat; 0%nat]] comb_std None 1 [false; false] 10 5) = Ok [comb_std 1 [1; 2]] /\
  whole_of [Src [1; 2]; Stage [0%nat; 0%nat]] comb_std 1 = [comb_std 1 [1; 1]; comb_std 1 [2; 2]].
Proof.
  split; [|vm_compute; split; reflexivity].
  intros t deps E. graph_cases E; repeat constructor; discriminate.
Qed.

(* one spy flag per topic is needed: [init] zips the topics with the flags, so missing flags drop topics *)
Example spies_length_needed :
  snd (po_run [Src [1; 2]] comb_std None 0 [] 10 5) = Err 99.
Proof. vm_compute. reflexivity. Qed.

(* po_fault_fires_iff cross-checked by computation for every failure position of the two example graphs *)
Definition requestedb (g : list node) (st : state) (ft fp : nat) : bool :=
  Nat.ltb fp (ppos (get st ft)) ||
  (Nat.eqb fp (ppos (get st ft)) && pdead (get st ft) && match nth_error g ft with Some (Src _) => true | _ => false end).

Definition fires_iff_check (g : list node) (target : nat) (spies : list bool) (steps fuel : nat) : bool :=
  forallb (fun ft => forallb (fun fp =>
      Bool.eqb (match snd (po_run g comb_std (Some (ft, fp)) target spies steps fuel) with Err 1 => true | _ => false end)
               (requestedb g (fst (po_run g comb_std None target spies steps fuel)) ft fp))
    (seq 0 7)) (seq 0 (S (length g))).

Example fires_iff_on_examples :
  fires_iff_check diamond 3 [true; false; true; true] 10 5 = true /\
  fires_iff_check lopsided 4 [true; true; true; false; true] 10 6 = true /\
  fires_iff_check lopsided 2 [true; true; true; false; true] 10 6 = true.
Proof. vm_compute. repeat split; reflexivity. Qed.
(*__END__*)
