(* Refinement: the MiniPy program regenerated from strax/processing/general.py::_find_break_i
   (Gen/FindBreakI.v) computes, for every input, exactly what Model/Intervals.v: find_break_i
   computes: the same index, NoBreakFound, or the AssertionError of `assert len(data) >= 2`. *)
From Coq Require Import String.
From SV Require Import Lang.MiniPy Gen.FindBreakI Model.Intervals.

Definition fb_names : list str := Eval vm_compute in env_names find_break_i_prog.
Definition fb_body : stmt := Eval vm_compute in for_body (fbody find_break_i_prog).
Definition fb_i : str := Eval vm_compute in nth 0 (for_targets (fbody find_break_i_prog)) EmptyString.
Definition fb_d : str := Eval vm_compute in nth 1 (for_targets (fbody find_break_i_prog)) EmptyString.

(* data, safe_break, not_before, latest_end_seen, i, d *)
Definition fb_env (rs : list row) (sb nb les : Z) (iv dv : val) : env :=
  mk_env fb_names [VRows rs; VInt sb; VInt nb; VInt les; iv; dv].

(* Err 1 = NoBreakFound, Err 3 = AssertionError (Model/Intervals.v) *)
Definition embed_fb (r : res nat) : outcome :=
  match r with
  | Ok i => OReturn (VInt (Z.of_nat i))
  | Err c => if c =? 1 then ORaise "NoBreakFound" else if c =? 3 then ORaise "AssertionError" else OStuck
  end.

Lemma fb_step fuel rs sb nb les iv dv k d :
  exec fuel fb_body (bind_all (fb_env rs sb nb les iv dv) [(fb_i, zi k); (fb_d, VRow d)]) =
  match k with
  | O => OContinue (fb_env rs sb nb les (zi k) (VRow d))
  | S _ => if rt d >=? les + sb then OReturn (VInt (Z.of_nat k))
           else ONormal (fb_env rs sb nb (Z.max les (re d)) (zi k) (VRow d))
  end.
Proof.
  unfold fb_body, fb_env, fb_names, fb_i, fb_d. mp_eval.
  mp_step. mp_step.
  destruct k as [|k].
  - cbn [Z.of_nat Z.eqb]. mp_steps. reflexivity.
  - replace (Z.of_nat (S k) =? 0) with false by lia. mp_steps.
    destruct (rt d >=? les + sb); mp_steps; reflexivity.
Qed.

Lemma fb_loop fuel rs sb nb : forall rest k les iv dv,
  exists les' iv' dv',
    iter_list (exec fuel fb_body) (enum_binds fb_i fb_d (S k) (map VRow rest)) (fb_env rs sb nb les iv dv) =
    match fb_go les sb (S k) rest with
    | Some i => OReturn (VInt (Z.of_nat i))
    | None => ONormal (fb_env rs sb nb les' iv' dv')
    end.
Proof.
  induction rest as [|d rest IH]; intros k les iv dv.
  - exists les, iv, dv. reflexivity.
  - cbn [map fb_go]. rewrite enum_binds_cons, iter_list_cons, fb_step.
    destruct (rt d >=? les + sb).
    + exists les, iv, dv. reflexivity.
    + apply IH.
Qed.

Theorem find_break_i_refines fuel rs sb nb :
  run fuel find_break_i_prog [VRows rs; VInt sb; VInt nb] = embed_fb (find_break_i rs sb nb).
Proof.
  unfold run, find_break_i_prog. mp_eval.
  mp_step. mp_step.
  destruct rs as [|d0 [|d1 rest]].
  - rewrite len_z_nil. cbn [Z.geb Z.compare]. mp_steps. reflexivity.
  - rewrite len_z_cons, len_z_nil. cbn [Z.add Z.geb Z.compare Pos.compare Pos.compare_cont]. mp_steps. reflexivity.
  - assert (Hlen : len_z (d0 :: d1 :: rest) >=? 2 = true)
      by (rewrite !len_z_cons; pose proof (len_z_nonneg rest); lia).
    rewrite Hlen. mp_steps. rewrite idx_0. mp_steps.
    cbn [map]. rewrite enum_binds_cons, iter_list_cons. mp_eval. change (Z.of_nat 0) with 0.
    unfold find_break_i.
    remember (d0 :: d1 :: rest) as rs eqn:Ers.
    pose proof (fb_step fuel rs sb nb (Z.max nb (re d0)) VUndef VUndef 0 d0) as H0.
    unfold fb_env, fb_names, fb_i, fb_d, fb_body in H0. mp_eval_in H0. change (Z.of_nat 0) with 0 in H0.
    rewrite H0. clear H0.
    destruct (fb_loop fuel rs sb nb (d1 :: rest) 0%nat (Z.max nb (re d0)) (VInt 0) (VRow d0))
      as (les' & iv' & dv' & Hloop).
    unfold fb_env, fb_names, fb_i, fb_d, fb_body in Hloop. mp_eval_in Hloop.
    change (map VRow (d1 :: rest)) with (VRow d1 :: map VRow rest) in Hloop.
    rewrite Hloop. clear Hloop.
    destruct (fb_go (Z.max nb (re d0)) sb 1 (d1 :: rest)) as [i|].
    + reflexivity.
    + mp_steps. reflexivity.
Qed.

Example find_break_i_prog_runs :
  run 0 find_break_i_prog [VRows [mkrow 0 2 0 0; mkrow 1 3 1 0; mkrow 8 9 2 0]; VInt 5; VInt 0] = OReturn (VInt 2)
  /\ run 0 find_break_i_prog [VRows [mkrow 0 2 0 0; mkrow 1 3 1 0; mkrow 8 9 2 0]; VInt 6; VInt 0] = ORaise "NoBreakFound"
  /\ run 0 find_break_i_prog [VRows [mkrow 0 2 0 0]; VInt 6; VInt 0] = ORaise "AssertionError".
Proof. vm_compute. repeat split; reflexivity. Qed.
