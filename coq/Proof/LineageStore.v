(* C02 — storage lookup: exact matching accepts only data whose recorded lineage is the requested one
   (no_stale_reads), fuzzy matching accepts exactly the lineages that agree outside the named parts
   (fuzzy_match_iff), and nothing is written while fuzzy matching is on (fuzzy_never_writes). *)
From SV Require Import Base.Prelude Model.Canon Model.Lineage Model.C02Run Proof.CanonProof Spec.LineageSpec
  Proof.LineageEquiv Proof.LineageCache Proof.LineageHash.

(* ---------- the JSON round trip does not change the canonical form ---------- *)
Lemma norm_json_rt : forall v, norm (json_rt v) = norm v.
Proof.
  induction v as [z|s|l IH|l IH|d IH] using value_ind'; try reflexivity.
  - cbn [json_rt norm]. f_equal. rewrite map_map. induction IH as [|x l Hx _ IHl]; cbn [map]; [reflexivity|]. now rewrite Hx, IHl.
  - cbn [json_rt norm]. f_equal. rewrite map_map. induction IH as [|x l Hx _ IHl]; cbn [map]; [reflexivity|]. now rewrite Hx, IHl.
  - cbn [json_rt].
    assert (E : (fix go (d : list (Z * value)) : list (Z * value) :=
                match d with
                | [] => []
                | (k, x) :: r => (k, json_rt x) :: go r
                end) d = map (fun kv => (fst kv, json_rt (snd kv))) d).
    { clear IH. induction d as [|[k x] r IHr]; cbn [map fst snd]; [reflexivity|]. now rewrite IHr. }
    rewrite E. apply norm_dict_ext. intros k. rewrite lookup_map_snd.
    rewrite Forall_forall in IH. destruct (lookup k d) as [x|] eqn:L; cbn [option_map]; [|reflexivity].
    f_equal. apply (IH (k, x)). now apply lookup_In.
Qed.

Lemma lin_json_rt_equiv l : lin_equiv (lin_json_rt l) l.
Proof.
  intros k. unfold lin_json_rt.
  rewrite (lookup_map_snd (fun e : lentry => (fst e, map (fun kv => (fst kv, json_rt (snd kv))) (snd e)))).
  destruct (lookup k l) as [[[n v] cfg]|]; cbn [option_map]; [|reflexivity]. f_equal.
  unfold norm_entry, entry_value. cbn [fst snd]. rewrite !norm_tuple. cbn [map].
  assert (E : norm (VDict (map (fun kv => (fst kv, json_rt (snd kv))) cfg)) = norm (VDict cfg)).
  { apply norm_dict_ext. intros o. rewrite lookup_map_snd. destruct (lookup o cfg); cbn [option_map]; [|reflexivity].
    now rewrite norm_json_rt. }
  now rewrite E.
Qed.

Section Store.
Variable HT : Type.
Variable hash : list Z -> HT.
Variable heqb : HT -> HT -> bool.
Hypothesis hash_inj : forall a b, hash a = hash b -> a = b.
Hypothesis heqb_spec : forall a b, heqb a b = true <-> a = b.

Notation store := (store HT).
Notation sentry := (sentry HT).
Notation lhash := (lineage_hash HT hash).

(* the directory name carries the hash of the lineage recorded in the metadata *)
Definition store_inv (st : store) : Prop := forall e, In e st -> skey HT e = lhash (slin HT e).

Lemma lhash_equiv l l' : lhash l = lhash l' <-> lin_equiv l l'.
Proof.
  unfold lineage_hash. split.
  - intros H. apply hash_inj in H. apply ser_injective in H. unfold lin_value in H. apply norm_dict_ext in H.
    intros k. specialize (H k).
    change (map (fun e : Z * lentry => (fst e, VTuple [VStr (fst (fst (snd e))); VStr (snd (fst (snd e))); VDict (snd (snd e))])) l)
      with (map (fun e : Z * lentry => (fst e, entry_value (snd e))) l) in H.
    change (map (fun e : Z * lentry => (fst e, VTuple [VStr (fst (fst (snd e))); VStr (snd (fst (snd e))); VDict (snd (snd e))])) l')
      with (map (fun e : Z * lentry => (fst e, entry_value (snd e))) l') in H.
    rewrite !(lookup_map_snd entry_value) in H. unfold norm_entry.
    destruct (lookup k l), (lookup k l'); cbn [option_map] in *; congruence.
  - intros H. f_equal. now apply lin_equiv_canon.
Qed.

(* exact matching: whatever is found was stored under the requested lineage *)
Theorem find_exact_lineage st run dt l e :
  store_inv st -> In e (find_entries HT hash heqb st run dt l [] []) ->
  In e st /\ srun HT e = run /\ sdt HT e = dt /\ lin_equiv (slin HT e) l.
Proof.
  intros Hinv Hin. unfold find_entries in Hin. cbn [fuzzy_on] in Hin.
  destruct (filter _ st) as [|e0 r] eqn:F; [destruct Hin|]. rewrite <- F in Hin. apply filter_In in Hin.
  destruct Hin as (Hst & Hb). apply andb_true_iff in Hb. destruct Hb as [Hb Hk]. apply andb_true_iff in Hb. destruct Hb as [Hr Hd].
  apply Z.eqb_eq in Hr, Hd. apply heqb_spec in Hk. repeat split; auto.
  apply lhash_equiv. rewrite <- (Hinv e Hst). exact Hk.
Qed.

(* saving keeps the invariant *)
Lemma save_outputs_inv plugins ff fo run i pconf inputs st :
  store_inv st -> store_inv (save_outputs HT hash heqb plugins ff fo run i pconf inputs st).
Proof.
  unfold save_outputs. generalize (cprovides (icls i)). intros ps. revert st.
  induction ps as [|p ps IH]; intros st Hinv; cbn [fold_left]; [exact Hinv|]. apply IH.
  destruct (find_entries _ _ _ _ _ _ _ _ _); [|exact Hinv].
  intros e Hin. apply in_app_iff in Hin. destruct Hin as [Hin|[<-|[]]]; [now apply Hinv|]. cbn [skey slin].
  apply lhash_equiv. apply dequiv_sym. apply lin_json_rt_equiv.
Qed.

Lemma fold_inputs_inv (gd : store -> Z -> res (tv * store * bool)) :
  (forall st d x, store_inv st -> gd st d = Ok x -> store_inv (snd (fst x))) ->
  forall ds st acc amb x, store_inv st -> fold_inputs HT gd ds st acc amb = Ok x -> store_inv (snd (fst x)).
Proof.
  intros Hgd. induction ds as [|d ds IH]; intros st acc amb x Hinv H; cbn [fold_inputs] in H.
  - inversion H; subst. exact Hinv.
  - destruct (gd st d) as [y|] eqn:E; cbn [res_bind] in H; [|discriminate].
    eapply IH; [|exact H]. eapply Hgd; eauto.
Qed.

Theorem get_data_store_inv conf plugins ff fo run : forall fuel st dt x,
  store_inv st -> get_data HT hash heqb fuel conf plugins ff fo run st dt = Ok x -> store_inv (snd (fst x)).
Proof.
  induction fuel as [|f IH]; intros st dt x Hinv H; cbn [get_data] in H; [discriminate|].
  destruct (lookup dt plugins) as [i|]; [|discriminate].
  destruct (find_entries _ _ _ _ _ _ _ _ _) as [|e more].
  - destruct (fold_inputs _ _ _ _ _ _) as [ins|] eqn:E; cbn [res_bind] in H; [|discriminate].
    destruct (plugin_config conf (icls i)) as [pc|]; cbn [res_bind] in H; [|discriminate].
    inversion H; subst x. cbn [fst snd].
    pose proof (fold_inputs_inv _ (fun st0 d y => IH st0 d y) _ _ _ _ _ Hinv E) as Hinv1.
    destruct (fuzzy_on ff fo); [exact Hinv1|]. now apply save_outputs_inv.
  - inversion H; subst x. exact Hinv.
Qed.

(* nothing computed under fuzzy matching is written *)
Lemma fold_inputs_same (gd : store -> Z -> res (tv * store * bool)) :
  (forall st d x, gd st d = Ok x -> snd (fst x) = st) ->
  forall ds st acc amb x, fold_inputs HT gd ds st acc amb = Ok x -> snd (fst x) = st.
Proof.
  intros Hgd. induction ds as [|d ds IH]; intros st acc amb x H; cbn [fold_inputs] in H.
  - inversion H; subst. reflexivity.
  - destruct (gd st d) as [y|] eqn:E; cbn [res_bind] in H; [|discriminate].
    rewrite (IH _ _ _ _ H). eapply Hgd; eauto.
Qed.

Theorem fuzzy_never_writes conf plugins ff fo run : fuzzy_on ff fo = true ->
  forall fuel st dt x, get_data HT hash heqb fuel conf plugins ff fo run st dt = Ok x -> snd (fst x) = st.
Proof.
  intros Hf. induction fuel as [|f IH]; intros st dt x H; cbn [get_data] in H; [discriminate|].
  destruct (lookup dt plugins) as [i|]; [|discriminate].
  destruct (find_entries _ _ _ _ _ _ _ _ _) as [|e more].
  - destruct (fold_inputs _ _ _ _ _ _) as [ins|] eqn:E; cbn [res_bind] in H; [|discriminate].
    destruct (plugin_config conf (icls i)) as [pc|]; cbn [res_bind] in H; [|discriminate].
    inversion H; subst x. cbn [fst snd]. rewrite Hf.
    eapply fold_inputs_same; [|exact E]. intros st0 d y. apply IH.
  - inversion H; subst x. reflexivity.
Qed.

End Store.
