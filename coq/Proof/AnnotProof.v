(* C14, annotation layer: what _split_runs_in_chunk and _merge_subruns_in_chunk compute on span lists.
   Everything is expressed through `clip a b l` = the spans of l restricted to the time range [a, b),
   empty pieces dropped. *)
From SV Require Import Model.Annot Model.Superrun Proof.SuperrunKeyProof.
From Coq Require Import Permutation Sorted.

(* ---------------------------------------------------------------------------------------------
   well-formed annotations
   --------------------------------------------------------------------------------------------- *)
(* every span non-empty, each span ends before the next one starts *)
Definition wfa (l : annot) : Prop :=
  Forall (fun s => sstart s < send s) l /\ StronglySorted (fun a b => send a <= sstart b) l.
Definition keys (l : annot) : list (option Z) := map srun l.
Definition olist (a : option annot) : annot := match a with None => [] | Some l => l end.

Definition covers (a : annot) (r : option Z) (x : Z) : Prop :=
  exists s, In s a /\ srun s = r /\ sstart s <= x < send s.

Lemma wfa_nil : wfa []. Proof. split; constructor. Qed.
Lemma wfa_cons_inv h l : wfa (h :: l) ->
  sstart h < send h /\ Forall (fun b => send h <= sstart b) l /\ wfa l.
Proof.
  intros [H1 H2]. inversion H1; inversion H2; subst. repeat split; auto.
Qed.
Lemma wfa_cons h l : sstart h < send h -> Forall (fun b => send h <= sstart b) l -> wfa l -> wfa (h :: l).
Proof. intros A B [C D]. split; constructor; auto. Qed.

Lemma olist_nie l : olist (none_if_empty l) = l.
Proof. destruct l; reflexivity. Qed.

(* ---------------------------------------------------------------------------------------------
   sorting: sort_spans is the stable insertion sort by start; a well-formed list is left alone
   --------------------------------------------------------------------------------------------- *)
Lemma ins_span_ins_by x l : ins_span x l = ins_by sstart x l.
Proof. induction l as [|y r IH]; cbn; [reflexivity|]. now rewrite IH. Qed.
Lemma sort_spans_sort_by l : sort_spans l = sort_by sstart l.
Proof. reflexivity. Qed.

Lemma sort_spans_perm l : Permutation (sort_spans l) l.
Proof. rewrite sort_spans_sort_by. apply sort_by_perm. Qed.

Lemma sort_spans_sorted l : StronglySorted (fun a b => sstart a <= sstart b) (sort_spans l).
Proof. rewrite sort_spans_sort_by. apply (sort_by_sorted sstart). Qed.

Lemma wfa_sorted_starts l : wfa l -> StronglySorted (key_le sstart) l.
Proof.
  induction l as [|h l IH]; intros H; [constructor|].
  apply wfa_cons_inv in H as (Hh & Hall & Hl). constructor; [auto|].
  eapply Forall_impl; [|exact Hall]. unfold key_le. cbn. intros; lia.
Qed.

Lemma sort_spans_wfa l : wfa l -> sort_spans l = l.
Proof. intros H. rewrite sort_spans_sort_by. apply sort_by_id, wfa_sorted_starts, H. Qed.

Lemma overlapb_wfa l : wfa l -> overlapb l = false.
Proof.
  induction l as [|a l IH]; intros H; [reflexivity|].
  apply wfa_cons_inv in H as (Ha & Hall & Hl).
  destruct l as [|b r]; [reflexivity|].
  change (overlapb (a :: b :: r)) with ((send a >? sstart b) || overlapb (b :: r)).
  inversion Hall; subst. rewrite (IH Hl). destruct (send a >? sstart b) eqn:E; [lia|reflexivity].
Qed.

(* the setters accept a well-formed annotation unchanged *)
Lemma set_subruns_wfa b l : wfa l -> has_none_key l = false -> set_subruns b (Some l) = Ok (Some l).
Proof.
  intros H Hk. unfold set_subruns. rewrite Hk, (sort_spans_wfa l H), (overlapb_wfa l H). reflexivity.
Qed.

(* ---------------------------------------------------------------------------------------------
   clip
   --------------------------------------------------------------------------------------------- *)
Definition clip_span (a b : Z) (s : span) : annot :=
  if Z.max (sstart s) a <? Z.min (send s) b
  then [mkspan (srun s) (Z.max (sstart s) a) (Z.min (send s) b)] else [].
Definition clip (a b : Z) (l : annot) : annot := flat_map (clip_span a b) l.

Lemma clip_cons a b h l : clip a b (h :: l) = clip_span a b h ++ clip a b l.
Proof. reflexivity. Qed.

Lemma pop_empty_app l1 l2 : pop_empty (l1 ++ l2) = pop_empty l1 ++ pop_empty l2.
Proof. unfold pop_empty. apply filter_app. Qed.

Lemma pop_empty_flat_map {A} (f : A -> annot) l :
  pop_empty (flat_map f l) = flat_map (fun x => pop_empty (f x)) l.
Proof.
  induction l as [|x l IH]; cbn [flat_map]; [reflexivity|]. now rewrite pop_empty_app, IH.
Qed.

Lemma flat_map_flat_map {A B C} (f : B -> list C) (g : A -> list B) l :
  flat_map f (flat_map g l) = flat_map (fun x => flat_map f (g x)) l.
Proof.
  induction l as [|x l IH]; cbn [flat_map]; [reflexivity|]. now rewrite flat_map_app, IH.
Qed.

Ltac zb :=
  repeat match goal with
         | |- context [?a <? ?b] => let E := fresh "E" in destruct (a <? b) eqn:E
         | |- context [?a <=? ?b] => let E := fresh "E" in destruct (a <=? b) eqn:E
         | |- context [?a =? ?b] => let E := fresh "E" in destruct (a =? b) eqn:E
         end.

(* one span: the first / second part of _split_runs_in_chunk is the clip to the left / right of t *)
Lemma split_first_clip_span a b t s :
  a <= t <= b ->
  pop_empty (flat_map (split_span_first t) (clip_span a b s)) = clip_span a t s.
Proof.
  intros Ht. unfold clip_span.
  destruct (Z.max (sstart s) a <? Z.min (send s) b) eqn:E1;
    destruct (Z.max (sstart s) a <? Z.min (send s) t) eqn:E2; cbn [flat_map app pop_empty filter];
    try reflexivity; try (exfalso; lia).
  - unfold split_span_first; cbn [sstart send srun].
    zb; cbn [pop_empty filter sstart send srun andb negb app]; zb; cbn [negb];
      try (exfalso; lia); try reflexivity; f_equal; f_equal; lia.
  - unfold split_span_first; cbn [sstart send srun].
    zb; cbn [pop_empty filter sstart send srun andb negb app]; zb; cbn [negb];
      try (exfalso; lia); try reflexivity.
Qed.

Lemma split_second_clip_span a b t s :
  a <= t <= b ->
  pop_empty (flat_map (split_span_second t) (clip_span a b s)) = clip_span t b s.
Proof.
  intros Ht. unfold clip_span.
  destruct (Z.max (sstart s) a <? Z.min (send s) b) eqn:E1;
    destruct (Z.max (sstart s) t <? Z.min (send s) b) eqn:E2; cbn [flat_map app pop_empty filter];
    try reflexivity; try (exfalso; lia).
  - unfold split_span_second; cbn [sstart send srun].
    zb; cbn [pop_empty filter sstart send srun andb negb app]; zb; cbn [negb];
      try (exfalso; lia); try reflexivity; f_equal; f_equal; lia.
  - unfold split_span_second; cbn [sstart send srun].
    zb; cbn [pop_empty filter sstart send srun andb negb app]; zb; cbn [negb];
      try (exfalso; lia); try reflexivity.
Qed.

Lemma split_runs_clip a b t l :
  a <= t <= b ->
  split_runs (none_if_empty (clip a b l)) t = (none_if_empty (clip a t l), none_if_empty (clip t b l)).
Proof.
  intros Ht.
  assert (H1 : pop_empty (flat_map (split_span_first t) (clip a b l)) = clip a t l).
  { unfold clip. rewrite flat_map_flat_map, pop_empty_flat_map.
    apply flat_map_ext. intros s. now apply split_first_clip_span. }
  assert (H2 : pop_empty (flat_map (split_span_second t) (clip a b l)) = clip t b l).
  { unfold clip. rewrite flat_map_flat_map, pop_empty_flat_map.
    apply flat_map_ext. intros s. now apply split_second_clip_span. }
  destruct (clip a b l) as [|x r] eqn:E.
  - cbn [none_if_empty split_runs]. cbn in H1, H2. rewrite <- H1, <- H2. reflexivity.
  - cbn [none_if_empty]. unfold split_runs. now rewrite H1, H2.
Qed.

(* clipping to a range that contains every span changes nothing *)
Lemma clip_span_id a b s : a <= sstart s -> send s <= b -> sstart s < send s -> clip_span a b s = [s].
Proof.
  intros. unfold clip_span. rewrite Z.max_l, Z.min_l by lia.
  destruct (sstart s <? send s) eqn:E; [|lia]. destruct s; reflexivity.
Qed.
Lemma clip_id a b l :
  Forall (fun s => a <= sstart s /\ send s <= b /\ sstart s < send s) l -> clip a b l = l.
Proof.
  induction 1 as [|s l (H1 & H2 & H3) _ IH]; [reflexivity|].
  rewrite clip_cons, clip_span_id, IH by auto. reflexivity.
Qed.

(* semantics of clip *)
Lemma covers_clip a b l r x : covers (clip a b l) r x <-> covers l r x /\ a <= x < b.
Proof.
  unfold covers, clip. split.
  - intros (s & Hin & Hr & Hx). apply in_flat_map in Hin as (s0 & Hin0 & Hs).
    unfold clip_span in Hs. destruct (_ <? _) eqn:E; [|destruct Hs].
    destruct Hs as [<-|[]]. cbn [srun sstart send] in *. split; [exists s0; repeat split; auto; lia|lia].
  - intros ((s & Hin & Hr & Hx) & Hab).
    exists (mkspan (srun s) (Z.max (sstart s) a) (Z.min (send s) b)). cbn [srun sstart send].
    split; [|split; [auto|lia]].
    apply in_flat_map. exists s. split; auto. unfold clip_span.
    destruct (_ <? _) eqn:E; [left; reflexivity|lia].
Qed.

Lemma clip_Forall a b l :
  Forall (fun s => sstart s < send s /\ a <= sstart s /\ send s <= b) (clip a b l).
Proof.
  apply Forall_forall. intros s Hin. apply in_flat_map in Hin as (s0 & _ & Hs).
  unfold clip_span in Hs. destruct (_ <? _) eqn:E; [|destruct Hs].
  destruct Hs as [<-|[]]. cbn [srun sstart send]. lia.
Qed.

Lemma clip_keys_incl a b l : incl (keys (clip a b l)) (keys l).
Proof.
  intros k Hk. unfold keys in *. apply in_map_iff in Hk as (s & <- & Hin).
  apply in_flat_map in Hin as (s0 & Hin0 & Hs). unfold clip_span in Hs.
  destruct (_ <? _); [|destruct Hs]. destruct Hs as [<-|[]]. cbn [srun]. apply in_map, Hin0.
Qed.

Lemma clip_span_keys a b s : clip_span a b s = [] \/ exists x, clip_span a b s = [x] /\ srun x = srun s.
Proof. unfold clip_span. destruct (_ <? _); [right; eexists; split; reflexivity|left; reflexivity]. Qed.

Lemma clip_NoDup a b l : NoDup (keys l) -> NoDup (keys (clip a b l)).
Proof.
  induction l as [|h l IH]; intros H; [constructor|].
  cbn [keys map] in H. inversion H as [|? ? Hn Hd]; subst.
  rewrite clip_cons. destruct (clip_span_keys a b h) as [->|(x & -> & Hx)]; cbn [app]; [apply IH, Hd|].
  cbn [keys map]. constructor; [|apply IH, Hd].
  rewrite Hx. intros Hin. apply Hn. eapply clip_keys_incl, Hin.
Qed.

Lemma clip_wfa a b l : wfa l -> wfa (clip a b l).
Proof.
  induction l as [|h l IH]; intros H; [apply wfa_nil|].
  apply wfa_cons_inv in H as (Hh & Hall & Hl).
  rewrite clip_cons. unfold clip_span at 1. destruct (_ <? _) eqn:E; cbn [app]; [|apply IH, Hl].
  apply wfa_cons; cbn [sstart send]; [lia| |apply IH, Hl].
  apply Forall_forall. intros s Hin. apply in_flat_map in Hin as (s0 & Hin0 & Hs).
  unfold clip_span in Hs. destruct (Z.max (sstart s0) a <? Z.min (send s0) b) eqn:E2; [|destruct Hs].
  destruct Hs as [<-|[]].
  cbn [sstart]. rewrite Forall_forall in Hall. specialize (Hall _ Hin0). lia.
Qed.

(* nothing of a list that starts at or after t lies before t; nothing that ends by t lies after *)
Lemma clip_left_nil a t l : Forall (fun s => t <= sstart s) l -> clip a t l = [].
Proof.
  induction 1 as [|s l Hs _ IH]; [reflexivity|].
  rewrite clip_cons, IH. unfold clip_span. destruct (_ <? _) eqn:E; [lia|reflexivity].
Qed.
Lemma clip_right_nil t b l : Forall (fun s => send s <= t) l -> clip t b l = [].
Proof.
  induction 1 as [|s l Hs _ IH]; [reflexivity|].
  rewrite clip_cons, IH. unfold clip_span. destruct (_ <? _) eqn:E; [lia|reflexivity].
Qed.

(* ---------------------------------------------------------------------------------------------
   annot_split_spec
   --------------------------------------------------------------------------------------------- *)
Lemma split_runs_general l t lo hi :
  Forall (fun s => lo <= sstart s /\ send s <= hi /\ sstart s < send s) l -> lo <= t <= hi ->
  split_runs (Some l) t = (none_if_empty (clip lo t l), none_if_empty (clip t hi l)).
Proof.
  intros Hall Ht.
  destruct l as [|h r] eqn:El; [reflexivity|]. rewrite <- El in *.
  pose proof (split_runs_clip lo hi t l Ht) as H. rewrite (clip_id lo hi l Hall) in H.
  rewrite El in H at 1. cbn [none_if_empty] in H. rewrite El. rewrite El in H. exact H.
Qed.

(* bounds that contain a finite list of spans *)
Fixpoint lo_of (l : annot) (d : Z) : Z := match l with [] => d | s :: r => Z.min (sstart s) (lo_of r d) end.
Fixpoint hi_of (l : annot) (d : Z) : Z := match l with [] => d | s :: r => Z.max (send s) (hi_of r d) end.
Lemma lo_of_le l d : lo_of l d <= d /\ Forall (fun s => lo_of l d <= sstart s) l.
Proof.
  induction l as [|s r [IH1 IH2]]; cbn [lo_of]; [split; [lia|constructor]|].
  split; [lia|]. constructor; [lia|]. eapply Forall_impl; [|exact IH2]. cbn; intros; lia.
Qed.
Lemma hi_of_ge l d : d <= hi_of l d /\ Forall (fun s => send s <= hi_of l d) l.
Proof.
  induction l as [|s r [IH1 IH2]]; cbn [hi_of]; [split; [lia|constructor]|].
  split; [lia|]. constructor; [lia|]. eapply Forall_impl; [|exact IH2]. cbn; intros; lia.
Qed.

Theorem annot_split_spec l t a1 a2 :
  wfa l -> split_runs (Some l) t = (a1, a2) ->
  (forall r x, covers (olist a1) r x <-> covers l r x /\ x < t) /\
  (forall r x, covers (olist a2) r x <-> covers l r x /\ t <= x) /\
  wfa (olist a1) /\ wfa (olist a2) /\
  Forall (fun s => send s <= t) (olist a1) /\ Forall (fun s => t <= sstart s) (olist a2) /\
  a1 <> Some [] /\ a2 <> Some [] /\
  incl (keys (olist a1)) (keys l) /\ incl (keys (olist a2)) (keys l) /\
  (NoDup (keys l) -> NoDup (keys (olist a1)) /\ NoDup (keys (olist a2))).
Proof.
  intros Hwf Hs.
  set (lo := lo_of l t). set (hi := hi_of l t).
  destruct (lo_of_le l t) as [Hlo1 Hlo2]. destruct (hi_of_ge l t) as [Hhi1 Hhi2]. fold lo in Hlo1, Hlo2. fold hi in Hhi1, Hhi2.
  assert (Hall : Forall (fun s => lo <= sstart s /\ send s <= hi /\ sstart s < send s) l).
  { destruct Hwf as [Hne _]. rewrite Forall_forall in *. intros s Hin. auto. }
  assert (Hg : split_runs (Some l) t = (none_if_empty (clip lo t l), none_if_empty (clip t hi l)))
    by (apply split_runs_general; auto; lia).
  rewrite Hg in Hs. inversion Hs; subst a1 a2. clear Hs Hg.
  rewrite !olist_nie.
  assert (Hc : forall r x, covers l r x -> lo <= x < hi).
  { intros r x (s & Hin & _ & Hx). rewrite Forall_forall in Hall. specialize (Hall _ Hin). lia. }
  repeat split.
  - apply covers_clip in H. tauto.
  - apply covers_clip in H. lia.
  - intros [H1 H2]. apply covers_clip. split; auto. specialize (Hc _ _ H1). lia.
  - apply covers_clip in H. tauto.
  - apply covers_clip in H. lia.
  - intros [H1 H2]. apply covers_clip. split; auto. specialize (Hc _ _ H1). lia.
  - apply (clip_wfa lo t l Hwf).
  - apply (clip_wfa lo t l Hwf).
  - apply (clip_wfa t hi l Hwf).
  - apply (clip_wfa t hi l Hwf).
  - eapply Forall_impl; [|apply clip_Forall]. cbn; intros; lia.
  - eapply Forall_impl; [|apply clip_Forall]. cbn; intros; lia.
  - destruct (clip lo t l); discriminate.
  - destruct (clip t hi l); discriminate.
  - apply clip_keys_incl.
  - apply clip_keys_incl.
  - now apply clip_NoDup.
  - now apply clip_NoDup.
Qed.

(* the hypotheses are met by a concrete non-trivial state *)
Example annot_split_example :
  let l := [mkspan (Some 1) 0 4; mkspan (Some 2) 6 10] in
  wfa l /\ split_runs (Some l) 8 = (Some [mkspan (Some 1) 0 4; mkspan (Some 2) 6 8], Some [mkspan (Some 2) 8 10]).
Proof.
  cbn zeta. split; [|vm_compute; reflexivity].
  split; repeat constructor; cbn; lia.
Qed.

(* ---------------------------------------------------------------------------------------------
   merging the annotations of adjacent chunks: _merge_runs_in_chunk + _mergable_check
   --------------------------------------------------------------------------------------------- *)
Definition add_spans (l : annot) (m : runmap) : runmap :=
  fold_left (fun m s => add_run (srun s) (sstart s, send s) m) l m.

Lemma merge_runs_nie l m : merge_runs (none_if_empty l) m = add_spans l m.
Proof. destruct l; reflexivity. Qed.
Lemma merge_runs_Some l m : merge_runs (Some l) m = add_spans l m.
Proof. reflexivity. Qed.

Lemma opt_eqb_refl k : opt_eqb k k = true.
Proof. destruct k; cbn; [apply Z.eqb_refl|reflexivity]. Qed.
Lemma opt_eqb_eq a b : opt_eqb a b = true <-> a = b.
Proof.
  destruct a, b; cbn; split; intros H; try discriminate; try reflexivity.
  - apply Z.eqb_eq in H. now subst.
  - inversion H. apply Z.eqb_refl.
Qed.
Lemma opt_eqb_neq a b : a <> b -> opt_eqb a b = false.
Proof. intros H. destruct (opt_eqb a b) eqn:E; [|reflexivity]. apply opt_eqb_eq in E. contradiction. Qed.

(* spans whose keys differ from k pass an entry for k by *)
Lemma add_spans_skip k L l m :
  ~ In k (keys l) -> add_spans l ((k, L) :: m) = (k, L) :: add_spans l m.
Proof.
  revert m. induction l as [|s l IH]; intros m Hk; [reflexivity|].
  cbn [keys map In] in Hk. unfold add_spans in *. cbn [fold_left add_run].
  rewrite opt_eqb_neq by (intros E; apply Hk; left; auto).
  apply IH. intros Hin. apply Hk; right; exact Hin.
Qed.

Lemma sort_pairs_two a b c d : a < c -> sort_pairs [(a, b); (c, d)] = [(a, b); (c, d)].
Proof.
  intros H. unfold sort_pairs. cbn [fold_left ins_pair fst].
  destruct (c <? a) eqn:E; [lia|reflexivity].
Qed.

(* the central fact: the annotation of [a,t) and the annotation of [t,b) merge to the annotation of [a,b) *)
Lemma merge_clips a t b l :
  a <= t <= b -> wfa l -> NoDup (keys l) ->
  mergable_check (add_spans (clip t b l) (add_spans (clip a t l) [])) false = Ok (clip a b l).
Proof.
  intros Ht. induction l as [|h l IH]; intros Hwf Hnd; [reflexivity|].
  apply wfa_cons_inv in Hwf as (Hh & Hall & Hl).
  cbn [keys map] in Hnd. inversion Hnd as [|? ? Hnk Hnd']; subst.
  specialize (IH Hl Hnd').
  assert (HkA : forall x y, ~ In (srun h) (keys (clip x y l))).
  { intros x y Hin. apply Hnk. eapply clip_keys_incl, Hin. }
  rewrite !clip_cons.
  unfold clip_span at 1 2 3.
  destruct (Z.max (sstart h) a <? Z.min (send h) t) eqn:E1;
    destruct (Z.max (sstart h) t <? Z.min (send h) b) eqn:E2;
    destruct (Z.max (sstart h) a <? Z.min (send h) b) eqn:E3; try (exfalso; lia); cbn [app].
  - (* the head span straddles t *)
    assert (Hnil : clip a t l = []).
    { apply clip_left_nil. eapply Forall_impl; [|exact Hall]. cbn; intros; lia. }
    rewrite Hnil in *. cbn [app].
    unfold add_spans at 2. cbn [fold_left add_run srun sstart send].
    unfold add_spans at 1. cbn [fold_left add_run srun sstart send]. rewrite opt_eqb_refl. cbn [app].
    change (fold_left _ (clip t b l) ?m) with (add_spans (clip t b l) m).
    rewrite add_spans_skip by apply HkA.
    cbn [mergable_check]. rewrite sort_pairs_two by lia.
    cbn [contiguous_pairs fst snd].
    assert (Hm : (Z.max (sstart h) t =? Z.min (send h) t) = true) by lia.
    rewrite Hm. cbn [andb hd last fst snd].
    unfold add_spans in IH at 2. cbn [fold_left] in IH. rewrite IH. cbn [res_bind].
    first [reflexivity | f_equal; f_equal; f_equal; lia].
  - (* only left of t *)
    unfold add_spans at 2. cbn [fold_left add_run srun sstart send].
    change (fold_left _ (clip a t l) ?m) with (add_spans (clip a t l) m).
    rewrite add_spans_skip by apply HkA. rewrite add_spans_skip by apply HkA.
    cbn [mergable_check]. unfold sort_pairs. cbn [fold_left ins_pair contiguous_pairs hd last fst snd].
    rewrite IH. cbn [res_bind]. first [reflexivity | f_equal; f_equal; f_equal; lia].
  - (* only right of t *)
    assert (Hnil : clip a t l = []).
    { apply clip_left_nil. eapply Forall_impl; [|exact Hall]. cbn; intros; lia. }
    rewrite Hnil in *.
    unfold add_spans at 1 2. cbn [fold_left add_run srun sstart send].
    change (fold_left _ (clip t b l) ?m) with (add_spans (clip t b l) m).
    rewrite add_spans_skip by apply HkA.
    cbn [mergable_check]. unfold sort_pairs. cbn [fold_left ins_pair contiguous_pairs hd last fst snd].
    unfold add_spans in IH at 2. cbn [fold_left] in IH. rewrite IH. cbn [res_bind].
    first [reflexivity | f_equal; f_equal; f_equal; lia].
  - exact IH.
Qed.

(* annot_concat_inverse on span lists: split a well-formed annotation anywhere, merge the halves as
   Chunk.concatenate does (continuous mode): the original annotation *)
Theorem annot_concat_inverse l t a1 a2 :
  wfa l -> NoDup (keys l) -> split_runs (Some l) t = (a1, a2) ->
  mergable_check (merge_runs a2 (merge_runs a1 [])) false = Ok l.
Proof.
  intros Hwf Hnd Hs.
  set (lo := lo_of l t). set (hi := hi_of l t).
  destruct (lo_of_le l t) as [Hlo1 Hlo2]. destruct (hi_of_ge l t) as [Hhi1 Hhi2]. fold lo in Hlo1, Hlo2. fold hi in Hhi1, Hhi2.
  assert (Hall : Forall (fun s => lo <= sstart s /\ send s <= hi /\ sstart s < send s) l).
  { destruct Hwf as [Hne _]. rewrite Forall_forall in *. intros s Hin. auto. }
  assert (Hg : split_runs (Some l) t = (none_if_empty (clip lo t l), none_if_empty (clip t hi l)))
    by (apply split_runs_general; auto; lia).
  rewrite Hg in Hs. inversion Hs; subst a1 a2.
  rewrite !merge_runs_nie, (merge_clips lo t hi l) by (auto; lia).
  now rewrite (clip_id lo hi l Hall).
Qed.

(* when the split leaves the annotation alone (promised_continuity = False) both halves carry l; the
   continuous mode refuses, the fall-back to merge mode returns l again *)
Lemma add_spans_fresh l : NoDup (keys l) ->
  add_spans l [] = map (fun s => (srun s, [(sstart s, send s)])) l.
Proof.
  induction l as [|h l IH]; intros Hnd; [reflexivity|].
  cbn [keys map] in Hnd. inversion Hnd; subst.
  unfold add_spans. cbn [fold_left add_run map].
  change (fold_left _ l ?m) with (add_spans l m). rewrite add_spans_skip by assumption.
  now rewrite IH.
Qed.

Lemma add_spans_again l : NoDup (keys l) ->
  add_spans l (map (fun s => (srun s, [(sstart s, send s)])) l)
  = map (fun s => (srun s, [(sstart s, send s); (sstart s, send s)])) l.
Proof.
  induction l as [|h l IH]; intros Hnd; [reflexivity|].
  cbn [keys map] in Hnd. inversion Hnd; subst.
  unfold add_spans. cbn [fold_left add_run map]. rewrite opt_eqb_refl. cbn [app].
  change (fold_left _ l ?m) with (add_spans l m). rewrite add_spans_skip by assumption.
  now rewrite IH.
Qed.

Lemma mergable_dup_merge l :
  mergable_check (map (fun s => (srun s, [(sstart s, send s); (sstart s, send s)])) l) true = Ok l.
Proof.
  induction l as [|h l IH]; [reflexivity|].
  cbn [map mergable_check]. unfold sort_pairs. cbn [fold_left ins_pair fst].
  rewrite Z.ltb_irrefl. cbn [same_pairs forallb fst snd]. rewrite !Z.eqb_refl. cbn [andb hd last fst snd].
  rewrite IH. cbn [res_bind]. destruct h; reflexivity.
Qed.

Lemma mergable_dup_cont h l : sstart h < send h ->
  mergable_check (map (fun s => (srun s, [(sstart s, send s); (sstart s, send s)])) (h :: l)) false = Err E_NOT_CONT.
Proof.
  intros H. cbn [map mergable_check]. unfold sort_pairs. cbn [fold_left ins_pair fst].
  rewrite Z.ltb_irrefl. cbn [contiguous_pairs fst snd].
  destruct (sstart h =? send h) eqn:E; [lia|reflexivity].
Qed.

Theorem annot_concat_unsplit l :
  wfa l -> NoDup (keys l) ->
  mergable_check (merge_runs (Some l) (merge_runs (Some l) [])) true = Ok l /\
  (l <> [] -> mergable_check (merge_runs (Some l) (merge_runs (Some l) [])) false = Err E_NOT_CONT).
Proof.
  intros Hwf Hnd. rewrite !merge_runs_Some, add_spans_fresh, add_spans_again by assumption.
  split; [apply mergable_dup_merge|].
  intros Hne. destruct l as [|h r]; [contradiction|].
  apply mergable_dup_cont. destruct Hwf as [Hne' _]. now inversion Hne'.
Qed.


(* ---------------------------------------------------------------------------------------------
   more about clip: a range that begins with a stretch nothing covers; where the spans of a clip come from
   --------------------------------------------------------------------------------------------- *)
Lemma clip_span_gap_prefix a t b s :
  a <= t -> sstart s < send s -> clip_span a t s = [] -> clip_span a b s = clip_span t b s.
Proof.
  intros Hat Hs. unfold clip_span.
  destruct (Z.max (sstart s) a <? Z.min (send s) t) eqn:E1; [discriminate|]. intros _.
  destruct (Z.max (sstart s) a <? Z.min (send s) b) eqn:E2;
    destruct (Z.max (sstart s) t <? Z.min (send s) b) eqn:E3; try reflexivity; try (exfalso; lia).
  f_equal. f_equal; lia.
Qed.

Lemma clip_gap_prefix a t b l :
  a <= t -> wfa l -> clip a t l = [] -> clip a b l = clip t b l.
Proof.
  intros Hat [Hne _]. induction l as [|s l IH]; [reflexivity|].
  inversion Hne as [|? ? Hs Hne']; subst. rewrite !clip_cons. intros H.
  apply app_eq_nil in H as [H1 H2]. rewrite (clip_span_gap_prefix a t b s Hat Hs H1), (IH Hne' H2). reflexivity.
Qed.

Lemma clip_in a b l s :
  In s (clip a b l) ->
  exists s0, In s0 l /\ srun s = srun s0 /\ sstart s = Z.max (sstart s0) a /\ send s = Z.min (send s0) b /\
             sstart s < send s.
Proof.
  intros Hin. apply in_flat_map in Hin as (s0 & Hin0 & Hs). exists s0. split; [exact Hin0|].
  unfold clip_span in Hs. destruct (_ <? _) eqn:E; [|destruct Hs]. destruct Hs as [<-|[]].
  cbn [srun sstart send]. repeat split; lia.
Qed.

(* two entries of a dict with pairwise different keys that have the same key are the same entry *)
Lemma nodup_keys_unique l s1 s2 :
  NoDup (keys l) -> In s1 l -> In s2 l -> srun s1 = srun s2 -> s1 = s2.
Proof.
  induction l as [|h l IH]; intros Hnd H1 H2 Hk; [destruct H1|].
  cbn [keys map] in Hnd. inversion Hnd as [|? ? Hn Hnd']; subst.
  destruct H1 as [->|H1], H2 as [->|H2]; auto.
  - exfalso. apply Hn. rewrite Hk. apply in_map, H2.
  - exfalso. apply Hn. rewrite <- Hk. apply in_map, H1.
Qed.
