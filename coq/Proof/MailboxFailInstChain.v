(* All-schedule theorems for concrete chains (see Proof/MailboxFailInstances.v): every thread x every failure
   position, consumer exception / close, failure-free completion. *)
From SV Require Import Base.Prelude Model.Mailbox Model.MailboxFail Model.C06Run Model.C06Nets
  Spec.MailboxFailSpec Proof.MailboxFailReach Proof.MailboxFailInstances.
Local Open Scope nat_scope.

Definition chk_chain (sp : chain_spec) (n ft fp : nat) : bool :=
  check_netM (chain_net sp true (Some (ft, fp, boom)) None) (chain_init sp true (Some (ft, fp, boom)) None)
             (chain_main sp) n (OErr (EOrig boom)) FUEL.
Definition chk_consumer (sp : chain_spec) (n k : nat) (close : bool) (c : nat) : bool :=
  check_netM (chain_net sp true None (Some (k, close, cexc))) (chain_init sp true None (Some (k, close, cexc)))
             (chain_main sp) n (OErr (EOrig c)) FUEL.

(* ---------- chain A: two stages, saver on the target, 1 chunk, max_messages 1, eager ---------- *)
Definition chainA : chain_spec := mkChain 1 [1; 1] [0; 1] false false.
(* threads: 0, 1 the stages; 2 saver of s1; 3 the caller *)
Lemma chainA_positions : forallb (fun p => chk_chain chainA 1 (fst p) (snd p)) (list_prod (seq 0 3) (seq 0 2)) = true.
Proof. vm_cast_no_check (eq_refl true). Qed.
Theorem chainA_failure_reaches_caller ft fp :
  ft < 3 -> fp <= 1 ->
  failure_reaches_caller (chain_net chainA true (Some (ft, fp, boom)) None)
                         (chain_init chainA true (Some (ft, fp, boom)) None) (chain_main chainA) 1 boom.
Proof.
  intros Ha Hb. apply check_netM_sound with (fuel := FUEL).
  exact (forall_positions (chk_chain chainA 1) 3 2 chainA_positions ft fp Ha (proj2 (Nat.lt_succ_r fp 1) Hb)).
Qed.

Lemma chainA_consumer_chk :
  chk_consumer chainA 1 0 false cexc && chk_consumer chainA 1 0 true C_GENEXIT = true.
Proof. vm_cast_no_check (eq_refl true). Qed.
Theorem chainA_consumer_exception :
  failure_reaches_caller (chain_net chainA true None (Some (0, false, cexc)))
                         (chain_init chainA true None (Some (0, false, cexc))) (chain_main chainA) 1 cexc.
Proof.
  apply check_netM_sound with (fuel := FUEL). pose proof chainA_consumer_chk as H.
  apply andb_true_iff in H. exact (proj1 H).
Qed.
Theorem chainA_consumer_close :
  failure_reaches_caller (chain_net chainA true None (Some (0, true, cexc)))
                         (chain_init chainA true None (Some (0, true, cexc))) (chain_main chainA) 1 C_GENEXIT.
Proof.
  apply check_netM_sound with (fuel := FUEL). pose proof chainA_consumer_chk as H.
  apply andb_true_iff in H. exact (proj2 H).
Qed.
Theorem chainA_completes :
  completes (chain_net chainA true None None) (chain_init chainA true None None) (chain_main chainA) 1.
Proof. apply check_complete_sound with (fuel := FUEL). vm_cast_no_check (eq_refl true). Qed.

(* ---------- chain S: two stages, savers on the intermediate output and on the target, 1 chunk, eager:
   the failing thread is a saver (2: of the intermediate output, 3: of the target) ---------- *)
Definition chainS : chain_spec := mkChain 1 [1; 1] [1; 1] false false.
Lemma chainS_positions : forallb (fun ft => forallb (fun fp => chk_chain chainS 1 ft fp) [0; 1]) [2; 3] = true.
Proof. vm_cast_no_check (eq_refl true). Qed.
Theorem chainS_saver_failure_reaches_caller ft fp :
  (ft = 2 \/ ft = 3) -> fp <= 1 ->
  failure_reaches_caller (chain_net chainS true (Some (ft, fp, boom)) None)
                         (chain_init chainS true (Some (ft, fp, boom)) None) (chain_main chainS) 1 boom.
Proof.
  intros Ha Hb. apply check_netM_sound with (fuel := FUEL).
  pose proof chainS_positions as H. rewrite forallb_forall in H.
  assert (Hf : In ft [2; 3]) by (destruct Ha as [-> | ->]; cbn; auto).
  specialize (H ft Hf). rewrite forallb_forall in H.
  assert (Hp : In fp [0; 1]) by (destruct fp as [|[|fp]]; cbn; auto; lia).
  exact (H fp Hp).
Qed.

(* ---------- chain B: lazy, through Context.get_iter, 2 chunks, max_messages 2 / 1, saver on the target ---------- *)
Definition chainB : chain_spec := mkChain 2 [2; 1] [0; 1] true true.
(* threads: 0, 1 the stages; 2 saver of s1; 3 the caller *)
Lemma chainB_positions : forallb (fun p => chk_chain chainB 2 (fst p) (snd p)) (list_prod (seq 0 3) (seq 0 3)) = true.
Proof. vm_cast_no_check (eq_refl true). Qed.
Theorem chainB_failure_reaches_caller ft fp :
  ft < 3 -> fp <= 2 ->
  failure_reaches_caller (chain_net chainB true (Some (ft, fp, boom)) None)
                         (chain_init chainB true (Some (ft, fp, boom)) None) (chain_main chainB) 2 boom.
Proof.
  intros Ha Hb. apply check_netM_sound with (fuel := FUEL).
  exact (forall_positions (chk_chain chainB 2) 3 3 chainB_positions ft fp Ha (proj2 (Nat.lt_succ_r fp 2) Hb)).
Qed.
Lemma chainB_consumer_chk :
  forallb (fun k => chk_consumer chainB 2 k true C_OUTSIDE && chk_consumer chainB 2 k false cexc) [0; 1] = true.
Proof. vm_cast_no_check (eq_refl true). Qed.
Theorem chainB_consumer_close k :
  k < 2 ->
  failure_reaches_caller (chain_net chainB true None (Some (k, true, cexc)))
                         (chain_init chainB true None (Some (k, true, cexc))) (chain_main chainB) 2 C_OUTSIDE.
Proof.
  intros Hk. apply check_netM_sound with (fuel := FUEL).
  pose proof chainB_consumer_chk as H. rewrite forallb_forall in H.
  assert (Hi : In k [0; 1]) by (destruct k as [|[|k]]; cbn; auto; lia).
  specialize (H k Hi). apply andb_true_iff in H. exact (proj1 H).
Qed.
Theorem chainB_consumer_exception k :
  k < 2 ->
  failure_reaches_caller (chain_net chainB true None (Some (k, false, cexc)))
                         (chain_init chainB true None (Some (k, false, cexc))) (chain_main chainB) 2 cexc.
Proof.
  intros Hk. apply check_netM_sound with (fuel := FUEL).
  pose proof chainB_consumer_chk as H. rewrite forallb_forall in H.
  assert (Hi : In k [0; 1]) by (destruct k as [|[|k]]; cbn; auto; lia).
  specialize (H k Hi). apply andb_true_iff in H. exact (proj2 H).
Qed.
Theorem chainB_completes :
  completes (chain_net chainB true None None) (chain_init chainB true None None) (chain_main chainB) 2.
Proof. apply check_complete_sound with (fuel := FUEL). vm_cast_no_check (eq_refl true). Qed.

(* ---------- chain C: three stages, one chunk, eager and lazy ---------- *)
Definition chainC (lz : bool) : chain_spec := mkChain 1 [1; 1; 1] [0; 0; 0] lz false.
Lemma chainC_positions :
  forallb (fun lz => forallb (fun p => chk_chain (chainC lz) 1 (fst p) (snd p)) (list_prod (seq 0 3) (seq 0 2)))
          [false; true] = true.
Proof. vm_cast_no_check (eq_refl true). Qed.
Theorem chainC_failure_reaches_caller lz ft fp :
  ft < 3 -> fp <= 1 ->
  failure_reaches_caller (chain_net (chainC lz) true (Some (ft, fp, boom)) None)
                         (chain_init (chainC lz) true (Some (ft, fp, boom)) None) (chain_main (chainC lz)) 1 boom.
Proof.
  intros Ha Hb. apply check_netM_sound with (fuel := FUEL).
  pose proof chainC_positions as H. rewrite forallb_forall in H.
  assert (Hl : In lz [false; true]) by (destruct lz; cbn; auto).
  exact (forall_positions (chk_chain (chainC lz) 1) 3 2 (H lz Hl) ft fp Ha (proj2 (Nat.lt_succ_r fp 1) Hb)).
Qed.
