(* C01 on top of C08: the alignment hypothesis of the graph theorem is discharged for Plugin.iter itself
   (align_iter = plugin_iter of Model/PluginIter.v) from C08's theorems
     iter_total_below_pass_limit_thm (C08_iter_total_below_pass_limit),
     iter_calls_aligned_thm          (C08_iter_calls_aligned),
   and the additional fact of Proof/NetworkIterCalls.v (no call before the last ends at the end of the run).
   The precondition on the whole-run rows of the two inputs, iter_pre, is:
     * no zero-length row in either input (then every chunk that holds its rows is tight; a zero-length row can be
       left on the exclusive end of a call by an early split -- design_notes/C01.md finding F1 (c)),
     * at every time y the staircase of mutually straddling rows settles within the pass limit (C08 / T4).
   Same-kind merges need nothing more: aligned tight calls hold equally many rows of both inputs
   (NetworkLoopProof.aligned_equal_len). *)
From SV Require Import Model.Rows Model.SplitArray Model.Chunk Model.Rechunker Model.PluginIter Model.NetworkIter
     Proof.RowsFacts Proof.ChunkProof Proof.ConcatProof Proof.RechunkerProof
     Proof.PluginIterProof Proof.PluginIterRound Proof.PluginIterLoop Proof.PluginIterSafety Proof.PluginIterStair
     Proof.PluginIterTotal Proof.PluginIterTotal2 Proof.PluginIterTotal3 Proof.NetworkIterCalls
     Proof.NetworkProof Proof.NetworkDownProof Proof.NetworkLoopProof Proof.NetworkGraphProof.

Definition pos (R : list row) : Prop := Forall (fun r => rt r < re r) R.

Definition iter_pre (R1 R2 : list row) : Prop :=
  pos R1 /\ pos R2 /\ forall y, exists y', stair_ok [R1; R2] max_passes y y'.

Lemma chain_conv : forall cs a b, PluginIterProof.chain a cs b <-> RechunkerProof.chain a cs b.
Proof. induction cs as [|c cs IH]; intros a b; cbn; [tauto|]. rewrite IH. tauto. Qed.

Lemma removelast_map {A B} (f : A -> B) : forall l, removelast (map f l) = map f (removelast l).
Proof.
  induction l as [|x l IH]; [reflexivity|]. destruct l as [|y l]; [reflexivity|].
  cbn [map removelast] in *. rewrite IH. reflexivity.
Qed.

Lemma flat_map_map' {A B C} (f : B -> list C) (g : A -> B) : forall l, flat_map f (map g l) = flat_map (fun x => f (g x)) l.
Proof. induction l as [|x l IH]; cbn; [reflexivity|]. rewrite IH. reflexivity. Qed.

Lemma dep_ok_of_chunking rn dt R T s k :
  chunking_of dt rn R 0 T s -> dep_ok rn 0 (k, s) (mkdspec R T dt k).
Proof.
  intros ((Hne & W & TT & Ch & HR) & U & NT). unfold dep_ok. cbn [fst snd dR db ddt dk].
  split; [exact Hne|]. split; [|split; [apply chain_conv; exact Ch|split; [symmetry; exact HR|reflexivity]]].
  unfold src_ok. apply Forall_forall. intros c Hc. unfold uniform in U. rewrite Forall_forall in W, U.
  destruct (U c Hc). split; [apply W; exact Hc|split; assumption].
Qed.

Lemma calls_chain_conv : forall calls a b,
  Forall (fun c => cstart (nth 0 (call_inputs c) dummy_chunk) = call_start c /\
                   cend (nth 0 (call_inputs c) dummy_chunk) = call_end c) calls ->
  calls_chain a calls b -> RechunkerProof.chain a (map fst (map pair_of_call calls)) b.
Proof.
  induction calls as [|c calls IH]; intros a b HF HC; cbn in *; [exact HC|].
  inversion HF as [|? ? [H1 H2] HF']; subst. destruct HC as [C1 C2].
  split; [congruence|]. rewrite H2. apply IH; assumption.
Qed.

Theorem align_iter_ok rn : forall bs dt1 dt2 R1 R2 T s1 s2,
  chunking_of dt1 rn R1 0 T s1 -> chunking_of dt2 rn R2 0 T s2 -> iter_pre R1 R2 ->
  exists calls, align_iter bs s1 s2 = Ok calls /\ aligned R1 R2 0 T calls /\
                ends_nt T (map (fun p => cend (fst p)) calls).
Proof.
  intros bs dt1 dt2 R1 R2 T s1 s2 C1 C2 (P1 & P2 & HSt).
  set (deps := [(1, s1); (2, s2)]). set (specs := [mkdspec R1 T dt1 1; mkdspec R2 T dt2 2]).
  assert (HD : Forall2 (dep_ok rn 0) deps specs).
  { constructor; [apply dep_ok_of_chunking; exact C1|]. constructor; [apply dep_ok_of_chunking; exact C2|constructor]. }
  assert (Hne : deps <> []) by discriminate.
  assert (Hdb : Forall (fun sp => db sp = T) specs) by (repeat constructor).
  assert (Hnd : NoDup (map fst deps)).
  { cbn. constructor; [intros [H|[]]; discriminate|]. constructor; [intros []|constructor]. }
  pose proof C1 as ((Hn1 & W1 & TT1 & Ch1 & HR1) & U1 & NT1).
  pose proof C2 as ((Hn2 & W2 & TT2 & Ch2 & HR2) & U2 & NT2).
  assert (Htrail : Forall (fun d => Forall (fun c => cend c < T) (removelast (snd d))) deps).
  { unfold no_trailing, ends_nt in NT1, NT2. rewrite removelast_map in NT1, NT2.
    constructor; [cbn [snd]; apply Forall_map in NT1; exact NT1|].
    constructor; [cbn [snd]; apply Forall_map in NT2; exact NT2|constructor]. }
  assert (HRs : map (fun d : Z * list chunk => srows (snd d)) deps = [R1; R2]).
  { cbn. unfold srows. rewrite HR1, HR2. reflexivity. }
  assert (Hstair : forall c, In c (pacemaker_chunks deps) ->
             exists y', stair_ok (map (fun d => srows (snd d)) deps) max_passes (cend c) y').
  { intros c _. rewrite HRs. apply HSt. }
  destruct (iter_total_below_pass_limit_thm rn SAVEWHEN_ALWAYS 0 T deps specs Hne HD Hdb Hnd Htrail Hstair)
    as (Hnone & Hchain & Hdel).
  destruct (iter_calls_aligned_thm rn SAVEWHEN_ALWAYS 0 deps specs Hne HD) as [Hcalls _].
  destruct (iter_nonlast_calls_lt rn SAVEWHEN_ALWAYS 0 T deps specs Hne HD Hdb Hnd Htrail Hstair) as [Hnl Hnn].
  unfold align_iter. fold deps.
  destruct (plugin_iter SAVEWHEN_ALWAYS deps) as [calls outc] eqn:EP. cbn [fst snd] in *. subst outc.
  exists (map pair_of_call calls). split; [reflexivity|].
  pose proof (Hdel 0%nat (1, s1) eq_refl) as D1. pose proof (Hdel 1%nat (2, s2) eq_refl) as D2.
  cbn [snd] in D1, D2. unfold srows in D1, D2. rewrite HR1 in D1. rewrite HR2 in D2.
  (* what every call looks like *)
  assert (HC : Forall (fun c => exists i0 i1, call_inputs c = [i0; i1] /\ wf i0 /\ wf i1 /\
                                 cstart i0 = call_start c /\ cend i0 = call_end c /\
                                 cstart i1 = call_start c /\ cend i1 = call_end c) calls).
  { eapply Forall_impl; [|exact Hcalls]. cbn. intros c (_ & Hlen & Hin & _).
    destruct (call_inputs c) as [|i0 [|i1 [|i2 r]]]; cbn in Hlen; try discriminate.
    inversion Hin as [|? ? (A1 & A2 & A3) Hin']; subst. inversion Hin' as [|? ? (B1 & B2 & B3) _]; subst.
    exists i0, i1. split; [reflexivity|]. split; [exact A1|]. split; [exact B1|]. repeat split; assumption. }
  assert (HC0 : Forall (fun c => cstart (nth 0 (call_inputs c) dummy_chunk) = call_start c /\
                                 cend (nth 0 (call_inputs c) dummy_chunk) = call_end c) calls).
  { eapply Forall_impl; [|exact HC]. cbn. intros c (i0 & i1 & -> & _ & _ & A & B & _). cbn. auto. }
  split; [|].
  - unfold aligned. split; [destruct calls; [congruence|discriminate]|].
    split; [|split; [apply calls_chain_conv; assumption|split]].
    + apply Forall_map. apply Forall_forall. intros c Hc. rewrite Forall_forall in HC.
      destruct (HC c Hc) as (i0 & i1 & Ei & Wi0 & Wi1 & A1 & A2 & B1 & B2).
      unfold NetworkProof.call_ok, pair_of_call. rewrite Ei. cbn [nth fst snd].
      split; [exact Wi0|]. split; [exact Wi1|]. split; [|split; [|split; congruence]].
      * unfold tight. apply Forall_forall. intros r Hr.
        assert (In r R1). { rewrite <- D1. unfold delivered. apply in_flat_map. exists c. rewrite Ei. cbn. auto. }
        unfold pos in P1. rewrite Forall_forall in P1. specialize (P1 r H).
        destruct Wi0 as (_ & _ & _ & WF). rewrite Forall_forall in WF. specialize (WF r Hr). lia.
      * unfold tight. apply Forall_forall. intros r Hr.
        assert (In r R2). { rewrite <- D2. unfold delivered. apply in_flat_map. exists c. rewrite Ei. cbn. auto. }
        unfold pos in P2. rewrite Forall_forall in P2. specialize (P2 r H).
        destruct Wi1 as (_ & _ & _ & WF). rewrite Forall_forall in WF. specialize (WF r Hr). lia.
    + unfold rows1. rewrite flat_map_map'. cbn [pair_of_call fst]. exact D1.
    + unfold rows2. rewrite flat_map_map'. cbn [pair_of_call snd]. exact D2.
  - unfold ends_nt.
    assert (HM : map (fun p : chunk * chunk => cend (fst p)) (map pair_of_call calls) = map call_end calls).
    { clear - HC0. induction HC0 as [|c calls [_ H] _ IH]; cbn [map]; [reflexivity|]. rewrite IH. f_equal. exact H. }
    rewrite HM, removelast_map. apply Forall_map. exact Hnl.
Qed.

(* the closed corollary for graphs without overlap-window nodes: Plugin.iter itself as the aligner; `nt` = every
   data type (every given stream keeps no zero-duration chunk back at the end) *)
Theorem results_chunking_independent_iter rn T src given g target :
  graph_ok iter_pre rn no_ovl_pre T src (fun _ => True) given [] g ->
  exists env, eval_graph align_iter given [] g = Ok env /\
    match lookup target env with
    | Some cs => exists R, lookup target (eval_whole src [] g) = Some R /\ tiles R 0 T cs
    | None => lookup target (eval_whole src [] g) = None
    end.
Proof.
  exact (results_chunking_independent align_iter iter_pre rn (align_iter_ok rn) no_ovl no_ovl_pre (no_ovl_ok rn)
           T src (fun _ => True) given g target).
Qed.

(* iter_pre is satisfiable by data in which a row is cut by candidate boundaries: both inputs hold a row over [1,4),
   the second also a unit row; at y = 2, 3 the early split of both inputs moves to 1 *)
Example iter_pre_example :
  iter_pre [mkrow 1 4 100 5] [mkrow 1 4 200 1; mkrow 6 7 201 2].
Proof.
  split; [repeat constructor; cbn; lia|]. split; [repeat constructor; cbn; lia|].
  intros y. exists (if (1 <? y) && (y <? 4) then 1 else y).
  apply (stair_ok_mono _ 1%nat); [|apply Nat.leb_le; vm_compute; reflexivity].
  apply stair_done. intros R HR.
  assert (HS : forall z, straddled R z <-> 1 < z < 4).
  { intros z. unfold straddled, straddles. destruct HR as [<-|[<-|[]]]; split.
    - intros (q & [<-|[]] & H). cbn in H. lia.
    - intros H. eexists. split; [left; reflexivity|cbn; lia].
    - intros (q & [<-|[<-|[]]] & H); cbn in H; lia.
    - intros H. eexists. split; [left; reflexivity|cbn; lia]. }
  unfold adm. destruct ((1 <? y) && (y <? 4)) eqn:E.
  - apply andb_true_iff in E as [E1 E2]. apply Z.ltb_lt in E1. apply Z.ltb_lt in E2.
    split; [lia|]. split; [rewrite HS; lia|]. intros z Hz. apply HS. lia.
  - split; [lia|]. split; [|intros z Hz; lia]. rewrite HS. intros H.
    apply andb_false_iff in E as [E|E]; [apply Z.ltb_ge in E|apply Z.ltb_ge in E]; lia.
Qed.
