(* Invariants of the Plugin.iter model (property C08), part 3: the loop, the epilogue, the initial
   fetch, and the safety theorems (alignment, adjacency, exactly-once, error-not-drop). *)
From SV Require Import Model.Rows Model.SplitArray Model.Chunk Model.PluginIter
     Proof.RowsFacts Proof.SplitArrayProof Proof.ChunkProof Proof.PluginIterProof Proof.PluginIterRound.

(* ---------- list plumbing ---------- *)

Lemma set_nth_length {A} n (x : A) l : length (set_nth n x l) = length l.
Proof. revert n; induction l as [|y l IH]; intros [|n]; cbn; auto. Qed.

Lemma nth_set_nth {A} n (x d : A) l : (n < length l)%nat -> nth n (set_nth n x l) d = x.
Proof.
  revert n; induction l as [|y l IH]; intros [|n] H; cbn in *; try lia; auto. apply IH. lia.
Qed.

Section Run.
Variable run : option Z.

Lemma slots_inv_nth E specs dones ss : slots_inv run E specs dones ss -> forall pm s,
  nth_error ss pm = Some s ->
  exists d dn, nth_error specs pm = Some d /\ nth_error dones pm = Some dn /\
               slot_inv (dR d) (db d) (ddt d) run dn s /\ cstart (sbuf s) = E /\ skind s = dk d.
Proof.
  induction 1 as [|d ds dn dns s0 ss H1 H2 H3 H4 IH]; intros pm s Hs; [destruct pm; discriminate|].
  destruct pm as [|pm]; cbn in Hs.
  - inversion Hs; subst. exists d, dn. cbn. auto.
  - destruct (IH pm s Hs) as (d' & dn' & A & B & C). exists d', dn'. cbn. auto.
Qed.

Lemma slots_inv_set_nth E specs dones ss : slots_inv run E specs dones ss -> forall pm s',
  (forall d dn, nth_error specs pm = Some d -> nth_error dones pm = Some dn ->
                slot_inv (dR d) (db d) (ddt d) run dn s' /\ cstart (sbuf s') = E /\ skind s' = dk d) ->
  slots_inv run E specs dones (set_nth pm s' ss).
Proof.
  induction 1 as [|d ds dn dns s0 ss H1 H2 H3 H4 IH]; intros pm s' Hn; [destruct pm; constructor|].
  destruct pm as [|pm]; cbn [set_nth].
  - destruct (Hn d dn eq_refl eq_refl) as (A & B & C). constructor; auto.
  - constructor; [exact H1|exact H2|exact H3|]. apply IH. intros d' dn' Hd Hdn. apply Hn; assumption.
Qed.

(* fetching the next pacemaker chunk *)
Lemma fetch_pm_spec E pm ss specs dones :
  slots_inv run E specs dones ss -> (pm < length ss)%nat ->
  match fetch_pm pm ss with
  | Ok None => siter (nth pm ss dummy_slot) = []
  | Ok (Some ss') =>
      slots_inv run E specs dones ss' /\ length ss' = length ss /\
      S (length (siter (nth pm ss' dummy_slot))) = length (siter (nth pm ss dummy_slot))
  | Err _ => False
  end.
Proof.
  intros HI Hpm. unfold fetch_pm.
  destruct (nth_error ss pm) as [s|] eqn:Es; [|apply nth_error_None in Es; lia].
  rewrite (nth_error_nth _ _ dummy_slot Es).
  destruct (slots_inv_nth _ _ _ _ HI pm s Es) as (d & dn & Hd & Hdn & Hs & Hst & Hk).
  destruct s as [k buf it]. cbn [sbuf siter skind] in *.
  destruct it as [|c it]; [reflexivity|].
  destruct (fetch_step _ _ _ _ _ _ _ _ _ Hs) as (b' & Ec & HI' & A1 & A2 & A3 & A4).
  rewrite Ec. cbn [res_bind]. split; [|split].
  - apply slots_inv_set_nth; [exact HI|]. intros d' dn' Hd' Hdn'.
    rewrite Hd in Hd'. rewrite Hdn in Hdn'. inversion Hd'; inversion Hdn'; subst d' dn'.
    cbn [sbuf skind]. split; [exact HI'|]. split; [congruence|exact Hk].
  - apply set_nth_length.
  - rewrite nth_set_nth by exact Hpm. reflexivity.
Qed.

(* the `for d in iters: if self._fetch_chunk(d): raise` check *)
Lemma drain_spec E : forall ss specs dones, slots_inv run E specs dones ss ->
  (drain ss = Ok tt /\ Forall (fun s => siter s = []) ss) \/ drain ss = Err E_NOT_EXHAUSTED.
Proof.
  induction ss as [|s ss IH]; intros specs dones HI; cbn [drain]; [left; split; [reflexivity|constructor]|].
  apply slots_inv_cons_inv in HI as (d & ds & dn & dns & -> & -> & Hs & Hst & Hk & Hrest).
  destruct s as [k buf it]. cbn [siter sbuf] in *. destruct it as [|c it].
  - destruct (IH ds dns Hrest) as [[A B]|A]; [left|right; exact A]. split; [exact A|constructor; auto].
  - destruct (fetch_step _ _ _ _ _ _ _ _ _ Hs) as (b' & Ec & _). rewrite Ec. cbn [res_bind]. right; reflexivity.
Qed.

Lemma leftover_check_spec sw ss :
  leftover_check sw ss = Ok tt \/ leftover_check sw ss = Err E_LEFTOVER.
Proof.
  unfold leftover_check. destruct (saves_by_default sw); [|left; reflexivity].
  destruct (existsb _ ss); [right|left]; reflexivity.
Qed.

Lemma leftover_check_ok sw ss :
  leftover_check sw ss = Ok tt -> saves_by_default sw = true -> Forall (fun s => crows (sbuf s) = []) ss.
Proof.
  unfold leftover_check. intros H Hs. rewrite Hs in H.
  destruct (existsb (fun s => has_rows (sbuf s)) ss) eqn:Ex; [discriminate|].
  apply Forall_forall. intros s Hin.
  assert (Hn : has_rows (sbuf s) = false).
  { destruct (has_rows (sbuf s)) eqn:Eh; [|reflexivity].
    assert (existsb (fun s => has_rows (sbuf s)) ss = true) by (apply existsb_exists; exists s; auto). congruence. }
  unfold has_rows in Hn. destruct (crows (sbuf s)); [reflexivity|discriminate].
Qed.

(* ---------- the loop ---------- *)

(* rows handed over so far, per dependency *)
Fixpoint acc_calls (dones : list (list row)) (calls : list call) : list (list row) :=
  match calls with [] => dones | c :: r => acc_calls (zip_app dones (call_inputs c)) r end.

(* calls are adjacent: each starts where the previous one ended *)
Fixpoint calls_chain (a : Z) (calls : list call) (b : Z) : Prop :=
  match calls with [] => a = b | c :: r => call_start c = a /\ calls_chain (call_end c) r b end.

Definition loop_post (sw : Z) (specs : list dspec) (dones : list (list row)) (E : Z) (r : list call * option Z) : Prop :=
  exists Ef ssf,
    calls_chain E (fst r) Ef /\
    Forall (call_ok (map dk specs)) (fst r) /\
    slots_inv run Ef specs (acc_calls dones (fst r)) ssf /\
    snd r <> Some E_ITER_FUEL /\
    (snd r = None -> Forall (fun s => siter s = []) ssf /\
                     (saves_by_default sw = true -> Forall (fun s => crows (sbuf s) = []) ssf)).

Lemma round_err_not_fuel e : round_err e -> Some e <> Some E_ITER_FUEL.
Proof.
  unfold round_err. cbn. intros H Heq. inversion Heq; subst.
  repeat (destruct H as [H|H]; [discriminate|]). exact H.
Qed.

Lemma iter_loop_spec sw pm : forall fuel ss specs dones E,
  slots_inv run E specs dones ss -> (pm < length ss)%nat ->
  (length (siter (nth pm ss dummy_slot)) < fuel)%nat ->
  loop_post sw specs dones E (iter_loop fuel sw pm ss).
Proof.
  induction fuel as [|f IH]; intros ss specs dones E HI Hpm Hfuel; [lia|].
  cbn [iter_loop].
  pose proof (round_body_spec run sw pm E ss specs dones HI Hpm) as HR.
  destruct (round_body sw pm ss) as [[c ss2]|e].
  2:{ exists E, ss. cbn [fst snd calls_chain acc_calls]. split; [reflexivity|]. split; [constructor|].
      split; [exact HI|]. split; [apply round_err_not_fuel, HR|discriminate]. }
  destruct HR as (Hcs & Hok & HI2 & Hit & Hlen).
  assert (Hpm2 : (pm < length ss2)%nat) by lia.
  pose proof (fetch_pm_spec _ pm ss2 specs _ HI2 Hpm2) as HF.
  destruct (fetch_pm pm ss2) as [[ss3|]|e]; [| |destruct HF].
  - (* next round *)
    destruct HF as (HI3 & Hlen3 & Hdec).
    assert (Hpm3 : (pm < length ss3)%nat) by lia.
    assert (Hfuel3 : (length (siter (nth pm ss3 dummy_slot)) < f)%nat) by (rewrite Hit in Hdec; lia).
    destruct (IH ss3 specs _ (call_end c) HI3 Hpm3 Hfuel3) as (Ef & ssf & P1 & P2 & P3 & P4 & P5).
    exists Ef, ssf. cbn [fst snd calls_chain acc_calls].
    split; [split; [exact Hcs|exact P1]|]. split; [constructor; [exact Hok|exact P2]|].
    split; [exact P3|]. split; [exact P4|exact P5].
  - (* IterDone *)
    exists (call_end c), ss2. cbn [fst snd calls_chain acc_calls].
    split; [split; [exact Hcs|reflexivity]|]. split; [constructor; [exact Hok|constructor]|].
    split; [exact HI2|]. unfold epilogue.
    destruct (drain_spec _ ss2 specs _ HI2) as [[Hd Hall]|Hd]; rewrite Hd.
    + destruct (leftover_check_spec sw ss2) as [Hl|Hl]; rewrite Hl.
      * split; [discriminate|]. intros _. split; [exact Hall|]. intros Hs. apply (leftover_check_ok sw ss2 Hl Hs).
      * split; [discriminate|discriminate].
    + split; [discriminate|discriminate].
Qed.

(* ---------- the initial fetch ---------- *)

(* what it means for the inputs of a run to be law-abiding: every dependency delivers a non-empty
   list of well-formed chunks of one data type and run, contiguous from the common start a to its own
   end (db sp); sp records the dependency's rows, end, data type and kind *)
Definition dep_ok (a : Z) (d : Z * list chunk) (sp : dspec) : Prop :=
  snd d <> [] /\ src_ok (ddt sp) run (snd d) /\ chain a (snd d) (db sp) /\
  dR sp = srows (snd d) /\ dk sp = fst d.

Lemma init_slots_spec a : forall deps specs, Forall2 (dep_ok a) deps specs ->
  exists ss, init_slots deps = Ok ss /\ slots_inv run a specs (map (fun _ => []) specs) ss /\
             map (fun s => sbuf s :: siter s) ss = map snd deps.
Proof.
  induction 1 as [|[k cs] sp deps specs Hd Hrest IH]; cbn [init_slots map].
  - exists []. split; [reflexivity|]. split; [constructor|reflexivity].
  - destruct Hd as (Hne & Hsrc & Hch & HR & Hk). cbn [fst snd] in *.
    destruct cs as [|c it]; [congruence|].
    destruct IH as (ss & E & HI & Hm). rewrite E. cbn [res_bind].
    exists (mkslot k c it :: ss). split; [reflexivity|]. split; [|cbn [map sbuf siter]; rewrite Hm; reflexivity].
    apply Forall_cons_iff in Hsrc as [(Hw & Hdt & Hrun) Hsrc]. cbn in Hch. destruct Hch as [Hs Hch].
    constructor; cbn [sbuf siter skind]; auto.
    constructor; cbn [sbuf siter]; auto.
Qed.

Lemma choose_pm_spec : forall ss i best,
  (forall p e, best = Some (p, e) -> (p < i)%nat) ->
  match choose_pm ss i best with
  | Some (p, _) => (p < i + length ss)%nat
  | None => best = None /\ ss = []
  end.
Proof.
  induction ss as [|s ss IH]; intros i best Hb; cbn [choose_pm].
  - destruct best as [[p e]|]; [|auto]. specialize (Hb p e eq_refl). cbn. lia.
  - destruct best as [[p be]|].
    + destruct (cend (sbuf s) <? be).
      * specialize (IH (S i) (Some (i, cend (sbuf s)))).
        destruct (choose_pm ss (S i) (Some (i, cend (sbuf s)))) as [[q ?]|].
        -- cbn [length]. assert (q < S i + length ss)%nat; [|lia]. apply IH. intros p0 e0 H0. inversion H0; lia.
        -- destruct IH as [Hc _]; [intros p0 e0 H0; inversion H0; lia|discriminate].
      * specialize (IH (S i) (Some (p, be))).
        destruct (choose_pm ss (S i) (Some (p, be))) as [[q ?]|].
        -- cbn [length]. assert (q < S i + length ss)%nat; [|lia]. apply IH. intros p0 e0 H0. inversion H0; subst.
           specialize (Hb p0 e0 eq_refl). lia.
        -- destruct IH as [Hc _]; [|discriminate]. intros p0 e0 H0. inversion H0; subst.
           specialize (Hb p0 e0 eq_refl). lia.
    + specialize (IH (S i) (Some (i, cend (sbuf s)))).
      destruct (choose_pm ss (S i) (Some (i, cend (sbuf s)))) as [[q ?]|].
      * cbn [length]. assert (q < S i + length ss)%nat; [|lia]. apply IH. intros p0 e0 H0. inversion H0; lia.
      * destruct IH as [Hc _]; [intros p0 e0 H0; inversion H0; lia|discriminate].
Qed.

(* ---------- Plugin.iter as a whole ---------- *)

Theorem plugin_iter_post sw a deps specs :
  deps <> [] -> Forall2 (dep_ok a) deps specs ->
  loop_post sw specs (map (fun _ => []) specs) a (plugin_iter sw deps).
Proof.
  intros Hne HD. unfold plugin_iter.
  destruct (init_slots_spec a deps specs HD) as (ss & Ei & HI & Hm). rewrite Ei.
  pose proof (choose_pm_spec ss 0 None) as HC.
  destruct (choose_pm ss 0 None) as [[pm e]|].
  - apply iter_loop_spec; [exact HI| |lia]. apply HC. intros p e0 H0; discriminate.
  - destruct HC as [_ Hnil]; [intros p e0 H0; discriminate|]. subst ss.
    destruct deps; [congruence|]. cbn in Hm. discriminate.
Qed.
End Run.
