(* find_peaks: the loop computes a clustering (Spec/PeaksSpec.v), the clustering is unique, a
   peak spans its hits plus the extensions, peaks are disjoint and time-ordered when every
   boundary is a gap boundary; with the duration cut deciding a boundary they may overlap (T3). *)
From SV Require Import Model.Peaks Spec.PeaksSpec Proof.PeaksProof.

Section Theorems.
Variable P : fp_params.
Variable gains : list Z.
Variable nch : nat.

Notation gstart := (gstart P).
Notation cohesive := (cohesive P).
Notation boundary := (boundary P).
Notation Clustering := (Clustering P).
Notation peak_of := (peak_of P gains nch).
Notation keep := (keep P gains nch).
Notation glen := (glen P).
Notation fp_out := (fp_out P gains nch).
Notation st_of := (st_of P gains nch).

(* ---------- the loop computes a clustering ---------- *)
Theorem fp_loop_clusters : forall rest g h,
  Forall (fun x => 0 <= hch x) (h :: rest) ->
  (g = [] \/ cohesive (g ++ [h])) ->
  exists gs, Clustering (g ++ h :: rest) gs /\
             fp_loop P gains nch (h :: rest) (st_of g) = fp_out gs.
Proof.
  induction rest as [|nh rest IH]; intros g h Hch Hg.
  - assert (Hc : 0 <= hch h) by (inversion Hch; auto).
    assert (Hcoh : cohesive (g ++ [h])) by (destruct Hg as [->|]; [exact I|auto]).
    exists [g ++ [h]]. split; [apply cl_last; auto|].
    rewrite fp_loop_step by auto. cbn zeta. cbn [PeaksSpec.fp_out fp_loop].
    destruct (keep (g ++ [h])); [|reflexivity]. destruct (glen (g ++ [h]) <=? 0); reflexivity.
  - inversion Hch as [|? ? Hc Hch']; subst.
    assert (Hcoh : cohesive (g ++ [h])) by (destruct Hg as [->|]; [exact I|auto]).
    rewrite fp_loop_step by auto. cbn zeta.
    destruct (fp_closes P (gend (g ++ [h])) (gstart (g ++ [h])) nh) eqn:Ecl.
    + destruct (IH [] nh Hch' (or_introl eq_refl)) as (gs & Hcl & Hrun).
      exists ((g ++ [h]) :: gs). split.
      * replace (g ++ h :: nh :: rest) with ((g ++ [h]) ++ nh :: rest)
          by (rewrite <- app_assoc; reflexivity).
        apply cl_cons; auto.
      * cbn [PeaksProof.st_of app] in Hrun. cbn [PeaksSpec.fp_out]. rewrite Hrun. reflexivity.
    + destruct (IH (g ++ [h]) nh Hch') as (gs & Hcl & Hrun).
      { right. apply cohesive_snoc; [destruct g; discriminate|]. split; auto. }
      exists gs. split; [rewrite <- app_assoc in Hcl; exact Hcl | exact Hrun].
Qed.

Theorem find_peaks_clusters hs :
  Forall (fun x => 0 <= hch x) hs -> fp_asserts P gains hs = true ->
  exists gs, Clustering hs gs /\ find_peaks P gains nch hs = fp_out gs.
Proof.
  intros Hch Ha. destruct hs as [|h rest].
  - exists []. split; [constructor|reflexivity].
  - unfold find_peaks. rewrite Ha. apply (fp_loop_clusters rest [] h Hch). left; reflexivity.
Qed.

Lemma find_peaks_assert_fails hs :
  hs <> [] -> fp_asserts P gains hs = false -> find_peaks P gains nch hs = Err 2.
Proof. intros Hn Ha. destruct hs; [congruence|]. unfold find_peaks. rewrite Ha. reflexivity. Qed.

Lemma fp_out_ok gs ps : fp_out gs = Ok ps -> ps = map peak_of (filter keep gs).
Proof.
  revert ps; induction gs as [|g gs IH]; intros ps H; cbn [PeaksSpec.fp_out filter map] in *.
  - congruence.
  - destruct (keep g); [|auto]. destruct (glen g <=? 0); [discriminate|].
    destruct (fp_out gs) as [ps'|e]; cbn in H; [|discriminate].
    injection H as <-. cbn [map]. f_equal. apply IH. reflexivity.
Qed.

Lemma fp_out_ok_len gs ps : fp_out gs = Ok ps -> Forall (fun p => 0 < plen p) ps.
Proof.
  revert ps; induction gs as [|g gs IH]; intros ps H; cbn [PeaksSpec.fp_out] in *.
  - injection H as <-. constructor.
  - destruct (keep g); [|auto]. destruct (glen g <=? 0) eqn:E; [discriminate|].
    destruct (fp_out gs) as [ps'|e]; cbn in H; [|discriminate].
    injection H as <-. constructor; [cbn; lia|apply IH; reflexivity].
Qed.

(* ---------- the clustering is unique ---------- *)
Lemma Clustering_inv hs gs : Clustering hs gs ->
  (hs = [] /\ gs = []) \/ (cohesive hs /\ gs = [hs]) \/
  (exists g nh rest gs0, hs = g ++ nh :: rest /\ gs = g :: gs0 /\ cohesive g /\ boundary g nh /\
                         Clustering (nh :: rest) gs0).
Proof.
  destruct 1 as [|g Hc|g nh rest gs Hc Hb Hcl]; [left; auto|right; left; auto|right; right].
  exists g, nh, rest, gs. auto.
Qed.

Lemma app_cons_split {A} : forall (l1 l2 : list A) x y r1 r2,
  l1 ++ x :: r1 = l2 ++ y :: r2 ->
  (l1 = l2 /\ x = y /\ r1 = r2) \/
  (exists k, l2 = l1 ++ x :: k) \/ (exists k, l1 = l2 ++ y :: k).
Proof.
  induction l1 as [|a l1 IH]; intros [|b l2] x y r1 r2 H; cbn [app] in H.
  - injection H as -> ->. left; auto.
  - injection H as -> ->. right; left. exists l2. reflexivity.
  - injection H as -> <-. right; right. exists l1. reflexivity.
  - injection H as Hab H. subst b. destruct (IH _ _ _ _ _ H) as [(E1 & E2 & E3)|[[k E]|[k E]]].
    + left. subst. auto.
    + right; left. exists k. rewrite E. reflexivity.
    + right; right. exists k. rewrite E. reflexivity.
Qed.

Theorem clustering_unique hs gs : Clustering hs gs -> forall gs', Clustering hs gs' -> gs = gs'.
Proof.
  induction 1 as [|g Hc|g nh rest gs Hc Hb Hcl IH]; intros gs' H'; apply Clustering_inv in H'.
  - destruct H' as [[_ ->]|[[Hc ->]|(g & nh & rest & gs0 & He & _)]]; auto.
    + destruct Hc.
    + destruct g; discriminate.
  - destruct H' as [[-> _]|[[_ ->]|(g0 & nh & rest & gs0 & -> & _ & Hc0 & Hb0 & _)]]; auto.
    + destruct Hc.
    + exfalso. apply (cohesive_app P g0 nh rest); auto. apply (cohesive_nonempty P); auto.
  - destruct H' as [[He _]|[[Hc' ->]|(g0 & nh0 & rest0 & gs0 & He & -> & Hc0 & Hb0 & Hcl0)]].
    + destruct g; discriminate.
    + exfalso. apply (cohesive_app P g nh rest); auto. apply (cohesive_nonempty P); auto.
    + apply app_cons_split in He. destruct He as [(-> & -> & ->)|[[k ->]|[k ->]]].
      * f_equal. apply IH. exact Hcl0.
      * exfalso. apply (cohesive_app P g nh k); auto. apply (cohesive_nonempty P); auto.
      * exfalso. apply (cohesive_app P g0 nh0 k); auto. apply (cohesive_nonempty P); auto.
Qed.

(* every hit is in exactly one cluster, in order *)
Lemma clustering_concat hs gs : Clustering hs gs -> concat gs = hs.
Proof.
  induction 1 as [|g Hc|g nh rest gs Hc Hb Hcl IH]; cbn [concat]; auto.
  - apply app_nil_r.
  - rewrite IH. reflexivity.
Qed.

(* ---------- a peak spans its hits plus the extensions ---------- *)
Lemma gend_ge_in g h : In h g -> hend h <= gend g.
Proof.
  destruct g as [|h0 tl]; [intros []|]. intros [<-|Hin]; cbn [gend].
  - apply zmaxl_ge.
  - apply zmaxl_in. apply in_map. exact Hin.
Qed.

Lemma last_in {A} (l : list A) d : l <> [] -> In (last l d) l.
Proof.
  induction l as [|x l IH]; [congruence|]. intros _. destruct l as [|y l]; [left; reflexivity|].
  right. apply IH. discriminate.
Qed.

Definition uniform (d : Z) (g : list hit) : Prop := forall h, In h g -> hdt h = d /\ 0 <= hlen h.

Lemma gfirst_le_gend g d : g <> [] -> uniform d g -> 0 < d -> gfirst g <= gend g.
Proof.
  destruct g as [|h0 tl]; [congruence|]. intros _ Hu Hd. cbn [gfirst gend].
  pose proof (zmaxl_ge (hend h0) (map hend tl)). destruct (Hu h0 (or_introl eq_refl)) as [H1 H2].
  unfold hend in *. nia.
Qed.

Lemma glen_bounds g d : g <> [] -> uniform d g -> 0 < d -> 0 <= fp_lext P -> 0 <= fp_rext P ->
  let N := gend g - gstart g + fp_rext P in
  0 <= N /\ glen g * d <= N < glen g * d + d /\ ((d | N) -> glen g * d = N).
Proof.
  intros Hg Hu Hd Hl Hr N.
  pose proof (gfirst_le_gend g d Hg Hu Hd) as Hfe.
  assert (HN : 0 <= N) by (unfold N, PeaksSpec.gstart; lia).
  assert (Hld : glast_dt g = d). { unfold glast_dt. apply Hu, last_in, Hg. }
  unfold PeaksSpec.glen. rewrite Hld. fold N. rewrite Z.quot_div_nonneg by lia.
  split; [exact HN|]. split; [lia|].
  intros [k Hk]. rewrite Hk, Z.div_mul by lia. reflexivity.
Qed.

Theorem peak_spans_hits g d :
  g <> [] -> uniform d g -> 0 < d -> 0 <= fp_lext P -> 0 <= fp_rext P -> hits_sorted g ->
  let p := peak_of g in
  pt p = gfirst g - fp_lext P /\ pdt p = d /\ pnhits p = zlen g /\
  (forall h, In h g -> pt p + fp_lext P <= ht h /\ hend h <= gend g) /\
  pend p <= gend g + fp_rext P < pend p + d /\
  ((d | gend g - pt p + fp_rext P) -> pend p = gend g + fp_rext P).
Proof.
  intros Hg Hu Hd Hl Hr Hs p.
  destruct (glen_bounds g d Hg Hu Hd Hl Hr) as (HN & Hb & Hdiv).
  assert (Hdt : gdt g = d). { destruct g as [|h0 tl]; [congruence|]. apply Hu. left; reflexivity. }
  unfold p, pend. cbn [PeaksSpec.peak_of pt plen pdt pnhits]. rewrite Hdt.
  split; [reflexivity|]. split; [reflexivity|]. split; [reflexivity|]. split; [|split].
  - intros h Hin. split; [|apply gend_ge_in; auto].
    unfold PeaksSpec.gstart. destruct g as [|h0 tl]; [destruct Hin|]. cbn [gfirst].
    destruct Hin as [<-|Hin]; [lia|].
    inversion Hs as [|? ? Hall _]; subst. rewrite Forall_forall in Hall. specialize (Hall h Hin). lia.
  - lia.
  - intros Hdv. specialize (Hdiv Hdv). lia.
Qed.

(* ---------- disjoint and time-ordered when every boundary is a gap boundary ---------- *)
Definition gsep (g g' : list hit) : Prop := gend g + fp_gap P <= gfirst g'.

Lemma Clustering_groups hs gs : Clustering hs gs ->
  Forall (fun g => g <> [] /\ forall h, In h g -> In h hs) gs.
Proof.
  induction 1 as [|g Hc|g nh rest gs Hc Hb Hcl IH].
  - constructor.
  - constructor; [|constructor]. split; [apply (cohesive_nonempty P); auto|auto].
  - constructor.
    + split; [apply (cohesive_nonempty P); auto|]. intros h Hin. apply in_or_app. left; auto.
    + eapply Forall_impl; [|exact IH]. cbn. intros g' [Hn Hin]. split; auto.
      intros h Hh. apply in_or_app. right. apply Hin, Hh.
Qed.

Lemma allfar_pairwise d gs : 0 <= fp_gap P -> 0 < d ->
  AllFar P gs -> Forall (fun g => g <> [] /\ uniform d g) gs -> ForallOrdPairs gsep gs.
Proof.
  intros Hgap Hd. induction 1 as [| g | g g' gs Hfar Haf IH]; intros Hall.
  - constructor.
  - constructor; constructor.
  - inversion Hall as [|? ? [Hg Hu] Hall']; subst.
    specialize (IH Hall'). inversion IH as [|? ? Hfa Hfop]; subst.
    inversion Hall' as [|? ? [Hg' Hu'] _]; subst.
    assert (Hgg' : gsep g g').
    { unfold gsep, far_boundary, fp_far in *. destruct g' as [|h' tl']; [congruence|].
      cbn [hd gfirst] in *. lia. }
    constructor; [|exact IH]. constructor; [exact Hgg'|].
    eapply Forall_impl; [|exact Hfa]. cbn. intros g'' Hs. unfold gsep in *.
    pose proof (gfirst_le_gend g' d Hg' Hu' Hd). lia.
Qed.

Lemma FOP_map_filter {A B} (R : A -> A -> Prop) (S : B -> B -> Prop) (f : A -> B) (k : A -> bool) l :
  (forall a b, In a l -> In b l -> R a b -> S (f a) (f b)) ->
  ForallOrdPairs R l -> ForallOrdPairs S (map f (filter k l)).
Proof.
  intros HRS. induction 1 as [|a l Hfa Hfop IH]; cbn [filter map]; [constructor|].
  assert (IH' : ForallOrdPairs S (map f (filter k l))).
  { apply IH. intros x y Hx Hy. apply HRS; right; auto. }
  destruct (k a); [|exact IH']. cbn [map]. constructor; [|exact IH'].
  rewrite Forall_forall. intros y Hy. apply in_map_iff in Hy as (b & <- & Hb).
  apply filter_In in Hb as [Hb _]. apply HRS; [left; auto|right; auto|].
  rewrite Forall_forall in Hfa. apply Hfa, Hb.
Qed.

Definition peaks_disjoint_ordered (ps : list peak) : Prop :=
  ForallOrdPairs (fun p q => pend p <= pt q /\ pt p <= pt q) ps.

Theorem clusters_disjoint_ordered hs gs d :
  Clustering hs gs -> AllFar P gs -> uniform d hs -> 0 < d ->
  0 <= fp_lext P -> 0 <= fp_rext P -> fp_gap P > fp_lext P + fp_rext P ->
  peaks_disjoint_ordered (map peak_of (filter keep gs)).
Proof.
  intros Hcl Haf Hu Hd Hl Hr Hgap.
  assert (Hall : Forall (fun g => g <> [] /\ uniform d g) gs).
  { eapply Forall_impl; [|exact (Clustering_groups hs gs Hcl)]. cbn. intros g [Hn Hin]. split; auto.
    intros h Hh. apply Hu, Hin, Hh. }
  pose proof (allfar_pairwise d gs ltac:(lia) Hd Haf Hall) as Hfop.
  unfold peaks_disjoint_ordered. eapply FOP_map_filter; [|exact Hfop].
  intros g g' Hg Hg' Hsep. rewrite Forall_forall in Hall.
  destruct (Hall g Hg) as [Hn Hug]. destruct (Hall g' Hg') as [Hn' Hug'].
  destruct (glen_bounds g d Hn Hug Hd Hl Hr) as (HN & Hb & _).
  assert (Hdt : gdt g = d). { destruct g as [|h0 tl]; [congruence|]. apply Hug. left; reflexivity. }
  pose proof (gfirst_le_gend g d Hn Hug Hd).
  unfold pend. cbn [PeaksSpec.peak_of pt plen pdt]. rewrite Hdt.
  unfold gsep, PeaksSpec.gstart in *. lia.
Qed.

(* the property theorem, stated on the output of find_peaks *)
Theorem find_peaks_spec hs ps :
  Forall (fun x => 0 <= hch x) hs -> fp_asserts P gains hs = true ->
  find_peaks P gains nch hs = Ok ps ->
  exists gs, Clustering hs gs /\ (forall gs', Clustering hs gs' -> gs' = gs) /\ concat gs = hs /\
             ps = map peak_of (filter keep gs) /\ Forall (fun p => 0 < plen p) ps.
Proof.
  intros Hch Ha Hrun. destruct (find_peaks_clusters hs Hch Ha) as (gs & Hcl & Heq).
  rewrite Hrun in Heq. symmetry in Heq. exists gs. split; [exact Hcl|]. split.
  - intros gs' H'. symmetry. apply (clustering_unique hs gs Hcl gs' H').
  - split; [apply clustering_concat; auto|]. split; [apply fp_out_ok; auto|eapply fp_out_ok_len; eauto].
Qed.

Theorem find_peaks_disjoint hs ps gs d :
  find_peaks P gains nch hs = Ok ps -> Forall (fun x => 0 <= hch x) hs -> fp_asserts P gains hs = true ->
  Clustering hs gs -> AllFar P gs -> uniform d hs -> 0 < d -> 0 <= fp_lext P -> 0 <= fp_rext P ->
  peaks_disjoint_ordered ps.
Proof.
  intros Hrun Hch Ha Hcl Haf Hu Hd Hl Hr.
  destruct hs as [|h0 r].
  - cbn in Hrun. injection Hrun as <-. constructor.
  - assert (Hgap : fp_gap P > fp_lext P + fp_rext P) by (unfold fp_asserts in Ha; lia).
    destruct (find_peaks_spec (h0 :: r) ps Hch Ha Hrun) as (gs0 & Hcl0 & Huniq & _ & -> & _).
    rewrite <- (Huniq gs Hcl).
    apply (clusters_disjoint_ordered (h0 :: r) gs d); auto.
Qed.

End Theorems.
