(* sort_by_time: on the single-key path the output is the stable sort by (time, channel); on the
   fallback path (np.sort with order=) it is a rearrangement sorted by (time, channel) (ties are
   broken by the remaining fields, not by input position).  Kind guard of stable_sort/argsort. *)
From SV Require Import Model.Rows Model.Intervals Spec.IntervalDefs Proof.IntervalsSort.
From Coq Require Import Permutation.

(* ---------- min / max of lists ---------- *)
Lemma zmin_list_le d l : zmin_list d l <= d /\ Forall (fun x => zmin_list d l <= x) l.
Proof.
  unfold zmin_list. revert d; induction l as [|x l IH]; intros d; cbn [fold_left]; [split; [lia|constructor]|].
  destruct (IH (Z.min d x)) as [H1 H2]. split; [lia|]. constructor; [lia|auto].
Qed.

Lemma zmax_list_ge d l : d <= zmax_list d l /\ Forall (fun x => x <= zmax_list d l) l.
Proof.
  unfold zmax_list. revert d; induction l as [|x l IH]; intros d; cbn [fold_left]; [split; [lia|constructor]|].
  destruct (IH (Z.max d x)) as [H1 H2]. split; [lia|]. constructor; [lia|auto].
Qed.

Lemma sbt_bounds rs r : In r rs ->
  sbt_tmin rs <= rt r /\ rt r <= sbt_tmax rs /\
  0 <= rch r + sbt_shift rs /\ rch r + sbt_shift rs < sbt_cm1 rs.
Proof.
  destruct rs as [|r0 rest]; intros Hin; [destruct Hin|].
  unfold sbt_tmin, sbt_tmax, sbt_cm1, sbt_shift.
  destruct (zmin_list_le (rt r0) (map rt rest)) as [A1 A2].
  destruct (zmax_list_ge (rt r0) (map rt rest)) as [B1 B2].
  destruct (zmin_list_le (rch r0) (map rch rest)) as [C1 C2].
  destruct (zmax_list_ge (rch r0) (map rch rest)) as [D1 D2].
  rewrite Forall_map in A2, B2, C2, D2. rewrite Forall_forall in A2, B2, C2, D2.
  destruct Hin as [->|Hin].
  - destruct (zmin_list (rch r) (map rch rest) <? 0) eqn:E; lia.
  - specialize (A2 _ Hin). specialize (B2 _ Hin). specialize (C2 _ Hin). specialize (D2 _ Hin).
    destruct (zmin_list (rch r0) (map rch rest) <? 0) eqn:E; lia.
Qed.

(* the single key orders rows exactly as (time, channel) *)
Lemma key_le_iff rs a b : In a rs -> In b rs ->
  (sbt_key rs a <= sbt_key rs b <-> tc_leb a b = true).
Proof.
  intros Ha Hb. destruct (sbt_bounds rs a Ha) as (A1 & A2 & A3 & A4).
  destruct (sbt_bounds rs b Hb) as (B1 & B2 & B3 & B4).
  unfold sbt_key, tc_leb. set (c := sbt_cm1 rs) in *. set (s := sbt_shift rs) in *. set (m := sbt_tmin rs) in *.
  split.
  - intros H. destruct (Z_lt_dec (rt a) (rt b)) as [Hlt|Hge]; [lia|].
    destruct (Z.eq_dec (rt a) (rt b)) as [Heq|Hne].
    + rewrite Heq in H. lia.
    + exfalso. assert (rt b - m + 1 <= rt a - m) by lia.
      assert ((rt b - m + 1) * c <= (rt a - m) * c) by (apply Z.mul_le_mono_nonneg_r; lia). lia.
  - intros H. destruct (Z_lt_dec (rt a) (rt b)) as [Hlt|Hge].
    + assert (rt a - m + 1 <= rt b - m) by lia.
      assert ((rt a - m + 1) * c <= (rt b - m) * c) by (apply Z.mul_le_mono_nonneg_r; lia). lia.
    + assert (rt a = rt b) by lia. replace (rt a) with (rt b). lia.
Qed.

Lemma key_eq_iff rs a b : In a rs -> In b rs ->
  (sbt_key rs a = sbt_key rs b <-> tc_eqb a b = true).
Proof.
  intros Ha Hb. pose proof (key_le_iff rs a b Ha Hb) as H1. pose proof (key_le_iff rs b a Hb Ha) as H2.
  unfold tc_leb in H1, H2. unfold tc_eqb. split; intros H.
  - assert (sbt_key rs a <= sbt_key rs b) by lia. assert (sbt_key rs b <= sbt_key rs a) by lia. lia.
  - assert (sbt_key rs a <= sbt_key rs b) by (apply H1; lia).
    assert (sbt_key rs b <= sbt_key rs a) by (apply H2; lia). lia.
Qed.

(* int64 exactness of the key: explicit no-overflow side condition *)
Lemma sbt_key_fits rs r : In r rs ->
  (sbt_tmax rs - sbt_tmin rs + 1) * sbt_cm1 rs <= INT64_MAX + 1 ->
  0 <= sbt_key rs r <= INT64_MAX.
Proof.
  intros Hin Hside. destruct (sbt_bounds rs r Hin) as (A1 & A2 & A3 & A4). unfold sbt_key.
  assert (0 <= (rt r - sbt_tmin rs) * sbt_cm1 rs) by (apply Z.mul_nonneg_nonneg; lia).
  assert ((rt r - sbt_tmin rs) * sbt_cm1 rs <= (sbt_tmax rs - sbt_tmin rs) * sbt_cm1 rs)
    by (apply Z.mul_le_mono_nonneg_r; lia).
  lia.
Qed.

(* ---------- (time, channel)-sortedness in Prop ---------- *)
Fixpoint tc_sorted (l : list row) : Prop :=
  match l with [] => True | x :: r => Forall (fun y => tc_leb x y = true) r /\ tc_sorted r end.

Lemma tc_sorted_sorted_leb l : tc_sorted l <-> sorted_leb tc_leb l = true.
Proof.
  induction l as [|x l IH]; cbn [tc_sorted sorted_leb]; [tauto|].
  rewrite andb_true_iff, forallb_forall, Forall_forall, IH. tauto.
Qed.

Lemma key_sorted_tc rs l :
  (forall x, In x l -> In x rs) -> key_sorted (sbt_key rs) l -> tc_sorted l.
Proof.
  induction l as [|x l IH]; intros Hin Hk; cbn [tc_sorted]; [exact I|].
  destruct Hk as [K1 K2]. split.
  - rewrite Forall_forall in K1 |- *. intros y Hy. apply (key_le_iff rs); [apply Hin; left; auto|apply Hin; right; auto|].
    apply K1, Hy.
  - apply IH; auto. intros y Hy. apply Hin. right; auto.
Qed.

(* ---------- generic facts on sort_le ---------- *)
Section SortLe.
  Context {A : Type} (leb : A -> A -> bool).
  Hypothesis leb_total : forall a b, leb a b = false -> leb b a = true.
  Hypothesis leb_trans : forall a b c, leb a b = true -> leb b c = true -> leb a c = true.

  Fixpoint le_sorted (l : list A) : Prop :=
    match l with [] => True | x :: r => Forall (fun y => leb x y = true) r /\ le_sorted r end.

  Lemma ins_le_perm x l : Permutation (x :: l) (ins_le leb x l).
  Proof.
    induction l as [|y l IH]; cbn [ins_le]; [apply Permutation_refl|].
    destruct (leb x y); [apply Permutation_refl|].
    eapply Permutation_trans; [apply perm_swap|]. apply perm_skip, IH.
  Qed.

  Lemma sort_le_perm l : Permutation l (sort_le leb l).
  Proof.
    induction l as [|x l IH]; cbn [sort_le fold_right]; [apply Permutation_refl|].
    eapply Permutation_trans; [apply perm_skip, IH|]. apply ins_le_perm.
  Qed.

  Lemma ins_le_sorted x l : le_sorted l -> le_sorted (ins_le leb x l).
  Proof.
    induction l as [|y l IH]; intros H; cbn [ins_le le_sorted].
    - split; [constructor|exact I].
    - destruct H as [H1 H2]. destruct (leb x y) eqn:E.
      + cbn [le_sorted]. split; [|split; auto]. constructor; [auto|].
        eapply Forall_impl; [|exact H1]. cbn. intros z Hz. eapply leb_trans; eauto.
      + cbn [le_sorted]. split; [|apply IH; auto].
        eapply Permutation_Forall; [apply ins_le_perm|]. constructor; [apply leb_total; auto|auto].
  Qed.

  Lemma sort_le_sorted l : le_sorted (sort_le leb l).
  Proof. induction l as [|x l IH]; cbn [sort_le fold_right]; [exact I|]. apply ins_le_sorted, IH. Qed.
End SortLe.

Lemma lex4_total a b : lex4_leb a b = false -> lex4_leb b a = true.
Proof.
  unfold lex4_leb.
  destruct (rt a <? rt b) eqn:E1; [discriminate|]. destruct (rt b <? rt a) eqn:E2; [reflexivity|].
  destruct (rch a <? rch b) eqn:E3; [discriminate|]. destruct (rch b <? rch a) eqn:E4; [reflexivity|].
  destruct (re a <? re b) eqn:E5; [discriminate|]. destruct (re b <? re a) eqn:E6; [reflexivity|].
  lia.
Qed.

Lemma lex4_trans a b c : lex4_leb a b = true -> lex4_leb b c = true -> lex4_leb a c = true.
Proof.
  unfold lex4_leb.
  destruct (rt a <? rt b) eqn:A1; destruct (rt b <? rt a) eqn:A2;
  destruct (rt b <? rt c) eqn:B1; destruct (rt c <? rt b) eqn:B2;
  destruct (rt a <? rt c) eqn:C1; destruct (rt c <? rt a) eqn:C2; try lia; try reflexivity; try discriminate;
  destruct (rch a <? rch b) eqn:A3; destruct (rch b <? rch a) eqn:A4;
  destruct (rch b <? rch c) eqn:B3; destruct (rch c <? rch b) eqn:B4;
  destruct (rch a <? rch c) eqn:C3; destruct (rch c <? rch a) eqn:C4; try lia; try reflexivity; try discriminate;
  destruct (re a <? re b) eqn:A5; destruct (re b <? re a) eqn:A6;
  destruct (re b <? re c) eqn:B5; destruct (re c <? re b) eqn:B6;
  destruct (re a <? re c) eqn:C5; destruct (re c <? re a) eqn:C6; try lia; try reflexivity; try discriminate.
Qed.

Lemma lex4_tc a b : lex4_leb a b = true -> tc_leb a b = true.
Proof.
  unfold lex4_leb, tc_leb.
  destruct (rt a <? rt b) eqn:E1; [reflexivity|]. destruct (rt b <? rt a) eqn:E2; [discriminate|].
  destruct (rch a <? rch b) eqn:E3; [lia|]. destruct (rch b <? rch a) eqn:E4; [discriminate|]. lia.
Qed.

Lemma le_sorted_lex4_tc l : le_sorted lex4_leb l -> tc_sorted l.
Proof.
  induction l as [|x l IH]; cbn [le_sorted tc_sorted]; [auto|]. intros [H1 H2]. split; [|auto].
  eapply Forall_impl; [|exact H1]. cbn. intros y. apply lex4_tc.
Qed.

(* ---------- (time, channel) classes vs key classes ---------- *)
Lemma class_filter_key rs x y l :
  In y rs -> tc_eqb x y = true -> (forall z, In z l -> In z rs) ->
  filter (tc_eqb x) l = filter (fun z => sbt_key rs z =? sbt_key rs y) l.
Proof.
  intros Hy Hxy Hl. apply filter_ext_in. intros z Hz. apply Hl in Hz.
  destruct (sbt_key rs z =? sbt_key rs y) eqn:Ek.
  - apply Z.eqb_eq in Ek. apply (key_eq_iff rs z y Hz Hy) in Ek. unfold tc_eqb in *. lia.
  - apply Z.eqb_neq in Ek. destruct (tc_eqb x z) eqn:Exz; [|reflexivity].
    exfalso. apply Ek. apply (key_eq_iff rs z y Hz Hy). unfold tc_eqb in *. lia.
Qed.

Lemma class_filter_none rs x l :
  existsb (tc_eqb x) rs = false -> (forall z, In z l -> In z rs) -> filter (tc_eqb x) l = [].
Proof.
  intros He Hl. induction l as [|a l IH]; cbn [filter]; [reflexivity|].
  destruct (tc_eqb x a) eqn:E.
  - exfalso. assert (existsb (tc_eqb x) rs = true)
      by (apply existsb_exists; exists a; split; [apply Hl; left; auto|auto]). congruence.
  - apply IH. intros z Hz. apply Hl. right; auto.
Qed.

(* ---------- the theorem ---------- *)
Theorem sort_by_time_spec rs :
  let out := sort_by_time rs in
  Permutation rs out /\ tc_sorted out /\
  (sbt_range_too_large rs = false -> forall x, filter (tc_eqb x) out = filter (tc_eqb x) rs).
Proof.
  cbn zeta. unfold sort_by_time. destruct rs as [|r0 rest] eqn:Ers.
  - split; [apply Permutation_refl|]. split; [exact I|]. reflexivity.
  - rewrite <- Ers. destruct (sbt_range_too_large rs) eqn:E.
    + split; [apply sort_le_perm|]. split; [|discriminate].
      apply le_sorted_lex4_tc, sort_le_sorted; [exact lex4_total|exact lex4_trans].
    + pose proof (sort_by_perm (sbt_key rs) rs) as Hperm.
      assert (Hin : forall x, In x (sort_by (sbt_key rs) rs) -> In x rs)
        by (intros x Hx; eapply Permutation_in; [apply Permutation_sym, Hperm|exact Hx]).
      split; [exact Hperm|]. split.
      * apply (key_sorted_tc rs); [exact Hin|apply sort_by_sorted].
      * intros _ x. destruct (existsb (tc_eqb x) rs) eqn:Eex.
        -- apply existsb_exists in Eex as (y & Hy & Hxy).
           rewrite (class_filter_key rs x y _ Hy Hxy Hin).
           rewrite (class_filter_key rs x y rs Hy Hxy (fun z Hz => Hz)).
           apply (sort_by_stable (sbt_key rs) (sbt_key rs y)).
        -- rewrite (class_filter_none rs x _ Eex Hin).
           rewrite (class_filter_none rs x rs Eex (fun z Hz => Hz)). reflexivity.
Qed.

(* boolean form used by the correspondence check *)
Lemma rows_eqb_refl l : rows_eqb l l = true.
Proof.
  unfold rows_eqb. rewrite Nat.eqb_refl. cbn [andb]. induction l as [|x l IH]; [reflexivity|].
  cbn [combine forallb fst snd]. rewrite IH, andb_true_r. unfold row_eqb. rewrite !Z.eqb_refl. reflexivity.
Qed.

Theorem sort_by_time_is_stable_sort rs :
  sbt_range_too_large rs = false -> is_stable_sort_of rs (sort_by_time rs) = true.
Proof.
  intros E. destruct (sort_by_time_spec rs) as (Hperm & Hsorted & Hstable). specialize (Hstable E).
  unfold is_stable_sort_of. rewrite !andb_true_iff. repeat split.
  - apply tc_sorted_sorted_leb, Hsorted.
  - unfold same_classes. apply forallb_forall. intros x _. rewrite Hstable. apply rows_eqb_refl.
  - apply Nat.eqb_eq, Permutation_length, Hperm.
Qed.

(* kind guard of sort_enforcement *)
Theorem stable_sort_kind_guard keys kind :
  (kind <> 0 -> stable_sort keys kind = Err 5 /\ stable_argsort keys kind = Err 5) /\
  (kind = 0 -> exists l il, stable_sort keys kind = Ok l /\ stable_argsort keys kind = Ok il /\
      Permutation keys l /\ key_sorted (fun x => x) l /\
      (forall k, filter (fun y => y =? k) l = filter (fun y => y =? k) keys) /\
      l = map (fun i => nth i keys 0) il).
Proof.
  unfold stable_sort, stable_argsort. split.
  - intros H. destruct (kind =? 0) eqn:E; [lia|]. split; reflexivity.
  - intros ->. cbn [Z.eqb]. do 2 eexists. split; [reflexivity|]. split; [reflexivity|].
    split; [apply sort_by_perm|]. split; [apply sort_by_sorted|]. split; [intros k; apply sort_by_stable|].
    unfold argsort.
    (* sorting the indexed list by value and projecting gives the sorted values *)
    assert (G : forall (l : list (nat * Z)),
              map snd (sort_by snd l) = sort_by (fun x => x) (map snd l)).
    { induction l as [|p l IH]; [reflexivity|]. cbn [sort_by fold_right map].
      fold (sort_by snd l). fold (sort_by (fun x : Z => x) (map snd l)). rewrite <- IH.
      generalize (sort_by snd l). intros m. induction m as [|q m IHm]; [reflexivity|].
      cbn [ins_by map]. destruct (snd p <=? snd q); cbn [map]; [reflexivity|]. rewrite IHm. reflexivity. }
    assert (Hsnd : map snd (index_list keys) = keys).
    { unfold index_list. generalize 0%nat. induction keys as [|k ks IH]; intros s; [reflexivity|].
      cbn [length seq combine map snd]. rewrite IH. reflexivity. }
    rewrite <- Hsnd at 1. rewrite <- G.
    rewrite map_map. apply map_ext_in. intros [i v] Hiv. cbn [fst snd].
    apply (Permutation_in _ (Permutation_sym (sort_by_perm snd (index_list keys)))) in Hiv.
    unfold index_list in Hiv. clear - Hiv.
    assert (Gen : forall (l : list Z) s, In (i, v) (combine (seq s (length l)) l) -> (s <= i)%nat /\ v = nth (i - s) l 0).
    { induction l as [|k ks IH]; intros s H; [destruct H|]. cbn [length seq combine] in H.
      destruct H as [H|H].
      - inversion H; subst. rewrite Nat.sub_diag. split; [lia|reflexivity].
      - apply IH in H as [H1 H2]. split; [lia|]. replace (i - s)%nat with (S (i - S s)) by lia. exact H2. }
    apply Gen in Hiv as [_ Hv]. rewrite Nat.sub_0_r in Hv. exact Hv.
Qed.

Example sort_by_time_ex :
  let rs := [mkrow 2 3 0 1; mkrow 1 2 1 3; mkrow 2 4 2 0; mkrow 1 5 3 3; mkrow 1 1 4 (-2)] in
  sbt_range_too_large rs = false /\
  map rid (sort_by_time rs) = [4; 1; 3; 2; 0].
Proof. vm_compute. split; reflexivity. Qed.
