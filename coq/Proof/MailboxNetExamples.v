(* C13: the hypotheses of the theorems are satisfiable and the bounds are reached from below (Examples by
   vm_compute), and the path bound applied to the wirings that `wire` (the model of
   ThreadedMailboxProcessor.__init__) produces for a diamond, a multi-output plugin whose two outputs are
   both required, and a three-output plugin with a saved and a discarded side output. *)
From SV Require Import Base.Prelude Model.Mailbox Model.MailboxNet Model.C13Run
  Proof.MailboxFacts Proof.MailboxProof Proof.MailboxInOrder Proof.MailboxNetLift Proof.MailboxStepFacts
  Proof.MailboxNetFlow Proof.MailboxNetBound Proof.MailboxNetChain.
Local Open Scope nat_scope.

(* a scheduler that always runs the lowest enabled thread *)
Fixpoint greedy (fuel : nat) (n : net) : list nat * net :=
  match fuel with
  | O => ([], n)
  | S f =>
      match enabled_list n with
      | [] => ([], n)
      | w :: _ => match nstep n w with
                  | Some n' => let '(s, nf) := greedy f n' in (w :: s, nf)
                  | None => ([], n)
                  end
      end
  end.

Definition rest_report (n0 : net) (N : nat) (fuel : nat) : option (bool * nat * list nat) :=
  let '(s, nf) := greedy fuel n0 in
  match nrun n0 s with
  | Some n => Some (quiescent n, advances N (n_boxes n) 0, map (fun d => MailboxNet.box_len (n_boxes n) d) (seq 0 (length (n_boxes n))))
  | None => None
  end.

(* eager chain of 3 senders, max_messages 2, the consumer takes 2 of 40 chunks: the pipeline comes to rest
   with the source 11 items beyond the consumer's 2 (B_chain 3 2 = 13), every mailbox full *)
Example chain_eager_rest :
  rest_report (chain_net 3 2 false 2 40) 40 1000 = Some (true, 13, [2; 2; 2]).
Proof. vm_compute. reflexivity. Qed.

(* the same chain in lazy mode: exactly the 2 chunks that were asked for *)
Example chain_lazy_rest :
  rest_report (chain_net 3 2 true 2 40) 40 1000 = Some (true, 2, [0; 0; 0]).
Proof. vm_compute. reflexivity. Qed.

(* twice as long a run comes to rest at the same point *)
Example chain_eager_rest_2N :
  rest_report (chain_net 3 2 false 2 80) 80 1000 = Some (true, 13, [2; 2; 2]).
Proof. vm_compute. reflexivity. Qed.

(* one multi-output stage with 2 outputs: target output 0 (mailbox 2), output 1 (mailbox 3) saved by a
   non-driving saver and flowing freely *)
Definition fo_example (lz : bool) (N : nat) : net :=
  fanout_net 2 2 lz [2] (fun j => if j =? 0 then [true] else [false]) [(3, 0)] 0 0 1 N.

Example fanout_eager_rest : rest_report (fo_example false 40) 40 2000 = Some (true, 13, [2; 2; 2; 0]).
Proof. vm_compute. reflexivity. Qed.
Example fanout_lazy_rest : rest_report (fo_example true 40) 40 2000 = Some (true, 1, [0; 0; 0; 0]).
Proof. vm_compute. reflexivity. Qed.

(* ---------- wirings produced by `wire` ---------- *)
Lemma wire_GI c o p N :
  wf_b (map (fun kcd => (snd (fst kcd), snd kcd)) (w_boxes (wire c o p))) (map snd (w_threads (wire c o p))) = true ->
  GI N (net_of (wire c o p) N).
Proof. intros H. rewrite net_of_mk. apply wf_b_GI. exact H. Qed.

(* d0 -> d1, d0 -> d2, (d1, d2) -> d3; components.plugins in strax's order (target first) *)
Definition diamond_comps : comps :=
  mkComps [(3, 0); (1, 1); (0, 2); (2, 3)]
          [mkPlugin [3] [1; 2] None; mkPlugin [1] [0] None; mkPlugin [0] [] None; mkPlugin [2] [0] None]
          [] [] 3.
(* d0 -> multi-output (d1, d2); (d1, d2) -> d3: both outputs required, d2 flows freely by construction *)
Definition fanjoin_comps : comps :=
  mkComps [(3, 0); (1, 1); (2, 1); (0, 2)]
          [mkPlugin [3] [1; 2] None; mkPlugin [1; 2] [0] None; mkPlugin [0] [] None]
          [] [] 3.
(* d0 -> multi-output (d1, d2, d3); target d2, d3 saved, d1 discarded *)
Definition fanout3_comps : comps :=
  mkComps [(2, 0); (0, 1)] [mkPlugin [1; 2; 3] [0] None; mkPlugin [0] [] None] [] [(3, 1)] 2.

Ltac wired := apply wire_GI; vm_compute; reflexivity.

Lemma diamond_GI lz c p N : GI N (net_of (wire diamond_comps (mkOpts lz true c) p) N).
Proof. destruct lz; wired. Qed.
Lemma fanjoin_GI lz c p N : GI N (net_of (wire fanjoin_comps (mkOpts lz true c) p) N).
Proof. destruct lz; wired. Qed.
Lemma fanout3_GI lz c p N : GI N (net_of (wire fanout3_comps (mkOpts lz true c) p) N).
Proof. destruct lz; wired. Qed.

Ltac worker w := exists w; reflexivity.

(* diamond: mailboxes 0 = d1, 1 = d2, 2 = d3, 3 = d0; path d0 -(build:d1)-> d1 -(build:d3)-> d3 -> consumer *)
Lemma diamond_reach lz c p N :
  reach (net_of (wire diamond_comps (mkOpts lz true c) p) N) 3 (p + 2 * c + 2 * c + 2 * c).
Proof.
  destruct lz.
  - set (n0 := net_of (wire diamond_comps (mkOpts true true c) p) N).
    assert (R2 : reach n0 2 (p + 2 * c)).
    { change (reach n0 2 (p + 2 * cap_of (n_boxes n0) 2)). eapply reach_sink with (i := 0). exists 4. reflexivity. }
    assert (R0 : reach n0 0 (p + 2 * c + 2 * c)).
    { change (reach n0 0 (p + 2 * c + 2 * cap_of (n_boxes n0) 0)).
      eapply (reach_edge n0 _ 0 0 2); [worker 0|cbn; tauto|cbn; tauto|exact R2]. }
    change (reach n0 3 (p + 2 * c + 2 * c + 2 * cap_of (n_boxes n0) 3)).
    eapply (reach_edge n0 _ 3 0 0); [worker 1|cbn; tauto|cbn; tauto|exact R0].
  - set (n0 := net_of (wire diamond_comps (mkOpts false true c) p) N).
    assert (R2 : reach n0 2 (p + 2 * c)).
    { change (reach n0 2 (p + 2 * cap_of (n_boxes n0) 2)). eapply reach_sink with (i := 0). exists 4. reflexivity. }
    assert (R0 : reach n0 0 (p + 2 * c + 2 * c)).
    { change (reach n0 0 (p + 2 * c + 2 * cap_of (n_boxes n0) 0)).
      eapply (reach_edge n0 _ 0 0 2); [worker 0|cbn; tauto|cbn; tauto|exact R2]. }
    change (reach n0 3 (p + 2 * c + 2 * c + 2 * cap_of (n_boxes n0) 3)).
    eapply (reach_edge n0 _ 3 0 0); [worker 1|cbn; tauto|cbn; tauto|exact R0].
Qed.

Theorem diamond_bound lz c p N sched n :
  nrun (net_of (wire diamond_comps (mkOpts lz true c) p) N) sched = Some n ->
  advances N (n_boxes n) 3 <= p + 6 * c + 1.
Proof.
  intros Hrun. pose proof (flow_bound N _ sched n 3 _ (diamond_GI lz c p N) Hrun (diamond_reach lz c p N)). lia.
Qed.

(* fan-join: mailboxes 0 = d1, 1 = d2, 2 = d3, 3 = <plugin>_divide_outputs, 4 = d0;
   path d0 -(plugin iter)-> divide_outputs mailbox -(divider)-> d1 -(build:d3)-> d3 -> consumer *)
Lemma fanjoin_reach lz c p N :
  reach (net_of (wire fanjoin_comps (mkOpts lz true c) p) N) 4 (p + 2 * c + 2 * c + 2 * c + 2 * c).
Proof.
  destruct lz.
  - set (n0 := net_of (wire fanjoin_comps (mkOpts true true c) p) N).
    assert (R2 : reach n0 2 (p + 2 * c)).
    { change (reach n0 2 (p + 2 * cap_of (n_boxes n0) 2)). eapply reach_sink with (i := 0). exists 4. reflexivity. }
    assert (R0 : reach n0 0 (p + 2 * c + 2 * c)).
    { change (reach n0 0 (p + 2 * c + 2 * cap_of (n_boxes n0) 0)).
      eapply (reach_edge n0 _ 0 0 2); [worker 0|cbn; tauto|cbn; tauto|exact R2]. }
    assert (R3 : reach n0 3 (p + 2 * c + 2 * c + 2 * c)).
    { change (reach n0 3 (p + 2 * c + 2 * c + 2 * cap_of (n_boxes n0) 3)).
      eapply (reach_edge n0 _ 3 0 0); [worker 2|cbn; tauto|cbn; tauto|exact R0]. }
    change (reach n0 4 (p + 2 * c + 2 * c + 2 * c + 2 * cap_of (n_boxes n0) 4)).
    eapply (reach_edge n0 _ 4 0 3); [worker 1|cbn; tauto|cbn; tauto|exact R3].
  - set (n0 := net_of (wire fanjoin_comps (mkOpts false true c) p) N).
    assert (R2 : reach n0 2 (p + 2 * c)).
    { change (reach n0 2 (p + 2 * cap_of (n_boxes n0) 2)). eapply reach_sink with (i := 0). exists 4. reflexivity. }
    assert (R0 : reach n0 0 (p + 2 * c + 2 * c)).
    { change (reach n0 0 (p + 2 * c + 2 * cap_of (n_boxes n0) 0)).
      eapply (reach_edge n0 _ 0 0 2); [worker 0|cbn; tauto|cbn; tauto|exact R2]. }
    assert (R3 : reach n0 3 (p + 2 * c + 2 * c + 2 * c)).
    { change (reach n0 3 (p + 2 * c + 2 * c + 2 * cap_of (n_boxes n0) 3)).
      eapply (reach_edge n0 _ 3 0 0); [worker 2|cbn; tauto|cbn; tauto|exact R0]. }
    change (reach n0 4 (p + 2 * c + 2 * c + 2 * c + 2 * cap_of (n_boxes n0) 4)).
    eapply (reach_edge n0 _ 4 0 3); [worker 1|cbn; tauto|cbn; tauto|exact R3].
Qed.

Theorem fanjoin_bound lz c p N sched n :
  nrun (net_of (wire fanjoin_comps (mkOpts lz true c) p) N) sched = Some n ->
  advances N (n_boxes n) 4 <= p + 8 * c + 1.
Proof.
  intros Hrun. pose proof (flow_bound N _ sched n 4 _ (fanjoin_GI lz c p N) Hrun (fanjoin_reach lz c p N)). lia.
Qed.

(* three outputs: mailboxes 0 = <plugin>_divide_outputs, 1 = d0, 2 = d1 (discarded), 3 = d2 (target),
   4 = d3 (saved); path d0 -(plugin iter)-> divide_outputs mailbox -(divider)-> d2 -> consumer *)
Lemma fanout3_reach lz c p N :
  reach (net_of (wire fanout3_comps (mkOpts lz true c) p) N) 1 (p + 2 * c + 2 * c + 2 * c).
Proof.
  destruct lz.
  - set (n0 := net_of (wire fanout3_comps (mkOpts true true c) p) N).
    assert (R3 : reach n0 3 (p + 2 * c)).
    { change (reach n0 3 (p + 2 * cap_of (n_boxes n0) 3)). eapply reach_sink with (i := 0). exists 5. reflexivity. }
    assert (R0 : reach n0 0 (p + 2 * c + 2 * c)).
    { change (reach n0 0 (p + 2 * c + 2 * cap_of (n_boxes n0) 0)).
      eapply (reach_edge n0 _ 0 0 3); [worker 1|cbn; tauto|cbn; tauto|exact R3]. }
    change (reach n0 1 (p + 2 * c + 2 * c + 2 * cap_of (n_boxes n0) 1)).
    eapply (reach_edge n0 _ 1 0 0); [worker 0|cbn; tauto|cbn; tauto|exact R0].
  - set (n0 := net_of (wire fanout3_comps (mkOpts false true c) p) N).
    assert (R3 : reach n0 3 (p + 2 * c)).
    { change (reach n0 3 (p + 2 * cap_of (n_boxes n0) 3)). eapply reach_sink with (i := 0). exists 5. reflexivity. }
    assert (R0 : reach n0 0 (p + 2 * c + 2 * c)).
    { change (reach n0 0 (p + 2 * c + 2 * cap_of (n_boxes n0) 0)).
      eapply (reach_edge n0 _ 0 0 3); [worker 1|cbn; tauto|cbn; tauto|exact R3]. }
    change (reach n0 1 (p + 2 * c + 2 * c + 2 * cap_of (n_boxes n0) 1)).
    eapply (reach_edge n0 _ 1 0 0); [worker 0|cbn; tauto|cbn; tauto|exact R0].
Qed.

Theorem fanout3_bound lz c p N sched n :
  nrun (net_of (wire fanout3_comps (mkOpts lz true c) p) N) sched = Some n ->
  advances N (n_boxes n) 1 <= p + 6 * c + 1.
Proof.
  intros Hrun. pose proof (flow_bound N _ sched n 1 _ (fanout3_GI lz c p N) Hrun (fanout3_reach lz c p N)). lia.
Qed.
