(* C18 proofs, part 1: the hit finder returns exactly the maximal runs. *)
From SV Require Import Model.Hits Model.Reduction Spec.HitsSpec.

(* ---------- small list facts ---------- *)
Lemma zlen_app {A} (a b : list A) : zlen (a ++ b) = zlen a + zlen b.
Proof. unfold zlen. rewrite app_length. lia. Qed.
Lemma zlen_cons {A} (x : A) l : zlen (x :: l) = 1 + zlen l.
Proof. unfold zlen. cbn [length]. lia. Qed.
Lemma zlen_nil {A} : zlen (@nil A) = 0.
Proof. reflexivity. Qed.
Lemma zlen_nonneg {A} (l : list A) : 0 <= zlen l.
Proof. unfold zlen. lia. Qed.
Lemma zlen_zero_nil {A} (l : list A) : zlen l = 0 -> l = [].
Proof. destruct l; [auto|]. rewrite zlen_cons. pose proof (zlen_nonneg l). lia. Qed.

Lemma nthZ_app_r (pre : list Z) x rest : nthZ (pre ++ x :: rest) (zlen pre) = x.
Proof.
  unfold nthZ, zlen. destruct (Z.of_nat (length pre) <? 0) eqn:E; [lia|].
  rewrite Nat2Z.id, app_nth2, Nat.sub_diag; [reflexivity|lia].
Qed.

Lemma zsum_snoc l x : zsum (l ++ [x]) = zsum l + x.
Proof. rewrite zsum_app. cbn [zsum]. lia. Qed.

Lemma snoc_assoc {A} (pre : list A) x rest : pre ++ x :: rest = (pre ++ [x]) ++ rest.
Proof. rewrite <- app_assoc. reflexivity. Qed.

(* ---------- the sample loop ---------- *)
Section Loop.
Variables (r : rec) (k thr n : Z).
Hypothesis Hthr : 0 < thr.

Lemma sat_pos x : satP thr x -> 0 < x.
Proof. unfold satP, FR2. lia. Qed.

Definition left_ok (A : list Z) : Prop := A = [] \/ exists A' y, A = A' ++ [y] /\ ~ satP thr y.

Definition InvOut (pre : list Z) (st : fstate) : Prop :=
  f_in st = false /\ f_area st = 0 /\ f_height st = 0 /\ left_ok pre.

Definition InvIn (pre : list Z) (st : fstate) : Prop :=
  f_in st = true /\ exists A R1 y R2,
    pre = A ++ R1 ++ y :: R2 /\ left_ok A /\ Forall (satP thr) (R1 ++ y :: R2) /\
    Forall (fun v => v < y) R1 /\ Forall (fun v => v <= y) R2 /\
    f_start st = zlen A /\ f_area st = zsum (R1 ++ y :: R2) /\ f_height st = y /\
    f_mt st = r_time r + (zlen A + zlen R1) * r_dt r.

Definition lo_of (pre : list Z) (st : fstate) : Z := if f_in st then f_start st else zlen pre.

Definition Post (w : list Z) (lo : Z) (hs : list hit) : Prop :=
  Forall (hit_is_run r k thr w) hs /\
  Forall (fun h => lo <= h_left h) hs /\
  StronglySorted (fun h1 h2 => h_right h1 < h_left h2) hs /\
  covered thr w lo hs.

(* extending the current run by one more sample at or above threshold *)
Lemma extend_run R1 y R2 x :
  Forall (fun v => v < y) R1 -> Forall (fun v => v <= y) R2 ->
  exists R1' R2', let y' := Z.max x y in
    R1' ++ y' :: R2' = (R1 ++ y :: R2) ++ [x] /\
    Forall (fun v => v < y') R1' /\ Forall (fun v => v <= y') R2' /\
    zlen R1' = (if x >? y then zlen (R1 ++ y :: R2) else zlen R1).
Proof.
  intros H1 H2. destruct (x >? y) eqn:E.
  - exists (R1 ++ y :: R2), []. cbn zeta. replace (Z.max x y) with x by lia.
    repeat split; auto.
    apply Forall_app; split.
    + eapply Forall_impl; [|exact H1]. cbn; intros; lia.
    + constructor; [lia|]. eapply Forall_impl; [|exact H2]. cbn; intros; lia.
  - exists R1, (R2 ++ [x]). cbn zeta. replace (Z.max x y) with y by lia.
    repeat split; auto.
    + rewrite <- app_assoc. reflexivity.
    + apply Forall_app; split; auto. constructor; [lia|constructor].
Qed.

(* the hit saved for a finished run *)
Lemma emitted_is_run A R1 y R2 B w :
  w = A ++ (R1 ++ y :: R2) ++ B -> left_ok A -> Forall (satP thr) (R1 ++ y :: R2) ->
  Forall (fun v => v < y) R1 -> Forall (fun v => v <= y) R2 ->
  (B = [] \/ exists y' B', B = y' :: B' /\ ~ satP thr y') ->
  hit_is_run r k thr w
    (mk_hit r k thr (zlen A) (zlen A + zlen (R1 ++ y :: R2)) (zsum (R1 ++ y :: R2)) y
            (r_time r + (zlen A + zlen R1) * r_dt r)).
Proof.
  intros Hw HA Hs H1 H2 HB. exists A, R1, y, R2, B. cbn zeta.
  split; [|unfold mk_hit; cbn; repeat split; auto; lia].
  unfold run_at. repeat split; auto. destruct R1; discriminate.
Qed.

Lemma fh_loop_spec : forall xs pre st,
  n = zlen (pre ++ xs) ->
  InvOut pre st \/ InvIn pre st ->
  (xs = [] -> f_in st = false) ->
  exists st' hs, fh_loop r k thr n xs (zlen pre) st = Ok (st', hs) /\
                 Post (pre ++ xs) (lo_of pre st) hs.
Proof.
  induction xs as [|x rest IH]; intros pre st Hn HI Hlast.
  - exists st, []. split; [reflexivity|].
    unfold Post. repeat split; try constructor.
    intros j Hj _. unfold lo_of in Hj. rewrite (Hlast eq_refl), app_nil_r in Hj. lia.
  - assert (Hw : pre ++ x :: rest = (pre ++ [x]) ++ rest) by apply snoc_assoc.
    assert (Hi1 : zlen (pre ++ [x]) = zlen pre + 1) by (rewrite zlen_app, zlen_cons, zlen_nil; lia).
    assert (Hn' : n = zlen ((pre ++ [x]) ++ rest)) by (rewrite <- Hw; exact Hn).
    assert (Hnz : n = zlen pre + 1 + zlen rest) by (rewrite Hn, zlen_app, zlen_cons; lia).
    assert (Hrest : zlen pre =? n - 1 = false -> rest = [] -> False).
    { intros E ->. rewrite zlen_nil in Hnz. lia. }
    assert (Hx : nthZ (pre ++ x :: rest) (zlen pre) = x) by apply nthZ_app_r.
    cbn [fh_loop].
    destruct HI as [(Hin & Ha & Hh & HL) | (Hin & A & R1 & y & R2 & Hpre & HL & HS & H1 & H2 & Hst & Ha & Hh & Hm)].
    + (* not in an interval *)
      destruct st as [inn s a h m]. cbn in Hin, Ha, Hh. subst inn a h. cbn [f_in negb andb].
      destruct (thr <=? FR2 * x) eqn:Esat.
      * (* a hit starts here *)
        assert (Hsx : satP thr x) by (unfold satP; lia).
        pose proof (sat_pos x Hsx) as Hxp.
        cbn [f_in f_area f_height f_mt f_start negb].
        replace (Z.max x 0) with x by lia.
        replace (x >? 0) with true by lia.
        replace (x >? x) with false by lia.
        replace (Z.max x x) with x by lia. replace (0 + x) with x by lia.
        destruct (zlen pre =? n - 1) eqn:Elast.
        -- (* ... and ends with the record *)
           assert (rest = []) by (apply zlen_zero_nil; lia). subst rest.
           cbn [negb]. replace (zlen pre + 1 =? zlen pre) with false by lia.
           cbn [fh_loop].
           eexists _, [_]. split; [reflexivity|].
           pose proof (emitted_is_run pre [] x [] [] (pre ++ [x])) as HE.
           cbn [app zsum] in HE. rewrite zlen_cons, !zlen_nil in HE.
           replace (x + 0) with x in HE by lia. replace (zlen pre + 0) with (zlen pre) in HE by lia.
           replace (zlen pre + (1 + 0)) with (zlen pre + 1) in HE by lia.
           unfold Post, lo_of. cbn [f_in].
           repeat split.
           ++ constructor; [|constructor]. apply HE; auto; repeat constructor; auto.
           ++ constructor; [cbn; lia|constructor].
           ++ constructor; constructor.
           ++ intros j Hj Hs. eexists; split; [left; reflexivity|]. cbn. rewrite Hi1 in Hj. lia.
        -- cbn [negb].
           destruct (IH (pre ++ [x]) (mkfs true (zlen pre) x x (r_time r + zlen pre * r_dt r))) as (st' & hs & Hrun & HP); auto.
           { right. split; [reflexivity|]. exists pre, [], x, []. cbn [app zsum f_start f_area f_height f_mt].
             change (zlen (@nil Z)) with 0. repeat split; auto; try lia; repeat constructor; auto. }
           { intros ->. exfalso. apply Hrest; auto. }
           rewrite Hi1 in Hrun. exists st', hs. split; [exact Hrun|].
           rewrite Hw. unfold lo_of in *. cbn [f_in f_start] in *. exact HP.
      * (* still outside *)
        cbn [f_in].
        destruct (IH (pre ++ [x]) (mkfs false s 0 0 m)) as (st' & hs & Hrun & HP); auto.
        { left. repeat split; auto. right. exists pre, x. split; auto. unfold satP; lia. }
        rewrite Hi1 in Hrun. exists st', hs. split; [exact Hrun|].
        rewrite Hw. unfold lo_of in *. cbn [f_in] in *.
        destruct HP as (P1 & P2 & P3 & P4). repeat split; auto.
        -- eapply Forall_impl; [|exact P2]. cbn; intros; lia.
        -- intros j Hj Hs. destruct (Z.eq_dec j (zlen pre)) as [->|Hne].
           ++ rewrite <- Hw, Hx in Hs. unfold satP in Hs. lia.
           ++ apply P4; auto. lia.
    + (* inside an interval *)
      destruct st as [inn s a h m]. cbn in Hin, Hst, Ha, Hh, Hm. subst inn s a h m.
      cbn [f_in negb andb f_start f_area f_height f_mt].
      set (R := R1 ++ y :: R2) in *.
      assert (HRpos : 0 < zlen R).
      { unfold R. rewrite zlen_app, zlen_cons. pose proof (zlen_nonneg R1). pose proof (zlen_nonneg R2). lia. }
      assert (Hlenpre : zlen pre = zlen A + zlen R) by (rewrite Hpre; fold R; rewrite zlen_app; reflexivity).
      destruct (thr <=? FR2 * x) eqn:Esat.
      * (* the run continues *)
        assert (Hsx : satP thr x) by (unfold satP; lia).
        cbn [negb].
        destruct (extend_run R1 y R2 x H1 H2) as (R1' & R2' & HR' & H1' & H2' & Hl1). cbn zeta in *. fold R in HR', Hl1.
        assert (Hmt : (if x >? y then r_time r + zlen pre * r_dt r else r_time r + (zlen A + zlen R1) * r_dt r)
                      = r_time r + (zlen A + zlen R1') * r_dt r).
        { rewrite Hl1. destruct (x >? y); [rewrite Hlenpre|]; reflexivity. }
        rewrite Hmt.
        assert (Hpre' : pre ++ [x] = A ++ R1' ++ Z.max x y :: R2').
        { rewrite HR', Hpre. fold R. rewrite <- !app_assoc. reflexivity. }
        assert (HS' : Forall (satP thr) (R1' ++ Z.max x y :: R2')).
        { rewrite HR'. apply Forall_app; split; auto. }
        assert (Hsum' : zsum R + x = zsum (R1' ++ Z.max x y :: R2')) by (rewrite HR', zsum_snoc; reflexivity).
        assert (Hlen' : zlen (R1' ++ Z.max x y :: R2') = zlen R + 1).
        { rewrite HR', zlen_app, zlen_cons, zlen_nil. lia. }
        destruct (zlen pre =? n - 1) eqn:Elast.
        -- assert (rest = []) by (apply zlen_zero_nil; lia). subst rest.
           cbn [negb]. replace (zlen pre + 1 =? zlen A) with false by lia.
           cbn [fh_loop].
           eexists _, [_]. split; [reflexivity|].
           pose proof (emitted_is_run A R1' (Z.max x y) R2' [] (pre ++ [x])) as HE.
           rewrite Hlen', <- Hsum' in HE. replace (zlen A + (zlen R + 1)) with (zlen pre + 1) in HE by lia.
           unfold Post, lo_of. cbn [f_in f_start].
           repeat split.
           ++ constructor; [|constructor]. apply HE; auto. rewrite app_nil_r. exact Hpre'.
           ++ constructor; [cbn; lia|constructor].
           ++ constructor; constructor.
           ++ intros j Hj Hs. eexists; split; [left; reflexivity|]. cbn. rewrite Hi1 in Hj. lia.
        -- cbn [negb].
           destruct (IH (pre ++ [x]) (mkfs true (zlen A) (zsum R + x) (Z.max x y) (r_time r + (zlen A + zlen R1') * r_dt r)))
             as (st' & hs & Hrun & HP); auto.
           { right. split; [reflexivity|]. exists A, R1', (Z.max x y), R2'.
             cbn [f_start f_area f_height f_mt]. repeat split; auto. }
           { intros ->. exfalso. apply Hrest; auto. }
           rewrite Hi1 in Hrun. exists st', hs. split; [exact Hrun|].
           rewrite Hw. unfold lo_of in *. cbn [f_in f_start] in *. exact HP.
      * (* the run ends at the start of this sample *)
        cbn [negb]. replace (zlen pre =? zlen A) with false by lia.
        destruct (IH (pre ++ [x]) (mkfs false (zlen A) 0 0 (r_time r + (zlen A + zlen R1) * r_dt r)))
          as (st' & hs & Hrun & HP); auto.
        { left. repeat split; auto. right. exists pre, x. split; auto. unfold satP; lia. }
        rewrite Hi1 in Hrun. rewrite Hrun.
        eexists _, (_ :: hs). split; [reflexivity|].
        pose proof (emitted_is_run A R1 y R2 (x :: rest) (pre ++ x :: rest)) as HE. fold R in HE.
        replace (zlen A + zlen R) with (zlen pre) in HE by lia.
        destruct HP as (P1 & P2 & P3 & P4). unfold lo_of in *. cbn [f_in f_start] in *.
        rewrite <- Hw in *.
        repeat split.
        -- constructor; auto. apply HE; auto.
           ++ rewrite Hpre. fold R. rewrite <- !app_assoc. reflexivity.
           ++ right. exists x, rest. split; auto. unfold satP; lia.
        -- constructor; [cbn; lia|]. eapply Forall_impl; [|exact P2]. cbn; intros; lia.
        -- constructor; auto. eapply Forall_impl; [|exact P2]. cbn; intros; lia.
        -- intros j Hj Hs.
           destruct (Z_lt_dec j (zlen pre)) as [Hlt|Hge].
           ++ eexists; split; [left; reflexivity|]. cbn. lia.
           ++ destruct (Z.eq_dec j (zlen pre)) as [->|Hne].
              ** rewrite Hx in Hs. unfold satP in Hs. lia.
              ** destruct (P4 j) as (h' & Hh' & Hr'); auto; [lia|]. exists h'. split; [right; auto|auto].
Qed.

End Loop.
