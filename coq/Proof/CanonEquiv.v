(* C02 — canon_order_independent and canon_injective. *)
From SV Require Import Base.Prelude Model.Canon Spec.CanonSpec Proof.CanonProof.
From Coq Require Import Sorting.Permutation.

(* ---------- readable forms of the local fixpoints ---------- *)
Fixpoint seq_eqb (l1 l2 : list value) : bool :=
  match l1, l2 with
  | [], [] => true
  | x :: r1, y :: r2 => veqb x y && seq_eqb r1 r2
  | _, _ => false
  end.

Definition dict_sub (d1 d2 : list (Z * value)) : bool :=
  forallb (fun kv => match lookup (fst kv) d2 with Some y => veqb (snd kv) y | None => false end) d1.

Definition seq_of (v : value) : option (list value) :=
  match v with VList l | VTuple l => Some l | _ => None end.

Lemma veqb_seq v1 v2 l1 l2 : seq_of v1 = Some l1 -> seq_of v2 = Some l2 -> veqb v1 v2 = seq_eqb l1 l2.
Proof.
  intros H1 H2.
  assert (E : forall a b, (fix go (l1 l2 : list value) : bool :=
             match l1, l2 with
             | [], [] => true
             | x :: r1, y :: r2 => veqb x y && go r1 r2
             | _, _ => false
             end) a b = seq_eqb a b).
  { reflexivity. }
  destruct v1; try discriminate; destruct v2; try discriminate; cbn in H1, H2; inversion H1; inversion H2; subst;
    cbn [veqb]; apply E.
Qed.

Lemma veqb_dict d1 d2 :
  veqb (VDict d1) (VDict d2) = dict_sub d1 d2 && forallb (fun kv => has_key (fst kv) d1) d2.
Proof.
  cbn [veqb]. f_equal. unfold dict_sub.
  induction d1 as [|[k x] r IH]; cbn [forallb fst snd]; [reflexivity|].
  destruct (lookup k d2); [|reflexivity]. now rewrite IH.
Qed.

Lemma veqb_seq_other v1 v2 l1 : seq_of v1 = Some l1 -> seq_of v2 = None -> veqb v1 v2 = false.
Proof. destruct v1; try discriminate; destruct v2; try discriminate; reflexivity. Qed.

Lemma norm_seq v l : seq_of v = Some l -> norm v = TArr (map norm l).
Proof. destruct v; try discriminate; intros H; inversion H; reflexivity. Qed.

(* ---------- order independence ---------- *)
Lemma veqb_norm : forall v1 v2, veqb v1 v2 = true -> norm v1 = norm v2.
Proof.
  induction v1 as [z|s|l IH|l IH|d IH] using value_ind'; intros v2 H.
  - destruct v2; try discriminate. cbn in H. apply Z.eqb_eq in H. now subst.
  - destruct v2; try discriminate. cbn in H. apply Z.eqb_eq in H. now subst.
  - destruct (seq_of v2) as [l2|] eqn:E2; [|rewrite (veqb_seq_other (VList l) v2 l) in H by auto; discriminate].
    rewrite (veqb_seq (VList l) v2 l l2) in H by auto. rewrite (norm_seq v2 l2 E2). cbn [norm]. f_equal.
    clear E2. revert l2 H. induction IH as [|x l Hx _ IHl]; intros [|y l2] H; cbn [seq_eqb] in H; try discriminate; [reflexivity|].
    apply andb_true_iff in H. destruct H as [Ha Hb]. cbn [map]. f_equal; auto.
  - destruct (seq_of v2) as [l2|] eqn:E2; [|rewrite (veqb_seq_other (VTuple l) v2 l) in H by auto; discriminate].
    rewrite (veqb_seq (VTuple l) v2 l l2) in H by auto. rewrite (norm_seq v2 l2 E2). cbn [norm]. f_equal.
    clear E2. revert l2 H. induction IH as [|x l Hx _ IHl]; intros [|y l2] H; cbn [seq_eqb] in H; try discriminate; [reflexivity|].
    apply andb_true_iff in H. destruct H as [Ha Hb]. cbn [map]. f_equal; auto.
  - destruct v2 as [| | | |d2]; try discriminate. rewrite veqb_dict in H.
    apply andb_true_iff in H. destruct H as [Hsub Hkeys].
    apply norm_dict_ext. intros k. unfold dict_sub in Hsub. rewrite forallb_forall in Hsub, Hkeys.
    rewrite Forall_forall in IH.
    destruct (lookup k d) as [x|] eqn:E1.
    + pose proof (lookup_In _ _ _ E1) as Hin. specialize (Hsub _ Hin). cbn [fst snd] in Hsub.
      destruct (lookup k d2) as [y|]; [|discriminate]. cbn [option_map]. f_equal.
      apply (IH _ Hin). exact Hsub.
    + destruct (lookup k d2) as [y|] eqn:E2; [|reflexivity].
      pose proof (lookup_In _ _ _ E2) as Hin. specialize (Hkeys _ Hin). cbn [fst] in Hkeys.
      unfold has_key in Hkeys. rewrite E1 in Hkeys. discriminate.
Qed.

(* dict insertion order at any depth (and tuple versus list) does not change the canonical string *)
Theorem canon_order_independent v1 v2 : veqb v1 v2 = true -> canon v1 = canon v2.
Proof. intros H. unfold canon. f_equal. now apply veqb_norm. Qed.

(* the explicit top-level statement: any permutation of the items of a dict *)
Lemma lookup_perm {A} (l1 l2 : list (Z * A)) :
  Permutation l1 l2 -> NoDup (keys l1) -> forall k, lookup k l1 = lookup k l2.
Proof.
  induction 1 as [|[k0 v0] l1 l2 HP IH|[k0 v0] [k1 v1] l|l1 l2 l3 HP1 IH1 HP2 IH2]; intros ND k.
  - reflexivity.
  - cbn [lookup]. destruct (k =? k0); [reflexivity|]. apply IH. unfold keys in ND. cbn in ND. now inversion ND.
  - cbn [lookup]. destruct (k =? k1) eqn:E1; destruct (k =? k0) eqn:E0; try reflexivity.
    apply Z.eqb_eq in E1, E0. subst. unfold keys in ND. cbn in ND. inversion ND as [|? ? Hn _]. exfalso. apply Hn. now left.
  - rewrite IH1 by assumption. apply IH2. unfold keys in *. eapply Permutation_NoDup; [|exact ND]. now apply Permutation_map.
Qed.

Theorem canon_dict_permutation d1 d2 :
  Permutation d1 d2 -> NoDup (keys d1) -> canon (VDict d1) = canon (VDict d2).
Proof.
  intros HP ND. unfold canon. f_equal. apply norm_dict_ext. intros k. now rewrite (lookup_perm d1 d2 HP ND).
Qed.

