(* C02 — what equality of the (repaired) context hash implies, and what Context.register preserves. *)
From SV Require Import Base.Prelude Model.Canon Model.Lineage Proof.CanonProof Spec.LineageSpec
  Proof.LineageEquiv Proof.LineageCache.

(* ---------- the repaired context hash determines the settings up to equivalence ---------- *)
Lemma map_norm_VStr_inj l l' : map norm (map VStr l) = map norm (map VStr l') -> l = l'.
Proof.
  revert l'. induction l as [|a l IH]; intros [|b l'] H; cbn [map norm] in H; try discriminate; [reflexivity|].
  inversion H. f_equal. now apply IH.
Qed.

Lemma map_norm_pairs_inj (l l' : list (Z * Z)) :
  map norm (map (fun p => VTuple [VStr (fst p); VStr (snd p)]) l) =
  map norm (map (fun p => VTuple [VStr (fst p); VStr (snd p)]) l') -> l = l'.
Proof.
  revert l'. induction l as [|[a1 a2] l IH]; intros [|[b1 b2] l'] H; cbn [map norm fst snd] in H; try discriminate; [reflexivity|].
  inversion H. f_equal. now apply IH.
Qed.

Lemma bool_Z_inj (a b : bool) : (if a then 1 else 0) = (if b then 1 else 0) -> a = b.
Proof. destruct a, b; intros H; try reflexivity; discriminate. Qed.

Lemma norm_opt_value_inj o o' : norm (opt_value o) = norm (opt_value o') -> opt_equiv o o'.
Proof.
  unfold opt_value. rewrite !norm_tuple. cbn [map]. intros H. inversion H as [[Hn Ht Hp Hd]].
  repeat split; auto.
  - now apply bool_Z_inj.
  - destruct (oparent o), (oparent o'); cbn [norm map] in Hp; inversion Hp; reflexivity.
Qed.

Lemma map_norm_opts_inj os os' :
  map norm (map opt_value os) = map norm (map opt_value os') -> Forall2 opt_equiv os os'.
Proof.
  revert os'. induction os as [|o os IH]; intros [|o' os'] H; cbn [map] in H; try discriminate; [constructor|].
  assert (H1 : norm (opt_value o) = norm (opt_value o')) by congruence.
  assert (H2 : map norm (map opt_value os) = map norm (map opt_value os')) by congruence.
  constructor; [now apply norm_opt_value_inj|now apply IH].
Qed.

Lemma norm_cls_value_inj c c' : norm (cls_value c) = norm (cls_value c') -> cls_equiv c c'.
Proof.
  unfold cls_value. rewrite !norm_tuple. cbn [map]. rewrite !norm_tuple. intros H.
  inversion H as [[Hn Hv Hc Ht Hp Hd Hch Hpar Hos]].
  repeat split; auto.
  - now apply map_norm_VStr_inj.
  - now apply map_norm_VStr_inj.
  - now apply bool_Z_inj.
  - now apply map_norm_pairs_inj.
  - now apply map_norm_opts_inj.
Qed.

Theorem fixed_hash_equiv reg conf reg0 conf0 :
  canon (chash_value_fixed reg conf) = canon (chash_value_fixed reg0 conf0) ->
  reg_equiv reg reg0 /\ conf_equiv conf conf0.
Proof.
  intros H. apply ser_injective in H. unfold chash_value_fixed in H. rewrite !norm_tuple in H. cbn [map] in H.
  assert (H1 : norm (VDict conf) = norm (VDict conf0)) by congruence.
  assert (H2 : norm (VDict (map (fun dc => (fst dc, cls_value (snd dc))) reg)) =
               norm (VDict (map (fun dc => (fst dc, cls_value (snd dc))) reg0))) by congruence.
  split; [|now apply norm_dict_ext].
  apply norm_dict_ext in H2. intros dt. specialize (H2 dt). rewrite !lookup_map_snd in H2.
  destruct (lookup dt reg) as [c|], (lookup dt reg0) as [c0|]; cbn [option_map] in H2; try discriminate; [|exact I].
  apply norm_cls_value_inj. congruence.
Qed.

(* soundness of instances transfers along equivalent settings *)
Lemma sound_inst_transfer reg conf reg0 conf0 dt i :
  reg_equiv reg0 reg -> conf_equiv conf0 conf -> sound_inst reg0 conf0 dt i -> sound_inst reg conf dt i.
Proof.
  intros Hr Hc (ND & n & i' & Hs & He). split; [exact ND|].
  pose proof (spec_plugin_equiv reg0 reg conf0 conf Hr Hc n dt) as G. rewrite Hs in G.
  destruct (spec_plugin n reg conf dt) as [i''|] eqn:E; cbn [res_rel] in G; [|contradiction].
  exists n, i''. split; [exact E|]. eapply inst_equiv_trans; eauto.
Qed.

(* lineages that are equivalent have the same key *)
Lemma lin_equiv_canon l l' : lin_equiv l l' -> canon (lin_value l) = canon (lin_value l').
Proof.
  intros H. unfold canon. f_equal. unfold lin_value. apply norm_dict_ext. intros k.
  change (map (fun e : Z * lentry => (fst e, VTuple [VStr (fst (fst (snd e))); VStr (snd (fst (snd e))); VDict (snd (snd e))])) l)
    with (map (fun e : Z * lentry => (fst e, entry_value (snd e))) l).
  change (map (fun e : Z * lentry => (fst e, VTuple [VStr (fst (fst (snd e))); VStr (snd (fst (snd e))); VDict (snd (snd e))])) l')
    with (map (fun e : Z * lentry => (fst e, entry_value (snd e))) l').
  rewrite !(lookup_map_snd entry_value). specialize (H k). unfold norm_entry in H.
  destruct (lookup k l), (lookup k l'); cbn [option_map] in *; congruence.
Qed.

(* ---------- Context.register keeps the registry consistent ---------- *)
Definition cid_ok (U : list cls) : Prop := forall a b, In a U -> In b U -> cid a = cid b -> a = b.
Definition reg_in (U : list cls) (r : registry) : Prop := forall dt c, lookup dt r = Some c -> In c U.

Lemma cls_same_sym a b : cls_same a b = cls_same b a.
Proof. unfold cls_same. apply Z.eqb_sym. Qed.

(* first loop *)
Definition reg_step (c : cls) (acc : registry * list cls) (p : Z) : registry * list cls :=
  let (r, dereg) := acc in
  let dereg' := match lookup p r with
                | Some old => if cls_same old c then dereg else dereg ++ [old]
                | None => dereg
                end in
  (dset p c r, dereg').

Definition boot_one (old : cls) (r : registry) (d : Z) : registry :=
  match lookup d r with
  | Some cur => if cls_same cur old then ddel d r else r
  | None => r
  end.

Lemma register_core_unfold reg c :
  register_core reg c =
  let (r1, dereg) := fold_left (reg_step c) (cprovides c) (reg, []) in
  fold_left (fun r old => fold_left (boot_one old) (cprovides old) r) dereg r1.
Proof. reflexivity. Qed.

