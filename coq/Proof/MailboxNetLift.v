(* Every step of the network model (Model/MailboxNet.v) is one C05 step of one mailbox; therefore every
   per-mailbox invariant of the C05 transition system holds in every mailbox of every reachable network
   state, for every network (any wiring) and every schedule. *)
From SV Require Import Base.Prelude Model.Mailbox Model.MailboxNet Proof.MailboxFacts Proof.MailboxProof.
Local Open Scope nat_scope.

(* ---------- shape of a network step ---------- *)
Lemma box_step_inv bs d t bs' :
  box_step bs d t = Some bs' ->
  exists cfg st st', nth_error bs d = Some (cfg, st) /\ step cfg st t = Some st' /\ bs' = upd d (cfg, st') bs.
Proof.
  unfold box_step. destruct (nth_error bs d) as [[cfg st]|] eqn:E; try discriminate.
  destruct (step cfg st t) as [st'|] eqn:Es; try discriminate.
  intros H; inversion H; subst. eauto 6.
Qed.

(* which C05 thread of which mailbox a network thread is about to run *)
Definition next_move (th : thread) : option (nat * tid) :=
  match th with
  | Sink u i _ => Some (u, TR i)
  | Worker prog pc _ =>
      match nth_error prog pc with
      | Some (OPull u i) => Some (u, TR i)
      | Some (OGate d) | Some (OSend d) => Some (d, TS)
      | None => None
      end
  end.

Lemma thread_step_move bs th bs' th' :
  thread_step bs th = Some (bs', th') ->
  exists d t, next_move th = Some (d, t) /\ box_step bs d t = Some bs'.
Proof.
  destruct th as [prog pc iter|u i b]; cbn [thread_step next_move].
  - destruct (nth_error prog pc) as [[d|u i|d]|]; try discriminate.
    + destruct (at_gate (spc_of bs d)); try discriminate.
      destruct (box_step bs d TS) as [bs1|] eqn:E; try discriminate.
      destruct (sender_waits (spc_of bs1 d)).
      * intros H; inversion H; subst. eauto.
      * destruct (advance prog pc iter). intros H; inversion H; subst. eauto.
    + destruct (iter <? nread_of bs u i); try discriminate.
      destruct (box_step bs u (TR i)) as [bs1|] eqn:E; try discriminate.
      intros H; inversion H; subst. eauto.
    + destruct (at_send (spc_of bs d)); try discriminate.
      destruct (box_step bs d TS) as [bs1|] eqn:E; try discriminate.
      destruct (sender_waits (spc_of bs1 d)).
      * intros H; inversion H; subst. eauto.
      * destruct (advance prog pc iter). intros H; inversion H; subst. eauto.
  - destruct (budget_left bs u i b); try discriminate.
    destruct (box_step bs u (TR i)) as [bs1|] eqn:E; try discriminate.
    intros H; inversion H; subst. eauto.
Qed.

Lemma nstep_inv n w n' :
  nstep n w = Some n' ->
  exists th th' d t cfg st st',
    nth_error (n_threads n) w = Some th /\ next_move th = Some (d, t) /\
    nth_error (n_boxes n) d = Some (cfg, st) /\ step cfg st t = Some st' /\
    n_boxes n' = upd d (cfg, st') (n_boxes n) /\ n_threads n' = upd w th' (n_threads n) /\
    thread_step (n_boxes n) th = Some (n_boxes n', th').
Proof.
  unfold nstep. destruct (nth_error (n_threads n) w) as [th|] eqn:Eth; try discriminate.
  destruct (thread_step (n_boxes n) th) as [[bs' th']|] eqn:Ets; try discriminate.
  intros H; inversion H; subst; clear H. cbn [n_boxes n_threads].
  destruct (thread_step_move _ _ _ _ Ets) as (d & t & Hm & Hb).
  destruct (box_step_inv _ _ _ _ Hb) as (cfg & st & st' & Hn & Hs & ->).
  exists th, th', d, t, cfg, st, st'. repeat split; auto.
Qed.

(* ---------- induction over network schedules ---------- *)
Lemma nrun_invariant (P : net -> Prop) :
  (forall n w n', P n -> nstep n w = Some n' -> P n') ->
  forall sched n n', P n -> nrun n sched = Some n' -> P n'.
Proof.
  intros Hstep sched; induction sched as [|w s IH]; intros n n' HP Hrun; cbn [nrun] in Hrun.
  - inversion Hrun; subst; auto.
  - destruct (nstep n w) eqn:E; try discriminate. eauto.
Qed.

Lemma nrun_app n s1 s2 :
  nrun n (s1 ++ s2) = match nrun n s1 with Some n' => nrun n' s2 | None => None end.
Proof.
  revert n; induction s1 as [|w s1 IH]; intros n; cbn [nrun app]; auto.
  destruct (nstep n w); auto.
Qed.

(* ---------- lifting ---------- *)
Definition all_boxes (P : config -> state -> Prop) (bs : boxes) : Prop :=
  forall d cfg st, nth_error bs d = Some (cfg, st) -> P cfg st.

Definition step_closed (P : config -> state -> Prop) : Prop :=
  forall cfg st t st', P cfg st -> step cfg st t = Some st' -> P cfg st'.

Lemma all_boxes_upd P bs d cfg st' :
  all_boxes P bs -> P cfg st' -> all_boxes P (upd d (cfg, st') bs).
Proof.
  intros H Hp e cfg0 st0 He.
  apply nth_error_upd in He. destruct He as [(-> & Heq & _)|(_ & He)].
  - inversion Heq; subst. exact Hp.
  - eapply H; eauto.
Qed.

Lemma lift_step P n w n' :
  step_closed P -> all_boxes P (n_boxes n) -> nstep n w = Some n' -> all_boxes P (n_boxes n').
Proof.
  intros Hc Ha Hs. apply nstep_inv in Hs.
  destruct Hs as (th & th' & d & t & cfg & st & st' & _ & _ & Hn & Hst & -> & _).
  apply all_boxes_upd; auto. eapply Hc; eauto.
Qed.

Theorem lift P n0 sched n :
  step_closed P -> all_boxes P (n_boxes n0) -> nrun n0 sched = Some n -> all_boxes P (n_boxes n).
Proof.
  intros Hc H0 Hrun.
  eapply (nrun_invariant (fun n => all_boxes P (n_boxes n))); [| |exact Hrun]; auto.
  intros; eapply lift_step; eauto.
Qed.

(* the configurations never change *)
Lemma upd_map_fst {A B} d (x : A * B) l a b :
  nth_error l d = Some (a, b) -> fst x = a -> map fst (upd d x l) = map fst l.
Proof.
  revert d; induction l as [|h t IH]; intros [|d] H E; cbn [nth_error upd map] in *; try discriminate.
  - inversion H as [Hh]. cbn. now rewrite E.
  - f_equal. eauto.
Qed.

Lemma nstep_cfgs n w n' : nstep n w = Some n' -> map fst (n_boxes n') = map fst (n_boxes n).
Proof.
  intros Hs. apply nstep_inv in Hs.
  destruct Hs as (th & th' & d & t & cfg & st & st' & _ & _ & Hn & _ & -> & _).
  eapply upd_map_fst; eauto.
Qed.

(* ---------- networks whose mailboxes start in a C05 initial state ---------- *)
Definition starts_fresh (n : net) : Prop :=
  forall d cfg st, nth_error (n_boxes n) d = Some (cfg, st) ->
    exists drives source killer nfut, st = init cfg drives source killer nfut.

Lemma net_of_fresh w N : starts_fresh (net_of w N).
Proof.
  intros d cfg st H. unfold net_of in H. cbn [n_boxes] in H.
  apply nth_error_map_some in H. destruct H as ([[k cfg0] ds] & _ & Heq).
  inversion Heq; subst. eauto.
Qed.

(* eager_capacity_everywhere: C05's mailbox_capacity for every mailbox of every network *)
Theorem eager_capacity_everywhere n0 sched n :
  starts_fresh n0 -> nrun n0 sched = Some n ->
  forall d cfg st c, nth_error (n_boxes n) d = Some (cfg, st) -> c_cap cfg = Some c -> length (box st) <= c.
Proof.
  intros Hf Hrun d cfg st c Hd Hc.
  assert (H : all_boxes cap_ok (n_boxes n)).
  { eapply lift; [| |exact Hrun].
    - intros cfg0 st0 t st1. apply cap_ok_step.
    - intros e cfg0 st0 He. destruct (Hf _ _ _ He) as (dr & so & ki & nf & ->). apply cap_ok_init. }
  specialize (H _ _ _ Hd). unfold cap_ok in H. rewrite Hc in H. exact H.
Qed.

(* no lost wake-up in every mailbox of every network *)
Theorem no_lost_wakeup_everywhere n0 sched n :
  starts_fresh n0 -> nrun n0 sched = Some n -> all_boxes W (n_boxes n).
Proof.
  intros Hf Hrun. eapply lift; [| |exact Hrun].
  - intros cfg0 st0 t st1. apply W_step.
  - intros e cfg0 st0 He. destruct (Hf _ _ _ He) as (dr & so & ki & nf & ->). apply W_init.
Qed.
