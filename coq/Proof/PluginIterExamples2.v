(* Property C08: the hypotheses of the totality theorem are satisfiable (non-trivially: the run needs
   one restart of the re-trim loop). *)
From SV Require Import Model.Rows Model.SplitArray Model.Chunk Model.PluginIter
     Proof.RowsFacts Proof.SplitArrayProof Proof.ChunkProof Proof.PluginIterProof Proof.PluginIterRound
     Proof.PluginIterLoop Proof.PluginIterSafety Proof.PluginIterStair Proof.PluginIterTotal
     Proof.PluginIterTotal2 Proof.PluginIterTotal3 Proof.PluginIterExamples.

Example ex_pacemaker : pacemaker_chunks [ex_depA; ex_depB] = snd ex_depA.
Proof. vm_compute. reflexivity. Qed.

Example ex_total_hyps : forall c, In c (pacemaker_chunks [ex_depA; ex_depB]) ->
  exists y', stair_ok (map (fun d => srows (snd d)) [ex_depA; ex_depB]) max_passes (cend c) y'.
Proof.
  rewrite ex_pacemaker. intros c [<-|[<-|[]]]; cbn [cend].
  - exists 4. apply (stair_ok_mono _ 2); [exact ex_stair|]. vm_compute. repeat constructor.
  - exists 10. apply (stair_ok_mono _ 1); [|vm_compute; repeat constructor].
    apply stair_ok_unstraddled. intros R [<-|[<-|[]]]; intros [q [Hq [H1 H2]]]; cbn in Hq.
    + destruct Hq as [<-|[<-|[]]]; cbn in *; lia.
    + destruct Hq as [<-|[<-|[<-|[]]]]; cbn in *; lia.
Qed.

Example ex_total :
  snd (plugin_iter 3 [ex_depA; ex_depB]) = None /\
  calls_chain 0 (fst (plugin_iter 3 [ex_depA; ex_depB])) 10 /\
  forall i d, nth_error [ex_depA; ex_depB] i = Some d ->
              delivered i (fst (plugin_iter 3 [ex_depA; ex_depB])) = srows (snd d).
Proof.
  apply (iter_total_below_pass_limit_thm (Some 7) 3 0 10 [ex_depA; ex_depB] ex_specs).
  - discriminate.
  - exact ex_deps_ok.
  - repeat constructor.
  - repeat constructor; cbn; intuition discriminate.
  - repeat constructor; cbn; lia.
  - exact ex_total_hyps.
Qed.

(* the sharp threshold of the T4 family: 8 restarts of the re-trim loop succeed, 10 raise *)
Example stair5_ok : snd (plugin_iter 3 (stair_deps 5)) = None.
Proof. vm_compute. reflexivity. Qed.

Example stair6_fails : plugin_iter 3 (stair_deps 6) = ([], Some E_TOO_MANY_PASSES).
Proof. vm_compute. reflexivity. Qed.
