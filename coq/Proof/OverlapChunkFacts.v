(* Facts about Chunk.__init__ / split / concatenate (Model/Chunk.v) in the form the overlap-window
   proof consumes them.  They rest on C07's split_array_correct. *)
From SV Require Import Model.Rows Model.SplitArray Model.Chunk Proof.RowsFacts Proof.SplitArrayProof.

Definition rows_in (s e : Z) (rows : list row) : Prop :=
  Forall (fun r => s <= rt r /\ rt r <= re r /\ re r <= e) rows.

Lemma zmaxl_le d l x : d <= x -> Forall (fun y => y <= x) l -> zmaxl d l <= x.
Proof.
  revert d; induction l as [|y l IH]; intros d Hd HF; cbn [zmaxl]; [auto|].
  inversion HF; subst. apply IH; [lia|auto].
Qed.

Lemma max_end_le rows e : 0 <= e -> Forall (fun r => re r <= e) rows -> max_end rows <= e.
Proof.
  intros He HF. destruct rows as [|r rest]; cbn [max_end]; [auto|].
  inversion HF; subst. apply zmaxl_le; [auto|]. apply Forall_map. auto.
Qed.

Lemma Forall_skipn {A} (P : A -> Prop) n l : Forall P l -> Forall P (skipn n l).
Proof.
  revert l; induction n as [|n IH]; intros l H; cbn; [auto|].
  destruct l; [auto|]. inversion H; subst. apply IH; auto.
Qed.

Lemma mk_chunk_ok s e rows dt k run tgt :
  0 <= s -> s <= e -> rows_in s e rows ->
  mk_chunk s e rows dt k run tgt = Ok (mkchunk s e rows dt k run tgt).
Proof.
  intros Hs Hse HF. unfold mk_chunk.
  destruct (s <? 0) eqn:E1; [lia|]. destruct (s >? e) eqn:E2; [lia|].
  destruct rows as [|r0 rest]; [reflexivity|].
  assert (Hr0 : s <= rt r0) by (inversion HF; subst; tauto).
  destruct (rt r0 <? s) eqn:E3; [lia|].
  assert (Hm : max_end (lastn end_window (r0 :: rest)) <= e).
  { apply max_end_le; [lia|]. unfold lastn. apply Forall_skipn.
    eapply Forall_impl; [|exact HF]. cbn. intros; tauto. }
  destruct (max_end (lastn end_window (r0 :: rest)) >? e) eqn:E4; [lia|]. reflexivity.
Qed.

Lemma wf_mkchunk s e rows dt k run tgt :
  0 <= s -> s <= e -> sorted rows -> rows_in s e rows -> wf (mkchunk s e rows dt k run tgt).
Proof. intros. unfold wf; cbn. auto. Qed.

Lemma wf_rows_in c : wf c -> rows_in (cstart c) (cend c) (crows c).
Proof. intros (_ & _ & _ & H). exact H. Qed.

Definition clamp (c : chunk) (t0 : Z) : Z := Z.max (Z.min t0 (cend c)) (cstart c).

Definition straddled_rows (rows : list row) (x : Z) : Prop := exists q, In q rows /\ straddles q x.

(* Chunk.split on a well-formed chunk: it fails only with CannotSplit, and only when early splitting
   is off and a row straddles the clamped time; otherwise both parts are explicit. *)
Lemma chunk_split_spec c t0 early :
  wf c -> (early = true \/ ~ straddled_rows (crows c) (clamp c t0)) ->
  exists l r t',
    chunk_split c t0 early =
      Ok (mkchunk (cstart c) t' l (cdtype c) (ckind c) (crun c) (ctarget c),
          mkchunk t' (cend c) r (cdtype c) (ckind c) (crun c) (ctarget c)) /\
    l ++ r = crows c /\
    Forall (fun q => re q <= t') l /\ Forall (fun q => t' <= rt q) r /\
    cstart c <= t' /\ t' <= clamp c t0 /\
    (~ straddled_rows (crows c) (clamp c t0) -> t' = clamp c t0) /\
    (forall y, t' < y <= clamp c t0 -> straddled_rows (crows c) y).
Proof.
  intros Hwf Hes. pose proof Hwf as (H0 & Hse & Hsort & Hin).
  unfold chunk_split. fold (clamp c t0). set (t := clamp c t0) in *.
  assert (Ht : cstart c <= t <= cend c) by (unfold t, clamp; lia).
  assert (Hfin : forall l r t', l ++ r = crows c -> Forall (fun q => re q <= t') l ->
             Forall (fun q => t' <= rt q) r -> cstart c <= t' -> t' <= t ->
             (do c1 <- mk_chunk (cstart c) (Z.max (cstart c) t') l (cdtype c) (ckind c) (crun c) (ctarget c);
              do c2 <- mk_chunk (Z.max (cstart c) t') (Z.max t' (cend c)) r (cdtype c) (ckind c) (crun c) (ctarget c);
              Ok (c1, c2)) =
             Ok (mkchunk (cstart c) t' l (cdtype c) (ckind c) (crun c) (ctarget c),
                 mkchunk t' (cend c) r (cdtype c) (ckind c) (crun c) (ctarget c))).
  { intros l r t' Hlr Hl Hr Ht1 Ht2.
    rewrite Z.max_r by lia. rewrite (Z.max_r t' (cend c)) by lia.
    unfold rows_in in Hin. rewrite <- Hlr in Hin. apply Forall_app in Hin as [Hinl Hinr].
    rewrite mk_chunk_ok; [|lia|lia|].
    2:{ unfold rows_in. rewrite Forall_forall in *. intros q Hq. specialize (Hinl q Hq). specialize (Hl q Hq). cbn in *. lia. }
    cbn [res_bind]. rewrite mk_chunk_ok; [reflexivity|lia|lia|].
    unfold rows_in. rewrite Forall_forall in *. intros q Hq. specialize (Hinr q Hq). specialize (Hr q Hq). cbn in *. lia. }
  destruct (t =? cend c) eqn:E1.
  { exists (crows c), [], t. rewrite Hfin; try lia; auto.
    - repeat split; auto; try lia.
      + apply app_nil_r.
      + eapply Forall_impl; [|exact Hin]. cbn. intros; lia.
    - apply app_nil_r.
    - eapply Forall_impl; [|exact Hin]. cbn. intros; lia. }
  destruct (t =? cstart c) eqn:E2.
  { exists [], (crows c), t. rewrite Hfin; try lia; auto.
    - repeat split; auto; try lia.
      eapply Forall_impl; [|exact Hin]. cbn. intros; lia.
    - eapply Forall_impl; [|exact Hin]. cbn. intros; lia. }
  assert (Hnn : Forall (fun q => 0 <= rt q) (crows c)).
  { eapply Forall_impl; [|exact Hin]. cbn. intros; lia. }
  pose proof (split_array_correct (crows c) t early Hsort Hnn) as HP.
  destruct (split_array (crows c) t early) as [[[l r] t']|] eqn:Esa; cbn in HP.
  - destruct HP as (Hlr & Hl & Hr & Hle & Hex & Hcov).
    assert (Hge : cstart c <= t').
    { destruct (Z_le_gt_dec (cstart c) t') as [|Hlt]; [auto|exfalso].
      destruct (Hcov (cstart c)) as (q & Hq1 & Hq2); [lia|].
      rewrite Forall_forall in Hin. specialize (Hin q Hq1). unfold straddles in Hq2. cbn in Hin. lia. }
    exists l, r, t'. rewrite Hfin; auto.
    repeat split; auto.
    + intros Hns. destruct (Z.eq_dec t' t) as [|Hne]; [auto|exfalso]. apply Hns. apply Hcov. lia.
  - exfalso. destruct HP as (He & Hq). destruct Hes as [->|Hns]; [discriminate|]. apply Hns. exact Hq.
Qed.

Lemma opt_eqb_refl o : opt_eqb o o = true.
Proof. destruct o; cbn; [apply Z.eqb_refl|reflexivity]. Qed.

Lemma sorted_app_in l1 l2 :
  sorted l1 -> sorted l2 -> (forall a b, In a l1 -> In b l2 -> rt a <= rt b) -> sorted (l1 ++ l2).
Proof.
  intros H1 H2 H. apply sorted_app. repeat split; auto.
  apply Forall_forall. intros a Ha. apply Forall_forall. intros b Hb. auto.
Qed.

(* Chunk.concatenate of two adjacent (or gap-separated) well-formed chunks of one type and run *)
Lemma concat2_ok c1 c2 :
  wf c1 -> wf c2 -> cend c1 <= cstart c2 -> cdtype c2 = cdtype c1 -> crun c2 = crun c1 ->
  exists tgt,
    concatenate [Some c1; Some c2] false =
      Ok (mkchunk (cstart c1) (cend c2) (crows c1 ++ crows c2) (cdtype c1) (ckind c1) (crun c1) tgt).
Proof.
  intros W1 W2 Hadj Hdt Hrun. pose proof W1 as (A0 & A1 & A2 & A3). pose proof W2 as (B0 & B1 & B2 & B3).
  unfold concatenate. cbn [somes forallb map flat_map last_end order_ok].
  rewrite Hdt, Hrun, !Z.eqb_refl, !opt_eqb_refl. cbn [andb negb orb].
  destruct (cstart c1 <? 0) eqn:E1; [lia|]. destruct (cstart c2 <? cend c1) eqn:E2; [lia|].
  cbn [negb]. rewrite app_nil_r. eexists. apply mk_chunk_ok; [lia|lia|].
  unfold rows_in. apply Forall_app. split.
  - eapply Forall_impl; [|exact A3]. cbn; intros; lia.
  - eapply Forall_impl; [|exact B3]. cbn; intros; lia.
Qed.

Lemma wf_concat2 c1 c2 tgt :
  wf c1 -> wf c2 -> cend c1 <= cstart c2 ->
  wf (mkchunk (cstart c1) (cend c2) (crows c1 ++ crows c2) (cdtype c1) (ckind c1) (crun c1) tgt).
Proof.
  intros (A0 & A1 & A2 & A3) (B0 & B1 & B2 & B3) Hadj. unfold wf; cbn. repeat split; try lia.
  - apply sorted_app_in; auto. intros a b Ha Hb.
    rewrite Forall_forall in A3, B3. specialize (A3 a Ha). specialize (B3 b Hb). cbn in *. lia.
  - apply Forall_app. split.
    + eapply Forall_impl; [|exact A3]. cbn; intros; lia.
    + eapply Forall_impl; [|exact B3]. cbn; intros; lia.
Qed.
