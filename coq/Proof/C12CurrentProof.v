(* C12 — statements about the model of the code /repo currently carries (REPAIRED_F1F2), derived
   from the version-generic lemmas.  The `_if_repaired` lemmas turn into the full statements by
   `eq_refl` as soon as REPAIRED_F1F2 is flipped to true. *)
From SV Require Import Model.Rows Model.Chunk Model.PluginKinds Model.C12Harness Spec.C12MatrixSpec
  Proof.PluginKindsProof Proof.PluginOutputProof Proof.C12MatrixProof.

Definition full_fix_output_dtype : Prop :=
  forall p i range d x, fix_output_single p i range d = Ok x -> xdt x = dtype_for p d.

Lemma fix_output_dtype_if_repaired : REPAIRED_F1F2 = true -> full_fix_output_dtype.
Proof.
  intros H p i range d x. unfold fix_output_single. rewrite H. apply fix_output_dtype_repaired.
Qed.

Definition full_down_label_dtype : Prop :=
  forall p i x, down_one p (VItem i) = Ok [x] ->
    In (cdtype (xc x)) (p_provides p) /\ xdt x = dtype_for p (cdtype (xc x)).

Lemma down_label_dtype_if_repaired : REPAIRED_F1F2 = true -> full_down_label_dtype.
Proof.
  intros H p i x. unfold down_one. rewrite H. apply down_label_dtype_repaired.
Qed.

Definition full_violation_matrix : Prop := forall k vk dv w ov n r pos rechunk ga,
  In vk (applicable_vks k) -> In dv (dvs vk) -> In w (whichs k vk) -> In ov (ovs k vk) ->
  In (n, r) shapes -> (pos < n)%nat -> shape_ok vk n = true ->
  cell_rejected (mkcell k vk dv w ov pos n r rechunk ga) = true.

Lemma full_violation_matrix_if_repaired : REPAIRED_F1F2 = true -> full_violation_matrix.
Proof. exact violation_matrix_if_repaired. Qed.
