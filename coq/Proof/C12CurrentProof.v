(* C12 — statements about the model of the code /repo currently carries (REPAIRED_F1F2 = true:
   the `fix:` commits 312d850 and b7d8cdd are in), derived from the version-generic lemmas.
   `repaired_now` is the single place that depends on the value of the flag: if the flag is ever
   set back to false these proofs break (and the correspondence reports the concrete cells). *)
From SV Require Import Model.Rows Model.Chunk Model.PluginKinds Model.C12Harness Spec.C12MatrixSpec
  Proof.PluginKindsProof Proof.PluginOutputProof Proof.C12MatrixProof.

Lemma repaired_now : REPAIRED_F1F2 = true.
Proof. reflexivity. Qed.

Lemma is_escape_none k vk : is_escape k vk = false.
Proof. unfold is_escape, is_escape_gen. rewrite repaired_now. reflexivity. Qed.

(* every accepted output of _fix_output has the declared dtype *)
Theorem fix_output_dtype : forall p i range d x,
  fix_output_single p i range d = Ok x -> xdt x = dtype_for p d.
Proof.
  intros p i range d x. unfold fix_output_single. rewrite repaired_now. apply fix_output_dtype_repaired.
Qed.

(* a chunk built by the plugin around data of another dtype than declared is rejected *)
Theorem fix_single_raw_chunk_wrong_dtype : forall p declared dt label kind s e rows range d,
  declared <> dtype_for p d ->
  is_err (fix_output_single p (IMk declared dt label kind s e rows) range d).
Proof.
  intros. unfold fix_output_single. rewrite repaired_now.
  apply fix_single_raw_chunk_wrong_dtype_repaired; auto.
Qed.

(* a chunk yielded by a down-chunking plugin carries the promised label and the declared dtype *)
Theorem down_label_dtype : forall p i x,
  down_one p (VItem i) = Ok [x] ->
  In (cdtype (xc x)) (p_provides p) /\ xdt x = dtype_for p (cdtype (xc x)).
Proof.
  intros p i x. unfold down_one. rewrite repaired_now. apply down_label_dtype_repaired.
Qed.

(* the full violation matrix *)
Theorem violation_matrix : forall k vk dv w ov n r pos rechunk ga,
  In vk (applicable_vks k) -> In dv (dvs vk) -> In w (whichs k vk) -> In ov (ovs k vk) ->
  In (n, r) shapes -> (pos < n)%nat -> shape_ok vk n = true ->
  cell_rejected (mkcell k vk dv w ov pos n r rechunk ga) = true.
Proof.
  intros. apply violation_matrix_partial; auto using is_escape_none.
Qed.
