(* Proofs about Model/MultiRun.v: the outcome of multi_run does not depend on the schedule. *)
From SV Require Import Base.Prelude Model.MultiRun.
From Coq Require Import Sorting.Permutation Sorting.Sorted.

(* ---------------------------------------------------------------- sorting facts *)

Definition zsorted (l : list Z) : Prop := StronglySorted Z.le l.

Lemma insert_z_perm x l : Permutation (x :: l) (insert_z x l).
Proof.
  induction l as [|y l IH]; cbn [insert_z]; [reflexivity|].
  destruct (x <=? y); [reflexivity|].
  rewrite perm_swap. apply perm_skip, IH.
Qed.

Lemma isort_perm l : Permutation l (isort l).
Proof.
  induction l as [|x l IH]; cbn [isort]; [constructor|].
  rewrite <- insert_z_perm. apply perm_skip, IH.
Qed.

Lemma isort_length l : length (isort l) = length l.
Proof. symmetry. apply Permutation_length, isort_perm. Qed.

Lemma insert_z_sorted x l : zsorted l -> zsorted (insert_z x l).
Proof.
  unfold zsorted. induction l as [|y l IH]; intros Hs; cbn [insert_z].
  - constructor; constructor.
  - inversion Hs as [|? ? Hs' Hall]; subst.
    destruct (x <=? y) eqn:E.
    + constructor; [exact Hs|]. constructor; [lia|].
      eapply Forall_impl; [|exact Hall]. cbn. intros; lia.
    + constructor; [apply IH, Hs'|].
      eapply Permutation_Forall; [apply insert_z_perm|]. constructor; [lia|exact Hall].
Qed.

Lemma isort_sorted l : zsorted (isort l).
Proof. induction l; cbn [isort]; [constructor|]. apply insert_z_sorted; assumption. Qed.

Lemma zsorted_perm_eq l1 : forall l2, zsorted l1 -> zsorted l2 -> Permutation l1 l2 -> l1 = l2.
Proof.
  unfold zsorted. induction l1 as [|a l1 IH]; intros l2 H1 H2 HP.
  - apply Permutation_nil in HP. subst; reflexivity.
  - destruct l2 as [|b l2]; [apply Permutation_sym, Permutation_nil in HP; discriminate|].
    inversion H1 as [|? ? H1' F1]; subst. inversion H2 as [|? ? H2' F2]; subst.
    assert (Hab : a = b).
    { assert (Ia : In a (b :: l2)) by (eapply Permutation_in; [exact HP|left; reflexivity]).
      assert (Ib : In b (a :: l1)) by (eapply Permutation_in; [apply Permutation_sym, HP|left; reflexivity]).
      destruct Ia as [->|Ia]; [reflexivity|]. destruct Ib as [->|Ib]; [reflexivity|].
      rewrite Forall_forall in F1, F2. specialize (F1 _ Ib). specialize (F2 _ Ia). lia. }
    subst b. f_equal. apply IH; auto. eapply Permutation_cons_inv, HP.
Qed.

Lemma zsorted_filter f l : zsorted l -> zsorted (filter f l).
Proof.
  unfold zsorted. induction l as [|x l IH]; intros Hs; cbn [filter]; [constructor|].
  inversion Hs as [|? ? Hs' Hall]; subst.
  destruct (f x); [|apply IH, Hs'].
  constructor; [apply IH, Hs'|].
  rewrite Forall_forall in *. intros y Hy. apply filter_In in Hy as [Hy _]. auto.
Qed.

Lemma perm_filter {A} (f : A -> bool) l1 l2 :
  Permutation l1 l2 -> Permutation (filter f l1) (filter f l2).
Proof.
  induction 1 as [|x l l' _ IH|x y l|l l' l'' _ IH1 _ IH2]; cbn [filter].
  - constructor.
  - destruct (f x); [apply perm_skip|]; exact IH.
  - destruct (f x), (f y); try reflexivity. apply perm_swap.
  - etransitivity; eassumption.
Qed.

Lemma perm_forallb {A} (f : A -> bool) l1 l2 :
  Permutation l1 l2 -> forallb f l1 = forallb f l2.
Proof.
  induction 1 as [|x l l' _ IH|x y l|l l' l'' _ IH1 _ IH2]; cbn [forallb].
  - reflexivity.
  - rewrite IH; reflexivity.
  - destruct (f x), (f y); reflexivity.
  - congruence.
Qed.

(* sorting (run id, result) pairs by run id, when the result is a function of the run id *)
Lemma insert_k_map {A} (g : Z -> A) x l :
  insert_k (x, g x) (map (fun r => (r, g r)) l) = map (fun r => (r, g r)) (insert_z x l).
Proof.
  induction l as [|y l IH]; cbn [insert_k insert_z map fst]; [reflexivity|].
  destruct (x <=? y); cbn [map]; [reflexivity|]. f_equal. exact IH.
Qed.

Lemma isort_k_map {A} (g : Z -> A) l :
  isort_k (map (fun r => (r, g r)) l) = map (fun r => (r, g r)) (isort l).
Proof.
  induction l as [|x l IH]; cbn [isort_k isort map]; [reflexivity|].
  rewrite IH. apply insert_k_map.
Qed.

(* ---------------------------------------------------------------- list surgery *)

Lemma remove_nth_perm {A} (d : A) : forall l i, (i < length l)%nat ->
  Permutation l (nth i l d :: remove_nth i l).
Proof.
  induction l as [|x l IH]; intros i Hi; cbn [length] in Hi; [lia|].
  destruct i as [|i]; cbn [nth remove_nth]; [reflexivity|].
  rewrite perm_swap. apply perm_skip, IH. lia.
Qed.

Lemma remove_nth_length {A} : forall (l : list A) i, (i < length l)%nat ->
  S (length (remove_nth i l)) = length l.
Proof.
  induction l as [|x l IH]; intros i Hi; cbn [length] in Hi; [lia|].
  destruct i as [|i]; cbn [remove_nth length]; [reflexivity|]. rewrite IH; lia.
Qed.

Lemma filter_snoc {A} (f : A -> bool) l x :
  filter f (l ++ [x]) = filter f l ++ (if f x then [x] else []).
Proof. rewrite filter_app. cbn [filter]. destruct (f x); reflexivity. Qed.

Lemma forallb_snoc {A} (f : A -> bool) l x : forallb f (l ++ [x]) = forallb f l && f x.
Proof. rewrite forallb_app. cbn [forallb]. rewrite andb_true_r. reflexivity. Qed.

(* ---------------------------------------------------------------- the machine *)

Section MRP.
Variable res : Z -> option (list Z).
Variable cfg : mr_cfg.
Notation ok := (mr_is_ok res).
Definition mr_g (r : Z) : list mrow :=
  attach (mr_addid cfg) r (match res r with Some x => x | None => [] end).
Definition bad (r : Z) : bool := negb (ok r).

(* invariant relative to the sorted run ids L and the window bound W = 2 * max_workers;
   k = number of completions already consumed in the current batch (not yet resubmitted) *)
Record Inv (L : list Z) (W : nat) (s : mr_st) (k : nat) : Prop := {
  inv_sub : mr_submitted s ++ mr_queue s = L;
  inv_perm : Permutation (mr_done s ++ mr_window s) (mr_submitted s);
  inv_outs : mr_throw cfg = false -> mr_outs s = map (fun r => (r, mr_g r)) (filter ok (mr_done s));
  inv_fails : mr_ignore cfg = true -> mr_fails s = filter bad (mr_done s);
  inv_nofail : mr_ignore cfg = false -> mr_fails s = [];
  inv_doneok : mr_ignore cfg = false -> forallb ok (mr_done s) = true;
  inv_win : mr_queue s = [] \/ (length (mr_window s) + k = W)%nat;
  inv_max : (length (mr_window s) + k <= mr_maxwin s)%nat;
  inv_maxW : mr_maxwin s = Nat.min W (length L) }.

Lemma mr_batch_spec L W : forall picks s k,
  Inv L W s k ->
  match mr_batch res cfg picks s k with
  | inl (s', k') => Inv L W s' k' /\ (k <= k')%nat /\
                    (picks <> [] -> mr_window s <> [] -> (k < k')%nat) /\
                    mr_queue s' = mr_queue s /\
                    (length (mr_window s') + k' = length (mr_window s) + k)%nat
  | inr (r, s') => mr_ignore cfg = false /\ res r = None /\ In r L /\
                   exists q, mr_submitted s' ++ q = L
  end.
Proof.
  induction picks as [|p ps IH]; intros s k HI; cbn [mr_batch].
  - split; [exact HI|]. split; [lia|]. split; [intros H; congruence|]. split; reflexivity.
  - destruct (mr_window s) as [|w0 wr] eqn:EW.
    + split; [exact HI|]. split; [lia|]. split; [intros _ H; congruence|]. split; [reflexivity|].
      rewrite EW; reflexivity.
    + set (win := w0 :: wr) in *.
      set (i := Nat.modulo p (length win)).
      assert (Hi : (i < length win)%nat) by (apply Nat.mod_upper_bound; cbn; lia).
      set (r := nth i win 0).
      assert (Hperm := remove_nth_perm 0 win i Hi). fold r in Hperm.
      assert (Hlen := remove_nth_length win i Hi).
      destruct HI as [Hsub Hp Houts Hfails Hnofail Hdok Hwin Hmax HmaxW].
      rewrite EW in Hp, Hwin, Hmax.
      assert (HinL : In r L).
      { rewrite <- Hsub. apply in_or_app. left. eapply Permutation_in; [exact Hp|].
        apply in_or_app. right. apply nth_In. exact Hi. }
      assert (Hp' : Permutation ((mr_done s ++ [r]) ++ remove_nth i win) (mr_submitted s)).
      { rewrite <- Hp. rewrite <- app_assoc. apply Permutation_app_head. cbn [app].
        symmetry. exact Hperm. }
      assert (Hwin' : mr_queue s = [] \/ (length (remove_nth i win) + S k = W)%nat)
        by (destruct Hwin as [Hq|Hw]; [left; exact Hq|right; lia]).
      assert (Hmax' : (length (remove_nth i win) + S k <= mr_maxwin s)%nat) by lia.
      destruct (res r) as [rows|] eqn:Er.
      * assert (Hokr : ok r = true) by (unfold mr_is_ok; rewrite Er; reflexivity).
        assert (Hg : mr_g r = attach (mr_addid cfg) r rows) by (unfold mr_g; rewrite Er; reflexivity).
        assert (Hf' : mr_ignore cfg = true -> mr_fails s = filter bad (mr_done s ++ [r])).
        { intros Hig. rewrite (Hfails Hig). rewrite filter_snoc.
          replace (bad r) with false by (unfold bad; rewrite Hokr; reflexivity).
          rewrite app_nil_r. reflexivity. }
        assert (Hd' : mr_ignore cfg = false -> forallb ok (mr_done s ++ [r]) = true).
        { intros Hig. rewrite forallb_snoc, (Hdok Hig), Hokr. reflexivity. }
        destruct (mr_throw cfg) eqn:Et.
        -- match goal with |- context [mr_batch res cfg ps ?s1 (S k)] => specialize (IH s1 (S k)) end.
           cbn [mr_queue mr_window mr_outs mr_fails mr_done mr_submitted mr_maxwin] in IH.
           assert (HI1 : Inv L W
             (mkst (mr_queue s) (remove_nth i win) (mr_outs s)
                   (mr_fails s) (mr_done s ++ [r]) (mr_submitted s) (mr_maxwin s)) (S k)).
           { constructor; cbn [mr_queue mr_window mr_outs mr_fails mr_done mr_submitted mr_maxwin]; auto.
             intros; congruence. }
           specialize (IH HI1).
           destruct (mr_batch res cfg ps _ (S k)) as [[s' k']|[r' s']].
           ++ destruct IH as (HI' & Hk & _ & Hq' & Hl'). cbn [mr_queue mr_window] in Hq', Hl'.
              rewrite ?EW; fold win. split; [exact HI'|]. split; [lia|]. split; [intros; lia|]. split; [exact Hq'|lia].
           ++ exact IH.
        -- match goal with |- context [mr_batch res cfg ps ?s1 (S k)] => specialize (IH s1 (S k)) end.
           cbn [mr_queue mr_window mr_outs mr_fails mr_done mr_submitted mr_maxwin] in IH.
           assert (HI1 : Inv L W
             (mkst (mr_queue s) (remove_nth i win) (mr_outs s ++ [(r, attach (mr_addid cfg) r rows)])
                   (mr_fails s) (mr_done s ++ [r]) (mr_submitted s) (mr_maxwin s)) (S k)).
           { constructor; cbn [mr_queue mr_window mr_outs mr_fails mr_done mr_submitted mr_maxwin]; auto.
             intros _. rewrite (Houts eq_refl). rewrite filter_snoc, Hokr, map_app. cbn [map].
             rewrite Hg. reflexivity. }
           specialize (IH HI1).
           destruct (mr_batch res cfg ps _ (S k)) as [[s' k']|[r' s']].
           ++ destruct IH as (HI' & Hk & _ & Hq' & Hl'). cbn [mr_queue mr_window] in Hq', Hl'.
              rewrite ?EW; fold win. split; [exact HI'|]. split; [lia|]. split; [intros; lia|]. split; [exact Hq'|lia].
           ++ exact IH.
      * destruct (mr_ignore cfg) eqn:Eig.
        -- assert (Hokr : ok r = false) by (unfold mr_is_ok; rewrite Er; reflexivity).
           match goal with |- context [mr_batch res cfg ps ?s1 (S k)] => specialize (IH s1 (S k)) end.
           cbn [mr_queue mr_window mr_outs mr_fails mr_done mr_submitted mr_maxwin] in IH.
           assert (HI1 : Inv L W
             (mkst (mr_queue s) (remove_nth i win) (mr_outs s) (mr_fails s ++ [r])
                   (mr_done s ++ [r]) (mr_submitted s) (mr_maxwin s)) (S k)).
           { constructor; cbn [mr_queue mr_window mr_outs mr_fails mr_done mr_submitted mr_maxwin]; auto.
             - intros Ht. rewrite (Houts Ht). rewrite filter_snoc, Hokr, app_nil_r. reflexivity.
             - intros _. rewrite (Hfails eq_refl). rewrite filter_snoc.
               replace (bad r) with true by (unfold bad; rewrite Hokr; reflexivity).
               reflexivity.
             - intros; congruence.
             - intros; congruence. }
           specialize (IH HI1).
           destruct (mr_batch res cfg ps _ (S k)) as [[s' k']|[r' s']].
           ++ destruct IH as (HI' & Hk & _ & Hq' & Hl'). cbn [mr_queue mr_window] in Hq', Hl'.
              rewrite ?EW; fold win. split; [exact HI'|]. split; [lia|]. split; [intros; lia|]. split; [exact Hq'|lia].
           ++ exact IH.
        -- cbn [mr_submitted]. repeat split; auto. exists (mr_queue s). exact Hsub.
Qed.

Lemma mr_refill_inv L W s k : Inv L W s k -> Inv L W (mr_refill k s) 0.
Proof.
  intros [Hsub Hp Houts Hfails Hnofail Hdok Hwin Hmax HmaxW].
  assert (Hfl : (length (firstn k (mr_queue s)) <= k)%nat) by apply firstn_le_length.
  unfold mr_refill.
  constructor; cbn [mr_queue mr_window mr_outs mr_fails mr_done mr_submitted mr_maxwin]; auto.
  - rewrite <- app_assoc, firstn_skipn. exact Hsub.
  - rewrite app_assoc. apply Permutation_app_tail. exact Hp.
  - destruct Hwin as [Hq|Hw].
    + left. rewrite Hq. destruct k; reflexivity.
    + destruct (Nat.le_gt_cases (length (mr_queue s)) k) as [Hle|Hgt].
      * left. apply skipn_all2. exact Hle.
      * right. rewrite app_length, firstn_length_le by lia. lia.
  - rewrite app_length. lia.
  - rewrite app_length. lia.
Qed.

Lemma mr_refill_measure k s :
  length (mr_window (mr_refill k s) ++ mr_queue (mr_refill k s)) = length (mr_window s ++ mr_queue s).
Proof.
  unfold mr_refill. cbn [mr_window mr_queue]. rewrite <- app_assoc, firstn_skipn. reflexivity.
Qed.

Definition mr_post (L : list Z) (W : nat) (o : mr_out) : Prop :=
  match o with
  | MROk result fl sub mw =>
      result = (if mr_throw cfg then None else Some (map mr_g (filter ok L))) /\
      sub = L /\ mw = Nat.min W (length L) /\
      (mr_ignore cfg = false -> forallb ok L = true /\ fl = []) /\
      (mr_ignore cfg = true -> Permutation fl (filter bad L))
  | MRRaise r sub => mr_ignore cfg = false /\ res r = None /\ In r L /\ exists q, sub ++ q = L
  | _ => False
  end.

Lemma mr_finish_spec L W s : (0 < W)%nat -> zsorted L -> Inv L W s 0 -> mr_window s = [] ->
  mr_post L W (mr_finish cfg s).
Proof.
  intros HW HL [Hsub Hp Houts Hfails Hnofail Hdok Hwin Hmax HmaxW] EW.
  rewrite EW in *. cbn [length Nat.add] in Hwin.
  assert (Hq : mr_queue s = []) by (destruct Hwin as [Hq|Hq]; [exact Hq|lia]).
  rewrite Hq, app_nil_r in Hsub. rewrite app_nil_r in Hp. rewrite Hsub in Hp.
  unfold mr_finish, mr_post. repeat split; auto.
  - destruct (mr_throw cfg) eqn:Et; [reflexivity|]. f_equal.
    rewrite (Houts eq_refl), isort_k_map, map_map. cbn [snd].
    f_equal. apply zsorted_perm_eq.
    + apply isort_sorted.
    + apply zsorted_filter, HL.
    + rewrite <- isort_perm. apply perm_filter, Hp.
  - rewrite <- (perm_forallb _ _ _ Hp). auto.
  - intros Hig. rewrite (Hfails Hig). apply perm_filter, Hp.
Qed.

Lemma mr_loop_spec L W : (0 < W)%nat -> zsorted L ->
  forall fuel sched s, Inv L W s 0 -> (length (mr_window s ++ mr_queue s) <= fuel)%nat ->
  mr_post L W (mr_loop res cfg fuel sched s).
Proof.
  intros HW HL. induction fuel as [|f IH]; intros sched s HI Hfuel; cbn [mr_loop].
  - destruct (mr_window s) as [|w0 wr] eqn:EW; [|cbn [app length] in Hfuel; lia].
    apply mr_finish_spec; auto.
  - destruct (mr_window s) as [|w0 wr] eqn:EW; [apply mr_finish_spec; auto|].
    set (b := match sched with [] => [O] | [] :: _ => [O] | b :: _ => b end).
    assert (Hb : b <> []) by (subst b; destruct sched as [|[|? ?] ?]; discriminate).
    pose proof (mr_batch_spec L W b s 0 HI) as HB.
    destruct (mr_batch res cfg b s 0) as [[s' k']|[r s']].
    + destruct HB as (HI' & _ & Hk & Hq' & Hl'). specialize (Hk Hb). rewrite EW in Hk, Hl'.
      assert (Hk' : (0 < k')%nat) by (apply Hk; discriminate).
      apply IH; [apply mr_refill_inv, HI'|].
      rewrite mr_refill_measure. rewrite app_length in *. rewrite Hq'. cbn [length] in *. lia.
    + exact HB.
Qed.

Theorem multi_run_spec ids sched : (0 < mr_workers cfg)%nat ->
  mr_post (isort ids) (2 * mr_workers cfg) (multi_run res cfg ids sched).
Proof.
  intros Hw. unfold multi_run. destruct (mr_workers cfg) as [|w] eqn:Ew; [lia|].
  set (W := (2 * S w)%nat). set (L := isort ids).
  rewrite <- (isort_length ids). fold L.
  apply mr_loop_spec; [lia|apply isort_sorted| |].
  - constructor; cbn [mr_queue mr_window mr_outs mr_fails mr_done mr_submitted mr_maxwin]; auto.
    + apply firstn_skipn.
    + destruct (Nat.le_gt_cases (length L) W) as [Hle|Hgt].
      * left. apply skipn_all2. exact Hle.
      * right. rewrite firstn_length_le by lia. lia.
    + lia.
    + rewrite firstn_length. lia.
  - cbn [mr_queue mr_window]. rewrite firstn_skipn. lia.
Qed.
End MRP.

(* ---------------------------------------------------------------- the property theorem *)

Definition prefix_of {A} (p l : list A) : Prop := exists q, p ++ q = l.

Theorem multi_run_order_independent :
  forall (res : Z -> option (list Z)) (cfg : mr_cfg) (ids : list Z) (sched : list (list nat)),
  (0 < mr_workers cfg)%nat ->
  (* (a) no run fails, or errors are ignored: every schedule gives the per-run results of the
         non-failing runs in sorted run-id order with the run id attached; every run was submitted
         exactly once, in sorted order; never more than 2*max_workers tasks were pending *)
  (mr_ignore cfg = true \/ forallb (mr_is_ok res) ids = true ->
     exists fl,
       multi_run res cfg ids sched =
         MROk (if mr_throw cfg then None else Some (mr_expected res cfg ids)) fl (isort ids)
              (Nat.min (2 * mr_workers cfg) (length ids)) /\
       Permutation fl (filter (fun r => negb (mr_is_ok res r)) (isort ids))) /\
  (* (b) some run fails and errors are not ignored: every schedule re-raises the exception of a
         failing run; the runs submitted so far are a prefix of the sorted run ids *)
  (mr_ignore cfg = false -> forallb (mr_is_ok res) ids = false ->
     exists r sub, multi_run res cfg ids sched = MRRaise r sub /\
                   In r ids /\ res r = None /\ prefix_of sub (isort ids)).
Proof.
  intros res cfg ids sched Hw.
  pose proof (multi_run_spec res cfg ids sched Hw) as H.
  assert (Hall : forallb (mr_is_ok res) (isort ids) = forallb (mr_is_ok res) ids)
    by (symmetry; apply perm_forallb, isort_perm).
  split.
  - intros Hc. destruct (multi_run res cfg ids sched) as [result fl sub mw|r sub| |]; cbn [mr_post] in H.
    + destruct H as (-> & -> & -> & Hnf & Hf). exists fl. rewrite isort_length. split.
      * reflexivity.
      * destruct (mr_ignore cfg) eqn:Eig; [apply Hf; reflexivity|].
        destruct (Hnf eq_refl) as [Hok ->].
        assert (E : filter (fun r => negb (mr_is_ok res r)) (isort ids) = []).
        { clear - Hok. induction (isort ids) as [|x l IH]; [reflexivity|]. cbn [forallb filter] in *.
          apply andb_true_iff in Hok as [-> Hok]. cbn. auto. }
        rewrite E. constructor.
    + destruct H as (Hig & Hr & Hin & _). exfalso.
      destruct Hc as [Hc|Hc]; [congruence|].
      rewrite <- Hall in Hc. rewrite forallb_forall in Hc. specialize (Hc _ Hin).
      unfold mr_is_ok in Hc. rewrite Hr in Hc. discriminate.
    + contradiction.
    + contradiction.
  - intros Hig Hbad. destruct (multi_run res cfg ids sched) as [result fl sub mw|r sub| |]; cbn [mr_post] in H.
    + destruct H as (_ & _ & _ & Hnf & _). destruct (Hnf Hig) as [Hok _]. congruence.
    + destruct H as (_ & Hr & Hin & Hq). exists r, sub. repeat split; auto.
      eapply Permutation_in; [apply Permutation_sym, isort_perm|exact Hin].
    + contradiction.
    + contradiction.
Qed.

(* hypotheses are satisfiable and the statement is not vacuous: 5 runs (run 3 fails), 2 workers,
   a schedule that completes out of order and in batches *)
Definition ex_res (r : Z) : option (list Z) := if r =? 3 then None else Some [10 * r; 10 * r + 1].
Example multi_run_ex_ignore :
  multi_run ex_res (mkcfg 2 true false true) [5; 1; 4; 3; 2] [[3; 0]%nat; [1]%nat; [2; 2; 0]%nat] =
  MROk (Some [[(Some 1, 10); (Some 1, 11)]; [(Some 2, 20); (Some 2, 21)];
              [(Some 4, 40); (Some 4, 41)]; [(Some 5, 50); (Some 5, 51)]])
       [3] [1; 2; 3; 4; 5] 4.
Proof. vm_compute. reflexivity. Qed.
Example multi_run_ex_raise :
  multi_run ex_res (mkcfg 1 false false true) [5; 1; 4; 3; 2] [[1]%nat; [1]%nat; [0]%nat] = MRRaise 3 [1; 2; 3].
Proof. vm_compute. reflexivity. Qed.
