(* C11 — proofs about the planner model, part 3: the depth-first walk of check_cache. *)
From SV Require Import Spec.PlannerSpec Proof.PlannerProof Proof.PlannerSaversProof.

Local Open Scope nat_scope.

Section Dfs.
  Variables (g : graph) (cx : context) (rq : request).
  Notation ld := (loadable (c_fes cx)).
  Notation sfe := (saver_frontends (c_fes cx)).

  Definition sv_entry_ok (compute : list dt) (e : dt * list nat) : Prop :=
    exists x j p, In x compute /\ plugin_of g x = Some (j, p) /\ save_loop_entered cx rq p x /\
                  new_entry cx rq p (p_prov p) e.

  Record st_inv (st : pstate) : Prop := {
    inv_ld : forall x, In x (s_loaders st) -> ld x = true /\ In x (s_seen st);
    inv_cp : forall x, In x (s_compute st) -> ld x = false /\ In x (s_seen st);
    inv_seen : forall x, In x (s_seen st) -> In x (s_loaders st) \/ In x (s_compute st);
    inv_nd_l : NoDup (s_loaders st);
    inv_nd_c : NoDup (s_compute st);
    inv_sv : forall e, In e (s_savers st) -> sv_entry_ok (s_compute st) e;
    inv_sv_nd : NoDup (map fst (s_savers st))
  }.

  Lemma st_inv_0 : st_inv st0.
  Proof. constructor; cbn; try tauto; constructor. Qed.

  Definition ext (st st' : pstate) : Prop :=
    incl (s_seen st) (s_seen st') /\ incl (s_loaders st) (s_loaders st') /\
    incl (s_compute st) (s_compute st') /\ incl (s_savers st) (s_savers st').

  Lemma ext_refl st : ext st st.
  Proof. repeat split; apply incl_refl. Qed.

  Lemma ext_trans a b c : ext a b -> ext b c -> ext a c.
  Proof.
    intros [A1 [A2 [A3 A4]]] [B1 [B2 [B3 B4]]]. repeat split; eapply incl_tran; eauto.
  Qed.

  Definition node_done (st : pstate) (x : dt) : Prop :=
    (ld x = true /\ In x (s_loaders st)) \/
    (ld x = false /\ In x (s_compute st) /\
     exists j p, plugin_of g x = Some (j, p) /\ blocked cx rq p x = false /\
       (forall y, In y (p_deps p) -> In y (s_seen st)) /\
       saver_done cx rq (s_savers st) p x).

  Lemma saver_done_incl sv sv' p x : incl sv sv' -> saver_done cx rq sv p x -> saver_done cx rq sv' p x.
  Proof.
    intros Hi Hd Ht. destruct (Hd Ht) as [Hc Hl]. split; [exact Hc|].
    intros He d2 Hin Hu. destruct (Hl He d2 Hin Hu) as [H1 H2]. split; [exact H1|].
    intros Ha Hne. apply Hi. apply H2; assumption.
  Qed.

  Lemma node_done_ext st st' x : ext st st' -> node_done st x -> node_done st' x.
  Proof.
    intros [E1 [E2 [E3 E4]]] [[Hl Hin]|[Hl [Hin [j [p [Hp [Hb [Hd Hs]]]]]]]].
    - left. split; [exact Hl | apply E2; exact Hin].
    - right. split; [exact Hl|]. split; [apply E3; exact Hin|]. exists j, p.
      split; [exact Hp|]. split; [exact Hb|]. split; [intros y Hy; apply E1; apply Hd; exact Hy|].
      eapply saver_done_incl; eauto.
  Qed.

  Definition new_nodes_ok (start : dt -> Prop) (st st' : pstate) : Prop :=
    forall x, In x (s_seen st') -> ~ In x (s_seen st) ->
      (exists y, start y /\ reach g cx y x) /\ node_done st' x.

  Definition cc_post (d : dt) (st st' : pstate) : Prop :=
    st_inv st' /\ ext st st' /\ In d (s_seen st') /\ new_nodes_ok (eq d) st st'.

  Lemma fold_ok (f : dt -> pstate -> res pstate) :
    (forall d st st', st_inv st -> f d st = Ok st' -> cc_post d st st') ->
    forall ds st st', st_inv st -> fold_res f ds st = Ok st' ->
      st_inv st' /\ ext st st' /\ (forall y, In y ds -> In y (s_seen st')) /\
      new_nodes_ok (fun y => In y ds) st st'.
  Proof.
    intros Hf. induction ds as [|a r IH]; intros st st' Hinv H; cbn [fold_res] in H.
    - inversion H; subst. split; [exact Hinv|]. split; [apply ext_refl|]. split; [intros ? []|].
      intros x Hx Hn. contradiction.
    - destruct (f a st) as [s1|e] eqn:Ea; cbn [res_bind] in H; [|discriminate].
      destruct (Hf _ _ _ Hinv Ea) as [I1 [X1 [S1 N1]]].
      destruct (IH _ _ I1 H) as [I2 [X2 [S2 N2]]].
      split; [exact I2|]. split; [eapply ext_trans; eauto|]. split.
      + intros y [<-|Hy]; [apply X2; exact S1 | apply S2; exact Hy].
      + intros x Hx Hn. destruct (in_dec Nat.eq_dec x (s_seen s1)) as [Hs|Hs].
        * destruct (N1 x Hs Hn) as [[y [<- Hr]] Hd]. split.
          -- exists a. split; [left; reflexivity | exact Hr].
          -- eapply node_done_ext; eauto.
        * destruct (N2 x Hx Hs) as [[y [Hy Hr]] Hd]. split; [|exact Hd].
          exists y. split; [right; exact Hy | exact Hr].
  Qed.

  Lemma sv_entry_ok_incl c c' e : incl c c' -> sv_entry_ok c e -> sv_entry_ok c' e.
  Proof. intros Hi [x [j [p [Hx H]]]]. exists x, j, p. split; [apply Hi; exact Hx | exact H]. Qed.

  Lemma sv_keys st : st_inv st -> forall e, In e (s_savers st) -> snd e = sfe (fst e).
  Proof.
    intros Hinv e He. destruct (inv_sv _ Hinv e He) as [x [j [p [_ [_ [_ Hn]]]]]].
    destruct Hn as [_ [_ [_ [Hk _]]]]. exact Hk.
  Qed.

  Lemma cc_ok : forall fuel d st st',
    st_inv st -> check_cache fuel g cx rq d st = Ok st' -> cc_post d st st'.
  Proof.
    induction fuel as [|f IH]; intros d st st' Hinv H; cbn [check_cache] in H; [discriminate|].
    destruct (mem d (s_seen st)) eqn:Eseen.
    { inversion H; subst. apply mem_In in Eseen. split; [exact Hinv|]. split; [apply ext_refl|].
      split; [exact Eseen|]. intros x Hx Hn. contradiction. }
    apply mem_false in Eseen.
    destruct (plugin_of g d) as [[j p]|] eqn:Ep; [|discriminate].
    assert (Hncp : ~ In d (s_compute st)) by (intros Hc; apply Eseen; apply (inv_cp _ Hinv); exact Hc).
    assert (Hnld : ~ In d (s_loaders st)) by (intros Hc; apply Eseen; apply (inv_ld _ Hinv); exact Hc).
    destruct (ld d) eqn:Eld.
    - (* loaded *)
      inversion H; subst. clear H. split.
      + constructor; cbn [s_seen s_loaders s_compute s_savers].
        * intros x [<-|Hx]; [split; [exact Eld | left; reflexivity]|].
          destruct (inv_ld _ Hinv x Hx). split; [assumption | right; assumption].
        * intros x Hx. destruct (inv_cp _ Hinv x Hx). split; [assumption | right; assumption].
        * intros x [<-|Hx]; [left; left; reflexivity|].
          destruct (inv_seen _ Hinv x Hx); [left; right; assumption | right; assumption].
        * constructor; [exact Hnld | apply (inv_nd_l _ Hinv)].
        * apply (inv_nd_c _ Hinv).
        * apply (inv_sv _ Hinv).
        * apply (inv_sv_nd _ Hinv).
      + split; [|split].
        * repeat split; cbn; auto using incl_refl, incl_tl.
        * left. reflexivity.
        * intros x [<-|Hx] Hn; [|contradiction]. split.
          -- exists d. split; [reflexivity | apply reach_refl].
          -- left. split; [exact Eld | left; reflexivity].
    - (* computed *)
      destruct (blocked cx rq p d) eqn:Eb; [discriminate|].
      set (st2 := mkst (d :: s_seen st) (s_loaders st) (d :: s_compute st) (s_savers st)) in *.
      destruct (fold_res (check_cache f g cx rq) (p_deps p) st2) as [st3|e] eqn:Efold; cbn [res_bind] in H; [|discriminate].
      assert (Hinv2 : st_inv st2).
      { constructor; cbn [st2 s_seen s_loaders s_compute s_savers].
        - intros x Hx. destruct (inv_ld _ Hinv x Hx). split; [assumption | right; assumption].
        - intros x [<-|Hx]; [split; [exact Eld | left; reflexivity]|].
          destruct (inv_cp _ Hinv x Hx). split; [assumption | right; assumption].
        - intros x [<-|Hx]; [right; left; reflexivity|].
          destruct (inv_seen _ Hinv x Hx); [left; assumption | right; right; assumption].
        - apply (inv_nd_l _ Hinv).
        - constructor; [exact Hncp | apply (inv_nd_c _ Hinv)].
        - intros e He. eapply sv_entry_ok_incl; [|apply (inv_sv _ Hinv); exact He]. apply incl_tl, incl_refl.
        - apply (inv_sv_nd _ Hinv). }
      destruct (fold_ok _ (IH) _ _ _ Hinv2 Efold) as [I3 [X3 [S3 N3]]].
      destruct (saver_part_ok _ _ _ _ _ _ H (sv_keys _ I3)) as [Q1 [Q2 [Q3 [Q4 [Q5 [Q6 Q7]]]]]].
      assert (Hd3 : In d (s_compute st3)).
      { destruct X3 as [_ [_ [X3 _]]]. apply X3. left. reflexivity. }
      assert (X34 : ext st3 st').
      { repeat split; [rewrite Q1 | rewrite Q2 | rewrite Q3 | exact Q4]; apply incl_refl. }
      assert (X24 : ext st2 st') by (eapply ext_trans; eauto).
      split.
      + constructor.
        * rewrite Q2, Q1. apply (inv_ld _ I3).
        * rewrite Q3, Q1. apply (inv_cp _ I3).
        * rewrite Q1, Q2, Q3. apply (inv_seen _ I3).
        * rewrite Q2. apply (inv_nd_l _ I3).
        * rewrite Q3. apply (inv_nd_c _ I3).
        * intros e He. rewrite Q3. destruct (Q6 e He) as [Ho|[Hent Hnew]].
          -- apply (inv_sv _ I3). exact Ho.
          -- exists d, j, p. auto.
        * apply Q7. apply (inv_sv_nd _ I3).
      + split; [|split].
        * destruct X24 as [A1 [A2 [A3 A4]]]. repeat split.
          -- intros x Hx. apply A1. right. exact Hx.
          -- exact A2.
          -- intros x Hx. apply A3. right. exact Hx.
          -- exact A4.
        * destruct X24 as [A1 _]. apply A1. left. reflexivity.
        * intros x Hx Hn. rewrite Q1 in Hx. destruct (Nat.eq_dec d x) as [<-|Hne].
          -- split; [exists d; split; [reflexivity | apply reach_refl]|].
             right. split; [exact Eld|]. split; [rewrite Q3; exact Hd3|]. exists j, p.
             split; [exact Ep|]. split; [exact Eb|]. split; [intros y Hy; rewrite Q1; apply S3; exact Hy|].
             exact Q5.
          -- assert (Hn2 : ~ In x (s_seen st2)) by (cbn; intros [?|?]; [congruence | contradiction]).
             destruct (N3 x Hx Hn2) as [[y [Hy Hr]] Hdone]. split.
             ++ exists d. split; [reflexivity|]. eapply reach_trans; [|exact Hr].
                eapply reach_step; [apply reach_refl | exact Eld | exact Ep | exact Hy].
             ++ exact (node_done_ext _ _ _ X34 Hdone).
  Qed.

  (* ---- errors ---- *)

  Definition value_witness (x : dt) : Prop :=
    exists j p, ld x = false /\ plugin_of g x = Some (j, p) /\ p_temp p = false /\
      (conflict rq p x = true \/
       (save_loop_entered cx rq p x /\ exists d2, In d2 (p_prov p) /\ ld d2 = false /\ conflict rq p d2 = true)).

  Definition dna_witness (x : dt) : Prop :=
    exists j p, ld x = false /\ plugin_of g x = Some (j, p) /\ blocked cx rq p x = true.

  Lemma cc_err : forall fuel d st e,
    check_cache fuel g cx rq d st = Err e ->
    (e = E_DNA /\ exists x, reach g cx d x /\ dna_witness x) \/
    (e = E_VALUE /\ exists x, reach g cx d x /\ value_witness x) \/
    e = E_FUEL \/ e = E_KEY.
  Proof.
    induction fuel as [|f IH]; intros d st e H; cbn [check_cache] in H.
    { inversion H. auto. }
    destruct (mem d (s_seen st)); [discriminate|].
    destruct (plugin_of g d) as [[j p]|] eqn:Ep; [|inversion H; auto].
    destruct (ld d) eqn:Eld; [discriminate|].
    destruct (blocked cx rq p d) eqn:Eb.
    { inversion H. left. split; [reflexivity|]. exists d. split; [apply reach_refl|]. exists j, p. auto. }
    destruct (fold_res (check_cache f g cx rq) (p_deps p) _) as [st3|e'] eqn:Efold; cbn [res_bind] in H.
    - destruct (saver_part_err _ _ _ _ _ _ H) as [He [Ht Hc]]. right. left. split; [exact He|].
      exists d. split; [apply reach_refl|]. exists j, p. auto.
    - inversion H; subst e'. destruct (fold_res_err _ _ _ _ Efold) as [y [s1 [Hy Hf]]].
      assert (Hdy : reach g cx d y) by (eapply reach_step; [apply reach_refl | exact Eld | exact Ep | exact Hy]).
      destruct (IH _ _ _ Hf) as [[He [x [Hr Hw]]]|[[He [x [Hr Hw]]]|[He|He]]].
      + left. split; [exact He|]. exists x. split; [eapply reach_trans; eauto | exact Hw].
      + right. left. split; [exact He|]. exists x. split; [eapply reach_trans; eauto | exact Hw].
      + auto.
      + auto.
  Qed.

  (* ---- fuel and registration: excluded for well-formed graphs ---- *)

  Lemma forallb_In {A} (f : A -> bool) l x : forallb f l = true -> In x l -> f x = true.
  Proof. intros H Hin. rewrite forallb_forall in H. apply H. exact Hin. Qed.

  Hypothesis Hwf : wf_graph g.

  Lemma wf_parts :
    forallb plugin_ordered g = true /\
    forallb (fun p => forallb (fun d => mem d (all_provs g)) (p_deps p)) g = true.
  Proof.
    pose proof Hwf as H. unfold wf_graph, wf_graphb in H.
    apply andb_true_iff in H. destruct H as [H _].
    apply andb_true_iff in H. destruct H as [H _].
    apply andb_true_iff in H. destruct H as [H1 H2]. split; assumption.
  Qed.

  Lemma dep_smaller d j p y : plugin_of g d = Some (j, p) -> In y (p_deps p) -> y < d.
  Proof.
    intros Hp Hy. pose proof (plugin_of_in _ _ _ _ Hp) as Hin. destruct (plugin_of_some _ _ _ _ Hp) as [Hd _].
    destruct wf_parts as [Ho _]. pose proof (forallb_In _ _ _ Ho Hin) as H1. unfold plugin_ordered in H1.
    pose proof (forallb_In _ _ _ H1 Hd) as H2. pose proof (forallb_In _ _ _ H2 Hy) as H3.
    apply Nat.ltb_lt in H3. exact H3.
  Qed.

  Lemma dep_provided d j p y : plugin_of g d = Some (j, p) -> In y (p_deps p) -> In y (all_provs g).
  Proof.
    intros Hp Hy. pose proof (plugin_of_in _ _ _ _ Hp) as Hin.
    destruct wf_parts as [_ Hc]. pose proof (forallb_In _ _ _ Hc Hin) as H1.
    pose proof (forallb_In _ _ _ H1 Hy) as H2. apply mem_In in H2. exact H2.
  Qed.

  Lemma cc_no_fuel_key : forall fuel d st e,
    d < fuel -> In d (all_provs g) ->
    check_cache fuel g cx rq d st = Err e -> e <> E_FUEL /\ e <> E_KEY.
  Proof.
    induction fuel as [|f IH]; intros d st e Hlt Hprov H; [lia|]. cbn [check_cache] in H.
    destruct (mem d (s_seen st)); [discriminate|].
    destruct (plugin_of g d) as [[j p]|] eqn:Ep.
    2:{ destruct (plugin_of_provided _ _ Hprov) as [j [p Hp]]. congruence. }
    destruct (ld d); [discriminate|].
    destruct (blocked cx rq p d).
    { inversion H. split; discriminate. }
    destruct (fold_res (check_cache f g cx rq) (p_deps p) _) as [st3|e'] eqn:Efold; cbn [res_bind] in H.
    - destruct (saver_part_err _ _ _ _ _ _ H) as [He _]. subst. split; discriminate.
    - inversion H; subst e'. destruct (fold_res_err _ _ _ _ Efold) as [y [s1 [Hy Hf]]].
      apply (IH y s1 e); [|eapply dep_provided; eauto | exact Hf].
      pose proof (dep_smaller _ _ _ _ Ep Hy). lia.
  Qed.
End Dfs.
