(* Proofs for property C03 over Model/SaverLoader.v. *)
From SV Require Import Model.Chunk Model.Rechunker Model.SaverLoader Spec.SaverLoaderSpec
  Proof.RowsFacts Proof.ChunkProof.

(* ---------------------------------------------------------------------------------------- *)
(* association lists used for the files of a directory                                       *)
(* ---------------------------------------------------------------------------------------- *)

Lemma lookup_app {B} k (l1 l2 : list (Z * B)) :
  lookup k (l1 ++ l2) = match lookup k l1 with Some b => Some b | None => lookup k l2 end.
Proof.
  induction l1 as [|[k' b] l1 IH]; cbn [lookup app]; [reflexivity|].
  destruct (k' =? k); [reflexivity|exact IH].
Qed.

Lemma lookup_remove_key {B} k k' (l : list (Z * B)) :
  lookup k (remove_key k' l) = if k' =? k then None else lookup k l.
Proof.
  induction l as [|[k2 b] l IH]; cbn [lookup remove_key].
  - destruct (k' =? k); reflexivity.
  - destruct (k2 =? k') eqn:E2.
    + rewrite IH. destruct (k' =? k) eqn:E1; [reflexivity|].
      destruct (k2 =? k) eqn:E3; [lia|reflexivity].
    + cbn [lookup]. destruct (k2 =? k) eqn:E3.
      * destruct (k' =? k) eqn:E1; [lia|reflexivity].
      * exact IH.
Qed.

Lemma lookup_write_file {B} k k' (b : B) l :
  lookup k (write_file k' b l) = if k' =? k then Some b else lookup k l.
Proof.
  unfold write_file. rewrite lookup_app, lookup_remove_key. cbn [lookup].
  destruct (k' =? k); [reflexivity|]. destruct (lookup k l); reflexivity.
Qed.

(* ---------------------------------------------------------------------------------------- *)
(* streams                                                                                   *)
(* ---------------------------------------------------------------------------------------- *)

Lemma Forall2_same_data_rows cs out :
  Forall2 same_data cs out -> all_rows out = all_rows cs.
Proof.
  induction 1 as [|c d cs out (H1 & H2 & H3 & H4) HF IH]; [reflexivity|].
  unfold all_rows in *. cbn [flat_map]. rewrite H3, IH. reflexivity.
Qed.

Lemma Forall2_same_data_bounds cs out :
  Forall2 same_data cs out -> bounds out = bounds cs.
Proof.
  induction 1 as [|c d cs out (H1 & H2 & H3 & H4) HF IH]; [reflexivity|].
  unfold bounds in *. cbn [map]. rewrite H1, H2, IH. reflexivity.
Qed.

Lemma bounds_start cs out : bounds out = bounds cs -> first_start out = first_start cs.
Proof.
  destruct cs as [|c cs], out as [|d out]; cbn; try discriminate; [reflexivity|].
  intros H. inversion H. reflexivity.
Qed.

Lemma bounds_map_cend cs out : bounds out = bounds cs -> map cend out = map cend cs.
Proof.
  revert out; induction cs as [|c cs IH]; intros [|d out]; cbn; try discriminate; [reflexivity|].
  intros H. inversion H. f_equal. apply IH. assumption.
Qed.

Lemma last_map_cend cs c d0 : cend (last cs c) = last (map cend cs) d0 \/ cs = [].
Proof.
  induction cs as [|x cs IH]; [right; reflexivity|left].
  destruct cs as [|y cs]; [reflexivity|].
  destruct IH as [IH|IH]; [|discriminate].
  change (last (x :: y :: cs) c) with (last (y :: cs) c).
  change (map cend (x :: y :: cs)) with (cend x :: map cend (y :: cs)).
  change (last (cend x :: map cend (y :: cs)) d0) with (last (map cend (y :: cs)) d0).
  exact IH.
Qed.

Lemma bounds_end cs out : bounds out = bounds cs -> final_end out = final_end cs.
Proof.
  intros H. pose proof (bounds_map_cend _ _ H) as Hm.
  destruct cs as [|c cs], out as [|d out]; cbn in H; try discriminate; [reflexivity|].
  unfold final_end. f_equal.
  destruct (last_map_cend (d :: out) d 0) as [E1|E1]; [|discriminate].
  destruct (last_map_cend (c :: cs) c 0) as [E2|E2]; [|discriminate].
  rewrite E1, E2, Hm. reflexivity.
Qed.

Lemma bounds_cut_points cs out : bounds out = bounds cs -> cut_points out = cut_points cs.
Proof.
  intros H. pose proof (bounds_map_cend _ _ H) as Hm.
  destruct cs as [|c cs], out as [|d out]; cbn in H; try discriminate; [reflexivity|].
  unfold cut_points. rewrite Hm. inversion H. reflexivity.
Qed.

Lemma bounds_contiguous cs out : bounds out = bounds cs -> contiguous cs -> contiguous out.
Proof.
  revert out; induction cs as [|c cs IH]; intros [|d out] H; cbn in H; try discriminate; [auto|].
  inversion H as [[H1 H2 H3]]. cbn [contiguous]. intros [Hc Hr]. split; [|apply IH; assumption].
  destruct cs as [|c2 cs], out as [|d2 out]; cbn in H3; try discriminate; [exact I|].
  inversion H3. congruence.
Qed.

(* ---------------------------------------------------------------------------------------- *)
(* the saver                                                                                 *)
(* ---------------------------------------------------------------------------------------- *)

(* the fields of the metadata the saver never touches while saving chunks *)
Definition md_static_eq (m m' : metadata) : Prop :=
  md_run m' = md_run m /\ md_dtype m' = md_dtype m /\ md_kind m' = md_kind m /\
  md_rowtype m' = md_rowtype m /\ md_compressor m' = md_compressor m /\ md_target m' = md_target m /\
  md_ended m' = md_ended m /\ md_exception m' = md_exception m.

Lemma md_static_eq_refl m : md_static_eq m m.
Proof. unfold md_static_eq; tauto. Qed.

Lemma md_static_eq_trans a b c : md_static_eq a b -> md_static_eq b c -> md_static_eq a c.
Proof. unfold md_static_eq. intuition congruence. Qed.

Lemma md_static_comp m m' : md_static_eq m m' -> comp_of m' = comp_of m.
Proof. intros (_ & _ & _ & _ & H & _). unfold comp_of. rewrite H. reflexivity. Qed.

(* the loader stamps data type, kind and target size from the metadata *)
Definition restamp (dt kind tgt : Z) (c : chunk) : chunk :=
  mkchunk (cstart c) (cend c) (crows c) dt kind (crun c) tgt.

Lemma restamp_same_data dt kind tgt cs : Forall2 same_data cs (map (restamp dt kind tgt) cs).
Proof. induction cs as [|c cs IH]; constructor; [unfold same_data; cbn; tauto|exact IH]. Qed.

Fixpoint stored_at (cs : list chunk) (i k : Z) : option (list row) :=
  match cs with
  | [] => None
  | c :: r =>
      match stored_at r (i + 1) k with
      | Some x => Some x
      | None => match crows c with [] => None | rows => if i =? k then Some rows else None end
      end
  end.

Lemma stored_at_lt cs : forall i k, k < i -> stored_at cs i k = None.
Proof.
  induction cs as [|c cs IH]; intros i k H; cbn [stored_at]; [reflexivity|].
  rewrite IH by lia. destruct (crows c); [reflexivity|]. destruct (i =? k) eqn:E; [lia|reflexivity].
Qed.

Lemma stored_at_nth cs : forall i j c,
  nth_error cs j = Some c ->
  stored_at cs i (i + Z.of_nat j) = match crows c with [] => None | rows => Some rows end.
Proof.
  induction cs as [|c0 cs IH]; intros i j c H; [destruct j; discriminate|].
  destruct j as [|j]; cbn [nth_error] in H.
  - inversion H; subst c0. cbn [stored_at]. rewrite stored_at_lt by lia.
    destruct (crows c); [reflexivity|]. replace (i + Z.of_nat 0) with i by lia. rewrite Z.eqb_refl. reflexivity.
  - cbn [stored_at]. replace (i + Z.of_nat (S j)) with ((i + 1) + Z.of_nat j) by lia.
    rewrite (IH (i + 1) j c H). destruct (crows c) eqn:Ec; [|reflexivity].
    destruct (crows c0); [reflexivity|]. destruct (i =? i + 1 + Z.of_nat j) eqn:E; [lia|reflexivity].
Qed.

Section Codec.
  Variable blob : Type.
  Variable encode : Z -> list row -> blob.
  Variable decode : Z -> blob -> option (list row).
  Variable bsize : blob -> Z.
  (* the byte codec is a bijection on what it is given: numpy buffer + compressor round trip *)
  Hypothesis decode_encode : forall k rs, decode k (encode k rs) = Some rs.

  Local Notation save_ := (save blob encode bsize).
  Local Notation make_info_ := (make_info blob encode bsize).
  Local Notation save_all_ := (save_all blob encode bsize).
  Local Notation save_loop_ := (save_loop blob encode bsize).
  Local Notation save_from_ := (save_from blob encode bsize).
  Local Notation read_chunk_ := (read_chunk blob decode).
  Local Notation read_chunks_ := (read_chunks blob decode).
  Local Notation backend_loader_ := (backend_loader blob decode).
  Local Notation load_ := (load blob decode).
  Local Notation saver_ := (saver blob).

  Fixpoint infos_from (cfg : save_cfg) (comp : Z) (cs : list chunk) (i : Z) : list chunk_info :=
    match cs with [] => [] | c :: r => make_info_ cfg comp c i :: infos_from cfg comp r (i + 1) end.

  Fixpoint files_from (comp : Z) (cs : list chunk) (i : Z) (files : list (Z * blob)) : list (Z * blob) :=
    match cs with
    | [] => files
    | c :: r => files_from comp r (i + 1)
                  (match crows c with [] => files | rows => write_file i (encode comp rows) files end)
    end.

  Lemma lookup_files_from comp : forall cs i files k,
    lookup k (files_from comp cs i files) =
    match stored_at cs i k with Some rows => Some (encode comp rows) | None => lookup k files end.
  Proof.
    induction cs as [|c cs IH]; intros i files k; cbn [files_from stored_at]; [reflexivity|].
    rewrite IH. destruct (stored_at cs (i + 1) k); [reflexivity|].
    destruct (crows c) as [|r0 rest]; [reflexivity|].
    rewrite lookup_write_file. destruct (i =? k); reflexivity.
  Qed.

  Lemma save_step cfg (s : saver_) c i :
    sc_forked cfg = false -> sv_closed s = false ->
    exists s', save_ cfg s c i = Ok s' /\ sv_closed s' = false /\ sv_final s' = sv_final s /\
      sv_meta_files s' = sv_meta_files s /\ sv_disk s' = sv_md s' /\ md_static_eq (sv_md s) (sv_md s') /\
      md_chunks (sv_md s') = md_chunks (sv_md s) ++ [make_info_ cfg (comp_of (sv_md s)) c i] /\
      sv_files s' = match crows c with
                    | [] => sv_files s
                    | rows => write_file i (encode (comp_of (sv_md s)) rows) (sv_files s)
                    end.
  Proof.
    intros Hf Hc. unfold save. rewrite Hc, Hf.
    eexists. split; [reflexivity|]. cbn.
    destruct (i =? 0); cbn; unfold md_static_eq; cbn; repeat split; reflexivity.
  Qed.

  Lemma save_all_ok cfg : sc_forked cfg = false -> forall cs (s : saver_) i, sv_closed s = false ->
    exists s', save_all_ cfg s cs i = Ok (s', i + Z.of_nat (length cs)) /\ sv_closed s' = false /\
      sv_final s' = sv_final s /\ sv_meta_files s' = sv_meta_files s /\
      (sv_disk s = sv_md s -> sv_disk s' = sv_md s') /\ md_static_eq (sv_md s) (sv_md s') /\
      md_chunks (sv_md s') = md_chunks (sv_md s) ++ infos_from cfg (comp_of (sv_md s)) cs i /\
      sv_files s' = files_from (comp_of (sv_md s)) cs i (sv_files s).
  Proof.
    intros Hf. induction cs as [|c cs IH]; intros s i Hc.
    - exists s. cbn [save_all length infos_from files_from]. rewrite app_nil_r.
      replace (i + Z.of_nat 0) with i by lia. repeat split; auto using md_static_eq_refl.
    - destruct (save_step cfg s c i Hf Hc) as (s1 & E1 & C1 & F1 & M1 & D1 & S1 & K1 & L1).
      destruct (IH s1 (i + 1) C1) as (s2 & E2 & C2 & F2 & M2 & D2 & S2 & K2 & L2).
      exists s2. cbn [save_all]. rewrite E1. cbn [res_bind]. rewrite E2.
      replace (i + 1 + Z.of_nat (length cs)) with (i + Z.of_nat (length (c :: cs))) by (cbn [length]; lia).
      split; [reflexivity|]. split; [exact C2|]. split; [congruence|]. split; [congruence|].
      split; [intros _; exact (D2 D1)|]. split; [eapply md_static_eq_trans; eauto|].
      rewrite (md_static_comp _ _ S1) in K2, L2.
      split.
      + rewrite K2, K1, <- app_assoc. reflexivity.
      + rewrite L2, L1. reflexivity.
  Qed.

  Lemma save_all_app cfg : forall a b (s : saver_) i,
    save_all_ cfg s (a ++ b) i =
    match save_all_ cfg s a i with Ok (s1, i1) => save_all_ cfg s1 b i1 | Err e => Err e end.
  Proof.
    induction a as [|c a IH]; intros b s i; cbn [app save_all]; [reflexivity|].
    destruct (save_ cfg s c i) as [s1|e]; cbn [res_bind]; [apply IH|reflexivity].
  Qed.

  Lemma save_loop_norechunk cfg : forall cs cache (s : saver_) i s' i',
    save_all_ cfg s cs i = Ok (s', i') -> save_loop_ cfg false cache s i cs = (s', Ok tt).
  Proof.
    induction cs as [|c cs IH]; intros cache s i s' i' H; cbn [save_loop].
    - cbn [save_all] in *. inversion H; subst. reflexivity.
    - cbn [save_all] in *. destruct (save_ cfg s c i) as [s1|e]; cbn [res_bind] in *; [|discriminate].
      eapply IH. exact H.
  Qed.

  Lemma save_loop_rechunk cfg : forall cs cache (s : saver_) i outs s' i',
    rechunk_from cache cs = Ok outs -> save_all_ cfg s outs i = Ok (s', i') ->
    save_loop_ cfg true cache s i cs = (s', Ok tt).
  Proof.
    induction cs as [|c cs IH]; intros cache s i outs s' i' Hr Hs; cbn [save_loop rechunk_from] in *.
    - inversion Hr; subst. rewrite Hs. reflexivity.
    - destruct (receive cache c) as [[out cache']|e]; cbn [res_bind] in Hr; [|discriminate].
      destruct (rechunk_from cache' cs) as [more|e] eqn:Em; cbn [res_bind] in Hr; [|discriminate].
      inversion Hr; subst outs. rewrite save_all_app in Hs.
      destruct (save_all_ cfg s out i) as [[s1 i1]|e]; [|discriminate].
      eapply IH; eauto.
  Qed.

  Lemma close_ok (s : saver_) exc :
    sv_closed s = false -> sv_final s = false -> sv_meta_files s = [] ->
    exists s', close s exc = Ok s' /\ sv_closed s' = true /\ sv_final s' = true /\ sv_files s' = sv_files s /\
      sv_meta_files s' = [] /\ sv_disk s' = sv_md s' /\ md_chunks (sv_md s') = md_chunks (sv_md s) /\
      md_ended (sv_md s') = true /\ md_exception (sv_md s') = (exc || md_exception (sv_md s)) /\
      md_run (sv_md s') = md_run (sv_md s) /\ md_dtype (sv_md s') = md_dtype (sv_md s) /\
      md_kind (sv_md s') = md_kind (sv_md s) /\ md_rowtype (sv_md s') = md_rowtype (sv_md s) /\
      md_compressor (sv_md s') = md_compressor (sv_md s) /\ md_target (sv_md s') = md_target (sv_md s) /\
      (md_chunks (sv_md s) <> [] ->
       md_start (sv_md s') = ci_start_of (md_chunks (sv_md s)) /\ md_end (sv_md s') = ci_end_of (md_chunks (sv_md s))).
  Proof.
    intros Hc Hf Hm. unfold close. rewrite Hc, Hf, Hm.
    eexists. split; [reflexivity|]. cbn [sort_by_key map].
    destruct exc; cbn [md_chunks md_set_exception]; destruct (md_chunks (sv_md s)) eqn:Ek; cbn;
      rewrite ?Ek, ?app_nil_r; repeat split; try reflexivity; try congruence.
  Qed.
End Codec.
