(* Proofs for property C03 over Model/SaverLoader.v. *)
From SV Require Import Model.Chunk Model.Rechunker Model.SaverLoader Spec.SaverLoaderSpec
  Proof.RowsFacts Proof.ChunkProof.

(* ---------------------------------------------------------------------------------------- *)
(* association lists used for the files of a directory                                       *)
(* ---------------------------------------------------------------------------------------- *)

Lemma lookup_app {B} k (l1 l2 : list (Z * B)) :
  lookup k (l1 ++ l2) = match lookup k l1 with Some b => Some b | None => lookup k l2 end.
Proof.
  induction l1 as [|[k' b] l1 IH]; cbn [lookup app]; [reflexivity|].
  destruct (k' =? k); [reflexivity|exact IH].
Qed.

Lemma lookup_remove_key {B} k k' (l : list (Z * B)) :
  lookup k (remove_key k' l) = if k' =? k then None else lookup k l.
Proof.
  induction l as [|[k2 b] l IH]; cbn [lookup remove_key].
  - destruct (k' =? k); reflexivity.
  - destruct (k2 =? k') eqn:E2.
    + rewrite IH. destruct (k' =? k) eqn:E1; [reflexivity|].
      destruct (k2 =? k) eqn:E3; [lia|reflexivity].
    + cbn [lookup]. destruct (k2 =? k) eqn:E3.
      * destruct (k' =? k) eqn:E1; [lia|reflexivity].
      * exact IH.
Qed.

Lemma lookup_write_file {B} k k' (b : B) l :
  lookup k (write_file k' b l) = if k' =? k then Some b else lookup k l.
Proof.
  unfold write_file. rewrite lookup_app, lookup_remove_key. cbn [lookup].
  destruct (k' =? k); [reflexivity|]. destruct (lookup k l); reflexivity.
Qed.

(* ---------------------------------------------------------------------------------------- *)
(* streams                                                                                   *)
(* ---------------------------------------------------------------------------------------- *)

Lemma Forall2_same_data_rows cs out :
  Forall2 same_data cs out -> all_rows out = all_rows cs.
Proof.
  induction 1 as [|c d cs out (H1 & H2 & H3 & H4) HF IH]; [reflexivity|].
  unfold all_rows in *. cbn [flat_map]. rewrite H3, IH. reflexivity.
Qed.

Lemma Forall2_same_data_bounds cs out :
  Forall2 same_data cs out -> bounds out = bounds cs.
Proof.
  induction 1 as [|c d cs out (H1 & H2 & H3 & H4) HF IH]; [reflexivity|].
  unfold bounds in *. cbn [map]. rewrite H1, H2, IH. reflexivity.
Qed.

Lemma bounds_start cs out : bounds out = bounds cs -> first_start out = first_start cs.
Proof.
  destruct cs as [|c cs], out as [|d out]; cbn; try discriminate; [reflexivity|].
  intros H. inversion H. reflexivity.
Qed.

Lemma bounds_map_cend cs out : bounds out = bounds cs -> map cend out = map cend cs.
Proof.
  revert out; induction cs as [|c cs IH]; intros [|d out]; cbn; try discriminate; [reflexivity|].
  intros H. inversion H. f_equal. apply IH. assumption.
Qed.

Lemma last_map_cend cs c d0 : cend (last cs c) = last (map cend cs) d0 \/ cs = [].
Proof.
  induction cs as [|x cs IH]; [right; reflexivity|left].
  destruct cs as [|y cs]; [reflexivity|].
  destruct IH as [IH|IH]; [|discriminate].
  change (last (x :: y :: cs) c) with (last (y :: cs) c).
  change (map cend (x :: y :: cs)) with (cend x :: map cend (y :: cs)).
  change (last (cend x :: map cend (y :: cs)) d0) with (last (map cend (y :: cs)) d0).
  exact IH.
Qed.

Lemma bounds_end cs out : bounds out = bounds cs -> final_end out = final_end cs.
Proof.
  intros H. pose proof (bounds_map_cend _ _ H) as Hm.
  destruct cs as [|c cs], out as [|d out]; cbn in H; try discriminate; [reflexivity|].
  unfold final_end. f_equal.
  destruct (last_map_cend (d :: out) d 0) as [E1|E1]; [|discriminate].
  destruct (last_map_cend (c :: cs) c 0) as [E2|E2]; [|discriminate].
  rewrite E1, E2, Hm. reflexivity.
Qed.

Lemma bounds_cut_points cs out : bounds out = bounds cs -> cut_points out = cut_points cs.
Proof.
  intros H. pose proof (bounds_map_cend _ _ H) as Hm.
  destruct cs as [|c cs], out as [|d out]; cbn in H; try discriminate; [reflexivity|].
  unfold cut_points. rewrite Hm. inversion H. reflexivity.
Qed.

Lemma bounds_contiguous cs out : bounds out = bounds cs -> contiguous cs -> contiguous out.
Proof.
  revert out; induction cs as [|c cs IH]; intros [|d out] H; cbn in H; try discriminate; [auto|].
  inversion H as [[H1 H2 H3]]. cbn [contiguous]. intros [Hc Hr]. split; [|apply IH; assumption].
  destruct cs as [|c2 cs], out as [|d2 out]; cbn in H3; try discriminate; [exact I|].
  inversion H3. congruence.
Qed.

(* ---------------------------------------------------------------------------------------- *)
(* the saver                                                                                 *)
(* ---------------------------------------------------------------------------------------- *)

(* the fields of the metadata the saver never touches while saving chunks *)
Definition md_static_eq (m m' : metadata) : Prop :=
  md_run m' = md_run m /\ md_dtype m' = md_dtype m /\ md_kind m' = md_kind m /\
  md_rowtype m' = md_rowtype m /\ md_compressor m' = md_compressor m /\ md_target m' = md_target m /\
  md_ended m' = md_ended m /\ md_exception m' = md_exception m.

Lemma md_static_eq_refl m : md_static_eq m m.
Proof. unfold md_static_eq; tauto. Qed.

Lemma md_static_eq_trans a b c : md_static_eq a b -> md_static_eq b c -> md_static_eq a c.
Proof. unfold md_static_eq. intuition congruence. Qed.

Lemma md_static_comp m m' : md_static_eq m m' -> comp_of m' = comp_of m.
Proof. intros (_ & _ & _ & _ & H & _). unfold comp_of. rewrite H. reflexivity. Qed.

(* the loader stamps data type, kind and target size from the metadata *)
Definition restamp (dt kind tgt : Z) (c : chunk) : chunk :=
  mkchunk (cstart c) (cend c) (crows c) dt kind (crun c) tgt.

Lemma restamp_same_data dt kind tgt cs : Forall2 same_data cs (map (restamp dt kind tgt) cs).
Proof. induction cs as [|c cs IH]; constructor; [unfold same_data; cbn; tauto|exact IH]. Qed.

Fixpoint stored_at (cs : list chunk) (i k : Z) : option (list row) :=
  match cs with
  | [] => None
  | c :: r =>
      match stored_at r (i + 1) k with
      | Some x => Some x
      | None => match crows c with [] => None | rows => if i =? k then Some rows else None end
      end
  end.

Lemma stored_at_lt cs : forall i k, k < i -> stored_at cs i k = None.
Proof.
  induction cs as [|c cs IH]; intros i k H; cbn [stored_at]; [reflexivity|].
  rewrite IH by lia. destruct (crows c); [reflexivity|]. destruct (i =? k) eqn:E; [lia|reflexivity].
Qed.

Lemma stored_at_nth cs : forall i j c,
  nth_error cs j = Some c ->
  stored_at cs i (i + Z.of_nat j) = match crows c with [] => None | rows => Some rows end.
Proof.
  induction cs as [|c0 cs IH]; intros i j c H; [destruct j; discriminate|].
  destruct j as [|j]; cbn [nth_error] in H.
  - inversion H; subst c0. cbn [stored_at]. rewrite stored_at_lt by lia.
    destruct (crows c); [reflexivity|]. replace (i + Z.of_nat 0) with i by lia. rewrite Z.eqb_refl. reflexivity.
  - cbn [stored_at]. replace (i + Z.of_nat (S j)) with ((i + 1) + Z.of_nat j) by lia.
    rewrite (IH (i + 1) j c H). destruct (crows c) eqn:Ec; [|reflexivity].
    destruct (crows c0); [reflexivity|]. destruct (i =? i + 1 + Z.of_nat j) eqn:E; [lia|reflexivity].
Qed.

Section Codec.
  Variable blob : Type.
  Variable encode : Z -> list row -> blob.
  Variable decode : Z -> blob -> option (list row).
  Variable bsize : blob -> Z.

  Local Notation save_ := (save blob encode bsize).
  Local Notation make_info_ := (make_info blob encode bsize).
  Local Notation save_all_ := (save_all blob encode bsize).
  Local Notation save_loop_ := (save_loop blob encode bsize).
  Local Notation save_from_ := (save_from blob encode bsize).
  Local Notation read_chunk_ := (read_chunk blob decode).
  Local Notation read_chunks_ := (read_chunks blob decode).
  Local Notation backend_loader_ := (backend_loader blob decode).
  Local Notation load_ := (load blob decode).
  Local Notation saver_ := (saver blob).

  Fixpoint infos_from (cfg : save_cfg) (comp : Z) (cs : list chunk) (i : Z) : list chunk_info :=
    match cs with [] => [] | c :: r => make_info_ cfg comp c i :: infos_from cfg comp r (i + 1) end.

  Fixpoint files_from (comp : Z) (cs : list chunk) (i : Z) (files : list (Z * blob)) : list (Z * blob) :=
    match cs with
    | [] => files
    | c :: r => files_from comp r (i + 1)
                  (match crows c with [] => files | rows => write_file i (encode comp rows) files end)
    end.

  Lemma lookup_files_from comp : forall cs i files k,
    lookup k (files_from comp cs i files) =
    match stored_at cs i k with Some rows => Some (encode comp rows) | None => lookup k files end.
  Proof.
    induction cs as [|c cs IH]; intros i files k; cbn [files_from stored_at]; [reflexivity|].
    rewrite IH. destruct (stored_at cs (i + 1) k); [reflexivity|].
    destruct (crows c) as [|r0 rest]; [reflexivity|].
    rewrite lookup_write_file. destruct (i =? k); reflexivity.
  Qed.

  Lemma save_step cfg (s : saver_) c i :
    sc_forked cfg = false -> sv_closed s = false ->
    exists s', save_ cfg s c i = Ok s' /\ sv_closed s' = false /\ sv_final s' = sv_final s /\
      sv_meta_files s' = sv_meta_files s /\ sv_disk s' = sv_md s' /\ md_static_eq (sv_md s) (sv_md s') /\
      md_chunks (sv_md s') = md_chunks (sv_md s) ++ [make_info_ cfg (comp_of (sv_md s)) c i] /\
      sv_files s' = match crows c with
                    | [] => sv_files s
                    | rows => write_file i (encode (comp_of (sv_md s)) rows) (sv_files s)
                    end.
  Proof.
    intros Hf Hc. unfold save. rewrite Hc, Hf.
    eexists. split; [reflexivity|]. cbn.
    destruct (i =? 0); cbn; unfold md_static_eq; cbn; repeat split; reflexivity.
  Qed.

  Lemma save_all_ok cfg : sc_forked cfg = false -> forall cs (s : saver_) i, sv_closed s = false ->
    exists s', save_all_ cfg s cs i = Ok (s', i + Z.of_nat (length cs)) /\ sv_closed s' = false /\
      sv_final s' = sv_final s /\ sv_meta_files s' = sv_meta_files s /\
      (sv_disk s = sv_md s -> sv_disk s' = sv_md s') /\ md_static_eq (sv_md s) (sv_md s') /\
      md_chunks (sv_md s') = md_chunks (sv_md s) ++ infos_from cfg (comp_of (sv_md s)) cs i /\
      sv_files s' = files_from (comp_of (sv_md s)) cs i (sv_files s).
  Proof.
    intros Hf. induction cs as [|c cs IH]; intros s i Hc.
    - exists s. cbn [save_all length infos_from files_from]. rewrite app_nil_r.
      replace (i + Z.of_nat 0) with i by lia. repeat split; auto using md_static_eq_refl.
    - destruct (save_step cfg s c i Hf Hc) as (s1 & E1 & C1 & F1 & M1 & D1 & S1 & K1 & L1).
      destruct (IH s1 (i + 1) C1) as (s2 & E2 & C2 & F2 & M2 & D2 & S2 & K2 & L2).
      exists s2. cbn [save_all]. rewrite E1. cbn [res_bind]. rewrite E2.
      replace (i + 1 + Z.of_nat (length cs)) with (i + Z.of_nat (length (c :: cs))) by (cbn [length]; lia).
      split; [reflexivity|]. split; [exact C2|]. split; [congruence|]. split; [congruence|].
      split; [intros _; exact (D2 D1)|]. split; [eapply md_static_eq_trans; eauto|].
      rewrite (md_static_comp _ _ S1) in K2, L2.
      split.
      + rewrite K2, K1, <- app_assoc. reflexivity.
      + rewrite L2, L1. reflexivity.
  Qed.

  Lemma save_all_app cfg : forall a b (s : saver_) i,
    save_all_ cfg s (a ++ b) i =
    match save_all_ cfg s a i with Ok (s1, i1) => save_all_ cfg s1 b i1 | Err e => Err e end.
  Proof.
    induction a as [|c a IH]; intros b s i; cbn [app save_all]; [reflexivity|].
    destruct (save_ cfg s c i) as [s1|e]; cbn [res_bind]; [apply IH|reflexivity].
  Qed.

  Lemma save_loop_norechunk cfg : forall cs cache (s : saver_) i s' i',
    save_all_ cfg s cs i = Ok (s', i') -> save_loop_ cfg false cache s i cs = (s', Ok tt).
  Proof.
    induction cs as [|c cs IH]; intros cache s i s' i' H; cbn [save_loop].
    - cbn [save_all] in *. inversion H; subst. reflexivity.
    - cbn [save_all] in *. destruct (save_ cfg s c i) as [s1|e]; cbn [res_bind] in *; [|discriminate].
      eapply IH. exact H.
  Qed.

  Lemma save_loop_rechunk cfg : forall cs cache (s : saver_) i outs s' i',
    rechunk_from cache cs = Ok outs -> save_all_ cfg s outs i = Ok (s', i') ->
    save_loop_ cfg true cache s i cs = (s', Ok tt).
  Proof.
    induction cs as [|c cs IH]; intros cache s i outs s' i' Hr Hs; cbn [save_loop rechunk_from] in *.
    - inversion Hr; subst. rewrite Hs. reflexivity.
    - destruct (receive cache c) as [[out cache']|e]; cbn [res_bind] in Hr; [|discriminate].
      destruct (rechunk_from cache' cs) as [more|e] eqn:Em; cbn [res_bind] in Hr; [|discriminate].
      inversion Hr; subst outs. rewrite save_all_app in Hs.
      destruct (save_all_ cfg s out i) as [[s1 i1]|e]; [|discriminate].
      eapply IH; eauto.
  Qed.

  Lemma close_ok (s : saver_) exc :
    sv_closed s = false -> sv_final s = false -> sv_meta_files s = [] ->
    exists s', close s exc = Ok s' /\ sv_closed s' = true /\ sv_final s' = true /\ sv_files s' = sv_files s /\
      sv_meta_files s' = [] /\ sv_disk s' = sv_md s' /\ md_chunks (sv_md s') = md_chunks (sv_md s) /\
      md_ended (sv_md s') = true /\ md_exception (sv_md s') = (exc || md_exception (sv_md s)) /\
      md_run (sv_md s') = md_run (sv_md s) /\ md_dtype (sv_md s') = md_dtype (sv_md s) /\
      md_kind (sv_md s') = md_kind (sv_md s) /\ md_rowtype (sv_md s') = md_rowtype (sv_md s) /\
      md_compressor (sv_md s') = md_compressor (sv_md s) /\ md_target (sv_md s') = md_target (sv_md s) /\
      (md_chunks (sv_md s) <> [] ->
       md_start (sv_md s') = ci_start_of (md_chunks (sv_md s)) /\ md_end (sv_md s') = ci_end_of (md_chunks (sv_md s))).
  Proof.
    intros Hc Hf Hm. unfold close. rewrite Hc, Hf, Hm.
    eexists. split; [reflexivity|]. cbn [sort_by_key map].
    destruct exc; cbn [md_chunks md_set_exception]; destruct (md_chunks (sv_md s)) eqn:Ek; cbn;
      rewrite ?Ek, ?app_nil_r; repeat split; try reflexivity; try congruence.
  Qed.

  (* ---- what save_from leaves behind for a stream that reaches the saver as `outs` ---- *)

  Definition stored_as (cfg : save_cfg) (md0 : metadata) (outs : list chunk) (s : saver_) : Prop :=
    let comp := comp_of (sv_md (init_saver (blob := blob) md0)) in
    sv_closed s = true /\ sv_final s = true /\ sv_meta_files s = [] /\ sv_disk s = sv_md s /\
    sv_files s = files_from comp outs 0 [] /\
    md_chunks (sv_md s) = infos_from cfg comp outs 0 /\
    md_ended (sv_md s) = true /\ md_exception (sv_md s) = md_exception md0 /\
    md_run (sv_md s) = md_run md0 /\ md_dtype (sv_md s) = md_dtype md0 /\ md_kind (sv_md s) = md_kind md0 /\
    md_rowtype (sv_md s) = md_rowtype md0 /\ md_compressor (sv_md s) = Some comp /\
    md_target (sv_md s) = md_target md0 /\
    (outs <> [] -> md_start (sv_md s) = ci_start_of (infos_from cfg comp outs 0) /\
                   md_end (sv_md s) = ci_end_of (infos_from cfg comp outs 0)).

  Lemma init_saver_props md0 :
    let s := init_saver (blob := blob) md0 in
    sv_closed s = false /\ sv_final s = false /\ sv_meta_files s = [] /\ sv_files s = [] /\
    sv_disk s = sv_md s /\ md_chunks (sv_md s) = [] /\
    md_run (sv_md s) = md_run md0 /\ md_dtype (sv_md s) = md_dtype md0 /\ md_kind (sv_md s) = md_kind md0 /\
    md_rowtype (sv_md s) = md_rowtype md0 /\ md_target (sv_md s) = md_target md0 /\
    md_ended (sv_md s) = md_ended md0 /\ md_exception (sv_md s) = md_exception md0 /\
    md_compressor (sv_md s) = Some (comp_of (sv_md s)).
  Proof.
    cbn. repeat split; try reflexivity. unfold comp_of; cbn. destruct (md_compressor md0); reflexivity.
  Qed.

  Lemma save_from_ok cfg md0 cs outs :
    sc_forked cfg = false -> md_run md0 <> None ->
    (if sc_rechunk cfg && sc_allow_rechunk cfg then rechunk_stream cs = Ok outs else outs = cs) ->
    exists s, save_from_ cfg (init_saver md0) cs = (s, Ok tt) /\ stored_as cfg md0 outs s.
  Proof.
    intros Hf Hrun Houts.
    pose proof (init_saver_props md0) as (I1 & I2 & I3 & I4 & I5 & I6 & I7 & I8 & I9 & I10 & I11 & I12 & I13 & I14).
    set (s0 := init_saver (blob := blob) md0) in *.
    destruct (save_all_ok cfg Hf outs s0 0 I1) as (s1 & E1 & C1 & F1 & M1 & D1 & S1 & K1 & L1).
    assert (Hloop : save_loop_ cfg (sc_rechunk cfg && sc_allow_rechunk cfg) None s0 0 cs = (s1, Ok tt)).
    { destruct (sc_rechunk cfg && sc_allow_rechunk cfg).
      - eapply save_loop_rechunk; [exact Houts|exact E1].
      - subst outs. eapply save_loop_norechunk. exact E1. }
    destruct (close_ok s1 false C1 (eq_trans F1 I2) (eq_trans M1 I3))
      as (s2 & E2 & C2 & F2 & L2 & M2 & D2 & K2 & N2 & X2 & R1 & R2 & R3 & R4 & R5 & R6 & SE).
    exists s2. split.
    - unfold save_from. rewrite I7. destruct (md_run md0) eqn:Er; [|congruence].
      rewrite Hloop. rewrite C1, E2. reflexivity.
    - destruct S1 as (T1 & T2 & T3 & T4 & T5 & T6 & T7 & T8).
      rewrite I6 in K1. cbn [app] in K1. rewrite I4 in L1.
      unfold stored_as. fold s0.
      split; [exact C2|]. split; [exact F2|]. split; [exact M2|]. split; [exact D2|].
      split; [congruence|]. split; [congruence|]. split; [exact N2|].
      split; [rewrite X2; cbn [orb]; congruence|].
      split; [congruence|]. split; [congruence|]. split; [congruence|]. split; [congruence|].
      split; [congruence|]. split; [congruence|].
      intros Hne. rewrite <- K1. apply SE. rewrite K1. destruct outs; [congruence|discriminate].
  Qed.

  (* ---- the loader on what the saver wrote ---- *)

  Lemma length_zero_nil {A} (l : list A) : Z.of_nat (length l) = 0 -> l = [].
  Proof. destruct l; [reflexivity|cbn [length]; lia]. Qed.

  Lemma wf_mk_chunk c dt kind tgt :
    wf c -> mk_chunk (cstart c) (cend c) (crows c) dt kind (crun c) tgt = Ok (restamp dt kind tgt c).
  Proof.
    intros (H0 & Hse & _ & HF). apply mk_chunk_ok; [exact H0|exact Hse|].
    eapply Forall_impl; [|exact HF]. cbn. intros a Ha. lia.
  Qed.

  Section CodecOk.
  (* the byte codec is a bijection on what it is given: numpy buffer + compressor round trip *)
  Hypothesis decode_encode : forall k rs, decode k (encode k rs) = Some rs.

  Lemma read_chunk_saved cfg comp dt kind tgt files c i r :
    wf c -> crun c = Some r ->
    (crows c <> [] -> lookup i files = Some (encode comp (crows c))) ->
    read_chunk_ files comp dt kind tgt (make_info_ cfg comp c i) = Ok (restamp dt kind tgt c).
  Proof.
    intros Hwf Hr Hl. unfold read_chunk, make_info. cbn [ci_start ci_end ci_run ci_n ci_filename].
    rewrite Hr. destruct (Z.of_nat (length (crows c)) =? 0) eqn:En.
    - apply Z.eqb_eq in En. pose proof (length_zero_nil _ En) as Hnil.
      cbn [res_bind length]. cbn. rewrite Hnil in *. cbn [length]. cbn.
      rewrite <- Hr. pose proof (wf_mk_chunk c dt kind tgt Hwf) as Hm. rewrite Hnil in Hm. exact Hm.
    - destruct (crows c) as [|r0 rest] eqn:Ec; [cbn in En; discriminate|].
      rewrite Hl by discriminate. rewrite decode_encode. cbn [res_bind].
      rewrite Z.eqb_refl. cbn [negb]. rewrite <- Hr, <- Ec. apply wf_mk_chunk. exact Hwf.
  Qed.

  Lemma read_chunks_saved cfg comp dt kind tgt files : forall cs i,
    Forall wf cs -> Forall (fun c => exists r, crun c = Some r) cs ->
    (forall j c, nth_error cs j = Some c -> crows c <> [] ->
                 lookup (i + Z.of_nat j) files = Some (encode comp (crows c))) ->
    read_chunks_ files comp dt kind tgt (infos_from cfg comp cs i) = Ok (map (restamp dt kind tgt) cs).
  Proof.
    induction cs as [|c cs IH]; intros i Hwf Hrun Hl; [reflexivity|].
    inversion Hwf as [|? ? W1 W2]; subst. inversion Hrun as [|? ? [r R1] R2]; subst.
    cbn [infos_from read_chunks map].
    rewrite (read_chunk_saved cfg comp dt kind tgt files c i r W1 R1).
    - cbn [res_bind]. rewrite IH; [reflexivity|exact W2|exact R2|].
      intros j c' Hn Hne. replace (i + 1 + Z.of_nat j) with (i + Z.of_nat (S j)) by lia.
      apply Hl; assumption.
    - intros Hne. replace i with (i + Z.of_nat 0) by lia. apply Hl; [reflexivity|exact Hne].
  Qed.

  Lemma files_from_lookup comp cs j c :
    nth_error cs j = Some c ->
    lookup (0 + Z.of_nat j) (files_from comp cs 0 []) =
    match crows c with [] => None | rows => Some (encode comp rows) end.
  Proof.
    intros Hn. rewrite lookup_files_from, (stored_at_nth cs 0 j c Hn). cbn [lookup].
    destruct (crows c); reflexivity.
  Qed.

  Lemma load_saved cfg md0 outs (s : saver_) ai deft mrun mdt mkind mrow :
    stored_as cfg md0 outs s -> md_exception md0 = false ->
    md_run md0 = Some mrun -> md_dtype md0 = Some mdt -> md_kind md0 = Some mkind -> md_rowtype md0 = Some mrow ->
    outs <> [] -> Forall wf outs -> Forall (fun c => exists r, crun c = Some r) outs ->
    load_ s ai deft =
    Ok (map (restamp mdt mkind (match md_target md0 with Some t => t | None => deft end)) outs).
  Proof.
    intros (C & F & M & D & L & K & N & X & R1 & R2 & R3 & R4 & R5 & R6 & SE) Hex H1 H2 H3 H4 Hne Hwf Hrun.
    unfold load, find. rewrite F. cbn [orb]. rewrite D, X, Hex, N. cbn [negb andb res_bind].
    unfold backend_loader. rewrite R1, R2, R3, R4, R5, R6, H1, H2, H3, H4, K, L.
    destruct outs as [|c outs]; [congruence|].
    change (infos_from cfg _ (c :: outs) 0) with
      (make_info_ cfg (comp_of (sv_md (init_saver (blob := blob) md0))) c 0 ::
       infos_from cfg (comp_of (sv_md (init_saver (blob := blob) md0))) outs (0 + 1)).
    cbv iota.
    change (make_info_ cfg ?k c 0 :: infos_from cfg ?k outs (0 + 1)) with (infos_from cfg k (c :: outs) 0).
    apply read_chunks_saved; [exact Hwf|exact Hrun|].
    intros j c' Hn Hc'. rewrite (files_from_lookup _ _ j c' Hn).
    destruct (crows c'); [congruence|reflexivity].
  Qed.

  End CodecOk.

  (* ---- every stored chunk entry agrees with its chunk and its file ---- *)

  Lemma make_info_agrees cfg comp files c i :
    lookup i files = match crows c with [] => None | rows => Some (encode comp rows) end ->
    info_agrees blob encode bsize (sc_itemsize cfg) comp files i c (make_info_ cfg comp c i).
  Proof.
    intros Hl. unfold info_agrees, make_info, first_row, last_row. cbn.
    repeat (split; [reflexivity|]).
    destruct (crows c) as [|r0 rest]; [repeat split; auto|].
    split; [reflexivity|]. split; [exact Hl|].
    destruct (negb (sc_executor cfg) || sc_forked cfg); [right|left]; reflexivity.
  Qed.

  Lemma infos_from_agree cfg comp files : forall cs i,
    (forall j c, nth_error cs j = Some c ->
                 lookup (i + Z.of_nat j) files = match crows c with [] => None | rows => Some (encode comp rows) end) ->
    infos_agree blob encode bsize (sc_itemsize cfg) comp files i cs (infos_from cfg comp cs i).
  Proof.
    induction cs as [|c cs IH]; intros i Hl; cbn [infos_from infos_agree]; [exact I|]. split.
    - apply make_info_agrees. replace i with (i + Z.of_nat 0) at 1 by lia. apply Hl. reflexivity.
    - apply IH. intros j c' Hn. replace (i + 1 + Z.of_nat j) with (i + Z.of_nat (S j)) by lia. apply Hl. exact Hn.
  Qed.

  Lemma infos_from_start cfg comp c cs i : ci_start_of (infos_from cfg comp (c :: cs) i) = Some (cstart c).
  Proof. reflexivity. Qed.

  Lemma last_default_irrelevant {A} (l : list A) x d1 d2 : last (x :: l) d1 = last (x :: l) d2.
  Proof.
    revert x; induction l as [|y l IH]; intros x; [reflexivity|].
    change (last (x :: y :: l) d1) with (last (y :: l) d1).
    change (last (x :: y :: l) d2) with (last (y :: l) d2). apply IH.
  Qed.

  Lemma infos_from_last cfg comp : forall cs c i d,
    ci_end (last (infos_from cfg comp (c :: cs) i) d) = Some (cend (last (c :: cs) c)).
  Proof.
    induction cs as [|c2 cs IH]; intros c i d; [reflexivity|].
    change (infos_from cfg comp (c :: c2 :: cs) i) with (make_info_ cfg comp c i :: infos_from cfg comp (c2 :: cs) (i + 1)).
    change (last (make_info_ cfg comp c i :: infos_from cfg comp (c2 :: cs) (i + 1)) d)
      with (last (infos_from cfg comp (c2 :: cs) (i + 1)) d).
    rewrite IH. change (last (c :: c2 :: cs) c) with (last (c2 :: cs) c).
    rewrite (last_default_irrelevant cs c2 c c2). reflexivity.
  Qed.

  Lemma infos_from_end cfg comp c cs i : ci_end_of (infos_from cfg comp (c :: cs) i) = Some (cend (last (c :: cs) c)).
  Proof. unfold ci_end_of. cbn [infos_from]. apply (infos_from_last cfg comp cs c i). Qed.

  (* ================= the property theorems (statements over all streams) ================= *)

  Definition md0_ok (md0 : metadata) : Prop :=
    md_run md0 <> None /\ md_dtype md0 <> None /\ md_kind md0 <> None /\ md_rowtype md0 <> None /\
    md_exception md0 = false.

  Definition target_of (md0 : metadata) (deft : Z) : Z := match md_target md0 with Some t => t | None => deft end.

  (* the chunks that reach the saver: the stream itself, or the rechunker's output *)
  Definition reaches_saver (cfg : save_cfg) (cs outs : list chunk) : Prop :=
    if sc_rechunk cfg && sc_allow_rechunk cfg then rechunk_stream cs = Ok outs else outs = cs.

  Section CodecOk2.
  (* the byte codec is a bijection on what it is given: numpy buffer + compressor round trip *)
  Hypothesis decode_encode : forall k rs, decode k (encode k rs) = Some rs.

  Theorem save_load_roundtrip_core cfg md0 cs outs ai deft :
    sc_forked cfg = false -> md0_ok md0 -> reaches_saver cfg cs outs ->
    outs <> [] -> Forall wf outs -> Forall (fun c => exists r, crun c = Some r) outs ->
    exists s out,
      save_from_ cfg (init_saver md0) cs = (s, Ok tt) /\
      load_ s ai deft = Ok out /\
      Forall2 same_data outs out /\
      Forall (fun c => Some (cdtype c) = md_dtype md0 /\ Some (ckind c) = md_kind md0 /\ ctarget c = target_of md0 deft) out /\
      stored_as cfg md0 outs s.
  Proof.
    intros Hf (H1 & H2 & H3 & H4 & H5) Hr Hne Hwf Hrun.
    destruct (save_from_ok cfg md0 cs outs Hf H1 Hr) as (s & Es & St).
    destruct (md_run md0) as [mrun|] eqn:E1; [|congruence].
    destruct (md_dtype md0) as [mdt|] eqn:E2; [|congruence].
    destruct (md_kind md0) as [mkind|] eqn:E3; [|congruence].
    destruct (md_rowtype md0) as [mrow|] eqn:E4; [|congruence].
    exists s, (map (restamp mdt mkind (target_of md0 deft)) outs).
    split; [exact Es|]. split.
    - eapply load_saved; eauto.
    - split; [apply restamp_same_data|]. split; [|exact St].
      apply Forall_forall. intros c Hc. apply in_map_iff in Hc as (c0 & <- & _). cbn. auto.
  Qed.

  (* C03 (a): saving then loading gives back the same rows in the same order over the same range,
     contiguously; boundaries are unchanged without rechunking and original-or-in-a-gap with it *)
  Theorem save_load_roundtrip (Hrechunk : rechunk_spec) cfg md0 run dt cs ai deft :
    sc_forked cfg = false -> md0_ok md0 -> stream_ok run dt cs ->
    (sc_rechunk cfg && sc_allow_rechunk cfg = true -> Forall (fun c => 0 < ctarget c) cs) ->
    exists s out,
      save_from_ cfg (init_saver md0) cs = (s, Ok tt) /\
      load_ s ai deft = Ok out /\
      all_rows out = all_rows cs /\
      first_start out = first_start cs /\ final_end out = final_end cs /\
      contiguous out /\
      Forall (fun c => crun c = Some run) out /\
      (sc_rechunk cfg && sc_allow_rechunk cfg = false -> Forall2 same_data cs out /\ bounds out = bounds cs) /\
      (forall x, In x (cut_points out) -> In x (cut_points cs) \/ row_free_at (all_rows cs) x).
  Proof.
    intros Hf Hmd Hok Htgt. pose proof Hok as (Hne & Hwf & Hcont & Hmeta).
    destruct (sc_rechunk cfg && sc_allow_rechunk cfg) eqn:Erc.
    - destruct (Hrechunk run dt cs Hok (Htgt eq_refl)) as (outs & Er & One & Owf & Ocont & Orun & Orows & Ost & Oen & Ocut).
      destruct (save_load_roundtrip_core cfg md0 cs outs ai deft Hf Hmd) as (s & out & Es & El & Sd & _ & _); auto.
      { unfold reaches_saver. rewrite Erc. exact Er. }
      { eapply Forall_impl; [|exact Orun]. cbn. eauto. }
      pose proof (Forall2_same_data_bounds _ _ Sd) as Hb.
      exists s, out. split; [exact Es|]. split; [exact El|].
      split; [rewrite (Forall2_same_data_rows _ _ Sd); exact Orows|].
      split; [rewrite (bounds_start _ _ Hb); exact Ost|].
      split; [rewrite (bounds_end _ _ Hb); exact Oen|].
      split; [eapply bounds_contiguous; eauto|].
      split.
      { clear - Sd Orun. induction Sd as [|a b l l' (_ & _ & _ & Hr) _ IH]; [constructor|].
        inversion Orun; subst. constructor; [congruence|auto]. }
      split; [discriminate|].
      rewrite (bounds_cut_points _ _ Hb). exact Ocut.
    - destruct (save_load_roundtrip_core cfg md0 cs cs ai deft Hf Hmd) as (s & out & Es & El & Sd & _ & _); auto.
      { unfold reaches_saver. rewrite Erc. reflexivity. }
      { eapply Forall_impl; [|exact Hmeta]. cbn. intros a [Ha _]. eauto. }
      pose proof (Forall2_same_data_bounds _ _ Sd) as Hb.
      exists s, out. split; [exact Es|]. split; [exact El|].
      split; [exact (Forall2_same_data_rows _ _ Sd)|].
      split; [exact (bounds_start _ _ Hb)|].
      split; [exact (bounds_end _ _ Hb)|].
      split; [eapply bounds_contiguous; eauto|].
      split.
      { clear - Sd Hmeta. induction Sd as [|a b l l' (_ & _ & _ & Hr) _ IH]; [constructor|].
        inversion Hmeta as [|? ? [Ha _] Hm']; subst. constructor; [congruence|auto]. }
      split; [intros _; split; assumption|].
      rewrite (bounds_cut_points _ _ Hb). intros x Hx. left. exact Hx.
  Qed.

  End CodecOk2.

  (* C03 (b): the stored metadata agrees with the chunks that reached the saver and with the files *)
  Theorem metadata_consistent cfg md0 cs outs :
    sc_forked cfg = false -> md_run md0 <> None -> md_exception md0 = false -> reaches_saver cfg cs outs -> outs <> [] ->
    exists s, save_from_ cfg (init_saver md0) cs = (s, Ok tt) /\
      let m := sv_disk s in
      let comp := comp_of (sv_md (init_saver (blob := blob) md0)) in
      sv_final s = true /\ sv_closed s = true /\ sv_meta_files s = [] /\
      md_complete m = true /\
      md_run m = md_run md0 /\ md_dtype m = md_dtype md0 /\ md_kind m = md_kind md0 /\
      md_rowtype m = md_rowtype md0 /\ md_target m = md_target md0 /\ md_compressor m = Some comp /\
      infos_agree blob encode bsize (sc_itemsize cfg) comp (sv_files s) 0 outs (md_chunks m) /\
      md_start m = first_start outs /\ md_end m = final_end outs.
  Proof.
    intros Hf Hrun Hex Hr Hne.
    destruct (save_from_ok cfg md0 cs outs Hf Hrun Hr) as (s & Es & St).
    exists s. split; [exact Es|].
    destruct St as (C & F & M & D & L & K & N & X & R1 & R2 & R3 & R4 & R5 & R6 & SE).
    cbn zeta. rewrite D.
    split; [exact F|]. split; [exact C|]. split; [exact M|].
    split; [unfold md_complete; rewrite N, X, Hex; reflexivity|].
    split; [exact R1|]. split; [exact R2|]. split; [exact R3|]. split; [exact R4|]. split; [exact R6|].
    split; [exact R5|].
    destruct (SE Hne) as [S1 S2].
    split.
    - rewrite K, L. apply infos_from_agree. intros j c Hn. apply files_from_lookup. exact Hn.
    - destruct outs as [|c outs]; [congruence|]. rewrite S1, S2.
      split; [apply infos_from_start|apply infos_from_end].
  Qed.

  (* the completion marker (writing_ended without exception) is present iff save_from returned
     normally; whatever the stream was, the saver ends closed and the directory renamed *)
  Theorem completion_marker_iff cfg md0 cs :
    sc_forked cfg = false -> md_run md0 <> None -> md_exception md0 = false ->
    let '(s, r) := save_from_ cfg (init_saver md0) cs in
    sv_closed s = true /\ sv_final s = true /\ md_ended (sv_disk s) = true /\
    (md_complete (sv_disk s) = true <-> r = Ok tt).
  Proof.
    intros Hf Hrun Hex.
    pose proof (init_saver_props md0) as (I1 & I2 & I3 & I4 & I5 & I6 & I7 & I8 & I9 & I10 & I11 & I12 & I13 & I14).
    set (s0 := init_saver (blob := blob) md0) in *.
    assert (Hinv : forall cs rc cache (s : saver_) i,
               sv_closed s = false -> sv_final s = false -> sv_meta_files s = [] -> md_exception (sv_md s) = false ->
               let '(s1, r) := save_loop_ cfg rc cache s i cs in
               sv_closed s1 = false /\ sv_final s1 = false /\ sv_meta_files s1 = [] /\ md_exception (sv_md s1) = false).
    { intros cs'. induction cs' as [|c cs' IH]; intros rc cache s i A B C D; cbn [save_loop].
      - destruct (save_all_ok cfg Hf (if rc then flush cache else []) s i A) as (s1 & E1 & C1 & F1 & M1 & _ & S1 & _).
        rewrite E1. destruct S1 as (_ & _ & _ & _ & _ & _ & _ & T8). repeat split; congruence.
      - destruct (if rc then receive cache c else Ok ([c], None)) as [[out cache']|e]; [|auto].
        destruct (save_all_ok cfg Hf out s i A) as (s1 & E1 & C1 & F1 & M1 & _ & S1 & _).
        rewrite E1. destruct S1 as (_ & _ & _ & _ & _ & _ & _ & T8).
        apply IH; congruence. }
    unfold save_from. fold s0. rewrite I7. destruct (md_run md0); [|congruence].
    specialize (Hinv cs (sc_rechunk cfg && sc_allow_rechunk cfg) None s0 0 I1 I2 I3 (eq_trans I13 Hex)).
    destruct (save_loop_ cfg (sc_rechunk cfg && sc_allow_rechunk cfg) None s0 0 cs) as [s1 r].
    destruct Hinv as (A & B & C & D).
    rewrite A.
    destruct (close_ok s1 (match r with Ok _ => false | Err _ => true end) A B C)
      as (s2 & E2 & C2 & F2 & L2 & M2 & D2 & K2 & N2 & X2 & _).
    rewrite E2. split; [exact C2|]. split; [exact F2|]. rewrite D2. split; [exact N2|].
    unfold md_complete. rewrite N2, X2, D. destruct r as [[]|e]; cbn; split; congruence.
  Qed.

  (* a failed save is never loadable: find refuses it *)
  Theorem failed_save_not_loadable cfg md0 cs ai deft :
    sc_forked cfg = false -> md_run md0 <> None -> md_exception md0 = false ->
    let '(s, r) := save_from_ cfg (init_saver md0) cs in
    r <> Ok tt -> load_ s ai deft = Err E_NOT_AVAILABLE.
  Proof.
    intros Hf Hrun Hex. pose proof (completion_marker_iff cfg md0 cs Hf Hrun Hex) as H.
    destruct (save_from_ cfg (init_saver md0) cs) as [s r].
    destruct H as (C & F & N & Hiff). intros Hr.
    unfold load, find. rewrite F. cbn [orb].
    unfold md_complete in Hiff. rewrite N in Hiff. cbn [andb] in Hiff.
    destruct (md_exception (sv_disk s)); [reflexivity|]. exfalso. apply Hr. apply Hiff. reflexivity.
  Qed.

  (* OBSERVATION (forked savers, outside C03's quantifier): whatever the children save and in
     whatever order, the parent's close leaves the overall start / end exactly as they were in the
     metadata handed to the saver (absent, for Plugin.metadata) - Saver.close computes them from the
     parent's in-memory chunk list, which is still empty when FileSaver._close collects the
     per-chunk json files. *)
  Theorem forked_overall_range_untouched cfg md0 jobs (s1 s2 : saver_) :
    save_children blob encode bsize cfg (init_saver md0) jobs = Ok s1 -> close s1 false = Ok s2 ->
    md_start (sv_disk s2) = md_start md0 /\ md_end (sv_disk s2) = md_end md0 /\
    md_chunks (sv_disk s2) = map snd (sort_by_key (sv_meta_files s1)).
  Proof.
    intros Hs Hc.
    assert (Hinv : forall jobs (s s' : saver_), save_children blob encode bsize cfg s jobs = Ok s' -> sv_md s' = sv_md s).
    { clear. induction jobs as [|[i c] jobs IH]; intros s s' H; cbn [save_children] in H.
      - inversion H. reflexivity.
      - unfold save_in_child in H. destruct (sv_closed s); cbn [res_bind] in H; [discriminate|].
        apply IH in H. exact H. }
    apply Hinv in Hs. unfold close in Hc.
    destruct (sv_closed s1); [discriminate|]. destruct (sv_final s1); [discriminate|].
    inversion Hc; subst s2; clear Hc. cbn [sv_disk]. rewrite Hs. cbn. repeat split; reflexivity.
  Qed.
End Codec.

Section Loader.
  Variable blob : Type.
  Variable decode : Z -> blob -> option (list row).
  Local Notation read_chunk_ := (read_chunk blob decode).
  Local Notation read_chunks_ := (read_chunks blob decode).

  (* C03 (c): the loader never hands out a chunk whose row count differs from the metadata ... *)
  Theorem loader_row_counts files comp dt kind tgt : forall l out,
    read_chunks_ files comp dt kind tgt l = Ok out ->
    Forall2 (fun ci c => ci_n ci = Z.of_nat (length (crows c))) l out.
  Proof.
    induction l as [|ci l IH]; intros out H; cbn [read_chunks] in H.
    - inversion H. constructor.
    - destruct (read_chunk_ files comp dt kind tgt ci) as [c|e] eqn:Ec; cbn [res_bind] in H; [|discriminate].
      destruct (read_chunks_ files comp dt kind tgt l) as [cs|e] eqn:El; cbn [res_bind] in H; [|discriminate].
      inversion H; subst out. constructor; [|apply IH; reflexivity].
      unfold read_chunk in Ec.
      destruct (ci_start ci) as [s|]; [|discriminate]. destruct (ci_end ci) as [e|]; [|discriminate].
      destruct (ci_run ci) as [r|]; [|discriminate].
      match type of Ec with res_bind ?X _ = _ => destruct X as [rows|e0] eqn:Er end; cbn [res_bind] in Ec; [|discriminate].
      destruct (Z.of_nat (length rows) =? ci_n ci) eqn:En; cbn [negb] in Ec; [|discriminate].
      apply mk_chunk_inv in Ec. subst c. cbn [crows]. lia.
  Qed.

  (* ... and a file whose row count differs from a non-zero recorded count is reported as DataCorrupted *)
  Theorem loader_detects_count_mismatch files comp dt kind tgt ci s e r f b rows :
    ci_start ci = Some s -> ci_end ci = Some e -> ci_run ci = Some r ->
    ci_n ci <> 0 -> ci_filename ci = Some f -> lookup f files = Some b -> decode comp b = Some rows ->
    Z.of_nat (length rows) <> ci_n ci ->
    read_chunk_ files comp dt kind tgt ci = Err E_CORRUPTED /\
    forall pre post good,
      read_chunks_ files comp dt kind tgt pre = Ok good ->
      read_chunks_ files comp dt kind tgt (pre ++ ci :: post) = Err E_CORRUPTED.
  Proof.
    intros H1 H2 H3 Hn Hf Hl Hd Hne.
    assert (Hc : read_chunk_ files comp dt kind tgt ci = Err E_CORRUPTED).
    { unfold read_chunk. rewrite H1, H2, H3, Hf, Hl, Hd.
      destruct (ci_n ci =? 0) eqn:E0; [lia|]. cbn [res_bind].
      destruct (Z.of_nat (length rows) =? ci_n ci) eqn:E1; [lia|]. reflexivity. }
    split; [exact Hc|].
    induction pre as [|p pre IH]; intros post good Hg; cbn [app read_chunks].
    - rewrite Hc. reflexivity.
    - cbn [read_chunks] in Hg.
      destruct (read_chunk_ files comp dt kind tgt p) as [c|e0]; cbn [res_bind] in *; [|discriminate].
      destruct (read_chunks_ files comp dt kind tgt pre) as [g|e0] eqn:Eg; cbn [res_bind] in Hg; [|discriminate].
      rewrite (IH post g eq_refl). reflexivity.
  Qed.
End Loader.
