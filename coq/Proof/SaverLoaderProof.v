(* Proofs for property C03 over Model/SaverLoader.v. *)
From SV Require Import Model.Chunk Model.Rechunker Model.SaverLoader Spec.SaverLoaderSpec
  Proof.RowsFacts Proof.ChunkProof.

(* ---------------------------------------------------------------------------------------- *)
(* association lists used for the files of a directory                                       *)
(* ---------------------------------------------------------------------------------------- *)

Lemma lookup_app {B} k (l1 l2 : list (Z * B)) :
  lookup k (l1 ++ l2) = match lookup k l1 with Some b => Some b | None => lookup k l2 end.
Proof.
  induction l1 as [|[k' b] l1 IH]; cbn [lookup app]; [reflexivity|].
  destruct (k' =? k); [reflexivity|exact IH].
Qed.

Lemma lookup_remove_key {B} k k' (l : list (Z * B)) :
  lookup k (remove_key k' l) = if k' =? k then None else lookup k l.
Proof.
  induction l as [|[k2 b] l IH]; cbn [lookup remove_key].
  - destruct (k' =? k); reflexivity.
  - destruct (k2 =? k') eqn:E2.
    + rewrite IH. destruct (k' =? k) eqn:E1; [reflexivity|].
      destruct (k2 =? k) eqn:E3; [lia|reflexivity].
    + cbn [lookup]. destruct (k2 =? k) eqn:E3.
      * destruct (k' =? k) eqn:E1; [lia|reflexivity].
      * exact IH.
Qed.

Lemma lookup_write_file {B} k k' (b : B) l :
  lookup k (write_file k' b l) = if k' =? k then Some b else lookup k l.
Proof.
  unfold write_file. rewrite lookup_app, lookup_remove_key. cbn [lookup].
  destruct (k' =? k); [reflexivity|]. destruct (lookup k l); reflexivity.
Qed.

(* ---------------------------------------------------------------------------------------- *)
(* streams                                                                                   *)
(* ---------------------------------------------------------------------------------------- *)

Lemma Forall2_same_data_rows cs out :
  Forall2 same_data cs out -> all_rows out = all_rows cs.
Proof.
  induction 1 as [|c d cs out (H1 & H2 & H3 & H4) HF IH]; [reflexivity|].
  unfold all_rows in *. cbn [flat_map]. rewrite H3, IH. reflexivity.
Qed.

Lemma Forall2_same_data_bounds cs out :
  Forall2 same_data cs out -> bounds out = bounds cs.
Proof.
  induction 1 as [|c d cs out (H1 & H2 & H3 & H4) HF IH]; [reflexivity|].
  unfold bounds in *. cbn [map]. rewrite H1, H2, IH. reflexivity.
Qed.

Lemma bounds_start cs out : bounds out = bounds cs -> stream_start out = stream_start cs.
Proof.
  destruct cs as [|c cs], out as [|d out]; cbn; try discriminate; [reflexivity|].
  intros H. inversion H. reflexivity.
Qed.

Lemma bounds_map_cend cs out : bounds out = bounds cs -> map cend out = map cend cs.
Proof.
  revert out; induction cs as [|c cs IH]; intros [|d out]; cbn; try discriminate; [reflexivity|].
  intros H. inversion H. f_equal. apply IH. assumption.
Qed.

Lemma last_map_cend cs c d0 : cend (last cs c) = last (map cend cs) d0 \/ cs = [].
Proof.
  induction cs as [|x cs IH]; [right; reflexivity|left].
  destruct cs as [|y cs]; [reflexivity|].
  destruct IH as [IH|IH]; [|discriminate].
  change (last (x :: y :: cs) c) with (last (y :: cs) c).
  change (map cend (x :: y :: cs)) with (cend x :: map cend (y :: cs)).
  change (last (cend x :: map cend (y :: cs)) d0) with (last (map cend (y :: cs)) d0).
  exact IH.
Qed.

Lemma bounds_end cs out : bounds out = bounds cs -> stream_end out = stream_end cs.
Proof.
  intros H. pose proof (bounds_map_cend _ _ H) as Hm.
  destruct cs as [|c cs], out as [|d out]; cbn in H; try discriminate; [reflexivity|].
  unfold stream_end. f_equal.
  destruct (last_map_cend (d :: out) d 0) as [E1|E1]; [|discriminate].
  destruct (last_map_cend (c :: cs) c 0) as [E2|E2]; [|discriminate].
  rewrite E1, E2, Hm. reflexivity.
Qed.

Lemma bounds_cut_points cs out : bounds out = bounds cs -> cut_points out = cut_points cs.
Proof.
  intros H. pose proof (bounds_map_cend _ _ H) as Hm.
  destruct cs as [|c cs], out as [|d out]; cbn in H; try discriminate; [reflexivity|].
  unfold cut_points. rewrite Hm. inversion H. reflexivity.
Qed.

Lemma bounds_contiguous cs out : bounds out = bounds cs -> contiguous cs -> contiguous out.
Proof.
  revert out; induction cs as [|c cs IH]; intros [|d out] H; cbn in H; try discriminate; [auto|].
  inversion H as [[H1 H2 H3]]. cbn [contiguous]. intros [Hc Hr]. split; [|apply IH; assumption].
  destruct cs as [|c2 cs], out as [|d2 out]; cbn in H3; try discriminate; [exact I|].
  inversion H3. congruence.
Qed.
