(* part of the all-schedule theorems for concrete networks, see Proof/MailboxFailInstances.v *)
From SV Require Import Base.Prelude Model.Mailbox Model.MailboxFail Model.C06Run Model.C06Nets
  Spec.MailboxFailSpec Proof.MailboxFailReach Proof.MailboxFailInstances.
Local Open Scope nat_scope.

(* ---------- fan-out D: x (target) first, y saved, 1 chunk, max_messages 1, eager and lazy ---------- *)
Definition fanD (lz : bool) : fan_spec := mkFan 1 1 lz false 0 1 false.
(* threads: 0 source, 1 multi-output plugin, 2 divide_outputs, 3 saver of y, 4 the caller *)
Definition chkD (lz : bool) (ft fp : nat) : bool :=
  check_netM (fan_net (fanD lz) true (Some (ft, fp, boom)) None) (fan_init (fanD lz) true (Some (ft, fp, boom)) None)
             (fan_main (fanD lz)) 1 (OErr (EOrig boom)) FUEL.
Lemma fanD_positions :
  forallb (fun lz => forallb (fun ft => forallb (fun fp => chkD lz ft fp) [0; 1]) [0; 1; 3]) [false; true] = true.
Proof. vm_cast_no_check (eq_refl true). Qed.
Theorem fanD_failure_reaches_caller lz ft fp :
  (ft = 0 \/ ft = 1 \/ ft = 3) -> fp <= 1 ->
  failure_reaches_caller (fan_net (fanD lz) true (Some (ft, fp, boom)) None)
                         (fan_init (fanD lz) true (Some (ft, fp, boom)) None) (fan_main (fanD lz)) 1 boom.
Proof.
  intros Ha Hb. apply check_netM_sound with (fuel := FUEL).
  pose proof fanD_positions as H. rewrite forallb_forall in H.
  assert (Hl : In lz [false; true]) by (destruct lz; cbn; auto).
  specialize (H lz Hl). rewrite forallb_forall in H.
  assert (Hf : In ft [0; 1; 3]) by (destruct Ha as [-> | [-> | ->]]; cbn; auto).
  specialize (H ft Hf). rewrite forallb_forall in H.
  assert (Hp : In fp [0; 1]) by (destruct fp as [|[|fp]]; cbn; auto; lia).
  exact (H fp Hp).
Qed.

(* ---------- fan-out E: the side output y first in `provides` (the configuration of defect F3) ---------- *)
Definition fanE (lz : bool) : fan_spec := mkFan 1 2 lz true 0 1 false.
Definition chkE (lz : bool) (ft fp : nat) : bool :=
  check_netM (fan_net (fanE lz) true (Some (ft, fp, boom)) None) (fan_init (fanE lz) true (Some (ft, fp, boom)) None)
             (fan_main (fanE lz)) 1 (OErr (EOrig boom)) FUEL.
Lemma fanE_positions :
  forallb (fun lz => forallb (fun ft => forallb (fun fp => chkE lz ft fp) [0; 1]) [0; 1; 3]) [false; true] = true.
Proof. vm_cast_no_check (eq_refl true). Qed.
Theorem fanE_failure_reaches_caller lz ft fp :
  (ft = 0 \/ ft = 1 \/ ft = 3) -> fp <= 1 ->
  failure_reaches_caller (fan_net (fanE lz) true (Some (ft, fp, boom)) None)
                         (fan_init (fanE lz) true (Some (ft, fp, boom)) None) (fan_main (fanE lz)) 1 boom.
Proof.
  intros Ha Hb. apply check_netM_sound with (fuel := FUEL).
  pose proof fanE_positions as H. rewrite forallb_forall in H.
  assert (Hl : In lz [false; true]) by (destruct lz; cbn; auto).
  specialize (H lz Hl). rewrite forallb_forall in H.
  assert (Hf : In ft [0; 1; 3]) by (destruct Ha as [-> | [-> | ->]]; cbn; auto).
  specialize (H ft Hf). rewrite forallb_forall in H.
  assert (Hp : In fp [0; 1]) by (destruct fp as [|[|fp]]; cbn; auto; lia).
  exact (H fp Hp).
Qed.

Theorem fanD_completes lz :
  completes (fan_net (fanD lz) true None None) (fan_init (fanD lz) true None None) (fan_main (fanD lz)) 1.
Proof. apply check_complete_sound with (fuel := FUEL). destruct lz; vm_cast_no_check (eq_refl true). Qed.
