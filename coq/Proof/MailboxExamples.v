(* The hypotheses of the C05 theorems are satisfiable by concrete, non-trivial configurations, and the
   conclusions are not vacuous: explicit schedules (found by the extracted model's state-graph
   enumeration) run to completion and deliver everything.  All by vm_compute. *)
From SV Require Import Base.Prelude Model.Mailbox Proof.MailboxFacts Proof.MailboxProof Proof.MailboxInOrder.
Local Open Scope nat_scope.

Ltac none_enabled :=
  let t := fresh "t" in let i := fresh "i" in let k := fresh "k" in
  intros t; destruct t as [|i| |k]; try reflexivity;
  [repeat (destruct i as [|i]; try reflexivity) | repeat (destruct k as [|k]; try reflexivity)].

(* eager, capacity 1, two subscribers, a plain message and a future completed by a worker *)
Definition ex_cfg : config := mkConfig (Some 1) false.
Definition ex_msgs : list msg := [Plain 100; Fut 0 101].
Definition ex_sched : list tid :=
  [TS; TS; TR 0; TS; TR 0; TR 1; TS; TS; TR 0; TS; TR 1; TS; TW 0; TR 0; TR 0; TR 1; TR 1].

Example ex_nostop : forall m, In m ex_msgs -> is_stop m = false.
Proof. intros m [<-|[<-|[]]]; reflexivity. Qed.

Example ex_valid : valid ex_cfg ex_msgs 1 [true; true].
Proof.
  repeat split.
  - discriminate.
  - intros c H. inversion H. lia.
  - discriminate.
  - intros k v [H|[H|[]]]; inversion H. lia.
Qed.

Example ex_run_completes :
  exists st, run ex_cfg (init ex_cfg [true; true] (source_of ex_msgs) None 1) ex_sched = Some st /\
             all_terminal st = true /\ map r_log (rds st) = [[100; 101]; [100; 101]]%Z /\
             (forall t, enabled st t = false).
Proof.
  eexists. split; [vm_compute; reflexivity|]. split; [reflexivity|]. split; [reflexivity|].
  none_enabled.
Qed.

(* in the middle of that run a subscriber and the sender are really waiting (so the no-lost-wake-up
   invariant is about something): after 3 steps the sender waits for room *)
Example ex_sender_waits :
  exists st, run ex_cfg (init ex_cfg [true; true] (source_of ex_msgs) None 1) [TS; TS] = Some st /\
             (exists k m c, s_pc st = SSendWait k m c) /\ s_woken st = false /\ length (box st) = 1.
Proof. eexists. split; [vm_compute; reflexivity|]. split; [do 3 eexists; reflexivity|]. split; reflexivity. Qed.

(* lazy, a non-driving and a driving subscriber *)
Definition ex2_cfg : config := mkConfig None true.
Definition ex2_msgs : list msg := [Plain 100; Plain 101].
Definition ex2_sched : list tid :=
  [TS; TR 0; TR 1; TS; TS; TS; TR 0; TR 0; TR 1; TR 1; TS; TS; TS; TR 0; TR 0; TR 1; TR 1; TS; TS; TR 0; TR 1].

Example ex2_valid : valid ex2_cfg ex2_msgs 0 [false; true].
Proof.
  repeat split.
  - discriminate.
  - intros c H. discriminate.
  - intros _. right. left. reflexivity.
  - intros k v [H|[H|[]]]; inversion H.
Qed.

Example ex2_run_completes :
  exists st, run ex2_cfg (init ex2_cfg [false; true] (source_of ex2_msgs) None 0) ex2_sched = Some st /\
             all_terminal st = true /\ map r_log (rds st) = [[100; 101]; [100; 101]]%Z /\ closed st = true.
Proof. eexists. split; [vm_compute; reflexivity|]. repeat split; reflexivity. Qed.

(* with a kill the run still ends, subscribers hold a prefix *)
Example ex_kill_run :
  exists st, run ex_cfg (init ex_cfg [true; true] (source_of ex_msgs) (Some true) 1)
                 [TR 0; TS; TS; TR 0; TR 0; TS; TK; TS; TS; TR 0; TR 1; TW 0] = Some st /\
             all_terminal st = true /\ killed st = true /\ map r_log (rds st) = [[100]; []]%Z.
Proof. eexists. split; [vm_compute; reflexivity|]. repeat split; reflexivity. Qed.

(* the hypotheses are needed: lazy mode without any driving subscriber deadlocks at once *)
Example ex_no_driver_deadlocks :
  exists st, run ex2_cfg (init ex2_cfg [false] (source_of ex2_msgs) None 0) [TS; TR 0] = Some st /\
             (forall t, enabled st t = false) /\ all_terminal st = false.
Proof.
  eexists. split; [vm_compute; reflexivity|]. split; [|reflexivity].
  none_enabled.
Qed.

(* explicit numbering through the lazy fetch gate (message 1 is sent before message 0).  In the state below
   the subscriber waits for 0 and only message 1 is buffered.  The gate as it was before /repo ede7cda
   (can_fetch_pinned: "someone waits for a number <= the lowest buffered one") stays closed for ever -- the
   mailbox deadlocked; the repaired gate (can_fetch: "someone waits for a BUFFERED number") is open, message
   0 is fetched, and the run completes with the messages in number order. *)
Definition ex5_init : state := init ex2_cfg [true] [(Some 1, Plain 101); (Some 0, Plain 100)] None 0.

Example ex_lazy_out_of_order_gate :
  exists st, run ex2_cfg ex5_init [TR 0; TS; TS] = Some st /\
             s_pc st = SGate /\ map fst (box st) = [1] /\ map r_waiting (rds st) = [Some 0] /\
             can_fetch_pinned st = false /\ can_fetch st = true.
Proof. eexists. split; [vm_compute; reflexivity|]. repeat split; reflexivity. Qed.

Example ex_lazy_out_of_order_completes :
  exists st, run ex2_cfg ex5_init [TS; TR 0; TS; TS; TS; TS; TS; TR 0; TR 0; TS; TS; TR 0] = Some st /\
             all_terminal st = true /\ map r_log (rds st) = [[100; 101]]%Z /\ closed st = true.
Proof. eexists. split; [vm_compute; reflexivity|]. repeat split; reflexivity. Qed.

(* ---------- explicit numbering (Proof/MailboxNumbered.v) ---------- *)
From SV Require Import Proof.MailboxNumbered.

(* message 1 is sent before message 0; message 2 is a future *)
Definition ex3_items : list (nat * msg) := [(1, Plain 100); (0, Plain 101); (2, Fut 0 102)].

Example ex3_hyps :
  NoDup (map fst ex3_items) /\ (forall k m, In (k, m) ex3_items -> k < length ex3_items) /\
  (forall k m, In (k, m) ex3_items -> is_stop m = false).
Proof.
  split; [|split].
  - cbn. repeat constructor; cbn; intuition discriminate.
  - intros k m [H|[H|[H|[]]]]; inversion H; cbn; lia.
  - intros k m [H|[H|[H|[]]]]; inversion H; reflexivity.
Qed.

Example ex3_expected : expected ex3_items = [101; 100; 102]%Z.
Proof. reflexivity. Qed.

Example ex3_run :
  exists st, run (mkConfig (Some 2) false)
                 (init (mkConfig (Some 2) false) [true] (numbered_source ex3_items) None 1)
                 [TS; TS; TS; TR 0; TS; TS; TR 0; TW 0; TR 0] = Some st /\
             all_terminal st = true /\ map r_log (rds st) = [[101; 100; 102]]%Z.
Proof. eexists. split; [vm_compute; reflexivity|]. split; reflexivity. Qed.

(* ---------- divide_outputs (Model/MailboxDivider.v) ---------- *)
From SV Require Import Model.MailboxDivider.

Example ex4_divider_run :
  let dc := mkDC (Some 1) false [false; false] in
  exists ds, drun dc (dinit dc [[true]; [true]] [[Plain 0; Plain 1]; [Plain 100; Plain 101]] 2)
                  [DT; DT; DT; DR 0 0; DT; DT; DR 0 0; DR 0 0; DR 1 0; DT; DT; DT; DR 0 0; DR 1 0; DT; DR 1 0]
             = Some ds /\
             d_all_terminal ds = true /\
             map (fun c => map r_log (rds c)) (d_mbs ds) = [[[0; 1]]; [[100; 101]]]%Z.
Proof. cbv zeta. eexists. split; [vm_compute; reflexivity|]. split; reflexivity. Qed.
