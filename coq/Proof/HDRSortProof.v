(* Facts about the sorting helpers of Model/HDR.v: argsort is a permutation of the indices that
   orders the samples, sort_z is an ascending permutation, and runs yields exactly the maximal
   runs of consecutive integers of a strictly ascending list. *)
From Coq Require Import Sorting.Permutation Sorting.Sorted.
From SV Require Import Model.HDR Spec.HDRSpec.

(* ------------------------------------------------------------------------------------------ *)
(* generic *)
Lemma zseqn_length i k : length (zseqn i k) = k.
Proof. revert i; induction k as [|k IH]; intros i; cbn [zseqn length]; [reflexivity|]. now rewrite IH. Qed.

Lemma zseqn_nth k : forall i (a : nat), (a < k)%nat -> nth a (zseqn i k) 0 = i + Z.of_nat a.
Proof.
  induction k as [|k IH]; intros i a Ha; [lia|]. cbn [zseqn]. destruct a as [|a]; cbn [nth]; [lia|].
  rewrite IH by lia. lia.
Qed.

Lemma zseqn_In k : forall i x, In x (zseqn i k) <-> i <= x < i + Z.of_nat k.
Proof.
  induction k as [|k IH]; intros i x; cbn [zseqn In]; [lia|]. rewrite IH. lia.
Qed.

Lemma zseqn_NoDup k : forall i, NoDup (zseqn i k).
Proof.
  induction k as [|k IH]; intros i; cbn [zseqn]; constructor; [|apply IH].
  rewrite zseqn_In. lia.
Qed.

Lemma zseqn_app k1 k2 : forall i, zseqn i (k1 + k2) = zseqn i k1 ++ zseqn (i + Z.of_nat k1) k2.
Proof.
  induction k1 as [|k1 IH]; intros i; cbn [zseqn Nat.add app].
  - f_equal. lia.
  - rewrite IH. do 3 f_equal. lia.
Qed.

Lemma SS_app {X} (R : X -> X -> Prop) l1 l2 :
  StronglySorted R l1 -> StronglySorted R l2 -> (forall x y, In x l1 -> In y l2 -> R x y) ->
  StronglySorted R (l1 ++ l2).
Proof.
  induction l1 as [|a l1 IH]; intros H1 H2 H; cbn [app]; [exact H2|].
  inversion H1 as [|? ? Hs Hall]; subst. constructor.
  - apply IH; [exact Hs|exact H2|]. intros x y Hx Hy. apply H; [right; exact Hx|exact Hy].
  - apply Forall_app. split; [exact Hall|]. rewrite Forall_forall. intros y Hy. apply H; [left; reflexivity|exact Hy].
Qed.

Lemma SS_rev {X} (R : X -> X -> Prop) l :
  StronglySorted R l -> StronglySorted (fun a b => R b a) (rev l).
Proof.
  induction 1 as [|a l Hs IH Hall]; cbn [rev]; [constructor|].
  apply SS_app; [exact IH|repeat constructor|].
  intros x y Hx [<-|[]]. rewrite <- in_rev in Hx. rewrite Forall_forall in Hall. apply Hall, Hx.
Qed.

Lemma SS_map {X Y} (R : Y -> Y -> Prop) (f : X -> Y) l :
  StronglySorted (fun a b => R (f a) (f b)) l -> StronglySorted R (map f l).
Proof.
  induction 1 as [|a l Hs IH Hall]; cbn [map]; constructor; [exact IH|].
  rewrite Forall_map. exact Hall.
Qed.

Lemma SS_nth (R : Z -> Z -> Prop) l : StronglySorted R l ->
  forall a b, (a < b < length l)%nat -> R (nth a l 0) (nth b l 0).
Proof.
  induction 1 as [|x l Hs IH Hall]; intros a b Hab; cbn [length] in Hab; [lia|].
  destruct b as [|b]; [lia|]. destruct a as [|a]; cbn [nth].
  - rewrite Forall_forall in Hall. apply Hall, nth_In. lia.
  - apply IH. lia.
Qed.

(* ------------------------------------------------------------------------------------------ *)
(* argsort *)
Definition le1 (a b : Z * Z) : Prop := fst a <= fst b.

Lemma ins_vi_perm x l : Permutation (ins_vi x l) (x :: l).
Proof.
  induction l as [|y r IH]; cbn [ins_vi]; [reflexivity|].
  destruct (fst x <? fst y); [reflexivity|].
  eapply perm_trans; [apply perm_skip, IH|apply perm_swap].
Qed.

Lemma ins_vi_sorted x l : StronglySorted le1 l -> StronglySorted le1 (ins_vi x l).
Proof.
  induction 1 as [|y r Hs IH Hall]; cbn [ins_vi].
  - repeat constructor.
  - destruct (fst x <? fst y) eqn:E.
    + constructor; [constructor; assumption|]. constructor; [unfold le1; lia|].
      eapply Forall_impl; [|exact Hall]. unfold le1. intros; lia.
    + constructor; [exact IH|].
      eapply Permutation_Forall; [apply Permutation_sym, ins_vi_perm|].
      constructor; [unfold le1; lia|exact Hall].
Qed.

Lemma isort_vi_perm l : forall acc,
  Permutation (fold_left (fun acc x => ins_vi x acc) l acc) (l ++ acc).
Proof.
  induction l as [|a l IH]; intros acc; cbn [fold_left app]; [reflexivity|].
  eapply perm_trans; [apply IH|].
  eapply perm_trans; [apply Permutation_app_head, ins_vi_perm|].
  apply Permutation_sym, Permutation_middle.
Qed.

Lemma isort_vi_sorted l : forall acc, StronglySorted le1 acc ->
  StronglySorted le1 (fold_left (fun acc x => ins_vi x acc) l acc).
Proof.
  induction l as [|a l IH]; intros acc H; cbn [fold_left]; [exact H|]. apply IH, ins_vi_sorted, H.
Qed.

Lemma combine_idx_val data : forall pre,
  Forall (fun p => fst p = zget (pre ++ data) (snd p)) (combine data (zseqn (zlen pre) (length data))).
Proof.
  induction data as [|x r IH]; intros pre; cbn [combine zseqn length]; [constructor|].
  constructor.
  - cbn [fst snd]. unfold zget, zlen. rewrite Nat2Z.id. rewrite nth_middle. reflexivity.
  - specialize (IH (pre ++ [x])). rewrite <- app_assoc in IH. cbn [app] in IH.
    replace (zlen (pre ++ [x])) with (zlen pre + 1) in IH; [exact IH|].
    unfold zlen. rewrite app_length. cbn [length]. lia.
Qed.

Lemma map_snd_combine {X Y} (l1 : list X) : forall (l2 : list Y), length l1 = length l2 ->
  map snd (combine l1 l2) = l2.
Proof.
  induction l1 as [|a l1 IH]; intros [|b l2] H; cbn in *; try congruence; try lia.
  f_equal. apply IH. lia.
Qed.

Definition sorted_pairs (data : list Z) : list (Z * Z) :=
  fold_left (fun acc x => ins_vi x acc) (combine data (zseqn 0 (length data))) [].

Lemma argsort_perm data : Permutation (argsort data) (zseqn 0 (length data)).
Proof.
  unfold argsort. fold (sorted_pairs data).
  eapply perm_trans.
  - apply Permutation_map. unfold sorted_pairs.
    eapply perm_trans; [apply isort_vi_perm|]. rewrite app_nil_r. reflexivity.
  - rewrite map_snd_combine by (now rewrite zseqn_length). reflexivity.
Qed.

Lemma argsort_sorted data : StronglySorted Z.le (map (zget data) (argsort data)).
Proof.
  unfold argsort. fold (sorted_pairs data).
  assert (Hv : Forall (fun p => fst p = zget data (snd p)) (sorted_pairs data)).
  { eapply Permutation_Forall.
    - apply Permutation_sym. unfold sorted_pairs. eapply perm_trans; [apply isort_vi_perm|].
      rewrite app_nil_r. reflexivity.
    - exact (combine_idx_val data []). }
  assert (Hs : StronglySorted le1 (sorted_pairs data)) by (apply isort_vi_sorted; constructor).
  rewrite map_map. apply SS_map.
  induction Hs as [|p l Hs IH Hall]; [constructor|].
  inversion Hv as [|? ? Hp Hv']; subst. constructor; [apply IH, Hv'|].
  rewrite Forall_forall in *. intros q Hq. specialize (Hall q Hq). specialize (Hv' q Hq).
  unfold le1 in Hall. cbv beta. lia.
Qed.

(* ------------------------------------------------------------------------------------------ *)
(* sort_z *)
Lemma ins_z_perm x l : Permutation (ins_z x l) (x :: l).
Proof.
  induction l as [|y r IH]; cbn [ins_z]; [reflexivity|].
  destruct (x <? y); [reflexivity|].
  eapply perm_trans; [apply perm_skip, IH|apply perm_swap].
Qed.

Lemma ins_z_sorted x l : StronglySorted Z.le l -> StronglySorted Z.le (ins_z x l).
Proof.
  induction 1 as [|y r Hs IH Hall]; cbn [ins_z].
  - repeat constructor.
  - destruct (x <? y) eqn:E.
    + constructor; [constructor; assumption|]. constructor; [lia|].
      eapply Forall_impl; [|exact Hall]. intros; lia.
    + constructor; [exact IH|].
      eapply Permutation_Forall; [apply Permutation_sym, ins_z_perm|].
      constructor; [lia|exact Hall].
Qed.

Lemma sort_z_perm l : Permutation (sort_z l) l.
Proof.
  unfold sort_z. assert (H : forall acc, Permutation (fold_left (fun acc x => ins_z x acc) l acc) (l ++ acc)).
  { induction l as [|a l IH]; intros acc; cbn [fold_left app]; [reflexivity|].
    eapply perm_trans; [apply IH|].
    eapply perm_trans; [apply Permutation_app_head, ins_z_perm|].
    apply Permutation_sym, Permutation_middle. }
  specialize (H []). rewrite app_nil_r in H. exact H.
Qed.

Lemma sort_z_sorted l : StronglySorted Z.le (sort_z l).
Proof.
  unfold sort_z. assert (H : forall acc, StronglySorted Z.le acc ->
                            StronglySorted Z.le (fold_left (fun acc x => ins_z x acc) l acc)).
  { induction l as [|a l IH]; intros acc Ha; cbn [fold_left]; [exact Ha|]. apply IH, ins_z_sorted, Ha. }
  apply H. constructor.
Qed.

(* a sorted list without duplicates is strictly ascending *)
Lemma sorted_nodup_strict l : StronglySorted Z.le l -> NoDup l -> StronglySorted Z.lt l.
Proof.
  induction 1 as [|x l Hs IH Hall]; intros Hn; [constructor|].
  inversion Hn as [|? ? Hx Hn']; subst. constructor; [apply IH, Hn'|].
  rewrite Forall_forall in *. intros y Hy. specialize (Hall y Hy).
  assert (x <> y) by (intros ->; contradiction). lia.
Qed.

Lemma sort_z_strict l : NoDup l -> StronglySorted Z.lt (sort_z l).
Proof.
  intros Hn. apply sorted_nodup_strict; [apply sort_z_sorted|].
  eapply Permutation_NoDup; [apply Permutation_sym, sort_z_perm|exact Hn].
Qed.

(* ------------------------------------------------------------------------------------------ *)
(* runs: the maximal runs of a strictly ascending list (covered, runs_ok: Spec/HDRSpec.v) *)

Lemma runs_from_spec : forall l s e prev,
  prev < s -> s < e -> StronglySorted Z.lt l -> Forall (fun x => e <= x) l ->
  runs_ok prev (runs_from s e l) /\
  forall i, covered (runs_from s e l) i <-> (s <= i < e \/ In i l).
Proof.
  induction l as [|x r IH]; intros s e prev Hp Hse Hs Hall.
  - cbn [runs_from runs_ok]. split; [tauto|]. intros i. unfold covered. split.
    + intros (s' & e' & [Heq|[]] & Hi). injection Heq as <- <-. left; exact Hi.
    + intros [Hi|[]]. exists s, e. split; [left; reflexivity|exact Hi].
  - inversion Hs as [|? ? Hs' Hlt]; subst. inversion Hall as [|? ? Hx Hall']; subst.
    cbn [runs_from]. destruct (x - (e - 1) >? 1) eqn:E.
    + destruct (IH x (x + 1) e) as [Hok Hcov]; [lia|lia|exact Hs'| |].
      { eapply Forall_impl; [|exact Hlt]. intros; lia. }
      split; [cbn [runs_ok]; tauto|]. intros i. unfold covered in *. split.
      * intros (s' & e' & [Heq|Hin] & Hi).
        -- injection Heq as <- <-. left; exact Hi.
        -- destruct (proj1 (Hcov i)) as [H|H]; [exists s', e'; tauto| |].
           ++ right. left. lia.
           ++ right. right. exact H.
      * intros [Hi|[<-|Hi]].
        -- exists s, e. split; [left; reflexivity|exact Hi].
        -- destruct (proj2 (Hcov x)) as (s' & e' & Hin & Hi'); [left; lia|]. exists s', e'. split; [right; exact Hin|exact Hi'].
        -- destruct (proj2 (Hcov i)) as (s' & e' & Hin & Hi'); [right; exact Hi|]. exists s', e'. split; [right; exact Hin|exact Hi'].
    + assert (x = e) by lia. subst x.
      destruct (IH s (e + 1) prev) as [Hok Hcov]; [lia|lia|exact Hs'| |].
      { eapply Forall_impl; [|exact Hlt]. intros; lia. }
      split; [exact Hok|]. intros i. rewrite Hcov. cbn [In]. intuition lia.
Qed.

Lemma runs_spec l : StronglySorted Z.lt l -> Forall (fun x => 0 <= x) l ->
  runs_ok (-1) (runs l) /\ forall i, covered (runs l) i <-> In i l.
Proof.
  intros Hs Hnn. destruct l as [|x r]; cbn [runs].
  - split; [exact I|]. intros i. unfold covered. split; [intros (s & e & [] & _)|intros []].
  - inversion Hs as [|? ? Hs' Hlt]; subst. inversion Hnn as [|? ? Hx Hnn']; subst.
    destruct (runs_from_spec r x (x + 1) (-1)) as [Hok Hcov]; [lia|lia|exact Hs'| |].
    { eapply Forall_impl; [|exact Hlt]. intros; lia. }
    split; [exact Hok|]. intros i. rewrite Hcov. cbn [In]. intuition lia.
Qed.

(* the intervals of a set of distinct non-negative indices *)
Theorem runs_sort_spec top : NoDup top -> Forall (fun x => 0 <= x) top ->
  runs_ok (-1) (runs (sort_z top)) /\ forall i, covered (runs (sort_z top)) i <-> In i top.
Proof.
  intros Hn Hnn. destruct (runs_spec (sort_z top)) as [Hok Hcov].
  - apply sort_z_strict, Hn.
  - eapply Permutation_Forall; [apply Permutation_sym, sort_z_perm|exact Hnn].
  - split; [exact Hok|]. intros i. rewrite Hcov. split; apply Permutation_in;
      [apply sort_z_perm|apply Permutation_sym, sort_z_perm].
Qed.
