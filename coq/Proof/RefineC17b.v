(* The C17 theorems about overlap_indices and _touching_windows restated over the programs
   regenerated from the Python source. *)
From Coq Require Import String.
From SV Require Import Lang.MiniPy Gen.OverlapIndices Gen.TouchingWindows.
From SV Require Import Model.Intervals Spec.IntervalDefs Proof.IntervalsOverlap Proof.IntervalsTouch.
From SV Require Import Proof.RefineOverlapIndices Proof.RefineTouchingWindows.

(* ---- overlap_indices ---- *)

Theorem overlap_indices_prog_spec fuel a1 na b1 nb :
  0 <= na -> 0 <= nb ->
  run fuel overlap_indices_prog [VInt a1; VInt na; VInt b1; VInt nb] = embed_oi (Ok (oi_spec a1 na b1 nb)).
Proof. intros Ha Hb. rewrite overlap_indices_refines, overlap_indices_eq_spec by assumption. reflexivity. Qed.

Theorem overlap_indices_prog_rejects_negative fuel a1 na b1 nb :
  na < 0 \/ nb < 0 ->
  run fuel overlap_indices_prog [VInt a1; VInt na; VInt b1; VInt nb] = ORaise "ValueError".
Proof. intros H. rewrite overlap_indices_refines, overlap_indices_negative by exact H. reflexivity. Qed.

(* ---- _touching_windows ---- *)

(* containers sorted by start: row i of the result is (number of leading things ending at or before
   t0_i - w, number of leading things starting before t1_i + w); things and container ends may be
   in any order *)
Theorem touching_windows_prog_closed fuel things cs w :
  sorted cs -> (length things < fuel)%nat ->
  run fuel touching_windows_prog
      [VInts (map rt things); VInts (map re things); VInts (map rt cs); VInts (map re cs); VInt w;
       VStr mergesort_name]
  = OReturn (VMat (mat_of (map (fun c => (Lidx w things c, Ridx w things (re c))) cs))).
Proof.
  intros Hs Hf. rewrite touching_windows_refines by exact Hf.
  rewrite touching_windows_core_closed by exact Hs. reflexivity.
Qed.

