(* The rechunker never fails on a valid contiguous stream, preserves rows and range, and cuts only
   where no row is straddled (property C07; also used by C03 / C16). *)
From SV Require Import Model.Rows Model.SplitArray Model.Chunk Model.Rechunker
     Proof.RowsFacts Proof.SplitArrayProof Proof.ChunkProof.

(* ---------- constants read from the source ---------- *)
Lemma argmin_init_ok : GET_SPLITS_ARGMIN_INIT = -1.
Proof. reflexivity. Qed.
Lemma split_offset_ok : 0 < split_offset <= DEFAULT_CHUNK_SPLIT_NS.
Proof. vm_compute. split; [reflexivity|discriminate]. Qed.

(* ---------- strictly increasing lists of nat ---------- *)
Fixpoint sincr (l : list nat) : Prop :=
  match l with
  | a :: ((b :: _) as r) => (a < b)%nat /\ sincr r
  | _ => True
  end.

Lemma sincr_cons_inv a l : sincr (a :: l) -> sincr l.
Proof. destruct l; cbn; tauto. Qed.

Lemma sincr_lt_all a l : sincr (a :: l) -> Forall (fun b => (a < b)%nat) l.
Proof.
  revert a; induction l as [|b l IH]; intros a H; [constructor|].
  cbn in H. destruct H as [Hab Hs]. constructor; [auto|].
  specialize (IH b Hs). eapply Forall_impl; [|exact IH]. cbn; intros; lia.
Qed.

Lemma sincr_snoc l g : sincr l -> (forall x, In x l -> (x < g)%nat) -> sincr (l ++ [g]).
Proof.
  induction l as [|a l IH]; intros Hs Hlt; [cbn; auto|].
  destruct l as [|b l].
  - cbn. split; [apply Hlt; left; auto|auto].
  - cbn in Hs. destruct Hs as [Hab Hs]. cbn [app]. split; [auto|].
    apply IH; [exact Hs|]. intros x Hx. apply Hlt. right. exact Hx.
Qed.

Lemma sincr_nth_lt l i j d : sincr l -> (i < j)%nat -> (j < length l)%nat -> (nth i l d < nth j l d)%nat.
Proof.
  revert i j; induction l as [|a l IH]; intros i j Hs Hij Hj; [cbn in Hj; lia|].
  destruct j as [|j]; [lia|]. cbn [nth length] in *.
  destruct i as [|i].
  - pose proof (sincr_lt_all a l Hs) as HF. rewrite Forall_forall in HF. apply HF. apply nth_In. lia.
  - apply IH; [eapply sincr_cons_inv; eauto|lia|lia].
Qed.

(* ---------- gap indices ---------- *)
Lemma gap_indices_from_props i ds mg :
  sincr (gap_indices_from i ds mg) /\ Forall (fun g => (i <= g < i + length ds)%nat) (gap_indices_from i ds mg).
Proof.
  revert i; induction ds as [|d ds IH]; intros i; cbn [gap_indices_from length]; [split; [cbn; auto|constructor]|].
  destruct (IH (S i)) as [Hs HF].
  destruct (d >? mg).
  - split.
    + destruct (gap_indices_from (S i) ds mg) as [|b l] eqn:E; [cbn; auto|].
      cbn. split; [|exact Hs]. inversion HF; subst. lia.
    + constructor; [lia|]. eapply Forall_impl; [|exact HF]. cbn; intros; lia.
  - split; [exact Hs|]. eapply Forall_impl; [|exact HF]. cbn; intros; lia.
Qed.

Lemma diff_from_length mx rs : length (diff_from mx rs) = length rs.
Proof. revert mx; induction rs as [|r rs IH]; intros mx; cbn; [reflexivity|]. rewrite IH. reflexivity. Qed.

Definition IsGap (mg : Z) (R : list row) (g : nat) : Prop :=
  exists A d B, R = A ++ d :: B /\ length A = g /\ A <> [] /\ rt d - Mx A > mg.

Lemma gap_indices_from_isgap mg : forall rs pre g,
  pre <> [] ->
  In g (gap_indices_from (length pre) (diff_from (Mx pre) rs) mg) ->
  IsGap mg (pre ++ rs) g.
Proof.
  induction rs as [|r rs IH]; intros pre g Hne Hin; [cbn in Hin; destruct Hin|].
  cbn [diff_from gap_indices_from] in Hin.
  assert (Hrec : In g (gap_indices_from (S (length pre)) (diff_from (Z.max (Mx pre) (re r)) rs) mg) ->
                 IsGap mg (pre ++ r :: rs) g).
  { intros H. replace (pre ++ r :: rs) with ((pre ++ [r]) ++ rs) by (rewrite <- app_assoc; reflexivity).
    apply IH.
    - destruct pre; discriminate.
    - rewrite app_length, Mx_snoc. cbn [length]. rewrite Nat.add_1_r. exact H. }
  destruct (rt r - Mx pre >? mg) eqn:E.
  - destruct Hin as [<-|Hin]; [|auto].
    exists pre, r, rs. repeat split; auto. lia.
  - auto.
Qed.

Lemma gap_indices_isgap mg R g :
  Forall (fun q => -1 <= re q) R -> In g (gap_indices R mg) -> IsGap mg R g.
Proof.
  intros Hnn Hin. unfold gap_indices, diff in Hin. destruct R as [|r0 rest]; [cbn in Hin; destruct Hin|].
  assert (HM : Mx [r0] = re r0).
  { rewrite Mx_cons, Mx_nil. inversion Hnn; subst. lia. }
  rewrite <- HM in Hin. apply (gap_indices_from_isgap mg rest [r0] g); [discriminate|exact Hin].
Qed.

Lemma gap_indices_sincr R mg : sincr (gap_indices R mg).
Proof. unfold gap_indices. apply gap_indices_from_props. Qed.

Lemma gap_indices_pos R mg : Forall (fun g => (1 <= g < length R)%nat) (gap_indices R mg).
Proof.
  unfold gap_indices. destruct (gap_indices_from_props 1 (diff R) mg) as [_ HF].
  eapply Forall_impl; [|exact HF]. cbn. intros g Hg.
  unfold diff in Hg. destruct R as [|r0 rest]; cbn [length] in *; [lia|].
  rewrite diff_from_length in Hg. lia.
Qed.

Lemma nth_error_skipn' {A} n (l : list A) k : nth_error (skipn n l) k = nth_error l (n + k).
Proof.
  revert l; induction n as [|n IH]; intros l; [reflexivity|].
  destruct l as [|x l]; [cbn; destruct k; reflexivity|]. cbn [skipn]. rewrite IH. reflexivity.
Qed.

(* ---------- argmin ---------- *)
Lemma argmin_abs_from_nth goal : forall cands pre kb gb db,
  nth_error (pre ++ cands) kb = Some gb ->
  let '(k', g') := argmin_abs_from (length pre) (kb, gb, db) cands goal in
  nth_error (pre ++ cands) k' = Some g'.
Proof.
  induction cands as [|g cands IH]; intros pre kb gb db Hb; cbn [argmin_abs_from fst snd].
  - exact Hb.
  - replace (pre ++ g :: cands) with ((pre ++ [g]) ++ cands) in * by (rewrite <- app_assoc; reflexivity).
    replace (S (length pre)) with (length (pre ++ [g])) by (rewrite app_length; cbn; lia).
    destruct (Z.abs (Z.of_nat g - goal) <? db).
    + apply IH. rewrite nth_error_app1 by (rewrite app_length; cbn; lia).
      rewrite nth_error_app2 by lia. rewrite Nat.sub_diag. reflexivity.
    + apply IH. exact Hb.
Qed.

Lemma argmin_abs_nth cands goal k g :
  argmin_abs cands goal = Some (k, g) -> nth_error cands k = Some g.
Proof.
  unfold argmin_abs. destruct cands as [|g0 rest]; [discriminate|].
  intros H. inversion H as [H1]. clear H.
  pose proof (argmin_abs_from_nth goal rest [g0] 0%nat g0 (Z.abs (Z.of_nat g0 - goal)) eq_refl) as HN.
  cbn [length app] in HN. rewrite H1 in HN. exact HN.
Qed.

Lemma argmin_abs_some cands goal : cands <> [] -> exists k g, argmin_abs cands goal = Some (k, g).
Proof.
  destruct cands as [|g0 rest]; [congruence|]. intros _. unfold argmin_abs.
  destruct (argmin_abs_from 1 (0%nat, g0, Z.abs (Z.of_nat g0 - goal)) rest goal) as [k g]. eauto.
Qed.

(* ---------- get_splits ---------- *)
Definition GoodSplits (gaps l : list nat) : Prop :=
  exists gs, l = 0%nat :: gs /\ sincr (0%nat :: gs) /\ incl gs gaps.

Definition last_split_of (gaps : list nat) (used : nat) : nat :=
  match used with O => 0%nat | S u => nth u gaps 0%nat end.

Lemma gs_loop_ok gaps assumed ndata : 
  sincr gaps -> Forall (fun g => (1 <= g)%nat) gaps -> 0 < assumed -> Z.of_nat (length gaps) <= ndata ->
  forall fuel used splits_rev n ls,
    ls = last_split_of gaps used ->
    (used <= length gaps)%nat -> (length gaps - used < fuel)%nat ->
    GoodSplits gaps (rev splits_rev) -> 
    (forall x, In x splits_rev -> (x <= last_split_of gaps used)%nat) ->
    n <= Z.of_nat used ->
    exists l, gs_loop fuel gaps assumed (last gaps 0%nat) splits_rev ls
                      (Z.of_nat used - 1) n ndata = Ok l /\ GoodSplits gaps l.
Proof.
  intros Hsg Hpos Hass Hnd. induction fuel as [|fuel IH]; intros used splits_rev n ls -> Hu Hf HG Hle Hn; [lia|].
  cbn [gs_loop].
  destruct (Z.of_nat (last_split_of gaps used) + assumed <? Z.of_nat (last gaps 0%nat)) eqn:Ec.
  2:{ eexists; split; [reflexivity|exact HG]. }
  destruct (n >? ndata) eqn:En; [lia|].
  replace (Z.to_nat (Z.of_nat used - 1 + 1)) with used by lia.
  (* used < length gaps *)
  assert (Hlt : (used < length gaps)%nat).
  { destruct (Nat.eq_dec used (length gaps)) as [->|]; [|lia]. exfalso.
    destruct gaps as [|g0 gr] eqn:Eg; [cbn in Ec; lia|].
    rewrite <- Eg in *. unfold last_split_of in Ec.
    assert (length gaps = S (length gr)) by (rewrite Eg; reflexivity).
    rewrite H in Ec. replace (last gaps 0%nat) with (nth (length gr) gaps 0%nat) in Ec.
    - lia.
    - rewrite Eg. clear. revert g0; induction gr as [|a gr IH]; intros g0; [reflexivity|].
      cbn [length nth last]. specialize (IH a). cbn [nth] in IH. rewrite IH. reflexivity. }
  assert (Hcne : skipn used gaps <> []).
  { intros Hc. apply (f_equal (@length nat)) in Hc. rewrite skipn_length in Hc. cbn in Hc. lia. }
  destruct (argmin_abs_some (skipn used gaps) (assumed + Z.of_nat (last_split_of gaps used)) Hcne) as (k & g & Ea).
  rewrite Ea. pose proof (argmin_abs_nth _ _ _ _ Ea) as Hnth.
  assert (Hk : (used + k < length gaps)%nat).
  { assert (nth_error (skipn used gaps) k <> None) by congruence.
    apply nth_error_Some in H. rewrite skipn_length in H. lia. }
  assert (Hg : g = nth (used + k) gaps 0%nat).
  { rewrite nth_error_skipn' in Hnth. symmetry. apply nth_error_nth. exact Hnth. }
  assert (Hgl : (last_split_of gaps used < g)%nat).
  { unfold last_split_of. destruct used as [|u].
    - rewrite Forall_forall in Hpos. assert (In g gaps) by (rewrite Hg; apply nth_In; lia).
      specialize (Hpos g H). lia.
    - rewrite Hg. apply sincr_nth_lt; auto; lia. }
  replace (Z.of_nat used - 1 + Z.of_nat k + 1) with (Z.of_nat (used + k + 1) - 1) by lia.
  apply IH; try lia.
  - unfold last_split_of; replace (used + k + 1)%nat with (S (used + k)) by lia. exact Hg.
  - cbn [rev]. destruct HG as (gs & Hrev & Hsi & Hinc). rewrite Hrev.
    exists (gs ++ [g]). split; [reflexivity|]. split.
    + change (0%nat :: gs ++ [g]) with ((0%nat :: gs) ++ [g]). apply sincr_snoc; [exact Hsi|].
      intros x Hx. rewrite <- Hrev in Hx. apply in_rev in Hx. specialize (Hle x Hx). lia.
    + intros x Hx. apply in_app_or in Hx as [Hx|[<-|[]]]; [apply Hinc; exact Hx|].
      rewrite Hg. apply nth_In. lia.
  - intros x [<-|Hx].
    + unfold last_split_of. replace (used + k + 1)%nat with (S (used + k)) by lia. lia.
    + specialize (Hle x Hx).
      unfold last_split_of at 1. replace (used + k + 1)%nat with (S (used + k)) by lia. lia.
Qed.

Lemma get_splits_ok R assumed mg :
  0 < assumed ->
  exists l, get_splits R assumed mg = Ok l /\ GoodSplits (gap_indices R mg) l.
Proof.
  intros Hass. unfold get_splits. destruct (assumed <=? 0) eqn:E; [lia|].
  destruct (gap_indices R mg) as [|g0 gr] eqn:Eg.
  - exists [0%nat]. split; [reflexivity|]. exists []. repeat split; cbn; auto. intros x [].
  - rewrite <- Eg. rewrite argmin_init_ok.
    pose proof (gap_indices_sincr R mg) as Hs. pose proof (gap_indices_pos R mg) as Hp.
    assert (Hlen : (length (gap_indices R mg) <= length R)%nat).
    { (* strictly increasing values in [1, length R) *)
      clear - Hs Hp. 
      assert (H : forall l lo, sincr l -> Forall (fun g => (lo <= g < length R)%nat) l -> (length l + lo <= length R)%nat \/ l = []).
      { induction l as [|a l IH]; intros lo Hs' HF; [right; auto|left].
        inversion HF; subst. destruct (IH (S a)) as [H|H]; [| |idtac|subst l].
        - eapply sincr_cons_inv; eauto.
        - pose proof (sincr_lt_all a l Hs') as HL. clear - HL H2.
          induction l; constructor; inversion HL; inversion H2; subst; auto; lia.
        - cbn [length]. lia.
        - cbn [length]. lia. }
      destruct (H _ 1%nat Hs Hp) as [H1|H1]; [lia|rewrite H1; cbn; lia]. }
    change (-1) with (Z.of_nat 0 - 1).
    apply gs_loop_ok; auto; try lia.
    + eapply Forall_impl; [|exact Hp]. cbn; intros; lia.
    + exists []. repeat split; cbn; auto. intros x [].
    + intros x [<-|[]]. cbn. lia.
Qed.

(* ---------- splitting at a gap ---------- *)
Lemma app_split_unique {X} (P Q : X -> Prop) : forall l1 l2 A C,
  l1 ++ l2 = A ++ C -> Forall P l1 -> Forall Q l2 ->
  Forall (fun x => ~ Q x) A -> Forall (fun x => ~ P x) C -> l1 = A /\ l2 = C.
Proof.
  induction l1 as [|x l1 IH]; intros l2 A C Heq HP HQ HnQ HnP.
  - destruct A as [|a A]; [split; auto|]. exfalso. cbn in Heq. subst l2.
    inversion HQ; subst. inversion HnQ; subst. auto.
  - destruct A as [|a A].
    + exfalso. cbn in Heq. subst C. inversion HP; subst. inversion HnP; subst. auto.
    + cbn in Heq. inversion Heq; subst. inversion HP; subst. inversion HnQ; subst.
      destruct (IH l2 A C H1 H3 HQ H5 HnP) as [-> ->]. split; auto.
Qed.

Lemma Mx_in_le A q : In q A -> re q <= Mx A.
Proof. intros H. unfold Mx. apply zmaxl_in. apply in_map. exact H. Qed.

Definition MG : Z := DEFAULT_CHUNK_SPLIT_NS.

Lemma split_at_gap c A d B :
  wf c -> crows c = A ++ d :: B -> A <> [] -> rt d - Mx A > MG ->
  exists c1 c2, chunk_split c (rt d - split_offset) false = Ok (c1, c2) /\
    wf c1 /\ wf c2 /\ crows c1 = A /\ crows c2 = d :: B /\
    cstart c1 = cstart c /\ cend c1 = cstart c2 /\ cend c2 = cend c /\
    same_meta c c1 /\ same_meta c c2.
Proof.
  intros Hwf Hrows Hne Hgap. pose proof Hwf as (H0 & Hse & Hs & HF).
  pose proof split_offset_ok as [Ho1 Ho2]. unfold MG in Hgap.
  destruct A as [|a0 A']; [congruence|]. set (A := a0 :: A') in *.
  rewrite Hrows in Hs, HF.
  apply Forall_app in HF as [HFA HFd]. inversion HFd as [|? ? Hd HFB]; subst.
  assert (Ha0 : cstart c <= rt a0 /\ rt a0 <= re a0 /\ re a0 <= Mx A).
  { inversion HFA; subst. cbn in H2. split; [lia|split; [lia|]]. apply Mx_in_le. left; auto. }
  assert (HAlt : Forall (fun q => rt q <= re q /\ re q <= Mx A) A).
  { apply Forall_forall. intros q Hq. rewrite Forall_forall in HFA. specialize (HFA q Hq). cbn in HFA.
    split; [lia|apply Mx_in_le; auto]. }
  assert (HBge : Forall (fun q => rt d <= rt q /\ rt q <= re q) (d :: B)).
  { apply sorted_app in Hs as (_ & Hs & _). cbn in Hs. destruct Hs as [Hs _].
    constructor; [cbn in Hd; lia|]. apply Forall_forall. intros q Hq.
    rewrite Forall_forall in Hs, HFB. specialize (Hs q Hq). specialize (HFB q Hq). cbn in *. lia. }
  set (t0 := rt d - split_offset).
  assert (Ht : Z.max (Z.min t0 (cend c)) (cstart c) = t0) by (cbn in Hd; unfold t0; lia).
  pose proof (chunk_split_correct c t0 false Hwf) as HP. unfold chunk_split_post in HP. rewrite Ht in HP.
  destruct (chunk_split c t0 false) as [[c1 c2]|e].
  - destruct HP as (W1 & W2 & A1 & A2 & A3 & A4 & M1 & M2 & _ & Hex & _).
    specialize (Hex eq_refl).
    assert (Hu : crows c1 = A /\ crows c2 = d :: B).
    { apply (app_split_unique (fun q => re q <= t0) (fun q => t0 <= rt q)).
      - rewrite A4. exact Hrows.
      - destruct W1 as (_ & _ & _ & W1). eapply Forall_impl; [|exact W1]. cbn. intros; lia.
      - destruct W2 as (_ & _ & _ & W2). eapply Forall_impl; [|exact W2]. cbn. intros; lia.
      - eapply Forall_impl; [|exact HAlt]. cbn. unfold t0. intros; lia.
      - eapply Forall_impl; [|exact HBge]. cbn. unfold t0. intros; lia. }
    destruct Hu as [Hu1 Hu2]. exists c1, c2.
    split; [reflexivity|]. split; [exact W1|]. split; [exact W2|]. split; [exact Hu1|]. split; [exact Hu2|].
    split; [exact A1|]. split; [exact A2|]. split; [exact A3|]. split; [exact M1|exact M2].
  - exfalso. destruct HP as (_ & _ & q & Hq & Hq1 & Hq2). rewrite Hrows in Hq.
    apply in_app_or in Hq as [Hq|Hq].
    + rewrite Forall_forall in HAlt. specialize (HAlt q Hq). unfold t0 in *. lia.
    + rewrite Forall_forall in HBge. specialize (HBge q Hq). unfold t0 in *. lia.
Qed.

(* ---------- the for loop of receive ---------- *)
Inductive GapsRel : list row -> list nat -> Prop :=
| gr_nil rows : GapsRel rows []
| gr_cons rows i rest A d B :
    rows = A ++ d :: B -> length A = i -> A <> [] -> rt d - Mx A > MG ->
    GapsRel (d :: B) rest -> GapsRel rows (i :: rest).

Fixpoint chain (s : Z) (cs : list chunk) (e : Z) : Prop :=
  match cs with [] => s = e | c :: r => cstart c = s /\ chain (cend c) r e end.

Lemma chain_app s l1 l2 e : chain s (l1 ++ l2) e <-> exists m, chain s l1 m /\ chain m l2 e.
Proof.
  revert s; induction l1 as [|c l1 IH]; intros s; cbn [app chain].
  - split; [intros H; exists s; auto|intros (m & -> & H); auto].
  - rewrite IH. split; [intros (H1 & m & H2 & H3); exists m; auto|intros (m & (H1 & H2) & H3); split; eauto].
Qed.

Definition compat (c d : chunk) : Prop := cdtype d = cdtype c /\ crun d = crun c /\ ctarget d = ctarget c.

Lemma split_off_correct : forall rel c,
  wf c -> GapsRel (crows c) rel ->
  exists out c', split_off c rel = Ok (out, c') /\
    Forall wf out /\ wf c' /\ flat_map crows out ++ crows c' = crows c /\
    chain (cstart c) (out ++ [c']) (cend c) /\ Forall (compat c) (out ++ [c']).
Proof.
  induction rel as [|i rest IH]; intros c Hwf HG.
  - exists [], c. cbn [split_off flat_map app chain]. split; [reflexivity|]. split; [constructor|].
    split; [exact Hwf|]. split; [reflexivity|]. split; [split; reflexivity|].
    constructor; [unfold compat; auto|constructor].
  - inversion HG as [|? ? ? A d B Hrows HA Hne Hgap HG']; subst.
    destruct (split_at_gap c A d B Hwf Hrows Hne Hgap) as (c1 & c2 & Es & W1 & W2 & R1 & R2 & S1 & S2 & S3 & M1 & M2).
    rewrite <- R2 in HG'. destruct (IH c2 W2 HG') as (out & c' & Eo & Wo & Wc & Ro & Co & Mo).
    exists (c1 :: out), c'. cbn [split_off].
    assert (Hn : nth_error (crows c) (length A) = Some d).
    { rewrite Hrows, nth_error_app2 by lia. rewrite Nat.sub_diag. reflexivity. }
    rewrite Hn, Es. cbn [res_bind]. rewrite Eo. cbn [res_bind].
    split; [reflexivity|]. split; [constructor; auto|]. split; [auto|].
    split; [cbn [flat_map]; rewrite <- app_assoc, Ro, R1, R2; auto|].
    split.
    + cbn [app chain]. split; [auto|]. rewrite S2, <- S3. exact Co.
    + cbn [app]. constructor.
      * destruct M1 as (? & ? & ? & ?). unfold compat; auto.
      * eapply Forall_impl; [|exact Mo]. intros x (X1 & X2 & X3).
        destruct M2 as (? & ? & ? & ?). unfold compat. repeat split; congruence.
Qed.

(* ---------- from split indices to relative gaps ---------- *)
Lemma Mx_skipn_le n A : Mx (skipn n A) <= Mx A.
Proof. rewrite <- (firstn_skipn n A) at 2. rewrite Mx_app. lia. Qed.

Lemma good_splits_rel R : forall gs base,
  sincr (base :: gs) -> (forall g, In g gs -> IsGap MG R g) ->
  GapsRel (skipn base R) (nat_diffs (base :: gs)).
Proof.
  induction gs as [|g gs IH]; intros base Hs Hg; [constructor|].
  cbn [nat_diffs]. destruct (Hg g (or_introl eq_refl)) as (A & d & B & HR & HA & Hne & Hgap).
  cbn in Hs. destruct Hs as [Hlt Hs].
  apply (gr_cons _ _ _ (skipn base A) d B).
  - rewrite HR, skipn_app. replace (base - length A)%nat with 0%nat by lia. reflexivity.
  - rewrite skipn_length. lia.
  - intros Hc. apply (f_equal (@length row)) in Hc. rewrite skipn_length in Hc. cbn in Hc. lia.
  - pose proof (Mx_skipn_le base A). lia.
  - replace (d :: B) with (skipn g R) by (rewrite HR, <- HA; apply skipn_len_app).
    apply IH; [exact Hs|]. intros g' Hg'. apply Hg. right. exact Hg'.
Qed.

(* ---------- receive on an already concatenated chunk ---------- *)
Lemma receive_core c1 :
  wf c1 -> 0 < ctarget c1 ->
  exists splits out c',
    get_splits (crows c1) (ctarget c1) DEFAULT_CHUNK_SPLIT_NS = Ok splits /\
    split_off c1 (nat_diffs splits) = Ok (out, c') /\
    Forall wf out /\ wf c' /\ flat_map crows out ++ crows c' = crows c1 /\
    chain (cstart c1) (out ++ [c']) (cend c1) /\ Forall (compat c1) (out ++ [c']).
Proof.
  intros Hwf Ht. destruct (get_splits_ok (crows c1) (ctarget c1) DEFAULT_CHUNK_SPLIT_NS Ht) as (l & El & gs & -> & Hs & Hinc).
  assert (HG : GapsRel (crows c1) (nat_diffs (0%nat :: gs))).
  { change (crows c1) with (skipn 0 (crows c1)). apply good_splits_rel; [exact Hs|].
    intros g Hg. apply gap_indices_isgap; [|apply Hinc; exact Hg].
    destruct Hwf as (H0 & _ & _ & HF). eapply Forall_impl; [|exact HF]. cbn. intros; lia. }
  destruct (split_off_correct _ c1 Hwf HG) as (out & c' & Eo & R).
  exists (0%nat :: gs), out, c'. split; [exact El|]. split; [exact Eo|exact R].
Qed.

(* ---------- whole streams ---------- *)
Lemma rechunk_from_some : forall cs c0 E,
  wf c0 -> 0 < ctarget c0 -> Forall wf cs -> Forall (fun c => 0 < ctarget c) cs ->
  Forall (fun c => cdtype c = cdtype c0 /\ crun c = crun c0) cs -> chain (cend c0) cs E ->
  exists out, rechunk_from (Some c0) cs = Ok out /\ Forall wf out /\
    flat_map crows out = crows c0 ++ flat_map crows cs /\ chain (cstart c0) out E /\ out <> [] /\
    Forall (fun c => cdtype c = cdtype c0 /\ crun c = crun c0) out.
Proof.
  induction cs as [|c rest IH]; intros c0 E W0 T0 Wcs Tcs Mcs Hch.
  - cbn in Hch. subst E. exists [c0]. cbn. rewrite app_nil_r. repeat split; auto; try discriminate.
  - inversion Wcs as [|? ? Wc Wrest]; subst. inversion Tcs as [|? ? Tc Trest]; subst.
    inversion Mcs as [|? ? [Mc1 Mc2] Mrest]; subst. cbn in Hch. destruct Hch as [Hst Hch].
    destruct (concatenate_two_correct c0 c false W0 Wc Mc1 Mc2) as (c1 & Ec & W1 & S1 & E1 & R1 & D1 & _ & U1 & G1); [lia|].
    assert (T1 : 0 < ctarget c1) by lia.
    destruct (receive_core c1 W1 T1) as (splits & out & c' & Es & Eo & Wo & Wc' & Ro & Co & Mo).
    apply chain_app in Co as (m & Co1 & Co2). cbn in Co2. destruct Co2 as [Hm Hce]. subst m.
    apply Forall_app in Mo as [Mo1 Mo2]. inversion Mo2 as [|? ? (Mc'1 & Mc'2 & Mc'3) _]; subst.
    destruct (IH c' E Wc') as (out2 & E2 & Wo2 & Ro2 & Co2 & Hne2 & Mo2').
    + lia.
    + exact Wrest.
    + exact Trest.
    + eapply Forall_impl; [|exact Mrest]. cbn. intros x [X1 X2]. split; congruence.
    + rewrite Hce, E1. exact Hch.
    + exists (out ++ out2). cbn [rechunk_from]. unfold receive. cbn [res_bind].
      rewrite Ec. cbn [res_bind]. rewrite Es. cbn [res_bind]. rewrite Eo. cbn [res_bind]. rewrite E2. cbn [res_bind].
      split; [reflexivity|]. split; [apply Forall_app; split; auto|].
      split; [rewrite flat_map_app, Ro2, app_assoc, Ro, R1; cbn [flat_map]; rewrite <- app_assoc; reflexivity|].
      split; [apply chain_app; exists (cstart c'); split; [rewrite <- S1; exact Co1|exact Co2]|].
      split; [destruct out; [exact Hne2|discriminate]|].
      apply Forall_app; split.
      * eapply Forall_impl; [|exact Mo1]. intros x (X1 & X2 & X3). split; congruence.
      * eapply Forall_impl; [|exact Mo2']. cbn. intros x [X1 X2]. split; congruence.
Qed.

Definition valid_stream (cs : list chunk) : Prop :=
  match cs with
  | [] => False
  | c0 :: rest =>
      Forall wf cs /\ Forall (fun c => 0 < ctarget c) cs /\
      Forall (fun c => cdtype c = cdtype c0 /\ crun c = crun c0) rest /\
      chain (cend c0) rest (last_end (cend c0) rest)
  end.

Definition stream_start (cs : list chunk) : Z := match cs with [] => 0 | c :: _ => cstart c end.
Definition stream_end (cs : list chunk) : Z := match cs with [] => 0 | c :: r => last_end (cend c) r end.

Theorem rechunk_stream_correct cs :
  valid_stream cs ->
  exists out, rechunk_stream cs = Ok out /\ out <> [] /\ Forall wf out /\
    flat_map crows out = flat_map crows cs /\
    chain (stream_start cs) out (stream_end cs).
Proof.
  destruct cs as [|c0 rest]; [intros []|]. intros (Wcs & Tcs & Mcs & Hch).
  inversion Wcs as [|? ? W0 Wrest]; subst. inversion Tcs as [|? ? T0 Trest]; subst.
  destruct (receive_core c0 W0 T0) as (splits & out & c' & Es & Eo & Wo & Wc' & Ro & Co & Mo).
  apply chain_app in Co as (m & Co1 & Co2). cbn in Co2. destruct Co2 as [Hm Hce]. subst m.
  apply Forall_app in Mo as [Mo1 Mo2]. inversion Mo2 as [|? ? (Mc'1 & Mc'2 & Mc'3) _]; subst.
  destruct (rechunk_from_some rest c' (last_end (cend c0) rest) Wc') as (out2 & E2 & Wo2 & Ro2 & Co2 & Hne2 & _).
  - lia.
  - exact Wrest.
  - exact Trest.
  - eapply Forall_impl; [|exact Mcs]. cbn. intros x [X1 X2]. split; congruence.
  - rewrite Hce. exact Hch.
  - exists (out ++ out2). unfold rechunk_stream. cbn [rechunk_from]. unfold receive. cbn [res_bind].
    rewrite Es. cbn [res_bind]. rewrite Eo. cbn [res_bind]. rewrite E2. cbn [res_bind].
    split; [reflexivity|]. split; [destruct out; [exact Hne2|discriminate]|].
    split; [apply Forall_app; split; auto|].
    split; [rewrite flat_map_app, Ro2, app_assoc, Ro; reflexivity|].
    cbn [stream_start stream_end]. apply chain_app. exists (cstart c'). split; auto.
Qed.

(* every chunk of a wf contiguous stream holds its rows entirely: no boundary straddles a row *)
Lemma chain_no_straddle : forall out s e,
  Forall wf out -> chain s out e ->
  forall pre c post, out = pre ++ c :: post -> post <> [] ->
    ~ exists q, In q (flat_map crows out) /\ straddles q (cend c).
Proof.
  intros out s e Wf Hch pre c post -> Hne (q & Hq & Hq1 & Hq2).
  apply chain_app in Hch as (m & Hc1 & Hc2). cbn in Hc2. destruct Hc2 as [Hcs Hc2].
  apply Forall_app in Wf as [Wpre Wrest]. inversion Wrest as [|? ? Wc Wpost]; subst.
  (* rows of pre and c end at or before cend c; rows of post start at or after it *)
  assert (Hleft : forall l s0 m0, Forall wf l -> chain s0 l m0 -> forall x, In x (flat_map crows l) -> re x <= m0).
  { induction l as [|d l IH]; intros s0 m0 Wl Hl x Hx; [destruct Hx|].
    inversion Wl; subst. cbn in Hl. destruct Hl as [_ Hl]. cbn in Hx. apply in_app_or in Hx as [Hx|Hx].
    - destruct H1 as (_ & _ & _ & HF). rewrite Forall_forall in HF. specialize (HF x Hx). cbn in HF.
      assert (cend d <= m0).
      { clear - Hl H2. revert d Hl. induction l as [|d' l IH]; intros d Hl; cbn in Hl; [lia|].
        destruct Hl as [Hs Hl]. inversion H2; subst. specialize (IH H3 d' Hl).
        destruct H1 as (_ & ? & _). lia. }
      lia.
    - eapply IH; eauto. }
  assert (Hright : forall l s0 m0, Forall wf l -> chain s0 l m0 -> forall x, In x (flat_map crows l) -> s0 <= rt x).
  { induction l as [|d l IH]; intros s0 m0 Wl Hl x Hx; [destruct Hx|].
    inversion Wl; subst. cbn in Hl. destruct Hl as [Hs Hl]. cbn in Hx. apply in_app_or in Hx as [Hx|Hx].
    - destruct H1 as (_ & _ & _ & HF). rewrite Forall_forall in HF. specialize (HF x Hx). cbn in HF. lia.
    - specialize (IH (cend d) m0 H2 Hl x Hx). destruct H1 as (_ & ? & _). lia. }
  rewrite flat_map_app in Hq. cbn [flat_map] in Hq.
  apply in_app_or in Hq as [Hq|Hq]; [|apply in_app_or in Hq as [Hq|Hq]].
  - pose proof (Hleft pre s (cstart c) Wpre Hc1 q Hq). destruct Wc as (_ & ? & _). lia.
  - destruct Wc as (_ & _ & _ & HF). rewrite Forall_forall in HF. specialize (HF q Hq). cbn in HF. lia.
  - pose proof (Hright post (cend c) e Wpost Hc2 q Hq). lia.
Qed.

Example valid_stream_example :
  valid_stream [mkchunk 0 10 [mkrow 1 4 0 0; mkrow 3 9 1 0] 1 1 (Some 7) 1;
                mkchunk 10 6000 [mkrow 5000 5001 2 0; mkrow 5002 5003 3 0] 1 1 (Some 7) 1].
Proof.
  cbn. repeat split; try lia; repeat constructor; cbn; try lia.
Qed.

Example rechunk_example :
  rechunk_stream [mkchunk 0 10 [mkrow 1 4 0 0; mkrow 3 9 1 0] 1 1 (Some 7) 1;
                  mkchunk 10 6000 [mkrow 5000 5001 2 0; mkrow 5002 5003 3 0] 1 1 (Some 7) 1]
  = Ok [mkchunk 0 4500 [mkrow 1 4 0 0; mkrow 3 9 1 0] 1 1 (Some 7) 1;
        mkchunk 4500 6000 [mkrow 5000 5001 2 0; mkrow 5002 5003 3 0] 1 1 (Some 7) 1].
Proof. vm_compute. reflexivity. Qed.
