(* Property C08: ExhaustPlugin.  Its iter is Plugin.iter on dependencies that have been concatenated
   completely by the initial fetch; law-abiding inputs stay law-abiding (with the same rows, ends, data
   types and kinds), so every C08 theorem applies to it. *)
From SV Require Import Model.Rows Model.SplitArray Model.Chunk Model.PluginIter
     Proof.RowsFacts Proof.SplitArrayProof Proof.ChunkProof Proof.PluginIterProof Proof.PluginIterRound
     Proof.PluginIterLoop.

Lemma concat_all_spec dt run : forall it c b,
  wf c -> cdtype c = dt -> crun c = run -> src_ok dt run it -> chain (cend c) it b ->
  exists x, concat_all c it = Ok x /\ wf x /\ cdtype x = dt /\ crun x = run /\
            cstart x = cstart c /\ cend x = b /\ crows x = crows c ++ srows it.
Proof.
  induction it as [|c1 it IH]; intros c b Hw Hdt Hrun Hsrc Hch; cbn [concat_all].
  - cbn in Hch. exists c. cbn [srows flat_map]. rewrite app_nil_r. auto 10.
  - apply Forall_cons_iff in Hsrc as [(Hw1 & Hdt1 & Hrun1) Hsrc]. cbn in Hch. destruct Hch as [Hs Hch].
    destruct (concatenate_two_correct c c1 false Hw Hw1) as (x & E & Wx & A1 & A2 & A3 & A4 & A5 & A6 & _);
      try congruence; try lia.
    rewrite E. cbn [res_bind].
    assert (Hx1 : cdtype x = dt) by congruence. assert (Hx2 : crun x = run) by congruence.
    assert (Hx3 : chain (cend x) it b) by (rewrite A2; exact Hch).
    destruct (IH x b Wx Hx1 Hx2 Hsrc Hx3) as (y & Ey & Wy & B1 & B2 & B3 & B4 & B5).
    exists y. split; [exact Ey|]. split; [exact Wy|]. split; [exact B1|]. split; [exact B2|].
    split; [congruence|]. split; [exact B4|]. rewrite B5, A3. cbn [srows flat_map]. rewrite <- app_assoc. reflexivity.
Qed.

Theorem exhaust_iter_reduces run sw a : forall deps specs,
  Forall2 (dep_ok run a) deps specs ->
  exists ds, exhaust_deps deps = Ok ds /\ Forall2 (dep_ok run a) ds specs /\
             exhaust_iter sw deps = plugin_iter sw ds /\ length ds = length deps.
Proof.
  intros deps specs HD.
  assert (H : exists ds, exhaust_deps deps = Ok ds /\ Forall2 (dep_ok run a) ds specs /\ length ds = length deps).
  { induction HD as [|[k cs] sp deps specs Hd _ IH]; cbn [exhaust_deps].
    - exists []. split; [reflexivity|]. split; [constructor|reflexivity].
    - destruct Hd as (Hne & Hsrc & Hch & HR & Hk). cbn [fst snd] in *.
      destruct cs as [|c it]; [congruence|].
      apply Forall_cons_iff in Hsrc as [(Hw & Hdt & Hrun) Hsrc]. cbn in Hch. destruct Hch as [Hs Hch].
      destruct (concat_all_spec (ddt sp) run it c (db sp) Hw Hdt Hrun Hsrc Hch) as (x & Ex & Wx & X1 & X2 & X3 & X4 & X5).
      rewrite Ex. cbn [res_bind]. destruct IH as (ds & Eds & HDs & Lds). rewrite Eds. cbn [res_bind].
      exists ((k, [x]) :: ds). split; [reflexivity|]. split; [|cbn; congruence].
      constructor; [|exact HDs]. unfold dep_ok. cbn [fst snd].
      split; [discriminate|]. split; [constructor; [auto|constructor]|]. split; [cbn; split; congruence|].
      split; [|exact Hk]. rewrite HR. cbn [srows flat_map]. rewrite X5, app_nil_r. reflexivity. }
  destruct H as (ds & E & HDs & L). exists ds. split; [exact E|]. split; [exact HDs|]. split; [|exact L].
  unfold exhaust_iter. rewrite E. reflexivity.
Qed.
