(* The exception the caller receives is an ORIGINAL one, for EVERY network and every schedule: never a
   MailboxKilled wrapper, and its identity is that of an exception raised by a failing thread / by the consumer
   (or one of the few internal errors of the plumbing itself) — in particular, with repair F2, never the
   StopIteration that escaped source.throw in divide_outputs, and with repair F1 never the TypeError of the
   GeneratorExit branch.  Invariant: every exception code in flight (reasons of killed mailboxes, exceptions held
   by program counters, got_exception of savers) is primary. *)
From SV Require Import Base.Prelude Model.Mailbox Proof.MailboxFacts Model.MailboxFail Proof.MailboxFailFacts
  Proof.MailboxFailWake Proof.MailboxFailStruct.
Local Open Scope nat_scope.

Definition prim (nt : net) (c : nat) : Prop :=
  (exists t p, n_fault nt = Some (t, p, c)) \/ (exists k b, n_cfault nt = Some (k, b, c)) \/
  c = C_OUTSIDE \/ c = C_GENEXIT \/ c = C_CLOSED \/ c = C_MISMATCH \/
  (n_f1 nt = false /\ c = C_TYPEERR) \/ (n_f2 nt = false /\ c = C_STOPITER).

Definition pc_ok (nt : net) (p : pc) : Prop :=
  match p with
  | PKillOut _ e | PKillIn e | PDead e => prim nt (exn_code e)
  | PFin (OErr e) => prim nt (exn_code e) /\ is_mk e = false
  | PKillAll _ c | PJoin _ (Some c) => prim nt c
  | _ => True
  end.
Definition th_ok (nt : net) (t : thread) : Prop :=
  pc_ok nt (t_pc t) /\ (forall c, t_got t = Some c -> prim nt c).
Definition mb_ok (nt : net) (m : mbox) : Prop :=
  mb_killed m = true \/ mb_fkilled m = true -> prim nt (mb_reason m).
Definition RC (nt : net) (st : nstate) : Prop :=
  (forall i t, nth_error (ths st) i = Some t -> th_ok nt t) /\ (forall j, mb_ok nt (get_mb st j)).

Lemma th_ok_same nt t t' : t_pc t' = t_pc t -> t_got t' = t_got t -> th_ok nt t -> th_ok nt t'.
Proof. unfold th_ok. intros -> ->. auto. Qed.
Lemma mb_ok_same nt (m m' : mbox) :
  mb_killed m' = mb_killed m -> mb_fkilled m' = mb_fkilled m -> mb_reason m' = mb_reason m -> mb_ok nt m -> mb_ok nt m'.
Proof. unfold mb_ok. intros -> -> ->. auto. Qed.
Ltac solve_mb H := first [exact H | eapply mb_ok_same; [| | |exact H]; reflexivity].
Ltac solve_th H := first [exact H | eapply th_ok_same; [| |exact H]; reflexivity].

Section Codes.
Variable nt : net.
Variable tid : nat.

Lemma fault_prim k c : fault_at nt tid k = Some c -> prim nt c.
Proof.
  unfold fault_at. destruct (n_fault nt) as [[[t p] c']|] eqn:E; [|discriminate].
  destruct ((t =? tid) && (p =? k)); [|discriminate]. intros H. inversion H; subst. left. eauto.
Qed.
Lemma cfault_prim k b c : cfault_at nt k = Some (b, c) -> prim nt c.
Proof.
  unfold cfault_at. destruct (n_cfault nt) as [[[p cl] c']|] eqn:E; [|discriminate].
  destruct (p =? k); [|discriminate]. intros H. inversion H; subst. right. left. eauto.
Qed.

Lemma p_outside : prim nt C_OUTSIDE. Proof. right. right. left. reflexivity. Qed.
Lemma p_genexit : prim nt C_GENEXIT. Proof. right. right. right. left. reflexivity. Qed.
Lemma p_closed : prim nt C_CLOSED. Proof. right. right. right. right. left. reflexivity. Qed.
Lemma p_mismatch : prim nt C_MISMATCH. Proof. right. right. right. right. right. left. reflexivity. Qed.

Lemma th_ok_set_pc t p : th_ok nt t -> pc_ok nt p -> th_ok nt (set_pc t p).
Proof. intros [_ H] Hp. split; auto. Qed.

Lemma pc_ok_first_out q p : pc_ok nt p -> pc_ok nt (first_out q p).
Proof. unfold first_out. destruct (n_outs q =? 0); cbn; auto. Qed.
Lemma pc_ok_enter_killall c : prim nt c -> pc_ok nt (enter_killall nt c).
Proof. unfold enter_killall. destruct (n_kill nt); cbn; auto. Qed.

Lemma th_ok_on_input_killed t c : th_ok nt t -> prim nt c -> th_ok nt (on_input_killed nt t c).
Proof.
  intros Ht Hc. unfold on_input_killed. destruct (t_kind t).
  - apply th_ok_set_pc; [auto | apply pc_ok_first_out; cbn; auto].
  - apply th_ok_set_pc; [|cbn; auto]. destruct Ht as [H1 H2]. split; auto.
  - apply th_ok_set_pc; [auto | cbn; auto].
  - apply th_ok_set_pc; [auto | apply pc_ok_first_out; cbn; auto].
  - apply th_ok_set_pc; [auto | apply pc_ok_enter_killall; auto].
Qed.

Lemma th_ok_stage_compute t : th_ok nt t -> th_ok nt (stage_compute nt tid t).
Proof.
  intros Ht. unfold stage_compute. destruct (fault_at nt tid (t_cnt t)) eqn:E.
  - apply th_ok_set_pc; [auto | cbn; eapply fault_prim; eauto].
  - apply th_ok_set_pc; [|cbn; auto]. destruct Ht. split; auto.
Qed.
Lemma th_ok_stage_end t : th_ok nt t -> th_ok nt (stage_end nt tid t).
Proof.
  intros Ht. unfold stage_end. destruct (fault_at nt tid (t_cnt t)) eqn:E; apply th_ok_set_pc; auto; cbn; auto.
  eapply fault_prim; eauto.
Qed.

Lemma th_ok_got_only t t' : t_got t' = t_got t -> th_ok nt t -> (forall c, t_got t' = Some c -> prim nt c).
Proof. intros E [_ H] c Hc. apply H. congruence. Qed.

Lemma th_ok_stage_fetch left : forall t, th_ok nt t -> th_ok nt (stage_fetch nt tid left t).
Proof.
  induction left as [|l IH]; intros t Ht; cbn [stage_fetch].
  - assert (H0 : th_ok nt (set_round t 0 0 (t_val t))) by (solve_th Ht).
    destruct (t_nstop t =? 0); [apply th_ok_stage_compute; auto|].
    destruct (t_nstop t =? length (t_rd t)); [apply th_ok_stage_end; auto|].
    apply th_ok_set_pc; [auto | cbn; apply p_mismatch].
  - destruct (r_buf (cur_r t)) as [|m rest].
    + destruct (r_last (cur_r t)); [|apply th_ok_set_pc; auto; cbn; auto].
      apply IH. solve_th Ht.
    + destruct m; apply IH; (solve_th Ht).
Qed.

Lemma th_ok_source_produce t n : th_ok nt t -> th_ok nt (source_produce nt tid t n).
Proof.
  intros Ht. unfold source_produce. destruct (t_cnt t <? n).
  - apply th_ok_stage_compute. solve_th Ht.
  - apply th_ok_stage_end. auto.
Qed.

Lemma th_ok_sink_data t v : th_ok nt t -> th_ok nt (fst (sink_data nt tid t v)).
Proof.
  intros Ht. unfold sink_data. destruct (t_kind t); cbn [fst]; auto.
  - destruct (if rechunk then None else fault_at nt tid (t_cnt t)) eqn:E; cbn [fst].
    + assert (Hp : prim nt n) by (destruct rechunk; [discriminate | eapply fault_prim; eauto]).
      split; [cbn; auto|]. cbn. intros c Hc. inversion Hc; subst. auto.
    + solve_th Ht.
  - apply th_ok_set_pc; [auto | apply pc_ok_first_out; cbn; auto].
  - destruct (cfault_at nt (t_cnt t)) as [[[|] c]|] eqn:E; cbn [fst].
    + destruct relay; cbn [fst]; [apply th_ok_set_pc; auto; cbn; apply p_outside|].
      destruct (n_f1 nt) eqn:Ef; cbn [fst]; apply th_ok_set_pc; auto.
      * apply pc_ok_enter_killall. apply p_genexit.
      * cbn. split; auto. right. right. right. right. right. right. left. auto.
    + apply th_ok_set_pc; [auto | cbn; eapply cfault_prim; eauto].
    + solve_th Ht.
Qed.

Lemma th_ok_sink_stop t : th_ok nt t -> th_ok nt (sink_stop nt tid t).
Proof.
  intros Ht. unfold sink_stop. destruct (t_kind t); auto.
  - destruct (fault_at nt tid (t_cnt t)) eqn:E.
    + pose proof (fault_prim _ _ E) as Hp. split; [cbn; auto|]. cbn. intros c Hc. inversion Hc; subst. auto.
    + apply th_ok_set_pc; [|cbn; auto]. solve_th Ht.
  - apply th_ok_set_pc; [auto | cbn; auto].
  - apply th_ok_set_pc; [auto | apply pc_ok_first_out; cbn; auto].
  - apply th_ok_set_pc; [auto | cbn; auto].
Qed.

Lemma th_ok_sink_loop ms : forall t, th_ok nt t -> th_ok nt (sink_loop nt tid t ms).
Proof.
  induction ms as [|m rest IH]; intros t Ht; cbn [sink_loop].
  - apply th_ok_set_pc; [|cbn; auto]. solve_th Ht.
  - set (tb := set_cur_r t (r_set_buf (cur_r t) rest)).
    assert (Hb : th_ok nt tb) by (solve_th Ht).
    assert (Hd : forall v, th_ok nt (let '(t', go) := sink_data nt tid tb v in if go then sink_loop nt tid t' rest else t')).
    { intros v. pose proof (th_ok_sink_data tb v Hb) as Hs. destruct (sink_data nt tid tb v) as [t' go]. cbn [fst] in Hs.
      destruct go; auto. }
    destruct m; [apply Hd | apply Hd | apply th_ok_sink_stop; auto].
Qed.

Lemma th_ok_consume t : th_ok nt t -> th_ok nt (consume nt tid t).
Proof.
  intros Ht. unfold consume. destruct (t_kind t); try (apply th_ok_sink_loop; auto).
  destruct (t_rd t); [apply th_ok_source_produce | apply th_ok_stage_fetch]; auto.
Qed.

Lemma th_ok_loop_start st t : th_ok nt t -> th_ok nt (loop_start nt tid st t).
Proof.
  intros Ht. unfold loop_start. destruct (t_kind t); try (apply th_ok_consume; auto).
  - destruct (mb_lazy _); [apply th_ok_set_pc; auto; cbn; auto | apply th_ok_consume; auto].
  - destruct (next_gate _ _ _); [apply th_ok_set_pc; auto; cbn; auto | apply th_ok_consume; auto].
Qed.

Lemma th_ok_send_raise t closing e : th_ok nt t -> prim nt (exn_code e) -> th_ok nt (send_raise nt t closing e).
Proof.
  intros Ht He. assert (Hd : pc_ok nt (PDead e)) by (cbn; auto).
  assert (Hko : pc_ok nt (PKillOut 0 e)) by (cbn; auto). assert (Hki : pc_ok nt (PKillIn e)) by (cbn; auto).
  unfold send_raise. destruct closing.
  - destruct (t_kind t).
    + apply th_ok_set_pc; auto.
    + apply th_ok_set_pc; auto.
    + apply th_ok_set_pc; auto.
    + destruct (n_f3 nt); apply th_ok_set_pc; auto. apply pc_ok_first_out. auto.
    + apply th_ok_set_pc; auto.
  - destruct (t_kind t); apply th_ok_set_pc; auto.
Qed.
End Codes.

(* ---------- states ---------- *)
Lemma th_ok_wk nt f j t : th_ok nt t -> th_ok nt (wk f j t).
Proof. unfold wk. destruct (f t j); auto. Qed.

Lemma RC_set_th nt st i t : RC nt st -> th_ok nt t -> RC nt (set_th st i t).
Proof.
  intros [H1 H2] Ht. split; auto. intros k u Hk. unfold set_th in Hk. cbn in Hk.
  apply nth_error_upd in Hk. destruct Hk as [[_ [-> _]] | [_ Hk]]; eauto.
Qed.
Lemma RC_wake nt f j st : RC nt st -> RC nt (wake f j st).
Proof.
  intros [H1 H2]. split; auto. intros i t Hi. rewrite nth_error_wake in Hi.
  destruct (nth_error (ths st) i) eqn:E; [|discriminate]. cbn in Hi. inversion Hi; subst. apply th_ok_wk. eauto.
Qed.
Lemma RC_maybe_wake_gate nt j st : RC nt st -> RC nt (maybe_wake_gate j st).
Proof. unfold maybe_wake_gate. destruct (_ && _); auto using RC_wake. Qed.
Lemma RC_set_mb nt st j m : RC nt st -> mb_ok nt m -> RC nt (set_mb st j m).
Proof.
  intros [H1 H2] Hm. split; auto. intros k. destruct (Nat.eq_dec j k) as [->|Hne].
  - destruct (get_mb_set_mb_cases st k m) as [[_ E] | [_ [E _]]]; rewrite E; auto.
  - rewrite get_mb_set_mb_neq by auto. auto.
Qed.
Lemma RC_kill_mb nt st j c : RC nt st -> prim nt c -> RC nt (kill_mb st j c).
Proof.
  intros HR Hc. unfold kill_mb. cbn [mb_killed set_fkilled]. destruct (mb_killed (get_mb st j)) eqn:Ek.
  - apply RC_set_mb; auto. unfold mb_ok. cbn. intros _. apply (proj2 HR j). left. auto.
  - apply RC_wake. apply RC_wake. apply RC_wake. apply RC_set_mb; auto. unfold mb_ok. cbn. auto.
Qed.

Section Step.
Variable nt : net.
Variable tid : nat.


Lemma RC_read_region resume st t : RC nt st -> th_ok nt t -> RC nt (read_region nt tid resume st t).
Proof.
  intros HR Ht. unfold read_region.
  set (j := r_mb (cur_r t)). set (m := get_mb st j).
  pose proof (proj2 HR j) as Hm. fold m in Hm.
  destruct (has_msg _ _ || mb_killed m).
  - destruct (mb_killed m) eqn:Ek.
    + apply RC_set_th; [apply RC_set_mb; [auto | solve_mb Hm]|].
      apply th_ok_on_input_killed; [auto | apply Hm; left; auto].
    + destruct (take_from _ _ _) as [[ms n'] last].
      apply RC_set_th.
      * apply RC_wake. apply RC_maybe_wake_gate. apply RC_set_mb; [auto | solve_mb Hm].
      * apply th_ok_consume. solve_th Ht.
  - destruct resume; [apply RC_set_th; [auto | solve_th Ht]|].
    apply RC_set_th.
    + apply RC_maybe_wake_gate. apply RC_set_mb; [auto | solve_mb Hm].
    + apply th_ok_set_pc; [solve_th Ht | cbn; auto].
Qed.

Lemma RC_after_send st t oi mg closing : RC nt st -> th_ok nt t -> RC nt (after_send nt tid st t oi mg closing).
Proof.
  intros HR Ht. unfold after_send. apply RC_set_th.
  - destruct closing; auto. apply RC_set_mb; [auto | pose proof (proj2 HR (out_mb t oi)) as Hmo; solve_mb Hmo].
  - destruct (S oi <? n_outs t); [apply th_ok_set_pc; auto; cbn; auto|].
    destruct closing; [apply th_ok_set_pc; auto; cbn; auto | apply th_ok_loop_start; auto].
Qed.
Lemma RC_do_push st t oi mg closing : RC nt st -> th_ok nt t -> RC nt (do_push nt tid st t oi mg closing).
Proof.
  intros HR Ht. unfold do_push. apply RC_after_send; auto. apply RC_wake. apply RC_set_mb; [auto | pose proof (proj2 HR (out_mb t oi)) as Hmo; solve_mb Hmo].
Qed.

Lemma RC_send_region resume st t oi mg closing : RC nt st -> th_ok nt t -> RC nt (send_region nt tid resume st t oi mg closing).
Proof.
  intros HR Ht. unfold send_region. set (m := get_mb st (out_mb t oi)).
  pose proof (proj2 HR (out_mb t oi)) as Hm. fold m in Hm.
  destruct resume.
  - destruct (mb_can_write m); [|apply RC_set_th; [auto | solve_th Ht]].
    destruct (mb_killed m) eqn:Ek; [|apply RC_do_push; auto].
    destruct (mb_fkilled m) eqn:Ef; [|apply RC_after_send; auto].
    apply RC_set_th; [auto | apply th_ok_send_raise; auto; cbn; apply Hm; auto].
  - destruct (mb_closed m); [apply RC_set_th; auto; apply th_ok_send_raise; auto; cbn; apply p_closed|].
    destruct (mb_fkilled m) eqn:Ef; [apply RC_set_th; auto; apply th_ok_send_raise; auto; cbn; apply Hm; auto|].
    destruct (mb_killed m); [apply RC_after_send; auto|].
    destruct (mb_can_write m); [apply RC_do_push; auto|].
    apply RC_set_th; [auto | apply th_ok_set_pc; [solve_th Ht | cbn; auto]].
Qed.

Lemma RC_gate_region resume st t oi : RC nt st -> th_ok nt t -> RC nt (gate_region nt tid resume st t oi).
Proof.
  intros HR Ht. unfold gate_region. destruct (mb_can_fetch _).
  - destruct (t_kind t); try (apply RC_set_th; [auto | apply th_ok_consume; auto]).
    destruct (next_gate _ _ _); (apply RC_set_th; [auto|]);
      [apply th_ok_set_pc; [auto | cbn; auto] | apply th_ok_consume; auto].
  - destruct resume; (apply RC_set_th; [auto|]);
      [solve_th Ht | apply th_ok_set_pc; [solve_th Ht | cbn; auto]].
Qed.

Lemma RC_thread_step st t : RC nt st -> nth_error (ths st) tid = Some t -> RC nt (thread_step nt tid st t).
Proof.
  intros HR Hi. pose proof (proj1 HR _ _ Hi) as Ht. pose proof Ht as [Hpc Hgot].
  unfold thread_step. destruct (t_pc t) eqn:Epc; auto using RC_gate_region, RC_read_region, RC_send_region.
  - (* PKillOut *) cbn in Hpc. unfold killout_region. apply RC_set_th; [apply RC_kill_mb; auto|].
    destruct (S oi <? n_outs t); [apply th_ok_set_pc; auto; cbn; auto|].
    destruct (is_mk e); apply th_ok_set_pc; auto; cbn; auto.
  - (* PKillIn *) cbn in Hpc. unfold killin_region. apply RC_set_th; [apply RC_kill_mb; auto|].
    destruct (is_mk e && n_f2 nt) eqn:E2; [apply th_ok_set_pc; auto; apply pc_ok_first_out; cbn; auto|].
    destruct (is_mk e) eqn:Emk.
    + assert (Hf2 : n_f2 nt = false) by (destruct (n_f2 nt); [discriminate | reflexivity]).
      assert (Hst : prim nt C_STOPITER) by (right; right; right; right; right; right; right; auto).
      destruct (r_buf (cur_r t)) as [|[v|k v|] rest].
      * destruct (r_last (cur_r t)); apply th_ok_set_pc; auto; [apply pc_ok_first_out|]; cbn; auto.
      * apply th_ok_set_pc; [solve_th Ht | apply pc_ok_first_out; cbn; auto].
      * apply th_ok_set_pc; [solve_th Ht | apply pc_ok_first_out; cbn; auto].
      * apply th_ok_set_pc; [solve_th Ht | apply pc_ok_first_out; cbn; auto].
    + destruct (t_kind t).
      * apply th_ok_set_pc; [auto | cbn; auto].
      * apply th_ok_set_pc; [solve_th Ht | cbn; auto].
      * apply th_ok_set_pc; [auto | cbn; auto].
      * apply th_ok_set_pc; [auto | apply pc_ok_first_out; cbn; auto].
      * apply th_ok_set_pc; [auto | apply pc_ok_enter_killall; auto].
  - (* PKillAll *) cbn in Hpc. unfold killall_region. apply RC_set_th; [apply RC_kill_mb; auto|].
    apply th_ok_set_pc; auto. destruct (S i <? length (n_kill nt)); cbn; auto.
Qed.

Lemma saver_check_prim st l c : RC nt st -> saver_check st l = Some c -> prim nt c.
Proof.
  intros HR. induction l as [|i rest IH]; cbn; [discriminate|].
  destruct (t_got (get_th st i)) eqn:E.
  - intros H. inversion H; subst. unfold get_th in E. destruct (nth_error (ths st) i) as [t|] eqn:Ei.
    + rewrite (nth_error_nth_dflt _ _ _ _ Ei) in E. apply (proj2 (proj1 HR _ _ Ei)). auto.
    + apply nth_error_None in Ei. rewrite nth_overflow in E by auto. discriminate.
  - auto.
Qed.

Lemma RC_settle st : RC nt st -> RC nt (settle nt tid st).
Proof.
  intros HR. unfold settle. destruct (t_pc (get_th st tid)) eqn:Epc; auto.
  assert (Ht : th_ok nt (get_th st tid)).
  { unfold get_th in *. destruct (nth_error (ths st) tid) as [t|] eqn:E.
    - rewrite (nth_error_nth_dflt _ _ _ _ E) in *. apply (proj1 HR _ _ E).
    - apply nth_error_None in E. rewrite nth_overflow in Epc by auto. discriminate. }
  pose proof Ht as [Hpc _]. rewrite Epc in Hpc.
  destruct (first_alive _ _ _); apply RC_set_th; auto; apply th_ok_set_pc; auto.
  unfold final_outcome. destruct exc as [c|]; [cbn; auto|].
  destruct (saver_check st (n_savers nt)) eqn:Es; cbn; auto. split; auto. eapply saver_check_prim; eauto.
Qed.
End Step.

Theorem RC_step nt st tid st' : RC nt st -> nstep nt st tid = Some st' -> RC nt st'.
Proof.
  intros HR. unfold nstep. destruct (nth_error (ths st) tid) as [t|] eqn:Et; [|discriminate].
  destruct (t_enabled nt st t); [|discriminate]. intros H. inversion H; subst.
  apply RC_settle. apply RC_thread_step; auto.
Qed.

Lemma RC_start_all nt st : RC nt st -> RC nt (start_all nt st).
Proof.
  unfold start_all. generalize (seq 0 (length (ths st))). intros l. revert st.
  induction l as [|i l IH]; intros st HR; cbn [fold_left]; auto.
  apply IH. apply RC_set_th; auto. apply th_ok_loop_start.
  unfold get_th. destruct (nth_error (ths st) i) as [t|] eqn:E.
  - rewrite (nth_error_nth_dflt _ _ _ _ E). apply (proj1 HR _ _ E).
  - apply nth_error_None in E. rewrite nth_overflow by auto. split; cbn; auto. discriminate.
Qed.

(* the caller never receives a MailboxKilled, and what it receives is primary *)
Theorem caller_gets_original nt boxes threads main sched st e :
  (forall t, In t threads -> t_pc t = PRead /\ t_got t = None) ->
  (forall m, In m boxes -> mb_killed m = false /\ mb_fkilled m = false) ->
  nrun nt (ninit nt boxes threads) sched = Some st ->
  main_outcome st main = Some (OErr e) ->
  exists c, e = EOrig c /\ prim nt c.
Proof.
  intros Ht Hm Hr Ho.
  assert (HR : RC nt st).
  { apply (nrun_invariant nt (RC nt)) with (sched := sched) (st := ninit nt boxes threads); auto.
    - intros. eapply RC_step; eauto.
    - unfold ninit. apply RC_start_all. split.
      + cbn. intros i t Hi. destruct (Ht t (nth_error_In _ _ Hi)) as [H1 H2]. split; [rewrite H1; cbn; auto|].
        intros c Hc. congruence.
      + intros j. unfold get_mb. cbn. unfold mb_ok.
        destruct (nth_in_or_default j boxes dflt_mb) as [Hin|E].
        * destruct (Hm _ Hin) as [H1 H2]. rewrite H1, H2. intros [H|H]; discriminate.
        * rewrite E. cbn. intros [H|H]; discriminate. }
  unfold main_outcome in Ho. destruct (t_pc (get_th st main)) eqn:Epc; try discriminate. inversion Ho; subst r.
  assert (Hok : pc_ok nt (t_pc (get_th st main))).
  { unfold get_th in *. destruct (nth_error (ths st) main) as [t|] eqn:E.
    - rewrite (nth_error_nth_dflt _ _ _ _ E) in *. apply (proj1 (proj1 HR _ _ E)).
    - apply nth_error_None in E. rewrite nth_overflow in Epc by auto. discriminate. }
  rewrite Epc in Hok. cbn in Hok. destruct Hok as [Hp Hmk]. destruct e as [c|c]; [|discriminate].
  exists c. auto.
Qed.
