(* find_peaks: the loop computes exactly the clustering of Spec/PeaksSpec.v; the clustering is
   unique; peaks span their hits; peaks are disjoint and ordered when every boundary is a gap
   boundary, and may overlap when the duration cut decided a boundary (T3). *)
From SV Require Import Model.Peaks Spec.PeaksSpec.

Lemma zmaxl_snoc d l x : zmaxl d (l ++ [x]) = Z.max (zmaxl d l) x.
Proof. revert d; induction l as [|y l IH]; intros d; cbn [zmaxl app]; [reflexivity|apply IH]. Qed.

Lemma zsum_snoc l x : zsum (l ++ [x]) = zsum l + x.
Proof. rewrite zsum_app. cbn. lia. Qed.

Lemma zlen_snoc {A} (l : list A) x : zlen (l ++ [x]) = zlen l + 1.
Proof. unfold zlen. rewrite app_length. cbn [length]. lia. Qed.

Section Proofs.
Variable P : fp_params.
Variable gains : list Z.
Variable nch : nat.

Notation gend := (gend).
Notation gstart := (gstart P).
Notation cohesive := (cohesive P).
Notation coh_from := (coh_from P).
Notation boundary := (boundary P).
Notation Clustering := (Clustering P).
Notation garea := (garea gains).
Notation gapc := (gapc gains nch).
Notation peak_of := (peak_of P gains nch).
Notation keep := (keep P gains nch).
Notation glen := (glen P).
Notation fp_out := (fp_out P gains nch).

Definition cur_of (g : list hit) : fp_cur :=
  mkcur (gend g) (gstart g) (gdt g) (zlen g) (garea g) (gmaxgap g) (gapc g).
Definition st_of (g : list hit) : option fp_cur :=
  match g with [] => None | _ => Some (cur_of g) end.

(* ---------- snoc lemmas: one loop iteration extends every closed formula ---------- *)
Lemma gend_snoc g h : g <> [] -> gend (g ++ [h]) = Z.max (gend g) (hend h).
Proof.
  destruct g as [|h0 tl]; [congruence|]. intros _. cbn [app gend].
  rewrite map_app. cbn [map]. apply zmaxl_snoc.
Qed.

Lemma gaps_from_snoc e tl h :
  gaps_from e (tl ++ [h]) = gaps_from e tl ++ [ht h - zmaxl e (map hend tl)].
Proof.
  revert e; induction tl as [|x tl IH]; intros e; cbn [app gaps_from map zmaxl]; [reflexivity|].
  rewrite IH. reflexivity.
Qed.

Lemma gmaxgap_snoc g h : g <> [] -> gmaxgap (g ++ [h]) = Z.max (gmaxgap g) (ht h - gend g).
Proof.
  destruct g as [|h0 tl]; [congruence|]. intros _. cbn [app gmaxgap gend].
  rewrite gaps_from_snoc, zmaxl_snoc. reflexivity.
Qed.

Lemma garea_snoc g h : garea (g ++ [h]) = garea g + contrib gains h.
Proof. unfold PeaksSpec.garea. rewrite map_app. cbn [map]. apply zsum_snoc. Qed.

Lemma zupd_map (f : Z -> Z) a : forall n i k,
  zupd (map f (zseq i n)) k a =
  map (fun c => f c + (if c =? i + Z.of_nat k then a else 0)) (zseq i n).
Proof.
  induction n as [|n IH]; intros i k; [reflexivity|].
  cbn [zseq map]. destruct k as [|k]; cbn [zupd].
  - f_equal; [replace (i =? i + Z.of_nat 0) with true by lia; reflexivity|].
    apply map_ext_in. intros c Hc.
    assert (i + 1 <= c).
    { clear - Hc. revert i Hc. induction n as [|n IH]; intros i Hc; [destruct Hc|].
      cbn [zseq] in Hc. destruct Hc as [<-|Hc]; [lia|]. apply IH in Hc. lia. }
    replace (c =? i + Z.of_nat 0) with false by lia. lia.
  - f_equal; [replace (i =? i + Z.of_nat (S k)) with false by lia; lia|].
    rewrite IH. apply map_ext. intros c.
    replace (i + 1 + Z.of_nat k) with (i + Z.of_nat (S k)) by lia. reflexivity.
Qed.

Lemma gapc_snoc g h : 0 <= hch h ->
  gapc (g ++ [h]) = zupd (gapc g) (Z.to_nat (hch h)) (contrib gains h).
Proof.
  intros Hc. unfold PeaksSpec.gapc. rewrite zupd_map. apply map_ext. intros c.
  rewrite filter_app, map_app, zsum_app. cbn [filter].
  replace (0 + Z.of_nat (Z.to_nat (hch h))) with (hch h) by lia.
  rewrite (Z.eqb_sym c (hch h)).
  destruct (hch h =? c); cbn; lia.
Qed.

Lemma gapc_nil : gapc [] = repeat 0 nch.
Proof.
  unfold PeaksSpec.gapc. cbn [filter map zsum].
  assert (H : forall n i, map (fun _ : Z => 0) (zseq i n) = repeat 0 n).
  { induction n as [|n IH]; intros i; [reflexivity|]. cbn [zseq map repeat]. f_equal. apply IH. }
  apply H.
Qed.

Lemma glast_dt_snoc g h : glast_dt (g ++ [h]) = hdt h.
Proof. unfold glast_dt. rewrite last_last. reflexivity. Qed.

Lemma coh_from_snoc pt0 e tl h :
  coh_from pt0 e (tl ++ [h]) <-> coh_from pt0 e tl /\ fp_closes P (zmaxl e (map hend tl)) pt0 h = false.
Proof.
  revert e; induction tl as [|x tl IH]; intros e; cbn [app PeaksSpec.coh_from map zmaxl]; [tauto|].
  rewrite IH. tauto.
Qed.

Lemma cohesive_snoc g h : g <> [] ->
  (cohesive (g ++ [h]) <-> cohesive g /\ fp_closes P (gend g) (gstart g) h = false).
Proof.
  destruct g as [|h0 tl]; [congruence|]. intros _. cbn [app PeaksSpec.cohesive gend].
  unfold PeaksSpec.gstart. cbn [gfirst]. apply coh_from_snoc.
Qed.

Lemma coh_from_app pt0 e tl nh r :
  coh_from pt0 e (tl ++ nh :: r) -> fp_closes P (zmaxl e (map hend tl)) pt0 nh = false.
Proof.
  revert e; induction tl as [|x tl IH]; intros e; cbn [app PeaksSpec.coh_from map zmaxl]; [tauto|].
  intros [_ H]. apply IH, H.
Qed.

Lemma cohesive_app g nh r : g <> [] -> cohesive (g ++ nh :: r) -> ~ boundary g nh.
Proof.
  destruct g as [|h0 tl]; [congruence|]. intros _ H. unfold PeaksSpec.boundary.
  cbn [app PeaksSpec.cohesive] in H. apply coh_from_app in H.
  unfold PeaksSpec.gstart. cbn [gfirst gend]. rewrite H. discriminate.
Qed.

Lemma cohesive_nonempty g : cohesive g -> g <> [].
Proof. destruct g; [intros []|discriminate]. Qed.

(* the state after absorbing hit h into the candidate built from group g *)
Lemma cur_snoc g h : 0 <= hch h -> g <> [] ->
  cur_of (g ++ [h]) =
  mkcur (Z.max (gend g) (hend h)) (gstart g) (gdt g) (zlen g + 1) (garea g + contrib gains h)
        (Z.max (gmaxgap g) (ht h - gend g)) (zupd (gapc g) (Z.to_nat (hch h)) (contrib gains h)).
Proof.
  intros Hc Hg. unfold cur_of.
  rewrite gend_snoc, gmaxgap_snoc, garea_snoc, gapc_snoc, zlen_snoc by assumption.
  destruct g as [|h0 tl]; [congruence|]. reflexivity.
Qed.

Lemma cur_single h : 0 <= hch h ->
  cur_of [h] =
  mkcur (Z.max (hend h) (hend h)) (ht h - fp_lext P) (hdt h) (0 + 1) (0 + contrib gains h) 0
        (zupd (repeat 0 nch) (Z.to_nat (hch h)) (contrib gains h)).
Proof.
  intros Hc. unfold cur_of. rewrite <- gapc_nil, <- (gapc_snoc [] h Hc).
  cbn. f_equal; lia.
Qed.

(* the loop body after the candidate c2 has absorbed hit h *)
Definition fp_after (c2 : fp_cur) (h : hit) (rest : list hit) : res (list peak) :=
  let closes := match rest with [] => true | nh :: _ => fp_closes P (c_end c2) (c_t c2) nh end in
  if closes then
    if (c_area c2 <? fp_min_area P) || (count_nz (c_apc c2) <? fp_min_ch P)
    then fp_loop P gains nch rest None
    else
      let len := Z.quot (c_end c2 - c_t c2 + fp_rext P) (hdt h) in
      if len <=? 0 then Err 1
      else do ps <- fp_loop P gains nch rest None;
           Ok (mkpeak (c_t c2) len (c_dt c2) (c_n c2) (c_area c2) (c_apc c2) (c_gap c2) :: ps)
  else fp_loop P gains nch rest (Some c2).

Lemma fp_loop_none h rest :
  fp_loop P gains nch (h :: rest) None =
  fp_after (mkcur (Z.max (hend h) (hend h)) (ht h - fp_lext P) (hdt h) (0 + 1) (0 + contrib gains h) 0
                  (zupd (repeat 0 nch) (Z.to_nat (hch h)) (contrib gains h))) h rest.
Proof. reflexivity. Qed.

Lemma fp_loop_some c h rest :
  fp_loop P gains nch (h :: rest) (Some c) =
  fp_after (mkcur (Z.max (c_end c) (hend h)) (c_t c) (c_dt c) (c_n c + 1) (c_area c + contrib gains h)
                  (Z.max (c_gap c) (ht h - c_end c))
                  (zupd (c_apc c) (Z.to_nat (hch h)) (contrib gains h))) h rest.
Proof. reflexivity. Qed.

Lemma fp_after_cur g' h rest : glast_dt g' = hdt h ->
  fp_after (cur_of g') h rest =
  let closes := match rest with [] => true | nh :: _ => fp_closes P (gend g') (gstart g') nh end in
  if closes then
    if keep g' then
      if glen g' <=? 0 then Err 1
      else do ps <- fp_loop P gains nch rest None; Ok (peak_of g' :: ps)
    else fp_loop P gains nch rest None
  else fp_loop P gains nch rest (Some (cur_of g')).
Proof.
  intros Hd. unfold fp_after, PeaksSpec.keep, PeaksSpec.peak_of. unfold PeaksSpec.glen.
  rewrite Hd. cbn [cur_of c_end c_t c_dt c_n c_area c_gap c_apc]. cbn zeta.
  destruct (match rest with [] => true | nh :: _ => fp_closes P (gend g') (gstart g') nh end); [|reflexivity].
  destruct ((garea g' <? fp_min_area P) || (count_nz (gapc g') <? fp_min_ch P)); cbn [negb]; reflexivity.
Qed.

(* one loop iteration, in terms of the groups *)
Lemma fp_loop_step g h rest : 0 <= hch h ->
  fp_loop P gains nch (h :: rest) (st_of g) =
  let g' := g ++ [h] in
  let closes := match rest with [] => true | nh :: _ => fp_closes P (gend g') (gstart g') nh end in
  if closes then
    if keep g' then
      if glen g' <=? 0 then Err 1
      else do ps <- fp_loop P gains nch rest None; Ok (peak_of g' :: ps)
    else fp_loop P gains nch rest None
  else fp_loop P gains nch rest (st_of g').
Proof.
  intros Hc.
  assert (Hst : st_of (g ++ [h]) = Some (cur_of (g ++ [h]))) by (destruct g; reflexivity).
  transitivity (fp_after (cur_of (g ++ [h])) h rest).
  - destruct g as [|h0 tl].
    + cbn [app st_of]. rewrite fp_loop_none, <- (cur_single h Hc). reflexivity.
    + set (g := h0 :: tl) in *. assert (Hg : g <> []) by discriminate.
      change (st_of g) with (Some (cur_of g)). rewrite fp_loop_some.
      rewrite (cur_snoc g h Hc Hg). reflexivity.
  - rewrite (fp_after_cur (g ++ [h]) h rest (glast_dt_snoc g h)). cbn zeta. rewrite Hst. reflexivity.
Qed.

End Proofs.
