(* sum_waveform: for every peak the loop processes, area = sum over channels = integral of the
   sum-waveform buffer; the stored (down-sampled) waveform integrates to the kept prefix of the
   buffer, hence to the area whenever the down-sampling factor divides the length; with a
   truncating factor area is lost (T5). *)
From SV Require Import Model.SumWaveform.

(* ---------- overlap_indices ---------- *)
Lemma overlap_indices_ok a1 na b1 nb a_s a_e b_s b_e :
  overlap_indices a1 na b1 nb = Ok ((a_s, a_e), (b_s, b_e)) ->
  0 <= a_s <= a_e /\ a_e <= na /\ 0 <= b_s <= b_e /\ b_e <= nb /\ a_e - a_s = b_e - b_s.
Proof.
  unfold overlap_indices.
  destruct ((na <? 0) || (nb <? 0)) eqn:E1; [discriminate|].
  destruct ((na =? 0) || (nb =? 0)) eqn:E2; [intros H; injection H as <- <- <- <-; lia|].
  destruct (a1 - b1 <=? - na) eqn:E3; [intros H; injection H as <- <- <- <-; lia|].
  destruct (Z.max 0 (a1 - b1) >=? Z.min nb (a1 - b1 + na)) eqn:E4; [intros H; injection H as <- <- <- <-; lia|].
  intros H; injection H as <- <- <- <-. lia.
Qed.

(* ---------- list sums ---------- *)
Lemma zadd_lists_sum : forall a b, (length b <= length a)%nat ->
  zsum (zadd_lists a b) = zsum a + zsum b /\ length (zadd_lists a b) = length a.
Proof.
  induction a as [|x a IH]; intros [|y b] H; cbn [zadd_lists zsum length] in *; try lia.
  destruct (IH b ltac:(lia)) as [H1 H2]. rewrite H1, H2. lia.
Qed.

Lemma zsum_firstn_skipn (l : list Z) k : zsum (firstn k l) + zsum (skipn k l) = zsum l.
Proof. rewrite <- zsum_app, firstn_skipn. reflexivity. Qed.

Lemma add_range_sum l start vals : 0 <= start -> (Z.to_nat start + length vals <= length l)%nat ->
  zsum (add_range l start vals) = zsum l + zsum vals /\ length (add_range l start vals) = length l.
Proof.
  intros Hs Hl. unfold add_range.
  destruct (zadd_lists_sum (skipn (Z.to_nat start) l) vals) as [H1 H2]; [rewrite skipn_length; lia|].
  rewrite zsum_app, app_length, H1, H2, firstn_length, skipn_length.
  pose proof (zsum_firstn_skipn l (Z.to_nat start)). lia.
Qed.

Lemma zupd_sum : forall l k a, (k < length l)%nat ->
  zsum (zupd l k a) = zsum l + a /\ length (zupd l k a) = length l.
Proof.
  induction l as [|x l IH]; intros k a H; cbn [length] in H; [lia|].
  destruct k as [|k]; cbn [zupd zsum length]; [lia|].
  destruct (IH k a ltac:(lia)) as [H1 H2]. rewrite H1, H2. lia.
Qed.

Lemma zslice_length l a b : (length (zslice l a b) <= Z.to_nat (b - a))%nat.
Proof. unfold zslice. rewrite firstn_length. lia. Qed.

(* ---------- the scan over the hits of one peak ---------- *)
Section Scan.
Variable gains : list Z.
Variable recs : list swrec.
Variable prev_i next_i : list Z.
Variable nsr dt : Z.
Variable lmax : nat.

Lemma sw_scan_conserves p_t p_len p_dt nch : 0 <= p_len ->
  forall hs buf area apc buf' area' apc',
    Forall (fun h => 0 <= sh_ch h < Z.of_nat nch) hs ->
    length buf = Z.to_nat p_len -> length apc = nch ->
    sw_scan gains recs prev_i next_i nsr dt lmax p_t p_len p_dt hs buf area apc = Ok (buf', area', apc') ->
    zsum buf' - zsum buf = area' - area /\ zsum apc' - zsum apc = area' - area /\
    length buf' = length buf /\ length apc' = nch.
Proof.
  intros Hpl. induction hs as [|h r IH]; intros buf area apc buf' area' apc' Hch Hb Ha Hrun.
  - cbn [sw_scan] in Hrun. injection Hrun as <- <- <-. lia.
  - apply Forall_cons_iff in Hch as [Hc Hch']. cbn [sw_scan] in Hrun.
    destruct (negb (p_dt =? sh_dt h)); [discriminate|].
    destruct ((p_t - sh_t h) / dt <=? - p_len); [injection Hrun as <- <- <-; lia|].
    destruct (sh_len h <=? (p_t - sh_t h) / dt); [eapply IH; eauto|].
    destruct (overlap_indices (sh_t h / dt) (sh_len h) (p_t / dt) p_len) as [[[hs_ he_] [ps_ pe_]]|e] eqn:Eov;
      cbn [res_bind] in Hrun; [|discriminate].
    destruct (overlap_indices_ok _ _ _ _ _ _ _ _ Eov) as (O1 & O2 & O3 & O4 & O5).
    destruct (build_hit_waveform h (recn recs (sh_rec h)) (repeat 0 lmax)) as [hw1|e]; cbn [res_bind] in Hrun; [|discriminate].
    match type of Hrun with context [res_bind ?X _] => destruct X as [hw2|e] end; cbn [res_bind] in Hrun; [|discriminate].
    match type of Hrun with context [res_bind ?X _] => destruct X as [hw3|e] end; cbn [res_bind] in Hrun; [|discriminate].
    set (hit_data := map (fun v => v * zget gains (sh_ch h)) (zslice hw3 hs_ he_)) in *.
    assert (Hlen : (length hit_data <= Z.to_nat (he_ - hs_))%nat).
    { unfold hit_data. rewrite map_length. apply zslice_length. }
    destruct (add_range_sum buf ps_ hit_data ltac:(lia) ltac:(lia)) as [S1 S2].
    destruct (zupd_sum apc (Z.to_nat (sh_ch h)) (zsum hit_data) ltac:(lia)) as [U1 U2].
    assert (L1 : length (add_range buf ps_ hit_data) = Z.to_nat p_len) by lia.
    assert (L2 : length (zupd apc (Z.to_nat (sh_ch h)) (zsum hit_data)) = nch) by lia.
    specialize (IH _ _ _ _ _ _ Hch' L1 L2 Hrun).
    lia.
Qed.
End Scan.

(* ---------- down-sampling keeps the integral of the kept prefix ---------- *)
Lemma qsum_app a b : (qsum (a ++ b) == qsum a + qsum b)%Q.
Proof.
  induction a as [|x a IH].
  - cbn [app]. unfold qsum at 2. cbn [fold_right]. symmetry. apply Qplus_0_l.
  - change (qsum ((x :: a) ++ b)) with (x + qsum (a ++ b))%Q.
    change (qsum (x :: a)) with (x + qsum a)%Q. rewrite IH. apply Qplus_assoc.
Qed.

Lemma firstn_add_q (n m : nat) (l : list Q) : firstn (n + m) l = firstn n l ++ firstn m (skipn n l).
Proof.
  revert l; induction n as [|n IH]; intros l; [reflexivity|].
  destruct l as [|x l]; cbn [Nat.add firstn skipn app]; [destruct m; reflexivity|]. rewrite IH. reflexivity.
Qed.

Lemma chunks_sum_prefix f : forall k l, (qsum (chunks_sum k f l) == qsum (firstn (k * f) l))%Q.
Proof.
  induction k as [|k IH]; intros l; cbn [chunks_sum Nat.mul]; [reflexivity|].
  rewrite firstn_add_q, qsum_app.
  change (qsum (qsum (firstn f l) :: chunks_sum k f (skipn f l)))
    with (qsum (firstn f l) + qsum (chunks_sum k f (skipn f l)))%Q.
  rewrite IH. reflexivity.
Qed.

Lemma qsum_inject l : (qsum (map inject_Z l) == inject_Z (zsum l))%Q.
Proof.
  induction l as [|x l IH]; [reflexivity|].
  change (qsum (map inject_Z (x :: l))) with (inject_Z x + qsum (map inject_Z l))%Q.
  cbn [zsum]. rewrite IH, inject_Z_plus. reflexivity.
Qed.

Theorem store_downsampled_integral len dt ns buf :
  0 <= len -> 0 < ns -> length buf = Z.to_nat len ->
  let r := store_downsampled len dt ns buf in
  let f := ds_factor len ns in
  (qsum (snd r) == qsum (firstn (Z.to_nat (if f >? 1 then len / f * f else len)) buf))%Q /\
  ((f <= 1 \/ (f | len)) -> (qsum (snd r) == qsum buf)%Q).
Proof.
  intros Hl Hn Hb. cbn zeta. unfold store_downsampled.
  set (f := ds_factor len ns). destruct (f >? 1) eqn:Ef; cbn [snd].
  - assert (Hpre : (qsum (chunks_sum (Z.to_nat (len / f)) (Z.to_nat f) buf)
                    == qsum (firstn (Z.to_nat (len / f * f)) buf))%Q).
    { rewrite chunks_sum_prefix. replace (Z.to_nat (len / f) * Z.to_nat f)%nat with (Z.to_nat (len / f * f)).
      - reflexivity.
      - assert (0 <= len / f) by (apply Z.div_pos; lia). rewrite Z2Nat.inj_mul by lia. reflexivity. }
    split; [exact Hpre|].
    intros [Hle|[k Hk]]; [lia|].
    rewrite Hpre. replace (len / f * f) with len.
    + rewrite <- Hb, firstn_all. reflexivity.
    + rewrite Hk, Z.div_mul by lia. reflexivity.
  - split; [reflexivity|]. intros _. rewrite <- Hb, firstn_all. reflexivity.
Qed.

(* ---------- one processed peak: the property ---------- *)
Theorem sw_peak_area gains recs prev_i next_i nsr dt lmax ns nch p hs buf area apc :
  0 <= sp_len p -> 0 < ns ->
  Forall (fun h => 0 <= sh_ch h < Z.of_nat nch) hs ->
  sw_scan gains recs prev_i next_i nsr dt lmax (sp_t p) (sp_len p) (sp_dt p) hs
          (repeat 0 (Z.to_nat (sp_len p))) 0 (repeat 0 nch) = Ok (buf, area, apc) ->
  let r := store_downsampled (sp_len p) (sp_dt p) ns (map inject_Z buf) in
  let f := ds_factor (sp_len p) ns in
  area = zsum apc /\ area = zsum buf /\
  ((f <= 1 \/ (f | sp_len p)) -> (qsum (snd r) == inject_Z area)%Q).
Proof.
  intros Hl Hn Hch Hrun. cbn zeta.
  assert (Hz : forall k, zsum (repeat 0 k) = 0) by (induction k; cbn; lia).
  destruct (sw_scan_conserves gains recs prev_i next_i nsr dt lmax (sp_t p) (sp_len p) (sp_dt p) nch Hl
              hs _ _ _ _ _ _ Hch (repeat_length _ _) (repeat_length _ _) Hrun) as (H1 & H2 & H3 & H4).
  rewrite !Hz in *. split; [lia|]. split; [lia|].
  intros Hf.
  destruct (store_downsampled_integral (sp_len p) (sp_dt p) ns (map inject_Z buf) Hl Hn) as [_ Hs].
  { rewrite map_length, H3, repeat_length. reflexivity. }
  rewrite (Hs Hf), qsum_inject. replace (zsum buf) with area by lia. reflexivity.
Qed.

(* ---------- the whole loop over the peaks ---------- *)
Definition sw_peak_ok (ns : Z) (p p' : swpeak) : Prop :=
  sp_t p' = sp_t p /\ sp_area p' = zsum (sp_apc p') /\
  ((ds_factor (sp_len p) ns <= 1 \/ (ds_factor (sp_len p) ns | sp_len p)) ->
   (qsum (sp_data p') == inject_Z (sp_area p'))%Q).

Lemma sw_first_forall dt (P : swhit -> Prop) t : forall hs, Forall P hs -> Forall P (sw_first dt t hs).
Proof.
  induction hs as [|h r IH]; intros H; cbn [sw_first]; [constructor|].
  destruct (t <? sh_t h + sh_len h * dt); [exact H|]. inversion H; subst. auto.
Qed.

Theorem sw_peaks_conserve gains recs prev_i next_i nsr dt lmax ns nch : 0 < ns ->
  forall ps hs out,
    Forall (fun p => 0 <= sp_len p) ps ->
    Forall (fun h => 0 <= sh_ch h < Z.of_nat nch) hs ->
    sw_peaks gains recs prev_i next_i nsr dt lmax ns nch ps hs = Ok out ->
    exists done rest, out = done ++ rest /\
      Forall2 (sw_peak_ok ns) (firstn (length done) ps) done /\
      (* the tail: hits exhausted - the first peak of the tail lost its area, the others are untouched *)
      (rest = [] \/ exists p pr, skipn (length done) ps = p :: pr /\
                     rest = mkswpeak (sp_t p) (sp_len p) (sp_dt p) 0 (sp_apc p) (sp_data p) :: pr).
Proof.
  intros Hn. induction ps as [|p pr IH]; intros hs out Hlen Hch Hrun.
  - cbn in Hrun. injection Hrun as <-. exists [], []. repeat split; auto. constructor.
  - inversion Hlen as [|? ? Hl Hlen']; subst. cbn [sw_peaks] in Hrun.
    pose proof (sw_first_forall dt _ (sp_t p) hs Hch) as Hch'.
    destruct (sw_first dt (sp_t p) hs) as [|h0 hs0] eqn:Ef.
    + injection Hrun as <-. exists [], (mkswpeak (sp_t p) (sp_len p) (sp_dt p) 0 (sp_apc p) (sp_data p) :: pr).
      split; [reflexivity|]. split; [constructor|]. right. exists p, pr. auto.
    + destruct (sw_scan gains recs prev_i next_i nsr dt lmax (sp_t p) (sp_len p) (sp_dt p) (h0 :: hs0)
                        (repeat 0 (Z.to_nat (sp_len p))) 0 (repeat 0 nch)) as [[[buf area] apc]|e] eqn:Es;
        cbn [res_bind] in Hrun; [|discriminate].
      pose proof (sw_peak_area gains recs prev_i next_i nsr dt lmax ns nch p (h0 :: hs0) buf area apc Hl Hn Hch' Es) as Hp.
      cbn zeta in Hp.
      destruct (store_downsampled (sp_len p) (sp_dt p) ns (map inject_Z buf)) as [[len' dt'] data] eqn:Esd.
      destruct (sw_peaks gains recs prev_i next_i nsr dt lmax ns nch pr (h0 :: hs0)) as [rest0|e] eqn:Er;
        cbn [res_bind] in Hrun; [|discriminate].
      injection Hrun as <-.
      destruct (IH (h0 :: hs0) rest0 Hlen' Hch' Er) as (done & rest & -> & Hd & Ht).
      exists (mkswpeak (sp_t p) len' dt' area apc data :: done), rest.
      split; [reflexivity|]. split; [|exact Ht].
      cbn [length firstn]. constructor; [|exact Hd].
      unfold sw_peak_ok. cbn [sp_t sp_area sp_apc sp_data snd] in *. destruct Hp as (P1 & P2 & P3). auto.
Qed.

(* ---------- non-vacuity and T5 ---------- *)
Definition t5_rec := mkswrec 0 5 1 [1; 1; 1; 1; 7; 0] 0 0.
Definition t5_hit := mkswhit 0 5 1 0 0 0 5.
Definition t5_peak := mkswpeak 0 5 1 0 [0; 0] [].
(* values in half units: area 22 = 11, stored waveform [4;4] = [2;2] *)
Theorem sum_waveform_truncation_witness :
  exists p', sum_waveform [1; 1] [t5_rec] [-1] [-1] 6 5 4 2 [t5_peak] [t5_hit] = Ok [p'] /\
             sp_area p' = 22 /\ sp_area p' = zsum (sp_apc p') /\ sp_len p' = 2 /\ sp_dt p' = 2 /\
             (qsum (sp_data p') == 8)%Q /\ ~ (qsum (sp_data p') == inject_Z (sp_area p'))%Q.
Proof.
  eexists. split; [vm_compute; reflexivity|]. cbn [sp_area sp_apc sp_len sp_dt sp_data].
  repeat split; try reflexivity. intros H. vm_compute in H. discriminate.
Qed.
Example sum_waveform_no_truncation :
  exists p', sum_waveform [2; 1] [t5_rec] [-1] [-1] 6 5 4 2 [mkswpeak 1 4 1 0 [0; 0] []] [t5_hit] = Ok [p'] /\
             sp_area p' = 40 /\ (qsum (sp_data p') == 40)%Q /\ ds_factor 4 4 <= 1.
Proof. eexists. split; [vm_compute; reflexivity|]. cbn. repeat split; try reflexivity; try (vm_compute; discriminate). Qed.
