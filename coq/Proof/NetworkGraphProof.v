(* C01 -- composition over plugin graphs: the stream at every node is a tight well-formed contiguous chunking of
   that node's whole-run rows, whatever chunkings the sources and the loaders of stored data types use. *)
From SV Require Import Model.Rows Model.SplitArray Model.Chunk Model.Rechunker Model.Network
     Proof.RowsFacts Proof.SplitArrayProof Proof.ChunkProof Proof.ConcatProof Proof.RechunkerProof Proof.NetworkProof Proof.NetworkDownProof Proof.NetworkLoopProof.

Lemma lookup_cons {A} d k (v : A) env : lookup d ((k, v) :: env) = if k =? d then Some v else lookup d env.
Proof. reflexivity. Qed.

Section Graph.
  (* the alignment of Plugin.iter for two dependencies (C08), and the class of inputs on which it promises to
     succeed (e.g. mutual straddling depth below the re-trim limit, DESIGN section 7 T4) *)
  Variable align : list Z -> stream -> stream -> res calls2.
  Variable align_pre : list row -> list row -> Prop.
  Variable rn : option Z.        (* the run id every chunk of the run carries *)
  Hypothesis align_ok : forall bs dt1 dt2 R1 R2 T s1 s2,
    chunking_of dt1 rn R1 0 T s1 -> chunking_of dt2 rn R2 0 T s2 -> align_pre R1 R2 ->
    exists calls, align bs s1 s2 = Ok calls /\ aligned R1 R2 0 T calls /\
                  ends_nt T (map (fun p => cend (fst p)) calls).

  (* the stream semantics of an overlap-window node (C09) and the class of computations / inputs on which it
     promises a chunking of f(whole input); nothing is promised about a zero-duration chunk at the end *)
  Variable ovl : ovl_t.
  Variable ovl_pre : (list row -> list row) -> Z -> Z -> list row -> Prop.
  Hypothesis ovl_ok : forall m f wt wl wr sw dt R T cs,
    o_run m = rn -> chunking_core dt rn R 0 T cs -> ovl_pre f wl wr R ->
    exists out, ovl m f wt wl wr sw cs = Ok out /\ chunking_core (o_dtype m) rn (f R) 0 T out.

  Variable T : Z.
  Variable src : Z -> list row.
  (* the data types whose stream is known to keep no zero-duration chunk back at the end of the run: needed of
     the inputs of two-dependency nodes, not delivered by overlap-window nodes *)
  Variable nt : Z -> Prop.

  (* the computation of a node may be applied call by call *)
  Definition comp_ok (c : comp) : Prop :=
    match c with
    | CSrc => True
    | CLocal h => local_comp h
    | CExhaust f => whole_comp f
    | CDown h cut => local_comp h /\ cut_ok cut
    | CPair true h _ => pair_comp equal_len h
    | CPair false h _ => pair_comp (fun _ => True) h
    | COverlap _ _ _ _ _ => True
    end.

  (* conditions on the whole-run data of the inputs of a two-dependency node / an overlap-window node *)
  Definition data_ok (whole : list (Z * list row)) (n : node) : Prop :=
    match n_comp n, n_deps n with
    | CPair sk _ _, [d1; d2] =>
        match lookup d1 whole, lookup d2 whole with
        | Some R1, Some R2 => align_pre R1 R2 /\ (sk = true -> map rt R1 = map rt R2 /\ map re R1 = map re R2)
        | _, _ => False
        end
    | COverlap f _ wl wr _, [d] =>
        match lookup d whole with Some R => ovl_pre f wl wr R | None => False end
    | _, _ => True
    end.

  Definition arity_ok (n : node) : Prop :=
    match n_comp n with
    | CSrc => n_deps n = []
    | CPair _ _ _ => exists d1 d2, n_deps n = [d1; d2]
    | _ => exists d, n_deps n = [d]
    end.

  (* how `nt` propagates: one chunk per call keeps the ends of its input; two-dependency nodes need it of both
     inputs; exhaust and two-dependency outputs always have it; overlap-window outputs are never claimed to *)
  Definition nt_ok (n : node) : Prop :=
    match n_comp n, n_deps n with
    | CLocal _, [d] => nt (n_id n) -> nt d
    | CDown _ _, [d] => nt (n_id n) -> nt d
    | CPair _ _ _, [d1; d2] => nt d1 /\ nt d2
    | COverlap _ _ _ _ _, _ => ~ nt (n_id n)
    | _, _ => True
    end.

  (* the invariant: every data type evaluated so far carries a tight well-formed chunking of its whole-run rows *)
  Definition env_ok (whole : list (Z * list row)) (env : list (Z * stream)) : Prop :=
    forall d, match lookup d env with
              | Some cs => exists dt R, lookup d whole = Some R /\ chunking_core dt rn R 0 T cs /\
                                        (nt d -> no_trailing T cs)
              | None => lookup d whole = None
              end.

  (* sources and stored data types: ANY tight well-formed contiguous chunking of the whole-run rows *)
  Definition given_ok (given : Z -> option stream) (whole : list (Z * list row)) (n : node) : Prop :=
    match given (n_id n) with
    | Some cs => exists dt, chunking_core dt rn (whole_node src whole n) 0 T cs /\ (nt (n_id n) -> no_trailing T cs)
    | None => n_comp n <> CSrc
    end.

  Lemma run_node_correct whole env n :
    env_ok whole env -> comp_ok (n_comp n) -> arity_ok n -> data_ok whole n -> nt_ok n ->
    Forall (fun d => lookup d env <> None) (n_deps n) -> n_comp n <> CSrc -> o_run (n_meta n) = rn ->
    exists out, run_node_x ovl align env n = Ok out /\
                chunking_core (o_dtype (n_meta n)) rn (whole_node src whole n) 0 T out /\
                (nt (n_id n) -> no_trailing T out).
  Proof.
    intros HE HC HA HD HN HL HS HRN. unfold run_node_x, whole_node, data_ok, arity_ok, nt_ok in *.
    destruct (n_comp n) as [|h|f|h cut|sk h bs|f wt wl wr sw] eqn:EC;
      [first [elim HS; reflexivity | elim HS; exact EC]| | | | |].
    - destruct HA as (d & HA). rewrite HA in *. inversion HL as [|? ? Hd _]; subst.
      specialize (HE d). destruct (lookup d env) as [cs|]; [|congruence].
      destruct HE as (dt & R & -> & Hc & Hnt).
      destruct (run_local_core (n_meta n) h dt rn R 0 T cs HC Hc) as (out & E & HO & HNT).
      exists out. rewrite HRN in HO. split; [exact E|]. split; [exact HO|]. intros H. apply HNT, Hnt, HN, H.
    - destruct HA as (d & HA). rewrite HA in *. inversion HL as [|? ? Hd _]; subst.
      specialize (HE d). destruct (lookup d env) as [cs|]; [|congruence].
      destruct HE as (dt & R & -> & Hc & _).
      destruct (run_exhaust_core (n_meta n) f dt rn R 0 T cs HC Hc) as (out & E & HO).
      exists out. rewrite HRN in HO. apply chunking_of_core in HO as [HO1 HO2]. auto.
    - destruct HA as (d & HA). rewrite HA in *. inversion HL as [|? ? Hd _]; subst.
      specialize (HE d). destruct (lookup d env) as [cs|]; [|congruence].
      destruct HE as (dt & R & -> & Hc & Hnt). destruct HC as [HC1 HC2].
      destruct (run_down_core (n_meta n) h cut dt rn R 0 T cs HC1 HC2 Hc) as (out & E & HO & HNT).
      exists out. rewrite HRN in HO. split; [exact E|]. split; [exact HO|]. intros H. apply HNT, Hnt, HN, H.
    - destruct HA as (d1 & d2 & HA). rewrite HA in *. inversion HL as [|? ? Hd1 HL2]; subst. inversion HL2 as [|? ? Hd2 _]; subst.
      pose proof (HE d1) as H1. pose proof (HE d2) as H2.
      destruct (lookup d1 env) as [s1|]; [|congruence]. destruct (lookup d2 env) as [s2|]; [|congruence].
      destruct H1 as (dt1 & R1 & L1 & C1 & N1). destruct H2 as (dt2 & R2 & L2 & C2 & N2).
      rewrite L1, L2 in *. destruct HD as [HP HK]. destruct HN as [HN1 HN2].
      assert (C1' : chunking_of dt1 rn R1 0 T s1) by (apply chunking_of_core; auto).
      assert (C2' : chunking_of dt2 rn R2 0 T s2) by (apply chunking_of_core; auto).
      destruct (align_ok bs dt1 dt2 R1 R2 T s1 s2 C1' C2' HP) as (calls & EA & AL & HNT).
      pose proof AL as (Hne & HF & Ch & HR1 & HR2).
      rewrite run_pair_unfold, EA. cbn [res_bind].
      assert (HPC : exists P : calls2 -> Prop, pair_comp P h /\ P calls /\ (sk = true -> equal_len calls)).
      { destruct sk.
        - exists equal_len. destruct (HK eq_refl) as [K1 K2]. pose proof (aligned_equal_len R1 R2 0 T calls AL K1).
          split; [exact HC|]. split; auto.
        - exists (fun _ => True). split; [exact HC|]. split; [exact I|discriminate]. }
      destruct HPC as (P & PC & HPc & HLen).
      destruct (map_pair_tiles (n_meta n) sk P h PC calls 0 T HF HLen Ch) as (out & Em & Wo & To & Cho & Ro & Uo & Lo & Mo).
      exists out. split; [exact Em|]. rewrite HRN in Uo.
      split; [|intros _; unfold no_trailing; rewrite Mo; exact HNT]. split; [|exact Uo].
      split; [|split; [|split; [|split]]]; auto.
      + intros ->. destruct calls; [congruence|discriminate].
      + rewrite Ro. symmetry. apply (pc_split P h PC R1 R2 0 T calls AL HPc).
    - destruct HA as (d & HA). rewrite HA in *. inversion HL as [|? ? Hd _]; subst.
      specialize (HE d). destruct (lookup d env) as [cs|]; [|congruence].
      destruct HE as (dt & R & HLk & Hc & _). rewrite HLk in *.
      destruct (ovl_ok (n_meta n) f wt wl wr sw dt R T cs HRN Hc HD) as (out & E & HO).
      exists out. split; [exact E|]. split; [exact HO|]. intros H. elim (HN H).
  Qed.

  (* all nodes are fine along the evaluation: stated on the whole-run environments, which do not depend on any
     chunking.  Dependencies must be defined earlier (topological order). *)
  Fixpoint graph_ok (given : Z -> option stream) (whole : list (Z * list row)) (g : list node) : Prop :=
    match g with
    | [] => True
    | n :: rest =>
        comp_ok (n_comp n) /\ arity_ok n /\ data_ok whole n /\ nt_ok n /\
        Forall (fun d => lookup d whole <> None) (n_deps n) /\
        o_run (n_meta n) = rn /\
        given_ok given whole n /\ graph_ok given ((n_id n, whole_node src whole n) :: whole) rest
    end.

  Lemma env_ok_cons whole env d dt R cs :
    env_ok whole env -> chunking_core dt rn R 0 T cs -> (nt d -> no_trailing T cs) ->
    env_ok ((d, R) :: whole) ((d, cs) :: env).
  Proof.
    intros HE HC HN k. rewrite !lookup_cons. destruct (d =? k) eqn:E; [|apply HE].
    apply Z.eqb_eq in E. subst k. exists dt, R. auto.
  Qed.

  Theorem eval_graph_correct given : forall g whole env,
    env_ok whole env -> graph_ok given whole g ->
    exists env', eval_graph_x ovl align given env g = Ok env' /\ env_ok (eval_whole src whole g) env'.
  Proof.
    induction g as [|n g IH]; intros whole env HE HG.
    - exists env. split; [reflexivity|exact HE].
    - destruct HG as (HC & HA & HD & HNo & HL & HRN & HGiv & HG). cbn [eval_graph_x eval_whole].
      assert (HS : exists s dt, match given (n_id n) with Some cs => Ok cs | None => run_node_x ovl align env n end = Ok s /\
                                chunking_core dt rn (whole_node src whole n) 0 T s /\ (nt (n_id n) -> no_trailing T s)).
      { unfold given_ok in HGiv. destruct (given (n_id n)) as [cs|].
        - destruct HGiv as (dt & Hc & Hn). exists cs, dt. auto.
        - destruct (run_node_correct whole env n HE HC HA HD HNo) as (out & Eo & Ho & Hn); auto.
          + eapply Forall_impl; [|exact HL]. cbn. intros d Hd. specialize (HE d).
            destruct (lookup d env); [discriminate|congruence].
          + eauto. }
      destruct HS as (s & dt & Es & Hs & Hn). rewrite Es. cbn [res_bind].
      apply IH; [|exact HG]. apply (env_ok_cons whole env (n_id n) dt _ s HE Hs Hn).
  Qed.

  (* the statement of the property on the model: for every graph, every chunking of every source, every stored
     subset (both enter through `given`), the stream of every data type -- in particular of the target -- carries
     exactly the rows of the whole-run evaluation, tiles the run, and every row lies inside its chunk *)
  Corollary results_chunking_independent given g target :
    graph_ok given [] g ->
    exists env, eval_graph_x ovl align given [] g = Ok env /\
      match lookup target env with
      | Some cs => exists R, lookup target (eval_whole src [] g) = Some R /\ tiles R 0 T cs
      | None => lookup target (eval_whole src [] g) = None
      end.
  Proof.
    intros HG. destruct (eval_graph_correct given g [] []) as (env & E & HE); [intros d; reflexivity|exact HG|].
    exists env. split; [exact E|]. specialize (HE target). destruct (lookup target env) as [cs|]; [|exact HE].
    destruct HE as (dt & R & HL & (HT & _) & _). exists R. auto.
  Qed.

End Graph.

(* ---------------------------------------------------------------------------------------------- *)
(* what "tiles" means for the chunks get_iter yields                                                *)
(* ---------------------------------------------------------------------------------------------- *)

Lemma chain_adj_ok : forall cs s e, chain s cs e -> adj_ok cs.
Proof.
  induction cs as [|c cs IH]; intros s e H; cbn; [auto|]. destruct cs as [|c' cs]; [auto|].
  cbn in H. destruct H as (H1 & H2 & H3). split; [auto|]. apply (IH (cend c) e). cbn. auto.
Qed.

Theorem target_stream_tiles_run R a b cs :
  tiles R a b cs ->
  (* get_iter's continuity_check passes *)
  continuity_check cs = None /\
  (* first start / last end *)
  stream_start cs = a /\ stream_end cs = b /\
  (* every row lies wholly inside the chunk that carries it, rows are ordered *)
  Forall (fun c => Forall (fun r => cstart c <= rt r /\ rt r <= re r /\ re r <= cend c) (crows c) /\ sorted (crows c)) cs /\
  (* no chunk boundary cuts a row of the run *)
  (forall pre c post, cs = pre ++ c :: post -> post <> [] -> ~ exists q, In q R /\ straddles q (cend c)).
Proof.
  intros (Hne & W & TT & Ch & HR). split; [|split; [|split; [|split]]].
  - apply continuity_check_iff. apply (chain_adj_ok cs a b Ch).
  - destruct cs as [|c cs]; [congruence|]. cbn in Ch. cbn. tauto.
  - destruct cs as [|c cs]; [congruence|]. cbn in Ch. destruct Ch as [_ Ch]. cbn [stream_end].
    clear - Ch. revert Ch. generalize (cend c). induction cs as [|c' cs IH]; intros x Ch; cbn in *; [auto|].
    destruct Ch as [_ Ch]. apply IH. exact Ch.
  - eapply Forall_impl; [|exact W]. cbn. intros c (_ & _ & Hs & HF). auto.
  - intros pre c post E Hp. rewrite <- HR. apply (chain_no_straddle cs a b W Ch pre c post E Hp).
Qed.

(* ---------------------------------------------------------------------------------------------- *)
(* what a saver writes: with or without rechunking, a well-formed contiguous chunking of the same rows *)
(* ---------------------------------------------------------------------------------------------- *)

Lemma chain_last_end : forall rest x b, chain x rest b -> last_end x rest = b.
Proof.
  induction rest as [|c rest IH]; intros x b Ch; cbn in *; [auto|]. destruct Ch as [_ Ch]. apply IH. exact Ch.
Qed.

Theorem saved_stream_correct dt run R a b cs rechunk :
  chunking_of dt run R a b cs -> Forall (fun c => 0 < ctarget c) cs ->
  exists out, saved_stream rechunk cs = Ok out /\ out <> [] /\ Forall wf out /\ chain a out b /\ flat_map crows out = R.
Proof.
  intros ((Hne & W & TT & Ch & HR) & U & _) Tg. destruct rechunk; cbn [saved_stream].
  - destruct cs as [|c0 rest]; [congruence|].
    inversion U as [|? ? [U1 U2] Ur]; subst. pose proof Ch as Ch0. cbn in Ch. destruct Ch as [Cs Ch].
    pose proof (chain_last_end rest (cend c0) b Ch) as HL.
    assert (V : valid_stream (c0 :: rest)).
    { cbn. split; [exact W|]. split; [exact Tg|]. split; [exact Ur|]. rewrite HL. exact Ch. }
    destruct (rechunk_stream_correct (c0 :: rest) V) as (out & E & Hn & Wo & Ro & Co).
    exists out. split; [exact E|]. split; [exact Hn|]. split; [exact Wo|]. split; [|congruence].
    cbn [stream_start stream_end] in Co. rewrite HL, Cs in Co. exact Co.
  - exists cs. repeat split; auto.
Qed.

(* ---------------------------------------------------------------------------------------------- *)
(* the hypotheses are satisfiable: an aligner meeting align_ok, and a concrete graph                *)
(* ---------------------------------------------------------------------------------------------- *)

(* the coarsest legal alignment: one call over the whole run *)
Definition align_one (bs : list Z) (s1 s2 : stream) : res calls2 :=
  do o1 <- concat_all None s1;
  do o2 <- concat_all None s2;
  match o1, o2 with Some c1, Some c2 => Ok [(c1, c2)] | _, _ => Err E_EMPTY_INPUT end.

Lemma concat_all_tiles dt run R a b cs :
  chunking_of dt run R a b cs ->
  exists c, concat_all None cs = Ok (Some c) /\ wf c /\ tight c /\ cstart c = a /\ cend c = b /\ crows c = R.
Proof.
  intros ((Hne & W & TT & Ch & HR) & U & _). destruct cs as [|c0 cs]; [congruence|].
  inversion W as [|? ? Wc Wcs]; subst. inversion U as [|? ? [U1 U2] Ucs]; subst.
  pose proof Ch as Ch0. cbn in Ch. destruct Ch as [Cs Ch].
  destruct (concat_all_spec cs c0 b Wc Wcs Ucs Ch) as (bb & E & Wb & B1 & B2 & B3 & B4 & B5).
  exists bb. cbn [concat_all]. unfold concatenate at 1. cbn [somes res_bind]. split; [exact E|].
  cbn [flat_map] in *. split; [exact Wb|]. split; [|repeat split; congruence].
  unfold tight. rewrite B2, B3. apply (tight_all_lt (c0 :: cs) a b W TT Ch0).
Qed.

Lemma align_one_ok rn : forall bs dt1 dt2 R1 R2 T s1 s2,
  chunking_of dt1 rn R1 0 T s1 -> chunking_of dt2 rn R2 0 T s2 -> True ->
  exists calls, align_one bs s1 s2 = Ok calls /\ aligned R1 R2 0 T calls /\
                ends_nt T (map (fun p => cend (fst p)) calls).
Proof.
  intros bs dt1 dt2 R1 R2 T s1 s2 C1 C2 _.
  destruct (concat_all_tiles _ _ _ _ _ _ C1) as (c1 & E1 & W1 & T1 & A1 & B1 & Rw1).
  destruct (concat_all_tiles _ _ _ _ _ _ C2) as (c2 & E2 & W2 & T2 & A2 & B2 & Rw2).
  exists [(c1, c2)]. unfold align_one. rewrite E1, E2. cbn [res_bind]. split; [reflexivity|]. split.
  - split; [discriminate|]. split.
    + apply Forall_cons; [|apply Forall_nil]. unfold call_ok. cbn [fst snd].
      split; [exact W1|]. split; [exact W2|]. split; [exact T1|]. split; [exact T2|]. split; congruence.
    + unfold rows1, rows2. cbn. rewrite !app_nil_r. repeat split; auto.
  - unfold ends_nt. cbn. constructor.
Qed.

(* a small graph: source 1, a row-wise node 2, a filter 3 on the same source, a same-kind merge 4 of (2, 1) (a
   diamond), an exhaust node 5 on the merge, a down-chunking node 6 on the source, a loop node 7 over (6, 3);
   the source comes in three chunks (one empty and of zero duration) *)
Definition ex_meta (d : Z) : ometa := mkometa d d (Some 0) 4.
Definition ex_graph : list node :=
  [ mknode 1 [] CSrc (ex_meta 1);
    mknode 2 [1] (CLocal (h_rowwise 3 1)) (ex_meta 2);
    mknode 3 [1] (CLocal (h_filter 1 0 2 0)) (ex_meta 3);
    mknode 4 [2; 1] (CPair true (h_merge2 1 5 2) []) (ex_meta 4);
    mknode 5 [4] (CExhaust (f_exhaust 2 0 1)) (ex_meta 5);
    mknode 6 [1] (CDown (h_rowwise 1 1) (down_cut 1)) (ex_meta 6);
    mknode 7 [6; 3] (CPair false (h_loop 1 0) []) (ex_meta 7) ].
Definition ex_rows : list row := [mkrow 1 4 100 5; mkrow 3 9 101 6; mkrow 9 9 102 7; mkrow 12 15 103 8].
Definition ex_stream : stream :=
  [ mkchunk 0 9 [mkrow 1 4 100 5; mkrow 3 9 101 6] 1 1 (Some 0) 4;
    mkchunk 9 9 [] 1 1 (Some 0) 4;
    mkchunk 9 20 [mkrow 9 9 102 7; mkrow 12 15 103 8] 1 1 (Some 0) 4 ].
Definition ex_given (d : Z) : option stream := if d =? 1 then Some ex_stream else None.
Definition ex_src (d : Z) : list row := if d =? 1 then ex_rows else [].

Example ex_eval :
  match eval_graph align_one ex_given [] ex_graph with
  | Ok env => option_map (map (fun c => (cstart c, cend c, map rid (crows c), map rch (crows c)))) (lookup 5 env)
  | Err _ => None
  end = Some [(0, 20, [100; 101; 102; 103], [90; 107; 124; 141])]
  /\ option_map (map rch) (lookup 5 (eval_whole ex_src [] ex_graph)) = Some [90; 107; 124; 141]
  /\ option_map (map rid) (lookup 3 (eval_whole ex_src [] ex_graph)) = Some [101; 103]
  /\ match eval_graph align_one ex_given [] ex_graph with
     | Ok env => option_map (map (fun c => (cstart c, cend c, map rid (crows c)))) (lookup 6 env)
     | Err _ => None
     end = Some [(0, 9, [100; 101]); (9, 9, []); (9, 12, [102]); (12, 20, [103])]
  /\ match eval_graph align_one ex_given [] ex_graph with
     | Ok env => option_map (map (fun c => map rch (crows c))) (lookup 7 env)
     | Err _ => None
     end = Some [[6; 7; 8; 17]]
  /\ option_map (map rch) (lookup 7 (eval_whole ex_src [] ex_graph)) = Some [6; 7; 8; 17].
Proof. vm_compute. repeat split. Qed.

(* the source stream is a tight well-formed chunking with an empty zero-duration chunk and a zero-length row that
   starts a chunk (never ends one) *)
Example ex_stream_chunking : chunking_of 1 (Some 0) ex_rows 0 20 ex_stream.
Proof.
  unfold chunking_of, tiles, uniform, ex_stream, ex_rows. split.
  - split; [discriminate|]. split; [|split; [|split]].
    + repeat constructor; cbn; try lia; repeat constructor; cbn; lia.
    + repeat constructor; cbn; lia.
    + cbn. repeat split; reflexivity.
    + reflexivity.
  - split; [repeat constructor|]. unfold no_trailing, ends_nt. cbn. repeat constructor; lia.
Qed.

Definition no_ovl_pre : (list row -> list row) -> Z -> Z -> list row -> Prop := fun _ _ _ _ => False.
Lemma no_ovl_ok rn : forall m f wt wl wr sw dt R T cs,
  o_run m = rn -> chunking_core dt rn R 0 T cs -> no_ovl_pre f wl wr R ->
  exists out, no_ovl m f wt wl wr sw cs = Ok out /\ chunking_core (o_dtype m) rn (f R) 0 T out.
Proof. intros until cs. intros _ _ []. Qed.

Example ex_graph_ok : graph_ok (fun _ _ => True) (Some 0) no_ovl_pre 20 ex_src (fun _ => True) ex_given [] ex_graph.
Proof.
  pose proof ex_stream_chunking as HS. apply chunking_of_core in HS.
  unfold ex_graph. cbn [graph_ok n_comp n_deps n_id n_meta comp_ok].
  unfold given_ok, arity_ok, data_ok, nt_ok, ex_given. cbn [n_comp n_deps n_id n_meta].
  repeat match goal with |- _ /\ _ => split end;
    try exact I; try discriminate; try reflexivity;
    try apply local_h_rowwise; try apply local_h_filter; try apply whole_f_exhaust; try apply pair_h_merge2;
    try apply pair_h_loop; try apply down_cut_ok;
    try (eexists; reflexivity); try (eexists; eexists; reflexivity);
    try (repeat constructor; discriminate).
  cbn. exists 1. split; [apply HS|intros _; apply HS].
Qed.

(* the partial theorem instantiated: alignment hypothesis discharged by align_one_ok, graph hypotheses by ex_graph_ok *)
Example ex_theorem_instance :
  exists env, eval_graph align_one ex_given [] ex_graph = Ok env /\
    match lookup 7 env with
    | Some cs => exists R, lookup 7 (eval_whole ex_src [] ex_graph) = Some R /\ tiles R 0 20 cs
    | None => lookup 7 (eval_whole ex_src [] ex_graph) = None
    end.
Proof.
  exact (results_chunking_independent align_one (fun _ _ => True) (Some 0) (align_one_ok (Some 0))
           no_ovl no_ovl_pre (no_ovl_ok (Some 0)) 20 ex_src (fun _ => True) ex_given ex_graph 7 ex_graph_ok).
Qed.
