(* Basic facts about the network LTS Model/MailboxFail.v: state access, notify_all (wake), kill, runs. *)
From SV Require Import Base.Prelude Model.Mailbox Proof.MailboxFacts Model.MailboxFail.
Local Open Scope nat_scope.

(* ---------- lists ---------- *)
Lemma nth_upd_eq {A} i (x d : A) l : i < length l -> nth i (upd i x l) d = x.
Proof. revert i; induction l as [|h t IH]; intros [|i] H; cbn in *; try lia; auto. apply IH; lia. Qed.
Lemma nth_upd_neq {A} i j (x d : A) l : i <> j -> nth j (upd i x l) d = nth j l d.
Proof. revert i j; induction l as [|h t IH]; intros [|i] [|j] H; cbn; auto; try congruence. Qed.
Lemma upd_oob {A} i (x : A) l : length l <= i -> upd i x l = l.
Proof. revert i; induction l as [|h t IH]; intros [|i] H; cbn in *; try lia; auto. f_equal. apply IH. lia. Qed.
Lemma nth_error_nth_dflt {A} (l : list A) i d x : nth_error l i = Some x -> nth i l d = x.
Proof. revert i; induction l as [|h t IH]; intros [|i] H; cbn in *; try congruence; auto. Qed.

(* ---------- state access ---------- *)
Lemma mbs_set_th st i t : mbs (set_th st i t) = mbs st. Proof. reflexivity. Qed.
Lemma ths_set_mb st j m : ths (set_mb st j m) = ths st. Proof. reflexivity. Qed.
Lemma get_mb_set_th st i t j : get_mb (set_th st i t) j = get_mb st j. Proof. reflexivity. Qed.
Lemma get_th_set_mb st j m i : get_th (set_mb st j m) i = get_th st i. Proof. reflexivity. Qed.
Lemma mbs_wake f j st : mbs (wake f j st) = mbs st. Proof. reflexivity. Qed.
Lemma get_mb_wake f j st k : get_mb (wake f j st) k = get_mb st k. Proof. reflexivity. Qed.

Lemma get_mb_set_mb_neq st j k m : j <> k -> get_mb (set_mb st j m) k = get_mb st k.
Proof. intros H. unfold get_mb, set_mb. cbn. apply nth_upd_neq; auto. Qed.
Lemma get_mb_set_mb_eq st j m : j < length (mbs st) -> get_mb (set_mb st j m) j = m.
Proof. intros H. unfold get_mb, set_mb. cbn. apply nth_upd_eq; auto. Qed.
Lemma set_mb_oob st j m : length (mbs st) <= j -> set_mb st j m = st.
Proof. intros H. unfold set_mb. rewrite upd_oob by auto. destruct st; reflexivity. Qed.
Lemma get_mb_oob st j : length (mbs st) <= j -> get_mb st j = dflt_mb.
Proof. intros H. unfold get_mb. apply nth_overflow. auto. Qed.

(* the mailbox j after set_mb st j m: m, or (out of range) still the default mailbox *)
Lemma get_mb_set_mb_cases st j m :
  (j < length (mbs st) /\ get_mb (set_mb st j m) j = m) \/
  (length (mbs st) <= j /\ set_mb st j m = st /\ get_mb st j = dflt_mb).
Proof.
  destruct (Nat.lt_ge_cases j (length (mbs st))) as [H|H].
  - left. split; auto. apply get_mb_set_mb_eq; auto.
  - right. split; auto. split; [apply set_mb_oob | apply get_mb_oob]; auto.
Qed.

Lemma length_mbs_set_mb st j m : length (mbs (set_mb st j m)) = length (mbs st).
Proof. unfold set_mb; cbn. apply upd_length. Qed.
Lemma length_ths_set_th st i t : length (ths (set_th st i t)) = length (ths st).
Proof. unfold set_th; cbn. apply upd_length. Qed.
Lemma length_ths_wake f j st : length (ths (wake f j st)) = length (ths st).
Proof. unfold wake; cbn. apply map_length. Qed.

Lemma nth_error_set_th_eq st i t : i < length (ths st) -> nth_error (ths (set_th st i t)) i = Some t.
Proof. intros H. unfold set_th; cbn. apply nth_error_upd_eq; auto. Qed.
Lemma nth_error_set_th_neq st i k t : i <> k -> nth_error (ths (set_th st i t)) k = nth_error (ths st) k.
Proof. intros H. unfold set_th; cbn. apply nth_error_upd_neq; auto. Qed.

Definition wk (f : thread -> nat -> bool) (j : nat) (t : thread) : thread := if f t j then set_woken t true else t.
Lemma nth_error_wake f j st i :
  nth_error (ths (wake f j st)) i = option_map (wk f j) (nth_error (ths st) i).
Proof. unfold wake; cbn. rewrite nth_error_map. reflexivity. Qed.

(* fields untouched by waking *)
Lemma wk_pc f j t : t_pc (wk f j t) = t_pc t. Proof. unfold wk; destruct (f t j); reflexivity. Qed.
Lemma wk_kind f j t : t_kind (wk f j t) = t_kind t. Proof. unfold wk; destruct (f t j); reflexivity. Qed.
Lemma wk_rd f j t : t_rd (wk f j t) = t_rd t. Proof. unfold wk; destruct (f t j); reflexivity. Qed.
Lemma wk_fi f j t : t_fi (wk f j t) = t_fi t. Proof. unfold wk; destruct (f t j); reflexivity. Qed.
Lemma wk_cur_r f j t : cur_r (wk f j t) = cur_r t. Proof. unfold wk; destruct (f t j); reflexivity. Qed.
Lemma wk_out_mb f j t oi : out_mb (wk f j t) oi = out_mb t oi. Proof. unfold wk; destruct (f t j); reflexivity. Qed.
Lemma wk_unwoken f j t : t_woken (wk f j t) = false -> wk f j t = t /\ f t j = false.
Proof. unfold wk. destruct (f t j) eqn:E; cbn; intros H; [discriminate | auto]. Qed.
Lemma wk_woken_mono f j t : t_woken t = true -> t_woken (wk f j t) = true.
Proof. unfold wk. destruct (f t j); cbn; auto. Qed.

(* ---------- runs ---------- *)
Lemma nrun_app nt st s1 s2 :
  nrun nt st (s1 ++ s2) = match nrun nt st s1 with Some st' => nrun nt st' s2 | None => None end.
Proof. revert st; induction s1 as [|t s IH]; intros st; cbn; auto. destruct (nstep nt st t); auto. Qed.

Lemma nrun_invariant nt (P : nstate -> Prop) :
  (forall st t st', P st -> nstep nt st t = Some st' -> P st') ->
  forall sched st st', P st -> nrun nt st sched = Some st' -> P st'.
Proof.
  intros Hstep. induction sched as [|t s IH]; intros st st' HP H; cbn in H.
  - inversion H; subst; auto.
  - destruct (nstep nt st t) eqn:E; [|discriminate]. eapply IH; [eapply Hstep; eauto | exact H].
Qed.
