(* Refinement: the MiniPy program regenerated from strax/chunk.py::split_array (Gen/SplitArray.v)
   computes, for every input, exactly what the hand-written model Model/SplitArray.v computes:
   same returned triple, same exception, never stuck, no fuel needed.

   The proof takes the loop body, the loop variables and the variable names from the generated
   program (by computation), never by literal name; the invariant is positional in the order of
   first occurrence of the variables. *)
From Coq Require Import String.
From SV Require Import Lang.MiniPy Gen.SplitArray Model.SplitArray Proof.SplitArrayProof.

Definition sa_names : list str := Eval vm_compute in env_names split_array_prog.
Definition sa_body : stmt := Eval vm_compute in for_body (fbody split_array_prog).
Definition sa_i : str := Eval vm_compute in nth 0 (for_targets (fbody split_array_prog)) EmptyString.
Definition sa_d : str := Eval vm_compute in nth 1 (for_targets (fbody split_array_prog)) EmptyString.

(* data, t, allow_early_split, latest_end_seen, splittable_i, i_first_beyond, i, d *)
Definition sa_env (rs : list row) (t : Z) (early : bool) (les : Z) (spl : nat) (ifb : Z) (iv dv : val) : env :=
  mk_env sa_names [VRows rs; VInt t; VBool early; VInt les; VInt (Z.of_nat spl); VInt ifb; iv; dv].

Definition embed_split (o : option (list row * list row * Z)) : outcome :=
  match o with
  | Some (l, r, t') => OReturn (VTuple [VRows l; VRows r; VInt t'])
  | None => ORaise "CannotSplit"
  end.

(* one iteration of the loop body, as a function of the state *)
Lemma sa_step fuel rs t early les spl ifb iv dv k d :
  exec fuel sa_body (bind_all (sa_env rs t early les spl ifb iv dv) [(sa_i, zi k); (sa_d, VRow d)]) =
  let spl' := if rt d >=? les then k else spl in
  if rt d >=? t then OBreak (sa_env rs t early les spl' (Z.of_nat k) (zi k) (VRow d))
  else
    let les' := Z.max les (re d) in
    if les' >? t then OBreak (sa_env rs t early les' spl' ifb (zi k) (VRow d))
    else ONormal (sa_env rs t early les' spl' ifb (zi k) (VRow d)).
Proof.
  unfold sa_body, sa_env, sa_names, sa_i, sa_d. mp_eval.
  mp_step. mp_step.
  destruct (rt d >=? les) eqn:E1; mp_steps;
    (destruct (rt d >=? t) eqn:E2; mp_steps; [reflexivity|]);
    (destruct (Z.max les (re d) >? t) eqn:E3; mp_steps; reflexivity).
Qed.

(* the state in which the loop is left *)
Definition sa_out (rs : list row) (t : Z) (early : bool) (ifb : Z) (iv dv : val) (r : sa_exit * Z * nat) : outcome :=
  match r with
  | (ExEnd, les, spl) => ONormal (sa_env rs t early les spl ifb iv dv)
  | (ExBeyond j, les, spl) => OBreak (sa_env rs t early les spl (Z.of_nat j) iv dv)
  | (ExLate, les, spl) => OBreak (sa_env rs t early les spl ifb iv dv)
  end.

Lemma sa_loop fuel rs t early ifb : forall rest k les spl iv dv,
  exists iv' dv',
    iter_list (exec fuel sa_body) (enum_binds sa_i sa_d k (map VRow rest)) (sa_env rs t early les spl ifb iv dv) =
    sa_out rs t early ifb iv' dv' (sa_scan rest k t les spl).
Proof.
  induction rest as [|d rest IH]; intros k les spl iv dv.
  - exists iv, dv. reflexivity.
  - cbn [map]. rewrite enum_binds_cons, iter_list_cons, sa_step. cbn [sa_scan]. cbv zeta.
    destruct (rt d >=? t) eqn:E2.
    + exists (zi k), (VRow d). reflexivity.
    + destruct (Z.max les (re d) >? t) eqn:E3.
      * exists (zi k), (VRow d). reflexivity.
      * apply IH.
Qed.

(* facts about the scan that the post-loop code relies on *)
Lemma sa_scan_spl_bound : forall rest k t les spl ex les' spl',
  sa_scan rest k t les spl = (ex, les', spl') ->
  (spl' = spl \/ (k <= spl' < k + length rest)%nat).
Proof.
  induction rest as [|d rest IH]; intros k t les spl ex les' spl' H; cbn [sa_scan] in H.
  - inversion H; auto.
  - cbn [length].
    set (s1 := if rt d >=? les then k else spl) in *.
    assert (Hs1 : s1 = spl \/ (k <= s1 < k + S (length rest))%nat)
      by (subst s1; destruct (rt d >=? les); [right; lia|left; reflexivity]).
    clearbody s1.
    destruct (rt d >=? t); [inversion H; subst; exact Hs1|].
    destruct (Z.max les (re d) >? t); [inversion H; subst; exact Hs1|].
    apply IH in H. destruct H as [->|H]; [exact Hs1|right; lia].
Qed.

Lemma sa_scan_end_le : forall rest k t les spl les' spl',
  sa_scan rest k t les spl = (ExEnd, les', spl') -> (rest = [] -> les <= t) -> les' <= t.
Proof.
  induction rest as [|d rest IH]; intros k t les spl les' spl' H H0; cbn [sa_scan] in H.
  - inversion H; subst. auto.
  - destruct (rt d >=? t); [discriminate|].
    destruct (Z.max les (re d) >? t) eqn:E; [discriminate|].
    apply IH in H; [exact H|]. intros _. lia.
Qed.

Lemma sa_scan_beyond_le : forall rest k t les spl j les' spl',
  sa_scan rest k t les spl = (ExBeyond j, les', spl') -> les <= t -> les' <= t.
Proof.
  induction rest as [|d rest IH]; intros k t les spl j les' spl' H H0; cbn [sa_scan] in H.
  - discriminate.
  - destruct (rt d >=? t); [inversion H; subst; exact H0|].
    destruct (Z.max les (re d) >? t) eqn:E; [discriminate|].
    apply IH in H; [exact H|lia].
Qed.

Theorem split_array_refines fuel rs t early :
  run fuel split_array_prog [VRows rs; VInt t; VBool early] = embed_split (split_array rs t early).
Proof.
  unfold run, split_array_prog. mp_eval.
  mp_step. mp_step.
  destruct rs as [|d0 rs0].
  { rewrite len_z_nil. cbn [Z.eqb negb]. mp_steps. rewrite slice_to_0. reflexivity. }
  assert (Hlen : len_z (d0 :: rs0) =? 0 = false) by (rewrite len_z_cons; pose proof (len_z_nonneg rs0); lia).
  rewrite Hlen. cbn [negb]. mp_steps.
  rewrite idx_0. mp_eval.
  unfold split_array.
  remember (d0 :: rs0) as rs eqn:Ers.
  destruct (rt d0 >=? t) eqn:E0.
  { mp_steps. rewrite slice_to_0. reflexivity. }
  mp_steps.
  destruct (sa_loop fuel rs t early (-1) rs 0%nat (-1) 0%nat VUndef VUndef) as (iv & dv & Hloop).
  unfold sa_env, sa_names, sa_i, sa_d, sa_body in Hloop. mp_eval_in Hloop. change (Z.of_nat 0) with 0 in Hloop.
  rewrite Hloop. clear Hloop.
  destruct (sa_scan rs 0 t (-1) 0) as [[ex les] spl] eqn:Escan.
  pose proof (sa_scan_spl_bound _ _ _ _ _ _ _ _ Escan) as Hb.
  assert (Hspl : (spl < length rs)%nat).
  { destruct Hb as [->|Hb]; [rewrite Ers; cbn [length]|]; lia. }
  destruct ex as [j| |]; unfold sa_out, sa_env, sa_names; mp_eval.
  - (* left by the first break *)
    mp_steps.
    replace (Z.of_nat spl =? Z.of_nat j) with (Nat.eqb spl j)
      by (destruct (Nat.eqb_spec spl j); lia).
    destruct (negb (Nat.eqb spl j)) eqn:En; cbn [orb].
    + mp_eval. destruct early; cbn [negb]; mp_steps; [|reflexivity].
      rewrite (idx_nat_nth rs spl row0 Hspl). mp_steps.
      rewrite slice_to_nat, slice_from_nat. reflexivity.
    + mp_eval. destruct (les >? t) eqn:El; mp_steps.
      * destruct early; cbn [negb]; mp_steps; [|reflexivity].
        rewrite (idx_nat_nth rs spl row0 Hspl). mp_steps.
        rewrite slice_to_nat, slice_from_nat. reflexivity.
      * rewrite slice_to_nat, slice_from_nat. reflexivity.
  - (* left by the second break *)
    mp_steps.
    replace (Z.of_nat spl =? -1) with false by lia. cbn [negb orb]. mp_eval.
    destruct early; cbn [negb]; mp_steps; [|reflexivity].
    rewrite (idx_nat_nth rs spl row0 Hspl). mp_steps.
    rewrite slice_to_nat, slice_from_nat. reflexivity.
  - (* exhausted: the else clause *)
    assert (Hle : les <= t).
    { eapply sa_scan_end_le; [exact Escan|]. rewrite Ers. discriminate. }
    mp_steps. replace (les <=? t) with true by lia. mp_steps.
    rewrite slice_to_0. reflexivity.
Qed.

(* ------------------------------------------------------------------------------------------- *)
(* The C07 split law restated over the generated program (no mention of the hand-written model) *)

Definition split_outcome_post (rs : list row) (t : Z) (early : bool) (oc : outcome) : Prop :=
  match oc with
  | OReturn (VTuple [VRows l; VRows r; VInt t']) => split_array_post rs t early (Some (l, r, t'))
  | ORaise exn => exn = "CannotSplit"%string /\ split_array_post rs t early None
  | _ => False
  end.

Theorem split_array_prog_correct fuel rs t early :
  sorted rs -> Forall (fun q => 0 <= rt q) rs ->
  split_outcome_post rs t early (run fuel split_array_prog [VRows rs; VInt t; VBool early]).
Proof.
  intros Hs Hnn. rewrite split_array_refines.
  pose proof (split_array_correct rs t early Hs Hnn) as H.
  destruct (split_array rs t early) as [[[l r] t']|]; cbn [embed_split split_outcome_post]; auto.
Qed.

(* the generated program really runs (and the hypotheses above are satisfiable) *)
Example split_array_prog_runs :
  let rs := [mkrow 0 4 0 0; mkrow 2 6 1 0; mkrow 6 9 2 0] in
  run 0 split_array_prog [VRows rs; VInt 5; VBool true] = OReturn (VTuple [VRows []; VRows rs; VInt 0])
  /\ run 0 split_array_prog [VRows rs; VInt 5; VBool false] = ORaise "CannotSplit"
  /\ run 0 split_array_prog [VRows rs; VInt 6; VBool false]
     = OReturn (VTuple [VRows [mkrow 0 4 0 0; mkrow 2 6 1 0]; VRows [mkrow 6 9 2 0]; VInt 6])
  /\ sorted rs /\ Forall (fun q => 0 <= rt q) rs.
Proof.
  vm_compute. repeat split; try reflexivity; repeat constructor; discriminate.
Qed.
