(* C02 — the hypotheses of the property theorems are satisfiable by concrete, non-trivial states. *)
From SV Require Import Base.Prelude Model.Canon Model.Lineage Model.C02Run Proof.CanonProof Spec.LineageSpec
  Proof.LineageEquiv Proof.LineageCache Proof.LineageCache2 Proof.LineageHash Proof.LineageRegister
  Proof.LineageHistory Proof.LineageRefute Proof.LineageStore Proof.LineageFuzzy Proof.LineageKeys
  Proof.LineageKeys2 Proof.LineagePinned.

(* a graph with a shared tracked option (20), an untracked option (21) and a dependent plugin *)
Definition eA (cid0 ver : Z) : cls :=
  mkcls cid0 101 ver 2000 80 [10] [] [mkopt 20 (VInt 1) true None; mkopt 21 (VTuple [VInt 1]) false None] false [].
Definition eB : cls :=
  mkcls 5 102 1000 2001 80 [11; 12] [10] [mkopt 20 (VInt 1) true None; mkopt 22 (VDict [(40, VInt 1)]) true None] false [].

(* a history with a version bump, a config change and cached lookups in between *)
Definition E_HIST : list op :=
  [ORegister 0 (eA 1 1000); ORegister 0 eB; OKeyFor 0 0 12; OGet 0 0 11;
   OSetConfig 0 0 [(20, VInt 2); (21, VInt 7)]; OKeyFor 0 0 12;
   ORegister 0 (eA 2 1001); OKeyFor 0 0 12; ONewContext 0; OGet 1 0 12].

Lemma cid_ok_three (a b c : cls) : cid a <> cid b -> cid a <> cid c -> cid b <> cid c -> cid_ok [a; b; c].
Proof.
  intros H1 H2 H3 x y Hx Hy E.
  destruct Hx as [<-|[<-|[<-|[]]]], Hy as [<-|[<-|[<-|[]]]]; try reflexivity; congruence.
Qed.

Example history_hypotheses :
  cid_ok (classes_of E_HIST) /\ no_conflicting_reregistration E_HIST /\ no_config_key_is_data_type E_HIST.
Proof.
  split; [apply cid_ok_three; cbn; lia|]. split.
  - intros c1 c2 d Hc1 Hc2 Hd1 Hd2 Ev Ec Et.
    assert (c1 = c2); [|subst; apply cls_equiv_refl].
    cbn in Hc1, Hc2.
    destruct Hc1 as [<-|[<-|[<-|[]]]], Hc2 as [<-|[<-|[<-|[]]]]; try reflexivity; cbn in Ev, Ec, Et, Hd1, Hd2; try lia; intuition lia.
  - intros k c Hk Hc Hp. cbn in Hk, Hc.
    destruct Hc as [<-|[<-|[<-|[]]]]; cbn in Hp; intuition lia.
Qed.

(* in the final state of that history both contexts hold cached plugins, and lookups succeed *)
Example history_nontrivial :
  forall fx, exists x0 x1 i ca,
    ctxs HTc (fst (run_ops HTc hid heq fx (init_state HTc) E_HIST)) = [x0; x1] /\
    ccache HTc x0 <> None /\ ccache HTc x1 <> None /\
    ctx_plugin HTc hid heq fx x0 12 = Ok (i, ca) /\ length (ilin i) = 2%nat.
Proof.
  intros [|]; vm_compute; do 4 eexists; repeat split; discriminate.
Qed.

(* key_sensitivity: a consistent registry, two configurations *)
Definition e_reg : registry := [(10, eA 1 1000); (11, eB); (12, eB)].

Example reg_ok_example : reg_ok e_reg.
Proof.
  intros dt c H. cbn in H.
  destruct (dt =? 10) eqn:E0; [inversion H; subst; apply Z.eqb_eq in E0; subst; split; [now left|]; intros p [<-|[]]; reflexivity|].
  destruct (dt =? 11) eqn:E1; [inversion H; subst; apply Z.eqb_eq in E1; subst; split; [now left|]; intros p [<-|[<-|[]]]; reflexivity|].
  destruct (dt =? 12) eqn:E2; [inversion H; subst; apply Z.eqb_eq in E2; subst; split; [right; now left|]; intros p [<-|[<-|[]]]; reflexivity|].
  discriminate.
Qed.

Example key_sensitivity_example :
  exists i i' j j',
    spec_plugin 3 e_reg [] 12 = Ok i /\ spec_plugin 3 e_reg [(20, VInt 2)] 12 = Ok i' /\
    canon (lin_value (ilin i)) <> canon (lin_value (ilin i')) /\
    spec_plugin 3 e_reg [] 10 = Ok j /\ spec_plugin 3 e_reg [(21, VInt 2)] 10 = Ok j' /\
    canon (lin_value (ilin j)) = canon (lin_value (ilin j')) /\
    tracks (eA 1 1000) 20 = true /\ tracks (eA 1 1000) 21 = false /\ tracks eB 21 = false.
Proof. vm_compute. do 4 eexists. repeat split; discriminate. Qed.

(* fuzzy matching: two well-formed lineages that differ only in the fuzzy option are accepted *)
Definition e_lin (v : Z) : lineage := [(10, (101, 1000, [(20, VInt 1); (21, VInt v)])); (12, (102, 1000, [(22, VList [VInt 1])]))].

Example fuzzy_example :
  lin_wf (e_lin 5) /\ lin_wf (e_lin 6) /\ fuzzy_on [] [21] = true /\
  matches (lin_json_rt (e_lin 5)) (e_lin 6) [] [21] = true /\ matches (lin_json_rt (e_lin 5)) (e_lin 6) [] [20] = false /\
  matches (lin_json_rt (e_lin 5)) (e_lin 6) [10] [] = true.
Proof.
  assert (W : forall v, lin_wf (e_lin v)).
  { intros v. split; [repeat constructor; cbn; intuition lia|]. intros k e H. cbn in H.
    destruct (k =? 10); [inversion H; subst; cbn; repeat constructor; cbn; intuition lia|].
    destruct (k =? 12); [inversion H; subst; cbn; repeat constructor; cbn; intuition lia|discriminate]. }
  repeat split; try apply W; reflexivity.
Qed.

(* the store invariant holds initially and the model's get really stores and re-loads *)
Example store_example :
  exists d1 d2 a1 a2 st,
    map fst (c02_run_tokens true [ORegister 0 (eA 1 1000); OGet 0 0 10; OIsStored 0 0 10; OEmptyContext; ORegister 1 (eA 1 1000); OGet 1 0 10])
      = [[1; 1]; 4 :: a1 :: d1; [1; 1]; [0]; [1; 1]; 4 :: a2 :: d2] /\ d1 = d2 /\
    st = stor HTc (fst (run_ops HTc hid heq true (init_state HTc) [ORegister 0 (eA 1 1000); OGet 0 0 10])) /\
    length st = 1%nat /\ store_inv HTc hid st.
Proof.
  vm_compute. do 5 eexists. repeat split.
  intros e [<-|[]]. reflexivity.
Qed.
