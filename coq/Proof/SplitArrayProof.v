From SV Require Import Model.Rows Model.SplitArray Proof.RowsFacts.

Definition Cov (S : list row) (lo : Z) : Prop :=
  forall y, lo < y -> y < Mx S -> exists q, In q S /\ straddles q y.

Definition Decomp (pre : list row) (spl : nat) : Prop :=
  exists A b B, pre = A ++ b :: B /\ length A = spl /\
                Forall (fun q => re q <= rt b) A /\ Cov (b :: B) (rt b).

Definition Inv (t : Z) (pre : list row) (les : Z) (spl : nat) : Prop :=
  les = Mx pre /\ Forall (fun q => rt q < t) pre /\ les <= t /\
  ((pre = [] /\ spl = 0%nat) \/ Decomp pre spl).

Definition Post (t : Z) (all : list row) (ex : sa_exit) (les' : Z) (spl' : nat) : Prop :=
  match ex with
  | ExEnd => Forall (fun q => re q <= t) all
  | ExBeyond k => exists L d R, all = L ++ d :: R /\ length L = k /\ spl' = k /\
                                Forall (fun q => re q <= t) L /\ t <= rt d /\ les' <= t
  | ExLate => les' > t /\ exists A b B R, all = A ++ b :: B ++ R /\ length A = spl' /\
                Forall (fun q => re q <= rt b) A /\ Cov (b :: B) (rt b) /\
                Forall (fun q => rt q < t) (b :: B) /\ t < Mx (b :: B)
  end.

Lemma Cov_single d : 0 <= rt d -> Cov [d] (rt d).
Proof.
  intros H0 y H1 H2. rewrite Mx_cons, Mx_nil in H2. exists d. split; [left; auto|]. unfold straddles. lia.
Qed.

(* one loop iteration preserves the decomposition *)
Lemma step_decomp t pre les spl d :
  Inv t pre les spl -> sorted (pre ++ [d]) -> Forall (fun q => 0 <= rt q) (pre ++ [d]) ->
  Decomp (pre ++ [d]) (if rt d >=? les then length pre else spl).
Proof.
  intros (Hles & Hlt & Hle & Hdec) Hs Hnn.
  apply Forall_app in Hnn as [Hnn1 Hnn2]. inversion Hnn2 as [|? ? Hd0 _]; subst.
  destruct (rt d >=? Mx pre) eqn:E.
  - exists pre, d, []. repeat split; auto.
    + apply Mx_le_iff; lia.
    + apply Cov_single; auto.
  - destruct Hdec as [[-> ->]|(A & b & B & -> & HA & HF & HC)].
    + rewrite Mx_nil in E. lia.
    + exists A, b, (B ++ [d]). repeat split; auto.
      * rewrite <- app_assoc. reflexivity.
      * intros y Hy1 Hy2.
        assert (Hbd : rt b <= rt d).
        { apply sorted_app in Hs as (_ & _ & Hs). apply Forall_app in Hs as [_ Hs].
          inversion Hs as [|? ? Hb _]; subst. inversion Hb; subst. auto. }
        assert (HbA : 0 <= rt b).
        { apply Forall_app in Hnn1 as [_ Hb]. inversion Hb; auto. }
        change (b :: B ++ [d]) with ((b :: B) ++ [d]) in Hy2. rewrite Mx_snoc in Hy2.
        destruct (Z_lt_dec y (Mx (b :: B))) as [Hlt'|Hge].
        -- destruct (HC y Hy1 Hlt') as [q [Hq1 Hq2]]. exists q. split; auto.
           change (b :: B ++ [d]) with ((b :: B) ++ [d]). apply in_or_app. left; auto.
        -- exists d. split.
           ++ change (b :: B ++ [d]) with ((b :: B) ++ [d]). apply in_or_app. right; left; auto.
           ++ rewrite Mx_app in E. assert (Mx A <= rt b) by (apply Mx_le_iff; [lia|auto]).
              unfold straddles. lia.
Qed.

Lemma sa_scan_post : forall rs pre t les spl ex les' spl',
  0 <= t ->
  sorted (pre ++ rs) -> Forall (fun q => 0 <= rt q) (pre ++ rs) ->
  Inv t pre les spl ->
  sa_scan rs (length pre) t les spl = (ex, les', spl') ->
  Post t (pre ++ rs) ex les' spl'.
Proof.
  induction rs as [|d rs IH]; intros pre t les spl ex les' spl' Ht Hs Hnn HI Hscan.
  - cbn in Hscan. inversion Hscan; subst. cbn. rewrite app_nil_r.
    destruct HI as (Hles & Hlt & Hle & _). apply Mx_le_iff; lia.
  - cbn [sa_scan] in Hscan.
    assert (Hs1 : sorted (pre ++ [d])).
    { replace (pre ++ d :: rs) with ((pre ++ [d]) ++ rs) in Hs by (rewrite <- app_assoc; reflexivity).
      apply sorted_app in Hs. tauto. }
    assert (Hnn1 : Forall (fun q => 0 <= rt q) (pre ++ [d])).
    { replace (pre ++ d :: rs) with ((pre ++ [d]) ++ rs) in Hnn by (rewrite <- app_assoc; reflexivity).
      apply Forall_app in Hnn. tauto. }
    pose proof (step_decomp t pre les spl d HI Hs1 Hnn1) as HD.
    destruct HI as (Hles & Hlt & Hle & Hdec).
    destruct (rt d >=? t) eqn:Et.
    + inversion Hscan; subst ex les' spl'. cbn.
      exists pre, d, rs. repeat split; auto.
      * destruct (rt d >=? les) eqn:E; [reflexivity|exfalso; clear - Et E Hle; lia].
      * apply Mx_le_iff; lia.
      * lia.
    + destruct (Z.max les (re d) >? t) eqn:El.
      * inversion Hscan; subst ex les' spl'. cbn. split; [lia|].
        destruct HD as (A & b & B & Hpre & HA & HF & HC).
        exists A, b, B, rs. repeat split; auto.
        -- replace (pre ++ d :: rs) with ((pre ++ [d]) ++ rs) by (rewrite <- app_assoc; reflexivity).
           rewrite Hpre, <- app_assoc. reflexivity.
        -- assert (Hall : Forall (fun q => rt q < t) (pre ++ [d])).
           { apply Forall_app; split; auto. constructor; [lia|constructor]. }
           rewrite Hpre in Hall. apply Forall_app in Hall. tauto.
        -- assert (HM : Mx (pre ++ [d]) = Z.max les (re d)) by (rewrite Mx_snoc; lia).
           rewrite Hpre, Mx_app in HM.
           assert (0 <= rt b).
           { rewrite Hpre in Hnn1. apply Forall_app in Hnn1 as [_ Hb]. inversion Hb; auto. }
           assert (Mx A <= rt b) by (apply Mx_le_iff; [lia|auto]).
           assert (rt b < t).
           { assert (Hall : Forall (fun q => rt q < t) (pre ++ [d])).
             { apply Forall_app; split; auto. constructor; [lia|constructor]. }
             rewrite Hpre in Hall. apply Forall_app in Hall as [_ Hb]. inversion Hb; auto. }
           lia.
      * replace (pre ++ d :: rs) with ((pre ++ [d]) ++ rs) in * by (rewrite <- app_assoc; reflexivity).
        apply (IH (pre ++ [d]) t (Z.max les (re d)) (if rt d >=? les then length pre else spl)); auto.
        -- unfold Inv. split; [rewrite Mx_snoc; lia|].
           split; [apply Forall_app; split; auto; constructor; [lia|constructor]|].
           split; [lia|right; exact HD].
        -- rewrite app_length. cbn [length]. rewrite Nat.add_1_r. exact Hscan.
Qed.

Lemma firstn_len_app {A} (l1 l2 : list A) : firstn (length l1) (l1 ++ l2) = l1.
Proof. rewrite firstn_app, Nat.sub_diag, firstn_all. cbn. apply app_nil_r. Qed.
Lemma skipn_len_app {A} (l1 l2 : list A) : skipn (length l1) (l1 ++ l2) = l2.
Proof. rewrite skipn_app, Nat.sub_diag, skipn_all. reflexivity. Qed.
Lemma nth_len_app {A} (l1 l2 : list A) x d : nth (length l1) (l1 ++ x :: l2) d = x.
Proof. rewrite app_nth2, Nat.sub_diag; [reflexivity|lia]. Qed.

Definition split_array_post (rs : list row) (t : Z) (early : bool)
           (o : option (list row * list row * Z)) : Prop :=
  match o with
  | Some (l, r, t') =>
      l ++ r = rs /\ Forall (fun q => re q <= t') l /\ Forall (fun q => t' <= rt q) r /\
      t' <= t /\ (early = false -> t' = t) /\
      (forall y, t' < y <= t -> exists q, In q rs /\ straddles q y)
  | None => early = false /\ exists q, In q rs /\ straddles q t
  end.

Theorem split_array_correct rs t early :
  sorted rs -> Forall (fun q => 0 <= rt q) rs ->
  split_array_post rs t early (split_array rs t early).
Proof.
  intros Hs Hnn. unfold split_array.
  destruct rs as [|d0 rs0] eqn:Ers.
  { cbn. repeat split; auto; try lia. }
  rewrite <- Ers in *.
  destruct (rt d0 >=? t) eqn:E0.
  { cbn. repeat split; auto; try lia.
    - rewrite Ers. cbn in Hs. rewrite Ers in Hs. destruct Hs as [H1 _].
      constructor; [lia|]. eapply Forall_impl; [|exact H1]. cbn; intros; lia. }
  assert (Ht : 0 <= t).
  { rewrite Ers in Hnn. inversion Hnn; subst. lia. }
  destruct (sa_scan rs 0 t (-1) 0) as [[ex les] spl] eqn:Escan.
  pose proof (sa_scan_post rs [] t (-1) 0%nat ex les spl Ht Hs Hnn) as HP.
  cbn [app length] in HP.
  assert (HI : Inv t [] (-1) 0).
  { unfold Inv. split; [reflexivity|]. split; [constructor|]. split; [lia|left; auto]. }
  specialize (HP HI Escan). clear HI.
  destruct ex as [k| |].
  - (* ExBeyond *)
    cbn in HP. destruct HP as (L & d & R & Hall & HL & Hspl & HF & Htd & Hles).
    subst spl. rewrite Nat.eqb_refl. cbn [negb orb].
    destruct (les >? t) eqn:E; [lia|].
    cbn. rewrite Hall, <- HL, firstn_len_app, skipn_len_app.
    repeat split; auto; try lia.
    + rewrite Hall in Hs. apply sorted_app in Hs as (_ & Hs & _). cbn in Hs. destruct Hs as [Hs _].
      constructor; [lia|]. eapply Forall_impl; [|exact Hs]. cbn; intros; lia.
  - (* ExLate *)
    cbn in HP. destruct HP as (Hlt & A & b & B & R & Hall & HA & HF & HC & Hb & HM).
    cbn [negb orb].
    assert (Hstr : forall y, rt b < y <= t -> exists q, In q rs /\ straddles q y).
    { intros y Hy. destruct (HC y) as [q [Hq1 Hq2]]; [lia|lia|].
      exists q. split; auto. rewrite Hall. apply in_or_app. right.
      change (b :: B ++ R) with ((b :: B) ++ R). apply in_or_app; left; auto. }
    assert (Hbt : rt b < t) by (inversion Hb; auto).
    destruct early.
    + cbn. rewrite Hall, <- HA, firstn_len_app, skipn_len_app, nth_len_app.
      rewrite Z.min_l by lia.
      repeat split; auto; try lia; try discriminate.
      * rewrite Hall in Hs. apply sorted_app in Hs as (_ & Hs & _). cbn in Hs. destruct Hs as [Hs _].
        constructor; [lia|exact Hs].
      * rewrite <- Hall. exact Hstr.
    + cbn. split; auto. apply Hstr. lia.
  - (* ExEnd *)
    cbn in HP. cbn. rewrite app_nil_r. repeat split; auto; try lia.
Qed.
