(* Property C08: totality below the pass limit -- the loop and the final theorem. *)
From SV Require Import Model.Rows Model.SplitArray Model.Chunk Model.PluginIter
     Proof.RowsFacts Proof.SplitArrayProof Proof.ChunkProof Proof.PluginIterProof Proof.PluginIterRound
     Proof.PluginIterLoop Proof.PluginIterSafety Proof.PluginIterStair Proof.PluginIterTotal
     Proof.PluginIterTotal2.

Section Loop.
Variable run : option Z.
Variable b : Z.

Definition final_ok (ss : list slot) : Prop := Forall (fun s => crows (sbuf s) = [] /\ siter s = []) ss.

Lemma drain_final : forall ss, Forall (fun s => siter s = []) ss -> drain ss = Ok tt.
Proof.
  induction ss as [|s ss IH]; intros HF; cbn [drain]; [reflexivity|].
  apply Forall_cons_iff in HF as [-> HF]. apply IH, HF.
Qed.

Lemma leftover_final sw ss : Forall (fun s => crows (sbuf s) = []) ss -> leftover_check sw ss = Ok tt.
Proof.
  intros HF. unfold leftover_check. destruct (saves_by_default sw); [|reflexivity].
  destruct (existsb (fun s => has_rows (sbuf s)) ss) eqn:Ex; [|reflexivity].
  apply existsb_exists in Ex as (s & Hs & Hr). rewrite Forall_forall in HF. unfold has_rows in Hr.
  rewrite (HF s Hs) in Hr. discriminate.
Qed.

Lemma Forall_set_nth {A} (P : A -> Prop) n x l : Forall P l -> P x -> Forall P (set_nth n x l).
Proof.
  revert n; induction l as [|y l IH]; intros [|n] HF Hx; cbn [set_nth]; auto; apply Forall_cons_iff in HF as [Hy HF];
    constructor; auto.
Qed.

Lemma fetch_pm_trail E pm ss specs dones ss' :
  slots_inv run E specs dones ss -> (pm < length ss)%nat -> Forall (trail_ok b) ss ->
  fetch_pm pm ss = Ok (Some ss') -> Forall (trail_ok b) ss'.
Proof.
  intros HI Hpm HT Hf. unfold fetch_pm in Hf.
  destruct (nth_error ss pm) as [s|] eqn:Es; [|apply nth_error_None in Es; lia].
  rewrite (nth_error_nth _ _ dummy_slot Es) in Hf.
  destruct (slots_inv_nth _ _ _ _ _ HI pm s Es) as (d & dn & _ & _ & Hs & _).
  assert (HTs : trail_ok b s) by (rewrite Forall_forall in HT; apply HT; eapply nth_error_In; eauto).
  destruct s as [k buf it]. cbn [sbuf siter skind] in *.
  destruct it as [|c it]; [discriminate|].
  destruct (fetch_step _ _ _ _ _ _ _ _ _ Hs) as (b' & Ec & _ & _ & A2 & _).
  rewrite Ec in Hf. cbn [res_bind] in Hf. inversion Hf; subst ss'.
  apply Forall_set_nth; [exact HT|]. eapply trail_ok_fetch; eauto.
Qed.

(* the round leaves the end of the pacemaker's buffer where it was *)
Lemma round_pm_inv pmchunks sw pm E ss specs dones c ss2 :
  slots_inv run E specs dones ss -> (pm < length ss)%nat -> pm_inv pmchunks pm ss ->
  round_body sw pm ss = Ok (c, ss2) -> pm_inv pmchunks pm ss2.
Proof.
  intros HI Hpm Hinv Erb.
  pose proof (round_body_spec run sw pm E ss specs dones HI Hpm) as HR. rewrite Erb in HR.
  destruct HR as (Hcs & Hok & HI2 & Hit & Hlen).
  destruct Hinv as (s & Es & Hin & Hincl).
  destruct (nth_error ss2 pm) as [s2|] eqn:Es2; [|apply nth_error_None in Es2; lia].
  exists s2. split; [exact Es2|].
  rewrite (nth_error_nth _ _ dummy_slot Es2), (nth_error_nth _ _ dummy_slot Es) in Hit.
  destruct (slots_inv_nth _ _ _ _ _ HI2 pm s2 Es2) as (d & dn & Hd & _ & Hs2 & _).
  split; [|rewrite Hit; exact Hincl].
  destruct (slots_inv_nth _ _ _ _ _ HI pm s Es) as (d0 & dn0 & Hd0 & _ & Hs0 & _).
  rewrite Hd0 in Hd. inversion Hd; subst d0.
  pose proof (si_chain _ _ _ _ _ _ Hs0) as C0. pose proof (si_chain _ _ _ _ _ _ Hs2) as C2.
  rewrite Hit in C2.
  assert (Heq : cend (sbuf s2) = cend (sbuf s)).
  { destruct (siter s) as [|x r]; cbn in C0, C2; [congruence|].
    destruct C0 as [C0 _]; destruct C2 as [C2 _]; congruence. }
  rewrite Heq. exact Hin.
Qed.

Lemma iter_loop_total sw pm pmchunks : forall fuel ss specs dones E,
  slots_inv run E specs dones ss -> (pm < length ss)%nat ->
  (length (siter (nth pm ss dummy_slot)) < fuel)%nat ->
  Forall (trail_ok b) ss -> Forall (fun sp => db sp = b) specs -> NoDup (map dk specs) ->
  pm_inv pmchunks pm ss ->
  (forall c, In c pmchunks -> exists y', stair_ok (map dR specs) max_passes (cend c) y') ->
  snd (iter_loop fuel sw pm ss) = None /\
  exists ssf, calls_chain E (fst (iter_loop fuel sw pm ss)) b /\
              slots_inv run b specs (acc_calls dones (fst (iter_loop fuel sw pm ss))) ssf /\ final_ok ssf.
Proof.
  induction fuel as [|f IH]; intros ss specs dones E HI Hpm Hfuel HT Hdb Hnd Hinv Hstair; [lia|].
  cbn [iter_loop].
  assert (HS : exists y', stair_ok (map dR specs) max_passes (cend (sbuf (nth pm ss dummy_slot))) y').
  { destruct Hinv as (s & Es & Hin & _). rewrite (nth_error_nth _ _ dummy_slot Es).
    apply in_map_iff in Hin as (c0 & <- & Hc0). apply Hstair, Hc0. }
  destruct (round_total run b sw pm E ss specs dones HI Hpm HT Hdb Hnd HS) as (c & ss2 & Erb & HT2 & Hfin).
  pose proof (round_body_spec run sw pm E ss specs dones HI Hpm) as HR. rewrite Erb in HR. rewrite Erb.
  destruct HR as (Hcs & Hok & HI2 & Hit & Hlen).
  assert (Hpm2 : (pm < length ss2)%nat) by lia.
  pose proof (round_pm_inv pmchunks sw pm E ss specs dones c ss2 HI Hpm Hinv Erb) as Hinv2.
  pose proof (fetch_pm_spec run _ pm ss2 specs _ HI2 Hpm2) as HF.
  destruct (fetch_pm pm ss2) as [[ss3|]|e] eqn:Ef; [| |destruct HF].
  - destruct HF as (HI3 & Hlen3 & Hdec).
    assert (Hpm3 : (pm < length ss3)%nat) by lia.
    assert (Hfuel3 : (length (siter (nth pm ss3 dummy_slot)) < f)%nat) by (rewrite Hit in Hdec; lia).
    pose proof (fetch_pm_trail _ pm ss2 specs _ ss3 HI2 Hpm2 HT2 Ef) as HT3.
    pose proof (fetch_pm_pm_inv run pmchunks _ pm ss2 specs _ ss3 HI2 Hpm2 Hinv2 Ef) as Hinv3.
    destruct (IH ss3 specs _ (call_end c) HI3 Hpm3 Hfuel3 HT3 Hdb Hnd Hinv3 Hstair) as (Hout & ssf & P1 & P2 & P3).
    cbn [fst snd]. split; [exact Hout|]. exists ssf. cbn [calls_chain acc_calls].
    split; [split; [exact Hcs|exact P1]|]. split; [exact P2|exact P3].
  - (* IterDone: the pacemaker's source is exhausted, so this round ended at the common end *)
    assert (Htce : cend (sbuf (nth pm ss dummy_slot)) = b).
    { destruct (nth_error ss pm) as [s|] eqn:Es; [|apply nth_error_None in Es; lia].
      rewrite (nth_error_nth _ _ dummy_slot Es) in *.
      destruct (slots_inv_nth _ _ _ _ _ HI pm s Es) as (d & dn & Hd & _ & Hs & _).
      pose proof (si_chain _ _ _ _ _ _ Hs) as C. rewrite <- Hit, HF in C. cbn in C.
      rewrite Forall_forall in Hdb. rewrite (Hdb d (nth_error_In _ _ Hd)) in C. exact C. }
    destruct (Hfin Htce) as (Hce & Hrows).
    assert (Hfinal : final_ok ss2).
    { apply Forall_forall. intros s' Hs'. apply In_nth_error in Hs' as [j Hj].
      destruct (Hrows j s' Hj) as [R1 R2]. split; [exact R1|].
      destruct (Nat.eq_dec j pm) as [->|Hne]; [|apply R2, Hne].
      rewrite (nth_error_nth _ _ dummy_slot Hj) in HF. exact HF. }
    cbn [fst snd]. split.
    + unfold epilogue. rewrite drain_final, leftover_final; [reflexivity| |].
      * eapply Forall_impl; [|exact Hfinal]. cbn; tauto.
      * eapply Forall_impl; [|exact Hfinal]. cbn; tauto.
    + exists ss2. cbn [calls_chain acc_calls]. split; [split; [exact Hcs|exact Hce]|].
      split; [rewrite <- Hce; exact HI2|exact Hfinal].
Qed.
End Loop.

(* ---------- Plugin.iter, total below the pass limit ---------- *)

Lemma trail_ok_init b s : Forall (fun c => cend c < b) (removelast (sbuf s :: siter s)) -> trail_ok b s.
Proof.
  intros H. unfold trail_ok. destruct (siter s) as [|c it] eqn:Ei.
  - split; [intros Hn; exfalso; apply Hn; reflexivity|constructor].
  - cbn [removelast] in H. apply Forall_cons_iff in H as [H1 H2]. split; [intros _; exact H1|exact H2].
Qed.

Theorem iter_total_below_pass_limit_thm run sw a b deps specs :
  deps <> [] -> Forall2 (dep_ok run a) deps specs ->
  Forall (fun sp => db sp = b) specs ->
  NoDup (map fst deps) ->
  Forall (fun d => Forall (fun c => cend c < b) (removelast (snd d))) deps ->
  (forall c, In c (pacemaker_chunks deps) ->
             exists y', stair_ok (map (fun d => srows (snd d)) deps) max_passes (cend c) y') ->
  snd (plugin_iter sw deps) = None /\
  calls_chain a (fst (plugin_iter sw deps)) b /\
  forall i d, nth_error deps i = Some d -> delivered i (fst (plugin_iter sw deps)) = srows (snd d).
Proof.
  intros Hne HD Hdb Hnd Htrail Hstair.
  pose proof (iter_calls_aligned_thm run sw a deps specs Hne HD) as [Hcalls _].
  unfold plugin_iter, pacemaker_chunks in *.
  destruct (init_slots_spec run a deps specs HD) as (ss & Ei & HI & Hm). rewrite Ei in *.
  pose proof (choose_pm_spec ss 0 None) as HC.
  destruct (choose_pm ss 0 None) as [[pm e]|].
  2:{ destruct HC as [_ Hnil]; [intros p e0 H0; discriminate|]. subst ss. destruct deps; [congruence|discriminate]. }
  assert (Hpm : (pm < length ss)%nat) by (apply HC; intros p e0 H0; discriminate).
  assert (HRs : map dR specs = map (fun d => srows (snd d)) deps).
  { clear - HD. induction HD as [|d sp deps specs (_ & _ & _ & HR & _) _ IH]; cbn; [reflexivity|]. congruence. }
  rewrite <- HRs in Hstair.
  assert (HT : Forall (trail_ok b) ss).
  { apply Forall_forall. intros s0 Hs0. apply trail_ok_init.
    assert (Hin : In (sbuf s0 :: siter s0) (map snd deps)).
    { rewrite <- Hm. apply (in_map (fun s => sbuf s :: siter s)). exact Hs0. }
    apply in_map_iff in Hin as (d & Hd1 & Hd2). rewrite <- Hd1. rewrite Forall_forall in Htrail. apply (Htrail d Hd2). }
  assert (Hnd' : NoDup (map dk specs)) by (rewrite (dep_ok_kinds _ _ _ _ HD); exact Hnd).
  destruct (nth_error ss pm) as [s|] eqn:Es; [|apply nth_error_None in Es; lia].
  assert (Hsn : snd (nth pm deps (0, [])) = sbuf s :: siter s).
  { assert (Hn : nth_error (map snd deps) pm = Some (sbuf s :: siter s)).
    { rewrite <- Hm, nth_error_map, Es. reflexivity. }
    rewrite nth_error_map in Hn. destruct (nth_error deps pm) as [d|] eqn:Ed; [|discriminate].
    cbn in Hn. inversion Hn. rewrite (nth_error_nth _ _ (0, []) Ed). reflexivity. }
  assert (Hinv : pm_inv (snd (nth pm deps (0, []))) pm ss).
  { exists s. split; [exact Es|]. rewrite Hsn. split; [left; reflexivity|]. intros x Hx. right; exact Hx. }
  destruct (iter_loop_total run b sw pm _ (S (length (siter (nth pm ss dummy_slot)))) ss specs _ a HI Hpm
              (Nat.lt_succ_diag_r _) HT Hdb Hnd' Hinv Hstair) as (Hout & ssf & P1 & P2 & P3).
  split; [exact Hout|]. split; [exact P1|].
  intros i d Hd.
  set (calls := fst (iter_loop (S (length (siter (nth pm ss dummy_slot)))) sw pm ss)) in *.
  destruct (Forall2_nth_error _ _ _ HD i d Hd) as (sp & Hsp & (_ & _ & _ & HR & _)).
  pose proof (slots_inv_length _ _ _ _ _ P2) as [L1 L2].
  assert (Hdn : nth_error (map (fun _ : dspec => @nil row) specs) i = Some []).
  { rewrite nth_error_map, Hsp. reflexivity. }
  assert (Hacc : nth_error (acc_calls (map (fun _ => []) specs) calls) i = Some ([] ++ delivered i calls)).
  { apply acc_calls_nth; [exact Hdn|]. eapply Forall_impl; [|exact Hcalls]. cbn.
    intros c (_ & Hl & _). rewrite !map_length in *. rewrite <- (Forall2_length' _ _ _ HD). exact Hl. }
  cbn [app] in Hacc.
  destruct (nth_error ssf i) as [sf|] eqn:Esf.
  2:{ apply nth_error_None in Esf. assert (i < length specs)%nat by (apply nth_error_Some; congruence). lia. }
  destruct (slots_inv_nth _ _ _ _ _ P2 i sf Esf) as (sp' & dn & Hsp' & Hdn' & HS & _).
  rewrite Hsp in Hsp'. inversion Hsp'; subst sp'. rewrite Hacc in Hdn'. inversion Hdn'; subst dn.
  unfold final_ok in P3. rewrite Forall_forall in P3. destruct (P3 sf (nth_error_In _ _ Esf)) as [F1 F2].
  pose proof (si_rows _ _ _ _ _ _ HS) as Hrows. rewrite F1, F2 in Hrows. cbn in Hrows. rewrite app_nil_r in Hrows.
  rewrite <- HR. exact Hrows.
Qed.
