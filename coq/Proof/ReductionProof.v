(* C18 proofs, part 3: cut_outside_hits keeps exactly the samples within the extension of a hit. *)
From SV Require Import Model.Hits Model.Reduction Spec.HitsSpec Proof.HitsProof Proof.LinksProof.

(* ---------- slices ---------- *)
Lemma copy_range_length : forall src dst i lo hi,
  length (copy_range i lo hi src dst) = length dst.
Proof.
  induction src as [|s src IH]; intros [|d dst] i lo hi; cbn [copy_range length]; auto.
Qed.

Lemma copy_range_nth : forall src dst i lo hi k,
  length src = length dst -> (k < length dst)%nat ->
  nth k (copy_range i lo hi src dst) 0 =
  if (lo <=? i + Z.of_nat k) && (i + Z.of_nat k <? hi) then nth k src 0 else nth k dst 0.
Proof.
  induction src as [|s src IH]; intros [|d dst] i lo hi k Hl Hk; cbn [length] in *; try lia.
  cbn [copy_range]. destruct k as [|k].
  - cbn [nth]. replace (i + Z.of_nat 0) with i by lia. reflexivity.
  - cbn [nth]. rewrite IH by lia. replace (i + 1 + Z.of_nat k) with (i + Z.of_nat (S k)) by lia. reflexivity.
Qed.

Lemma upd_nth_length {A} (f : A -> A) : forall l j, length (upd_nth j f l) = length l.
Proof. induction l as [|x l IH]; intros [|j]; cbn [upd_nth length]; auto. Qed.

Lemma upd_nth_nth {A} (f : A -> A) (d : A) : forall l j k,
  nth k (upd_nth j f l) d = if (Nat.eqb k j) && (j <? length l)%nat then f (nth k l d) else nth k l d.
Proof.
  induction l as [|x l IH]; intros j k.
  - destruct j; cbn [upd_nth length]; rewrite andb_false_r; reflexivity.
  - destruct j as [|j]; destruct k as [|k]; cbn [upd_nth nth length Nat.eqb]; auto.
    rewrite IH. replace (S j <? S (length l))%nat with (j <? length l)%nat; [reflexivity|].
    destruct (j <? length l)%nat eqn:E; symmetry.
    + apply Nat.ltb_lt. apply Nat.ltb_lt in E. lia.
    + apply Nat.ltb_ge. apply Nat.ltb_ge in E. lia.
Qed.

Lemma in_norm_lo s n lo : 0 <= s < n ->
  (norm_idx lo n <=? s) = (if lo <? 0 then lo + n <=? s else lo <=? s).
Proof. intros H. unfold norm_idx. destruct (lo <? 0) eqn:E; lia. Qed.
Lemma in_norm_hi s n hi : 0 <= s < n ->
  (s <? norm_idx hi n) = (if hi <? 0 then s <? hi + n else s <? hi).
Proof. intros H. unfold norm_idx. destruct (hi <? 0) eqn:E; lia. Qed.

(* ---------- the blanked buffer ---------- *)
Definition get (new : list (list Z)) (j s : Z) : Z := nthZ (nth (Z.to_nat j) new []) s.
Definition shape (new : list (list Z)) (N : nat) (spr : Z) : Prop :=
  length new = N /\ Forall (fun d => zlen d = spr) new.

Section Cut.
Variables (rs : list rec) (spr : Z).
Hypothesis Hdata : Forall (fun r => zlen (r_data r) = spr) rs.

Lemma data_at_rec_at j : 0 <= j < zlen rs -> data_at rs j = r_data (rec_at rs j).
Proof.
  intros Hj. unfold data_at, rec_at.
  destruct (nth_error rs (Z.to_nat j)) eqn:E.
  - apply nth_error_nth with (d := mkrec 0 0 0 0 0 0 0 0 0 0 0 []) in E. rewrite E. reflexivity.
  - apply nth_error_None in E. unfold zlen in Hj. lia.
Qed.

Lemma data_len j : 0 <= j < zlen rs -> zlen (data_at rs j) = spr.
Proof.
  intros Hj. rewrite data_at_rec_at by auto. rewrite Forall_forall in Hdata. apply Hdata.
  unfold rec_at. apply nth_In. unfold zlen in Hj. lia.
Qed.

Definition in_slice (lo hi s : Z) : bool :=
  (if lo <? 0 then lo + spr <=? s else lo <=? s) && (if hi <? 0 then s <? hi + spr else s <? hi).

Lemma keep_slice_spec j lo hi new :
  shape new (length rs) spr ->
  shape (keep_slice rs j lo hi new) (length rs) spr /\
  forall j' s, 0 <= j' < zlen rs -> 0 <= s < spr ->
    get (keep_slice rs j lo hi new) j' s =
    if (j' =? j) && in_slice lo hi s then nthZ (data_at rs j) s else get new j' s.
Proof.
  intros (Hl & HF). unfold keep_slice.
  destruct (j <? 0) eqn:Ej.
  { split; [split; auto|]. intros j' s Hj' Hs. replace (j' =? j) with false by lia. reflexivity. }
  destruct (Z_lt_dec j (zlen rs)) as [Hjl|Hjl].
  2:{ (* beyond the array: upd_nth leaves the buffer alone *)
      assert (E : forall f, upd_nth (Z.to_nat j) f new = new).
      { intros f. apply nth_ext with (d := []) (d' := []); [apply upd_nth_length|].
        intros k Hk. rewrite upd_nth_nth. replace (Z.to_nat j <? length new)%nat with false; [rewrite andb_false_r; auto|].
        symmetry. apply Nat.ltb_ge. unfold zlen in Hjl. lia. }
      rewrite E. split; [split; auto|]. intros j' s Hj' Hs. replace (j' =? j) with false by lia. reflexivity. }
  assert (Hj : 0 <= j < zlen rs) by lia.
  pose proof (data_len j Hj) as Hdl.
  assert (Hnj : zlen (nth (Z.to_nat j) new []) = spr).
  { rewrite Forall_forall in HF. apply HF. apply nth_In. unfold zlen in Hj. lia. }
  split.
  - split; [rewrite upd_nth_length; auto|].
    apply Forall_forall. intros d Hd. apply In_nth with (d := []) in Hd as (k & Hk & <-).
    rewrite upd_nth_length in Hk. rewrite upd_nth_nth.
    destruct ((k =? Z.to_nat j)%nat && (Z.to_nat j <? length new)%nat) eqn:E.
    + unfold zlen. rewrite copy_range_length. apply andb_true_iff in E as [E _]. apply Nat.eqb_eq in E. subst k. exact Hnj.
    + rewrite Forall_forall in HF. apply HF. apply nth_In. auto.
  - intros j' s Hj' Hs. unfold get. rewrite upd_nth_nth.
    replace (Z.to_nat j <? length new)%nat with true by (symmetry; apply Nat.ltb_lt; unfold zlen in Hj; lia).
    rewrite andb_true_r.
    destruct (j' =? j) eqn:E.
    + assert (j' = j) by lia. subst j'. rewrite Nat.eqb_refl. cbn [andb].
      unfold nthZ. replace (s <? 0) with false by lia.
      rewrite copy_range_nth; [| unfold zlen in *; lia | unfold zlen in *; lia].
      rewrite Z2Nat.id by lia. replace (0 + s) with s by lia.
      rewrite Hdl. rewrite (in_norm_lo s spr lo Hs), (in_norm_hi s spr hi Hs). unfold in_slice. reflexivity.
    + replace (Z.to_nat j' =? Z.to_nat j)%nat with false; [reflexivity|].
      symmetry. apply Nat.eqb_neq. lia.
Qed.

(* ---------- one hit ---------- *)
Variables (prev next : list Z) (le re : Z).
Hypothesis Hle : 0 <= le.
Hypothesis Hre : 0 <= re.
Hypothesis Hspr : zlen rs = 0 \/ spr = spr_of rs.

Lemma overlap_a len sk n_b : 0 <= len -> 0 <= n_b ->
  exists a b b', overlap_indices 0 len sk n_b = Ok ((a, b), b') /\ 0 <= a /\ 0 <= b /\
    forall s, 0 <= s -> ((a <=? s) && (s <? b)) = ((s <? len) && (sk <=? s) && (s <? sk + n_b)).
Proof.
  intros Hl Hn. unfold overlap_indices.
  replace ((len <? 0) || (n_b <? 0)) with false by lia.
  destruct ((len =? 0) || (n_b =? 0)) eqn:E0.
  { eexists 0, 0, _. split; [reflexivity|]. split; [lia|]. split; [lia|]. intros s Hs. lia. }
  destruct (0 - sk <=? - len) eqn:E1.
  { eexists 0, 0, _. split; [reflexivity|]. split; [lia|]. split; [lia|]. intros s Hs. lia. }
  destruct (Z.max 0 (0 - sk) >=? Z.min n_b (0 - sk + len)) eqn:E2.
  { eexists 0, 0, _. split; [reflexivity|]. split; [lia|]. split; [lia|]. intros s Hs. lia. }
  eexists _, _, _. split; [reflexivity|]. split; [lia|]. split; [lia|]. intros s Hs. lia.
Qed.

Lemma coh_step_spec h new :
  shape new (length rs) spr -> hit_ok rs spr h ->
  exists new', coh_step rs spr prev next le re h new = Ok new' /\
    shape new' (length rs) spr /\
    forall j s, 0 <= j < zlen rs -> 0 <= s < spr ->
      get new' j s = if keepsb rs spr prev next le re h j s then nthZ (data_at rs j) s else get new j s.
Proof.
  intros Hsh (Hri & Hlr & Hlspr & Hlen). unfold coh_step.
  replace ((h_reci h <? 0) || (h_reci h >=? zlen rs)) with false by lia.
  destruct (nth_error rs (Z.to_nat (h_reci h))) as [r|] eqn:Enth.
  2:{ apply nth_error_None in Enth. unfold zlen in Hri. lia. }
  assert (Hr : rec_at rs (h_reci h) = r).
  { unfold rec_at. apply nth_error_nth. exact Enth. }
  rewrite Hr in Hlen.
  set (sk := h_left h - le). set (ek := h_right h + re).
  destruct (overlap_a (r_length r) sk (ek - sk)) as (a & b & b' & Hov & Ha & Hb & Hab); [lia|unfold sk, ek; lia|].
  rewrite Hov.
  set (ri := h_reci h) in *.
  destruct (keep_slice_spec ri a b new Hsh) as (Sh1 & G1).
  set (new1 := keep_slice rs ri a b new) in *.
  set (new2 := if sk <? 0 then
                 if nthZ prev ri =? NO_RECORD_LINK then new1
                 else keep_slice rs (nthZ prev ri) sk (zlen (data_at rs (nthZ prev ri))) new1
               else new1).
  assert (H2 : shape new2 (length rs) spr /\
               forall j s, 0 <= j < zlen rs -> 0 <= s < spr ->
                 get new2 j s = if (j =? nthZ prev ri) && negb (j =? NO_RECORD_LINK) && (sk <=? s - spr)
                                then nthZ (data_at rs j) s else get new1 j s).
  { unfold new2. destruct (sk <? 0) eqn:Esk.
    - destruct (nthZ prev ri =? NO_RECORD_LINK) eqn:Ep.
      + split; [exact Sh1|]. intros j s Hj Hs.
        destruct (j =? nthZ prev ri) eqn:E; [|reflexivity].
        replace (j =? NO_RECORD_LINK) with true by lia. reflexivity.
      + destruct (keep_slice_spec (nthZ prev ri) sk (zlen (data_at rs (nthZ prev ri))) new1 Sh1) as (Sh & G).
        split; [exact Sh|]. intros j s Hj Hs. rewrite (G j s Hj Hs).
        destruct (j =? nthZ prev ri) eqn:E; [|reflexivity].
        assert (j = nthZ prev ri) by lia. subst j.
        replace (nthZ prev ri =? NO_RECORD_LINK) with false by lia. cbn [andb negb].
        unfold in_slice. rewrite Esk. rewrite (data_len _ Hj).
        replace (spr <? 0) with false by lia. replace (s <? spr) with true by lia. rewrite andb_true_r.
        replace (sk + spr <=? s) with (sk <=? s - spr) by lia. reflexivity.
    - split; [exact Sh1|]. intros j s Hj Hs. replace (sk <=? s - spr) with false by lia.
      rewrite andb_false_r. reflexivity. }
  destruct H2 as (Sh2 & G2).
  set (new3 := if ek >? spr then
                 if nthZ next ri =? NO_RECORD_LINK then new2
                 else keep_slice rs (nthZ next ri) 0 (ek - spr) new2
               else new2).
  assert (H3 : shape new3 (length rs) spr /\
               forall j s, 0 <= j < zlen rs -> 0 <= s < spr ->
                 get new3 j s = if (j =? nthZ next ri) && negb (j =? NO_RECORD_LINK) && (s + spr <? ek)
                                then nthZ (data_at rs j) s else get new2 j s).
  { unfold new3. destruct (ek >? spr) eqn:Eek.
    - destruct (nthZ next ri =? NO_RECORD_LINK) eqn:Ep.
      + split; [exact Sh2|]. intros j s Hj Hs.
        destruct (j =? nthZ next ri) eqn:E; [|reflexivity].
        replace (j =? NO_RECORD_LINK) with true by lia. reflexivity.
      + destruct (keep_slice_spec (nthZ next ri) 0 (ek - spr) new2 Sh2) as (Sh & G).
        split; [exact Sh|]. intros j s Hj Hs. rewrite (G j s Hj Hs).
        destruct (j =? nthZ next ri) eqn:E; [|reflexivity].
        assert (j = nthZ next ri) by lia. subst j.
        replace (nthZ next ri =? NO_RECORD_LINK) with false by lia. cbn [andb negb].
        unfold in_slice. replace (0 <? 0) with false by lia. replace (ek - spr <? 0) with false by lia.
        replace (0 <=? s) with true by lia. cbn [andb].
        replace (s <? ek - spr) with (s + spr <? ek) by lia. reflexivity.
    - split; [exact Sh2|]. intros j s Hj Hs. replace (s + spr <? ek) with false by lia.
      rewrite andb_false_r. reflexivity. }
  destruct H3 as (Sh3 & G3).
  exists new3. split; [reflexivity|]. split; [exact Sh3|].
  intros j s Hj Hs. rewrite (G3 j s Hj Hs), (G2 j s Hj Hs), (G1 j s Hj Hs).
  unfold keepsb. fold ri. rewrite Hr. fold sk. fold ek.
  unfold in_slice.
  replace (a <? 0) with false by lia. replace (b <? 0) with false by lia.
  rewrite (Hab s) by lia. replace (sk + (ek - sk)) with ek by lia.
  destruct (j =? ri) eqn:E1.
  - assert (j = ri) by lia. subst j.
    destruct ((ri =? nthZ next ri) && negb (ri =? NO_RECORD_LINK) && (s + spr <? ek));
    destruct ((ri =? nthZ prev ri) && negb (ri =? NO_RECORD_LINK) && (sk <=? s - spr));
    destruct (s <? r_length r); destruct (sk <=? s); destruct (s <? ek); reflexivity.
  - cbn [andb orb].
    destruct ((j =? nthZ next ri) && negb (j =? NO_RECORD_LINK) && (s + spr <? ek));
    destruct ((j =? nthZ prev ri) && negb (j =? NO_RECORD_LINK) && (sk <=? s - spr)); reflexivity.
Qed.

(* ---------- all hits ---------- *)
Lemma coh_loop_spec : forall hs new,
  shape new (length rs) spr -> Forall (hit_ok rs spr) hs ->
  exists new', coh_loop rs spr prev next le re hs new = Ok new' /\
    shape new' (length rs) spr /\
    forall j s, 0 <= j < zlen rs -> 0 <= s < spr ->
      get new' j s = if existsb (fun h => keepsb rs spr prev next le re h j s) hs
                     then nthZ (data_at rs j) s else get new j s.
Proof.
  induction hs as [|h hs IH]; intros new Hsh HF.
  - exists new. split; [reflexivity|]. split; auto.
  - inversion HF as [|? ? Hh HF']; subst.
    destruct (coh_step_spec h new Hsh Hh) as (new1 & Hrun1 & Sh1 & G1).
    destruct (IH new1 Sh1 HF') as (new' & Hrun & Sh' & G').
    exists new'. cbn [coh_loop]. rewrite Hrun1. split; [exact Hrun|]. split; [exact Sh'|].
    intros j s Hj Hs. rewrite (G' j s Hj Hs), (G1 j s Hj Hs). cbn [existsb].
    destruct (existsb (fun h0 => keepsb rs spr prev next le re h0 j s) hs);
      destruct (keepsb rs spr prev next le re h j s); reflexivity.
Qed.

End Cut.
