(* C12 — the violation matrix, decided by vm_compute over the explicit finite domain of
   Spec/C12MatrixSpec.v and lifted to a quantified statement with forallb_forall.
   Everything is proved for both values of fx (false = code before the repairs of F1/F2,
   true = repaired code); the statements about the current code instantiate fx := REPAIRED_F1F2. *)
From SV Require Import Model.PluginKinds Model.C12Harness Spec.C12MatrixSpec.

Lemma matrix_decided fx :
  forallb (fun c => is_escape_gen fx (c_kind c) (c_vk c) || cell_rejected_gen fx c) matrix_domain = true.
Proof. destruct fx; vm_compute; reflexivity. Qed.

Lemma in_all_kinds k : In k all_kinds.
Proof. destruct k; cbn; tauto. Qed.

Lemma in_bools b : In b bools.
Proof. destruct b; cbn; tauto. Qed.

Lemma in_cells_of k vk dv w ov n r pos rechunk ga :
  In dv (dvs vk) -> In w (whichs k vk) -> In ov (ovs k vk) ->
  In (n, r) shapes -> (pos < n)%nat -> shape_ok vk n = true ->
  In (mkcell k vk dv w ov pos n r rechunk ga) (cells_of k vk).
Proof.
  intros Hdv Hw Hov Hs Hp Hok. unfold cells_of.
  apply in_flat_map. exists dv. split; [exact Hdv|].
  apply in_flat_map. exists w. split; [exact Hw|].
  apply in_flat_map. exists ov. split; [exact Hov|].
  apply in_flat_map. exists (n, r). split; [exact Hs|]. cbn [fst snd]. rewrite Hok.
  apply in_flat_map. exists pos. split; [apply in_seq; lia|].
  apply in_flat_map. exists rechunk. split; [apply in_bools|].
  apply in_map. apply in_bools.
Qed.

Lemma in_matrix_domain k vk dv w ov n r pos rechunk ga :
  In vk (applicable_vks k) -> In dv (dvs vk) -> In w (whichs k vk) -> In ov (ovs k vk) ->
  In (n, r) shapes -> (pos < n)%nat -> shape_ok vk n = true ->
  In (mkcell k vk dv w ov pos n r rechunk ga) matrix_domain.
Proof.
  intros Hvk Hdv Hw Hov Hs Hp Hok. unfold matrix_domain.
  apply in_flat_map. exists k. split; [apply in_all_kinds|].
  apply in_flat_map. exists vk. split; [exact Hvk|]. apply in_cells_of; auto.
Qed.

(* C12 violation_matrix: for every applicable (violation kind x plugin kind) pair that is not an
   escape of the given code version, every variant, every position of the offending chunk, every
   run shape, rechunk_on_save on or off, get_array or make: the caller gets an exception and the
   offending data type is not served from storage. *)
Theorem violation_matrix_gen fx : forall k vk dv w ov n r pos rechunk ga,
  In vk (applicable_vks k) -> In dv (dvs vk) -> In w (whichs k vk) -> In ov (ovs k vk) ->
  In (n, r) shapes -> (pos < n)%nat -> shape_ok vk n = true ->
  is_escape_gen fx k vk = false ->
  cell_rejected_gen fx (mkcell k vk dv w ov pos n r rechunk ga) = true.
Proof.
  intros k vk dv w ov n r pos rechunk ga Hvk Hdv Hw Hov Hs Hp Hok Hesc.
  pose proof (in_matrix_domain k vk dv w ov n r pos rechunk ga Hvk Hdv Hw Hov Hs Hp Hok) as Hin.
  pose proof (matrix_decided fx) as H. rewrite forallb_forall in H. specialize (H _ Hin).
  cbn [c_kind c_vk] in H. rewrite Hesc in H. exact H.
Qed.

(* the current code *)
Theorem violation_matrix_partial : forall k vk dv w ov n r pos rechunk ga,
  In vk (applicable_vks k) -> In dv (dvs vk) -> In w (whichs k vk) -> In ov (ovs k vk) ->
  In (n, r) shapes -> (pos < n)%nat -> shape_ok vk n = true ->
  is_escape k vk = false ->
  cell_rejected (mkcell k vk dv w ov pos n r rechunk ga) = true.
Proof. exact (violation_matrix_gen REPAIRED_F1F2). Qed.

(* the full statement *)
Definition full_violation_matrix_gen (fx : bool) : Prop := forall k vk dv w ov n r pos rechunk ga,
  In vk (applicable_vks k) -> In dv (dvs vk) -> In w (whichs k vk) -> In ov (ovs k vk) ->
  In (n, r) shapes -> (pos < n)%nat -> shape_ok vk n = true ->
  cell_rejected_gen fx (mkcell k vk dv w ov pos n r rechunk ga) = true.

(* it holds for the repaired code ... *)
Theorem violation_matrix_repaired : full_violation_matrix_gen true.
Proof. intros k vk dv w ov n r pos rechunk ga. intros. apply violation_matrix_gen; auto. Qed.

(* ... hence for the current code as soon as it carries the repairs *)
Theorem violation_matrix_if_repaired : REPAIRED_F1F2 = true -> full_violation_matrix_gen REPAIRED_F1F2.
Proof. intros ->. exact violation_matrix_repaired. Qed.

(* ... and is refuted for the code before the repairs.  Smallest failing runs: one source chunk,
   make(), rechunk_on_save = False *)
Theorem violation_matrix_pinned_refuted :
  cell_rejected_gen false (mkcell KSource   VK_DTYPE_RAW 0 0 0 0 1 3 false false) = false /\
  cell_rejected_gen false (mkcell KOrdinary VK_DTYPE_RAW 0 0 0 0 1 3 false false) = false /\
  cell_rejected_gen false (mkcell KMulti    VK_DTYPE_RAW 0 0 0 0 1 3 false false) = false /\
  cell_rejected_gen false (mkcell KDown     VK_DTYPE_RAW 0 0 0 0 1 3 false false) = false /\
  cell_rejected_gen false (mkcell KOverlap  VK_DTYPE_RAW 0 0 0 0 1 3 false false) = false /\
  cell_rejected_gen false (mkcell KDown     VK_LABEL     0 0 0 0 1 3 false false) = false.
Proof. vm_compute. repeat split. Qed.

(* every escape cell really has a failing run, and every other applicable cell has none: the two
   finding classes are exact *)
Lemma escapes_exact_decided fx :
  forallb (fun k => forallb (fun vk =>
      Bool.eqb (is_escape_gen fx k vk) (existsb (fun c => negb (cell_rejected_gen fx c)) (cells_of k vk)))
    (applicable_vks k)) all_kinds = true.
Proof. destruct fx; vm_compute; reflexivity. Qed.

Theorem escapes_exact_gen fx : forall k vk, In vk (applicable_vks k) ->
  (is_escape_gen fx k vk = true <-> exists c, In c (cells_of k vk) /\ cell_rejected_gen fx c = false).
Proof.
  intros k vk Hvk. pose proof (escapes_exact_decided fx) as H. rewrite forallb_forall in H.
  specialize (H k (in_all_kinds k)). rewrite forallb_forall in H. specialize (H vk Hvk).
  apply Bool.eqb_prop in H. rewrite H, existsb_exists. split.
  - intros (c & Hc & Hr). exists c. split; [auto|]. destruct (cell_rejected_gen fx c); [discriminate|reflexivity].
  - intros (c & Hc & Hr). exists c. split; [auto|]. rewrite Hr. reflexivity.
Qed.

Theorem escapes_exact : forall k vk, In vk (applicable_vks k) ->
  (is_escape k vk = true <-> exists c, In c (cells_of k vk) /\ cell_rejected c = false).
Proof. exact (escapes_exact_gen REPAIRED_F1F2). Qed.

(* the model does not reject everything: well-behaved plugins of every kind run through, and
   their output is served from storage afterwards *)
Lemma good_decided fx :
  forallb (fun c => (cell_result_code_gen fx c =? 0) && cell_visible_gen fx c (cell_target c)) good_domain = true.
Proof. destruct fx; vm_compute; reflexivity. Qed.

Theorem good_cells_accepted_gen fx : forall k n r rechunk ga,
  In (n, r) shapes ->
  cell_result_code_gen fx (mkcell k VK_GOOD 0 0 0 0 n r rechunk ga) = 0 /\
  cell_visible_gen fx (mkcell k VK_GOOD 0 0 0 0 n r rechunk ga)
    (cell_target (mkcell k VK_GOOD 0 0 0 0 n r rechunk ga)) = true.
Proof.
  intros k n r rechunk ga Hs. pose proof (good_decided fx) as H. rewrite forallb_forall in H.
  assert (Hin : In (mkcell k VK_GOOD 0 0 0 0 n r rechunk ga) good_domain).
  { unfold good_domain. apply in_flat_map. exists k. split; [apply in_all_kinds|].
    apply in_flat_map. exists (n, r). split; [exact Hs|]. cbn [fst snd].
    apply in_flat_map. exists rechunk. split; [apply in_bools|]. apply in_map. apply in_bools. }
  specialize (H _ Hin). apply andb_true_iff in H as [H1 H2]. apply Z.eqb_eq in H1. auto.
Qed.

Theorem good_cells_accepted : forall k n r rechunk ga,
  In (n, r) shapes ->
  cell_result_code (mkcell k VK_GOOD 0 0 0 0 n r rechunk ga) = 0 /\
  cell_visible (mkcell k VK_GOOD 0 0 0 0 n r rechunk ga) (cell_target (mkcell k VK_GOOD 0 0 0 0 n r rechunk ga)) = true.
Proof. exact (good_cells_accepted_gen REPAIRED_F1F2). Qed.
