(* Non-vacuity examples for the C09 theorems and the zero-length-row witness. *)
From SV Require Import Model.Rows Model.Chunk Model.OverlapKernels Model.Overlap.
From SV Require Import Spec.WindowLocal Spec.OverlapSpec.
From SV Require Import Proof.OverlapLists Proof.OverlapProof Proof.WindowLocalProof.

Definition ex_rows : list row :=
  [mkrow 1 2 0 0; mkrow 3 4 1 0; mkrow 4 6 2 0; mkrow 7 8 3 0; mkrow 9 15 4 0].

Definition ex_chunk (s e : Z) (rows : list row) : chunk := mkchunk s e rows 1 1 (Some 7) 1.

(* four chunks: one shorter than the window, one empty, one row (9..15) longer than the window *)
Definition ex_stream : list chunk :=
  [ex_chunk 0 4 [mkrow 1 2 0 0; mkrow 3 4 1 0]; ex_chunk 4 6 [mkrow 4 6 2 0]; ex_chunk 6 7 [];
   ex_chunk 7 16 [mkrow 7 8 3 0; mkrow 9 15 4 0]].

Example ex_rows_dsp : dsp ex_rows.
Proof. cbn. unfold pos_row. cbn. repeat split; try lia; repeat constructor; cbn; lia. Qed.

Example ex_stream_chunking : chunking_of ex_rows 0 16 1 (Some 7) ex_stream.
Proof.
  unfold chunking_of. split; [discriminate|]. split; [cbn; auto|]. split; [reflexivity|].
  split; [|split; [repeat constructor|reflexivity]].
  repeat constructor; cbn; try lia; repeat constructor; cbn; lia.
Qed.

(* the hypotheses of overlap_single_correct are met by the neighbour count with window (2, 1) ... *)
Example ex_theorem_applies :
  exists outs,
    ow_iter (single_params (f_count 2 1) true 2 1 20 10 (Some 7) 200 3) ex_stream = Ok (as_items outs) /\
    flat_map crows outs = f_count 2 1 ex_rows /\
    contiguous_from 0 outs /\ last_end 0 outs = 16 /\ Forall wf outs.
Proof.
  apply (overlap_single_correct (f_count 2 1) true 2 1 2 1 20 10 (Some 7) 200 3 ex_rows 0 16 1 (Some 7) ex_stream);
    try lia.
  - apply f_count_window_local; lia.
  - exact ex_rows_dsp.
  - exact ex_stream_chunking.
Qed.

(* ... and the run is not trivial: results spread over five output chunks with moved boundaries *)
Example ex_run_value :
  ow_iter (single_params (f_count 2 1) true 2 1 20 10 (Some 7) 200 3) ex_stream =
  Ok (as_items
        [mkchunk 0 1 [] 20 10 (Some 7) 200;
         mkchunk 1 3 [mkrow 1 2 0 1] 20 10 (Some 7) 200;
         mkchunk 3 4 [mkrow 3 4 1 3] 20 10 (Some 7) 200;
         mkchunk 4 9 [mkrow 4 6 2 2; mkrow 7 8 3 2] 20 10 (Some 7) 200;
         mkchunk 9 16 [mkrow 9 15 4 2] 20 10 (Some 7) 200]).
Proof. vm_compute. reflexivity. Qed.

(* Zero-length rows: disjoint, sorted, non-negative length *)
Fixpoint dsn (rs : list row) : Prop :=
  match rs with
  | [] => True
  | r :: rest => (0 <= rt r /\ rt r <= re r) /\ Forall (fun q => re r <= rt q) rest /\ dsn rest
  end.

Definition zl_rows : list row := [mkrow 0 0 0 0; mkrow 0 2 1 0].
Definition zl_stream : list chunk := [ex_chunk 0 2 zl_rows; ex_chunk 2 3 []].

(* the zero-length row [0,0) sits on the early-split time 0 of the first do_compute and is delivered
   again by the second one *)
Lemma zero_length_witness :
  dsn zl_rows /\ chunking_of zl_rows 0 3 1 (Some 7) zl_stream /\
  exists items,
    ow_iter (single_params (f_count 0 0) true 0 0 20 10 (Some 7) 200 3) zl_stream = Ok items /\
    delivered_rows 0 items = [mkrow 0 0 0 0; mkrow 0 0 0 0; mkrow 0 2 1 1] /\
    delivered_rows 0 items <> f_count 0 0 zl_rows.
Proof.
  split; [cbn; repeat split; try lia; repeat constructor; cbn; lia|].
  split.
  { unfold chunking_of. split; [discriminate|]. split; [cbn; auto|]. split; [reflexivity|].
    split; [|split; [repeat constructor|reflexivity]].
    repeat constructor; cbn; try lia; repeat constructor; cbn; lia. }
  eexists. split; [vm_compute; reflexivity|]. split; [vm_compute; reflexivity|]. vm_compute. discriminate.
Qed.
