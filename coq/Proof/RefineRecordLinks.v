(* Refinement: the MiniPy program regenerated from strax/processing/pulse_processing.py::record_links
   (Gen/RecordLinks.v) returns, for every array of records whose largest channel number is >= -1,
   exactly the pair (previous_record, next_record) of Model/Hits.v: record_links, or ValueError
   where the model gives Err 4 (negative channel).  (With all channels <= -2 numpy refuses to
   allocate the per-channel arrays -- also a ValueError, but raised by np.ones, which MiniPy does
   not model; the hypothesis excludes exactly that case.)

   The model keeps the two per-channel arrays as association lists; `arr_of` is the abstraction
   function from such a list to the array the Python code holds. *)
From Coq Require Import String.
From SV Require Import Lang.MiniPy Gen.RecordLinks Model.Hits.

Definition P := record_links_prog.
Definition rl_names : list str := Eval vm_compute in env_names P.
Definition rl_body : stmt := Eval vm_compute in nth_for_body 0 (fbody P).
Definition rl_i : str := Eval vm_compute in nth 0 (nth_for_targets 0 (fbody P)) EmptyString.
Definition rl_r : str := Eval vm_compute in nth 1 (nth_for_targets 0 (fbody P)) EmptyString.

(* a record of the model as an element of the structured array (the fields the kernel reads,
   under their numpy names, and the other integer fields) *)
Definition rec_val (r : rec) : list (str * val) :=
  [("time"%string, VInt (r_time r)); ("length"%string, VInt (r_length r)); ("dt"%string, VInt (r_dt r));
   ("channel"%string, VInt (r_ch r)); ("pulse_length"%string, VInt (r_plen r));
   ("record_i"%string, VInt (r_reci r)); ("data"%string, VInts (r_data r))].

(* association list -> per-channel array of nch entries *)
Definition arr_of (d : Z) (nch : nat) (L : list (Z * Z)) : list Z :=
  map (fun c => alookup d (Z.of_nat c) L) (seq 0 nch).

(* records, n_channels, samples_per_record, previous_record, next_record, last_record_seen,
   expected_next_start, i, r, ch, last_i *)
Definition rl_env (rs : list rec) (nchz spr : Z) (prev next lastA expA : list Z) (iv rv chv liv : val) : env :=
  mk_env rl_names [VRecs (map rec_val rs); VInt nchz; VInt spr; VInts prev; VInts next; VInts lastA; VInts expA;
                   iv; rv; chv; liv].

Definition embed_rl (r : res (list Z * list Z)) : outcome :=
  match r with
  | Ok (p, n) => OReturn (VTuple [VInts p; VInts n])
  | Err c => if c =? 4 then ORaise "ValueError" else OStuck
  end.

(* ---- arrays vs association lists ---- *)

Lemma arr_of_length d nch L : length (arr_of d nch L) = nch.
Proof. unfold arr_of. rewrite map_length, seq_length. reflexivity. Qed.

Lemma arr_of_idx d nch L c : 0 <= c < Z.of_nat nch -> idx (arr_of d nch L) c = Some (alookup d c L).
Proof.
  intros H. replace c with (Z.of_nat (Z.to_nat c)) at 1 by lia.
  rewrite idx_nat by (rewrite arr_of_length; lia).
  unfold arr_of. rewrite nth_error_map, nth_error_nth' with (d := 0%nat) by (rewrite seq_length; lia).
  rewrite seq_nth by lia. cbn [option_map Nat.add]. rewrite Z2Nat.id by lia. reflexivity.
Qed.

Lemma arr_of_set d nch L c v :
  0 <= c < Z.of_nat nch -> MiniPy.set_idx (arr_of d nch L) c v = Some (arr_of d nch ((c, v) :: L)).
Proof.
  intros H. set (k := Z.to_nat c).
  assert (Hk : (k < nch)%nat) by lia.
  assert (Hs : seq 0 nch = seq 0 k ++ k :: seq (S k) (nch - S k)).
  { replace nch with (k + S (nch - S k))%nat at 1 by lia. rewrite seq_app. reflexivity. }
  unfold arr_of. rewrite Hs, !map_app. cbn [map].
  replace c with (Z.of_nat (length (map (fun c0 : nat => alookup d (Z.of_nat c0) L) (seq 0 k)))) at 1
    by (rewrite map_length, seq_length; lia).
  rewrite set_idx_app_mid. f_equal. f_equal.
  - apply map_ext_in. intros a Ha. apply in_seq in Ha. cbn [alookup].
    replace (c =? Z.of_nat a) with false by lia. reflexivity.
  - cbn [alookup]. replace (c =? Z.of_nat k) with true by lia. f_equal.
    apply map_ext_in. intros a Ha. apply in_seq in Ha.
    replace (c =? Z.of_nat a) with false by lia. reflexivity.
Qed.

(* the model's total set_idx agrees with MiniPy's partial one on indices in range *)
Lemma set_nth_agree : forall (l : list Z) k v, (k < length l)%nat -> MiniPy.set_nth l k v = Some (Hits.set_nth k v l).
Proof.
  induction l as [|x l IH]; intros k v H; [cbn [length] in H; lia|].
  destruct k as [|k]; cbn [MiniPy.set_nth Hits.set_nth]; [reflexivity|].
  rewrite IH by (cbn [length] in H; lia). reflexivity.
Qed.

Lemma set_idx_agree (l : list Z) k v :
  (k < length l)%nat -> MiniPy.set_idx l (Z.of_nat k) v = Some (Hits.set_idx (Z.of_nat k) v l).
Proof.
  intros H. unfold MiniPy.set_idx, norm_index, Hits.set_idx.
  replace ((0 <=? Z.of_nat k) && (Z.of_nat k <? Z.of_nat (length l))) with true by lia.
  replace (Z.of_nat k <? 0) with false by lia. cbn iota.
  replace (Z.of_nat k <? 0) with false by lia. rewrite Nat2Z.id. apply set_nth_agree. exact H.
Qed.

Lemma hits_set_nth_length : forall (l : list Z) k v, length (Hits.set_nth k v l) = length l.
Proof. induction l as [|x l IH]; intros [|k] v; cbn [Hits.set_nth length]; auto. Qed.

Lemma hits_set_idx_length (l : list Z) j v : length (Hits.set_idx j v l) = length l.
Proof.
  unfold Hits.set_idx. destruct (_ <? 0); [reflexivity|]. apply hits_set_nth_length.
Qed.

Lemma alookup_range d k c L :
  Forall (fun p => 0 <= snd p < k) L -> alookup d c L = d \/ 0 <= alookup d c L < k.
Proof.
  induction L as [|[c' v] L IH]; intros H; cbn [alookup]; [left; reflexivity|].
  inversion H as [|? ? Hv HL]; subst. cbn [snd] in Hv.
  destruct (c' =? c); [right; exact Hv|apply IH, HL].
Qed.

(* ---- one iteration ---- *)

Lemma rl_step fuel rs nch spr prev next lastL expL iv rv chv liv k r :
  (k < length prev)%nat -> length next = length prev ->
  r_ch r < Z.of_nat nch ->
  Forall (fun p => 0 <= snd p < Z.of_nat k) lastL ->
  exec fuel rl_body
       (bind_all (rl_env rs (Z.of_nat nch) spr prev next (arr_of NO_RECORD_LINK nch lastL) (arr_of 0 nch expL) iv rv chv liv)
                 [(rl_i, zi k); (rl_r, VRec (rec_val r))]) =
  let ch := r_ch r in
  if ch <? 0 then ORaise "ValueError"
  else
    let last_i := alookup NO_RECORD_LINK ch lastL in
    let i := Z.of_nat k in
    let '(prev', next') :=
      if r_reci r =? 0 then (Hits.set_idx i NO_RECORD_LINK prev, next)
      else if negb (last_i =? NO_RECORD_LINK) && (r_time r =? alookup 0 ch expL)
           then (Hits.set_idx i last_i prev, Hits.set_idx last_i i next)
      else (prev, next) in
    ONormal (rl_env rs (Z.of_nat nch) spr prev' next'
                    (arr_of NO_RECORD_LINK nch ((ch, i) :: lastL))
                    (arr_of 0 nch ((ch, r_time r + spr * r_dt r) :: expL))
                    (zi k) (VRec (rec_val r)) (VInt ch) (VInt last_i)).
Proof.
  intros Hk Hn Hch Hl. cbv zeta.
  unfold rl_body, rl_env, rl_names, rl_i, rl_r, rec_val, NO_RECORD_LINK. mp_eval.
  mp_steps.
  destruct (r_ch r <? 0) eqn:E0; mp_steps; [reflexivity|].
  assert (Hc : 0 <= r_ch r < Z.of_nat nch) by lia.
  rewrite (arr_of_idx (-1) nch lastL (r_ch r) Hc). mp_steps.
  pose proof (alookup_range (-1) (Z.of_nat k) (r_ch r) lastL Hl) as Hr.
  set (li := alookup (-1) (r_ch r) lastL) in *.
  destruct (r_reci r =? 0) eqn:E1; mp_steps.
  - rewrite (set_idx_agree prev k (-1) Hk). mp_steps.
    rewrite (arr_of_set (-1) nch lastL (r_ch r) (Z.of_nat k) Hc). mp_steps.
    rewrite (arr_of_set 0 nch expL (r_ch r) _ Hc). reflexivity.
  - destruct (negb (li =? -1)) eqn:E2; cbn [andb]; mp_eval.
    + rewrite (arr_of_idx 0 nch expL (r_ch r) Hc). mp_eval.
      destruct (r_time r =? alookup 0 (r_ch r) expL) eqn:E3; mp_steps.
      * rewrite (set_idx_agree prev k li Hk). mp_steps.
        assert (Hli : 0 <= li < Z.of_nat k) by (destruct Hr as [Hr|Hr]; [lia|exact Hr]).
        replace li with (Z.of_nat (Z.to_nat li)) at 1 2 by lia.
        rewrite (set_idx_agree next (Z.to_nat li) (Z.of_nat k)) by lia.
        rewrite Z2Nat.id by lia. mp_steps.
        rewrite (arr_of_set (-1) nch lastL (r_ch r) (Z.of_nat k) Hc). mp_steps.
        rewrite (arr_of_set 0 nch expL (r_ch r) _ Hc). reflexivity.
      * rewrite (arr_of_set (-1) nch lastL (r_ch r) (Z.of_nat k) Hc). mp_steps.
        rewrite (arr_of_set 0 nch expL (r_ch r) _ Hc). reflexivity.
    + mp_steps.
      rewrite (arr_of_set (-1) nch lastL (r_ch r) (Z.of_nat k) Hc). mp_steps.
      rewrite (arr_of_set 0 nch expL (r_ch r) _ Hc). reflexivity.
Qed.

(* ---- the loop ---- *)

Lemma rl_loop_ref fuel rs nch spr : forall (rest pre : list rec) (prev next : list Z) lastL expL iv rv chv liv,
  length prev = (length pre + length rest)%nat -> length next = length prev ->
  Forall (fun r => r_ch r < Z.of_nat nch) rest ->
  Forall (fun p => 0 <= snd p < Z.of_nat (length pre)) lastL ->
  let start := rl_env rs (Z.of_nat nch) spr prev next (arr_of NO_RECORD_LINK nch lastL) (arr_of 0 nch expL) iv rv chv liv in
  let run_loop := iter_list (exec fuel rl_body) (enum_binds rl_i rl_r (length pre) (map VRec (map rec_val rest))) start in
  match rl_loop spr rest (Z.of_nat (length pre)) prev next lastL expL with
  | Ok (p', n') => exists lastA' expA' iv' rv' chv' liv',
      run_loop = ONormal (rl_env rs (Z.of_nat nch) spr p' n' lastA' expA' iv' rv' chv' liv')
  | Err c => c = 4 /\ run_loop = ORaise "ValueError"
  end.
Proof.
  induction rest as [|r rest IH]; intros pre prev next lastL expL iv rv chv liv Hp Hn Hch Hl; cbv zeta.
  - cbn [rl_loop map]. rewrite enum_binds_nil, iter_list_nil. eauto 10.
  - cbn [map]. rewrite enum_binds_cons, iter_list_cons.
    inversion Hch as [|? ? Hc1 Hch']; subst.
    rewrite (rl_step fuel rs nch spr prev next lastL expL iv rv chv liv (length pre) r)
      by (try assumption; cbn [length] in Hp; lia).
    cbv zeta. cbn [rl_loop].
    destruct (r_ch r <? 0) eqn:E0; [split; reflexivity|].
    set (pn := if r_reci r =? 0 then (Hits.set_idx (Z.of_nat (length pre)) NO_RECORD_LINK prev, next)
               else if negb (alookup NO_RECORD_LINK (r_ch r) lastL =? NO_RECORD_LINK) &&
                       (r_time r =? alookup 0 (r_ch r) expL)
                    then (Hits.set_idx (Z.of_nat (length pre)) (alookup NO_RECORD_LINK (r_ch r) lastL) prev,
                          Hits.set_idx (alookup NO_RECORD_LINK (r_ch r) lastL) (Z.of_nat (length pre)) next)
                    else (prev, next)).
    assert (Hlen : length (fst pn) = length prev /\ length (snd pn) = length next).
    { subst pn. destruct (r_reci r =? 0); [cbn [fst snd]; rewrite hits_set_idx_length; auto|].
      destruct (_ && _); cbn [fst snd]; rewrite ?hits_set_idx_length; auto. }
    destruct pn as [prev' next']. cbn [fst snd] in Hlen. destruct Hlen as [Hl1 Hl2].
    specialize (IH (pre ++ [r]) prev' next' ((r_ch r, Z.of_nat (length pre)) :: lastL)
                   ((r_ch r, r_time r + spr * r_dt r) :: expL)
                   (zi (length pre)) (VRec (rec_val r)) (VInt (r_ch r)) (VInt (alookup NO_RECORD_LINK (r_ch r) lastL))).
    cbv zeta in IH. rewrite app_length in IH. cbn [length] in IH. rewrite Nat.add_1_r in IH.
    replace (Z.of_nat (S (length pre))) with (Z.of_nat (length pre) + 1) in IH by lia.
    apply IH.
    + cbn [length] in Hp. lia.
    + congruence.
    + exact Hch'.
    + constructor; [cbn [snd]; lia|]. eapply Forall_impl; [|exact Hl]. intros p Hp'. cbn beta in *. lia.
Qed.

(* ---- the whole function ---- *)

Lemma recs_col_channel rs : recs_col "channel" (map rec_val rs) = Some (map r_ch rs).
Proof.
  induction rs as [|r rs IH]; [reflexivity|].
  cbn [map recs_col]. rewrite IH. reflexivity.
Qed.

Lemma arr_of_nil d nch : arr_of d nch [] = repeat d nch.
Proof. unfold arr_of. cbn [alookup]. rewrite map_const_repeat, seq_length. reflexivity. Qed.

Theorem record_links_refines fuel rs :
  (rs = [] \/ Exists (fun r => -1 <= r_ch r) rs) ->
  run fuel record_links_prog [VRecs (map rec_val rs)] = embed_rl (record_links rs).
Proof.
  intros Hmx.
  unfold run, record_links_prog. mp_eval.
  mp_step. mp_step. rewrite len_z_map.
  destruct rs as [|r0 rest].
  { rewrite len_z_nil. cbn [Z.eqb negb]. mp_steps. change 0 with (Z.of_nat 0). rewrite full_nat. reflexivity. }
  assert (Hlen : len_z (r0 :: rest) =? 0 = false) by (rewrite len_z_cons; pose proof (len_z_nonneg rest); lia).
  rewrite Hlen. cbn [negb]. mp_steps.
  rewrite recs_col_channel. cbn [map max_of]. mp_eval.
  set (mx := zmaxl (r_ch r0) (map r_ch rest)).
  assert (Hmx' : -1 <= mx).
  { destruct Hmx as [Hmx|Hmx]; [discriminate|]. subst mx.
    apply Exists_exists in Hmx. destruct Hmx as (r & Hin & Hr). destruct Hin as [<-|Hin].
    - pose proof (zmaxl_ge (r_ch r0) (map r_ch rest)). lia.
    - pose proof (zmaxl_in (r_ch r0) (map r_ch rest) (r_ch r) (in_map r_ch _ _ Hin)). lia. }
  assert (Hall : Forall (fun r => r_ch r < Z.of_nat (Z.to_nat (mx + 1))) (r0 :: rest)).
  { apply Forall_forall. intros r Hin. subst mx. destruct Hin as [<-|Hin].
    - pose proof (zmaxl_ge (r_ch r0) (map r_ch rest)). lia.
    - pose proof (zmaxl_in (r_ch r0) (map r_ch rest) (r_ch r) (in_map r_ch _ _ Hin)). lia. }
  set (nch := Z.to_nat (mx + 1)) in *.
  replace (mx + 1) with (Z.of_nat nch) by lia.
  mp_steps. cbn [map]. rewrite idx_0. mp_steps.
  change (rec_get "data" (rec_val r0)) with (Some (VInts (r_data r0))). mp_eval. mp_steps.
  assert (Hlz : len_z (rec_val r0 :: map rec_val rest) = Z.of_nat (length (r0 :: rest)))
    by (unfold len_z; cbn [length]; rewrite map_length; reflexivity).
  rewrite Hlz, full_nat. mp_steps. rewrite Hlz, full_nat. mp_steps.
  rewrite full_nat. mp_steps. rewrite zeros_nat. mp_steps.
  remember (r0 :: rest) as rs eqn:Ers.
  pose proof (rl_loop_ref fuel rs nch (len_z (r_data r0)) rs [] (repeat (-1) (length rs)) (repeat (-1) (length rs)) [] []
                          VUndef VUndef VUndef VUndef) as HL.
  cbv zeta in HL. rewrite !arr_of_nil in HL. cbn [length Nat.add] in HL.
  specialize (HL (repeat_length _ _)).
  specialize (HL eq_refl Hall (Forall_nil _)).
  unfold record_links. replace (spr_of rs) with (len_z (r_data r0)) by (rewrite Ers; reflexivity).
  unfold NO_RECORD_LINK in *. change (Z.of_nat 0) with 0 in HL.
  change (rec_val r0 :: map rec_val rest) with (map rec_val (r0 :: rest)). rewrite <- Ers.
  destruct (rl_loop (len_z (r_data r0)) rs 0 (repeat (-1) (length rs)) (repeat (-1) (length rs)) [] []) as [[p' n']|c].
  - destruct HL as (lastA' & expA' & iv' & rv' & chv' & liv' & HL).
    unfold rl_env, rl_names, rl_i, rl_r, rl_body in HL. mp_eval_in HL.
    rewrite HL. clear HL. mp_steps. reflexivity.
  - destruct HL as [-> HL].
    unfold rl_env, rl_names, rl_i, rl_r, rl_body in HL. mp_eval_in HL.
    rewrite HL. reflexivity.
Qed.

Example record_links_prog_runs :
  let mk t ch ri := mkrec t 2 1 ch 4 ri 0 0 0 0 0 [0; 0] in
  run 0 record_links_prog [VRecs (map rec_val [mk 0 1 0; mk 0 0 0; mk 2 1 1; mk 9 0 1])]
  = OReturn (VTuple [VInts [-1; -1; 0; -1]; VInts [2; -1; -1; -1]])
  /\ run 0 record_links_prog [VRecs (map rec_val [mk 0 1 0; mk 0 (-1) 0])] = ORaise "ValueError".
Proof. vm_compute. split; reflexivity. Qed.
