(* find_peak_groups: one interval per cluster of the unique gap clustering of the peaks, from the
   first start minus left_extension to the latest end plus right_extension.
   add_lone_hits: every peak gains exactly the areas of the lone hits contained in it, in area,
   per channel and as delta pulses in the waveform: area = integral stays true; times, lengths and
   dt are untouched. *)
From SV Require Import Model.Peaks Spec.PeaksSpec Proof.PeaksProof Proof.PeaksTheorems Model.Groups
  Proof.SumWaveformProof.

(* ------------------------------------------------------------------------------------------ *)
(* find_peak_groups *)
Section Groups.
Variables gap lext rext maxdur : Z.
Let P := group_params gap lext rext maxdur.

Definition fake_group (g : list hit) : Prop := g <> [] /\ forall h, In h g -> hdt h = 1 /\ hch h = 0 /\ harea h = 1.

Lemma fake_garea g : (forall h, In h g -> hdt h = 1 /\ hch h = 0 /\ harea h = 1) ->
  zsum (map (contrib [1]) (filter (fun h => hch h =? 0) g)) = zlen g /\ garea [1] g = zlen g.
Proof.
  unfold garea. induction g as [|h r IH]; intros H; [split; reflexivity|].
  destruct (H h (or_introl eq_refl)) as (H1 & H2 & H3).
  destruct IH as [I1 I2]; [intros x Hx; apply H; right; exact Hx|].
  cbn [filter map zsum]. rewrite H2. cbn [Z.eqb map zsum]. unfold contrib at 1 3. rewrite H2, H3.
  unfold zget. cbn [Z.to_nat nth]. unfold zlen in *. cbn [length]. rewrite Nat2Z.inj_succ. lia.
Qed.

Lemma fake_keep g : fake_group g -> keep P [1] 1 g = true.
Proof.
  intros [Hne H]. destruct (fake_garea g H) as [G1 G2]. unfold keep.
  assert (Hl : 1 <= zlen g) by (destruct g; [congruence|unfold zlen; cbn [length]; lia]).
  unfold P, group_params. cbn [fp_min_area fp_min_ch]. rewrite G2.
  unfold gapc. cbn [zseq map]. rewrite G1. unfold count_nz. cbn [filter].
  destruct (zlen g =? 0) eqn:E; [lia|]. cbn. destruct (zlen g <? 0) eqn:E2; [lia|]. reflexivity.
Qed.

Lemma fake_interval g : fake_group g ->
  (pt (peak_of P [1] 1 g), pend (peak_of P [1] 1 g)) = (gfirst g - lext, gend g + rext).
Proof.
  intros [Hne H]. unfold pend, peak_of. cbn [pt plen pdt]. unfold gstart, P, group_params. cbn [fp_lext].
  f_equal. unfold glen, gstart. cbn [fp_lext fp_rext].
  assert (Hl : glast_dt g = 1).
  { unfold glast_dt. apply H. destruct g as [|h0 tl]; [congruence|]. apply exists_last in Hne.
    destruct Hne as (l' & a & ->). rewrite last_last. apply in_or_app. right. left. reflexivity. }
  assert (Hd : gdt g = 1) by (destruct g as [|h0 tl]; [congruence|]; apply H; left; reflexivity).
  rewrite Hl, Hd, Z.quot_1_r. lia.
Qed.

Theorem find_peak_groups_spec pk out :
  find_peak_groups gap lext rext maxdur pk = Ok out ->
  fp_asserts P [1] (map fake_hit pk) = true ->
  exists gs, Clustering P (map fake_hit pk) gs /\
             (forall gs', Clustering P (map fake_hit pk) gs' -> gs' = gs) /\
             concat gs = map fake_hit pk /\
             out = map (fun g => (gfirst g - lext, gend g + rext)) gs.
Proof.
  unfold find_peak_groups. intros Hrun Ha.
  destruct (forallb (fun h => hlen h >? 0) (map fake_hit pk)); [|discriminate].
  fold P in Hrun.
  destruct (find_peaks P [1] 1 (map fake_hit pk)) as [ps|e] eqn:Efp; cbn [res_bind] in Hrun; [|discriminate].
  injection Hrun as <-.
  assert (Hch : Forall (fun x => 0 <= hch x) (map fake_hit pk)).
  { rewrite Forall_map, Forall_forall. intros te _. cbn. lia. }
  destruct (find_peaks_spec P [1] 1 _ _ Hch Ha Efp) as (gs & Hcl & Hun & Hcat & Hps & _).
  exists gs. split; [exact Hcl|]. split; [exact Hun|]. split; [exact Hcat|].
  assert (Hfake : Forall fake_group gs).
  { pose proof (Clustering_groups P _ _ Hcl) as Hg. eapply Forall_impl; [|exact Hg]. cbn.
    intros g [Hne Hin]. split; [exact Hne|]. intros h Hh. specialize (Hin h Hh).
    apply in_map_iff in Hin. destruct Hin as (te & <- & _). cbn. repeat split. }
  rewrite Hps. clear - Hfake. induction Hfake as [|g gs Hg _ IH]; [reflexivity|].
  cbn [filter]. rewrite (fake_keep g Hg). cbn [map]. rewrite IH. f_equal. apply fake_interval, Hg.
Qed.
End Groups.

Example find_peak_groups_example :
  find_peak_groups 10 1 2 1000 [(0, 5); (8, 12); (30, 31)] = Ok [(-1, 14); (29, 33)].
Proof. vm_compute. reflexivity. Qed.

(* ------------------------------------------------------------------------------------------ *)
(* add_lone_hits *)
Lemma lset_length {X} (l : list X) : forall i x, length (lset l i x) = length l.
Proof. induction l as [|y l IH]; intros [|i] x; cbn [lset length]; auto. Qed.

Lemma lset_nth {X} (l : list X) d : forall i x k,
  nth k (lset l i x) d = if (k =? i)%nat && (i <? length l)%nat then x else nth k l d.
Proof.
  induction l as [|y l IH]; intros i x k.
  - cbn [lset length]. change (i <? 0)%nat with false. rewrite Bool.andb_false_r. reflexivity.
  - destruct i as [|i]; cbn [lset].
    + destruct k; cbn [nth]; reflexivity.
    + destruct k; cbn [nth length]; [reflexivity|]. rewrite IH.
      change (S k =? S i)%nat with (k =? i)%nat. change (S i <? S (length l))%nat with (i <? length l)%nat.
      reflexivity.
Qed.

(* what does not change, and what the containment of hit h in peak p means *)
Definition lshape (p : lpeak) : Z * Z * Z * nat * nat :=
  (lp_t p, lp_len p, lp_dt p, length (lp_apc p), length (lp_data p)).
Definition hit_in (p : lpeak) (h : lhit) : Prop :=
  0 < lp_dt p /\ lp_t p <= lh_t h < lp_t p + lp_len p * lp_dt p /\ lp_len p <= zlen (lp_data p) /\
  0 <= lh_ch h < zlen (lp_apc p).
Definition alh_valid (peaks : list lpeak) (fc : list Z) (lhs : list lhit) : Prop :=
  Forall2 (fun i h => i = -1 \/ (0 <= i < zlen peaks /\ hit_in (nth (Z.to_nat i) peaks lp0) h)) fc lhs.

(* area of the lone hits assigned to peak k *)
Definition added (gains : list Z) (k : Z) (fc : list Z) (lhs : list lhit) : Z :=
  zsum (map (fun x => if fst x =? k then lh_amount gains (snd x) else 0) (combine fc lhs)).

Lemma add_one_ok gains p h : hit_in p h ->
  exists p', add_one gains p h = Ok p' /\ lshape p' = lshape p /\
    lp_area p' = lp_area p + lh_amount gains h /\
    zsum (lp_data p') = zsum (lp_data p) + lh_amount gains h /\
    zsum (lp_apc p') = zsum (lp_apc p) + lh_amount gains h.
Proof.
  intros (Hdt & Ht & Hl & Hc). unfold add_one. cbv zeta.
  set (index := (lh_t h - lp_t p) / lp_dt p).
  assert (Hi : 0 <= index < lp_len p).
  { unfold index. split; [apply Z.div_pos; lia|]. apply Z.div_lt_upper_bound; nia. }
  destruct ((index <? 0) || (index >? zlen (lp_data p))) eqn:E; [lia|].
  eexists. split; [reflexivity|]. unfold zlen in *.
  destruct (zupd_sum (lp_data p) (Z.to_nat index) (lh_amount gains h) ltac:(lia)) as [D1 D2].
  destruct (zupd_sum (lp_apc p) (Z.to_nat (lh_ch h)) (lh_amount gains h) ltac:(lia)) as [A1 A2].
  unfold lshape. cbn [lp_t lp_len lp_dt lp_area lp_apc lp_data]. rewrite D2, A2.
  repeat split; assumption.
Qed.

Theorem add_lone_hits_conserves gains : forall fc lhs peaks,
  alh_valid peaks fc lhs ->
  exists peaks', add_lone_hits gains peaks fc lhs = Ok peaks' /\
    map lshape peaks' = map lshape peaks /\
    forall k, 0 <= k < zlen peaks ->
      let p := nth (Z.to_nat k) peaks lp0 in let p' := nth (Z.to_nat k) peaks' lp0 in
      lp_area p' = lp_area p + added gains k fc lhs /\
      zsum (lp_data p') = zsum (lp_data p) + added gains k fc lhs /\
      zsum (lp_apc p') = zsum (lp_apc p) + added gains k fc lhs.
Proof.
  induction fc as [|i fc IH]; intros lhs peaks Hv.
  - inversion Hv; subst. exists peaks. cbn [add_lone_hits]. unfold added. cbn [combine map zsum].
    repeat split; lia.
  - inversion Hv as [|? h ? lhs' Hi Hv']; subst. cbn [add_lone_hits].
    destruct (i =? -1) eqn:Ei.
    + destruct (IH lhs' peaks Hv') as (peaks' & Hrun & Hsh & Hk). exists peaks'.
      split; [exact Hrun|]. split; [exact Hsh|]. intros k Hkr. specialize (Hk k Hkr). cbv zeta in *.
      unfold added in *. cbn [combine map zsum fst snd].
      destruct (i =? k) eqn:Eik; [lia|]. lia.
    + destruct Hi as [Hi|[Hir Hin]]; [lia|].
      destruct (add_one_ok gains _ h Hin) as (p' & Hone & Hshp & Ha & Hd & Hc).
      rewrite Hone. cbn [res_bind].
      set (peaks1 := lset peaks (Z.to_nat i) p').
      assert (Hsh1 : map lshape peaks1 = map lshape peaks).
      { apply nth_ext with (d := lshape lp0) (d' := lshape lp0);
          [rewrite !map_length; apply lset_length|].
        intros n Hn. rewrite !map_nth. unfold peaks1. rewrite lset_nth.
        destruct (Nat.eqb_spec n (Z.to_nat i)) as [->|Hne]; cbn [andb]; [|reflexivity].
        destruct (Nat.ltb_spec (Z.to_nat i) (length peaks)); [exact Hshp|reflexivity]. }
      assert (Hlen1 : zlen peaks1 = zlen peaks) by (unfold zlen, peaks1; now rewrite lset_length).
      assert (Hv1 : alh_valid peaks1 fc lhs').
      { unfold alh_valid in *. clear - Hv' Hsh1 Hlen1. induction Hv' as [|j g fc' l' Hj _ IHv]; constructor; [|exact IHv].
        destruct Hj as [Hj|[Hjr Hjin]]; [left; exact Hj|]. right. split; [lia|].
        assert (Es : lshape (nth (Z.to_nat j) peaks1 lp0) = lshape (nth (Z.to_nat j) peaks lp0)).
        { rewrite <- !(map_nth lshape). now rewrite Hsh1. }
        unfold lshape in Es. injection Es as E1 E2 E3 E4 E5. unfold hit_in, zlen in *.
        rewrite E1, E2, E3, E4, E5. exact Hjin. }
      destruct (IH lhs' peaks1 Hv1) as (peaks' & Hrun & Hsh & Hk). exists peaks'.
      split; [exact Hrun|]. split; [now rewrite Hsh|]. intros k Hkr.
      specialize (Hk k ltac:(lia)). cbv zeta in *. unfold added in *. cbn [combine map zsum fst snd].
      unfold peaks1 in Hk. rewrite lset_nth in Hk.
      assert (Hlt : (Z.to_nat i <? length peaks)%nat = true) by (apply Nat.ltb_lt; unfold zlen in Hir; lia).
      rewrite Hlt, Bool.andb_true_r in Hk.
      destruct (Z.eqb_spec i k) as [->|Hne].
      * rewrite Nat.eqb_refl in Hk. lia.
      * destruct (Nat.eqb_spec (Z.to_nat k) (Z.to_nat i)) as [Heq|_]; [lia|]. lia.
Qed.

(* peaks whose area equals the integral of the waveform and the sum over the channels keep that *)
Corollary add_lone_hits_keeps_area_integral gains fc lhs peaks peaks' :
  alh_valid peaks fc lhs -> add_lone_hits gains peaks fc lhs = Ok peaks' ->
  Forall (fun p => lp_area p = zsum (lp_data p) /\ lp_area p = zsum (lp_apc p)) peaks ->
  Forall (fun p => lp_area p = zsum (lp_data p) /\ lp_area p = zsum (lp_apc p)) peaks'.
Proof.
  intros Hv Hrun Hall. destruct (add_lone_hits_conserves gains fc lhs peaks Hv) as (ps & Hrun' & Hsh & Hk).
  rewrite Hrun in Hrun'. injection Hrun' as <-.
  assert (Hlen : length peaks' = length peaks) by (rewrite <- (map_length lshape), Hsh; apply map_length).
  rewrite Forall_forall in *. intros p' Hp'. destruct (In_nth _ _ lp0 Hp') as (n & Hn & <-).
  specialize (Hk (Z.of_nat n) ltac:(unfold zlen; lia)). cbv zeta in Hk. rewrite Nat2Z.id in Hk.
  destruct (Hall (nth n peaks lp0)) as [H1 H2]; [apply nth_In; lia|]. lia.
Qed.

Example add_lone_hits_example :
  add_lone_hits [2; 1] [mklp 10 4 2 5 [5; 0] [1; 4; 0; 0]; mklp 30 2 1 0 [0; 0] [0; 0]]
                [0; -1; 1] [mklh 13 1 3; mklh 20 0 1; mklh 31 0 2]
  = Ok [mklp 10 4 2 8 [5; 3] [1; 7; 0; 0]; mklp 30 2 1 4 [4; 0] [0; 4]].
Proof. vm_compute. reflexivity. Qed.
