(* Facts about the data-structure helpers of Model/Mailbox.v: upd, insert, get_msg, gc, take_from,
   min_nread, and the "segment" view of the box used by the in-order invariants. *)
From SV Require Import Base.Prelude Model.Mailbox.
Local Open Scope nat_scope.

(* ---------- upd ---------- *)
Lemma upd_length {A} i (x : A) l : length (upd i x l) = length l.
Proof. revert i; induction l as [|h t IH]; intros [|i]; cbn; auto. Qed.

Lemma nth_error_upd_eq {A} i (x : A) l : i < length l -> nth_error (upd i x l) i = Some x.
Proof. revert i; induction l as [|h t IH]; intros [|i] H; cbn in *; try lia; auto. apply IH; lia. Qed.

Lemma nth_error_upd_neq {A} i j (x : A) l : i <> j -> nth_error (upd i x l) j = nth_error l j.
Proof. revert i j; induction l as [|h t IH]; intros [|i] [|j] H; cbn; auto; try congruence. Qed.

Lemma nth_error_upd {A} i j (x : A) l y :
  nth_error (upd i x l) j = Some y ->
  (i = j /\ y = x /\ i < length l) \/ (i <> j /\ nth_error l j = Some y).
Proof.
  destruct (Nat.eq_dec i j) as [->|Hne].
  - intros H. assert (j < length l).
    { rewrite <- (upd_length j x l). apply nth_error_Some. congruence. }
    rewrite nth_error_upd_eq in H by auto. left; repeat split; auto; congruence.
  - rewrite nth_error_upd_neq by auto. auto.
Qed.

Lemma upd_map {A B} (f : A -> B) i x l : map f (upd i x l) = upd i (f x) (map f l).
Proof. revert i; induction l as [|h t IH]; intros [|i]; cbn; auto. now rewrite IH. Qed.

Lemma upd_same {A} i (l : list A) x : nth_error l i = Some x -> upd i x l = l.
Proof. revert i; induction l as [|h t IH]; intros [|i] H; cbn in *; try congruence. now rewrite IH. Qed.

Lemma nth_error_map_some {A B} (f : A -> B) l i y :
  nth_error (map f l) i = Some y -> exists x, nth_error l i = Some x /\ y = f x.
Proof.
  revert i; induction l as [|h t IH]; intros [|i] H; cbn in *; try congruence.
  - inversion H; eauto.
  - eauto.
Qed.

(* ---------- get_msg / insert / gc ---------- *)
Lemma has_msg_gc lo b k : has_msg (gc lo b) k = true -> has_msg b k = true.
Proof.
  unfold has_msg. induction b as [|[k' m'] t IH]; auto.
  cbn [gc]. destruct (k' <? lo) eqn:E; auto.
  intros H. cbn [get_msg]. destruct (k' =? k) eqn:E2; auto.
Qed.

Lemma gc_length lo b : length (gc lo b) <= length b.
Proof. induction b as [|[k m] t IH]; cbn [gc length]; auto. destruct (k <? lo); cbn [length]; lia. Qed.

Lemma insert_length k m b : length (insert k m b) = S (length b).
Proof. induction b as [|[k' m'] t IH]; cbn [insert length]; auto. destruct (k <? k'); cbn [length]; lia. Qed.

(* ---------- the segment view: numbers a .. a+len-1 of the message list A ---------- *)
Fixpoint seg (A : list msg) (a len : nat) : list (nat * msg) :=
  match len with
  | O => []
  | S l => match nth_error A a with Some m => (a, m) :: seg A (S a) l | None => [] end
  end.

Lemma seg_length A a len : a + len <= length A -> length (seg A a len) = len.
Proof.
  revert a; induction len as [|l IH]; intros a H; cbn; auto.
  destruct (nth_error A a) eqn:E.
  - cbn. rewrite IH; auto; lia.
  - apply nth_error_None in E. lia.
Qed.

Lemma get_msg_seg A a len k :
  a + len <= length A ->
  get_msg (seg A a len) k = if (a <=? k) && (k <? a + len) then nth_error A k else None.
Proof.
  revert a; induction len as [|l IH]; intros a H; cbn [seg get_msg].
  - destruct (a <=? k) eqn:E1, (k <? a + 0) eqn:E2; cbn [andb]; auto; lia.
  - destruct (nth_error A a) eqn:E.
    + cbn [get_msg]. destruct (a =? k) eqn:Eak.
      * apply Nat.eqb_eq in Eak; subst k.
        replace (a <=? a) with true by (symmetry; apply Nat.leb_le; lia).
        replace (a <? a + S l) with true by (symmetry; apply Nat.ltb_lt; lia). cbn [andb]. auto.
      * rewrite IH by lia. apply Nat.eqb_neq in Eak.
        destruct (S a <=? k) eqn:E1, (a <=? k) eqn:E2, (k <? S a + l) eqn:E3, (k <? a + S l) eqn:E4;
          cbn [andb]; auto; lia.
    + apply nth_error_None in E. lia.
Qed.

Lemma has_msg_seg A a len k :
  a + len <= length A -> has_msg (seg A a len) k = (a <=? k) && (k <? a + len).
Proof.
  intros H. unfold has_msg. rewrite get_msg_seg by auto.
  destruct ((a <=? k) && (k <? a + len)) eqn:E; auto.
  destruct (nth_error A k) eqn:E2; auto.
  apply nth_error_None in E2. lia.
Qed.

Lemma insert_seg A a len m :
  nth_error A (a + len) = Some m -> insert (a + len) m (seg A a len) = seg A a (S len).
Proof.
  revert a; induction len as [|l IH]; intros a H.
  - rewrite Nat.add_0_r in *. cbn [seg insert]. now rewrite H.
  - cbn [seg]. destruct (nth_error A a) eqn:E.
    + cbn [insert]. replace (a + S l <? a) with false by (symmetry; apply Nat.ltb_ge; lia).
      f_equal. replace (a + S l) with (S a + l) in * by lia. rewrite IH by auto. reflexivity.
    + exfalso. apply nth_error_None in E.
      assert (a + S l < length A) by (apply nth_error_Some; congruence). lia.
Qed.

Lemma gc_seg A a len lo :
  a <= lo -> lo <= a + len -> a + len <= length A -> gc lo (seg A a len) = seg A lo (a + len - lo).
Proof.
  revert a; induction len as [|l IH]; intros a H1 H2 H3.
  - cbn. replace (a + 0 - lo) with 0 by lia. reflexivity.
  - cbn [seg]. destruct (nth_error A a) eqn:E.
    + cbn [gc]. destruct (a <? lo) eqn:E1.
      * apply Nat.ltb_lt in E1. rewrite IH by lia. f_equal. lia.
      * apply Nat.ltb_ge in E1. assert (lo = a) by lia. subst lo.
        replace (a + S l - a) with (S l) by lia. cbn [seg]. now rewrite E.
    + apply nth_error_None in E. lia.
Qed.

Lemma seg_hd A a len k m t : seg A a len = (k, m) :: t -> k = a.
Proof. destruct len; cbn; try discriminate. destruct (nth_error A a); try discriminate. congruence. Qed.

(* ---------- take_from on a segment ---------- *)
Fixpoint stop_in (ms : list msg) : bool :=
  match ms with [] => false | m :: t => is_stop m || stop_in t end.

Lemma take_from_seg A a len fuel n :
  a + len <= length A -> a <= n -> n <= a + len -> a + len - n <= fuel ->
  take_from fuel (seg A a len) n =
    (firstn (a + len - n) (skipn n A), a + len, stop_in (firstn (a + len - n) (skipn n A))).
Proof.
  revert n; induction fuel as [|f IH]; intros n H1 H2 H3 H4.
  - cbn. replace (a + len - n) with 0 by lia. cbn. f_equal. f_equal. lia.
  - cbn [take_from]. rewrite get_msg_seg by auto.
    destruct (Nat.eq_dec n (a + len)) as [->|Hne].
    + replace (a <=? a + len) with true by (symmetry; apply Nat.leb_le; lia).
      replace (a + len <? a + len) with false by (symmetry; apply Nat.ltb_ge; lia).
      cbn. replace (a + len - (a + len)) with 0 by lia. reflexivity.
    + replace (a <=? n) with true by (symmetry; apply Nat.leb_le; lia).
      replace (n <? a + len) with true by (symmetry; apply Nat.ltb_lt; lia). cbn [andb].
      destruct (nth_error A n) eqn:E.
      * rewrite IH by lia.
        replace (a + len - n) with (S (a + len - S n)) by lia.
        assert (Hs : skipn n A = m :: skipn (S n) A).
        { clear - E. revert n E; induction A as [|h t IHA]; intros [|n] E; cbn [nth_error skipn] in *;
            try congruence.
          apply IHA in E. exact E. }
        rewrite Hs. cbn [firstn stop_in]. reflexivity.
      * apply nth_error_None in E. lia.
Qed.

(* ---------- min_nread ---------- *)
Lemma min_nread_one h : min_nread [h] = r_nread h.
Proof. reflexivity. Qed.
Lemma min_nread_cons h h2 t : min_nread (h :: h2 :: t) = Nat.min (r_nread h) (min_nread (h2 :: t)).
Proof. reflexivity. Qed.

Lemma min_nread_le l i r : nth_error l i = Some r -> min_nread l <= r_nread r.
Proof.
  revert i; induction l as [|h t IH]; intros i H.
  - destruct i; discriminate.
  - destruct t as [|h2 t2].
    + destruct i as [|i]; cbn [nth_error] in H; [inversion H; subst; rewrite min_nread_one; lia|].
      destruct i; discriminate.
    + rewrite min_nread_cons. destruct i as [|i]; cbn [nth_error] in H.
      * inversion H; subst. lia.
      * specialize (IH _ H). lia.
Qed.

Lemma min_nread_in l : l <> [] -> exists i r, nth_error l i = Some r /\ r_nread r = min_nread l.
Proof.
  induction l as [|h t IH]; [congruence|]. intros _.
  destruct t as [|h2 t2].
  - exists 0, h. split; reflexivity.
  - destruct IH as (i & r & Hi & Hr); [congruence|].
    rewrite min_nread_cons.
    destruct (Nat.le_gt_cases (r_nread h) (min_nread (h2 :: t2))).
    + exists 0, h. split; [reflexivity|lia].
    + exists (S i), r. split; [exact Hi|lia].
Qed.

Lemma min_nread_ge l b : l <> [] -> (forall i r, nth_error l i = Some r -> b <= r_nread r) -> b <= min_nread l.
Proof.
  intros Hne H. destruct (min_nread_in l Hne) as (i & r & Hi & Hr). rewrite <- Hr. eauto.
Qed.

Lemma min_nread_map l (f : reader -> reader) :
  (forall r, r_nread (f r) = r_nread r) -> min_nread (map f l) = min_nread l.
Proof.
  intros Hf. induction l as [|h t IH]; auto.
  destruct t as [|h2 t2].
  - cbn [map]. rewrite !min_nread_one. apply Hf.
  - cbn [map] in *. rewrite !min_nread_cons, Hf, IH. reflexivity.
Qed.
