(* C02 — Context.register keeps the registry consistent: every class is registered for exactly
   its outputs (reg_ok), provided class identities (cid) identify classes. *)
From SV Require Import Base.Prelude Model.Canon Model.Lineage Proof.CanonProof Spec.LineageSpec
  Proof.LineageEquiv Proof.LineageCache Proof.LineageHash.

Lemma cls_same_refl c : cls_same c c = true.
Proof. unfold cls_same. apply Z.eqb_refl. Qed.

Lemma cls_same_eq U a b : cid_ok U -> In a U -> In b U -> cls_same a b = true -> a = b.
Proof. intros HU Ha Hb H. apply HU; auto. unfold cls_same in H. now apply Z.eqb_eq. Qed.

(* ---------- first loop ---------- *)
Lemma loop1_lookup c : forall provs r dereg,
  forall k, lookup k (fst (fold_left (reg_step c) provs (r, dereg))) = if memZ k provs then Some c else lookup k r.
Proof.
  induction provs as [|p provs IH]; intros r dereg k; cbn [fold_left memZ existsb]; [reflexivity|].
  unfold reg_step at 2. rewrite IH. unfold memZ. rewrite lookup_dset.
  destruct (existsb (Z.eqb k) provs); [now rewrite orb_true_r|]. rewrite orb_false_r. reflexivity.
Qed.

Lemma loop1_dereg_sound c : forall provs r dereg old,
  In old (snd (fold_left (reg_step c) provs (r, dereg))) ->
  In old dereg \/ (cls_same old c = false /\ exists p, In p provs /\ lookup p r = Some old).
Proof.
  induction provs as [|p provs IH]; intros r dereg old H; cbn [fold_left] in H; [now left|].
  unfold reg_step at 2 in H. apply IH in H. destruct H as [H|(Hs & p' & Hp' & Hl)].
  - destruct (lookup p r) as [o|] eqn:E; [|now left].
    destruct (cls_same o c) eqn:Q; [now left|].
    apply in_app_iff in H. destruct H as [H|[<-|[]]]; [now left|].
    right. split; [exact Q|]. exists p. split; [now left|exact E].
  - right. split; [exact Hs|]. rewrite lookup_dset in Hl. destruct (p' =? p) eqn:Q.
    + inversion Hl; subst. rewrite cls_same_refl in Hs. discriminate.
    + exists p'. split; [now right|exact Hl].
Qed.

Lemma loop1_dereg_mono c : forall provs r dereg old,
  In old dereg -> In old (snd (fold_left (reg_step c) provs (r, dereg))).
Proof.
  induction provs as [|p provs IH]; intros r dereg old H; cbn [fold_left]; [exact H|].
  unfold reg_step at 2. apply IH. destruct (lookup p r) as [o|]; [|exact H].
  destruct (cls_same o c); [exact H|]. apply in_app_iff. now left.
Qed.

Lemma loop1_dereg_complete c : forall provs r dereg p old,
  In p provs -> lookup p r = Some old -> cls_same old c = false ->
  In old (snd (fold_left (reg_step c) provs (r, dereg))).
Proof.
  induction provs as [|q provs IH]; intros r dereg p old Hp Hl Hs; [destruct Hp|]. cbn [fold_left].
  unfold reg_step at 2. destruct (Z.eq_dec p q) as [->|Hne].
  - apply loop1_dereg_mono. rewrite Hl, Hs. apply in_app_iff. right. now left.
  - destruct Hp as [Hp|Hp]; [congruence|]. eapply IH; eauto.
    rewrite lookup_dset. destruct (p =? q) eqn:Q; [apply Z.eqb_eq in Q; congruence|exact Hl].
Qed.

(* ---------- second loop ---------- *)
Lemma boot_one_lookup old r d k :
  lookup k (boot_one old r d) =
  match lookup k r with
  | Some cur => if (k =? d) && cls_same cur old then None else Some cur
  | None => None
  end.
Proof.
  unfold boot_one. destruct (lookup d r) as [cur|] eqn:E.
  - destruct (cls_same cur old) eqn:Q.
    + rewrite lookup_ddel. destruct (k =? d) eqn:K.
      * apply Z.eqb_eq in K. subst. rewrite E, Q. reflexivity.
      * destruct (lookup k r); reflexivity.
    + destruct (lookup k r) as [cur'|] eqn:E'; [|reflexivity].
      destruct (k =? d) eqn:K; [|reflexivity]. apply Z.eqb_eq in K. subst. rewrite E in E'. inversion E'; subst.
      now rewrite Q.
  - destruct (lookup k r) as [cur'|] eqn:E'; [|reflexivity].
    destruct (k =? d) eqn:K; [|reflexivity]. apply Z.eqb_eq in K. subst. congruence.
Qed.

Lemma boot_class_lookup old : forall ds r k,
  lookup k (fold_left (boot_one old) ds r) =
  match lookup k r with
  | Some cur => if memZ k ds && cls_same cur old then None else Some cur
  | None => None
  end.
Proof.
  induction ds as [|d ds IH]; intros r k; cbn [fold_left memZ existsb].
  - destruct (lookup k r); reflexivity.
  - rewrite IH, boot_one_lookup. destruct (lookup k r) as [cur|]; [|reflexivity].
    unfold memZ. destruct (k =? d), (cls_same cur old) eqn:Q, (existsb (Z.eqb k) ds); cbn [orb andb]; try rewrite Q; reflexivity.
Qed.

Definition booted (dereg : list cls) (k : Z) (cur : cls) : bool :=
  existsb (fun old => memZ k (cprovides old) && cls_same cur old) dereg.

Lemma loop2_lookup : forall dereg r k,
  lookup k (fold_left (fun r old => fold_left (boot_one old) (cprovides old) r) dereg r) =
  match lookup k r with
  | Some cur => if booted dereg k cur then None else Some cur
  | None => None
  end.
Proof.
  induction dereg as [|old dereg IH]; intros r k; cbn [fold_left booted existsb].
  - destruct (lookup k r); reflexivity.
  - rewrite IH, boot_class_lookup. destruct (lookup k r) as [cur|]; [|reflexivity].
    destruct (memZ k (cprovides old) && cls_same cur old); reflexivity.
Qed.

(* ---------- register_core ---------- *)
Lemma register_core_lookup reg c k :
  let r1d := fold_left (reg_step c) (cprovides c) (reg, []) in
  lookup k (register_core reg c) =
  match (if memZ k (cprovides c) then Some c else lookup k reg) with
  | Some cur => if booted (snd r1d) k cur then None else Some cur
  | None => None
  end.
Proof.
  cbn zeta. rewrite register_core_unfold.
  destruct (fold_left (reg_step c) (cprovides c) (reg, [])) as [r1 dereg] eqn:E.
  rewrite loop2_lookup. cbn [snd].
  pose proof (loop1_lookup c (cprovides c) reg [] k) as L. rewrite E in L. cbn [fst] in L. now rewrite L.
Qed.

Theorem register_reg_ok U reg c :
  cid_ok U -> reg_in U reg -> In c U -> reg_ok reg ->
  reg_ok (register_core reg c) /\ reg_in U (register_core reg c).
Proof.
  intros HU Hin Hc Hok.
  set (dereg := snd (fold_left (reg_step c) (cprovides c) (reg, []))).
  assert (Dsound : forall old, In old dereg -> cls_same old c = false /\ exists p, In p (cprovides c) /\ lookup p reg = Some old).
  { intros old H. apply loop1_dereg_sound in H. destruct H as [[]|H]. exact H. }
  assert (Dcompl : forall p old, In p (cprovides c) -> lookup p reg = Some old -> cls_same old c = false -> In old dereg).
  { intros p old Hp Hl Hs. eapply loop1_dereg_complete; eauto. }
  assert (L : forall k, lookup k (register_core reg c) =
              match (if memZ k (cprovides c) then Some c else lookup k reg) with
              | Some cur => if booted dereg k cur then None else Some cur
              | None => None
              end) by (intros k; apply register_core_lookup).
  (* c itself is never booted *)
  assert (Cnb : forall k, booted dereg k c = false).
  { intros k. unfold booted. apply not_true_is_false. intros H. apply existsb_exists in H.
    destruct H as (old & Ho & Hb). apply andb_true_iff in Hb. destruct Hb as [_ Hb].
    destruct (Dsound old Ho) as (Hs & _). rewrite cls_same_sym in Hb. congruence. }
  (* an old class that stays registered somewhere is not in dereg *)
  assert (Keep : forall k cur, lookup k reg = Some cur -> booted dereg k cur = false -> ~ In cur dereg).
  { intros k cur Hl Hb Hd. destruct (Hok k cur Hl) as (Hk & _).
    assert (booted dereg k cur = true); [|congruence].
    unfold booted. apply existsb_exists. exists cur. split; [exact Hd|].
    apply andb_true_iff. split; [now apply memZ_spec|apply cls_same_refl]. }
  split.
  - intros k cur Hl. rewrite L in Hl.
    destruct (memZ k (cprovides c)) eqn:Mk.
    + rewrite Cnb in Hl. inversion Hl; subst cur. split; [now apply memZ_spec|].
      intros p Hp. rewrite L. apply memZ_spec in Hp. rewrite Hp, Cnb. reflexivity.
    + destruct (lookup k reg) as [cur0|] eqn:Hk; [|discriminate].
      destruct (booted dereg k cur0) eqn:Hb; [discriminate|]. inversion Hl; subst cur0.
      destruct (Hok k cur Hk) as (Hkin & Hall). split; [exact Hkin|].
      intros p Hp. rewrite L. specialize (Hall p Hp).
      pose proof (Keep k cur Hk Hb) as Hnd.
      destruct (memZ p (cprovides c)) eqn:Mp.
      * (* cur's output p is overwritten by c: then cur is c, or cur is in dereg *)
        exfalso. apply memZ_spec in Mp.
        destruct (cls_same cur c) eqn:Q.
        -- assert (cur = c) by (eapply cls_same_eq; eauto). subst cur.
           apply memZ_spec in Hkin. congruence.
        -- apply Hnd. eapply Dcompl; eauto.
      * rewrite Hall. destruct (booted dereg p cur) eqn:Hbp; [|reflexivity].
        exfalso. unfold booted in Hbp. apply existsb_exists in Hbp. destruct Hbp as (old & Ho & Hb2).
        apply andb_true_iff in Hb2. destruct Hb2 as [_ Hs].
        destruct (Dsound old Ho) as (_ & q & Hq & Hlq).
        assert (cur = old) by (eapply cls_same_eq; eauto). subst old. contradiction.
  - intros k cur Hl. rewrite L in Hl.
    destruct (memZ k (cprovides c)).
    + destruct (booted dereg k c); [discriminate|]. inversion Hl; subst. exact Hc.
    + destruct (lookup k reg) as [cur0|] eqn:Hk; [|discriminate].
      destruct (booted dereg k cur0); [discriminate|]. inversion Hl; subst. eapply Hin; eauto.
Qed.

Lemma reg_ok_nil : reg_ok [].
Proof. intros dt c H. discriminate. Qed.
