(* Common header: arithmetic automation and small list lemmas. No axioms. *)
From Coq Require Export ZArith List Bool Lia ZifyBool Arith PeanoNat.
Export ListNotations.
Ltac Zify.zify_post_hook ::= Z.to_euclidean_division_equations.
Global Open Scope Z_scope.

(* Small error/result type shared by the models *)
Inductive res (A : Type) : Type :=
| Ok : A -> res A
| Err : Z -> res A.   (* error code; each model documents its codes *)
Arguments Ok {A} _.
Arguments Err {A} _.

Definition res_bind {A B} (r : res A) (f : A -> res B) : res B :=
  match r with Ok a => f a | Err e => Err e end.
Notation "'do' x <- r ; k" := (res_bind r (fun x => k))
  (at level 200, x name, r at level 100, k at level 200, right associativity).
Notation "'do' ' p <- r ; k" := (res_bind r (fun x => match x with p => k end))
  (at level 200, p pattern, r at level 100, k at level 200, right associativity).

Lemma Forall_app_iff {A} (P : A -> Prop) l1 l2 :
  Forall P (l1 ++ l2) <-> Forall P l1 /\ Forall P l2.
Proof. apply Forall_app. Qed.

Fixpoint zsum (l : list Z) : Z :=
  match l with [] => 0 | x :: r => x + zsum r end.

Lemma zsum_app l1 l2 : zsum (l1 ++ l2) = zsum l1 + zsum l2.
Proof. induction l1 as [|x l1 IH]; cbn [zsum app]; lia. Qed.

Fixpoint zmaxl (d : Z) (l : list Z) : Z :=
  match l with [] => d | x :: r => zmaxl (Z.max d x) r end.

Lemma zmaxl_ge d l : d <= zmaxl d l.
Proof. revert d; induction l as [|x l IH]; intros d; cbn [zmaxl]; [lia|]. specialize (IH (Z.max d x)). lia. Qed.

Lemma zmaxl_in d l x : In x l -> x <= zmaxl d l.
Proof.
  revert d; induction l as [|y l IH]; intros d Hin; cbn [zmaxl]; [destruct Hin|].
  destruct Hin as [->|Hin]; [pose proof (zmaxl_ge (Z.max d x) l); lia | apply IH, Hin].
Qed.
