(* C07 — Splitting, concatenating, merging and rechunking obey the laws of chunking.
   This file contains only property theorems, each closed by `exact <lemma>` and followed by
   Print Assumptions.  Statements not (yet) proved are kept visible as Definitions C07_full_*. *)
From SV Require Import Model.Rows Model.SplitArray Model.Chunk Model.Rechunker
     Model.Merge Proof.SplitArrayProof Proof.ChunkProof Proof.RechunkerProof Proof.RechunkerStrong Proof.MergeProof Proof.ConcatProof.

(* split_array: refuses exactly when a row straddles; with early splitting returns the latest
   admissible earlier time; every row entirely on one side; rows preserved in order *)
Theorem C07_split_array_spec : forall rs t early,
  sorted rs -> Forall (fun q => 0 <= rt q) rs ->
  split_array_post rs t early (split_array rs t early).
Proof. exact split_array_correct. Qed.
Print Assumptions C07_split_array_spec.

(* Chunk.split on any well-formed chunk: two adjacent well-formed chunks whose rows concatenate to the
   original; CannotSplit iff not early and a row straddles the (clamped) time; no other error *)
Theorem C07_chunk_split_spec : forall c t0 early,
  wf c -> chunk_split_post c t0 early (chunk_split c t0 early).
Proof. exact chunk_split_correct. Qed.
Print Assumptions C07_chunk_split_spec.

(* concatenate is the inverse of split *)
Theorem C07_concat_split_inverse : forall c t0 early c1 c2,
  wf c -> chunk_split c t0 early = Ok (c1, c2) ->
  exists c', concatenate [Some c1; Some c2] false = Ok c' /\
             cstart c' = cstart c /\ cend c' = cend c /\ crows c' = crows c /\
             cdtype c' = cdtype c /\ ckind c' = ckind c /\ crun c' = crun c.
Proof. exact concat_split_inverse. Qed.
Print Assumptions C07_concat_split_inverse.

(* the rechunker never fails on a valid contiguous stream (any number of chunks, any targets >= one
   row); output is non-empty, well-formed, contiguous over the same overall range, same rows in order *)
Theorem C07_rechunk_stream_spec : forall cs,
  valid_stream cs ->
  exists out, rechunk_stream cs = Ok out /\ out <> [] /\ Forall wf out /\
    flat_map crows out = flat_map crows cs /\
    chain (stream_start cs) out (stream_end cs).
Proof. exact rechunk_stream_correct. Qed.
Print Assumptions C07_rechunk_stream_spec.

(* ... data type and run id are preserved and every interior cut lies strictly inside a row-free gap of
   the whole stream (so output boundaries are the stream's ends or fall in gaps) *)
Theorem C07_rechunk_stream_strong : forall cs,
  valid_stream cs ->
  exists body lst, rechunk_stream cs = Ok (body ++ [lst]) /\ Forall wf (body ++ [lst]) /\
    flat_map crows (body ++ [lst]) = flat_map crows cs /\
    chain (stream_start cs) (body ++ [lst]) (stream_end cs) /\
    Forall (meta_eq (hd lst cs)) (body ++ [lst]) /\
    Forall (cut_in (stream_start cs) (stream_end cs) (flat_map crows cs)) body.
Proof. exact rechunk_stream_correct_strong. Qed.
Print Assumptions C07_rechunk_stream_strong.

(* ... and it cuts only where no row is straddled *)
Theorem C07_cuts_straddle_nothing : forall out s e,
  Forall wf out -> chain s out e ->
  forall pre c post, out = pre ++ c :: post -> post <> [] ->
    ~ exists q, In q (flat_map crows out) /\ straddles q (cend c).
Proof. exact chain_no_straddle. Qed.
Print Assumptions C07_cuts_straddle_nothing.

(* same-kind merge accepts exactly: equal kind, run id, length and (start, end) *)
Theorem C07_merge_accepts_iff : forall cs dt,
  (2 <= length cs)%nat ->
  ((exists c, merge cs dt = Ok c) <->
   (uniform kkind cs /\ uniform krun cs /\ uniform klen cs /\ uniform kstart cs /\ uniform kend cs)).
Proof. exact merge_accepts_iff. Qed.
Print Assumptions C07_merge_accepts_iff.

(* the merged columns are the union of the inputs' columns (each once); on a collision the last input
   (depends_on order) wins *)
Theorem C07_merge_columns : forall cs dt c,
  (2 <= length cs)%nat -> merge cs dt = Ok c ->
  NoDup (fields (kdata c)) /\
  (forall f, In f (fields (kdata c)) <-> exists d, In d cs /\ In f (fields (kdata d))) /\
  (forall f pre d post col, cs = pre ++ d :: post -> lookup f (kdata d) = Some col ->
      (forall b, In b post -> lookup f (kdata b) = None) -> lookup f (kdata c) = Some col).
Proof. exact merge_columns. Qed.
Print Assumptions C07_merge_columns.

(* n-ary concatenate on well-formed chunks: accepted iff non-empty, same data type, same run id (unless
   superruns are allowed) and ordered without overlap; the result is the concatenated rows over
   first start .. last end and is well-formed *)
Theorem C07_concatenate_accepts_iff : forall cs allow,
  Forall wf cs ->
  ((exists c, concatenate (map Some cs) allow = Ok c) <-> concat_valid cs allow) /\
  (forall c, concatenate (map Some cs) allow = Ok c ->
     crows c = flat_map crows cs /\ cstart c = cstart (hd c cs) /\ cend c = last_end 0 cs /\ wf c).
Proof. exact concatenate_accepts_iff. Qed.
Print Assumptions C07_concatenate_accepts_iff.

(* continuity_check on ordinary-run chunks passes iff every chunk starts where its predecessor of the
   same run ended *)
Theorem C07_continuity_check_iff : forall cs, continuity_check cs = None <-> adj_ok cs.
Proof. exact continuity_check_iff. Qed.
Print Assumptions C07_continuity_check_iff.
