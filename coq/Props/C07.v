(* C07 — Splitting, concatenating, merging and rechunking obey the laws of chunking.
   This file contains only property theorems, each closed by `exact <lemma>` and followed by
   Print Assumptions. *)
From SV Require Import Model.Rows Model.SplitArray Proof.SplitArrayProof.

Theorem C07_split_array_spec : forall rs t early,
  sorted rs -> Forall (fun q => 0 <= rt q) rs ->
  split_array_post rs t early (split_array rs t early).
Proof. exact split_array_correct. Qed.
Print Assumptions C07_split_array_spec.
