(* GenTie, C18 kernels: the MiniPy program regenerated from the Python source on every run
   (coq/Gen/RecordLinks.v, harness/translate.py) computes exactly what the hand-written model of
   Model/Hits.v computes, and the C18 record-link theorem holds of the regenerated program itself. *)
From Coq Require Import String.
From SV Require Import Lang.MiniPy Gen.RecordLinks.
From SV Require Import Model.Hits Spec.HitsSpec Proof.RefineRecordLinks Proof.RefineC18.

(* ---- strax.processing.pulse_processing.record_links ---- *)

Theorem GenTie_record_links : forall fuel rs,
  (rs = [] \/ Exists (fun r => -1 <= r_ch r) rs) ->
  run fuel record_links_prog [VRecs (map rec_val rs)] = embed_rl (record_links rs).
Proof. exact record_links_refines. Qed.
Print Assumptions GenTie_record_links.

Theorem GenTie_record_links_spec : forall fuel rs,
  Forall rec_wf rs ->
  exists prev next,
    run fuel record_links_prog [VRecs (map rec_val rs)] = OReturn (VTuple [VInts prev; VInts next]) /\
    zlen prev = zlen rs /\ zlen next = zlen rs /\
    (forall i, 0 <= i < zlen rs -> -1 <= nthZ prev i /\
        forall j, 0 <= j -> (nthZ prev i = j <-> linked (spr_of rs) rs j i)) /\
    (forall j, 0 <= j < zlen rs -> -1 <= nthZ next j /\
        forall i, 0 <= i -> (nthZ next j = i <-> linked (spr_of rs) rs j i)).
Proof. exact record_links_prog_spec. Qed.
Print Assumptions GenTie_record_links_spec.

Theorem GenTie_record_links_negative_channel : forall fuel rs,
  Exists (fun r => -1 <= r_ch r) rs -> record_links rs = Err 4 ->
  run fuel record_links_prog [VRecs (map rec_val rs)] = ORaise "ValueError".
Proof. exact record_links_prog_negative_channel. Qed.
Print Assumptions GenTie_record_links_negative_channel.
