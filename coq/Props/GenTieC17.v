(* GenTie, C17 kernels: the MiniPy programs regenerated from the Python source on every run
   (coq/Gen/*.v, harness/translate.py) compute exactly what the hand-written models of
   Model/Intervals.v compute, and the C17 theorems hold of the regenerated programs themselves. *)
From Coq Require Import String.
From SV Require Import Lang.MiniPy Gen.Diff Gen.FindBreakI Gen.FcIn Gen.OverlapIndices Gen.TouchingWindows.
From SV Require Import Model.Intervals Spec.IntervalDefs Proof.IntervalsContain Proof.IntervalsTouch.
From SV Require Import Proof.RefineDiff Proof.RefineFindBreakI Proof.RefineFcIn Proof.RefineC17.
From SV Require Import Proof.RefineOverlapIndices Proof.RefineTouchingWindows Proof.RefineC17b.

(* ---- strax.processing.general.diff ---- *)

Theorem GenTie_diff_intervals : forall fuel rs,
  run fuel diff_prog [VRows rs] = OReturn (VInts (Intervals.diff rs)).
Proof. exact diff_refines_intervals. Qed.
Print Assumptions GenTie_diff_intervals.

Theorem GenTie_diff_spec : forall fuel rs,
  run fuel diff_prog [VRows rs] = OReturn (VInts (diff_spec rs)).
Proof. exact diff_prog_spec. Qed.
Print Assumptions GenTie_diff_spec.

(* ---- strax.processing.general._find_break_i ---- *)

Theorem GenTie_find_break_i : forall fuel rs sb nb,
  run fuel find_break_i_prog [VRows rs; VInt sb; VInt nb] = embed_fb (find_break_i rs sb nb).
Proof. exact find_break_i_refines. Qed.
Print Assumptions GenTie_find_break_i.

Theorem GenTie_find_break_i_spec : forall fuel rs sb nb,
  (2 <= length rs)%nat ->
  run fuel find_break_i_prog [VRows rs; VInt sb; VInt nb] =
  match find_break_spec rs sb nb with
  | Some i => OReturn (VInt (Z.of_nat i))
  | None => ORaise "NoBreakFound"
  end.
Proof. exact find_break_i_prog_spec. Qed.
Print Assumptions GenTie_find_break_i_spec.

Theorem GenTie_find_break_i_sem : forall fuel rs sb nb,
  (2 <= length rs)%nat ->
  match run fuel find_break_i_prog [VRows rs; VInt sb; VInt nb] with
  | OReturn (VInt z) =>
      exists i, z = Z.of_nat i /\ (1 <= i < length rs)%nat /\ is_break rs sb nb i = true /\
                forall j, (1 <= j < i)%nat -> is_break rs sb nb j = false
  | ORaise exn =>
      exn = "NoBreakFound"%string /\ forall j, (1 <= j < length rs)%nat -> is_break rs sb nb j = false
  | _ => False
  end.
Proof. exact find_break_i_prog_sem. Qed.
Print Assumptions GenTie_find_break_i_sem.

(* ---- strax.processing.general._fc_in ---- *)

Theorem GenTie_fc_in : forall fuel things cs,
  (length cs < fuel)%nat ->
  exists e,
    run fuel fc_in_prog [VInts (map rt things); VInts (map rt cs); VInts (map re things); VInts (map re cs);
                         VInts (repeat (-1) (length things))] = ONormal e /\
    lookup e fc_result_name = Some (VInts (fc_in things cs 0)).
Proof. exact fc_in_result. Qed.
Print Assumptions GenTie_fc_in.

Theorem GenTie_fc_in_exact : forall fuel things cs,
  fc_pre things cs -> (length cs < fuel)%nat ->
  exists e,
    run fuel fc_in_prog [VInts (map rt things); VInts (map rt cs); VInts (map re things); VInts (map re cs);
                         VInts (repeat (-1) (length things))] = ONormal e /\
    lookup e fc_result_name = Some (VInts (map (fc_spec_strict cs) things)).
Proof. exact fc_in_prog_exact. Qed.
Print Assumptions GenTie_fc_in_exact.

(* ---- strax.processing.general.overlap_indices ---- *)

Theorem GenTie_overlap_indices : forall fuel a1 na b1 nb,
  run fuel overlap_indices_prog [VInt a1; VInt na; VInt b1; VInt nb] = embed_oi (overlap_indices a1 na b1 nb).
Proof. exact overlap_indices_refines. Qed.
Print Assumptions GenTie_overlap_indices.

Theorem GenTie_overlap_indices_spec : forall fuel a1 na b1 nb,
  0 <= na -> 0 <= nb ->
  run fuel overlap_indices_prog [VInt a1; VInt na; VInt b1; VInt nb] = embed_oi (Ok (oi_spec a1 na b1 nb)).
Proof. exact overlap_indices_prog_spec. Qed.
Print Assumptions GenTie_overlap_indices_spec.

Theorem GenTie_overlap_indices_rejects_negative : forall fuel a1 na b1 nb,
  na < 0 \/ nb < 0 ->
  run fuel overlap_indices_prog [VInt a1; VInt na; VInt b1; VInt nb] = ORaise "ValueError".
Proof. exact overlap_indices_prog_rejects_negative. Qed.
Print Assumptions GenTie_overlap_indices_rejects_negative.

(* ---- strax.processing.general._touching_windows ---- *)

Theorem GenTie_touching_windows : forall fuel things cs w,
  (length things < fuel)%nat ->
  run fuel touching_windows_prog
      [VInts (map rt things); VInts (map re things); VInts (map rt cs); VInts (map re cs); VInt w;
       VStr mergesort_name]
  = embed_tw (touching_windows_core things cs w 0).
Proof. exact touching_windows_refines. Qed.
Print Assumptions GenTie_touching_windows.

Theorem GenTie_touching_windows_closed : forall fuel things cs w,
  sorted cs -> (length things < fuel)%nat ->
  run fuel touching_windows_prog
      [VInts (map rt things); VInts (map re things); VInts (map rt cs); VInts (map re cs); VInt w;
       VStr mergesort_name]
  = OReturn (VMat (mat_of (map (fun c => (Lidx w things c, Ridx w things (re c))) cs))).
Proof. exact touching_windows_prog_closed. Qed.
Print Assumptions GenTie_touching_windows_closed.
