(* C13 — Production is limited by demand and buffer capacity (backpressure).

   The network model is Model/MailboxNet.v: a list of C05 mailboxes and a list of threads (workers that
   gate / pull / send, sinks that only consume, the consumer with a budget of p chunks); every network
   step is one C05 step of one mailbox.  "For all schedules" is "for all sched : list nat" (thread
   indices); a schedule naming a thread that is not enabled does not run (nrun = None), so every
   `nrun n0 sched = Some n` is a real execution prefix.
     advances N bs d = how often the source iterable feeding mailbox d has been advanced (next() returned).
     GI N n          = the network is well-formed: every mailbox role (sender, subscriber i) is used by
                       exactly one thread, programs send to each mailbox once per iteration, every mailbox
                       has a finite max_messages and at least one subscriber, N plain chunks per mailbox.
                       wf_b is a boolean check that implies it for an initial network.
     reach n u B     = mailbox u is connected to the consumer by workers (pull from u, send to d, ...),
                       with B = p + 2 * (sum of max_messages along the path).

   This file contains only property theorems, each closed by `exact <lemma>` and followed by
   Print Assumptions, and the statements that are not proved (Definition C13_full_...). *)
From SV Require Import Base.Prelude Model.Mailbox Model.MailboxNet Model.C13Run
  Proof.MailboxNetLift Proof.MailboxStepFacts Proof.MailboxMeasure Proof.MailboxNetFlow Proof.MailboxNetBound
  Proof.MailboxNetChain Proof.MailboxNetQuiesce Proof.MailboxNetLazy Proof.MailboxNetExamples
  Proof.MailboxNetWire Proof.MailboxNetWireExamples.
Local Open Scope nat_scope.

(* No mailbox of any network ever holds more than max_messages undelivered messages: any wiring (any
   list of mailboxes each started in a C05 initial state, any list of threads), any schedule.  In the
   processor every mailbox has a finite max_messages, in eager and in lazy mode. *)
Theorem C13_eager_capacity_everywhere :
  forall (n0 : net) (sched : list nat) (n : net),
    starts_fresh n0 -> nrun n0 sched = Some n ->
    forall d cfg st c, nth_error (n_boxes n) d = Some (cfg, st) -> c_cap cfg = Some c -> length (box st) <= c.
Proof. exact eager_capacity_everywhere. Qed.
Print Assumptions C13_eager_capacity_everywhere.

(* Lazy mode, every network, every schedule: the source iterable of a gated mailbox is advanced only by a
   step of its sender at the fetch gate that starts in a state where _can_fetch() is true. *)
Theorem C13_lazy_fetch_only_on_demand :
  forall (n0 : net) (sched : list nat) (n : net) (w : nat) (n' : net),
    nrun n0 sched = Some n -> nstep n w = Some n' ->
    forall d cfg st st',
      nth_error (n_boxes n) d = Some (cfg, st) -> nth_error (n_boxes n') d = Some (cfg, st') ->
      c_lazy cfg = true -> length (src st') < length (src st) ->
      at_gate (s_pc st) = true /\ can_fetch st = true.
Proof. exact lazy_fetch_only_on_demand. Qed.
Print Assumptions C13_lazy_fetch_only_on_demand.

(* The property as worded, for every mailbox of every network without failures (J: C05's invariants, no
   killer, no futures), every schedule: at every advance of a lazy source some DRIVING subscriber waits for
   a message that has not been produced (its number is >= _n_sent), and no subscriber waits for a message
   that is already in the mailbox.  (Mailbox._can_fetch as repaired by /repo ede7cda.) *)
Theorem C13_lazy_fetch_only_on_demand_full :
  forall (N : nat) (n0 : net) (sched : list nat) (n : net) (w : nat) (n' : net),
    all_boxes (J N) (n_boxes n0) -> nrun n0 sched = Some n -> nstep n w = Some n' ->
    forall d cfg st st',
      nth_error (n_boxes n) d = Some (cfg, st) -> nth_error (n_boxes n') d = Some (cfg, st') ->
      c_lazy cfg = true -> length (src st') < length (src st) ->
      (exists i r x, nth_error (rds st) i = Some r /\ r_drive r = true /\ r_waiting r = Some x /\ n_sent st <= x) /\
      (forall i r x, nth_error (rds st) i = Some r -> r_waiting r = Some x ->
         has_msg (box st) x = false /\ n_sent st <= x).
Proof. exact lazy_fetch_only_on_demand_full. Qed.
Print Assumptions C13_lazy_fetch_only_on_demand_full.

(* Documentation of finding F1 (fixed by ede7cda): the gate as it was before (can_fetch_pinned, comparing
   with the LOWEST buffered number) is true in a reachable state in which a driving subscriber waits for a
   message that is already in the mailbox — source -> plugin with a saver on the source's output, lazy; the
   saver lags, the plugin has been notified of chunk 1 but has not run yet.  The schedule is replayed on
   the real code by every run of the check: with the old gate the source is advanced there. *)
Theorem C13_lazy_gate_pinned_refuted :
  exists (c : comps) (o : popts) (p N : nat) (sched : list nat) (n : net) (cfg : config) (st : state),
    nrun (net_of (wire c o p) N) sched = Some n /\ nth_error (n_boxes n) 0 = Some (cfg, st) /\
    c_lazy cfg = true /\ at_gate (s_pc st) = true /\
    can_fetch_pinned st = true /\ can_fetch st = false /\
    exists i r x, nth_error (rds st) i = Some r /\ r_drive r = true /\ r_waiting r = Some x /\
                  has_msg (box st) x = true.
Proof. exact lazy_gate_pinned_refuted. Qed.
Print Assumptions C13_lazy_gate_pinned_refuted.

(* The path bound, for every well-formed network (any DAG: chains, diamonds, fan-outs, joins, any savers /
   discarders), eager or lazy, every schedule, every run length N: a source connected to the consumer by a
   path of workers is never advanced more than  p + 2 * (sum of max_messages along the path) + 1  times. *)
Theorem C13_flow_bound_path :
  forall (N : nat) (n0 : net) (sched : list nat) (n : net) (u B : nat),
    GI N n0 -> nrun n0 sched = Some n -> reach n0 u B -> advances N (n_boxes n) u <= B + 1.
Proof. exact flow_bound. Qed.
Print Assumptions C13_flow_bound_path.

Theorem C13_wellformed_check :
  forall (nb : list (config * list bool)) (ths : list thread) (N : nat),
    wf_b nb ths = true -> GI N (mk_net nb ths N).
Proof. exact wf_b_GI. Qed.
Print Assumptions C13_wellformed_check.

(* Every schedule of every well-formed network is finite: the threads cannot run for ever, whatever the
   scheduler does (the sum over the mailboxes of a termination measure of the single-mailbox transition
   system decreases with every step); a schedule that cannot be extended ends in a quiescent state. *)
Theorem C13_quiescence_reached :
  forall (N : nat) (n0 : net) (sched : list nat) (n : net),
    GI N n0 -> nrun n0 sched = Some n -> length sched <= net_mu (n_boxes n0).
Proof. exact quiescence_reached. Qed.
Print Assumptions C13_quiescence_reached.

Theorem C13_maximal_schedule_is_quiescent :
  forall (n0 : net) (sched : list nat) (n : net),
    nrun n0 sched = Some n -> (forall w, nrun n0 (sched ++ [w]) = None) -> quiescent n = true.
Proof. exact maximal_quiescent. Qed.
Print Assumptions C13_maximal_schedule_is_quiescent.

(* comes_to_rest n0 N p B src :=
     (forall sched n, nrun n0 sched = Some n -> advances N (n_boxes n) src <= p + B) /\
     (forall sched n, nrun n0 sched = Some n -> length sched <= net_mu (n_boxes n0)) /\
     (forall sched n, nrun n0 sched = Some n -> (forall w, nrun n0 (sched ++ [w]) = None) -> quiescent n = true)

   quiescence_bound_chain: a chain of L senders (source + L-1 plugins) with max_messages c, eager or lazy,
   the consumer takes p chunks: in every reachable state of every schedule the source has been advanced at
   most p + B_chain L c = p + 2cL + 1 times whatever the run length N (hence, once the consumer has its p
   chunks, at most B_chain L c further source chunks), and the pipeline reaches a state with no enabled
   thread. *)
Theorem C13_quiescence_bound_chain :
  forall (L c : nat) (lz : bool) (p N : nat),
    1 <= L -> comes_to_rest (chain_net L c lz p N) N p (B_chain L c) 0.
Proof. exact quiescence_bound_chain. Qed.
Print Assumptions C13_quiescence_bound_chain.

(* quiescence_bound_fanout: source -> multi-output plugin -> divide_outputs with k outputs, any set of gated
   outputs, any savers / discarders (`sides`) on any outputs, the consumer on output t. *)
Theorem C13_quiescence_bound_fanout :
  forall (k c : nat) (lz : bool) (gated : list nat) (drives : nat -> list bool)
         (sides : list (nat * nat)) (t it p N : nat),
    t < k -> (forall g, In g gated -> 2 <= g) -> (forall j, j < k -> drives j <> []) ->
    it < length (drives t) ->
    (forall u i, In (u, i) sides -> exists j, j < k /\ u = 2 + j /\ i < length (drives j)) ->
    NoDup ((2 + t, it) :: sides) ->
    comes_to_rest (fanout_net k c lz gated drives sides t it p N) N p (B_fanout c) 0.
Proof. exact quiescence_bound_fanout. Qed.
Print Assumptions C13_quiescence_bound_fanout.

(* The path bound on wirings computed by `wire` (the model of ThreadedMailboxProcessor.__init__): a diamond,
   a multi-output plugin both of whose outputs are required, a 3-output plugin with a saved and a discarded
   side output; any max_messages c, any p, any N, lazy or eager, any schedule. *)
Theorem C13_bound_wired_diamond :
  forall (lz : bool) (c p N : nat) (sched : list nat) (n : net),
    nrun (net_of (wire diamond_comps (mkOpts lz true c) p) N) sched = Some n ->
    advances N (n_boxes n) 3 <= p + 6 * c + 1.
Proof. exact diamond_bound. Qed.
Print Assumptions C13_bound_wired_diamond.

Theorem C13_bound_wired_fanjoin :
  forall (lz : bool) (c p N : nat) (sched : list nat) (n : net),
    nrun (net_of (wire fanjoin_comps (mkOpts lz true c) p) N) sched = Some n ->
    advances N (n_boxes n) 4 <= p + 8 * c + 1.
Proof. exact fanjoin_bound. Qed.
Print Assumptions C13_bound_wired_fanjoin.

Theorem C13_bound_wired_fanout3 :
  forall (lz : bool) (c p N : nat) (sched : list nat) (n : net),
    nrun (net_of (wire fanout3_comps (mkOpts lz true c) p) N) sched = Some n ->
    advances N (n_boxes n) 1 <= p + 6 * c + 1.
Proof. exact fanout3_bound. Qed.
Print Assumptions C13_bound_wired_fanout3.

(* ---------------- every real wiring ---------------- *)

(* valid_comps c :=  NoDup (sender_keys c)   (every mailbox gets exactly one sender: a loader, a single-output
                                              plugin under its own key, a multi-output plugin's iter for its
                                              <Plugin>_divide_outputs mailbox, the divider for the outputs
                                              that are not fed by a loader)
                  /\ components.plugins lists every plugin under a data type it provides.
   Nothing else: any plugin graph (single- and multi-output plugins, joins, diamonds), loaders for any stored
   subset, any savers, any discarded outputs, any per-plugin max_messages; not even acyclicity is needed.

   The wiring computed by `wire` (the model of ThreadedMailboxProcessor.__init__) is well-formed for EVERY
   valid component set, lazy or eager, any max_messages: so C13_flow_bound_path, C13_quiescence_reached and the
   lifted C05 invariants apply to every wiring the constructor can produce. *)
Theorem C13_wire_wellformed :
  forall (c : comps) (o : popts) (p N : nat), valid_comps c -> GI N (net_of (wire c o p) N).
Proof. exact wire_wf. Qed.
Print Assumptions C13_wire_wellformed.

(* ... hence every schedule of every such pipeline is finite ... *)
Theorem C13_every_wiring_comes_to_rest :
  forall (c : comps) (o : popts) (p N : nat) (sched : list nat) (n : net),
    valid_comps c -> nrun (net_of (wire c o p) N) sched = Some n ->
    length sched <= net_mu (n_boxes (net_of (wire c o p) N)).
Proof. exact wire_comes_to_rest. Qed.
Print Assumptions C13_every_wiring_comes_to_rest.

(* ... and the backpressure bound: needed c o p d B says that data type d is needed for the target through
   plugins of the components, with B = p + 2 * (sum of max_messages of the mailboxes on that dependency path;
   a multi-output plugin contributes its divide_outputs mailbox).  For every valid components, every data type
   needed for the target (in particular every source), every schedule and every run length N, the iterable
   feeding d's mailbox is advanced at most B + 1 times; B depends on the graph, the capacities and p only. *)
Theorem C13_backpressure_every_wiring :
  forall (c : comps) (o : popts) (p d B : nat),
    valid_comps c -> needed c o p d B ->
    exists u, ws_index (KD d) (table_of (wire c o p)) = Some u /\
      forall N sched n, nrun (net_of (wire c o p) N) sched = Some n -> advances N (n_boxes n) u <= B + 1.
Proof. exact wire_flow_bound. Qed.
Print Assumptions C13_backpressure_every_wiring.

(* ---------------- stated, not proved ---------------- *)

(* The exact demand-driven count in lazy mode: with the repaired gate a lazy pipeline whose consumer takes p
   chunks advances its source exactly p times (the proved bounds are capacity-based and therefore not tight
   in lazy mode; the check compares with the model's exhaustively explored state graph, which gives exactly p
   for every lazy configuration it explores). *)
Definition C13_full_dag : Prop :=
  forall (L c p N : nat) (sched : list nat) (n : net),
    1 <= L -> nrun (chain_net L c true p N) sched = Some n -> advances N (n_boxes n) 0 <= p.
