(* C13 — Production is limited by demand and buffer capacity (backpressure).

   The network model is Model/MailboxNet.v: a list of C05 mailboxes and a list of threads (workers that
   gate / pull / send, sinks that only consume, the consumer with a budget of p chunks); every network
   step is one C05 step of one mailbox.  "For all schedules" is "for all sched : list nat" (thread
   indices); a schedule naming a thread that is not enabled does not run (nrun = None).

   This file contains only property theorems, each closed by `exact <lemma>` and followed by
   Print Assumptions, and the statements that are not proved (Definition C13_full_...). *)
From SV Require Import Base.Prelude Model.Mailbox Model.MailboxNet Proof.MailboxNetLift.
Local Open Scope nat_scope.

(* No mailbox of any network ever holds more than max_messages undelivered messages: any wiring (any
   list of mailboxes each started in a C05 initial state, any list of threads), any schedule.  In the
   processor every mailbox has a finite max_messages, in eager and in lazy mode. *)
Theorem C13_eager_capacity_everywhere :
  forall (n0 : net) (sched : list nat) (n : net),
    starts_fresh n0 -> nrun n0 sched = Some n ->
    forall d cfg st c, nth_error (n_boxes n) d = Some (cfg, st) -> c_cap cfg = Some c -> length (box st) <= c.
Proof. exact eager_capacity_everywhere. Qed.
Print Assumptions C13_eager_capacity_everywhere.
