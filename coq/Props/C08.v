(* C08 — Plugins see time-aligned inputs and receive each input row exactly once.
   Only property theorems, each closed by `exact <lemma>` and followed by Print Assumptions.

   Reading guide.  `plugin_iter sw deps` (Model/PluginIter.v) is the model of Plugin.iter: sw is the
   plugin's numeric save_when, deps lists (data kind, chunks the iterator yields) per dependency in
   depends_on order; the result is (compute calls made, None | Some error).
   `Forall2 (dep_ok run a) deps specs` says the inputs are law-abiding: every dependency yields a
   non-empty list of well-formed chunks of one data type and run id, contiguous from the common start a
   to its own end; specs records per dependency its rows, end, data type and kind.
   `call_ok kinds c`: all inputs of call c are well-formed chunks over exactly [call_start c, call_end c]
   (hence every row lies inside the call interval and none straddles a boundary), one input per
   dependency, same-kind inputs of equal length.  `calls_chain a calls b`: the first call starts at a,
   each call starts where the previous one ended, the last ends at b.
   `delivered i calls`: the rows of dependency i handed to compute, in call order.
   `adm R y y'`: y' is the latest time <= y that no row of R straddles.  `stair_ok Rs p y y'`: starting
   from boundary y, within p comparisons the latest admissible times of all dependencies agree, at y'
   (each disagreement restarts from their minimum: one step of the "staircase").
   `pacemaker_chunks deps`: the chunks of the dependency iter picks as pacemaker (smallest first end,
   first wins ties).  `max_passes` = the pass limit read from the source (ITER_MAX_PASSES). *)
From SV Require Import Model.Rows Model.Chunk Model.PluginIter
     Proof.PluginIterProof Proof.PluginIterRound Proof.PluginIterLoop Proof.PluginIterSafety
     Proof.PluginIterStair Proof.PluginIterTotal Proof.PluginIterTotal2 Proof.PluginIterTotal3
     Proof.PluginIterRefuted Proof.PluginIterExhaust.

Theorem C08_iter_calls_aligned : forall run sw a deps specs,
  deps <> [] -> Forall2 (dep_ok run a) deps specs ->
  Forall (call_ok (map fst deps)) (fst (plugin_iter sw deps)) /\
  exists b, calls_chain a (fst (plugin_iter sw deps)) b.
Proof. exact iter_calls_aligned_thm. Qed.
Print Assumptions C08_iter_calls_aligned.

Theorem C08_iter_same_kind_row_aligned : forall run sw a deps specs i j di dj,
  deps <> [] -> Forall2 (dep_ok run a) deps specs ->
  nth_error deps i = Some di -> nth_error deps j = Some dj -> fst di = fst dj ->
  map te (srows (snd di)) = map te (srows (snd dj)) ->
  Forall (fun c => map te (crows (nth i (call_inputs c) dummy_chunk)) =
                   map te (crows (nth j (call_inputs c) dummy_chunk))) (fst (plugin_iter sw deps)).
Proof. exact iter_same_kind_row_aligned_thm. Qed.
Print Assumptions C08_iter_same_kind_row_aligned.

Theorem C08_iter_rows_exactly_once : forall run sw a deps specs,
  deps <> [] -> Forall2 (dep_ok run a) deps specs ->
  forall i d, nth_error deps i = Some d ->
  exists rest, delivered i (fst (plugin_iter sw deps)) ++ rest = srows (snd d) /\
    (snd (plugin_iter sw deps) = None ->
       (forall b, calls_chain a (fst (plugin_iter sw deps)) b -> Forall (fun q => b <= rt q) rest) /\
       (saves_by_default sw = true -> rest = [])).
Proof. exact iter_rows_exactly_once_thm. Qed.
Print Assumptions C08_iter_rows_exactly_once.

Theorem C08_iter_error_not_drop : forall run sw a deps specs,
  deps <> [] -> Forall2 (dep_ok run a) deps specs ->
  saves_by_default sw = true -> snd (plugin_iter sw deps) = None ->
  forall i d, nth_error deps i = Some d -> delivered i (fst (plugin_iter sw deps)) = srows (snd d).
Proof. exact iter_error_not_drop_thm. Qed.
Print Assumptions C08_iter_error_not_drop.

Theorem C08_iter_fuel_suffices : forall run sw a deps specs,
  deps <> [] -> Forall2 (dep_ok run a) deps specs ->
  snd (plugin_iter sw deps) <> Some E_ITER_FUEL.
Proof. exact iter_fuel_suffices_thm. Qed.
Print Assumptions C08_iter_fuel_suffices.

(* iter_total_below_pass_limit, first half: the too-many-passes error arises only from a staircase
   that does not settle within the pass limit at some pacemaker boundary *)
Theorem C08_iter_too_many_passes_only_if_deep : forall run sw a deps specs,
  deps <> [] -> Forall2 (dep_ok run a) deps specs ->
  snd (plugin_iter sw deps) = Some E_TOO_MANY_PASSES ->
  exists c, In c (pacemaker_chunks deps) /\
            ~ exists y', stair_ok (map (fun d => srows (snd d)) deps) max_passes (cend c) y'.
Proof. exact iter_too_many_passes_only_if_deep. Qed.
Print Assumptions C08_iter_too_many_passes_only_if_deep.

(* iter_total_below_pass_limit, second half: with a common end, one dependency per kind, no
   zero-duration chunk kept back at the end and every pacemaker boundary's staircase settling within
   the pass limit, iter ends normally, its calls tile [a, b] and every row of every dependency is
   delivered (whatever save_when is) *)
Theorem C08_iter_total_below_pass_limit : forall run sw a b deps specs,
  deps <> [] -> Forall2 (dep_ok run a) deps specs ->
  Forall (fun sp => db sp = b) specs ->
  NoDup (map fst deps) ->
  Forall (fun d => Forall (fun c => cend c < b) (removelast (snd d))) deps ->
  (forall c, In c (pacemaker_chunks deps) ->
             exists y', stair_ok (map (fun d => srows (snd d)) deps) max_passes (cend c) y') ->
  snd (plugin_iter sw deps) = None /\
  calls_chain a (fst (plugin_iter sw deps)) b /\
  forall i d, nth_error deps i = Some d -> delivered i (fst (plugin_iter sw deps)) = srows (snd d).
Proof. exact iter_total_below_pass_limit_thm. Qed.
Print Assumptions C08_iter_total_below_pass_limit.

(* ExhaustPlugin: its iter is Plugin.iter on the completely concatenated dependencies, which are
   law-abiding with the same rows, ends, data types and kinds (same specs): all theorems above apply *)
Theorem C08_exhaust_iter_reduces : forall run sw a deps specs,
  Forall2 (dep_ok run a) deps specs ->
  exists ds, exhaust_deps deps = Ok ds /\ Forall2 (dep_ok run a) ds specs /\
             exhaust_iter sw deps = plugin_iter sw ds /\ length ds = length deps.
Proof. exact exhaust_iter_reduces. Qed.
Print Assumptions C08_exhaust_iter_reduces.

(* Two strengthenings of the totality theorem that do NOT hold of the faithful model (and, replayed by
   the harness, not of the implementation either: loud errors on law-abiding input). *)

(* without the trailing-chunk hypothesis: B = [0,5) [5,5) raises "terminated without fetching last" *)
Definition C08_full_iter_total_without_trailing_hyp : Prop := total_without_trailing_hyp.
Theorem C08_iter_total_without_trailing_hyp_refuted : ~ C08_full_iter_total_without_trailing_hyp.
Proof. exact total_without_trailing_hyp_refuted. Qed.
Print Assumptions C08_iter_total_without_trailing_hyp_refuted.

(* for two dependencies of one kind with identical rows: a zero-length row on a chunk boundary, stored
   on different sides of it, raises "Cannot merge chunks with different number of items" *)
Definition C08_full_iter_total_same_kind : Prop := total_same_kind.
Theorem C08_iter_total_same_kind_refuted : ~ C08_full_iter_total_same_kind.
Proof. exact total_same_kind_refuted. Qed.
Print Assumptions C08_iter_total_same_kind_refuted.
