(* C08 — Plugins see time-aligned inputs and receive each input row exactly once.
   Only property theorems, each closed by `exact <lemma>` and followed by Print Assumptions.

   Reading guide.  `plugin_iter sw deps` (Model/PluginIter.v) is the model of Plugin.iter: sw is the
   plugin's numeric save_when, deps lists (data kind, chunks the iterator yields) per dependency in
   depends_on order; the result is (compute calls made, None | Some error).
   `Forall2 (dep_ok run a) deps specs` says the inputs are law-abiding: every dependency yields a
   non-empty list of well-formed chunks of one data type and run id, contiguous from the common start a
   to its own end; specs records per dependency its rows, end, data type and kind.
   `call_ok kinds c`: all inputs of call c are well-formed chunks over exactly [call_start c, call_end c]
   (hence every row lies inside the call interval and none straddles a boundary), one input per
   dependency, same-kind inputs of equal length.  `calls_chain a calls b`: the first call starts at a,
   each call starts where the previous one ended, the last ends at b.
   `delivered i calls`: the rows of dependency i handed to compute, in call order. *)
From SV Require Import Model.Rows Model.Chunk Model.PluginIter
     Proof.PluginIterProof Proof.PluginIterRound Proof.PluginIterLoop Proof.PluginIterSafety.

Theorem C08_iter_calls_aligned : forall run sw a deps specs,
  deps <> [] -> Forall2 (dep_ok run a) deps specs ->
  Forall (call_ok (map fst deps)) (fst (plugin_iter sw deps)) /\
  exists b, calls_chain a (fst (plugin_iter sw deps)) b.
Proof. exact iter_calls_aligned_thm. Qed.
Print Assumptions C08_iter_calls_aligned.

Theorem C08_iter_same_kind_row_aligned : forall run sw a deps specs i j di dj,
  deps <> [] -> Forall2 (dep_ok run a) deps specs ->
  nth_error deps i = Some di -> nth_error deps j = Some dj -> fst di = fst dj ->
  map te (srows (snd di)) = map te (srows (snd dj)) ->
  Forall (fun c => map te (crows (nth i (call_inputs c) dummy_chunk)) =
                   map te (crows (nth j (call_inputs c) dummy_chunk))) (fst (plugin_iter sw deps)).
Proof. exact iter_same_kind_row_aligned_thm. Qed.
Print Assumptions C08_iter_same_kind_row_aligned.

Theorem C08_iter_rows_exactly_once : forall run sw a deps specs,
  deps <> [] -> Forall2 (dep_ok run a) deps specs ->
  forall i d, nth_error deps i = Some d ->
  exists rest, delivered i (fst (plugin_iter sw deps)) ++ rest = srows (snd d) /\
    (snd (plugin_iter sw deps) = None ->
       (forall b, calls_chain a (fst (plugin_iter sw deps)) b -> Forall (fun q => b <= rt q) rest) /\
       (saves_by_default sw = true -> rest = [])).
Proof. exact iter_rows_exactly_once_thm. Qed.
Print Assumptions C08_iter_rows_exactly_once.

Theorem C08_iter_error_not_drop : forall run sw a deps specs,
  deps <> [] -> Forall2 (dep_ok run a) deps specs ->
  saves_by_default sw = true -> snd (plugin_iter sw deps) = None ->
  forall i d, nth_error deps i = Some d -> delivered i (fst (plugin_iter sw deps)) = srows (snd d).
Proof. exact iter_error_not_drop_thm. Qed.
Print Assumptions C08_iter_error_not_drop.

Theorem C08_iter_fuel_suffices : forall run sw a deps specs,
  deps <> [] -> Forall2 (dep_ok run a) deps specs ->
  snd (plugin_iter sw deps) <> Some E_ITER_FUEL.
Proof. exact iter_fuel_suffices_thm. Qed.
Print Assumptions C08_iter_fuel_suffices.
