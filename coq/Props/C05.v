(* C05 — A mailbox delivers every message exactly once, in order, to every subscriber.

   The transition system is Model/Mailbox.v (one step = one lock region of strax/mailbox.py plus the
   lock-free code up to the next yield point; condition variables with explicit woken flags).  "For all
   schedules" is "for all sched : list tid" below; a schedule that names a thread which is not enabled
   does not run (run = None), so every `run ... = Some st` is a real execution prefix.

   This file contains only property theorems, each closed by `exact <lemma>` and followed by
   Print Assumptions. *)
From Coq Require Import Permutation.
From SV Require Import Base.Prelude Model.Mailbox Proof.MailboxFacts Proof.MailboxProof Proof.MailboxInOrder
  Proof.MailboxTermination Model.MailboxDivider Proof.MailboxDividerProof Proof.MailboxDividerLive Proof.MailboxNumbered.
Local Open Scope nat_scope.

(* Every subscriber's delivered sequence is a prefix of the sent messages in number order with futures
   replaced by their results (hence no repetition and no reordering); a subscriber whose iteration ended
   normally has received all of them.  Any number of subscribers, any messages (plain / futures), any
   capacity, lazy or eager, any driver mask, with or without a kill() arriving at any moment. *)
Theorem C05_mailbox_delivery_safe :
  forall (cfg : config) (msgs : list msg) (nfut : nat),
    (forall m, In m msgs -> is_stop m = false) ->
    forall (drives : list bool) (killer : option bool) (sched : list tid) (st : state),
      run cfg (init cfg drives (source_of msgs) killer nfut) sched = Some st ->
      forall i r, nth_error (rds st) i = Some r ->
        is_prefix (r_log r) (vals msgs) /\ (r_pc r = RDone -> r_log r = vals msgs).
Proof. exact delivery_safe. Qed.
Print Assumptions C05_mailbox_delivery_safe.

(* The number of undelivered messages held never exceeds max_messages — for every source, every
   numbering (implicit or explicit), every configuration. *)
Theorem C05_mailbox_capacity :
  forall (cfg : config) (drives : list bool) (source : list (option nat * msg)) (killer : option bool)
         (nfut : nat) (sched : list tid) (st : state) (c : nat),
    c_cap cfg = Some c ->
    run cfg (init cfg drives source killer nfut) sched = Some st ->
    length (box st) <= c.
Proof. exact mailbox_capacity_gen. Qed.
Print Assumptions C05_mailbox_capacity.

(* No lost wake-up (W, Proof/MailboxProof.v): in every reachable state a subscriber waiting in
   _read_condition with its woken flag clear has next_ready = false (its message is absent and the
   mailbox is not killed); a sender waiting in _write_condition with the flag clear has can_write =
   false; a sender waiting at the lazy fetch gate with the flag clear has _can_fetch = false.  For every
   source, numbering and configuration. *)
Theorem C05_mailbox_no_lost_wakeup :
  forall (cfg : config) (drives : list bool) (source : list (option nat * msg)) (killer : option bool)
         (nfut : nat) (sched : list tid) (st : state),
    run cfg (init cfg drives source killer nfut) sched = Some st -> W cfg st.
Proof. exact mailbox_no_lost_wakeup_gen. Qed.
Print Assumptions C05_mailbox_no_lost_wakeup.

(* Deadlock freedom: every reachable state either has an enabled thread or all threads have finished.
   valid = at least one subscriber, capacity >= 1 when bounded, at least one driving subscriber in lazy
   mode, every future has a worker. *)
Theorem C05_mailbox_deadlock_free :
  forall (cfg : config) (msgs : list msg) (nfut : nat),
    (forall m, In m msgs -> is_stop m = false) ->
    forall (drives : list bool) (killer : option bool) (sched : list tid) (st : state),
      valid cfg msgs nfut drives ->
      run cfg (init cfg drives (source_of msgs) killer nfut) sched = Some st ->
      (exists t, enabled st t = true) \/ all_terminal st = true.
Proof. exact deadlock_free. Qed.
Print Assumptions C05_mailbox_deadlock_free.

(* Without a kill nothing is ever killed, and in a state where all threads have finished the mailbox is
   closed and every subscriber ended normally with exactly the sent messages. *)
Theorem C05_mailbox_complete :
  forall (cfg : config) (msgs : list msg) (nfut : nat),
    (forall m, In m msgs -> is_stop m = false) ->
    forall (drives : list bool) (sched : list tid) (st : state),
      drives <> [] ->
      run cfg (init cfg drives (source_of msgs) None nfut) sched = Some st ->
      all_terminal st = true ->
      closed st = true /\ killed st = false /\
      forall i r, nth_error (rds st) i = Some r -> r_pc r = RDone /\ r_log r = vals msgs.
Proof. exact complete. Qed.
Print Assumptions C05_mailbox_complete.

(* Every schedule can be extended until all threads have finished, and it then ends with complete
   delivery: the two theorems above combined for maximal schedules. *)
Theorem C05_mailbox_maximal_schedules_deliver :
  forall (cfg : config) (msgs : list msg) (nfut : nat),
    (forall m, In m msgs -> is_stop m = false) ->
    forall (drives : list bool) (sched : list tid) (st : state),
      valid cfg msgs nfut drives ->
      run cfg (init cfg drives (source_of msgs) None nfut) sched = Some st ->
      (forall t, enabled st t = false) ->
      forall i r, nth_error (rds st) i = Some r -> r_pc r = RDone /\ r_log r = vals msgs.
Proof. exact maximal_deliver. Qed.
Print Assumptions C05_mailbox_maximal_schedules_deliver.

(* Termination: the measure mu (Proof/MailboxTermination.v: weighted ranks of the sender's and the
   subscribers' program counters, remaining source, unread messages, set woken flags, pending futures)
   strictly decreases with every step of every thread, so every schedule is at most mu(initial state)
   steps long: no livelock through spurious wake-ups, no infinite run.  With deadlock freedom: every
   schedule can be extended, in at most that many steps, to a state where all threads have finished. *)
Theorem C05_mailbox_terminates :
  forall (cfg : config) (msgs : list msg) (nfut : nat),
    (forall m, In m msgs -> is_stop m = false) ->
    forall (drives : list bool) (killer : option bool) (sched : list tid) (st : state),
      drives <> [] ->
      run cfg (init cfg drives (source_of msgs) killer nfut) sched = Some st ->
      length sched + mu msgs st <= mu msgs (init cfg drives (source_of msgs) killer nfut).
Proof. exact schedules_bounded. Qed.
Print Assumptions C05_mailbox_terminates.

(* divide_outputs feeding several mailboxes (Model/MailboxDivider.v; every run projects, mailbox by
   mailbox, onto a run of the single-mailbox LTS): each subscriber of each target mailbox receives a
   prefix of that mailbox's components of the dicts, in order, and all of them once it has finished.
   For all schedules, any number of mailboxes and subscribers, lazy or eager, any flow-freely set. *)
Theorem C05_divider_delivery_safe :
  forall (dc : dconfig) (subs : list (list bool)) (comps : list (list msg)) (ndicts : nat)
         (sched : list dtid) (ds : dstate) (j : nat) (c : state) (ms : list msg),
    drun dc (dinit dc subs comps ndicts) sched = Some ds ->
    nth_error (d_mbs ds) j = Some c -> nth_error comps j = Some ms ->
    (forall m, In m ms -> is_stop m = false) ->
    forall i r, nth_error (rds c) i = Some r ->
      is_prefix (r_log r) (vals ms) /\ (r_pc r = RDone -> r_log r = vals ms).
Proof. exact divider_delivery_safe. Qed.
Print Assumptions C05_divider_delivery_safe.

(* ... and every target mailbox of a divider respects its capacity *)
Theorem C05_divider_capacity :
  forall (dc : dconfig) (subs : list (list bool)) (comps : list (list msg)) (ndicts : nat)
         (sched : list dtid) (ds : dstate) (j : nat) (c : state) (cap : nat),
    drun dc (dinit dc subs comps ndicts) sched = Some ds ->
    nth_error (d_mbs ds) j = Some c -> dc_cap dc = Some cap -> length (box c) <= cap.
Proof. exact divider_capacity. Qed.
Print Assumptions C05_divider_capacity.

(* ... and has no lost wake-up *)
Theorem C05_divider_no_lost_wakeup :
  forall (dc : dconfig) (subs : list (list bool)) (comps : list (list msg)) (ndicts : nat)
         (sched : list dtid) (ds : dstate) (j : nat) (c : state),
    drun dc (dinit dc subs comps ndicts) sched = Some ds ->
    nth_error (d_mbs ds) j = Some c -> W (cfg_of dc j) c.
Proof. exact divider_no_lost_wakeup. Qed.
Print Assumptions C05_divider_no_lost_wakeup.

(* Explicit numbering (send(msg, msg_number=k)), safety: for every duplicate-free numbering with numbers
   below the message count (= every permutation), sent in any order, with any capacity, mode, subscribers,
   kill and schedule: each subscriber's delivered sequence is a prefix of the messages ORDERED BY NUMBER
   (expected items = vals of the messages numbered 0, 1, ..., N-1), and a subscriber that finished normally
   has received all of them. *)
Theorem C05_mailbox_explicit_numbering_safe :
  forall (cfg : config) (items : list (nat * msg)) (nfut : nat),
    NoDup (map fst items) ->
    (forall k m, In (k, m) items -> k < length items) ->
    (forall k m, In (k, m) items -> is_stop m = false) ->
    forall (drives : list bool) (killer : option bool) (sched : list tid) (st : state),
      run cfg (init cfg drives (numbered_source items) killer nfut) sched = Some st ->
      forall i r, nth_error (rds st) i = Some r ->
        is_prefix (r_log r) (expected items) /\ (r_pc r = RDone -> r_log r = expected items).
Proof. exact numbered_delivery_safe. Qed.
Print Assumptions C05_mailbox_explicit_numbering_safe.

(* Explicit numbering, liveness (no kill; eager mode, and lazy mode through the fetch gate as repaired by
   /repo ede7cda, with any driver mask containing a driver): when the numbering is a permutation of
   0..N-1 that `fits` the capacity -- before every send, fewer than `capacity` of the numbers already sent
   lie above the lowest number not yet sent (always true for an unbounded mailbox) -- every reachable state
   has an enabled thread or all threads have finished, and then every subscriber has exactly the messages
   in number order.  (With the gate as it was before ede7cda -- Model/Mailbox.v can_fetch_pinned -- lazy
   mode deadlocked on out-of-order numbers: Proof/MailboxExamples.v ex_lazy_out_of_order_gate.) *)
Theorem C05_mailbox_explicit_numbering :
  forall (cfg : config) (items : list (nat * msg)) (nfut : nat),
    Permutation (map fst items) (seq 0 (length items)) ->
    (forall k m, In (k, m) items -> is_stop m = false) ->
    (forall k v n, In (n, Fut k v) items -> k < nfut) ->
    forall (drives : list bool) (sched : list tid) (st : state),
      drives <> [] -> (forall c, c_cap cfg = Some c -> 1 <= c) -> fits (c_cap cfg) (map fst items) ->
      (c_lazy cfg = true -> In true drives) ->
      run cfg (init cfg drives (numbered_source items) None nfut) sched = Some st ->
      ((exists t, enabled st t = true) \/ all_terminal st = true) /\
      (forall i r, nth_error (rds st) i = Some r ->
         is_prefix (r_log r) (expected items) /\ (r_pc r = RDone -> r_log r = expected items)) /\
      (all_terminal st = true -> forall i r, nth_error (rds st) i = Some r -> r_log r = expected items).
Proof. exact numbered_safe_and_live. Qed.
Print Assumptions C05_mailbox_explicit_numbering.

(* Deadlock freedom of the divider system (Proof/MailboxDividerLive.v): every reachable state has an
   enabled thread or everything has finished -- any number of mailboxes with at least one subscriber each,
   capacity >= 1, lazy or eager, any flow-freely set, a driving subscriber on every gated mailbox, plain
   messages.  (An accounting invariant ties the divider's pc and the dicts still to fetch to each
   component's phase and remaining items; then the single-mailbox lemma is applied to the mailbox the
   divider is working on.)  Failure paths of divide_outputs are outside the model. *)
Theorem C05_divider_deadlock_free :
  forall (dc : dconfig) (subs : list (list bool)) (comps : list (list msg)) (ndicts : nat),
    0 < length subs -> length comps = length subs ->
    (forall j dr, nth_error subs j = Some dr -> dr <> []) ->
    (forall j ms, nth_error comps j = Some ms ->
       length ms = ndicts /\ forall m, In m ms -> exists v, m = Plain v) ->
    (forall c, dc_cap dc = Some c -> 1 <= c) ->
    (forall j dr, nth_error subs j = Some dr -> gated dc j = true -> In true dr) ->
    forall (sched : list dtid) (ds : dstate),
      drun dc (dinit dc subs comps ndicts) sched = Some ds ->
      (exists t, denabled ds t = true) \/ d_all_terminal ds = true.
Proof. exact divider_deadlock_free. Qed.
Print Assumptions C05_divider_deadlock_free.

(* The property statement phrases the condition on explicit numbers as "the capacity exceeds their largest
   displacement": that implies `fits` (after p sends exactly p - u sent numbers lie above the lowest unsent
   number u, and u itself sits at a position q >= p with q < u + capacity). *)
Theorem C05_displacement_implies_fits :
  forall (c : nat) (nums : list nat),
    1 <= c ->
    Permutation nums (seq 0 (length nums)) ->
    (forall p k, nth_error nums p = Some k -> k < p + c /\ p < k + c) ->
    fits (Some c) nums.
Proof. exact displacement_implies_fits. Qed.
Print Assumptions C05_displacement_implies_fits.

(* No statement of this property is left unproved for the model.  Outside the model (see
   design_notes/C05.md): failure paths of divide_outputs, duplicate message numbers, subscriber
   exceptions, explicit numbering through a gated (lazy) sender, which strax never does and which
   deadlocks (Proof/MailboxExamples.v: ex_lazy_out_of_order_deadlocks). *)
