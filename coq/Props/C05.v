(* C05 — A mailbox delivers every message exactly once, in order, to every subscriber.

   The transition system is Model/Mailbox.v (one step = one lock region of strax/mailbox.py plus the
   lock-free code up to the next yield point; condition variables with explicit woken flags).  "For all
   schedules" is "for all sched : list tid" below; a schedule that names a thread which is not enabled
   does not run (run = None), so every `run ... = Some st` is a real execution prefix.

   This file contains only property theorems, each closed by `exact <lemma>` and followed by
   Print Assumptions, and the statements that are not proved (Definition C05_full_...). *)
From Coq Require Import Permutation.
From SV Require Import Base.Prelude Model.Mailbox Proof.MailboxFacts Proof.MailboxProof Proof.MailboxInOrder.
Local Open Scope nat_scope.

(* Every subscriber's delivered sequence is a prefix of the sent messages in number order with futures
   replaced by their results (hence no repetition and no reordering); a subscriber whose iteration ended
   normally has received all of them.  Any number of subscribers, any messages (plain / futures), any
   capacity, lazy or eager, any driver mask, with or without a kill() arriving at any moment. *)
Theorem C05_mailbox_delivery_safe :
  forall (cfg : config) (msgs : list msg) (nfut : nat),
    (forall m, In m msgs -> is_stop m = false) ->
    forall (drives : list bool) (killer : option bool) (sched : list tid) (st : state),
      run cfg (init cfg drives (source_of msgs) killer nfut) sched = Some st ->
      forall i r, nth_error (rds st) i = Some r ->
        is_prefix (r_log r) (vals msgs) /\ (r_pc r = RDone -> r_log r = vals msgs).
Proof. exact delivery_safe. Qed.
Print Assumptions C05_mailbox_delivery_safe.

(* The number of undelivered messages held never exceeds max_messages — for every source, every
   numbering (implicit or explicit), every configuration. *)
Theorem C05_mailbox_capacity :
  forall (cfg : config) (drives : list bool) (source : list (option nat * msg)) (killer : option bool)
         (nfut : nat) (sched : list tid) (st : state) (c : nat),
    c_cap cfg = Some c ->
    run cfg (init cfg drives source killer nfut) sched = Some st ->
    length (box st) <= c.
Proof. exact mailbox_capacity_gen. Qed.
Print Assumptions C05_mailbox_capacity.

(* No lost wake-up (W, Proof/MailboxProof.v): in every reachable state a subscriber waiting in
   _read_condition with its woken flag clear has next_ready = false (its message is absent and the
   mailbox is not killed); a sender waiting in _write_condition with the flag clear has can_write =
   false; a sender waiting at the lazy fetch gate with the flag clear has _can_fetch = false.  For every
   source, numbering and configuration. *)
Theorem C05_mailbox_no_lost_wakeup :
  forall (cfg : config) (drives : list bool) (source : list (option nat * msg)) (killer : option bool)
         (nfut : nat) (sched : list tid) (st : state),
    run cfg (init cfg drives source killer nfut) sched = Some st -> W cfg st.
Proof. exact mailbox_no_lost_wakeup_gen. Qed.
Print Assumptions C05_mailbox_no_lost_wakeup.

(* Deadlock freedom: every reachable state either has an enabled thread or all threads have finished.
   valid = at least one subscriber, capacity >= 1 when bounded, at least one driving subscriber in lazy
   mode, every future has a worker. *)
Theorem C05_mailbox_deadlock_free :
  forall (cfg : config) (msgs : list msg) (nfut : nat),
    (forall m, In m msgs -> is_stop m = false) ->
    forall (drives : list bool) (killer : option bool) (sched : list tid) (st : state),
      valid cfg msgs nfut drives ->
      run cfg (init cfg drives (source_of msgs) killer nfut) sched = Some st ->
      (exists t, enabled st t = true) \/ all_terminal st = true.
Proof. exact deadlock_free. Qed.
Print Assumptions C05_mailbox_deadlock_free.

(* Without a kill nothing is ever killed, and in a state where all threads have finished the mailbox is
   closed and every subscriber ended normally with exactly the sent messages. *)
Theorem C05_mailbox_complete :
  forall (cfg : config) (msgs : list msg) (nfut : nat),
    (forall m, In m msgs -> is_stop m = false) ->
    forall (drives : list bool) (sched : list tid) (st : state),
      drives <> [] ->
      run cfg (init cfg drives (source_of msgs) None nfut) sched = Some st ->
      all_terminal st = true ->
      closed st = true /\ killed st = false /\
      forall i r, nth_error (rds st) i = Some r -> r_pc r = RDone /\ r_log r = vals msgs.
Proof. exact complete. Qed.
Print Assumptions C05_mailbox_complete.

(* Every schedule can be extended until all threads have finished, and it then ends with complete
   delivery: the two theorems above combined for maximal schedules. *)
Theorem C05_mailbox_maximal_schedules_deliver :
  forall (cfg : config) (msgs : list msg) (nfut : nat),
    (forall m, In m msgs -> is_stop m = false) ->
    forall (drives : list bool) (sched : list tid) (st : state),
      valid cfg msgs nfut drives ->
      run cfg (init cfg drives (source_of msgs) None nfut) sched = Some st ->
      (forall t, enabled st t = false) ->
      forall i r, nth_error (rds st) i = Some r -> r_pc r = RDone /\ r_log r = vals msgs.
Proof. exact maximal_deliver. Qed.
Print Assumptions C05_mailbox_maximal_schedules_deliver.

(* ---------------- stated, not proved ---------------- *)

(* Termination: no infinite schedule (a measure that decreases with every step).  Together with
   deadlock freedom: every schedule reaches a state where all threads have finished. *)
Definition C05_full_mailbox_terminates : Prop :=
  forall (cfg : config) (msgs : list msg) (nfut : nat),
    (forall m, In m msgs -> is_stop m = false) ->
    forall (drives : list bool) (killer : option bool),
      valid cfg msgs nfut drives ->
      exists bound, forall sched st,
        run cfg (init cfg drives (source_of msgs) killer nfut) sched = Some st -> length sched <= bound.

(* Explicit numbering: delivery safety and deadlock freedom when the source numbers its messages by a
   permutation that fits the capacity (model: same LTS with `Some k` numbers; covered by the
   correspondence check over all permutations of up to 4 messages, not yet by a proof). *)
Definition fits (cap : option nat) (nums : list nat) : Prop :=
  match cap with
  | None => True
  | Some c => forall p, p <= length nums ->
      forall u, (forall k, k < u -> In k (firstn p nums)) -> ~ In u (firstn p nums) ->
        length (filter (fun k => u <? k) (firstn p nums)) < c
  end.
Definition C05_full_mailbox_explicit_numbering : Prop :=
  forall (cfg : config) (items : list (nat * msg)) (nfut : nat),
    c_lazy cfg = false ->
    (forall it, In it items -> is_stop (snd it) = false) ->
    Permutation (map fst items) (seq 0 (length items)) ->
    fits (c_cap cfg) (map fst items) ->
    forall (drives : list bool) (sched : list tid) (st : state),
      drives <> [] ->
      (forall c, c_cap cfg = Some c -> 1 <= c) ->
      (forall k v, In (Fut k v) (map snd items) -> k < nfut) ->
      run cfg (init cfg drives (map (fun it => (Some (fst it), snd it)) items) None nfut) sched = Some st ->
      ((exists t, enabled st t = true) \/ all_terminal st = true) /\
      (all_terminal st = true -> forall i r, nth_error (rds st) i = Some r -> r_pc r = RDone).

(* divide_outputs feeding several mailboxes is not modelled in Coq: it is exercised on the implementation
   by the controlled scheduler only (harness/props/c05.py, unit "divider"); see design_notes/C05.md. *)
