(* C04 -- A crash or I/O failure never leaves wrong data visible as valid.
   This file contains only property theorems, each closed by `exact <lemma>` and followed by Print Assumptions.

   Vocabulary (Model/FsProtocol.v, Model/SaverRun.v, Proof/FsProtocolProof.v, Proof/SaverRunProof.v):
     fs, apply_ev, run_evs     the two directories of one data key and the file operations on them
     accepts cfg tr            the saver's protocol automaton accepts the trace of (operation, outcome) events
     crash_cut tr k e          the first k events, optionally followed by operation k+1 interrupted with effect e
     visible / load            DataDirectory._find + StorageFrontend.find(check_broken) / StorageBackend.loader
     fs_ok ex f                `<key>` (if it exists) has readable metadata, and visible f -> load f = the payloads ex
     request cfg inp pl sc f   one Context.make for the key on file system f: fault plan pl, worker schedule sc
     r_var cfg                 Fixed = Saver.save_from as it is in /repo (since fix df54c5e: the outcome of every
                               pooled chunk write is inspected); Pinned = the tree as originally pinned (defect D3)
     safe_mode cfg pl          Fixed, or no thread pool, or no pooled write fails
     r_closerec cfg            save_from records a failure of close() in got_exception, so that the threaded
                               processor re-raises it (fix proposed by this check); close_reported cfg = single-thread
                               processor, or r_closerec
     ev_fail                   the event is a failed operation (or "processing failed upstream") *)
From SV Require Import Model.FsProtocol Model.SaverRun Proof.FsProtocolProof Proof.SaverRunProof.

(* Process death at any operation, mid-write included: for every trace the protocol accepts and every cut,
   if the key is visible afterwards then it loads to exactly the saved data and every listed chunk file
   exists with complete content. *)
Theorem C04_crash_safe_prefix : forall c tr k e f0 f',
  p_expected c <> [] -> fs_ok (p_expected c) f0 ->
  accepts c tr = true ->
  run_evs f0 (crash_cut tr k e) = Some f' ->
  final_has_meta f' /\
  (visible f' = true -> loads_correct (p_expected c) f' /\ listed_complete f').
Proof. exact crash_safe_prefix. Qed.
Print Assumptions C04_crash_safe_prefix.

(* (vi) Without permission to overwrite, an existing data directory survives every accepted trace. *)
Theorem C04_no_overwrite_without_permission : forall c tr s f0 f' d,
  p_allow_rm c = false -> prun c s tr <> None -> run_evs f0 tr = Some f' ->
  f_final f0 = Some d -> f_final f' = Some d.
Proof. exact no_overwrite_without_permission. Qed.
Print Assumptions C04_no_overwrite_without_permission.

(* An exception at any operation(s), followed by the code's own cleanup path, for every schedule of the
   worker threads: the run terminates, its trace is accepted by the protocol, "visible => correct" holds
   afterwards, and -- where a failure of close() itself is reported (close_reported) -- every failure reaches the
   caller as an error and success means visible and correct.
   (safe_mode holds for the code as it is: r_var = Fixed.) *)
Theorem C04_fault_safe : forall cfg inp pl sched f0,
  in_chunks inp <> [] -> fs_ok (expected_of inp) f0 -> safe_mode cfg pl ->
  let r := request cfg inp pl sched f0 in
  res_fin r = true /\
  accepts (pcfg_of cfg inp f0) (res_tr r) = true /\
  fs_ok (expected_of inp) (res_fs r) /\
  (close_reported cfg = true ->
   (existsb ev_fail (res_tr r) = true -> is_err (res_out r)) /\
   (res_out r = Ok tt -> visible (res_fs r) = true /\ loads_correct (expected_of inp) (res_fs r))).
Proof. exact request_safe. Qed.
Print Assumptions C04_fault_safe.

(* Any number of attempts with further faults keeps "visible => correct" ... *)
Theorem C04_retries_keep_visible_correct : forall cfg chunks atts f0,
  chunks <> [] -> fs_ok (number_from 0 chunks) f0 ->
  Forall (fun a => safe_mode cfg (att_plan a)) atts ->
  fs_ok (number_from 0 chunks) (retries cfg chunks atts f0).
Proof. exact retries_safe. Qed.
Print Assumptions C04_retries_keep_visible_correct.

(* ... and from any state so reached the identical request, without faults, removes the broken remains
   and ends visible and correct -- for every schedule. *)
Theorem C04_retry_converges : forall cfg chunks atts sched f0,
  chunks <> [] -> r_never cfg = false -> fs_ok (number_from 0 chunks) f0 ->
  Forall (fun a => safe_mode cfg (att_plan a)) atts ->
  let f1 := retries cfg chunks atts f0 in
  let r := request cfg (mkInput chunks None []) no_faults sched f1 in
  fs_ok (number_from 0 chunks) f1 /\
  res_out r = Ok tt /\ visible (res_fs r) = true /\ loads_correct (number_from 0 chunks) (res_fs r).
Proof. exact retry_converges. Qed.
Print Assumptions C04_retry_converges.

(* A failed operation -- a pooled chunk write on a worker thread included -- is never swallowed: with the futures
   inspected (Fixed) and failures of close() reported, for every processor, fault plan and schedule a failed event
   makes the request end with an error for the caller, with a trace the protocol accepts (`exception` is recorded
   before the directory can be renamed), and never with wrong data visible. *)
Theorem C04_async_failure_not_swallowed : forall proc pool never closerec pl,
  close_reported (mkRcfg Fixed proc pool never closerec) = true ->
  not_swallowed (mkRcfg Fixed proc pool never closerec) pl.
Proof. exact not_swallowed_fixed. Qed.
Print Assumptions C04_async_failure_not_swallowed.

(* Documentation of defect D3 (repaired in /repo by df54c5e): for Saver.save_from as originally pinned the statement
   holds only as long as no pooled write fails (or there is no thread pool), ... *)
Theorem C04_async_failure_not_swallowed_pinned_partial : forall proc pool never closerec pl,
  close_reported (mkRcfg Pinned proc pool never closerec) = true ->
  (is_async (mkRcfg Pinned proc pool never closerec) = false \/ worker_faultless pl) ->
  not_swallowed (mkRcfg Pinned proc pool never closerec) pl.
Proof. exact not_swallowed_pinned_partial. Qed.
Print Assumptions C04_async_failure_not_swallowed_pinned_partial.

(* ... and is refuted otherwise: thread-pool saving, the write of one chunk raises on its worker thread;
   Context.make returns normally, the key is visible, loading fails. *)
Theorem C04_async_failure_not_swallowed_pinned_refuted :
  exists inp sched f0,
    in_chunks inp <> [] /\ fs_ok (expected_of inp) f0 /\
    let r := request d3_cfg inp d3_plan sched f0 in
    existsb ev_fail (res_tr r) = true /\
    res_out r = Ok tt /\
    accepts (pcfg_of d3_cfg inp f0) (res_tr r) = false /\
    visible (res_fs r) = true /\
    load (res_fs r) = Err E_NOFILE.
Proof. exact not_swallowed_pinned_refuted. Qed.
Print Assumptions C04_async_failure_not_swallowed_pinned_refuted.

(* Documentation of the second defect found by this check: with the threaded processor and without the
   got_exception recording, a failure of close() itself (here the final directory rename) is lost:
   Context.make returns normally although nothing was stored. *)
Theorem C04_close_failure_unrecorded_refuted :
  exists inp sched f0,
    in_chunks inp <> [] /\ fs_ok (expected_of inp) f0 /\
    let r := request lost_cfg inp lost_plan sched f0 in
    existsb ev_fail (res_tr r) = true /\
    res_out r = Ok tt /\
    accepts (pcfg_of lost_cfg inp f0) (res_tr r) = true /\
    visible (res_fs r) = false /\ f_temp (res_fs r) <> None.
Proof. exact close_failure_lost_refuted. Qed.
Print Assumptions C04_close_failure_unrecorded_refuted.
