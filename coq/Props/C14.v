(* C14 — A superrun is exactly the ordered concatenation of its subruns.
   Only property theorems, each closed by `exact <lemma>` and followed by Print Assumptions. *)
From SV Require Import Model.Annot Model.Superrun Proof.SuperrunKeyProof.
From Coq Require Import Permutation Sorted.

(* a different sub-run spec (or the other combining mode) gives a different data key, whatever the hash,
   as long as it does not collide on canonical serialisations *)
Theorem C14_redefinition_changes_key :
  forall (hash : list Z * bool -> Z), (forall a b, hash a = hash b -> a = b) ->
  forall run s1 c1 s2 c2 dt lin,
    ~ (Permutation s1 s2 /\ c1 = c2) ->
    data_key hash run s1 c1 dt lin <> data_key hash run s2 c2 dt lin.
Proof. exact redefinition_changes_key. Qed.
Print Assumptions C14_redefinition_changes_key.

(* what a lookup under the current definition finds was stored under a definition with the same sub-runs *)
Theorem C14_stored_superrun_not_stale :
  forall (hash : list Z * bool -> Z), (forall a b, hash a = hash b -> a = b) ->
  forall (V : Type) (st : store V) run spec comb dt lin v,
    Forall (fun kv => exists r s c d l, fst kv = data_key hash r s c d l) st ->
    find_key (data_key hash run spec comb dt lin) st = Some v ->
    exists s, In (data_key hash run s comb dt lin, v) st /\ Permutation s spec.
Proof. exact @lookup_sound. Qed.
Print Assumptions C14_stored_superrun_not_stale.
