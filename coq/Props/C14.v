(* C14 — A superrun is exactly the ordered concatenation of its subruns.
   Only property theorems, each closed by `exact <lemma>` and followed by Print Assumptions.
   The three statements that the pinned tree violated (findings F1, F2; repaired in /repo by 317aec4 and
   bea6d1c, which the model now mirrors) are proved in full; the *_pinned_refuted theorems keep the
   witnesses on the pinned behaviour (Model/SuperrunPinned.v). *)
From SV Require Import Model.Annot Model.Superrun Model.SuperrunPinned Proof.SuperrunKeyProof Proof.AnnotProof
     Proof.SuperrunRowsProof Proof.SuperrunExactProof Proof.SuperrunTotalProof Proof.SuperrunMainProof
     Proof.SuperrunWitness.
From Coq Require Import Permutation Sorted.

(* ---------------------------------------------------------------------------------------------
   the annotation layer of strax.Chunk
   --------------------------------------------------------------------------------------------- *)

(* _split_runs_in_chunk: a time belongs to run r in the left (right) part iff it belongs to r in the
   original and lies before (at or after) t; both parts stay sorted and non-overlapping, hold no empty
   span, are None rather than {} when nothing is left, and keep keys and key uniqueness *)
Theorem C14_annot_split_spec : forall l t a1 a2,
  wfa l -> split_runs (Some l) t = (a1, a2) ->
  (forall r x, covers (olist a1) r x <-> covers l r x /\ x < t) /\
  (forall r x, covers (olist a2) r x <-> covers l r x /\ t <= x) /\
  wfa (olist a1) /\ wfa (olist a2) /\
  Forall (fun s => send s <= t) (olist a1) /\ Forall (fun s => t <= sstart s) (olist a2) /\
  a1 <> Some [] /\ a2 <> Some [] /\
  incl (keys (olist a1)) (keys l) /\ incl (keys (olist a2)) (keys l) /\
  (NoDup (keys l) -> NoDup (keys (olist a1)) /\ NoDup (keys (olist a2))).
Proof. exact annot_split_spec. Qed.
Print Assumptions C14_annot_split_spec.

(* split, then merge the two halves as Chunk.concatenate does: the identity on sorted non-overlapping
   spans (a span cut at t is re-joined) *)
Theorem C14_annot_concat_inverse : forall l t a1 a2,
  wfa l -> NoDup (keys l) -> split_runs (Some l) t = (a1, a2) ->
  mergable_check (merge_runs a2 (merge_runs a1 [])) false = Ok l.
Proof. exact annot_concat_inverse. Qed.
Print Assumptions C14_annot_concat_inverse.

(* two chunks that carry the same annotation: continuous mode refuses, the try/except fall-back to
   merge mode returns the annotation *)
Theorem C14_annot_concat_fallback : forall l,
  wfa l -> NoDup (keys l) ->
  mergable_check (merge_runs (Some l) (merge_runs (Some l) [])) true = Ok l /\
  (l <> [] -> mergable_check (merge_runs (Some l) (merge_runs (Some l) [])) false = Err E_NOT_CONT).
Proof. exact annot_concat_unsplit. Qed.
Print Assumptions C14_annot_concat_fallback.

(* Chunk.split then Chunk.concatenate on a superrun chunk whose annotation is exact (T = the sub-runs'
   spans): the chunk that was split -- rows, range, run id, subruns, superrun *)
Theorem C14_chunk_concat_split_inverse : forall T prun,
  wfa T -> NoDup (keys T) -> has_none_key T = false ->
  forall c t0 early c1 c2 allow c',
    exactc T prun c -> asplit c t0 early = Ok (c1, c2) ->
    aconcatenate [Some c1; Some c2] allow = Ok c' -> c' = c.
Proof. exact asplit_aconcatenate_id. Qed.
Print Assumptions C14_chunk_concat_split_inverse.

(* ---------------------------------------------------------------------------------------------
   superrun_annotations_exact: the invariant through split, concatenate, rechunk -- for ANY exact chunk,
   also one that begins or ends in a gap between sub-runs (promised_continuity False)
   --------------------------------------------------------------------------------------------- *)
Theorem C14_exact_through_split : forall T prun,
  wfa T -> has_none_key T = false ->
  forall c t0 early c1 c2,
    exactc T prun c -> asplit c t0 early = Ok (c1, c2) ->
    exactc T prun c1 /\ exactc T prun c2 /\ cend (abase c1) = cstart (abase c2) /\
    cstart (abase c1) = cstart (abase c) /\ cend (abase c2) = cend (abase c).
Proof. exact asplit_exact. Qed.
Print Assumptions C14_exact_through_split.

Theorem C14_exact_through_concatenate : forall T prun,
  wfa T -> NoDup (keys T) -> has_none_key T = false ->
  forall c1 c2 allow c,
    exactc T prun c1 -> exactc T prun c2 -> cend (abase c1) = cstart (abase c2) ->
    aconcatenate [Some c1; Some c2] allow = Ok c ->
    exactc T prun c /\ cstart (abase c) = cstart (abase c1) /\ cend (abase c) = cend (abase c2).
Proof. exact aconcatenate_exact. Qed.
Print Assumptions C14_exact_through_concatenate.

Theorem C14_exact_through_rechunk : forall T prun,
  wfa T -> NoDup (keys T) -> has_none_key T = false ->
  forall is_sr cs cache e res,
    cache_ok T prun cache e -> Forall (exactc T prun) cs -> chain_from e cs ->
    arechunk_from is_sr cache cs = Ok res ->
    Forall (exactc T prun) res /\ chain_from (cache_start cache e) res /\
    end_of (cache_start cache e) res = end_of e cs.
Proof. exact arechunk_exact. Qed.
Print Assumptions C14_exact_through_rechunk.

(* the full statement (formerly C14_full_superrun_annotations_exact): valid sub-runs with ANY gaps between
   them (lgaps: nothing of T lies between consecutive chunks), chained in spec order; every chunk yielded,
   stored (rechunked across sub-run borders or not) or re-read records exactly the runs it covers with the
   spans it covers; any number of superrun-capable levels *)
Theorem C14_superrun_annotations_exact : forall T prun,
  wfa T -> NoDup (keys T) -> has_none_key T = false -> prun < 0 ->
  forall dt k tgt L subruns,
    concat subruns = map (stored_of dt k tgt) L -> L <> [] -> Forall (lgood T prun) L ->
    lorder 0 (la (hd (mklc 0 0 0 []) L)) L -> lgaps T (la (hd (mklc 0 0 0 []) L)) L ->
  forall levels write out savs,
    levels <> [] ->
    superrun_get prun write levels subruns = Ok (out, savs) ->
    Forall (exactc T prun) out /\
    map out_view out = map out_view (fl_outs prun (hd (mklevel 0 0 false 0) levels) (la (hd (mklc 0 0 0 []) L)) L) /\
    (write = true ->
     Forall (fun sv => saved_exact T prun sv /\
                       forall cs', superrun_reload sv = Ok cs' -> Forall (exactc T prun) cs') savs).
Proof. exact superrun_exact. Qed.
Print Assumptions C14_superrun_annotations_exact.

(* on the pinned tree (Chunk.split before bea6d1c) the statement was false *)
Theorem C14_superrun_annotations_exact_pinned_refuted :
  exists T prun L subruns levels out,
    valid_instance T prun L /\ concat subruns = map (stored_of 11 1 4) L /\ levels <> [] /\
    superrun_get_pinned prun levels subruns = Ok out /\ ~ Forall (exactc T prun) out.
Proof. exact superrun_annotations_exact_pinned_refuted. Qed.
Print Assumptions C14_superrun_annotations_exact_pinned_refuted.

(* ---------------------------------------------------------------------------------------------
   superrun_rows
   --------------------------------------------------------------------------------------------- *)

(* the full statement (formerly C14_full_superrun_rows): on valid sub-runs with any gaps get(superrun) returns,
   with the rows of the sub-runs concatenated in the order of the spec, and every stored level re-reads to
   the chunks that were stored.  (When levels rechunk on saving, returning also needs the Rechunker not to
   fail, which is C07's; see C14_superrun_rows_returned for that case.) *)
Theorem C14_superrun_rows : forall T prun,
  wfa T -> NoDup (keys T) -> has_none_key T = false -> prun < 0 ->
  forall dt k tgt L subruns,
    concat subruns = map (stored_of dt k tgt) L -> L <> [] -> Forall (lgood T prun) L ->
    lorder 0 (la (hd (mklc 0 0 0 []) L)) L -> lgaps T (la (hd (mklc 0 0 0 []) L)) L ->
  forall levels write,
    levels <> [] -> (write = true -> Forall (fun lv => l_rechunk lv = false) levels) ->
    exists out savs,
      superrun_get prun write levels subruns = Ok (out, savs) /\
      rows_of_stream out = flat_map lrows L /\
      (write = true -> Forall (fun sv => exists cs, sv = map save_chunk cs /\ superrun_reload sv = Ok cs) savs).
Proof. exact superrun_total. Qed.
Print Assumptions C14_superrun_rows.

Theorem C14_superrun_rows_pinned_refuted :
  exists T prun L subruns levels e,
    valid_instance T prun L /\ concat subruns = map (stored_of 10 1 4) L /\ levels <> [] /\
    superrun_get_pinned prun levels subruns = Err e.
Proof. exact superrun_rows_pinned_refuted. Qed.
Print Assumptions C14_superrun_rows_pinned_refuted.

(* whatever get(superrun) returns -- any input, any depth of the superrun-capable level, per-sub-run
   levels and superrun levels rechunking or not, written or not, re-read from the stored superrun --
   holds the rows of the sub-runs concatenated in the order in which they are chained *)
Theorem C14_superrun_rows_returned : forall prun write low levels srcs out savs,
  superrun_full prun write low levels srcs = Ok (out, savs) ->
  let want := flat_map (fun rs => stored_rows (snd rs)) srcs in
  rows_of_stream out = want /\
  (write = true ->
   Forall (fun sv => stored_rows sv = want /\
                     forall cs, superrun_reload sv = Ok cs -> rows_of_stream cs = want) savs).
Proof. exact superrun_full_rows. Qed.
Print Assumptions C14_superrun_rows_returned.

Theorem C14_combining_rows_returned : forall low levels srcs cs,
  combining_full low levels srcs = Ok cs ->
  rows_of_stream cs = flat_map (fun rs => stored_rows (snd rs)) srcs.
Proof. exact combining_full_rows. Qed.
Print Assumptions C14_combining_rows_returned.

(* the order: define_run orders the spec by run start ... *)
Theorem C14_define_run_by_start : forall start_of data,
  StronglySorted (fun a b => start_of a <= start_of b) (define_run_order start_of data) /\
  Permutation (define_run_order start_of data) (dedup data).
Proof. intros s d. split; [exact (define_run_sorted s d)|exact (define_run_perm s d)]. Qed.
Print Assumptions C14_define_run_by_start.

(* ... and (formerly C14_full_spec_by_start) the sub-runs are made and chained in order of run start whatever
   order the storage frontend hands the spec back in *)
Theorem C14_spec_by_start : forall start_of data,
  StronglySorted (fun a b => start_of a <= start_of b) (chained_spec start_of data) /\
  Permutation (chained_spec start_of data) (dedup data).
Proof. intros s d. split; [exact (chained_spec_sorted s d)|exact (chained_spec_perm s d)]. Qed.
Print Assumptions C14_spec_by_start.

(* on the pinned tree (check_cache before 317aec4) they were chained in the order read back, which a
   DataDirectory sorts by run id *)
Theorem C14_spec_by_start_pinned_refuted :
  exists start_of data,
    ~ StronglySorted (fun a b => start_of a <= start_of b) (sub_run_spec start_of data).
Proof. exact spec_by_start_pinned_refuted. Qed.
Print Assumptions C14_spec_by_start_pinned_refuted.

(* ---------------------------------------------------------------------------------------------
   redefinition
   --------------------------------------------------------------------------------------------- *)

(* a different sub-run spec (or the other combining mode) gives a different data key, whatever the hash,
   as long as it does not collide on canonical serialisations *)
Theorem C14_redefinition_changes_key :
  forall (hash : list Z * bool -> Z), (forall a b, hash a = hash b -> a = b) ->
  forall run s1 c1 s2 c2 dt lin,
    ~ (Permutation s1 s2 /\ c1 = c2) ->
    data_key hash run s1 c1 dt lin <> data_key hash run s2 c2 dt lin.
Proof. exact redefinition_changes_key. Qed.
Print Assumptions C14_redefinition_changes_key.

(* the key does not depend on the order in which the sub-runs are listed *)
Theorem C14_key_canonical :
  forall (hash : list Z * bool -> Z) s1 s2 c, Permutation s1 s2 -> key_suffix hash s1 c = key_suffix hash s2 c.
Proof. exact key_suffix_canonical. Qed.
Print Assumptions C14_key_canonical.

(* what a lookup under the current definition finds was stored under a definition with the same sub-runs:
   previously stored superrun data of another definition is unavailable, never stale *)
Theorem C14_stored_superrun_not_stale :
  forall (hash : list Z * bool -> Z), (forall a b, hash a = hash b -> a = b) ->
  forall (V : Type) (st : store V) run spec comb dt lin v,
    Forall (fun kv => exists r s c d l, fst kv = data_key hash r s c d l) st ->
    find_key (data_key hash run spec comb dt lin) st = Some v ->
    exists s, In (data_key hash run s comb dt lin, v) st /\ Permutation s spec.
Proof. exact @lookup_sound. Qed.
Print Assumptions C14_stored_superrun_not_stale.

(* any history of define_run / get on one superrun name and one storage directory: when the superrun is found
   stored under its current definition, it was stored while a definition with the same sub-runs was current
   (h_gotten = the definitions that were current when a get stored something) *)
Theorem C14_history_not_stale : forall ops,
  let s := fold_left h_step ops (mkh [] []) in
  h_is_stored s = true ->
  exists spec, In spec (h_gotten (mkh [] []) ops) /\ Permutation spec (h_spec s).
Proof. exact hist_not_stale. Qed.
Print Assumptions C14_history_not_stale.
