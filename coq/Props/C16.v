(* C16 — Copying, rechunking, recompressing and per-chunk merging preserve the data.
   Only property theorems, each closed by `exact <lemma>` and followed by Print Assumptions.

   Vocabulary (Model/CopyRechunk.v, Proof/CopyRechunkProof.v):
     stored            one directory: metadata fields + per-chunk infos with the content of the files they name
     load dec s sel ovr onload   StorageBackend.loader (chunk_number selection, FileSytemBackend target
                                 override, rechunk on load)
     good dec s cs     s is complete (writing_ended, no exception), loads to cs, and cs is a valid stream
                       (non-empty, well-formed chunks, contiguous, one data type / run, positive targets)
     meta_consistent   complete, loadable, every chunk_info matches its file (n, start, end, run, first/last
                       times, file present iff non-empty), chunks well-formed and contiguous from the overall
                       start to the overall end
     dest_ok s cs rechunk s' cs'   s' is meta_consistent, loads to cs', rows of cs' = rows of cs in order, overall
                       start / end = those of cs; rechunk = false: same chunks (start, end, rows); rechunk = true:
                       every interior boundary of cs' lies strictly inside a row-free gap of the data
     fsys / lookup / visible     file system of directories; rmtree, rename / move, one metadata flush are atomic
   The codec (compressor + numpy buffer) is any enc / dec with dec k (enc k rows) = Some rows. *)
From SV Require Import Model.Rows Model.SplitArray Model.Chunk Model.Rechunker Model.CopyRechunk
     Proof.RechunkerProof Proof.RechunkerStrong Proof.CopyRechunkProof Proof.OnLoadProof Proof.PerChunkProof
     Proof.KeyTagProof Proof.C16Examples Model.C16Run.

(* Context.copy_to_frontend: any compressor, rechunk on/off, any positive target.  The call succeeds; after
   every atomic step the source directory is unchanged and the destination path holds nothing or the
   complete copy; at the end the destination holds the data (dest_ok), under the requested compressor. *)
Theorem C16_copy_preserves :
  forall (bytes : Type) (enc : Z -> list row -> bytes) (dec : Z -> bytes -> option (list row)),
  (forall k rs, dec k (enc k rs) = Some rs) ->
  forall (fs : fsys bytes) src dst tmp comp rechunk rechunk_to s cs,
  src <> dst -> src <> tmp -> dst <> tmp ->
  lookup src fs = Some s -> good dec s cs -> visible fs dst = false ->
  (rechunk = true -> 0 < rechunk_to) ->
  exists tr s' cs',
    copy_run enc dec fs src dst tmp comp rechunk rechunk_to = (tr, Ok tt) /\
    Forall (fun fs' => lookup src fs' = Some s) tr /\
    Forall (fun fs' => lookup dst fs' = None \/ lookup dst fs' = Some s') tr /\
    lookup dst (last tr fs) = Some s' /\ lookup tmp (last tr fs) = None /\
    md_comp s' = match comp with Some k => k | None => md_comp s end /\
    dest_ok dec s cs rechunk s' cs'.
Proof. exact (@copy_preserves). Qed.
Print Assumptions C16_copy_preserves.

(* complete data already in the target frontend is never overwritten *)
Theorem C16_copy_refuses_existing :
  forall (bytes : Type) (enc : Z -> list row -> bytes) (dec : Z -> bytes -> option (list row)),
  forall (fs : fsys bytes) src dst tmp comp rechunk rechunk_to s,
  lookup src fs = Some s -> is_valid s = true -> visible fs dst = true ->
  copy_run enc dec fs src dst tmp comp rechunk rechunk_to = ([], Err E_EXISTS).
Proof. exact (@copy_refuses_existing). Qed.
Print Assumptions C16_copy_refuses_existing.

(* strax.rechunker: any compressor, any positive target size, rechunk on/off.  The new data is dest_ok.
   replace = false: no source path is written or removed, the destination holds nothing or the complete
   new data at every step.  replace = true: the source path ends up holding the new data, the
   destination path is gone, and after every atomic step (a crash point) the source path holds the
   complete old directory, nothing, or the complete new directory — never anything else — while the data
   is never gone from both places. *)
Theorem C16_rechunker_preserves :
  forall (bytes : Type) (enc : Z -> list row -> bytes) (dec : Z -> bytes -> option (list row)),
  (forall k rs, dec k (enc k rs) = Some rs) ->
  forall (fs : fsys bytes) src dst tmp replace comp tgt rechunk s cs,
  src <> dst -> src <> tmp -> dst <> tmp ->
  lookup src fs = Some s -> good dec s cs -> (forall t, tgt = Some t -> 0 < t) ->
  exists tr s' cs',
    rechunker_run enc dec fs src dst tmp replace comp tgt rechunk = (tr, Ok tt) /\
    md_comp s' = match comp with Some k => k | None => md_comp s end /\
    md_target s' = match tgt with Some t => t | None => md_target s end /\
    dest_ok dec s cs rechunk s' cs' /\
    (replace = false ->
       Forall (fun fs' => lookup src fs' = Some s) tr /\
       Forall (fun fs' => lookup dst fs' = None \/ lookup dst fs' = Some s') tr /\
       lookup dst (last tr fs) = Some s') /\
    (replace = true ->
       lookup src (last tr fs) = Some s' /\ lookup dst (last tr fs) = None /\
       Forall (fun fs' => lookup src fs' = Some s \/ lookup src fs' = None \/ lookup src fs' = Some s') tr /\
       Forall (fun fs' => lookup src fs' = Some s \/ lookup dst fs' = Some s' \/ lookup src fs' = Some s') tr).
Proof. exact (@rechunker_preserves). Qed.
Print Assumptions C16_rechunker_preserves.

(* loading through a rechunk_on_load plugin (any positive source size): same rows in order, well-formed
   chunks, contiguous over the same range *)
Theorem C16_rechunk_on_load_preserves :
  forall (bytes : Type) (dec : Z -> bytes -> option (list row)) (s : stored bytes) cs t,
  load dec s None None None = Ok cs -> valid_stream cs -> 0 < t ->
  exists out, load dec s None None (Some t) = Ok out /\ out <> [] /\ Forall wf out /\
    flat_map crows out = flat_map crows cs /\ chain (stream_start cs) out (stream_end cs).
Proof. exact (@rechunk_on_load_preserves). Qed.
Print Assumptions C16_rechunk_on_load_preserves.

(* every grouping of the dependency's chunks into consecutive non-empty jobs (ns = the job sizes): every
   per-chunk make succeeds and is consistent; merge_per_chunk_storage takes them, stores under the ordinary
   key, and the merged data loads to exactly the rows of the directly made data, over the same range *)
Theorem C16_per_chunk_merge_equals_direct :
  forall (bytes : Type) (enc : Z -> list row -> bytes) (dec : Z -> bytes -> option (list row)),
  (forall k rs, dec k (enc k rs) = Some rs) ->
  forall f : list row -> list row,
  (forall a b rows, sorted rows -> Forall (fun r => a <= rt r /\ rt r <= re r /\ re r <= b) rows ->
     sorted (f rows) /\ Forall (fun r => a <= rt r /\ rt r <= re r /\ re r <= b) (f rows)) ->
  forall (dep : stored bytes) ds ns (md_t : stored bytes) rechunk_save merge_rechunk rechunk_to,
  good dec dep ds -> 0 < md_target md_t -> (merge_rechunk = true -> 0 < rechunk_to) ->
  Forall (fun n => (0 < n)%nat) ns -> list_sum ns = length ds ->
  exists jobs merged direct ms dd,
    Forall2 (fun g job => make_from enc dec f dep (Some g) md_t rechunk_save = Ok job) (groups_of 0 ns) jobs /\
    Forall (fun job => meta_consistent dec job) jobs /\
    merge_tag (length (md_chunks dep)) (groups_of 0 ns) = Ok None /\
    merge_run enc dec (map Some jobs) md_t merge_rechunk rechunk_to = Ok merged /\
    make_from enc dec f dep None md_t rechunk_save = Ok direct /\
    meta_consistent dec merged /\ meta_consistent dec direct /\
    load dec merged None None None = Ok ms /\ load dec direct None None None = Ok dd /\
    flat_map crows ms = flat_map crows dd /\
    flat_map crows dd = flat_map (fun c => f (crows c)) ds /\
    md_start merged = md_start direct /\ md_end merged = md_end direct /\
    md_start merged = stream_start ds /\ md_end merged = stream_end ds.
Proof. exact (@per_chunk_merge_equals_direct). Qed.
Print Assumptions C16_per_chunk_merge_equals_direct.

(* for a computation that commutes with concatenation these rows do not depend on how the dependency is
   chunked at all *)
Theorem C16_per_chunk_rows_chunking_independent :
  forall (f : list row -> list row) ds,
  (forall x y, f (x ++ y) = f x ++ f y) ->
  flat_map (fun c => f (crows c)) ds = f (flat_map crows ds).
Proof. exact per_chunk_rows_chunking_independent. Qed.
Print Assumptions C16_per_chunk_rows_chunking_independent.

(* the canonical serialisation of lineages is injective ... *)
Theorem C16_ser_injective : forall v v', ser v = ser v' -> v = v'.
Proof. exact ser_injective. Qed.
Print Assumptions C16_ser_injective.

(* ... so, for a hash that is injective on canonical serialisations, keys that differ only in the
   chunk_number tag (None = ordinary key) differ *)
Theorem C16_chunk_number_keys_distinct :
  forall (hash : list tok -> Z), (forall v v', hash (ser v) = hash (ser v') -> ser v = ser v') ->
  forall lin_pre lin_post tgt cls ver cfg_pre cfg_post dep t1 t2,
  key_hash hash lin_pre lin_post tgt cls ver cfg_pre cfg_post dep t1 =
  key_hash hash lin_pre lin_post tgt cls ver cfg_pre cfg_post dep t2 -> t1 = t2.
Proof. exact chunk_number_keys_distinct. Qed.
Print Assumptions C16_chunk_number_keys_distinct.

(* the jobs of one grouping never share a key, and none has the ordinary key *)
Theorem C16_job_keys_distinct :
  forall (hash : list tok -> Z), (forall v v', hash (ser v) = hash (ser v') -> ser v = ser v') ->
  forall lin_pre lin_post tgt cls ver cfg_pre cfg_post dep ns,
  Forall (fun n => (0 < n)%nat) ns ->
  let key := key_hash hash lin_pre lin_post tgt cls ver cfg_pre cfg_post dep in
  Forall (fun g => key (Some g) <> key None) (groups_of 0 ns) /\
  forall i j g1 g2, nth_error (groups_of 0 ns) i = Some g1 -> nth_error (groups_of 0 ns) j = Some g2 ->
    key (Some g1) = key (Some g2) -> i = j.
Proof. exact job_keys_distinct. Qed.
Print Assumptions C16_job_keys_distinct.

(* ---------------------------------------------------------------------------------------------------
   "replace = false leaves the source intact" for EVERY destination (no side condition src <> dst): holds
   since /repo's "fix: rechunker refuses a destination that is the source directory". *)
Theorem C16_rechunker_source_intact :
  forall (bytes : Type) (enc : Z -> list row -> bytes) (dec : Z -> bytes -> option (list row)),
  (forall k rs, dec k (enc k rs) = Some rs) ->
  forall (fs : fsys bytes) src dst tmp comp tgt rechunk s cs,
  src <> tmp -> dst <> tmp -> lookup src fs = Some s -> good dec s cs -> (forall t, tgt = Some t -> 0 < t) ->
  Forall (fun fs' => lookup src fs' = Some s) (fst (rechunker_run enc dec fs src dst tmp false comp tgt rechunk)).
Proof. exact (@rechunker_source_intact_full). Qed.
Print Assumptions C16_rechunker_source_intact.

(* pinned: the code before that repair (rechunker_unguarded) with a destination that resolves to the source
   directory removed the source before reading it (replayed by the harness unit rechunker_same_dir, which
   would fire again if the repair were reverted) *)
Theorem C16_rechunker_same_dir_pinned :
  exists (fs : fsys C16Run.tbytes) src tmp s cs,
    src <> tmp /\ lookup src fs = Some s /\ good C16Run.tdec s cs /\
    let '(tr, r) := rechunker_unguarded C16Run.tenc C16Run.tdec fs src src tmp false None None true in
    r = Err E_NO_CHUNKS /\ visible (last tr fs) src = false /\
    ~ Forall (fun fs' => lookup src fs' = Some s) tr.
Proof. exact rechunker_same_dir_witness. Qed.
Print Assumptions C16_rechunker_same_dir_pinned.

(* ---------------------------------------------------------------------------------------------------
   A statement the faithful model refutes (finding on the real code, replayed by the harness unit merge_hole;
   see design_notes/C16.md). *)
(* "the merged data goes under the ordinary key only if all chunks of the dependency took part" *)
Definition C16_full_merge_tag_complete : Prop :=
  forall ndep groups, merge_tag ndep groups = Ok None -> forall i, (i < ndep)%nat -> In i (concat groups).

Theorem C16_merge_tag_complete_partial :
  forall ns, Forall (fun n => (0 < n)%nat) ns -> ns <> [] ->
  merge_tag (list_sum ns) (groups_of 0 ns) = Ok None /\
  forall i, (i < list_sum ns)%nat -> In i (concat (groups_of 0 ns)).
Proof. exact merge_tag_complete_groupings. Qed.
Print Assumptions C16_merge_tag_complete_partial.

(* staged merges: a block of consecutive jobs (chunks a .. a + sum ns - 1 of ndep) goes under the ordinary
   key only if it is the whole dependency; leading, tail and middle blocks get a tagged key *)
Theorem C16_staged_merge_plain_only_if_full :
  forall ndep a ns,
  Forall (fun n => (0 < n)%nat) ns -> ns <> [] -> (a + list_sum ns <= ndep)%nat ->
  merge_tag ndep (groups_of a ns) = Ok None -> a = 0%nat /\ list_sum ns = ndep.
Proof. exact merge_tag_block_plain_only_if_full. Qed.
Print Assumptions C16_staged_merge_plain_only_if_full.

Theorem C16_merge_tag_complete_refuted :
  exists ndep groups i, merge_tag ndep groups = Ok None /\ (i < ndep)%nat /\ ~ In i (concat groups).
Proof. exact merge_hole_witness. Qed.
Print Assumptions C16_merge_tag_complete_refuted.

(* stored layouts exist: what a saver leaves for any valid stream (rechunking or not) is `good` and consistent *)
Theorem C16_save_good :
  forall (bytes : Type) (enc : Z -> list row -> bytes) (dec : Z -> bytes -> option (list row)),
  (forall k rs, dec k (enc k rs) = Some rs) ->
  forall (md : stored bytes) cs rechunk,
  valid_stream cs -> 0 < md_target md ->
  exists s' cs', save_stream enc md cs rechunk = Ok s' /\ good dec s' cs' /\ meta_consistent dec s' /\
    flat_map crows cs' = flat_map crows cs /\ md_start s' = stream_start cs /\ md_end s' = stream_end cs.
Proof. exact (@save_good). Qed.
Print Assumptions C16_save_good.
