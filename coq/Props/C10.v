(* C10 — Time-range, row and column selections commute with chunking and storage.
   Only property theorems, each closed by `exact <lemma>` and followed by Print Assumptions.

   Vocabulary (Model/Selection.v, Proof/SelectionProof.v):
     get_array_abs cs (Some (t0,t1)) m p keep drop   the model of Context.get_array on a stored stream cs
                                                     (loader pruning, apply_time_range, per-chunk
                                                     apply_selection, "returned no chunks", continuity)
     select_full cs ...                              the same selection applied to the full result
     pruned t0 t1 c                                  the loader's "chunk does not cover any part of range"
     lost t0 t1 c r / lostm m ..                     r is a zero-length row exactly on an edge of a
                                                     fully_contained range, stored in c such that the
                                                     loader drops it (the failing class)
     visible_rows m t0 t1 cs                         all rows but the lost ones
     time_mode m                                     m = FC \/ m = Touching *)
From SV Require Import Model.Rows Model.Chunk Model.Selection Proof.SelectionProof Proof.SelectionMultiProof.

(* The full-strength statement: for every continuous well-formed on-disk chunking, every range,
   both modes, every row predicate and every keep / drop column set, loading with the range gives
   the selection of the full result (or the explicit error when no chunk overlaps). *)
Definition C10_full_selection_commutes : Prop :=
  forall cs t0 t1 m p keep drop,
    time_mode m -> Forall wf cs -> contig cs ->
    get_array_abs cs (Some (t0, t1)) m p keep drop =
    if forallb (pruned t0 t1) cs then Err E_NO_CHUNK
    else select_full cs (Some (t0, t1)) m p keep drop.

(* It is false of the code as it stands (witness: chunks [0,10) [10,20), zero-length row [10,10)
   stored in the second chunk, fully_contained range (0,10)). *)
Theorem C10_selection_commutes_refuted : ~ C10_full_selection_commutes.
Proof. exact selection_commutes_refuted. Qed.
Print Assumptions C10_selection_commutes_refuted.

(* the same rows and request, two on-disk layouts, two answers (and an error instead of a row) *)
Theorem C10_chunking_dependence_witness :
  all_rows w_late = all_rows w_early /\
  get_array_abs w_late (Some (0, 10)) FC (fun _ => true) None None =
    Ok (row_fields, [[1; 3; 0; 0]; [4; 6; 1; 1]]) /\
  get_array_abs w_early (Some (0, 10)) FC (fun _ => true) None None =
    Ok (row_fields, [[1; 3; 0; 0]; [4; 6; 1; 1]; [10; 10; 2; 0]]) /\
  select_full w_late (Some (0, 10)) FC (fun _ => true) None None =
    Ok (row_fields, [[1; 3; 0; 0]; [4; 6; 1; 1]; [10; 10; 2; 0]]) /\
  get_array_abs w_late (Some (10, 10)) FC (fun _ => true) None None = Err E_NO_CHUNK /\
  select_full w_late (Some (10, 10)) FC (fun _ => true) None None = Ok (row_fields, [[10; 10; 2; 0]]).
Proof. exact chunking_dependence_witness. Qed.
Print Assumptions C10_chunking_dependence_witness.

(* What the code does, exactly, for all inputs: the selection of everything but the lost rows. *)
Theorem C10_selection_characterised : forall cs t0 t1 m p keep drop,
  time_mode m -> Forall wf cs -> contig cs ->
  get_array_abs cs (Some (t0, t1)) m p keep drop =
  if forallb (pruned t0 t1) cs then Err E_NO_CHUNK
  else apply_selection_rows (Some (t0, t1)) m p keep drop (visible_rows m t0 t1 cs).
Proof. exact selection_characterised. Qed.
Print Assumptions C10_selection_characterised.

(* The commutation under the hypothesis that excludes exactly the failing class ... *)
Theorem C10_selection_commutes_partial : forall cs t0 t1 m p keep drop,
  time_mode m -> Forall wf cs -> contig cs -> no_lost_row m t0 t1 p cs ->
  get_array_abs cs (Some (t0, t1)) m p keep drop =
  if forallb (pruned t0 t1) cs then Err E_NO_CHUNK
  else select_full cs (Some (t0, t1)) m p keep drop.
Proof. exact selection_commutes_partial. Qed.
Print Assumptions C10_selection_commutes_partial.

(* ... and that hypothesis is exact: for a valid request overlapping a chunk the two sides are
   equal if and only if no selected row is lost. *)
Theorem C10_selection_commutes_iff : forall cs t0 t1 m p keep drop fs,
  time_mode m -> Forall wf cs -> contig cs ->
  forallb (pruned t0 t1) cs = false -> sel_head keep drop = Ok fs ->
  (get_array_abs cs (Some (t0, t1)) m p keep drop = select_full cs (Some (t0, t1)) m p keep drop
   <-> no_lost_row m t0 t1 p cs).
Proof. exact selection_commutes_iff. Qed.
Print Assumptions C10_selection_commutes_iff.

(* touching mode: unconditional *)
Theorem C10_selection_commutes_touching : forall cs t0 t1 p keep drop,
  Forall wf cs -> contig cs ->
  get_array_abs cs (Some (t0, t1)) Touching p keep drop =
  if forallb (pruned t0 t1) cs then Err E_NO_CHUNK
  else select_full cs (Some (t0, t1)) Touching p keep drop.
Proof. exact selection_commutes_touching. Qed.
Print Assumptions C10_selection_commutes_touching.

(* fully_contained mode: a layout-independent sufficient condition *)
Theorem C10_selection_commutes_no_edge_rows : forall cs t0 t1 p keep drop,
  Forall wf cs -> contig cs ->
  (forall r, In r (all_rows cs) -> rt r = re r -> rt r <> t0 /\ rt r <> t1) ->
  get_array_abs cs (Some (t0, t1)) FC p keep drop =
  if forallb (pruned t0 t1) cs then Err E_NO_CHUNK
  else select_full cs (Some (t0, t1)) FC p keep drop.
Proof. exact selection_commutes_no_edge_rows. Qed.
Print Assumptions C10_selection_commutes_no_edge_rows.

(* a range overlapping no chunk is an explicit error; a range overlapping a chunk but selecting no
   row is an empty result (never an error, never rows) *)
Theorem C10_empty_vs_error : forall cs t0 t1 m p keep drop,
  Forall wf cs ->
  (forallb (pruned t0 t1) cs = true -> get_array_abs cs (Some (t0, t1)) m p keep drop = Err E_NO_CHUNK) /\
  (forall fs, time_mode m -> contig cs -> forallb (pruned t0 t1) cs = false ->
     select_full cs (Some (t0, t1)) m p keep drop = Ok (fs, []) ->
     get_array_abs cs (Some (t0, t1)) m p keep drop = Ok (fs, [])).
Proof.
  exact (fun cs t0 t1 m p keep drop HF =>
           conj (fun Hall => no_chunk_is_error cs t0 t1 m p keep drop Hall HF)
                (fun fs Hm HC Hov Hsel => empty_not_error cs t0 t1 m p keep drop fs Hm HF HC Hov Hsel)).
Qed.
Print Assumptions C10_empty_vs_error.

(* time_range, seconds_range (run start from run metadata or the first chunk, floored to seconds)
   and time_within all reduce to the absolute range and obey the same law *)
Theorem C10_range_forms : forall md cs rq p t0 t1,
  to_absolute md cs (rq_time_range rq) (rq_seconds_range rq) (rq_time_within rq) = Ok (Some (t0, t1)) ->
  time_mode (rq_mode rq) -> Forall wf cs -> contig cs ->
  get_array1 md cs rq p =
  if forallb (pruned t0 t1) cs then Err E_NO_CHUNK
  else apply_selection_rows (Some (t0, t1)) (rq_mode rq) p (rq_keep rq) (rq_drop rq)
                            (visible_rows (rq_mode rq) t0 t1 cs).
Proof. exact get_array1_characterised. Qed.
Print Assumptions C10_range_forms.

(* get_components: a request with a time range, a selection or a column set creates no saver *)
Theorem C10_partial_request_never_saves : forall cf pf ts l,
  is_partial pf = true -> savers_of cf pf ts = Ok l -> l = [].
Proof. exact partial_request_never_saves. Qed.
Print Assumptions C10_partial_request_never_saves.

(* Several same-kind targets requested together: the full statement (no zero-length rows or chunks,
   equal spans) and its refutation by two differently chunked targets whose range's right edge is
   straddled by a row (Plugin.iter: "ended prematurely"). *)
Definition C10_full_multi_target_commutes : Prop :=
  forall csa csb t0 t1 m p keep drop,
    time_mode m -> Forall wf csa -> contig csa -> Forall wf csb -> contig csb ->
    same_kind (all_rows csa) (all_rows csb) -> positive_rows (all_rows csa) -> same_span csa csb ->
    Forall (fun c => cstart c < cend c) (csa ++ csb) ->
    get_array2_abs csa csb (Some (t0, t1)) m p keep drop =
    if forallb (pruned t0 t1) csa then Err E_EMPTY_INPUT
    else select_full2 csa csb (Some (t0, t1)) m p keep drop.

Theorem C10_multi_target_commutes_refuted : ~ C10_full_multi_target_commutes.
Proof. exact multi_target_commutes_refuted. Qed.
Print Assumptions C10_multi_target_commutes_refuted.

Theorem C10_multi_target_witness :
  get_array2_abs w2_a w2_b (Some (5, 14)) Touching (fun _ => true) None None = Err E_PREMATURE /\
  select_full2 w2_a w2_b (Some (5, 14)) Touching (fun _ => true) None None =
    Ok (pair_fields, [[4; 6; 1; 1; 101; 11]; [13; 15; 2; 0; 102; 10]]) /\
  get_array2_abs w2_a w2_b (Some (5, 16)) Touching (fun _ => true) None None =
    Ok (pair_fields, [[4; 6; 1; 1; 101; 11]; [13; 15; 2; 0; 102; 10]]).
Proof. exact multi_target_witness. Qed.
Print Assumptions C10_multi_target_witness.

(* The part of the multi-target statement that does hold: two same-kind targets stored with
   identical chunk boundaries (both streams are relabelings, by time-preserving maps fa / fb, of one
   stream cz of positive-length chunks), a proper range t0 < t1, no selected row lost: the merged
   request returns the selection of the merged full result. Plugin.iter then merges chunk by chunk
   (lemma iter_merge_aligned) and the straddled right edge is harmless. *)
Theorem C10_multi_target_commutes_partial : forall (fa fb : row -> row) (dta dtb : Z),
  (forall r, rt (fa r) = rt r) -> (forall r, re (fa r) = re r) ->
  (forall r, rt (fb r) = rt r) -> (forall r, re (fb r) = re r) ->
  forall cz t0 t1 m p keep drop,
    time_mode m -> t0 < t1 -> Forall wf cz -> contig cz -> Forall (fun c => cstart c < cend c) cz ->
    no_lost_row m t0 t1 (fun r => p (pairof fa fb r)) cz ->
    get_array2_abs (map (relabel fa dta) cz) (map (relabel fb dtb) cz) (Some (t0, t1)) m p keep drop =
    if forallb (pruned t0 t1) cz then Err E_EMPTY_INPUT
    else select_full2 (map (relabel fa dta) cz) (map (relabel fb dtb) cz) (Some (t0, t1)) m p keep drop.
Proof. exact multi_target_commutes_partial. Qed.
Print Assumptions C10_multi_target_commutes_partial.

(* Never shifted or invented data: whatever a ranged request returns is a sub-sequence (same order,
   same values, same columns) of the selection of the full result -- also when rows are lost. *)
Theorem C10_selection_never_invents : forall cs t0 t1 m p keep drop fs out,
  time_mode m -> Forall wf cs -> contig cs ->
  get_array_abs cs (Some (t0, t1)) m p keep drop = Ok (fs, out) ->
  exists out', select_full cs (Some (t0, t1)) m p keep drop = Ok (fs, out') /\ sublist out out'.
Proof. exact selection_never_invents. Qed.
Print Assumptions C10_selection_never_invents.
