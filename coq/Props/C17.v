(* C17 — Interval primitives agree with their set-theoretic definitions.
   Only property theorems, each closed by `exact <lemma>` and followed by Print Assumptions.
   Models: Model/Intervals.v (two-pointer loops of strax/processing/general.py);
   quadratic definitions: Spec/IntervalDefs.v.  The preconditions fc_pre / tw_pre are exactly
   the boolean checks the strax wrappers perform (plus the documented non-overlap of containers,
   which the wrapper only warns about). *)
From SV Require Import Model.Rows Model.Intervals Spec.IntervalDefs Proof.RowsFacts
  Proof.IntervalsChecks Proof.IntervalsSort Proof.IntervalsOverlap Proof.IntervalsContain
  Proof.IntervalsTouch Proof.IntervalsBreaks Proof.IntervalsNeighbour Proof.IntervalsSortTime
  Proof.IntervalsSplit.
From Coq Require Import Permutation.

(* ---------------- fully_contained_in ---------------- *)

(* exact characterisation: first container with c.time <= t.time < c.endtime and
   t.endtime <= c.endtime, for all sorted things and sorted non-overlapping containers *)
Theorem C17_fc_in_exact : forall things cs,
  fc_pre things cs ->
  fully_contained_in things cs = Ok (false, map (fc_spec_strict cs) things).
Proof. exact fully_contained_in_exact. Qed.
Print Assumptions C17_fc_in_exact.

(* the literal documented formula c.time <= t.time and t.endtime <= c.endtime *)
Definition C17_full_fc_in_eq_spec : Prop := forall things cs,
  fc_pre things cs ->
  fully_contained_in things cs = Ok (false, map (fc_spec_lit cs) things).

(* ... is false of the faithful model (triage item T1): [5,5) in [3,5) *)
Theorem C17_fc_in_literal_refuted :
  exists things cs, fc_pre things cs /\
    fully_contained_in things cs <> Ok (false, map (fc_spec_lit cs) things).
Proof. exact fully_contained_in_literal_refuted. Qed.
Print Assumptions C17_fc_in_literal_refuted.

(* ... and holds exactly when no zero-length thing sits on a container's exclusive end *)
Theorem C17_fc_in_eq_spec_partial : forall things cs,
  fc_pre things cs -> no_zero_on_end things cs ->
  fully_contained_in things cs = Ok (false, map (fc_spec_lit cs) things).
Proof. exact fully_contained_in_literal. Qed.
Print Assumptions C17_fc_in_eq_spec_partial.

Theorem C17_fc_in_eq_spec_positive_things : forall things cs,
  fc_pre things cs -> Forall (fun a => rt a < re a) things ->
  fully_contained_in things cs = Ok (false, map (fc_spec_lit cs) things).
Proof. exact fully_contained_in_literal_positive. Qed.
Print Assumptions C17_fc_in_eq_spec_positive_things.

(* unsorted inputs / negative lengths are rejected, overlapping containers are warned about *)
Theorem C17_fc_in_unsorted_rejected : forall things cs,
  fc_pre things cs \/
  (exists c, fully_contained_in things cs = Err c /\
     (c = 1 /\ ~ sorted things \/ c = 2 /\ ~ sorted cs \/ c = 3 /\ ~ nonnegP things \/ c = 4 /\ ~ nonnegP cs)) \/
  (exists r, fully_contained_in things cs = Ok (true, r) /\ check_not_overlapping cs = false).
Proof. exact fully_contained_in_rejects. Qed.
Print Assumptions C17_fc_in_unsorted_rejected.

(* ---------------- touching_windows ---------------- *)

(* for every integer window: the index range returned for container i is exactly the set of
   things touching it (containers may overlap; things sorted by start and by end) *)
Theorem C17_touching_windows_spec : forall things cs w,
  tw_pre things cs ->
  exists r, touching_windows things cs w = Ok (false, r) /\ length r = length cs /\
            ranges r = tw_spec things cs w.
Proof. exact touching_windows_spec. Qed.
Print Assumptions C17_touching_windows_spec.

Theorem C17_touching_windows_iff : forall things cs w,
  tw_pre things cs ->
  exists r, touching_windows things cs w = Ok (false, r) /\ length r = length cs /\
    forall i k c q, nth_error cs i = Some c -> nth_error things k = Some q ->
      ((fst (nth i r (0, 0)) <= k < snd (nth i r (0, 0)))%nat <-> touchesb w c q = true).
Proof. exact touching_windows_iff. Qed.
Print Assumptions C17_touching_windows_iff.

(* without sorted ends: first thing ending after t0 - w / first thing starting at or after t1 + w *)
Theorem C17_touching_windows_closed : forall things cs w,
  sorted cs ->
  touching_windows_core things cs w 0 =
  Ok (map (fun c => (Lidx w things c, Ridx w things (re c))) cs).
Proof. exact touching_windows_core_closed. Qed.
Print Assumptions C17_touching_windows_closed.

Theorem C17_touching_windows_unsorted_rejected : forall things cs w,
  (exists c, touching_windows things cs w = Err c /\
     (c = 1 /\ ~ sorted things \/ c = 2 /\ ~ sorted cs \/ c = 3 /\ ~ nonnegP things \/ c = 4 /\ ~ nonnegP cs)) \/
  (exists warn r, touching_windows things cs w = Ok (warn, r) /\
     sorted things /\ sorted cs /\ nonnegP things /\ nonnegP cs /\ (warn = false <-> ends_sorted things)).
Proof. exact touching_windows_rejects. Qed.
Print Assumptions C17_touching_windows_unsorted_rejected.

(* ---------------- overlap_indices ---------------- *)

Theorem C17_overlap_indices_spec : forall a1 na b1 nb,
  0 <= na -> 0 <= nb -> overlap_indices a1 na b1 nb = Ok (oi_spec a1 na b1 nb).
Proof. exact overlap_indices_eq_spec. Qed.
Print Assumptions C17_overlap_indices_spec.

Theorem C17_overlap_indices_sem : forall a1 na b1 nb,
  0 <= na -> 0 <= nb ->
  exists sa ea sb eb,
    overlap_indices a1 na b1 nb = Ok ((sa, ea), (sb, eb)) /\
    ea - sa = eb - sb /\ 0 <= ea - sa /\
    (forall x, in_range a1 na x /\ in_range b1 nb x <-> a1 + sa <= x < a1 + ea) /\
    (forall x, in_range a1 na x /\ in_range b1 nb x <-> b1 + sb <= x < b1 + eb) /\
    (((sa, ea), (sb, eb)) = ((0, 0), (0, 0)) <-> forall x, ~ (in_range a1 na x /\ in_range b1 nb x)).
Proof. exact overlap_indices_sem. Qed.
Print Assumptions C17_overlap_indices_sem.

Theorem C17_overlap_indices_rejects_negative : forall a1 na b1 nb,
  na < 0 \/ nb < 0 -> overlap_indices a1 na b1 nb = Err 6.
Proof. exact overlap_indices_negative. Qed.
Print Assumptions C17_overlap_indices_rejects_negative.

(* ---------------- diff / _find_break_i / from_break ---------------- *)

Theorem C17_diff_spec : forall rs, diff rs = diff_spec rs.
Proof. exact diff_eq_spec. Qed.
Print Assumptions C17_diff_spec.

Theorem C17_find_break_spec : forall rs sb nb,
  (2 <= length rs)%nat ->
  find_break_i rs sb nb = match find_break_spec rs sb nb with Some i => Ok i | None => Err 1 end.
Proof. exact find_break_i_eq_spec. Qed.
Print Assumptions C17_find_break_spec.

Theorem C17_find_break_sem : forall rs sb nb,
  (2 <= length rs)%nat ->
  match find_break_i rs sb nb with
  | Ok i => (1 <= i < length rs)%nat /\ is_break rs sb nb i = true /\
            forall j, (1 <= j < i)%nat -> is_break rs sb nb j = false
  | Err c => c = 1 /\ forall j, (1 <= j < length rs)%nat -> is_break rs sb nb j = false
  end.
Proof. exact find_break_i_sem. Qed.
Print Assumptions C17_find_break_sem.

Theorem C17_from_break_spec : forall rs sb nb left,
  (2 <= length rs)%nat ->
  from_break rs sb nb left false =
  match find_break_spec rs sb nb with
  | Some i => Ok ((if left then firstn i rs else skipn i rs), rt (nth i rs row0))
  | None => Err 1
  end.
Proof. exact from_break_eq_spec. Qed.
Print Assumptions C17_from_break_spec.

(* ---------------- split_by_containment ---------------- *)

(* one group per container, holding exactly the things assigned to it (same assignment as
   fully_contained_in), in order; empty groups for containers without things *)
Theorem C17_split_by_containment_eq_groups : forall things cs,
  fc_pre things cs ->
  split_by_containment things cs = Ok (false, groups_spec fc_spec_strict things cs).
Proof. exact split_by_containment_groups. Qed.
Print Assumptions C17_split_by_containment_eq_groups.

Theorem C17_split_by_containment_eq_groups_literal_partial : forall things cs,
  fc_pre things cs -> no_zero_on_end things cs ->
  split_by_containment things cs = Ok (false, groups_spec fc_spec_lit things cs).
Proof. exact split_by_containment_groups_literal. Qed.
Print Assumptions C17_split_by_containment_eq_groups_literal_partial.

(* ---------------- abs_time_to_prev_next_interval ---------------- *)

(* sorted things of non-negative length (they may even overlap), sorted non-overlapping intervals
   of non-negative length: minimum distance to the previous / next interval, -1 if none *)
Theorem C17_time_to_prev_next_spec : forall things ivs,
  atp_pre things ivs ->
  abs_time_to_prev_next_interval things ivs =
  Ok (negb (check_time_sorted (map re things)), atp_spec things ivs).
Proof. exact abs_time_to_prev_next_spec. Qed.
Print Assumptions C17_time_to_prev_next_spec.

Theorem C17_time_to_prev_natural_definition : forall ivs th,
  Forall (fun iv => rt iv < re iv) ivs -> prev_spec_nat ivs th = prev_spec ivs th.
Proof. exact prev_spec_nat_eq. Qed.
Print Assumptions C17_time_to_prev_natural_definition.

Theorem C17_time_to_prev_next_unsorted_rejected : forall things ivs,
  (~ sorted things -> abs_time_to_prev_next_interval things ivs = Err 1) /\
  (sorted things -> ~ sorted ivs -> abs_time_to_prev_next_interval things ivs = Err 2).
Proof. exact abs_time_to_prev_next_unsorted_rejected. Qed.
Print Assumptions C17_time_to_prev_next_unsorted_rejected.

(* ---------------- sort_by_time, stable_sort / stable_argsort ---------------- *)

(* output is a rearrangement sorted by (time, channel); on the single-key path it is the stable
   one (rows with equal (time, channel) keep their input order) *)
Theorem C17_sort_by_time_spec : forall rs,
  let out := sort_by_time rs in
  Permutation rs out /\ tc_sorted out /\
  (sbt_range_too_large rs = false -> forall x, filter (tc_eqb x) out = filter (tc_eqb x) rs).
Proof. exact sort_by_time_spec. Qed.
Print Assumptions C17_sort_by_time_spec.

Theorem C17_sort_by_time_is_stable_sort : forall rs,
  sbt_range_too_large rs = false -> is_stable_sort_of rs (sort_by_time rs) = true.
Proof. exact sort_by_time_is_stable_sort. Qed.
Print Assumptions C17_sort_by_time_is_stable_sort.

(* the key's no-overflow side condition, explicit: under it every key fits in int64 *)
Theorem C17_sort_key_fits_int64 : forall rs r,
  In r rs -> (sbt_tmax rs - sbt_tmin rs + 1) * sbt_cm1 rs <= INT64_MAX + 1 ->
  0 <= sbt_key rs r <= INT64_MAX.
Proof. exact sbt_key_fits. Qed.
Print Assumptions C17_sort_key_fits_int64.

Theorem C17_stable_sort_kind_guard : forall keys kind,
  (kind <> 0 -> stable_sort keys kind = Err 5 /\ stable_argsort keys kind = Err 5) /\
  (kind = 0 -> exists l il, stable_sort keys kind = Ok l /\ stable_argsort keys kind = Ok il /\
      Permutation keys l /\ key_sorted (fun x => x) l /\
      (forall k, filter (fun y => y =? k) l = filter (fun y => y =? k) keys) /\
      l = map (fun i => nth i keys 0) il).
Proof. exact stable_sort_kind_guard. Qed.
Print Assumptions C17_stable_sort_kind_guard.
