(* C17 — Interval primitives agree with their set-theoretic definitions.
   Only property theorems, each closed by `exact <lemma>` and followed by Print Assumptions. *)
From SV Require Import Model.Rows Model.Intervals Spec.IntervalDefs Proof.IntervalsOverlap.

(* overlap_indices: equals the enumerated intersection of the two integer ranges; negative
   lengths are rejected *)
Theorem C17_overlap_indices_spec : forall a1 na b1 nb,
  0 <= na -> 0 <= nb -> overlap_indices a1 na b1 nb = Ok (oi_spec a1 na b1 nb).
Proof. exact overlap_indices_eq_spec. Qed.
Print Assumptions C17_overlap_indices_spec.

Theorem C17_overlap_indices_sem : forall a1 na b1 nb,
  0 <= na -> 0 <= nb ->
  exists sa ea sb eb,
    overlap_indices a1 na b1 nb = Ok ((sa, ea), (sb, eb)) /\
    ea - sa = eb - sb /\ 0 <= ea - sa /\
    (forall x, in_range a1 na x /\ in_range b1 nb x <-> a1 + sa <= x < a1 + ea) /\
    (forall x, in_range a1 na x /\ in_range b1 nb x <-> b1 + sb <= x < b1 + eb) /\
    (((sa, ea), (sb, eb)) = ((0, 0), (0, 0)) <-> forall x, ~ (in_range a1 na x /\ in_range b1 nb x)).
Proof. exact overlap_indices_sem. Qed.
Print Assumptions C17_overlap_indices_sem.

Theorem C17_overlap_indices_rejects_negative : forall a1 na b1 nb,
  na < 0 \/ nb < 0 -> overlap_indices a1 na b1 nb = Err 6.
Proof. exact overlap_indices_negative. Qed.
Print Assumptions C17_overlap_indices_rejects_negative.
