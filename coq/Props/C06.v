(* C06 — Failures reach the caller and never hang the pipeline.  (under construction) *)
From SV Require Import Model.PostOffice.

Example C06_po_example :
  snd (run_po [Src [1; 2; 3]; Src [10; 20]; Stage [0%nat; 1%nat]] None 2 [false; false; true] 10 5)
  = Ok [comb_std 2 [1; 10]; comb_std 2 [2; 20]].
Proof. vm_compute. reflexivity. Qed.

Theorem C06_po_fault_example :
  snd (run_po [Src [1; 2; 3]; Src [10; 20]; Stage [0%nat; 1%nat]] (Some (1%nat, 1%nat)) 2 [false; false; true] 10 5)
  = Err 1.
Proof. vm_compute. reflexivity. Qed.
Print Assumptions C06_po_fault_example.
