(* C06 — Failures reach the caller and never hang the pipeline.
   Single-thread processor part: theorems over the message-level PostOffice model, for ALL well-formed
   plugin DAGs (shared dependencies included), all stage computations, all failure positions.
   The threaded-mailbox part is stated over the mailbox network model (see below / design notes). *)
From SV Require Import Model.PostOffice Spec.PostOfficeSpec Proof.PostOfficeProof.

(* without a failure: the caller receives exactly the whole-run result, the target ends exhausted, every
   saver saw exactly what its topic produced and was closed exactly once iff the topic was exhausted *)
Theorem C06_single_thread_no_failure_complete :
  forall g comb target spies steps fuel,
    po_hyps g comb target spies steps fuel ->
    let res0 := po_run g comb None target spies steps fuel in
    snd res0 = Ok (whole_of g comb target) /\
    exhausted (get (fst res0) target) = true /\
    (forall t, (t < length g)%nat -> spy_ok g comb spies (fst res0) t) /\
    (no_consumers g target -> saved (get (fst res0) target) = []).
Proof. exact po_no_fault_complete. Qed.
Print Assumptions C06_single_thread_no_failure_complete.

(* whatever fails, wherever: the caller gets the exception or the complete result — never a truncated
   or otherwise different result (the model has no blocking: termination is part of the statement since
   po_run is a total function whose OutOfFuel / step-bound outcomes (Err 99) are excluded) *)
Theorem C06_single_thread_never_silently_truncated :
  forall g comb target spies steps fuel,
    po_hyps g comb target spies steps fuel ->
    forall fault,
    let res0 := po_run g comb fault target spies steps fuel in
    snd res0 = Err 1 \/ snd res0 = Ok (whole_of g comb target).
Proof. exact po_never_silently_truncated. Qed.
Print Assumptions C06_single_thread_never_silently_truncated.

(* the exception reaches the caller exactly when the injected failure happened ... *)
Theorem C06_single_thread_exception_iff_fired :
  forall g comb target spies steps fuel,
    po_hyps g comb target spies steps fuel ->
    forall fault,
    let res0 := po_run g comb fault target spies steps fuel in
    snd res0 = Err 1 <-> fired fault (fst res0).
Proof. exact po_exception_iff_fired. Qed.
Print Assumptions C06_single_thread_exception_iff_fired.

(* ... which is exactly when the failure-free run gets that producer to that position *)
Theorem C06_single_thread_failure_reaches_caller :
  forall g comb ft fp target spies steps fuel,
    po_hyps g comb target spies steps fuel ->
    snd (po_run g comb (Some (ft, fp)) target spies steps fuel) = Err 1 <->
    requested g (fst (po_run g comb None target spies steps fuel)) ft fp.
Proof. exact po_fault_fires_iff. Qed.
Print Assumptions C06_single_thread_failure_reaches_caller.

(* when the exception arrives every saver has been closed (kill_spies), exactly once, and no topic was
   declared exhausted: nothing is marked complete *)
Theorem C06_single_thread_savers_closed_on_error :
  forall g comb target spies steps fuel,
    po_hyps g comb target spies steps fuel ->
    forall fault,
    let res0 := po_run g comb fault target spies steps fuel in
    snd res0 = Err 1 ->
    forall t, (t < length g)%nat ->
      exhausted (get (fst res0) t) = false /\
      (nth t spies false = true ->
        has_spy (get (fst res0) t) = true /\ spy_closed (get (fst res0) t) = 1%nat /\
        spy_log (get (fst res0) t) = firstn (ppos (get (fst res0) t)) (whole_of g comb t)).
Proof. exact po_spies_closed_on_error. Qed.
Print Assumptions C06_single_thread_savers_closed_on_error.

(* ======================================================================================================
   Threaded-mailbox processor: theorems over the network LTS Model/MailboxFail.v
   (one step = one lock region of strax/mailbox.py + the lock-free code up to the next yield point;
   a schedule is any list of thread ids; "for all schedules" = "for all sched : list nat").
   Vocabulary: Spec/MailboxFailSpec.v; the two families of networks: Model/C06Nets.v (compared with the wiring
   of the real ThreadedMailboxProcessor on every run of the check).
   ====================================================================================================== *)
From SV Require Import Base.Prelude Model.Mailbox Model.MailboxFail Model.C06Run Model.C06Nets
  Spec.MailboxFailSpec Proof.MailboxFailExamples.
Local Open Scope nat_scope.

(* ---------- the three defects found in the exception plumbing (fx = false: the code before the repairs
   F1-F3, design_notes/C06.md).  Each witness schedule is replayed on the real processor by the check. ---------- *)

(* F1: closing ThreadedMailboxProcessor.iter() directly: TypeError at the caller, the pipeline threads stay blocked *)
Theorem C06_pinned_F1_direct_close_hangs :
  exists sched st,
    nrun (chain_net f1_spec false None (Some (0, true, cexc))) (chain_init f1_spec false None (Some (0, true, cexc))) sched = Some st /\
    deadlocked (chain_net f1_spec false None (Some (0, true, cexc))) st /\
    main_outcome st (chain_main f1_spec) = Some (OErr (EOrig C_TYPEERR)).
Proof. exists f1_sched. exact f1_direct_close_hangs. Qed.
Print Assumptions C06_pinned_F1_direct_close_hangs.

(* F2: a saver of a side output fails: the caller gets StopIteration (RuntimeError) instead of the exception *)
Theorem C06_pinned_F2_wrong_exception :
  exists sched st,
    nrun (fan_net f2_spec false (Some (3, 0, boom)) None) (fan_init f2_spec false (Some (3, 0, boom)) None) sched = Some st /\
    quiescent (fan_net f2_spec false (Some (3, 0, boom)) None) st /\ all_terminal st = true /\
    main_outcome st (fan_main f2_spec) = Some (OErr (EOrig C_STOPITER)).
Proof. exists f2_sched. exact f2_wrong_exception. Qed.
Print Assumptions C06_pinned_F2_wrong_exception.

(* F3: a saver of a side output listed first in `provides` fails at the last chunk: the pipeline hangs *)
Theorem C06_pinned_F3_hang :
  exists sched st,
    nrun (fan_net f3_spec false (Some (3, 0, boom)) None) (fan_init f3_spec false (Some (3, 0, boom)) None) sched = Some st /\
    deadlocked (fan_net f3_spec false (Some (3, 0, boom)) None) st /\
    main_outcome st (fan_main f3_spec) = None.
Proof. exists f3_sched. exact f3_hang. Qed.
Print Assumptions C06_pinned_F3_hang.

(* ---------- kill wakes everyone: for EVERY network (any plugin graph, any wiring, lazy or eager, any
   capacities, any failure injection, repaired or not) and every schedule ---------- *)
From SV Require Import Proof.MailboxFailWake.

(* in every reachable state: (1) a thread blocked on a condition of a killed mailbox has been woken (no lost
   wake-up across kill: kill notifies all three conditions); (2) kill() kills and force-kills; (3) a killed
   mailbox stays killed; (4)-(6) every later read / send / fetch-gate region on it returns or raises without
   waiting *)
Theorem C06_kill_wakes_everyone :
  forall (nt : net) (boxes : list mbox) (threads : list thread) (sched : list nat) (st : nstate),
    (forall t, In t threads -> plain_pc (t_pc t)) -> (forall m, In m boxes -> mb_box m = []) ->
    nrun nt (ninit nt boxes threads) sched = Some st ->
    (forall i t j, nth_error (ths st) i = Some t -> waits_on t j -> mb_killed (get_mb st j) = true -> t_woken t = true) /\
    (forall j c, j < length (mbs st) ->
       mb_killed (get_mb (kill_mb st j c) j) = true /\ mb_fkilled (get_mb (kill_mb st j c) j) = true) /\
    (forall sched' st' j, nrun nt st sched' = Some st' -> mb_killed (get_mb st j) = true -> mb_killed (get_mb st' j) = true) /\
    (forall tid t resume, tid < length (ths st) -> mb_killed (get_mb st (r_mb (cur_r t))) = true ->
       not_waiting (t_pc (get_th (read_region nt tid resume st t) tid))) /\
    (forall tid t resume oi mg closing, tid < length (ths st) -> mb_killed (get_mb st (out_mb t oi)) = true ->
       not_waiting (t_pc (get_th (send_region nt tid resume st t oi mg closing) tid))) /\
    (forall tid t resume oi, tid < length (ths st) -> mb_killed (get_mb st (out_mb t oi)) = true ->
       not_waiting (t_pc (get_th (gate_region nt tid resume st t oi) tid))).
Proof. exact kill_wakes_everyone. Qed.
Print Assumptions C06_kill_wakes_everyone.

(* the general no-lost-wake-up invariant behind it: in every reachable state of every network, a thread waiting
   with its woken flag clear has a false wait predicate (its message is absent and the mailbox not killed / the
   box is full and not killed / _can_fetch is false) *)
Theorem C06_network_no_lost_wakeup :
  forall (nt : net) (boxes : list mbox) (threads : list thread) (sched : list nat) (st : nstate),
    (forall t, In t threads -> plain_pc (t_pc t)) -> (forall m, In m boxes -> mb_box m = []) ->
    nrun nt (ninit nt boxes threads) sched = Some st -> Wn st.
Proof. intros nt boxes threads sched st Ht Hm. apply Wn_reachable; auto. Qed.
Print Assumptions C06_network_no_lost_wakeup.

(* ---------- the shutdown half, for EVERY network (any plugin DAG) and every schedule ---------- *)
From SV Require Import Proof.MailboxFailShutdown.

(* Once the caller's iterator has seen exception c (ThreadedMailboxProcessor.iter is killing the mailboxes, joining
   the threads, or done: `noticed`), EVERY continuation that cannot be extended ends with all threads finished and the
   caller holding exactly c — nothing can hang in kill-all / cleanup(), whatever the plugin graph, the capacities,
   lazy or eager, wherever the other threads are.  The premises are decidable (cover_b: iter kills every mailbox and
   joins every thread, one caller, wiring in range, repair F1; init_ok_b: the run starts with empty mailboxes and
   buffers) and are evaluated by the harness on the network derived from every real processor it builds. *)
Theorem C06_noticed_failure_shuts_down :
  forall (nt : net) (main : nat) (boxes : list mbox) (threads : list thread),
    cover_b nt (mkSt boxes threads) main = true -> init_ok_b boxes threads = true ->
    forall sched st c, nrun nt (ninit nt boxes threads) sched = Some st -> noticed main st c ->
    forall sched' st', nrun nt st sched' = Some st' -> quiescent nt st' ->
      all_terminal st' = true /\ main_outcome st' main = Some (OErr (EOrig c)).
Proof. exact shutdown_theorem_b. Qed.
Print Assumptions C06_noticed_failure_shuts_down.

(* ---------- the exception at the caller is an ORIGINAL one, for EVERY network and every schedule ---------- *)
From SV Require Import Proof.MailboxFailOrig.

(* Whatever the plugin graph and the schedule: if the caller's iteration ends with an exception, it is never a
   MailboxKilled wrapper (iter unwraps it) and its identity is primary: the exception injected in a thread, the
   consumer's exception, OutsideException / GeneratorExit of a close, or an error of the plumbing itself
   (MailBoxAlreadyClosed, unequal inputs of a plugin) — with repair F2 never the StopIteration that used to
   escape source.throw in divide_outputs, with repair F1 never the TypeError of the GeneratorExit branch. *)
Theorem C06_caller_gets_original_exception :
  forall (nt : net) (boxes : list mbox) (threads : list thread) (main : nat) (sched : list nat) (st : nstate) (e : exn),
    (forall t, In t threads -> t_pc t = PRead /\ t_got t = None) ->
    (forall m, In m boxes -> mb_killed m = false /\ mb_fkilled m = false) ->
    nrun nt (ninit nt boxes threads) sched = Some st ->
    main_outcome st main = Some (OErr e) ->
    exists c, e = EOrig c /\ prim nt c.
Proof. exact caller_gets_original. Qed.
Print Assumptions C06_caller_gets_original_exception.

(* ---------- all schedules of concrete chains and fan-outs, every failure position (verified exhaustive
   exploration of the reachable state set, Proof/MailboxFailReach.v + Proof/MailboxFailInstances.v) ---------- *)
From SV Require Import Proof.MailboxFailReach Proof.MailboxFailInstances Proof.MailboxFailInstChain
  Proof.MailboxFailInstFan Proof.MailboxFailInstF2.

(* chainA: 2 stages, saver on the target, 1 chunk, max_messages 1, eager (threads 0,1 stages; 2 saver);
   chainS: 2 stages, savers on the intermediate output (2) and on the target (3), 1 chunk, eager: failing savers;
   chainB: 2 stages, 2 chunks, lazy, through get_iter, max_messages 2/1, saver on the target (threads 0,1; 2 saver);
   chainC: 3 stages, 1 chunk, eager and lazy.  EVERY thread x EVERY position (chunk or "at the end"), EVERY schedule:
   all threads finish, the caller holds the injected exception, every saver is closed and marked. *)
Theorem C06_failure_reaches_caller_chain_partial :
  (forall ft fp, ft < 3 -> fp <= 1 ->
     failure_reaches_caller (chain_net chainA true (Some (ft, fp, MailboxFailInstances.boom)) None)
       (chain_init chainA true (Some (ft, fp, MailboxFailInstances.boom)) None) (chain_main chainA) 1 MailboxFailInstances.boom) /\
  (forall ft fp, (ft = 2 \/ ft = 3) -> fp <= 1 ->
     failure_reaches_caller (chain_net chainS true (Some (ft, fp, MailboxFailInstances.boom)) None)
       (chain_init chainS true (Some (ft, fp, MailboxFailInstances.boom)) None) (chain_main chainS) 1 MailboxFailInstances.boom) /\
  (forall ft fp, ft < 3 -> fp <= 2 ->
     failure_reaches_caller (chain_net chainB true (Some (ft, fp, MailboxFailInstances.boom)) None)
       (chain_init chainB true (Some (ft, fp, MailboxFailInstances.boom)) None) (chain_main chainB) 2 MailboxFailInstances.boom) /\
  (forall lz ft fp, ft < 3 -> fp <= 1 ->
     failure_reaches_caller (chain_net (chainC lz) true (Some (ft, fp, MailboxFailInstances.boom)) None)
       (chain_init (chainC lz) true (Some (ft, fp, MailboxFailInstances.boom)) None) (chain_main (chainC lz)) 1 MailboxFailInstances.boom).
Proof.
  split; [|split; [|split]]; intros.
  - apply chainA_failure_reaches_caller; auto.
  - apply chainS_saver_failure_reaches_caller; auto.
  - apply chainB_failure_reaches_caller; auto.
  - apply chainC_failure_reaches_caller; auto.
Qed.
Print Assumptions C06_failure_reaches_caller_chain_partial.

(* one-level fan-out (source 0, multi-output plugin 1, divide_outputs 2, saver of the side output 3), eager and lazy:
   fanD: target first in `provides`; fanE: side output first (the configuration on which the code before repair F3
   hangs); fanF: 2 chunks, max_messages 2, the saver of the side output fails at chunk 0 (the configuration on which
   the code before repair F2 returns StopIteration).  With the repairs: every schedule delivers the exception. *)
Theorem C06_failure_reaches_caller_fanout_partial :
  (forall lz ft fp, (ft = 0 \/ ft = 1 \/ ft = 3) -> fp <= 1 ->
     failure_reaches_caller (fan_net (fanD lz) true (Some (ft, fp, MailboxFailInstances.boom)) None)
       (fan_init (fanD lz) true (Some (ft, fp, MailboxFailInstances.boom)) None) (fan_main (fanD lz)) 1 MailboxFailInstances.boom) /\
  (forall lz ft fp, (ft = 0 \/ ft = 1 \/ ft = 3) -> fp <= 1 ->
     failure_reaches_caller (fan_net (fanE lz) true (Some (ft, fp, MailboxFailInstances.boom)) None)
       (fan_init (fanE lz) true (Some (ft, fp, MailboxFailInstances.boom)) None) (fan_main (fanE lz)) 1 MailboxFailInstances.boom) /\
  failure_reaches_caller (fan_net fanF true (Some (3, 0, MailboxFailInstances.boom)) None)
    (fan_init fanF true (Some (3, 0, MailboxFailInstances.boom)) None) (fan_main fanF) 2 MailboxFailInstances.boom.
Proof.
  split; [|split]; intros.
  - apply fanD_failure_reaches_caller; auto.
  - apply fanE_failure_reaches_caller; auto.
  - apply fanF_saver_failure_reaches_caller.
Qed.
Print Assumptions C06_failure_reaches_caller_fanout_partial.

(* the consumer raises / closes the iterator after chunk k: all threads stop on every schedule; close() of the
   processor's own iterator returns (GeneratorExit re-raised), through get_iter the caller sees OutsideException *)
Theorem C06_consumer_close_stops_all_partial :
  failure_reaches_caller (chain_net chainA true None (Some (0, false, MailboxFailInstances.cexc)))
    (chain_init chainA true None (Some (0, false, MailboxFailInstances.cexc))) (chain_main chainA) 1 MailboxFailInstances.cexc /\
  failure_reaches_caller (chain_net chainA true None (Some (0, true, MailboxFailInstances.cexc)))
    (chain_init chainA true None (Some (0, true, MailboxFailInstances.cexc))) (chain_main chainA) 1 C_GENEXIT /\
  (forall k, k < 2 ->
     failure_reaches_caller (chain_net chainB true None (Some (k, false, MailboxFailInstances.cexc)))
       (chain_init chainB true None (Some (k, false, MailboxFailInstances.cexc))) (chain_main chainB) 2 MailboxFailInstances.cexc) /\
  (forall k, k < 2 ->
     failure_reaches_caller (chain_net chainB true None (Some (k, true, MailboxFailInstances.cexc)))
       (chain_init chainB true None (Some (k, true, MailboxFailInstances.cexc))) (chain_main chainB) 2 C_OUTSIDE).
Proof.
  split; [|split; [|split]]; intros.
  - apply chainA_consumer_exception.
  - apply chainA_consumer_close.
  - apply chainB_consumer_exception; auto.
  - apply chainB_consumer_close; auto.
Qed.
Print Assumptions C06_consumer_close_stops_all_partial.

(* without failures every schedule ends with all chunks at the caller, in order, and in every saver *)
Theorem C06_no_failure_terminates_partial :
  completes (chain_net chainA true None None) (chain_init chainA true None None) (chain_main chainA) 1 /\
  completes (chain_net chainB true None None) (chain_init chainB true None None) (chain_main chainB) 2 /\
  (forall lz, completes (fan_net (fanD lz) true None None) (fan_init (fanD lz) true None None) (fan_main (fanD lz)) 1).
Proof.
  split; [|split]; [apply chainA_completes | apply chainB_completes | intros; apply fanD_completes].
Qed.
Print Assumptions C06_no_failure_terminates_partial.

(* ---------- chains of ANY length, any number of chunks, any capacities >= 1, lazy or eager, directly or through
   get_iter, a failure at ANY position of ANY plugin stage, EVERY schedule (Proof/MailboxFailChain.v) ---------- *)
From SV Require Import Proof.MailboxFailChain.

(* Chains s0 -> s1 -> ... -> s(L-1) -> caller wired exactly as ThreadedMailboxProcessor does (Model/C06Nets.v), no savers:
   stage ft raises c while computing chunk fp (fp < N) or when its input ends (fp = N).  Every maximal run — every
   schedule that cannot be extended — ends with all threads finished and the caller holding exactly c.  Proof: an
   inductive invariant ties every mailbox to its sender and its reader (the box is a segment of the stream chunk 0 ..
   chunk N-1, Stop; nothing at or after the failing stage ever sends Stop; every exception code is c); in a state where
   nothing can run and the caller has not noticed, the no-lost-wake-up invariant lets one walk from the caller's read
   up the chain to a thread that can run (no_deadlock); once the caller has noticed, C06_noticed_failure_shuts_down
   finishes. *)
Theorem C06_failure_reaches_caller_chain :
  forall (sp : chain_spec) (ft fp c : nat),
    valid_chain sp -> ch_nsav sp = repeat 0 (length (ch_caps sp)) ->
    ft < length (ch_caps sp) -> fp <= ch_N sp ->
    failure_reaches_caller (chain_net sp true (Some (ft, fp, c)) None) (chain_init sp true (Some (ft, fp, c)) None)
                           (chain_main sp) (ch_N sp) c.
Proof. intros sp ft fp c Hv Hns Hft Hfp. apply chain_nosav_failure_reaches_caller; auto. Qed.
Print Assumptions C06_failure_reaches_caller_chain.

(* the same chains, the CONSUMER fails: it raises c while handling chunk k — every maximal run ends with all threads
   finished and the caller holding c (the invariant is the same with "no stage fails"; when the consumer's failure
   fires the caller kills its input mailbox and enters kill-all, from where C06_noticed_failure_shuts_down applies) *)
Theorem C06_consumer_exception_chain :
  forall (sp : chain_spec) (k c : nat),
    valid_chain sp -> ch_nsav sp = repeat 0 (length (ch_caps sp)) -> k < ch_N sp ->
    failure_reaches_caller (chain_net sp true None (Some (k, false, c))) (chain_init sp true None (Some (k, false, c)))
                           (chain_main sp) (ch_N sp) c.
Proof. intros sp k c Hv Hns Hk. apply chain_nosav_consumer_exception; auto. Qed.
Print Assumptions C06_consumer_exception_chain.

(* ... or it closes the iterator after chunk k: all threads stop on every schedule; through Context.get_iter the caller
   sees OutsideException, on the processor's own iterator close() returns (GeneratorExit re-raised; needs repair F1) *)
Theorem C06_consumer_close_stops_all :
  forall (sp : chain_spec) (k c : nat),
    valid_chain sp -> ch_nsav sp = repeat 0 (length (ch_caps sp)) -> k < ch_N sp ->
    failure_reaches_caller (chain_net sp true None (Some (k, true, c))) (chain_init sp true None (Some (k, true, c)))
                           (chain_main sp) (ch_N sp) (if ch_relay sp then C_OUTSIDE else C_GENEXIT).
Proof. intros sp k c Hv Hns Hk. apply chain_nosav_consumer_close; auto. Qed.
Print Assumptions C06_consumer_close_stops_all.

(* ... and when NOTHING fails, every maximal run of such a chain ends with all threads finished and the caller holding
   all N chunks in order: no schedule deadlocks, whatever the capacities (>= 1), lazy or eager.  (The caller reads the
   end marker only after every stage has closed its mailbox — closed (j+1) -> closed j — so cleanup() joins finished
   threads only and the final saver check has nothing to report.) *)
Theorem C06_no_failure_terminates_chain :
  forall sp : chain_spec,
    valid_chain sp -> ch_nsav sp = repeat 0 (length (ch_caps sp)) ->
    completes (chain_net sp true None None) (chain_init sp true None None) (chain_main sp) (ch_N sp).
Proof. intros sp Hv Hns. apply chain_nosav_completes; auto. Qed.
Print Assumptions C06_no_failure_terminates_chain.

(* an instance far outside what the explorer can enumerate: 6 stages, 40 chunks, mixed capacities, lazy, through
   get_iter; stage 3 fails at chunk 17 *)
Example C06_chain_instance_6x40 :
  failure_reaches_caller
    (chain_net (mkChain 40 [1; 3; 2; 1; 5; 2] [0; 0; 0; 0; 0; 0] true true) true (Some (3, 17, 11)) None)
    (chain_init (mkChain 40 [1; 3; 2; 1; 5; 2] [0; 0; 0; 0; 0; 0] true true) true (Some (3, 17, 11)) None)
    6 40 11.
Proof.
  apply (C06_failure_reaches_caller_chain (mkChain 40 [1; 3; 2; 1; 5; 2] [0; 0; 0; 0; 0; 0] true true) 3 17 11).
  - split; [cbn; lia | split; [reflexivity|]]. cbn. intros x H. repeat (destruct H as [<-|H]; [lia|]). contradiction.
  - reflexivity.
  - cbn. lia.
  - cbn. lia.
Qed.

(* first steps of the same theorems WITH savers (not finished, see design_notes/C06.md B.2): the mailbox-level
   invariant for several subscribers (the box is the part of the stream the slowest subscriber has not read: MokM, with
   has_msg_multi / take_multi / push_multi / wait_multi / read_multi for the lock regions) and the thread-local code of a
   saver over a segment of the stream (saver_loop: all saved / fails at chunk fp / closes with all N chunks / close fails) *)
From SV Require Import Proof.MailboxFailMulti.

(* ---------- full statements (for the repaired code, fx = true) ---------- *)

(* chains of any length, any capacities >= 1, lazy or eager, any number of savers per mailbox: a failure at any
   position of any thread (plugin / source at chunk fp or at its end fp = N; saver at chunk fp) reaches the
   caller as the original exception on every schedule; nothing hangs; every saver is closed and marked.
   PROVED above for chains without savers (C06_failure_reaches_caller_chain: any length, N, capacities, lazy / eager,
   any plugin stage, any position).  What this Definition adds and is NOT proved in general: savers (several
   subscribers per mailbox, non-driving subscribers in lazy mode, failing savers, the final saver check); for those
   see the ..._partial instance theorems (chainA / chainS / chainB) and the correspondence. *)
Definition C06_full_failure_reaches_caller_chain : Prop :=
  forall (sp : chain_spec) (ft fp c : nat),
    valid_chain sp -> ft < chain_main sp -> fp <= ch_N sp ->
    failure_reaches_caller (chain_net sp true (Some (ft, fp, c)) None) (chain_init sp true (Some (ft, fp, c)) None)
                           (chain_main sp) (ch_N sp) c.

(* one-level fan-out: source -> multi-output plugin -> divide_outputs -> target x and side output y (saved or
   discarded), either order of `provides`; the failing thread is the source (0), the plugin (1) or a saver *)
Definition C06_full_failure_reaches_caller_fanout : Prop :=
  forall (sp : fan_spec) (ft fp c : nat),
    valid_fan sp -> (ft < 2 \/ (3 <= ft < 3 + fn_savx sp + fn_savy sp)) -> fp <= fn_N sp ->
    failure_reaches_caller (fan_net sp true (Some (ft, fp, c)) None) (fan_init sp true (Some (ft, fp, c)) None)
                           (fan_main sp) (fn_N sp) c.

(* the consumer raises c while handling chunk k (PROVED above without savers: C06_consumer_exception_chain;
   with savers it is this Definition, not proved in general) *)
Definition C06_full_consumer_exception_chain : Prop :=
  forall (sp : chain_spec) (k c : nat),
    valid_chain sp -> k < ch_N sp ->
    failure_reaches_caller (chain_net sp true None (Some (k, false, c))) (chain_init sp true None (Some (k, false, c)))
                           (chain_main sp) (ch_N sp) c.

(* the consumer closes the iterator after chunk k: all threads stop; the caller sees OutsideException through
   Context.get_iter, a plain return of close() (GeneratorExit re-raised) on the processor's own iterator
   (PROVED above without savers: C06_consumer_close_stops_all; with savers it is this Definition) *)
Definition C06_full_consumer_close_stops_all : Prop :=
  forall (sp : chain_spec) (k c : nat),
    valid_chain sp -> k < ch_N sp ->
    failure_reaches_caller (chain_net sp true None (Some (k, true, c))) (chain_init sp true None (Some (k, true, c)))
                           (chain_main sp) (ch_N sp) (if ch_relay sp then C_OUTSIDE else C_GENEXIT).

(* without failures every maximal schedule ends with everything delivered and saved; chains and fan-outs have no
   chunk lag (every stage is 1:1), so any capacity >= 1 is enough
   (PROVED above for chains without savers: C06_no_failure_terminates_chain; with savers, and for fan-outs, it is
   this Definition, not proved in general) *)
Definition C06_full_no_failure_terminates : Prop :=
  (forall sp : chain_spec, valid_chain sp ->
     completes (chain_net sp true None None) (chain_init sp true None None) (chain_main sp) (ch_N sp)) /\
  (forall sp : fan_spec, valid_fan sp ->
     completes (fan_net sp true None None) (fan_init sp true None None) (fan_main sp) (fn_N sp)).

(* general plugin DAGs (several dependencies per plugin, diamonds, any number of multi-output plugins): stated over
   the decidable description Model/C06Dag.v (one sender per mailbox, one reader per subscriber slot, acyclic,
   capacities >= 1, iter kills and joins everything, all three repairs); every stage is 1:1 so no chunk lag has to be
   bounded by the capacities.  NOT proved: the shutdown half is C06_noticed_failure_shuts_down, the exception identity
   C06_caller_gets_original_exception; the propagation half (the failure always reaches the caller's read) is covered
   by the correspondence (diamonds under the controlled scheduler) only.  The harness evaluates dag_ok_b (extracted)
   on the network derived from every real processor built from hand-made components. *)
From SV Require Import Model.C06Dag.
Definition C06_full_threaded_dag : Prop :=
  forall (nt : net) (boxes : list mbox) (threads : list thread) (main N ft fp c : nat),
    dag_ok_b nt (mkSt boxes threads) N main = true -> init_ok_b boxes threads = true ->
    n_fault nt = Some (ft, fp, c) -> fault_ok_b nt (mkSt boxes threads) N = true ->
    failure_reaches_caller nt (ninit nt boxes threads) main N c.
