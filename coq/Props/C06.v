(* C06 — Failures reach the caller and never hang the pipeline.
   Single-thread processor part: theorems over the message-level PostOffice model, for ALL well-formed
   plugin DAGs (shared dependencies included), all stage computations, all failure positions.
   The threaded-mailbox part is stated over the mailbox network model (see below / design notes). *)
From SV Require Import Model.PostOffice Spec.PostOfficeSpec Proof.PostOfficeProof.

(* without a failure: the caller receives exactly the whole-run result, the target ends exhausted, every
   saver saw exactly what its topic produced and was closed exactly once iff the topic was exhausted *)
Theorem C06_single_thread_no_failure_complete :
  forall g comb target spies steps fuel,
    po_hyps g comb target spies steps fuel ->
    let res0 := po_run g comb None target spies steps fuel in
    snd res0 = Ok (whole_of g comb target) /\
    exhausted (get (fst res0) target) = true /\
    (forall t, (t < length g)%nat -> spy_ok g comb spies (fst res0) t) /\
    (no_consumers g target -> saved (get (fst res0) target) = []).
Proof. exact po_no_fault_complete. Qed.
Print Assumptions C06_single_thread_no_failure_complete.

(* whatever fails, wherever: the caller gets the exception or the complete result — never a truncated
   or otherwise different result (the model has no blocking: termination is part of the statement since
   po_run is a total function whose OutOfFuel / step-bound outcomes (Err 99) are excluded) *)
Theorem C06_single_thread_never_silently_truncated :
  forall g comb target spies steps fuel,
    po_hyps g comb target spies steps fuel ->
    forall fault,
    let res0 := po_run g comb fault target spies steps fuel in
    snd res0 = Err 1 \/ snd res0 = Ok (whole_of g comb target).
Proof. exact po_never_silently_truncated. Qed.
Print Assumptions C06_single_thread_never_silently_truncated.

(* the exception reaches the caller exactly when the injected failure happened ... *)
Theorem C06_single_thread_exception_iff_fired :
  forall g comb target spies steps fuel,
    po_hyps g comb target spies steps fuel ->
    forall fault,
    let res0 := po_run g comb fault target spies steps fuel in
    snd res0 = Err 1 <-> fired fault (fst res0).
Proof. exact po_exception_iff_fired. Qed.
Print Assumptions C06_single_thread_exception_iff_fired.

(* ... which is exactly when the failure-free run gets that producer to that position *)
Theorem C06_single_thread_failure_reaches_caller :
  forall g comb ft fp target spies steps fuel,
    po_hyps g comb target spies steps fuel ->
    snd (po_run g comb (Some (ft, fp)) target spies steps fuel) = Err 1 <->
    requested g (fst (po_run g comb None target spies steps fuel)) ft fp.
Proof. exact po_fault_fires_iff. Qed.
Print Assumptions C06_single_thread_failure_reaches_caller.

(* when the exception arrives every saver has been closed (kill_spies), exactly once, and no topic was
   declared exhausted: nothing is marked complete *)
Theorem C06_single_thread_savers_closed_on_error :
  forall g comb target spies steps fuel,
    po_hyps g comb target spies steps fuel ->
    forall fault,
    let res0 := po_run g comb fault target spies steps fuel in
    snd res0 = Err 1 ->
    forall t, (t < length g)%nat ->
      exhausted (get (fst res0) t) = false /\
      (nth t spies false = true ->
        has_spy (get (fst res0) t) = true /\ spy_closed (get (fst res0) t) = 1%nat /\
        spy_log (get (fst res0) t) = firstn (ppos (get (fst res0) t)) (whole_of g comb t)).
Proof. exact po_spies_closed_on_error. Qed.
Print Assumptions C06_single_thread_savers_closed_on_error.
