(* C18 — Hit finding and data reduction keep exactly the samples they should.
   This file contains only property theorems, each closed by `exact <lemma>` and followed by
   Print Assumptions.  Definitions of the statements: Spec/HitsSpec.v; models: Model/Hits.v,
   Model/Reduction.v; Examples showing the hypotheses are satisfiable: Proof/C18Examples.v. *)
From SV Require Import Model.Hits Model.Reduction Spec.HitsSpec
  Proof.HitsProof Proof.HitsAllProof Proof.LinksProof Proof.ReductionProof Proof.ReductionTop
  Proof.HelpersProof Proof.BaselineProof Proof.CutBaselineProof Proof.C18Examples.

(* _find_hits with per-channel threshold arrays: for records it accepts and positive thresholds it
   raises nothing and returns, record by record, exactly the maximal runs of in-record samples at
   or above the record's threshold max(min_amplitude[ch], rms * factor[ch]), each with left, right,
   time, length, dt, channel, record_i, threshold, area (= sum + length * frac(baseline)),
   height (= first maximum + frac(baseline)) and max_time (= time of the first maximum). *)
Theorem C18_find_hits_exactly_maximal_runs : forall amp hon rs,
  Forall (rec_ok amp hon) rs ->
  exists hs, find_hits_core amp hon rs = Ok hs /\ all_hits_spec amp hon rs 0 hs.
Proof. exact find_hits_core_exactly_maximal_runs. Qed.
Print Assumptions C18_find_hits_exactly_maximal_runs.

(* "exactly": every maximal run of a record is reported by one of its hits *)
Theorem C18_find_hits_complete : forall r k thr hs A R B,
  record_hits_spec r k thr hs ->
  run_at thr (firstnZ (r_length r) (r_data r)) A R B ->
  exists h, In h hs /\ h_left h = zlen A /\ h_right h = zlen A + zlen R.
Proof. exact record_hits_complete. Qed.
Print Assumptions C18_find_hits_complete.

(* find_hits with scalar thresholds (broadcast over max(channel)+1 channels) *)
Theorem C18_find_hits_scalar_exactly_maximal_runs : forall rs a h,
  0 < a ->
  Forall (fun r => 0 <= r_ch r /\ 0 <= r_length r <= zlen (r_data r)) rs ->
  let n := max_channel rs + 1 in
  exists hs, find_hits rs (Scalar a) (Scalar h) = Ok hs /\
             all_hits_spec (bcast a n) (bcast h n) rs 0 hs /\
             Forall (fun r => threshold (bcast a n) (bcast h n) r = Z.max (FR * a) (r_rms r * h)) rs.
Proof. exact find_hits_scalar_exactly_maximal_runs. Qed.
Print Assumptions C18_find_hits_scalar_exactly_maximal_runs.

(* record_links: previous_record[i] = j and next_record[j] = i exactly when j is the latest earlier
   record of i's channel, i is not a first fragment, and i starts where j's buffer ends.
   Full statement: the only hypothesis is that channels are non-negative (rec_wf r := 0 <= r_ch r;
   the code raises ValueError otherwise).  Holds for the code repaired by /repo d422fcc. *)
Theorem C18_record_links_spec : forall rs,
  Forall rec_wf rs ->
  exists prev next, record_links rs = Ok (prev, next) /\
    zlen prev = zlen rs /\ zlen next = zlen rs /\
    (forall i, 0 <= i < zlen rs -> -1 <= nthZ prev i /\
        forall j, 0 <= j -> (nthZ prev i = j <-> linked (spr_of rs) rs j i)) /\
    (forall j, 0 <= j < zlen rs -> -1 <= nthZ next j /\
        forall i, 0 <= i -> (nthZ next j = i <-> linked (spr_of rs) rs j i)).
Proof. exact record_links_spec. Qed.
Print Assumptions C18_record_links_spec.

(* Documentation: the loop of the pinned snapshot (record_links_pinned, before fix d422fcc: no
   `last_i != NO_RECORD_LINK` guard) did NOT satisfy the statement above: a continuing fragment at
   time 0, first of its channel, was written into next_record[-1].  The harness unit
   record_links_time0 replays this witness on the real code on every run. *)
Theorem C18_record_links_time0_refuted_pinned :
  exists rs prev next j i,
    Forall (fun r => 0 <= r_ch r) rs /\ record_links_pinned rs = Ok (prev, next) /\
    0 <= j < zlen rs /\ 0 <= i /\ nthZ next j = i /\ ~ linked (spr_of rs) rs j i.
Proof. exact record_links_time0_witness. Qed.
Print Assumptions C18_record_links_time0_refuted_pinned.

(* cut_outside_hits: every output sample equals the input sample if it lies within the left /
   right extension of some hit (in the hit's record below its length, or in the linked previous /
   next fragment), and is 0 otherwise; no other field changes except reduction_level = HITS_ONLY;
   the links are exactly the time-adjacent fragments. *)
Theorem C18_cut_outside_hits_spec : forall rs hs le re,
  let spr := spr_of rs in
  Forall rec_wf rs ->
  Forall (fun r => zlen (r_data r) = spr) rs ->
  0 <= le -> 0 <= re ->
  Forall (hit_ok rs spr) hs ->
  exists out prev next, cut_outside_hits rs hs le re = Ok out /\ length out = length rs /\
    (forall i j, 0 <= i < zlen rs -> 0 <= j -> (nthZ prev i = j <-> linked spr rs j i)) /\
    (forall j i, 0 <= j < zlen rs -> 0 <= i -> (nthZ next j = i <-> linked spr rs j i)) /\
    forall j, 0 <= j < zlen rs ->
      let r := rec_at rs j in let o := rec_at out j in
      o = set_level (set_data r (r_data o)) HITS_ONLY /\
      zlen (r_data o) = spr /\
      forall s, 0 <= s < spr ->
        ((exists h, In h hs /\ keeps rs spr prev next le re h j s) -> nthZ (r_data o) s = nthZ (r_data r) s) /\
        (~ (exists h, In h hs /\ keeps rs spr prev next le re h j s) -> nthZ (r_data o) s = 0).
Proof. exact cut_outside_hits_spec. Qed.
Print Assumptions C18_cut_outside_hits_spec.

(* zero_out_of_bounds, integrate, and their composition with the baseline subtraction *)
Theorem C18_zero_out_of_bounds_spec : forall spr r,
  zlen (r_data r) = spr -> 0 <= r_length r ->
  let o := zero_oob_rec spr r in
  o = set_data r (r_data o) /\ zlen (r_data o) = spr /\
  forall s, 0 <= s < spr -> nthZ (r_data o) s = if s <? r_length r then nthZ (r_data r) s else 0.
Proof. exact zero_oob_rec_spec. Qed.
Print Assumptions C18_zero_out_of_bounds_spec.

Theorem C18_integrate_spec : forall r,
  let o := integrate_rec r in
  o = set_area r (r_area o) /\
  exists k, r_area o = zsum (r_data r) * 2 ^ r_shift r + k /\
            2 * Z.abs (FR * k - (r_bl r mod FR) * r_length r) <= FR /\
            (2 * Z.abs (FR * k - (r_bl r mod FR) * r_length r) = FR -> Z.even k = true).
Proof. exact integrate_rec_spec. Qed.
Print Assumptions C18_integrate_spec.

Theorem C18_baseline_integrate_consistent : forall spr bl d,
  zlen (r_data d) = spr -> 0 <= r_length d <= spr -> 0 <= bl -> r_shift d = 0 ->
  let o := integrate_rec (zero_oob_rec spr (bl_apply true bl d)) in
  r_bl o = bl /\
  (forall s, 0 <= s < spr ->
     nthZ (r_data o) s = if s <? r_length d then bl / FR - nthZ (r_data d) s else 0) /\
  2 * Z.abs (FR * r_area o - (r_length d * bl - FR * zsum (firstnZ (r_length d) (r_data d)))) <= FR.
Proof. exact baseline_integrate_consistent. Qed.
Print Assumptions C18_baseline_integrate_consistent.

(* baseline(): without sloppy chunking, when every record has a 0th fragment at or before it in its
   channel and baseline windows are non-empty, no error is raised and every record is baselined
   (bl_apply: data[:length] = +-(data - int(bl)), baseline = bl) with the mean of the first
   baseline_samples samples of the LATEST 0th fragment of its channel *)
Theorem C18_baseline_spec : forall rs bs flip fb,
  Forall (window_ok bs) rs -> all_have_first [] rs ->
  baseline rs bs flip false fb = Ok (baseline_spec_fn bs flip [] rs).
Proof. exact baseline_spec. Qed.
Print Assumptions C18_baseline_spec.

(* cut_baseline: zeroes exactly the first n_before samples of a pulse (only within its 0th
   fragment) and every sample from pulse_length - n_after on; nothing else changes except
   reduction_level = BASELINE_CUT *)
Theorem C18_cut_baseline_spec : forall spr nb na d,
  zlen (r_data d) = spr -> 0 <= nb ->
  let o := cut_baseline_rec spr nb na d in
  o = set_level (set_data d (r_data o)) BASELINE_CUT /\ zlen (r_data o) = spr /\
  forall s, 0 <= s < spr ->
    nthZ (r_data o) s =
    if ((r_reci d =? 0) && (s <? nb)) || (r_plen d - na <=? r_reci d * spr + s) then 0 else nthZ (r_data d) s.
Proof. exact cut_baseline_rec_spec. Qed.
Print Assumptions C18_cut_baseline_spec.

(* find_hits with any mix of scalar / per-channel arguments is _find_hits on the broadcast arrays *)
Theorem C18_find_hits_wrapper : forall rs amp hon,
  rs <> [] ->
  let n := n_channels_of rs amp hon in
  find_hits rs amp hon = find_hits_core (targ_array amp n) (targ_array hon n) rs.
Proof. exact find_hits_wrapper. Qed.
Print Assumptions C18_find_hits_wrapper.
