(* C03 - Saving then loading returns the same rows, ranges and consistent metadata.
   Only property theorems, each closed by `exact <lemma>` and followed by Print Assumptions.
   Every theorem quantifies over an arbitrary byte codec (blob, encode, decode, bsize) that
   round-trips (`decode k (encode k rs) = Some rs`): numpy's buffer layout, the dtype.descr text
   round trip and the compressor libraries are that codec, exercised by the correspondence harness.
   The rechunker's correctness is C07's rechunk_stream_correct_strong (no premise left). *)
From SV Require Import Model.Chunk Model.Rechunker Model.SaverLoader Spec.SaverLoaderSpec
  Proof.SaverLoaderProof Proof.C03Rechunk.

(* (a) round trip: same rows in order, same overall range, contiguous, same run id; boundaries equal
   the written ones without rechunking, and are written boundaries or points strictly inside a
   row-free gap with rechunking.  For every compressor (it is a field of md0), every executor
   setting (sc_executor), every target size >= one row, allow_incomplete on or off. *)
Theorem C03_save_load_roundtrip :
  forall (blob : Type) (encode : Z -> list row -> blob) (decode : Z -> blob -> option (list row))
         (bsize : blob -> Z),
    (forall k rs, decode k (encode k rs) = Some rs) ->
    forall cfg md0 run dt cs ai deft,
      sc_forked cfg = false -> md0_ok md0 -> stream_ok run dt cs ->
      (sc_rechunk cfg && sc_allow_rechunk cfg = true -> Forall (fun c => 0 < ctarget c) cs) ->
      exists s out,
        save_from blob encode bsize cfg (init_saver md0) cs = (s, Ok tt) /\
        load blob decode s ai deft = Ok out /\
        all_rows out = all_rows cs /\
        first_start out = first_start cs /\ final_end out = final_end cs /\
        contiguous out /\
        Forall (fun c => crun c = Some run) out /\
        (sc_rechunk cfg && sc_allow_rechunk cfg = false -> Forall2 same_data cs out /\ bounds out = bounds cs) /\
        (forall x, In x (cut_points out) -> In x (cut_points cs) \/ row_free_at (all_rows cs) x).
Proof.
  intros blob encode decode bsize Hcodec.
  exact (save_load_roundtrip blob encode decode bsize Hcodec rechunk_spec_holds).
Qed.
Print Assumptions C03_save_load_roundtrip.

(* (a') the chunks handed out by the loader are exactly the chunks that reached the saver (the
   stream, or the rechunker's output), restamped with the metadata's data type / kind / target *)
Theorem C03_loaded_chunks_are_saved_chunks :
  forall (blob : Type) (encode : Z -> list row -> blob) (decode : Z -> blob -> option (list row))
         (bsize : blob -> Z),
    (forall k rs, decode k (encode k rs) = Some rs) ->
    forall cfg md0 cs outs ai deft,
      sc_forked cfg = false -> md0_ok md0 -> reaches_saver cfg cs outs ->
      outs <> [] -> Forall wf outs -> Forall (fun c => exists r, crun c = Some r) outs ->
      exists s out,
        save_from blob encode bsize cfg (init_saver md0) cs = (s, Ok tt) /\
        load blob decode s ai deft = Ok out /\
        Forall2 same_data outs out /\
        Forall (fun c => Some (cdtype c) = md_dtype md0 /\ Some (ckind c) = md_kind md0 /\
                         ctarget c = target_of md0 deft) out /\
        stored_as blob encode bsize cfg md0 outs s.
Proof.
  intros blob encode decode bsize Hcodec.
  exact (save_load_roundtrip_core blob encode decode bsize Hcodec).
Qed.
Print Assumptions C03_loaded_chunks_are_saved_chunks.

(* (b) metadata: every stored chunk entry has n = number of rows, nbytes = n * itemsize, start / end
   / run id as written, first / last (end)times of the first / last row, a file (holding exactly the
   encoded rows) iff the chunk has rows; overall start / end = first start / last end; the data is
   marked complete; the static fields are those handed to the saver. *)
Theorem C03_metadata_consistent :
  forall (blob : Type) (encode : Z -> list row -> blob) (bsize : blob -> Z) cfg md0 cs outs,
      sc_forked cfg = false -> md_run md0 <> None -> md_exception md0 = false ->
      reaches_saver cfg cs outs -> outs <> [] ->
      exists s, save_from blob encode bsize cfg (init_saver md0) cs = (s, Ok tt) /\
        let m := sv_disk s in
        let comp := comp_of (sv_md (init_saver (blob := blob) md0)) in
        sv_final s = true /\ sv_closed s = true /\ sv_meta_files s = [] /\
        md_complete m = true /\
        md_run m = md_run md0 /\ md_dtype m = md_dtype md0 /\ md_kind m = md_kind md0 /\
        md_rowtype m = md_rowtype md0 /\ md_target m = md_target md0 /\ md_compressor m = Some comp /\
        infos_agree blob encode bsize (sc_itemsize cfg) comp (sv_files s) 0 outs (md_chunks m) /\
        md_start m = first_start outs /\ md_end m = final_end outs.
Proof.
  intros blob encode bsize. exact (metadata_consistent blob encode (fun _ _ => None) bsize).
Qed.
Print Assumptions C03_metadata_consistent.

(* (b') completion marker present iff save_from returned normally - for EVERY stream, valid or not *)
Theorem C03_completion_marker_iff :
  forall (blob : Type) (encode : Z -> list row -> blob) (bsize : blob -> Z) cfg md0 cs,
      sc_forked cfg = false -> md_run md0 <> None -> md_exception md0 = false ->
      let '(s, r) := save_from blob encode bsize cfg (init_saver md0) cs in
      sv_closed s = true /\ sv_final s = true /\ md_ended (sv_disk s) = true /\
      (md_complete (sv_disk s) = true <-> r = Ok tt).
Proof.
  intros blob encode bsize. exact (completion_marker_iff blob encode (fun _ _ => None) bsize).
Qed.
Print Assumptions C03_completion_marker_iff.

Theorem C03_failed_save_not_loadable :
  forall (blob : Type) (encode : Z -> list row -> blob) (decode : Z -> blob -> option (list row))
         (bsize : blob -> Z) cfg md0 cs ai deft,
      sc_forked cfg = false -> md_run md0 <> None -> md_exception md0 = false ->
      let '(s, r) := save_from blob encode bsize cfg (init_saver md0) cs in
      r <> Ok tt -> load blob decode s ai deft = Err E_NOT_AVAILABLE.
Proof.
  intros blob encode decode bsize. exact (failed_save_not_loadable blob encode decode bsize).
Qed.
Print Assumptions C03_failed_save_not_loadable.

(* (c) the loader never hands out a chunk whose row count differs from the recorded one, and a
   non-zero recorded count that differs from the file's row count is reported as DataCorrupted *)
Theorem C03_loader_row_counts :
  forall (blob : Type) (decode : Z -> blob -> option (list row)) files comp dt kind tgt l out,
    read_chunks blob decode files comp dt kind tgt l = Ok out ->
    Forall2 (fun ci c => ci_n ci = Z.of_nat (length (crows c))) l out.
Proof.
  intros blob decode. exact (loader_row_counts blob decode).
Qed.
Print Assumptions C03_loader_row_counts.

Theorem C03_loader_detects_count_mismatch :
  forall (blob : Type) (decode : Z -> blob -> option (list row)) files comp dt kind tgt ci s e r f b rows,
    ci_start ci = Some s -> ci_end ci = Some e -> ci_run ci = Some r ->
    ci_n ci <> 0 -> ci_filename ci = Some f -> lookup f files = Some b -> decode comp b = Some rows ->
    Z.of_nat (length rows) <> ci_n ci ->
    read_chunk blob decode files comp dt kind tgt ci = Err E_CORRUPTED /\
    forall pre post good,
      read_chunks blob decode files comp dt kind tgt pre = Ok good ->
      read_chunks blob decode files comp dt kind tgt (pre ++ ci :: post) = Err E_CORRUPTED.
Proof.
  intros blob decode. exact (loader_detects_count_mismatch blob decode).
Qed.
Print Assumptions C03_loader_detects_count_mismatch.

(* Observation, outside the property's quantifier (process-pool savers): a forked saver whose chunks
   are written by child processes keeps the overall start / end of the metadata it was given (absent
   for Plugin.metadata), whatever was saved: the chunk list is collected in sorted order, the overall
   range is never filled in. *)
Theorem C03_forked_overall_range_untouched :
  forall (blob : Type) (encode : Z -> list row -> blob) (bsize : blob -> Z) cfg md0 jobs (s1 s2 : saver blob),
    save_children blob encode bsize cfg (init_saver md0) jobs = Ok s1 -> close s1 false = Ok s2 ->
    md_start (sv_disk s2) = md_start md0 /\ md_end (sv_disk s2) = md_end md0 /\
    md_chunks (sv_disk s2) = map snd (sort_by_key (sv_meta_files s1)).
Proof.
  intros blob encode bsize. exact (forked_overall_range_untouched blob encode bsize).
Qed.
Print Assumptions C03_forked_overall_range_untouched.
