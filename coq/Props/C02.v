(* C02 — Stored data is reused only under an identical lineage (no stale reads).
   Only property theorems, each closed by `exact <lemma>` and followed by Print Assumptions.
   Models: Model/Canon.v (hashablize + json.dumps), Model/Lineage.v (registry, config, lineage,
   plugin cache, context hash pinned / repaired, storage keys, fuzzy matching, histories).
   SHA-1/base32 enters as the universally quantified [hash] with the premise that it is injective. *)
From SV Require Import Base.Prelude Model.Canon Model.Lineage Model.C02Run Spec.CanonSpec Spec.LineageSpec
  Proof.CanonProof Proof.CanonEquiv Proof.CanonInj Proof.LineageEquiv Proof.LineageCache Proof.LineageHash
  Proof.LineageRegister Proof.LineageHistory Proof.LineageRefute.
From Coq Require Import Sorting.Permutation.

(* json text -> tree is a function: the serialisation is injective *)
Theorem C02_ser_injective : forall t1 t2, ser t1 = ser t2 -> t1 = t2.
Proof. exact ser_injective. Qed.
Print Assumptions C02_ser_injective.

(* dict insertion order at any depth (and tuple versus list) does not change the canonical string *)
Theorem C02_canon_order_independent : forall v1 v2, veqb v1 v2 = true -> canon v1 = canon v2.
Proof. exact canon_order_independent. Qed.
Print Assumptions C02_canon_order_independent.

Theorem C02_canon_dict_permutation : forall d1 d2,
  Permutation d1 d2 -> NoDup (keys d1) -> canon (VDict d1) = canon (VDict d2).
Proof. exact canon_dict_permutation. Qed.
Print Assumptions C02_canon_dict_permutation.

(* full statement: the canonical string determines the value (up to order / tuple-vs-list) *)
Definition C02_full_canon_injective : Prop :=
  forall v1 v2, canon v1 = canon v2 -> veqb v1 v2 = true.

(* it holds on [dom] (unique non-empty dicts, no list element of the shape [str, x]) ... *)
Theorem C02_canon_injective_partial : forall v1 v2, dom v1 -> dom v2 -> canon v1 = canon v2 -> veqb v1 v2 = true.
Proof. exact canon_injective. Qed.
Print Assumptions C02_canon_injective_partial.

(* ... and fails outside: {k: v} and [[k, v]] collide (replayed on strax.deterministic_hash by the harness) *)
Theorem C02_canon_injective_refuted : exists v1 v2, canon v1 = canon v2 /\ veqb v1 v2 = false /\ py_eqb v1 v2 = false.
Proof. exact (ex_intro _ _ (ex_intro _ _ canon_collision)). Qed.
Print Assumptions C02_canon_injective_refuted.

(* plugin initialisation depends on the settings only up to equivalence (dict order, class identity) *)
Theorem C02_spec_plugin_equiv : forall reg reg' conf conf',
  reg_equiv reg reg' -> conf_equiv conf conf' ->
  forall fuel dt, res_rel inst_equiv (spec_plugin fuel reg conf dt) (spec_plugin fuel reg' conf' dt).
Proof. exact spec_plugin_equiv. Qed.
Print Assumptions C02_spec_plugin_equiv.

(* Context.register keeps "a class is registered for exactly its outputs" *)
Theorem C02_register_consistent : forall U reg c,
  cid_ok U -> reg_in U reg -> In c U -> reg_ok reg ->
  reg_ok (register_core reg c) /\ reg_in U (register_core reg c).
Proof. exact register_reg_ok. Qed.
Print Assumptions C02_register_consistent.

(* cache transparency, full statement, for a given variant of _context_hash *)
Definition C02_full_cache_transparent (fx : bool) : Prop := full_cache_transparent fx.

(* with the repaired _context_hash it holds for all histories, contexts, data types and all injective hashes *)
Theorem C02_cache_transparent_fixed : C02_full_cache_transparent true.
Proof. exact cache_transparent_fixed_full. Qed.
Print Assumptions C02_cache_transparent_fixed.

(* with the _context_hash of the pinned tree it is false: finding D4 (replayed on the real Context) *)
Theorem C02_cache_transparent_refuted : ~ C02_full_cache_transparent false.
Proof. exact cache_transparent_refuted. Qed.
Print Assumptions C02_cache_transparent_refuted.

(* ... and also without any re-registration: an option named like a data type *)
Theorem C02_cache_transparent_shadow_refuted :
  exists ops c x dt, length (classes_of ops) = 1%nat /\
    nth_error (ctxs HTc (fst (run_ops HTc hid heq false (init_state HTc) ops))) c = Some x /\
    ~ transparent_at HTc hid heq false x dt.
Proof. exact cache_transparent_shadow_refuted. Qed.
Print Assumptions C02_cache_transparent_shadow_refuted.
