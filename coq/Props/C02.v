(* C02 — Stored data is reused only under an identical lineage (no stale reads).
   Only property theorems, each closed by `exact <lemma>` and followed by Print Assumptions.
   Models: Model/Canon.v (hashablize + json.dumps), Model/Lineage.v (registry, config, lineage,
   plugin cache, context hash pinned / repaired, storage keys, fuzzy matching, histories).
   SHA-1/base32 enters as the universally quantified [hash] with the premise that it is injective. *)
From SV Require Import Base.Prelude Model.Canon Model.Lineage Model.C02Run Spec.CanonSpec Spec.LineageSpec
  Proof.CanonProof Proof.CanonEquiv Proof.CanonInj Proof.LineageEquiv Proof.LineageCache Proof.LineageHash
  Proof.LineageRegister Proof.LineageHistory Proof.LineageRefute Proof.LineageStore Proof.LineageFuzzy
  Proof.LineageKeys Proof.LineageKeys2 Proof.LineagePinned Proof.LineageFresh.
From Coq Require Import Sorting.Permutation.

(* json text -> tree is a function: the serialisation is injective *)
Theorem C02_ser_injective : forall t1 t2, ser t1 = ser t2 -> t1 = t2.
Proof. exact ser_injective. Qed.
Print Assumptions C02_ser_injective.

(* dict insertion order at any depth (and tuple versus list) does not change the canonical string *)
Theorem C02_canon_order_independent : forall v1 v2, veqb v1 v2 = true -> canon v1 = canon v2.
Proof. exact canon_order_independent. Qed.
Print Assumptions C02_canon_order_independent.

Theorem C02_canon_dict_permutation : forall d1 d2,
  Permutation d1 d2 -> NoDup (keys d1) -> canon (VDict d1) = canon (VDict d2).
Proof. exact canon_dict_permutation. Qed.
Print Assumptions C02_canon_dict_permutation.

(* full statement: the canonical string determines the value (up to order / tuple-vs-list) *)
Definition C02_full_canon_injective : Prop :=
  forall v1 v2, canon v1 = canon v2 -> veqb v1 v2 = true.

(* it holds on [dom] (unique non-empty dicts, no list element of the shape [str, x]) ... *)
Theorem C02_canon_injective_partial : forall v1 v2, dom v1 -> dom v2 -> canon v1 = canon v2 -> veqb v1 v2 = true.
Proof. exact canon_injective. Qed.
Print Assumptions C02_canon_injective_partial.

(* ... and fails outside: {k: v} and [[k, v]] collide (replayed on strax.deterministic_hash by the harness) *)
Theorem C02_canon_injective_refuted : exists v1 v2, canon v1 = canon v2 /\ veqb v1 v2 = false /\ py_eqb v1 v2 = false.
Proof. exact (ex_intro _ _ (ex_intro _ _ canon_collision)). Qed.
Print Assumptions C02_canon_injective_refuted.

(* plugin initialisation depends on the settings only up to equivalence (dict order, class identity) *)
Theorem C02_spec_plugin_equiv : forall reg reg' conf conf',
  reg_equiv reg reg' -> conf_equiv conf conf' ->
  forall fuel dt, res_rel inst_equiv (spec_plugin fuel reg conf dt) (spec_plugin fuel reg' conf' dt).
Proof. exact spec_plugin_equiv. Qed.
Print Assumptions C02_spec_plugin_equiv.

(* Context.register keeps "a class is registered for exactly its outputs" *)
Theorem C02_register_consistent : forall U reg c,
  cid_ok U -> reg_in U reg -> In c U -> reg_ok reg ->
  reg_ok (register_core reg c) /\ reg_in U (register_core reg c).
Proof. exact register_reg_ok. Qed.
Print Assumptions C02_register_consistent.

(* cache transparency, full statement, for a given variant of _context_hash *)
Definition C02_full_cache_transparent (fx : bool) : Prop := full_cache_transparent fx.

(* with the repaired _context_hash it holds for all histories, contexts, data types and all injective hashes *)
Theorem C02_cache_transparent_fixed : C02_full_cache_transparent true.
Proof. exact cache_transparent_fixed_full. Qed.
Print Assumptions C02_cache_transparent_fixed.

(* with the _context_hash of the pinned tree it is false: finding D4 (replayed on the real Context) *)
Theorem C02_cache_transparent_refuted : ~ C02_full_cache_transparent false.
Proof. exact cache_transparent_refuted. Qed.
Print Assumptions C02_cache_transparent_refuted.

(* ... and also without any re-registration: an option named like a data type *)
Theorem C02_cache_transparent_shadow_refuted :
  exists ops c x dt, length (classes_of ops) = 1%nat /\
    nth_error (ctxs HTc (fst (run_ops HTc hid heq false (init_state HTc) ops))) c = Some x /\
    ~ transparent_at HTc hid heq false x dt.
Proof. exact cache_transparent_shadow_refuted. Qed.
Print Assumptions C02_cache_transparent_shadow_refuted.

(* on the pinned tree it holds for the histories that avoid exactly those two failure classes *)
Theorem C02_cache_transparent_partial :
  forall (HT : Type) (hash : list Z -> HT) (heqb : HT -> HT -> bool),
  (forall a b, hash a = hash b -> a = b) -> (forall a b, heqb a b = true <-> a = b) ->
  forall ops, cid_ok (classes_of ops) -> no_conflicting_reregistration ops -> no_config_key_is_data_type ops ->
  forall c x dt, nth_error (ctxs HT (fst (run_ops HT hash heqb false (init_state HT) ops))) c = Some x ->
  transparent_at HT hash heqb false x dt.
Proof. exact cache_transparent_pinned_partial. Qed.
Print Assumptions C02_cache_transparent_partial.

(* key sensitivity: the key of dt changes iff the lineage entry of one of the plugins in its lineage
   (its provider, the providers of what it depends on, ...) changes *)
Theorem C02_key_sensitivity :
  forall (HT : Type) (hash : list Z -> HT), (forall a b, hash a = hash b -> a = b) ->
  forall reg reg' conf conf' n dt i i',
  reg_ok reg -> reg_ok reg' -> struct_equiv reg reg' ->
  spec_plugin n reg conf dt = Ok i -> spec_plugin n reg' conf' dt = Ok i' ->
  (lineage_hash HT hash (ilin i) = lineage_hash HT hash (ilin i') <->
   forall k, has_key k (ilin i) = true ->
             option_map norm_entry (entry_of reg conf k) = option_map norm_entry (entry_of reg' conf' k)).
Proof. exact key_sensitivity. Qed.
Print Assumptions C02_key_sensitivity.

(* ... an entry never changes for an option the plugin does not track (untracked, not taken, or a
   parent option overridden by a child option) ... *)
Theorem C02_entry_untracked_invariant : forall conf c o v,
  tracks c o = false ->
  match plugin_config conf c, plugin_config (dset o v conf) c with
  | Ok pc, Ok pc' => forall k, lookup k (lin_configs c pc) = lookup k (lin_configs c pc')
  | Err e, Err e' => e = e'
  | _, _ => False
  end.
Proof. exact entry_untracked_invariant. Qed.
Print Assumptions C02_entry_untracked_invariant.

(* ... always changes when a tracked option gets a different value ... *)
Theorem C02_entry_tracked_changes : forall conf c o v pc pc',
  tracks c o = true -> ~ In o (map fst (cparents c)) ->
  plugin_config conf c = Ok pc -> plugin_config (dset o v conf) c = Ok pc' ->
  (forall old, lookup o (with_defaults conf (copts c)) = Some old -> norm old <> norm v) ->
  norm_entry (cname c, cversion c, lin_configs c pc) <> norm_entry (cname c, cversion c, lin_configs c pc').
Proof. exact entry_tracked_changes. Qed.
Print Assumptions C02_entry_tracked_changes.

(* ... and always changes with the class name or the version *)
Theorem C02_entry_name_version_changes : forall e e' : lentry,
  (fst (fst e) <> fst (fst e') \/ snd (fst e) <> snd (fst e')) -> norm_entry e <> norm_entry e'.
Proof. exact entry_name_version_changes. Qed.
Print Assumptions C02_entry_name_version_changes.

(* no stale reads at the storage level: without fuzzy options, whatever DataDirectory finds was
   stored under (a lineage equivalent to) the requested lineage; the invariant "directory name =
   hash of the lineage in the metadata" is kept by every get / make *)
Theorem C02_no_stale_reads :
  forall (HT : Type) (hash : list Z -> HT) (heqb : HT -> HT -> bool),
  (forall a b, hash a = hash b -> a = b) -> (forall a b, heqb a b = true <-> a = b) ->
  forall st run dt l e,
  store_inv HT hash st -> In e (find_entries HT hash heqb st run dt l [] []) ->
  In e st /\ srun HT e = run /\ sdt HT e = dt /\ lin_equiv (slin HT e) l.
Proof. exact find_exact_lineage. Qed.
Print Assumptions C02_no_stale_reads.

Theorem C02_store_invariant :
  forall (HT : Type) (hash : list Z -> HT) (heqb : HT -> HT -> bool),
  (forall a b, hash a = hash b -> a = b) ->
  forall conf plugins ff fo run fuel st dt x,
  store_inv HT hash st -> get_data HT hash heqb fuel conf plugins ff fo run st dt = Ok x ->
  store_inv HT hash (snd (fst x)).
Proof. exact get_data_store_inv. Qed.
Print Assumptions C02_store_invariant.

(* nothing computed under fuzzy matching is written *)
Theorem C02_fuzzy_never_writes :
  forall (HT : Type) (hash : list Z -> HT) (heqb : HT -> HT -> bool) conf plugins ff fo run,
  fuzzy_on ff fo = true ->
  forall fuel st dt x, get_data HT hash heqb fuel conf plugins ff fo run st dt = Ok x -> snd (fst x) = st.
Proof. exact fuzzy_never_writes. Qed.
Print Assumptions C02_fuzzy_never_writes.

(* fuzzy matching: _matches accepts exactly the lineages that agree (Python ==) outside the named
   data types and options ... *)
Theorem C02_fuzzy_match_iff : forall stored desired ff fo,
  lin_wf stored -> lin_wf desired -> fuzzy_on ff fo = true ->
  (matches stored desired ff fo = true <-> fuzzy_spec stored desired ff fo).
Proof. exact fuzzy_match_iff. Qed.
Print Assumptions C02_fuzzy_match_iff.

(* ... but the stored side is what json.loads returns: the intended statement about the lineage the
   data was made under is false as soon as a tracked option has a tuple value (finding F2) ... *)
Definition C02_full_fuzzy_match_iff : Prop := full_fuzzy_match_iff.

Theorem C02_fuzzy_match_iff_refuted : ~ C02_full_fuzzy_match_iff.
Proof. exact fuzzy_match_iff_refuted. Qed.
Print Assumptions C02_fuzzy_match_iff_refuted.

(* ... and true for tuple-free option values *)
Theorem C02_fuzzy_match_iff_partial : forall made desired ff fo,
  (forall e, In e made -> forall o v, In (o, v) (snd (snd e)) -> tuple_free v) ->
  lin_wf made -> lin_wf desired -> fuzzy_on ff fo = true ->
  (matches (lin_json_rt made) desired ff fo = true <-> fuzzy_spec made desired ff fo).
Proof. exact fuzzy_match_iff_partial. Qed.
Print Assumptions C02_fuzzy_match_iff_partial.


(* get_array = brand-new context on an empty directory, for all histories without fuzzy options:
   full statement, for either variant of _context_hash *)
Definition C02_full_get_equals_fresh (fx : bool) : Prop := full_get_equals_fresh fx.

(* false for both variants: depends_on is not part of the lineage, so a same-named, same-version class
   whose dependencies change within data types already in its lineage keeps the storage key while the
   computation changes (storage-level stale read; known finding, replayed on the real Context) *)
Theorem C02_get_equals_fresh_refuted : forall fx, ~ C02_full_get_equals_fresh fx.
Proof. exact get_equals_fresh_refuted. Qed.
Print Assumptions C02_get_equals_fresh_refuted.

(* the statement under the hypothesis that excludes exactly this class (class name + version determine
   the class including depends_on; child options tracked).  NOT proved: it needs "stored data is a
   function of the lineage", which the model's data trees satisfy only under this hypothesis; it is
   what the correspondence checks on every get of every generated history. *)
Definition C02_full_get_equals_fresh_versioned (fx : bool) : Prop := full_get_equals_fresh_versioned fx.
