(* GenTie, C07 kernels: the MiniPy programs regenerated from the Python source on every run
   (coq/Gen/*.v, harness/translate.py) compute exactly what the hand-written models compute, and
   the C07 laws hold of the regenerated programs themselves. *)
From Coq Require Import String.
From SV Require Import Lang.MiniPy Gen.SplitArray Gen.Diff Model.SplitArray Model.Rechunker.
From SV Require Import Proof.SplitArrayProof Proof.RefineSplitArray Proof.RefineDiff.

(* ---- strax.chunk.split_array ---- *)

Theorem GenTie_split_array : forall fuel rs t early,
  run fuel split_array_prog [VRows rs; VInt t; VBool early] = embed_split (split_array rs t early).
Proof. exact split_array_refines. Qed.
Print Assumptions GenTie_split_array.

(* the split law over the generated program: both parts concatenate to the input, everything left
   ends at or before t', everything right starts at or after t', t' <= t with equality unless
   allow_early_split, every instant skipped is straddled by a row; CannotSplit only if some row
   straddles t *)
Theorem GenTie_split_array_spec : forall fuel rs t early,
  sorted rs -> Forall (fun q => 0 <= rt q) rs ->
  split_outcome_post rs t early (run fuel split_array_prog [VRows rs; VInt t; VBool early]).
Proof. exact split_array_prog_correct. Qed.
Print Assumptions GenTie_split_array_spec.

(* ---- strax.processing.general.diff (used by Rechunker.get_splits) ---- *)

Theorem GenTie_diff : forall fuel rs,
  run fuel diff_prog [VRows rs] = OReturn (VInts (Rechunker.diff rs)).
Proof. exact diff_refines. Qed.
Print Assumptions GenTie_diff.
