(* GenTie, C07 kernels: the MiniPy programs regenerated from the Python source on every run
   (coq/Gen/*.v, harness/translate.py) compute exactly what the hand-written models compute, and
   the C07 laws hold of the regenerated programs themselves. *)
From Coq Require Import String.
From SV Require Import Lang.MiniPy Gen.SplitArray Model.SplitArray Proof.SplitArrayProof Proof.RefineSplitArray.

Theorem GenTie_split_array : forall fuel rs t early,
  run fuel split_array_prog [VRows rs; VInt t; VBool early] = embed_split (split_array rs t early).
Proof. exact split_array_refines. Qed.
Print Assumptions GenTie_split_array.

Theorem GenTie_split_array_spec : forall fuel rs t early,
  sorted rs -> Forall (fun q => 0 <= rt q) rs ->
  split_outcome_post rs t early (run fuel split_array_prog [VRows rs; VInt t; VBool early]).
Proof. exact split_array_prog_correct. Qed.
Print Assumptions GenTie_split_array_spec.
