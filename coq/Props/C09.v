(* C09 — Overlap-window plugins give chunking-independent results at chunk boundaries.
   Only property theorems, each closed by `exact <lemma>` and followed by Print Assumptions. *)
From SV Require Import Model.Rows Model.Chunk Model.Overlap Proof.OverlapBasic.

(* DESIGN section 7, T6: the final `yield self.cached_results` never yields None, and a run with no
   input chunk fails (ValueError "Cannot work with empty input buffer") before reaching it. *)
Theorem C09_flush_never_none : forall P cs items,
  ow_iter P cs = Ok items -> cs <> [] /\ Forall (fun it => it <> None) items.
Proof. exact ow_iter_never_yields_none. Qed.
Print Assumptions C09_flush_never_none.

Theorem C09_empty_stream_fails : forall P, ow_iter P [] = Err E_EMPTY_BUFFER.
Proof. exact ow_iter_empty_stream_fails. Qed.
Print Assumptions C09_empty_stream_fails.
