(* C09 — Overlap-window plugins give chunking-independent results at chunk boundaries.
   Only property theorems, each closed by `exact <lemma>` and followed by Print Assumptions.
   Model: Model/Overlap.v (OverlapWindowPlugin.iter / do_compute / cache_beyond on Plugin.iter for one
   dependency, Plugin.do_compute / _fix_output, Chunk.split / concatenate).
   Hypothesis on the user computation: Spec/WindowLocal.v. *)
From SV Require Import Model.Rows Model.Chunk Model.OverlapKernels Model.Overlap.
From SV Require Import Spec.WindowLocal Spec.OverlapSpec.
From SV Require Import Proof.OverlapBasic Proof.OverlapProof Proof.WindowLocalProof Proof.OverlapExamples.
From SV Require Import Proof.OverlapAligned Proof.GroupLocalProof Proof.OverlapMulti Proof.OverlapCorollaries.

(* For disjoint sorted positive-length input rows R, EVERY contiguous well-formed chunking cs of the
   run (chunks shorter than the window, rows longer than the window, empty and zero-duration chunks),
   every window pair (wl, wr) >= 0 and every computation f that is window-local within margins
   (ml, mr) <= (2 wl, 2 wr): iter succeeds and the concatenated delivered rows are f(all rows). *)
Theorem C09_overlap_equals_whole_run :
  forall f wtuple wl wr ml mr odt okind orun otgt sw R a b dt run cs,
  0 <= wl -> 0 <= wr -> ml <= 2 * wl -> mr <= 2 * wr -> window_local ml mr f ->
  dsp R -> chunking_of R a b dt run cs ->
  exists outs,
    ow_iter (single_params f wtuple wl wr odt okind orun otgt sw) cs = Ok (as_items outs) /\
    flat_map crows outs = f R /\
    contiguous_from a outs /\ last_end a outs = b /\ Forall wf outs.
Proof. exact overlap_single_correct. Qed.
Print Assumptions C09_overlap_equals_whole_run.

(* One output per input row with the row's extent and any payload that depends only on the rows within
   (kl, kr) of it is window-local; in particular the neighbour count and the plain copy. *)
Theorem C09_per_row_kernel_window_local : forall h kl kr,
  0 <= kl -> 0 <= kr -> payload_local kl kr h -> window_local kl kr (f_row h).
Proof. exact f_row_window_local. Qed.
Print Assumptions C09_per_row_kernel_window_local.

Theorem C09_neighbour_count_window_local : forall kl kr,
  0 <= kl -> 0 <= kr -> window_local kl kr (f_count kl kr).
Proof. exact f_count_window_local. Qed.
Print Assumptions C09_neighbour_count_window_local.

(* One output per gap-separated group (rows whose gap to the previous row is <= G are merged; the
   output spans the group) is window-local with margins (G, G). *)
Theorem C09_group_former_window_local : forall G, 0 <= G -> window_local G G (f_group G).
Proof. exact f_group_window_local. Qed.
Print Assumptions C09_group_former_window_local.

(* The main theorem for the two concrete plugins of the correspondence harness. *)
Theorem C09_neighbour_count_chunking_independent :
  forall kl kr wtuple wl wr odt okind orun otgt sw R a b dt run cs,
  0 <= kl -> 0 <= kr -> kl <= 2 * wl -> kr <= 2 * wr ->
  dsp R -> chunking_of R a b dt run cs ->
  exists outs,
    ow_iter (single_params (f_count kl kr) wtuple wl wr odt okind orun otgt sw) cs = Ok (as_items outs) /\
    flat_map crows outs = f_count kl kr R /\
    contiguous_from a outs /\ last_end a outs = b /\ Forall wf outs.
Proof. exact count_chunking_independent. Qed.
Print Assumptions C09_neighbour_count_chunking_independent.

Theorem C09_group_former_chunking_independent :
  forall G wtuple wl wr odt okind orun otgt sw R a b dt run cs,
  0 <= G -> G <= 2 * wl -> G <= 2 * wr ->
  dsp R -> chunking_of R a b dt run cs ->
  exists outs,
    ow_iter (single_params (f_group G) wtuple wl wr odt okind orun otgt sw) cs = Ok (as_items outs) /\
    flat_map crows outs = f_group G R /\
    contiguous_from a outs /\ last_end a outs = b /\ Forall wf outs.
Proof. exact group_chunking_independent. Qed.
Print Assumptions C09_group_former_chunking_independent.

(* Multi-output plugins (cache_beyond over several outputs), for ANY user computations and any input:
   whenever iter completes, all chunks of one yielded item (including the final flush) share one
   start and one end. *)
Theorem C09_overlap_multi_output_aligned : forall P cs items,
  ow_iter P cs = Ok items -> Forall item_aligned items.
Proof. exact overlap_items_aligned. Qed.
Print Assumptions C09_overlap_multi_output_aligned.

(* Multi-output plugins whose outputs are all window-local and whose cut sets are nested (of any two
   outputs one can be cut wherever the other can; e.g. every output has one row per input row, or a
   per-row output next to a group former): cache_beyond settles within two of its max_trials passes,
   iter succeeds, and EVERY output's chunk stream is contiguous over the run and carries that output's
   computation over the whole run. *)
Theorem C09_overlap_multi_output_equals_whole_run :
  forall wtuple wl wr ml mr outs orun otgt sw R a b dt run cs,
  0 <= wl -> 0 <= wr -> ml <= 2 * wl -> mr <= 2 * wr -> (1 < length outs)%nat ->
  (forall o, In o outs -> window_local ml mr (oo_f o)) -> nested_cuts (map oo_f outs) ->
  dsp R -> chunking_of R a b dt run cs ->
  exists items,
    ow_iter (mk_ow_params wtuple wl wr outs orun otgt sw) cs = Ok items /\
    forall k o, nth_error outs k = Some o ->
      flat_map crows (out_stream k items) = oo_f o R /\
      contiguous_from a (out_stream k items) /\ last_end a (out_stream k items) = b /\
      Forall wf (out_stream k items).
Proof. exact overlap_multi_correct. Qed.
Print Assumptions C09_overlap_multi_output_equals_whole_run.

(* instances of nested cuts: all per-row outputs (same cuts), and a per-row output with the group former *)
Theorem C09_per_row_outputs_nested_cuts : forall hs : list (row -> list row -> Z), nested_cuts (map f_row hs).
Proof. exact (fun hs => same_cuts_nested _ (f_row_same_cuts hs)). Qed.
Print Assumptions C09_per_row_outputs_nested_cuts.

Theorem C09_dual_count_group_chunking_independent :
  forall kl kr G (group_first : bool) wtuple wl wr d1 k1 d2 k2 orun otgt sw R a b dt run cs,
  0 <= kl -> 0 <= kr -> kl <= 2 * wl -> kr <= 2 * wr -> 0 <= G -> G <= 2 * wl -> G <= 2 * wr ->
  dsp R -> chunking_of R a b dt run cs ->
  let oc := mk_ow_out (f_count kl kr) d1 k1 in
  let og := mk_ow_out (f_group G) d2 k2 in
  let outs := if group_first then [og; oc] else [oc; og] in
  exists items,
    ow_iter (mk_ow_params wtuple wl wr outs orun otgt sw) cs = Ok items /\
    forall k o, nth_error outs k = Some o ->
      flat_map crows (out_stream k items) = oo_f o R /\
      contiguous_from a (out_stream k items) /\ last_end a (out_stream k items) = b /\
      Forall wf (out_stream k items).
Proof. exact dual_count_group_chunking_independent. Qed.
Print Assumptions C09_dual_count_group_chunking_independent.

(* ANY number >= 2 of outputs, in ANY order, each either a per-row output (any payload; window-local within the
   margins) or the group former with threshold G: the cut sets are nested, so every output equals one
   computation over the whole run, for every chunking. *)
Theorem C09_rows_and_group_outputs_chunking_independent :
  forall G wtuple wl wr ml mr outs orun otgt sw R a b dt run cs,
  0 <= wl -> 0 <= wr -> ml <= 2 * wl -> mr <= 2 * wr -> (1 < length outs)%nat ->
  (forall o, In o outs -> window_local ml mr (oo_f o)) ->
  (forall o, In o outs -> (exists h, oo_f o = f_row h) \/ oo_f o = f_group G) ->
  dsp R -> chunking_of R a b dt run cs ->
  exists items,
    ow_iter (mk_ow_params wtuple wl wr outs orun otgt sw) cs = Ok items /\
    forall k o, nth_error outs k = Some o ->
      flat_map crows (out_stream k items) = oo_f o R /\
      contiguous_from a (out_stream k items) /\ last_end a (out_stream k items) = b /\
      Forall wf (out_stream k items).
Proof. exact rows_and_group_chunking_independent. Qed.
Print Assumptions C09_rows_and_group_outputs_chunking_independent.

(* the outputs of the harness plugins (neighbour count, plain copy, group former), any number >= 2 in any order;
   the generator's three-output plugins are instances (Example harness_triple_example) *)
Theorem C09_harness_outputs_chunking_independent :
  forall kl kr G wtuple wl wr outs orun otgt sw R a b dt run cs,
  0 <= kl -> 0 <= kr -> kl <= 2 * wl -> kr <= 2 * wr -> 0 <= G -> G <= 2 * wl -> G <= 2 * wr ->
  (1 < length outs)%nat ->
  (forall o, In o outs -> oo_f o = f_count kl kr \/ oo_f o = f_copy \/ oo_f o = f_group G) ->
  dsp R -> chunking_of R a b dt run cs ->
  exists items,
    ow_iter (mk_ow_params wtuple wl wr outs orun otgt sw) cs = Ok items /\
    forall k o, nth_error outs k = Some o ->
      flat_map crows (out_stream k items) = oo_f o R /\
      contiguous_from a (out_stream k items) /\ last_end a (out_stream k items) = b /\
      Forall wf (out_stream k items).
Proof. exact harness_outputs_chunking_independent. Qed.
Print Assumptions C09_harness_outputs_chunking_independent.

(* DESIGN section 7, T6: the final `yield self.cached_results` never yields None, and a run with no
   input chunk fails (ValueError "Cannot work with empty input buffer") before reaching it. *)
Theorem C09_flush_never_none : forall P cs items,
  ow_iter P cs = Ok items -> cs <> [] /\ Forall (fun it => it <> None) items.
Proof. exact ow_iter_never_yields_none. Qed.
Print Assumptions C09_flush_never_none.

Theorem C09_empty_stream_fails : forall P, ow_iter P [] = Err E_EMPTY_BUFFER.
Proof. exact ow_iter_empty_stream_fails. Qed.
Print Assumptions C09_empty_stream_fails.

(* The property as stated ("all disjoint sorted inputs") with zero-length rows admitted is false of the
   faithful model: a zero-length output row on the early-split time is delivered twice. *)
Definition C09_full_overlap_equals_whole_run_zero_length : Prop :=
  forall R a b dt run cs, dsn R -> chunking_of R a b dt run cs ->
  exists items,
    ow_iter (single_params (f_count 0 0) true 0 0 20 10 (Some 7) 200 3) cs = Ok items /\
    delivered_rows 0 items = f_count 0 0 R.

Theorem C09_overlap_zero_length_rows_refuted :
  exists R a b dt run cs, dsn R /\ chunking_of R a b dt run cs /\
  exists items,
    ow_iter (single_params (f_count 0 0) true 0 0 20 10 (Some 7) 200 3) cs = Ok items /\
    delivered_rows 0 items = [mkrow 0 0 0 0; mkrow 0 0 0 0; mkrow 0 2 1 1] /\
    delivered_rows 0 items <> f_count 0 0 R.
Proof. exact (ex_intro _ _ (ex_intro _ _ (ex_intro _ _ (ex_intro _ _ (ex_intro _ _ (ex_intro _ _ zero_length_witness)))))). Qed.
Print Assumptions C09_overlap_zero_length_rows_refuted.
