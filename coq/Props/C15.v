(* C15 — Loading many runs in parallel equals loading them one by one.
   Only property theorems, each closed by `exact <lemma>` and followed by Print Assumptions. *)
From SV Require Import Base.Prelude Model.MultiRun Proof.MultiRunProof.
From SV Require Import Model.CtxRace Model.CtxRaceWitness Proof.CtxRaceProof Proof.CtxRaceWitnessProof.
From Coq Require Import Sorting.Permutation.

(* multi_run (strax/utils.py): for EVERY completion order / batching of the worker pool *)
Theorem C15_multi_run_order_independent :
  forall (res : Z -> option (list Z)) (cfg : mr_cfg) (ids : list Z) (sched : list (list nat)),
  (0 < mr_workers cfg)%nat ->
  (mr_ignore cfg = true \/ forallb (mr_is_ok res) ids = true ->
     exists fl,
       multi_run res cfg ids sched =
         MROk (if mr_throw cfg then None else Some (mr_expected res cfg ids)) fl (isort ids)
              (Nat.min (2 * mr_workers cfg) (length ids)) /\
       Permutation fl (filter (fun r => negb (mr_is_ok res r)) (isort ids))) /\
  (mr_ignore cfg = false -> forallb (mr_is_ok res) ids = false ->
     exists r sub, multi_run res cfg ids sched = MRRaise r sub /\
                   In r ids /\ res r = None /\ prefix_of sub (isort ids)).
Proof. exact multi_run_order_independent. Qed.
Print Assumptions C15_multi_run_order_independent.

(* The Context code shared by the workers (strax/context.py), as a labelled transition system.
   FULL statement (refuted on the pinned tree, finding D7): whenever the workers' calls succeed one after
   the other, they succeed under every interleaving and obtain the same plugins. *)
Definition C15_full_ctx_race_free : Prop := ctx_race_free_stmt.

(* two workers, two same-kind targets: a concrete interleaving crashes (witness wa1, by vm_compute) *)
Theorem C15_ctx_race_refuted : ~ ctx_race_free_stmt.
Proof. exact ctx_race_refuted. Qed.
Print Assumptions C15_ctx_race_refuted.

(* two workers, ONE target, cold plugin cache: a concrete interleaving crashes as well (witness wb1) *)
Theorem C15_ctx_race_single_target_refuted :
  exists sched, all_done (run_all wb1_cfg wb1_sh wb1_progs [] 400) = true /\
                all_done (run_all wb1_cfg wb1_sh wb1_progs sched 400) = false.
Proof. exact ctx_race_refuted_single_target. Qed.
Print Assumptions C15_ctx_race_single_target_refuted.

(* PARTIAL: if every worker's own sequential execution from the initial shared state executes no writing
   statement and terminates normally (decidable: ro_check; true for single targets on a warm plugin cache,
   Example wb_warm_readonly; checked on the real code by the harness), then EVERY interleaving of any
   number of workers leaves the shared maps untouched, brings every worker to exactly the state its
   sequential execution reaches (same statements, same plugins), and nobody crashes. *)
Theorem C15_ctx_race_free_partial :
  forall (c : cfgm) (sh : shared) (progs : list (list task)) (n : nat),
  forallb (fun p => ro_check c sh (init_thread c sh p) n) progs = true ->
  forall sched : list nat,
    let fin := run_all c sh progs sched n in
    s_sh fin = sh /\
    s_ths fin = map (fun p => solo c sh (init_thread c sh p) n) progs /\
    forallb th_done (s_ths fin) = true.
Proof. exact ctx_race_free_partial. Qed.
Print Assumptions C15_ctx_race_free_partial.
