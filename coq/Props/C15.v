(* C15 — Loading many runs in parallel equals loading them one by one.
   Only property theorems, each closed by `exact <lemma>` and followed by Print Assumptions. *)
From SV Require Import Base.Prelude Model.MultiRun Proof.MultiRunProof.
From SV Require Import Model.CtxRace Proof.CtxRaceProof.
From SV Require Model.CtxRacePinned Model.CtxRacePinnedWitness Proof.CtxRacePinnedProof Proof.CtxRacePinnedWitnessProof.
From Coq Require Import Sorting.Permutation.

(* multi_run (strax/utils.py): for EVERY completion order / batching of the worker pool *)
Theorem C15_multi_run_order_independent :
  forall (res : Z -> option (list Z)) (cfg : mr_cfg) (ids : list Z) (sched : list (list nat)),
  (0 < mr_workers cfg)%nat ->
  (mr_ignore cfg = true \/ forallb (mr_is_ok res) ids = true ->
     exists fl,
       multi_run res cfg ids sched =
         MROk (if mr_throw cfg then None else Some (mr_expected res cfg ids)) fl (isort ids)
              (Nat.min (2 * mr_workers cfg) (length ids)) /\
       Permutation fl (filter (fun r => negb (mr_is_ok res r)) (isort ids))) /\
  (mr_ignore cfg = false -> forallb (mr_is_ok res) ids = false ->
     exists r sub, multi_run res cfg ids sched = MRRaise r sub /\
                   In r ids /\ res r = None /\ prefix_of sub (isort ids)).
Proof. exact multi_run_order_independent. Qed.
Print Assumptions C15_multi_run_order_independent.

(* The Context code shared by the workers (strax/context.py as repaired by /repo commit d202a14: private
   registry copy for the temporary merge plugin, _get_plugins / key_for atomic under a lock).
   For EVERY interleaving of any number of workers, any initial plugin cache (cold or warm), single or
   several same-kind targets, provided the call skeletons are well formed (wf_sys: decidable; checked on the
   skeletons extracted from the real code on every run; Examples in Proof/CtxRaceExamplesProof.v):
   no crash transition is ever reachable, the context's registry is never modified, and when all workers
   have run to their end each of them has finished normally with exactly the plugins its skeleton
   determines. *)
Theorem C15_ctx_race_free :
  forall (c : cfgm) (sh : shared) (progs : list (list item)),
  wf_sys c sh progs = true ->
  forall sched : list nat,
    (forallb (fun th => negb (th_crashed th)) (s_ths (run_sched c (init_sys sh progs) sched)) = true /\
     sh_reg (s_sh (run_sched c (init_sys sh progs) sched)) = sh_reg sh) /\
    forall n, (max_weight c progs <= n)%nat ->
      let fin := run_all c sh progs sched n in
      forallb th_done (s_ths fin) = true /\
      map th_got (s_ths fin) = map (exp_got c) progs /\
      sh_reg (s_sh fin) = sh_reg sh.
Proof. exact ctx_race_free. Qed.
Print Assumptions C15_ctx_race_free.

(* ... hence every interleaving ends like the sequential execution (one worker after the other) *)
Theorem C15_ctx_race_free_sequential :
  forall c sh progs, wf_sys c sh progs = true ->
  forall sched n, (max_weight c progs <= n)%nat ->
    map th_got (s_ths (run_all c sh progs sched n)) = map th_got (s_ths (run_all c sh progs [] n)) /\
    map th_status (s_ths (run_all c sh progs sched n)) = map th_status (s_ths (run_all c sh progs [] n)).
Proof. exact ctx_race_free_sequential. Qed.
Print Assumptions C15_ctx_race_free_sequential.

(* Documentation of finding D7 (fixed by d202a14): the statement-level transition system of the code
   BEFORE the repair (Model/CtxRacePinned.v) is refuted by concrete two-worker interleavings, for two
   same-kind targets (D7a) and for ONE target on a cold cache (D7b); the check replays these interleavings
   on the real code on every run (they must not fail any more). *)
Theorem C15_ctx_race_pinned_refuted : ~ CtxRacePinnedWitnessProof.ctx_race_free_stmt.
Proof. exact CtxRacePinnedWitnessProof.ctx_race_refuted. Qed.
Print Assumptions C15_ctx_race_pinned_refuted.

Theorem C15_ctx_race_pinned_single_target_refuted :
  exists sched,
    CtxRacePinnedWitnessProof.all_done
      (CtxRacePinned.run_all CtxRacePinnedWitness.wb1_cfg CtxRacePinnedWitness.wb1_sh
                             CtxRacePinnedWitness.wb1_progs [] 400) = true /\
    CtxRacePinnedWitnessProof.all_done
      (CtxRacePinned.run_all CtxRacePinnedWitness.wb1_cfg CtxRacePinnedWitness.wb1_sh
                             CtxRacePinnedWitness.wb1_progs sched 400) = false.
Proof. exact CtxRacePinnedWitnessProof.ctx_race_refuted_single_target. Qed.
Print Assumptions C15_ctx_race_pinned_single_target_refuted.
