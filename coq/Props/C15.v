(* C15 — Loading many runs in parallel equals loading them one by one.
   Only property theorems, each closed by `exact <lemma>` and followed by Print Assumptions. *)
From SV Require Import Base.Prelude Model.MultiRun Proof.MultiRunProof.
From Coq Require Import Sorting.Permutation.

(* multi_run (strax/utils.py): for EVERY completion order / batching of the worker pool *)
Theorem C15_multi_run_order_independent :
  forall (res : Z -> option (list Z)) (cfg : mr_cfg) (ids : list Z) (sched : list (list nat)),
  (0 < mr_workers cfg)%nat ->
  (mr_ignore cfg = true \/ forallb (mr_is_ok res) ids = true ->
     exists fl,
       multi_run res cfg ids sched =
         MROk (if mr_throw cfg then None else Some (mr_expected res cfg ids)) fl (isort ids)
              (Nat.min (2 * mr_workers cfg) (length ids)) /\
       Permutation fl (filter (fun r => negb (mr_is_ok res r)) (isort ids))) /\
  (mr_ignore cfg = false -> forallb (mr_is_ok res) ids = false ->
     exists r sub, multi_run res cfg ids sched = MRRaise r sub /\
                   In r ids /\ res r = None /\ prefix_of sub (isort ids)).
Proof. exact multi_run_order_independent. Qed.
Print Assumptions C15_multi_run_order_independent.
