(* GenTie: aggregate of the per-property files.  The theorems live in Props/GenTieC07.v and
   Props/GenTieC17.v, Props/GenTieC18.v (split so that a kernel of one property that no longer translates or refines
   does not break the obligations of the other); this file builds iff all of them do. *)
From SV Require Export Props.GenTieC07 Props.GenTieC17 Props.GenTieC18.
