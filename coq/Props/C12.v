(* C12 — Outputs that violate a plugin's declared contract are rejected, not stored.
   This file contains only property theorems, each closed by `exact <lemma>` and followed by
   Print Assumptions.  W = end_window = CHUNK_END_WINDOW, read from strax/chunk.py on every run.

   Two defects found by this property (design_notes/C12.md F1, F2) in Plugin._fix_output and
   DownChunkingPlugin._fix_output were repaired in /repo (312d850, b7d8cdd).  The model carries both
   code versions (`..._gen fx`, fx = false: before the repair, `pinned`; fx = true: repaired);
   `REPAIRED_F1F2 = true` says /repo has the repaired one, and the un-suffixed definitions are the
   model of the current code.  The `..._pinned_refuted` theorems document the old behaviour. *)
From SV Require Import Model.Rows Model.Chunk Model.PluginKinds Model.C12Harness Spec.C12MatrixSpec
  Proof.PluginKindsProof Proof.PluginOutputProof Proof.C12MatrixProof Proof.C12CurrentProof.

(* ---- Chunk.__init__ ------------------------------------------------------------------------ *)

(* range checks: for every chunk of at most W time-sorted rows the constructor fails iff the range
   is invalid or some row starts before `start` or ends after `end` *)
Theorem C12_ctor_rejects_outside : forall s e rows dt kind run tgt,
  sorted rows -> (length rows <= end_window)%nat ->
  (is_err (mk_chunk s e rows dt kind run tgt) <->
   s < 0 \/ s > e \/ Exists (fun r => rt r < s \/ re r > e) rows).
Proof. exact ctor_rejects_outside. Qed.
Print Assumptions C12_ctor_rejects_outside.

(* ... together with the dtype comparison (as repaired for D2) *)
Theorem C12_ctor_full_spec : forall declared dt s e rows label kind run tgt,
  sorted rows -> (length rows <= end_window)%nat ->
  (is_err (mk_xchunk declared dt s e rows label kind run tgt) <->
   declared <> dt \/ s < 0 \/ s > e \/ Exists (fun r => rt r < s \/ re r > e) rows).
Proof. exact ctor_full_spec. Qed.
Print Assumptions C12_ctor_full_spec.

(* The bound W is the property's own: one row more and a late row hidden before the inspected
   window is accepted (documented limit of the sanity check, not a finding). *)
Theorem C12_ctor_beyond_window_refuted :
  exists rows, sorted rows /\ length rows = S end_window /\
               Exists (fun r => re r > 10) rows /\
               ~ is_err (mk_chunk 0 10 rows 1 1 (Some 0) 1).
Proof. exact ctor_beyond_window_refuted. Qed.
Print Assumptions C12_ctor_beyond_window_refuted.

(* the 500 rows of the property's statement are within the window the code inspects *)
Theorem C12_window_covers_property_bound : 500 <= CHUNK_END_WINDOW.
Proof. exact window_covers_property_bound. Qed.
Print Assumptions C12_window_covers_property_bound.

(* ---- continuity_check ----------------------------------------------------------------------- *)

Theorem C12_continuity_rejects_gap_overlap : forall r cs,
  Forall (fun c => crun c = Some r) cs ->
  (continuity_check cs = None <-> contiguous cs).
Proof. exact continuity_rejects_gap_overlap. Qed.
Print Assumptions C12_continuity_rejects_gap_overlap.

(* ---- Plugin._fix_output (current code), for every plugin declaration and every payload -------- *)

Theorem C12_bare_wrong_dtype_rejected : forall p dt rows s e d,
  dt <> dtype_for p d -> fix_output_single p (IArr dt rows) (Some (s, e)) d = Err E_WRONG_OUTPUT.
Proof. exact (fix_single_bare_wrong_dtype REPAIRED_F1F2). Qed.
Print Assumptions C12_bare_wrong_dtype_rejected.

Theorem C12_self_chunk_wrong_dtype_rejected : forall p dt label kind s e rows range d,
  dt <> dtype_for p label ->
  fix_output_single p (IMk (dtype_for p label) dt label kind s e rows) range d = Err E_CTOR_DTYPE.
Proof. exact (fix_single_self_chunk_wrong_dtype REPAIRED_F1F2). Qed.
Print Assumptions C12_self_chunk_wrong_dtype_rejected.

Theorem C12_wrong_label_rejected : forall p declared dt label kind s e rows range d,
  label <> d -> is_err (fix_output_single p (IMk declared dt label kind s e rows) range d).
Proof. exact (fix_single_label REPAIRED_F1F2). Qed.
Print Assumptions C12_wrong_label_rejected.

Theorem C12_rows_outside_rejected : forall p rows s e d,
  sorted rows -> (length rows <= end_window)%nat ->
  Exists (fun r => rt r < s \/ re r > e) rows ->
  is_err (fix_output_single p (IArr (dtype_for p d) rows) (Some (s, e)) d).
Proof. exact (fix_single_rows_outside REPAIRED_F1F2). Qed.
Print Assumptions C12_rows_outside_rejected.

Theorem C12_source_must_return_chunks : forall p i d,
  is_chunk_item i = false -> fix_output_single p i None d = Err E_SRC_NOT_CHUNK.
Proof. exact (fix_single_source_not_chunk REPAIRED_F1F2). Qed.
Print Assumptions C12_source_must_return_chunks.

Theorem C12_multi_output_requires_dict : forall p i range,
  multi_output p = true -> fix_output p (VItem i) range = Err E_NOT_DICT.
Proof. exact (fix_output_multi_requires_dict REPAIRED_F1F2). Qed.
Print Assumptions C12_multi_output_requires_dict.

Theorem C12_multi_output_requires_every_key : forall p l range d,
  multi_output p = true -> In d (p_provides p) -> assoc d l = None -> is_err (fix_output p (VDict l) range).
Proof. exact (fix_output_multi_missing_key REPAIRED_F1F2). Qed.
Print Assumptions C12_multi_output_requires_every_key.

(* an accepted output carries the promised label, passes the range checks, and has the declared
   dtype unless it is a chunk the plugin built itself with another dtype argument (F1) *)
Theorem C12_accepted_output : forall p i range d x,
  fix_output_single p i range d = Ok x ->
  cdtype (xc x) = d /\ range_ok (xc x) /\
  (is_chunk_item i = false -> xdt x = dtype_for p d) /\
  (forall declared dt label kind s e rows, i = IMk declared dt label kind s e rows -> xdt x = declared /\ dt = declared) /\
  (REPAIRED_F1F2 = true -> xdt x = dtype_for p d).
Proof. exact (fix_single_ok_inv REPAIRED_F1F2). Qed.
Print Assumptions C12_accepted_output.

Theorem C12_accepted_message_labels : forall p v range cs,
  fix_output p v range = Ok cs -> map (fun x => cdtype (xc x)) cs = p_provides p.
Proof. exact (fix_output_ok_labels REPAIRED_F1F2). Qed.
Print Assumptions C12_accepted_message_labels.

(* every accepted output has the declared dtype (F1 repaired by 312d850) *)
Theorem C12_fix_output_dtype : forall p i range d x,
  fix_output_single p i range d = Ok x -> xdt x = dtype_for p d.
Proof. exact fix_output_dtype. Qed.
Print Assumptions C12_fix_output_dtype.

(* a chunk the plugin built itself (raw constructor, any dtype argument) around data of another
   dtype than declared is rejected *)
Theorem C12_raw_chunk_wrong_dtype_rejected : forall p declared dt label kind s e rows range d,
  declared <> dtype_for p d ->
  is_err (fix_output_single p (IMk declared dt label kind s e rows) range d).
Proof. exact fix_single_raw_chunk_wrong_dtype. Qed.
Print Assumptions C12_raw_chunk_wrong_dtype_rejected.

(* F1, documentation of the old behaviour: the code before 312d850 accepted such a chunk *)
Theorem C12_fix_output_dtype_pinned_refuted :
  exists p i range d x, fix_output_single_gen false p i range d = Ok x /\ xdt x <> dtype_for p d.
Proof. exact fix_output_dtype_pinned_refuted. Qed.
Print Assumptions C12_fix_output_dtype_pinned_refuted.

(* ---- DownChunkingPlugin._fix_output --------------------------------------------------------- *)

Theorem C12_down_requires_generator : forall p v range,
  p_kind p = KDown -> do_compute_out p (PVal v) range = [Err E_NOT_GENERATOR].
Proof. exact (down_requires_generator REPAIRED_F1F2). Qed.
Print Assumptions C12_down_requires_generator.

Theorem C12_down_requires_chunks : forall p i, is_chunk_item i = false -> is_err (down_one p (VItem i)).
Proof. exact (down_requires_chunks REPAIRED_F1F2). Qed.
Print Assumptions C12_down_requires_chunks.

(* a yielded chunk carries a promised label and the declared dtype (F2 repaired by b7d8cdd) *)
Theorem C12_down_label_dtype : forall p i x,
  down_one p (VItem i) = Ok [x] ->
  In (cdtype (xc x)) (p_provides p) /\ xdt x = dtype_for p (cdtype (xc x)).
Proof. exact down_label_dtype. Qed.
Print Assumptions C12_down_label_dtype.

(* F2, documentation of the old behaviour: the code before b7d8cdd compared neither *)
Theorem C12_down_label_pinned_refuted :
  exists p i x, multi_output p = false /\ down_one_gen false p (VItem i) = Ok [x] /\
                ~ In (cdtype (xc x)) (p_provides p).
Proof. exact down_label_pinned_refuted. Qed.
Print Assumptions C12_down_label_pinned_refuted.
(* ---- the run: savers, continuity check on the target, exception path ------------------------- *)

(* if the output path raises for any chunk of the run, the caller gets an exception and no saver's
   data becomes visible -- for every plugin, every stream of messages, every position *)
Theorem C12_violation_stops_run : forall p target rechunk ms,
  Exists is_err ms ->
  is_err (o_result (run_pipeline p target rechunk ms)) /\
  Forall (fun sv => visible sv = false) (o_savers (run_pipeline p target rechunk ms)).
Proof. exact run_pipeline_rejects. Qed.
Print Assumptions C12_violation_stops_run.

(* any exception of the run, whoever raised it (plugin, saver, continuity check) *)
Theorem C12_exception_leaves_nothing_visible : forall p target rechunk ms,
  is_err (o_result (run_pipeline p target rechunk ms)) ->
  Forall (fun sv => visible sv = false) (o_savers (run_pipeline p target rechunk ms)).
Proof. exact run_pipeline_err_invisible. Qed.
Print Assumptions C12_exception_leaves_nothing_visible.

(* what is handed to the caller is contiguous, and no message of the run was an exception *)
Theorem C12_result_contiguous : forall p target rechunk ms cs,
  o_result (run_pipeline p target rechunk ms) = Ok cs ->
  contiguous (map xc cs) /\ Forall (fun m => ~ is_err m) ms.
Proof. exact run_pipeline_ok_contiguous. Qed.
Print Assumptions C12_result_contiguous.

(* ---- the violation matrix ------------------------------------------------------------------- *)

(* Domain (Spec/C12MatrixSpec.v): plugin kind k; violation kind vk applicable to k; dtype variant
   dv; offending output w of a multi-output plugin; other variant ov; run shape (n source chunks,
   r rows each) in `shapes`; position pos < n of the offending chunk; rechunk_on_save; get_array
   or make.  cell_rejected = the caller gets an exception and the offending data type is not
   served from storage afterwards.  Decided by vm_compute over the finite domain and lifted with
   forallb_forall. *)
Theorem C12_violation_matrix : forall k vk dv w ov n r pos rechunk ga,
  In vk (applicable_vks k) -> In dv (dvs vk) -> In w (whichs k vk) -> In ov (ovs k vk) ->
  In (n, r) shapes -> (pos < n)%nat -> shape_ok vk n = true ->
  cell_rejected (mkcell k vk dv w ov pos n r rechunk ga) = true.
Proof. exact violation_matrix. Qed.
Print Assumptions C12_violation_matrix.

(* documentation of the old behaviour: before 312d850 / b7d8cdd the matrix was false in exactly
   the cells of is_escape_gen false; smallest failing runs *)
Theorem C12_violation_matrix_pinned_refuted :
  cell_rejected_gen false (mkcell KSource   VK_DTYPE_RAW 0 0 0 0 1 3 false false) = false /\
  cell_rejected_gen false (mkcell KOrdinary VK_DTYPE_RAW 0 0 0 0 1 3 false false) = false /\
  cell_rejected_gen false (mkcell KMulti    VK_DTYPE_RAW 0 0 0 0 1 3 false false) = false /\
  cell_rejected_gen false (mkcell KDown     VK_DTYPE_RAW 0 0 0 0 1 3 false false) = false /\
  cell_rejected_gen false (mkcell KOverlap  VK_DTYPE_RAW 0 0 0 0 1 3 false false) = false /\
  cell_rejected_gen false (mkcell KDown     VK_LABEL     0 0 0 0 1 3 false false) = false.
Proof. exact violation_matrix_pinned_refuted. Qed.
Print Assumptions C12_violation_matrix_pinned_refuted.

Theorem C12_pinned_matrix_escapes_exact : forall k vk, In vk (applicable_vks k) ->
  (is_escape_gen false k vk = true <-> exists c, In c (cells_of k vk) /\ cell_rejected_gen false c = false).
Proof. exact (escapes_exact_gen false). Qed.
Print Assumptions C12_pinned_matrix_escapes_exact.

(* non-vacuity: well-behaved plugins of every kind run through and are served from storage *)
Theorem C12_good_cells_accepted : forall k n r rechunk ga,
  In (n, r) shapes ->
  cell_result_code (mkcell k VK_GOOD 0 0 0 0 n r rechunk ga) = 0 /\
  cell_visible (mkcell k VK_GOOD 0 0 0 0 n r rechunk ga) (cell_target (mkcell k VK_GOOD 0 0 0 0 n r rechunk ga)) = true.
Proof. exact good_cells_accepted. Qed.
Print Assumptions C12_good_cells_accepted.
